/-
  C11, UBJSON path, STAGE 2b — `map[string]T`, `T` scalar (continuation of SF/Proofs/FuUbjTop.lean:
  same pipeline, same conclusion shape, same parser-entry clauses `reader_clauses`).

  Fold's ONE typed-map event (members in the order the order oracle dictates, `hintOK o.order`) is
  written by the UBJSON encoder NATIVELY (no expansion through map.go, unlike cborl):
    * an empty / nil map as `{}`                → the parser reports `OnObjectStart(-1, any)`, `OnObjectFinished`,
    * `map[string]bool` as a COUNTED object `{#n (key T|F)ⁿ`,
    * everything else as a TYPED object `{$t#n (key payload)ⁿ` — for `map[string]uint16/32/64/uint` with
      the narrowest marker that holds ALL values (`utOfVals ms`; it does not depend on the iteration
      order: `minUT_perm`) —,
  and for a non-empty map the parser reports `OnObjectStart(n, any)`, key / value for `mems` — a
  permutation of the entries, every integer under the ONE kind `ubjElemKind k (utOfVals ms)`
  (`ubjScT`) —, `OnObjectFinished` (`objEvents mems`).  The target holds exactly the translated
  entries (`fin`, a permutation); nil and empty both come back as nil (`mapSt`).

  SIDE CONDITIONS (explicit, decidable), elementwise as for `[]T`:
   * `fitsV m.2`: no value above MaxInt64.  NEEDED: `map_one_big_value_refused` — ONE such value makes
     the encoder choose the element type `H` for the whole object; EVERY value, also `5`, arrives as a
     string and the `map[string]uint64` target refuses.
   * `sizedV` of keys and values, fewer than 2^63 entries: a length / count of 2^63 is written as
     int64 MinInt64 and refused with `negativeLen` — `huge_length_refused` (FuUbjTop.lean) for strings
     and array headers, `huge_object_count_refused` below for the object headers and a key.
-/
import SF.Proofs.FuUbjMap
import SF.Proofs.FuUbjTop
namespace SF.Props.FuUbj
open SF SF.Gotype SF.Gotype.Fold SF.FoldProofs SF.FuId SF.FuCbor SF.FuUbj
open SF.Ubjson
open SF.Unf (Ctx newUnfolder setTarget)
open SF.Ops.Unf (evToUEv)
open SF.Ops.Fu (feed agreeF)

/-- STAGE 2b — `map[string]T`, `T` scalar: nil, empty, or any entries `ms` with pairwise distinct
string keys, each value one UBJSON can carry, under EVERY iteration order the order oracle dictates
(`hintOK`). -/
theorem fold_ubj_unfold_map (o : FoldOpts) (hfail : o.failAt = none) (hord : hintOK o.order) (p : Prim) (v : GoVal)
    (ms : List (GoVal × GoVal)) (hv : mapEntries? v = some ms) (hms : ∀ m ∈ ms, hasEntry p m = true)
    (hnd : (ms.map fun m => getS m.1).Nodup)
    (hz : ∀ m ∈ ms, sizedV m.1 = true ∧ sizedV m.2 = true) (hf : ∀ m ∈ ms, fitsV m.2 = true)
    (hn : ms.length < 9223372036854775808) :
    ∃ ut c0 c1 fin s pr, ∃ mems : List (Bytes × Unf.Sc),
      Unf.Tr.trType (.map .string (primTy p)) = some ut ∧
      setTarget Unf.Tr.fuTable ut (Unf.zero Unf.Tr.fuTable ut) newUnfolder = .ok c0 ∧
      (impl o (.map .string (primTy p)) v).res = .ok ∧
      Enc.run {} (impl o (.map .string (primTy p)) v).evs = (s, none) ∧ s.w.out ≠ [] ∧
      Parse.parse {} s.w.out = (pr, none) ∧ Idle pr ∧
      (∀ cs : List Bytes, cs.flatten = s.w.out → (Parse.writeChunks {} cs).2 ≠ some .outOfFuel →
        Parse.writeChunks {} cs = (pr, none)) ∧
      (s.w.out.length ≤ 32768 → SF.Ops.Ubjson.parseEvents [s.w.out] = (Parse.events pr, "ok")) ∧
      ((Parse.parseReader (Parse.init none) [s.w.out]).2 ≠ some .outOfFuel →
        SF.Ops.Ubjson.parseEvents [s.w.out] = (Parse.events pr, "ok")) ∧
      mems.Perm (ms.map fun m => (getS m.1, ubjScT (utOfVals ms) (scOfElem false p m.2))) ∧
      Parse.events pr = (if mems.isEmpty then [.objStart (-1) BT.any, .objEnd]
        else .objStart mems.length BT.any :: memEvs mems ++ [.objEnd]) ∧
      feed c0 ((Parse.events pr).map fun e => [evToUEv e]) = (c1, none) ∧
      fin.Perm (ms.map fun m => (getS m.1, trPrim p m.2)) ∧
      c1.target = (if fin.isEmpty then .mapNil (uPrimTy p) else .map (uPrimTy p) fin) ∧
      c1 = { newUnfolder with target := c1.target, env := Unf.Tr.fuTable } ∧
      agreeF "ubjson" 1000 (.map .string (primTy p)) v (back c1.target) = true ∧
      (∀ path, (path == "json") = false → agreeF path 1000 (.map .string (primTy p)) v (back c1.target) = true) := by
  obtain ⟨c0, fin, s, pr, mems, h1, h2, hp, h3, h4, h5, h6, hpm, h7, h8⟩ :=
    map_ubj_run o hfail hord p v ms hv hms hnd hz hf hn
  obtain ⟨r1, r2, r3⟩ := reader_clauses s.w.out pr h4 h5
  exact ⟨_, c0, _, fin, s, pr, mems, trType_map p, h2, h1, h3, h4, h5, h6, r1, r2, r3, hpm, h7, h8, hp, rfl, rfl,
    agree_mapP _ ubjson_not_json 998 p v ms fin hv hms hnd hp,
    fun path hj => agree_mapP path hj 998 p v ms fin hv hms hnd hp⟩

/-- THE CODEC LEG ALONE, for ANY typed-map event `x` (`isObjX`: boolObj / strObj / numObj / f32Obj /
f64Obj, members in any order) whose keys are shorter than 2^63, whose values are in the range of
their kind and at most MaxInt64, with fewer than 2^63 members: the encoder accepts it, the parser
accepts the bytes, is idle again and has delivered `objEvents (ubjMems x)` -/
theorem ubj_typed_object_leg (x : XEv) (hx : isObjX x = true)
    (hs : ∀ m ∈ objMems x, m.1.length < 9223372036854775808 ∧ scSmall m.2 = true)
    (hf : ∀ m ∈ objMems x, scFits m.2 = true) (hn : (objMems x).length < 9223372036854775808) :
    ∃ s pr, Enc.run {} [x] = (s, none) ∧ s.w.out ≠ [] ∧ Parse.parse {} s.w.out = (pr, none) ∧ Idle pr ∧
      Parse.events pr = objEvents (ubjMems x) := by
  obtain ⟨hl1, hl2, hl3⟩ := leaf_objX x hx
  obtain ⟨s, pr, h1, _, h3, h4, h5, h6⟩ := leaf_leg x hl1 (by rw [hl2]; exact small_objX x hx hs hn)
  rw [hl3, objX_events x hx (fun m hm => (hs m hm).2) hf] at h6
  exact ⟨s, pr, h1, h3, h4, h5, h6⟩

/-! ## non-vacuity (`pipe` / `wireEvents` of FuUbjTop.lean, evaluated by the kernel) -/

/- `map[string]string{"a":"b", "b":"c"}` under an order oracle that asks for "b" first (`hintOK` of it:
FuIdTop.lean); `map[string]uint16{"k": 5, "l": 60000}` (typed object of int32: both values arrive as
OnInt32); `map[string]bool{"k": true}` (counted object); `map[string]float32{"k": sNaN}`; nil
`map[string]int8` (written as `{}`) -/
example : (∀ m ∈ [(GoVal.str [107], GoVal.int 5), (.str [108], .int 60000)],
      hasEntry (.num .u16) m = true ∧ fitsV m.2 = true ∧ sizedV m.1 = true ∧ sizedV m.2 = true) ∧
    (match pipe { order := [.strObj [([98], []), ([97], [])]] } (.map .string .string)
      (.map [(.str [97], .str [98]), (.str [98], .str [99])]) with
    | some (.map .string [([98], .str [99]), ([97], .str [98])]) => true
    | _ => false) = true ∧
    wireEvents {} (.map .string (.int .u16)) (.map [(.str [107], .int 5), (.str [108], .int 60000)]) =
      [.objStart 2 BT.any, .key [107], .num .i32 5, .key [108], .num .i32 60000, .objEnd] ∧
    (match pipe {} (.map .string (.int .u16)) (.map [(.str [107], .int 5), (.str [108], .int 60000)]) with
     | some (.map (.int .u16) [([107], .int .u16 5), ([108], .int .u16 60000)]) => true | _ => false) = true ∧
    wireEvents {} (.map .string .bool) (.map [(.str [107], .bool true)]) =
      [.objStart 1 BT.any, .key [107], .bool true, .objEnd] ∧
    (match pipe {} (.map .string .float32) (.map [(.str [107], .f32 0x7fa00001)]) with
     | some (.map .float32 [([107], .f32 0x7fa00001)]) => true | _ => false) = true ∧
    wireEvents {} (.map .string (.int .i8)) .nilMap = [.objStart (-1) BT.any, .objEnd] ∧
    (match pipe {} (.map .string (.int .i8)) .nilMap with
     | some (.mapNil (.int .i8)) => true | _ => false) = true := by decide +kernel

/-- WHY `fitsV` CANNOT BE DROPPED (maps): ONE value above MaxInt64 makes the encoder choose the
element type `H` for the whole typed object: every value — also `5` — arrives as a string, and the
`map[string]uint64` target refuses -/
theorem map_one_big_value_refused :
    (∀ m ∈ [(GoVal.str [107], GoVal.int 5), (.str [108], .int 9223372036854775808)],
      hasEntry (.num .u64) m = true) ∧
    wireEvents {} (.map .string (.int .u64)) (.map [(.str [107], .int 5), (.str [108], .int 9223372036854775808)]) =
      [.objStart 2 BT.any, .key [107], .str [53], .key [108],
       .str [57, 50, 50, 51, 51, 55, 50, 48, 51, 54, 56, 53, 52, 55, 55, 53, 56, 48, 56], .objEnd] ∧
    (pipe {} (.map .string (.int .u64))
      (.map [(.str [107], .int 5), (.str [108], .int 9223372036854775808)])).isSome = false := by
  decide +kernel

/-- WHY THE SIZE HYPOTHESES CANNOT BE DROPPED (maps): a count / key length of 2^63 is written as int64
MinInt64; the parser refuses a typed-object header, a counted-object header and a key carrying it
with `negativeLen` -/
theorem huge_object_count_refused :
    (Parse.parse {} [0x7b, 0x24, 0x69, 0x23, 0x4c, 0x80, 0, 0, 0, 0, 0, 0, 0]).2 = some .negativeLen ∧
    (Parse.parse {} [0x7b, 0x23, 0x4c, 0x80, 0, 0, 0, 0, 0, 0, 0]).2 = some .negativeLen ∧
    (Parse.parse {} [0x7b, 0x4c, 0x80, 0, 0, 0, 0, 0, 0, 0]).2 = some .negativeLen := by decide +kernel

end SF.Props.FuUbj
