/-
  C13 for `[]T` targets, specification side: `Spec.assign` on an array of scalars, and the oracle's
  comparison (`sameVal`) of the stored slice with the specified one.
-/
import SF.Proofs.UnfTyValArr
namespace SF.Unf
open SF SF.Unf.Spec

/-- the comparison of the oracle as an equation -/
def printEq (a b : GoVal) : Prop := (norm a).print = (norm b).print

theorem sameVal_iff (a b : GoVal) : sameVal a b = true ↔ printEq a b := by
  unfold sameVal printEq
  exact beq_iff_eq

/-- element by element: what the kind converts is what the specification assigns -/
inductive ElemsOK (nb : Prop) : List GoVal → List GoVal → Prop
  | nil : ElemsOK nb [] []
  | cons {w w' : GoVal} {ws wants : List GoVal} (h1 : printEq w w') (h2 : nb → w = w') (h : ElemsOK nb ws wants) :
      ElemsOK nb (w :: ws) (w' :: wants)

theorem assignElems_scalars (tbl : TypeTable) (ip : Bool) (e : GoType) (k : PK) (hk : PK.ofExact? e = some k)
    (hki : k ≠ .ifc) :
    ∀ (scs : List Sc) (n : Nat) (olds wants : List GoVal), (∀ s ∈ scs, s.inRange = true) →
      assignElems tbl ip n e olds (scs.map STree.sc) = some wants →
      ∃ ws, convList k scs = some ws ∧ ElemsOK (∀ nk, e = .int nk → normKind nk = nk) ws wants := by
  intro scs
  induction scs with
  | nil =>
    intro n olds wants _ h
    cases n with
    | zero => simp [assignElems] at h
    | succ n =>
      simp [assignElems] at h
      subst h
      exact ⟨[], rfl, ElemsOK.nil⟩
  | cons s r ih =>
    intro n olds wants hin h
    cases n with
    | zero => simp [assignElems] at h
    | succ n =>
      simp only [List.map_cons, assignElems] at h
      split at h
      · rename_i v vs hv hvs
        injection h with h
        subst h
        cases n with
        | zero => simp [assign] at hv
        | succ n =>
          obtain ⟨w, hc, hsame, heq⟩ := assign_scalar_conv tbl ip n e k _ v s hk hki (hin s List.mem_cons_self) hv
          obtain ⟨ws, hws, hall⟩ := ih (n + 1) _ vs (fun s' hs' => hin s' (List.mem_cons_of_mem _ hs')) hvs
          exact ⟨w :: ws, by simp [convList, hc, hws], ElemsOK.cons ((sameVal_iff _ _).mp hsame) heq hall⟩
      · cases h

theorem printList_normList (nb : Prop) (ws wants : List GoVal) (h : ElemsOK nb ws wants) :
    printList (normList ws) = printList (normList wants) := by
  induction h with
  | nil => rfl
  | cons h1 _ _ ih =>
    simp only [normList, printList]
    rw [ih]
    congr 1

theorem ElemsOK.eq {nb : Prop} {ws wants : List GoVal} (h : ElemsOK nb ws wants) (hnb : nb) : ws = wants := by
  induction h with
  | nil => rfl
  | cons _ h2 _ ih => rw [h2 hnb, ih]

theorem ElemsOK.isEmpty {nb : Prop} {ws wants : List GoVal} (h : ElemsOK nb ws wants) : ws.isEmpty = wants.isEmpty := by
  cases h <;> rfl

/-- the stored slice is the specified one for the oracle -/
theorem sameVal_sliceFin (nb : Prop) (v0 : GoVal) (e : GoType) (ws wants : List GoVal) (hv : isSliceVal v0)
    (h : ElemsOK nb ws wants) : sameVal (sliceTargetFin v0 ws) (.slice e wants []) = true := by
  rw [sameVal_iff]
  unfold printEq
  have h1 : ∃ et, norm (sliceTargetFin v0 ws) = norm (.slice et ws []) := by
    cases v0 with
    | sliceNil et => exact ⟨et, norm_sliceFin et _⟩
    | slice et es hh => exact ⟨et, by simp only [sliceTargetFin, norm_slice]⟩
    | _ => exact absurd hv (by simp [isSliceVal])
  obtain ⟨et, h1⟩ := h1
  rw [h1, norm_slice, norm_slice, h.isEmpty]
  cases hw : wants.isEmpty with
  | true => simp [GoVal.print]
  | false => simp [GoVal.print, printList_normList nb ws wants h]

/-- `Spec.assign` for a slice type on an array -/
theorem assign_slice_arr (tbl : TypeTable) (ip : Bool) (n : Nat) (e : GoType) (old want : GoVal) (bt : Nat)
    (xs : List STree) (ha : assign tbl ip (n + 1) (.slice e) old (.arr bt xs) = some want) :
    ∃ olds wants, assignElems tbl ip n e olds xs = some wants ∧ want = .slice e wants [] := by
  unfold assign at ha
  simp only [GoType.un, resolveFuel, GoType.under] at ha
  obtain ⟨wants, hx, hw⟩ := Option.map_eq_some_iff.mp ha
  exact ⟨_, wants, hx, hw.symm⟩

end SF.Unf
