/-
  Side conditions of the ENCODER theorems (`small`, `noBig`, `plain`, `utf8Tree` — predicates on
  event trees) for the event tree `it.tree` of a grammatical UBJSON item (SF/Proofs/UbjTree.lean),
  expressed on the item:

    * every number the UBJSON parser delivers is in the range of its kind and ≤ MaxInt64
      (`tree_noBig`; `H` high-precision numbers are delivered as strings);
    * every announced length / string length fits an `int64` (it was read from one);
    * what is NOT bounded by the grammar is the number of elements of a PLAIN (`[ … ]`, `{ … }`)
      container: `sized` asks for fewer than 2^63 of them — implied by a document shorter than
      2^63 bytes (`sized_of_wire_length`);
    * `noFloat` / `utf8` — for the JSON encoder theorem.
-/
import SF.Proofs.UbjTree
import SF.Proofs.UbjEncValue
import SF.Proofs.UbjBridgeEnc
import SF.Proofs.JsonEncParse
namespace SF.Ubjson.Syn
open SF SF.Ubjson
open SF.Cbor.Enc (small smallList smallMems)
open SF.Ubjson.Enc (noBig noBigList noBigMems smallU smallUList smallUMems)

mutual
/-- plain (uncounted) containers have fewer than 2^63 elements -/
def sized : Item → Bool
  | .arr xs _ => decide (xs.length < 9223372036854775808) && sizedElems xs
  | .arrN _ xs => sizedElems xs
  | .arrT _ _ xs => sizedList xs
  | .obj ms => decide (ms.length < 9223372036854775808) && sizedMems ms
  | .objN _ ms => sizedMems ms
  | .objT _ _ ms => sizedMems ms
  | _ => true
def sizedElems : List (Nat × Item) → Bool
  | [] => true
  | (_, x) :: xs => sized x && sizedElems xs
def sizedList : List Item → Bool
  | [] => true
  | x :: xs => sized x && sizedList xs
def sizedMems : List (LW × Bytes × Item) → Bool
  | [] => true
  | (_, _, v) :: ms => sized v && sizedMems ms
end

theorem fits_lt (w : LW) (n : Nat) (h : w.fits n = true) : n < 9223372036854775808 := by
  cases w <;> simp only [LW.fits, decide_eq_true_eq] at h <;> omega

/-! ## `small` -/

mutual
/-- the numbers, string lengths and counts of a grammatical item are those of Go values -/
theorem tree_small (x : Item) (h : x.ok = true) (hz : sized x = true) : small x.tree = true := by
  match x with
  | .null | .tru | .fals | .f32 _ | .f64 _ => rfl
  | .int k v =>
    simp only [Item.ok, IK.inRange] at h
    simp only [Item.tree, small, h]
  | .char c =>
    have := c.toNat_lt
    simp only [Item.tree, small, NumKind.inRange, NumKind.lo, NumKind.hi, Bool.and_eq_true]
    exact ⟨decide_eq_true (by omega), decide_eq_true (by omega)⟩
  | .str w s =>
    simp only [Item.ok] at h
    simp only [Item.tree, small, decide_eq_true_eq]
    exact fits_lt w _ h
  | .hp w s =>
    simp only [Item.ok] at h
    simp only [Item.tree, small, decide_eq_true_eq]
    exact fits_lt w _ h
  | .arr xs t =>
    simp only [Item.ok] at h
    simp only [sized, Bool.and_eq_true, decide_eq_true_eq] at hz
    simp only [Item.tree, small, treeElems_length, Bool.and_eq_true, decide_eq_true_eq]
    exact ⟨hz.1, treeElems_small xs h hz.2⟩
  | .arrN w xs =>
    simp only [Item.ok, Bool.and_eq_true] at h
    simp only [sized] at hz
    simp only [Item.tree, small, treeElems_length, Bool.and_eq_true, decide_eq_true_eq]
    exact ⟨fits_lt w _ h.1, treeElems_small xs h.2 hz⟩
  | .arrT t w xs =>
    simp only [Item.ok, Bool.and_eq_true] at h
    simp only [sized] at hz
    simp only [Item.tree, small, treeList_length, Bool.and_eq_true, decide_eq_true_eq]
    exact ⟨fits_lt w _ h.1.2, treeList_small t xs h.2 hz⟩
  | .obj ms =>
    simp only [Item.ok] at h
    simp only [sized, Bool.and_eq_true, decide_eq_true_eq] at hz
    simp only [Item.tree, small, treeMems_length, Bool.and_eq_true, decide_eq_true_eq]
    exact ⟨hz.1, treeMems_small ms h hz.2⟩
  | .objN w ms =>
    simp only [Item.ok, Bool.and_eq_true] at h
    simp only [sized] at hz
    simp only [Item.tree, small, treeMems_length, Bool.and_eq_true, decide_eq_true_eq]
    exact ⟨fits_lt w _ h.1, treeMems_small ms h.2 hz⟩
  | .objT t w ms =>
    simp only [Item.ok, Bool.and_eq_true] at h
    simp only [sized] at hz
    simp only [Item.tree, small, treeMems_length, Bool.and_eq_true, decide_eq_true_eq]
    exact ⟨fits_lt w _ h.1.2, treeMemsT_small t ms h.2 hz⟩
theorem treeElems_small (xs : List (Nat × Item)) (h : okElems xs = true) (hz : sizedElems xs = true) :
    smallList (treeElems xs) = true := by
  match xs with
  | [] => rfl
  | (n, x) :: xs' =>
    simp only [okElems, Bool.and_eq_true] at h
    simp only [sizedElems, Bool.and_eq_true] at hz
    simp only [treeElems, smallList, tree_small x h.1 hz.1, treeElems_small xs' h.2 hz.2, Bool.and_self]
theorem treeList_small (t : UInt8) (xs : List Item) (h : okTyped t xs = true) (hz : sizedList xs = true) :
    smallList (treeList xs) = true := by
  match xs with
  | [] => rfl
  | x :: xs' =>
    simp only [okTyped, Bool.and_eq_true] at h
    simp only [sizedList, Bool.and_eq_true] at hz
    simp only [treeList, smallList, tree_small x h.1.1 hz.1, treeList_small t xs' h.2 hz.2, Bool.and_self]
theorem treeMems_small (ms : List (LW × Bytes × Item)) (h : okMems ms = true) (hz : sizedMems ms = true) :
    smallMems (treeMems ms) = true := by
  match ms with
  | [] => rfl
  | (kw, k, v) :: ms' =>
    simp only [okMems, Bool.and_eq_true] at h
    simp only [sizedMems, Bool.and_eq_true] at hz
    simp only [treeMems, smallMems, tree_small v h.1.2 hz.1, treeMems_small ms' h.2 hz.2,
      Bool.and_true, decide_eq_true_eq]
    exact fits_lt kw _ h.1.1
theorem treeMemsT_small (t : UInt8) (ms : List (LW × Bytes × Item)) (h : okMemsT t ms = true)
    (hz : sizedMems ms = true) : smallMems (treeMems ms) = true := by
  match ms with
  | [] => rfl
  | (kw, k, v) :: ms' =>
    simp only [okMemsT, Bool.and_eq_true] at h
    simp only [sizedMems, Bool.and_eq_true] at hz
    simp only [treeMems, smallMems, tree_small v h.1.1.2 hz.1, treeMemsT_small t ms' h.2 hz.2,
      Bool.and_true, decide_eq_true_eq]
    exact fits_lt kw _ h.1.1.1
end

/-! ## `smallU`: no condition on plain containers -/

mutual
/-- for the UBJSON encoder (whose side condition `smallU` bounds announced counts only) a
grammatical item needs NO further condition -/
theorem tree_smallU (x : Item) (h : x.ok = true) : smallU x.tree = true := by
  match x with
  | .null | .tru | .fals | .f32 _ | .f64 _ => rfl
  | .int k v => exact tree_small (.int k v) h rfl
  | .char c => exact tree_small (.char c) h rfl
  | .str w s => exact tree_small (.str w s) h rfl
  | .hp w s => exact tree_small (.hp w s) h rfl
  | .arr xs t =>
    simp only [Item.ok] at h
    simp only [Item.tree, smallU, treeElems_smallU xs h]
    rfl
  | .arrN w xs =>
    simp only [Item.ok, Bool.and_eq_true] at h
    simp only [Item.tree, smallU, treeElems_length, treeElems_smallU xs h.2, Bool.and_true, Bool.or_eq_true,
      decide_eq_true_eq]
    exact Or.inr (fits_lt w _ h.1)
  | .arrT t w xs =>
    simp only [Item.ok, Bool.and_eq_true] at h
    simp only [Item.tree, smallU, treeList_length, treeList_smallU t xs h.2, Bool.and_true, Bool.or_eq_true,
      decide_eq_true_eq]
    exact Or.inr (fits_lt w _ h.1.2)
  | .obj ms =>
    simp only [Item.ok] at h
    simp only [Item.tree, smallU, treeMems_smallU ms h]
    rfl
  | .objN w ms =>
    simp only [Item.ok, Bool.and_eq_true] at h
    simp only [Item.tree, smallU, treeMems_length, treeMems_smallU ms h.2, Bool.and_true, Bool.or_eq_true,
      decide_eq_true_eq]
    exact Or.inr (fits_lt w _ h.1)
  | .objT t w ms =>
    simp only [Item.ok, Bool.and_eq_true] at h
    simp only [Item.tree, smallU, treeMems_length, treeMemsT_smallU t ms h.2, Bool.and_true, Bool.or_eq_true,
      decide_eq_true_eq]
    exact Or.inr (fits_lt w _ h.1.2)
theorem treeElems_smallU (xs : List (Nat × Item)) (h : okElems xs = true) : smallUList (treeElems xs) = true := by
  match xs with
  | [] => rfl
  | (n, x) :: xs' =>
    simp only [okElems, Bool.and_eq_true] at h
    simp only [treeElems, smallUList, tree_smallU x h.1, treeElems_smallU xs' h.2, Bool.and_self]
theorem treeList_smallU (t : UInt8) (xs : List Item) (h : okTyped t xs = true) :
    smallUList (treeList xs) = true := by
  match xs with
  | [] => rfl
  | x :: xs' =>
    simp only [okTyped, Bool.and_eq_true] at h
    simp only [treeList, smallUList, tree_smallU x h.1.1, treeList_smallU t xs' h.2, Bool.and_self]
theorem treeMems_smallU (ms : List (LW × Bytes × Item)) (h : okMems ms = true) :
    smallUMems (treeMems ms) = true := by
  match ms with
  | [] => rfl
  | (kw, k, v) :: ms' =>
    simp only [okMems, Bool.and_eq_true] at h
    simp only [treeMems, smallUMems, tree_smallU v h.1.2, treeMems_smallU ms' h.2, Bool.and_true,
      decide_eq_true_eq]
    exact fits_lt kw _ h.1.1
theorem treeMemsT_smallU (t : UInt8) (ms : List (LW × Bytes × Item)) (h : okMemsT t ms = true) :
    smallUMems (treeMems ms) = true := by
  match ms with
  | [] => rfl
  | (kw, k, v) :: ms' =>
    simp only [okMemsT, Bool.and_eq_true] at h
    simp only [treeMems, smallUMems, tree_smallU v h.1.1.2, treeMemsT_smallU t ms' h.2, Bool.and_true,
      decide_eq_true_eq]
    exact fits_lt kw _ h.1.1.1
end

/-! ## `noBig`: the UBJSON parser never delivers a number above MaxInt64 -/

mutual
theorem tree_noBig (x : Item) (h : x.ok = true) : noBig x.tree = true := by
  match x with
  | .null | .tru | .fals | .f32 _ | .f64 _ | .str _ _ | .hp _ _ => rfl
  | .int k v =>
    simp only [Item.ok, IK.inRange, NumKind.inRange, Bool.and_eq_true, decide_eq_true_eq] at h
    simp only [Item.tree, noBig, decide_eq_true_eq]
    have := h.2
    cases k <;> simp only [IK.kind, NumKind.hi] at this <;> omega
  | .char c =>
    have := c.toNat_lt
    simp only [Item.tree, noBig, decide_eq_true_eq]
    omega
  | .arr xs t => simp only [Item.ok] at h; simp only [Item.tree, noBig, treeElems_noBig xs h]
  | .arrN w xs => simp only [Item.ok, Bool.and_eq_true] at h; simp only [Item.tree, noBig, treeElems_noBig xs h.2]
  | .arrT t w xs => simp only [Item.ok, Bool.and_eq_true] at h; simp only [Item.tree, noBig, treeList_noBig t xs h.2]
  | .obj ms => simp only [Item.ok] at h; simp only [Item.tree, noBig, treeMems_noBig ms h]
  | .objN w ms => simp only [Item.ok, Bool.and_eq_true] at h; simp only [Item.tree, noBig, treeMems_noBig ms h.2]
  | .objT t w ms => simp only [Item.ok, Bool.and_eq_true] at h; simp only [Item.tree, noBig, treeMemsT_noBig t ms h.2]
theorem treeElems_noBig (xs : List (Nat × Item)) (h : okElems xs = true) : noBigList (treeElems xs) = true := by
  match xs with
  | [] => rfl
  | (n, x) :: xs' =>
    simp only [okElems, Bool.and_eq_true] at h
    simp only [treeElems, noBigList, tree_noBig x h.1, treeElems_noBig xs' h.2, Bool.and_self]
theorem treeList_noBig (t : UInt8) (xs : List Item) (h : okTyped t xs = true) : noBigList (treeList xs) = true := by
  match xs with
  | [] => rfl
  | x :: xs' =>
    simp only [okTyped, Bool.and_eq_true] at h
    simp only [treeList, noBigList, tree_noBig x h.1.1, treeList_noBig t xs' h.2, Bool.and_self]
theorem treeMems_noBig (ms : List (LW × Bytes × Item)) (h : okMems ms = true) : noBigMems (treeMems ms) = true := by
  match ms with
  | [] => rfl
  | (kw, k, v) :: ms' =>
    simp only [okMems, Bool.and_eq_true] at h
    simp only [treeMems, noBigMems, tree_noBig v h.1.2, treeMems_noBig ms' h.2, Bool.and_self]
theorem treeMemsT_noBig (t : UInt8) (ms : List (LW × Bytes × Item)) (h : okMemsT t ms = true) :
    noBigMems (treeMems ms) = true := by
  match ms with
  | [] => rfl
  | (kw, k, v) :: ms' =>
    simp only [okMemsT, Bool.and_eq_true] at h
    simp only [treeMems, noBigMems, tree_noBig v h.1.1.2, treeMemsT_noBig t ms' h.2, Bool.and_self]
end

/-! ## the same fact on the event sequence itself -/

/-- a number event in range of its kind and at most MaxInt64 -/
def numOk : Ev → Bool
  | .num k v => k.inRange v && decide (v ≤ 9223372036854775807)
  | _ => true

theorem all_append {l1 l2 : List Ev} (h1 : l1.all numOk = true) (h2 : l2.all numOk = true) :
    (l1 ++ l2).all numOk = true := by
  simp only [List.all_append, h1, h2, Bool.and_self]

mutual
/-- EVERY number the UBJSON parser delivers for a grammatical item lies in the range of its kind
(`i8`, `u8`, `i16`, `i32`, `i64`, `byte`) and does not exceed MaxInt64 -/
theorem events_numOk (x : Item) (h : x.ok = true) : x.events.all numOk = true := by
  match x with
  | .null | .tru | .fals | .f32 _ | .f64 _ | .str _ _ | .hp _ _ => rfl
  | .int k v =>
    have hb := tree_noBig (.int k v) h
    simp only [Item.ok, IK.inRange] at h
    simp only [Item.tree, noBig] at hb
    simp only [Item.events, List.all_cons, List.all_nil, numOk, h, hb, Bool.and_self]
  | .char c =>
    have := c.toNat_lt
    simp only [Item.events, List.all_cons, List.all_nil, numOk, NumKind.inRange, NumKind.lo, NumKind.hi,
      Bool.and_true, Bool.and_eq_true]
    exact ⟨⟨decide_eq_true (by omega), decide_eq_true (by omega)⟩, decide_eq_true (by omega)⟩
  | .arr xs t =>
    simp only [Item.ok] at h
    simp only [Item.events, List.all_cons, numOk, Bool.true_and]
    exact all_append (evElems_numOk xs h) rfl
  | .arrN w xs =>
    simp only [Item.ok, Bool.and_eq_true] at h
    simp only [Item.events, List.all_cons, numOk, Bool.true_and]
    exact all_append (evElems_numOk xs h.2) rfl
  | .arrT t w xs =>
    simp only [Item.ok, Bool.and_eq_true] at h
    simp only [Item.events, List.all_cons, numOk, Bool.true_and]
    exact all_append (evList_numOk t xs h.2) rfl
  | .obj ms =>
    simp only [Item.ok] at h
    simp only [Item.events, List.all_cons, numOk, Bool.true_and]
    exact all_append (evMems_numOk ms h) rfl
  | .objN w ms =>
    simp only [Item.ok, Bool.and_eq_true] at h
    simp only [Item.events, List.all_cons, numOk, Bool.true_and]
    exact all_append (evMems_numOk ms h.2) rfl
  | .objT t w ms =>
    simp only [Item.ok, Bool.and_eq_true] at h
    simp only [Item.events, List.all_cons, numOk, Bool.true_and]
    exact all_append (evMemsT_numOk t ms h.2) rfl
theorem evElems_numOk (xs : List (Nat × Item)) (h : okElems xs = true) : (evElems xs).all numOk = true := by
  match xs with
  | [] => rfl
  | (n, x) :: xs' =>
    simp only [okElems, Bool.and_eq_true] at h
    exact all_append (events_numOk x h.1) (evElems_numOk xs' h.2)
theorem evList_numOk (t : UInt8) (xs : List Item) (h : okTyped t xs = true) : (evList xs).all numOk = true := by
  match xs with
  | [] => rfl
  | x :: xs' =>
    simp only [okTyped, Bool.and_eq_true] at h
    exact all_append (events_numOk x h.1.1) (evList_numOk t xs' h.2)
theorem evMems_numOk (ms : List (LW × Bytes × Item)) (h : okMems ms = true) : (evMems ms).all numOk = true := by
  match ms with
  | [] => rfl
  | (kw, k, v) :: ms' =>
    simp only [okMems, Bool.and_eq_true] at h
    simp only [evMems, List.all_cons, numOk, Bool.true_and]
    exact all_append (events_numOk v h.1.2) (evMems_numOk ms' h.2)
theorem evMemsT_numOk (t : UInt8) (ms : List (LW × Bytes × Item)) (h : okMemsT t ms = true) :
    (evMems ms).all numOk = true := by
  match ms with
  | [] => rfl
  | (kw, k, v) :: ms' =>
    simp only [okMemsT, Bool.and_eq_true] at h
    simp only [evMems, List.all_cons, numOk, Bool.true_and]
    exact all_append (events_numOk v h.1.1.2) (evMemsT_numOk t ms' h.2)
end

/-! ## `sized` from the length of the document -/

mutual
theorem sized_of_length (x : Item) (h : x.payload.length < 9223372036854775808) : sized x = true := by
  match x with
  | .null | .tru | .fals | .f32 _ | .f64 _ | .str _ _ | .hp _ _ | .int _ _ | .char _ => rfl
  | .arr xs t =>
    have h1 := elems_length_le xs
    simp only [Item.payload, List.length_append] at h
    simp only [sized, Bool.and_eq_true, decide_eq_true_eq]
    exact ⟨by omega, sizedElems_of_length xs (by omega)⟩
  | .arrN w xs =>
    simp only [Item.payload, List.length_cons, List.length_append] at h
    simp only [sized]
    exact sizedElems_of_length xs (by omega)
  | .arrT t w xs =>
    simp only [Item.payload, List.length_cons, List.length_append] at h
    simp only [sized]
    exact sizedList_of_length xs (by omega)
  | .obj ms =>
    have h1 := mems_length_le ms
    simp only [Item.payload, List.length_append] at h
    simp only [sized, Bool.and_eq_true, decide_eq_true_eq]
    exact ⟨by omega, sizedMems_of_length ms (by omega)⟩
  | .objN w ms =>
    simp only [Item.payload, List.length_cons, List.length_append] at h
    simp only [sized]
    exact sizedMems_of_length ms (by omega)
  | .objT t w ms =>
    simp only [Item.payload, List.length_cons, List.length_append] at h
    simp only [sized]
    exact sizedMems_of_lengthT ms (by omega)
theorem elems_length_le (xs : List (Nat × Item)) : xs.length ≤ (wireElems xs).length := by
  match xs with
  | [] => simp
  | (n, x) :: xs' =>
    have := elems_length_le xs'
    simp only [wireElems, List.length_append, List.length_cons]; omega
theorem mems_length_le (ms : List (LW × Bytes × Item)) : ms.length ≤ (wireMems ms).length := by
  match ms with
  | [] => simp
  | (kw, k, v) :: ms' =>
    have := mems_length_le ms'
    simp only [wireMems, List.length_append, List.length_cons]; omega
theorem sizedElems_of_length (xs : List (Nat × Item)) (h : (wireElems xs).length < 9223372036854775808) :
    sizedElems xs = true := by
  match xs with
  | [] => rfl
  | (n, x) :: xs' =>
    simp only [wireElems, List.length_append, List.length_cons] at h
    simp only [sizedElems, sized_of_length x (by omega), sizedElems_of_length xs' (by omega), Bool.and_self]
theorem sizedList_of_length (xs : List Item) (h : (payList xs).length < 9223372036854775808) :
    sizedList xs = true := by
  match xs with
  | [] => rfl
  | x :: xs' =>
    simp only [payList, List.length_append] at h
    simp only [sizedList, sized_of_length x (by omega), sizedList_of_length xs' (by omega), Bool.and_self]
theorem sizedMems_of_length (ms : List (LW × Bytes × Item)) (h : (wireMems ms).length < 9223372036854775808) :
    sizedMems ms = true := by
  match ms with
  | [] => rfl
  | (kw, k, v) :: ms' =>
    simp only [wireMems, List.length_append, List.length_cons] at h
    simp only [sizedMems, sized_of_length v (by omega), sizedMems_of_length ms' (by omega), Bool.and_self]
theorem sizedMems_of_lengthT (ms : List (LW × Bytes × Item)) (h : (payMems ms).length < 9223372036854775808) :
    sizedMems ms = true := by
  match ms with
  | [] => rfl
  | (kw, k, v) :: ms' =>
    simp only [payMems, List.length_append] at h
    simp only [sizedMems, sized_of_length v (by omega), sizedMems_of_lengthT ms' (by omega), Bool.and_self]
end

/-- a document shorter than 2^63 bytes has no plain container with 2^63 elements -/
theorem sized_of_wire_length (x : Item) (h : x.wire.length < 9223372036854775808) : sized x = true := by
  simp only [Item.wire, List.length_cons] at h
  exact sized_of_length x (by omega)

/-! ## the JSON encoder's side conditions -/

open SF.Json.Enc (plain plainList plainMems utf8Tree utf8List utf8Mems validUtf8)

mutual
/-- no `d` / `D` value -/
def noFloat : Item → Bool
  | .f32 _ | .f64 _ => false
  | .arr xs _ => noFloatElems xs
  | .arrN _ xs => noFloatElems xs
  | .arrT _ _ xs => noFloatList xs
  | .obj ms => noFloatMems ms
  | .objN _ ms => noFloatMems ms
  | .objT _ _ ms => noFloatMems ms
  | _ => true
def noFloatElems : List (Nat × Item) → Bool
  | [] => true
  | (_, x) :: xs => noFloat x && noFloatElems xs
def noFloatList : List Item → Bool
  | [] => true
  | x :: xs => noFloat x && noFloatList xs
def noFloatMems : List (LW × Bytes × Item) → Bool
  | [] => true
  | (_, _, v) :: ms => noFloat v && noFloatMems ms
end

mutual
/-- strings, high-precision numbers and keys are well-formed UTF-8 -/
def utf8 : Item → Bool
  | .str _ s => validUtf8 s
  | .hp _ s => validUtf8 s
  | .arr xs _ => utf8Elems xs
  | .arrN _ xs => utf8Elems xs
  | .arrT _ _ xs => utf8Items xs
  | .obj ms => utf8Members ms
  | .objN _ ms => utf8Members ms
  | .objT _ _ ms => utf8Members ms
  | _ => true
def utf8Elems : List (Nat × Item) → Bool
  | [] => true
  | (_, x) :: xs => utf8 x && utf8Elems xs
def utf8Items : List Item → Bool
  | [] => true
  | x :: xs => utf8 x && utf8Items xs
def utf8Members : List (LW × Bytes × Item) → Bool
  | [] => true
  | (_, k, v) :: ms => validUtf8 k && utf8 v && utf8Members ms
end

mutual
theorem tree_plain (x : Item) (h : x.ok = true) (hf : noFloat x = true) : plain x.tree = true := by
  match x with
  | .null | .tru | .fals | .str _ _ | .hp _ _ => rfl
  | .f32 _ => simp [noFloat] at hf
  | .f64 _ => simp [noFloat] at hf
  | .int k v =>
    simp only [Item.ok, IK.inRange] at h
    simp only [Item.tree, plain, h]
  | .char c =>
    have := c.toNat_lt
    simp only [Item.tree, plain, NumKind.inRange, NumKind.lo, NumKind.hi, Bool.and_eq_true]
    exact ⟨decide_eq_true (by omega), decide_eq_true (by omega)⟩
  | .arr xs t =>
    simp only [Item.ok] at h; simp only [noFloat] at hf
    simp only [Item.tree, plain, treeElems_plain xs h hf]
  | .arrN w xs =>
    simp only [Item.ok, Bool.and_eq_true] at h; simp only [noFloat] at hf
    simp only [Item.tree, plain, treeElems_plain xs h.2 hf]
  | .arrT t w xs =>
    simp only [Item.ok, Bool.and_eq_true] at h; simp only [noFloat] at hf
    simp only [Item.tree, plain, treeList_plain t xs h.2 hf]
  | .obj ms =>
    simp only [Item.ok] at h; simp only [noFloat] at hf
    simp only [Item.tree, plain, treeMems_plain ms h hf]
  | .objN w ms =>
    simp only [Item.ok, Bool.and_eq_true] at h; simp only [noFloat] at hf
    simp only [Item.tree, plain, treeMems_plain ms h.2 hf]
  | .objT t w ms =>
    simp only [Item.ok, Bool.and_eq_true] at h; simp only [noFloat] at hf
    simp only [Item.tree, plain, treeMemsT_plain t ms h.2 hf]
theorem treeElems_plain (xs : List (Nat × Item)) (h : okElems xs = true) (hf : noFloatElems xs = true) :
    plainList (treeElems xs) = true := by
  match xs with
  | [] => rfl
  | (n, x) :: xs' =>
    simp only [okElems, Bool.and_eq_true] at h
    simp only [noFloatElems, Bool.and_eq_true] at hf
    simp only [treeElems, plainList, tree_plain x h.1 hf.1, treeElems_plain xs' h.2 hf.2, Bool.and_self]
theorem treeList_plain (t : UInt8) (xs : List Item) (h : okTyped t xs = true) (hf : noFloatList xs = true) :
    plainList (treeList xs) = true := by
  match xs with
  | [] => rfl
  | x :: xs' =>
    simp only [okTyped, Bool.and_eq_true] at h
    simp only [noFloatList, Bool.and_eq_true] at hf
    simp only [treeList, plainList, tree_plain x h.1.1 hf.1, treeList_plain t xs' h.2 hf.2, Bool.and_self]
theorem treeMems_plain (ms : List (LW × Bytes × Item)) (h : okMems ms = true) (hf : noFloatMems ms = true) :
    plainMems (treeMems ms) = true := by
  match ms with
  | [] => rfl
  | (kw, k, v) :: ms' =>
    simp only [okMems, Bool.and_eq_true] at h
    simp only [noFloatMems, Bool.and_eq_true] at hf
    simp only [treeMems, plainMems, tree_plain v h.1.2 hf.1, treeMems_plain ms' h.2 hf.2, Bool.and_self]
theorem treeMemsT_plain (t : UInt8) (ms : List (LW × Bytes × Item)) (h : okMemsT t ms = true)
    (hf : noFloatMems ms = true) : plainMems (treeMems ms) = true := by
  match ms with
  | [] => rfl
  | (kw, k, v) :: ms' =>
    simp only [okMemsT, Bool.and_eq_true] at h
    simp only [noFloatMems, Bool.and_eq_true] at hf
    simp only [treeMems, plainMems, tree_plain v h.1.1.2 hf.1, treeMemsT_plain t ms' h.2 hf.2, Bool.and_self]
end

mutual
theorem tree_utf8 (x : Item) (hu : utf8 x = true) : utf8Tree x.tree = true := by
  match x with
  | .null | .tru | .fals | .f32 _ | .f64 _ | .int _ _ | .char _ => rfl
  | .str w s => simpa only [Item.tree, utf8Tree, utf8] using hu
  | .hp w s => simpa only [Item.tree, utf8Tree, utf8] using hu
  | .arr xs t => simp only [utf8] at hu; simp only [Item.tree, utf8Tree, treeElems_utf8 xs hu]
  | .arrN w xs => simp only [utf8] at hu; simp only [Item.tree, utf8Tree, treeElems_utf8 xs hu]
  | .arrT t w xs => simp only [utf8] at hu; simp only [Item.tree, utf8Tree, treeList_utf8 xs hu]
  | .obj ms => simp only [utf8] at hu; simp only [Item.tree, utf8Tree, treeMems_utf8 ms hu]
  | .objN w ms => simp only [utf8] at hu; simp only [Item.tree, utf8Tree, treeMems_utf8 ms hu]
  | .objT t w ms => simp only [utf8] at hu; simp only [Item.tree, utf8Tree, treeMems_utf8 ms hu]
theorem treeElems_utf8 (xs : List (Nat × Item)) (hu : utf8Elems xs = true) : utf8List (treeElems xs) = true := by
  match xs with
  | [] => rfl
  | (n, x) :: xs' =>
    simp only [utf8Elems, Bool.and_eq_true] at hu
    simp only [treeElems, utf8List, tree_utf8 x hu.1, treeElems_utf8 xs' hu.2, Bool.and_self]
theorem treeList_utf8 (xs : List Item) (hu : utf8Items xs = true) : utf8List (treeList xs) = true := by
  match xs with
  | [] => rfl
  | x :: xs' =>
    simp only [utf8Items, Bool.and_eq_true] at hu
    simp only [treeList, utf8List, tree_utf8 x hu.1, treeList_utf8 xs' hu.2, Bool.and_self]
theorem treeMems_utf8 (ms : List (LW × Bytes × Item)) (hu : utf8Members ms = true) :
    utf8Mems (treeMems ms) = true := by
  match ms with
  | [] => rfl
  | (kw, k, v) :: ms' =>
    simp only [utf8Members, Bool.and_eq_true] at hu
    simp only [treeMems, utf8Mems, hu.1.1, tree_utf8 v hu.1.2, treeMems_utf8 ms' hu.2, Bool.and_self]
end

end SF.Ubjson.Syn
