/-
  C17 — "after an instance has completely processed any sequence of documents, its behaviour on
  the next document is identical to that of a newly created instance" — for the JSON PARSER
  (mirror SF/Json/Parse.lean) and the JSON PULL DECODER (mirror SF/Json/Dec.lean), for EVERY
  probe byte string (grammatical, malformed, truncated, anything) — FRAME THEOREMS, the
  counterpart of `ubj_parser_frame` / `ubj_parser_reuse_any` (SF/Proofs/UbjBridgeTop.lean).

  THE FRAME.  `Fr d r E0 n0 p` is the parser value `p` behind a frame: the events `E0` (`n0`
  visitor calls) were delivered before — a visitor fault index is shifted by `n0` —, and the two
  SCRATCH FIELDS hold other values: `isDouble := d` (read only inside a number; reset when a
  number begins) and `required := r` (read only inside a literal; set when a literal begins).
  Everything else is equal.  (The stored error `err` is dead too — it is read only in the fail
  state, which is unreachable — but `Parse` overwrites it with its verdict, so the resulting
  states have the SAME `err`.)

  (1) PARSER, entry point `Parse` (namespace `SF.Props.JsonReuse`):
      json_parse_frame         from ANY two parser values `p`, `q` that agree on `inEscape` — all
                               other fields of `q` arbitrary: state stack, state, token buffer,
                               `isDouble`, `required`, `err`; its event log / counter / fault
                               index those of `p` behind a frame — and for ALL byte strings:
                               `Parse` returns the same verdict and ends in the same state up
                               to the frame.
      json_parse_frame_new     … `p` a new parser: ANY parser value with no escape pending and
                               no visitor fault behaves on ANY input as a new parser.
      json_parser_reuse_any    C17: after ANY history of ACCEPTED `Parse` calls (any byte strings
                               the parser accepted), for EVERY probe byte string: the verdict
                               of a new parser, the events of a new parser (after those of the
                               history), the state of a new parser up to the frame.
      json_parser_reuse_hist   … after ANY history of calls, accepted or REJECTED, provided no
                               rejected call ended inside an escape sequence
                               (`NoEscLeft`: `inEscape = false` after each rejected call).
      The proviso is necessary (REUSE DEFECT 1 of SF/Proofs/JsonRefineTop.lean, evaluated again
      below): `Parse` does not reset `inEscape` and the KEY reader does not either; after
      `Parse("a\)` (rejected: incomplete) the parser rejects `{"":1}`, which a new parser
      accepts — even if an accepted `Parse("1")` lies in between.
      json_write_frame / json_parser_reuse_chunks   the same for `Write` per chunk + end of input
                               (any chunking) from an IDLE, CLEAN state (empty stack,
                               startState, empty token buffer).  `Write` does not reset anything,
                               and the end of input leaves the token of a top-level number it
                               completes in the buffer (REUSE DEFECT 2): after an accepted history
                               the proviso `literalBuffer = []` is necessary.

  (2) PULL DECODER (namespace `SF.Props.JsonReuse`, `json_decoder_reuse` and its two instances):
      after `k` successful calls of `Next` (documents completely processed) on a decoder created
      by `NewDecoder` / `NewBytesDecoder` over ANY bytes in ANY read script, the trace of the
      following calls — results and events, up to and including the first call that does not
      succeed — on the REST of the stream (any bytes: valid, invalid, truncated) is the trace
      of a NEW decoder created over the rest of the stream (as a byte slice, or in any read
      script with that concatenation, any buffer size, either way of signalling the end), behind
      the events already delivered.  No proviso: DEFECT 2 is harmless here (nothing is left of
      the stream when the end of input has completed a number), DEFECT 1 needs a failed call.

  Helper files: SF/Proofs/JsonReuseSim.lean (the frame relation `Sim`; every step function
  respects it), JsonReuseRun.lean (the loops, `finalize`, `Parse`, `Write*`, the decoder loop `U`),
  JsonReuseNeat.lean (the token buffer is empty outside tokens), JsonReuseDec.lean (`Next`,
  sequences of calls, the decoder states between two documents).
-/
import SF.Proofs.JsonReuseDec
import SF.Proofs.JsonRefineTop
import SF.Proofs.JsonDecTop
set_option linter.unusedSimpArgs false
set_option linter.unusedVariables false
namespace SF.Props.JsonReuse
open SF SF.Json SF.Json.Parse SF.Json.ParseP SF.Json.Dec SF.Json.DecP
open SF.Json.RefineTop (Accepted)

/-! ## (1) the parser -/

/-- THE FRAME: `p` with the events `E0` (`n0` visitor calls) delivered before — a visitor
fault index shifted accordingly — and other values in the two scratch fields -/
def Fr (d : Bool) (r : Nat) (E0 : List Ev) (n0 : Nat) (p : P) : P :=
  { p with isDouble := d, required := r, evs := p.evs ++ E0, nevs := p.nevs + n0,
           failAt := p.failAt.map (· + n0) }

theorem events_Fr (d : Bool) (r : Nat) (E0 : List Ev) (n0 : Nat) (p : P) :
    events (Fr d r E0 n0 p) = E0.reverse ++ events p := by
  simp [events, Fr]

/-- from the frame relation and the equality of the stored errors to the frame function -/
theorem fr_of_sim {E0 : List Ev} {n0 : Nat} {p q : P} (h : Sim E0 n0 p q) (he : q.err = p.err) :
    q = Fr q.isDouble q.required E0 n0 p := by
  obtain ⟨h1, h2, h3, h4, h5, h6, h7, _, _⟩ := h
  cases q; cases p
  simp only at h1 h2 h3 h4 h5 h6 h7 he
  subst h1 h2 h3 h4 h5 h6 h7 he
  rfl

/-- THE FRAME THEOREM for `Parse`.  From ANY two parser values `p`, `q` with the same
`inEscape`, `q`'s event log, visitor-call counter and fault index being those of `p` behind the
frame `(E0, n0)` — every other field of `q` arbitrary — and for ALL byte strings `b`
(grammatical or not): the same verdict, and the same resulting state up to the frame.  What
earlier calls left in the state stack, the state, the token buffer, `isDouble`, `required`,
`err` influences nothing. -/
theorem json_parse_frame (p q : P) (E0 : List Ev) (n0 : Nat) (hesc : q.inEscape = p.inEscape)
    (hevs : q.evs = p.evs ++ E0) (hnevs : q.nevs = p.nevs + n0) (hfa : q.failAt = p.failAt.map (· + n0))
    (b : Bytes) :
    ∃ d r, parse q b = (Fr d r E0 n0 (parse p b).1, (parse p b).2) := by
  obtain ⟨k1, k2, k3⟩ := parse_sim (p := p) (q := q) ⟨hesc, hevs, hnevs, hfa⟩ b
  refine ⟨(parse q b).1.isDouble, (parse q b).1.required, ?_⟩
  rw [← fr_of_sim k2 k3, ← k1]

/-- … against a NEW parser: ANY parser value `q` with no escape pending and a visitor that does
not fail behaves on ANY input as a new parser, behind the events it has delivered -/
theorem json_parse_frame_new (q : P) (hesc : q.inEscape = false) (hfa : q.failAt = none) (b : Bytes) :
    ∃ d r, parse q b = (Fr d r q.evs q.nevs (parse {} b).1, (parse {} b).2) :=
  json_parse_frame {} q q.evs q.nevs hesc (by simp) (by simp) (by rw [hfa]; rfl) b

/-- the observable part: the same verdict, the events of a new parser after those delivered before -/
theorem json_parse_as_new (q : P) (hesc : q.inEscape = false) (hfa : q.failAt = none) (b : Bytes) :
    (parse q b).2 = (parse {} b).2 ∧ events (parse q b).1 = events q ++ events (parse {} b).1 ∧
    ∃ d r, (parse q b).1 = Fr d r q.evs q.nevs (parse {} b).1 := by
  obtain ⟨d, r, h⟩ := json_parse_frame_new q hesc hfa b
  refine ⟨by rw [h], ?_, d, r, by rw [h]⟩
  rw [h, events_Fr]; rfl

/-- C17 for the JSON parser, entry point `Parse`, at full strength: after ANY history of
ACCEPTED `Parse` calls on one parser (any byte strings it accepted), for EVERY probe byte
string (grammatical, malformed, truncated, …): the reused parser returns the verdict a NEW
parser returns (the same error value), delivers exactly the events a new parser delivers
(after those of the history), and ends in the state a new parser ends in, up to the frame
(event log, call counter, and the scratch fields `isDouble`, `required`) -/
theorem json_parser_reuse_any (hist : List Bytes) (hh : Accepted {} hist) (probe : Bytes) :
    (parse (parseSeq {} hist) probe).2 = (parse {} probe).2 ∧
    events (parse (parseSeq {} hist) probe).1 = events (parseSeq {} hist) ++ events (parse {} probe).1 ∧
    ∃ d r, (parse (parseSeq {} hist) probe).1 =
      Fr d r (parseSeq {} hist).evs (parseSeq {} hist).nevs (parse {} probe).1 := by
  obtain ⟨k1, _⟩ := SF.Json.RefineTop.parseSeq_accepted hist {} ⟨rfl, rfl⟩ hh
  exact json_parse_as_new _ k1.1 k1.2 probe

/-- every call of the history was accepted, or at least did not end inside an escape sequence -/
def NoEscLeft (p : P) : List Bytes → Prop
  | [] => True
  | b :: bs => ((parse p b).2 = none ∨ (parse p b).1.inEscape = false) ∧ NoEscLeft (parse p b).1 bs

theorem parseSeq_noEsc (hist : List Bytes) : ∀ p : P, Reusable p → NoEscLeft p hist → Reusable (parseSeq p hist) := by
  induction hist with
  | nil => intro p hp _; exact hp
  | cons b bs ih =>
    intro p hp h
    obtain ⟨h1, h2⟩ := h
    refine ih (parse p b).1 ⟨?_, by rw [parse_failAt]; exact hp.2⟩ h2
    rcases h1 with h1 | h1
    · exact (parse_accepted p b hp.1 h1).2
    · exact h1

/-- … after ANY history of `Parse` calls, accepted or REJECTED (malformed or truncated
documents), provided no rejected call ended inside an escape sequence: for EVERY probe byte
string the verdict, the events and (up to the frame) the state of a new parser -/
theorem json_parser_reuse_hist (hist : List Bytes) (hh : NoEscLeft {} hist) (probe : Bytes) :
    (parse (parseSeq {} hist) probe).2 = (parse {} probe).2 ∧
    events (parse (parseSeq {} hist) probe).1 = events (parseSeq {} hist) ++ events (parse {} probe).1 ∧
    ∃ d r, (parse (parseSeq {} hist) probe).1 =
      Fr d r (parseSeq {} hist).evs (parseSeq {} hist).nevs (parse {} probe).1 := by
  have k1 := parseSeq_noEsc hist {} ⟨rfl, rfl⟩ hh
  exact json_parse_as_new _ k1.1 k1.2 probe

/-- accepted histories are a special case -/
theorem noEscLeft_of_accepted (hist : List Bytes) : ∀ p : P, Accepted p hist → NoEscLeft p hist := by
  induction hist with
  | nil => intro _ _; trivial
  | cons b bs ih => intro p h; exact ⟨Or.inl h.1, ih _ h.2⟩

/-- an escape is left pending only by a REJECTED call (if none was pending before) -/
theorem escape_left_is_rejected (p : P) (b : Bytes) (hp : p.inEscape = false) (h : (parse p b).1.inEscape = true) :
    (parse p b).2 ≠ none := by
  intro hc
  rw [(parse_accepted p b hp hc).2] at h
  cases h

/-! ### `Write` per chunk + end of input -/

/-- THE FRAME THEOREM for `Write*` + end of input: from any well-formed state `p` (every state
reachable from a new parser) and any `q` that is `p` behind a frame (`Sim`: same state stack,
state, token buffer, `inEscape`; `isDouble` / `required` equal where they are live), for EVERY
chunking of EVERY input -/
theorem json_write_frame (p q : P) (E0 : List Ev) (n0 : Nat) (hw : ParseP.WF p) (h : Sim E0 n0 p q)
    (cs : List Bytes) :
    (writeChunks q cs).2 = (writeChunks p cs).2 ∧ Sim E0 n0 (writeChunks p cs).1 (writeChunks q cs).1 :=
  writeChunks_sim cs p q h hw

/-- … after ANY history of accepted `Parse` calls, PROVIDED the token buffer is empty (it is
not after a document that ended in a bare number completed by the end of input — REUSE DEFECT
2): `Write` per chunk + end of input, for EVERY chunking of EVERY probe, gives the verdict and
the events of a new parser -/
theorem json_parser_reuse_chunks (hist : List Bytes) (hh : Accepted {} hist)
    (hlb : (parseSeq {} hist).literalBuffer = []) (probe : List Bytes) :
    (writeChunks (parseSeq {} hist) probe).2 = (writeChunks {} probe).2 ∧
    events (writeChunks (parseSeq {} hist) probe).1 =
      events (parseSeq {} hist) ++ events (writeChunks {} probe).1 := by
  obtain ⟨k1, k2⟩ := SF.Json.RefineTop.parseSeq_accepted hist {} ⟨rfl, rfl⟩ hh
  have hidle : (parseSeq {} hist).states = [] ∧ (parseSeq {} hist).currentState = .startState := by
    cases hist with
    | nil => exact ⟨rfl, rfl⟩
    | cons b bs => exact k2 (by simp)
  have hsim : Sim (parseSeq {} hist).evs (parseSeq {} hist).nevs {} (parseSeq {} hist) :=
    ⟨hidle.1, hidle.2, hlb, k1.1, by simp, by simp, by rw [k1.2]; rfl, fun hc => (by cases hc),
      fun hc => (by simp [isLit] at hc)⟩
  obtain ⟨j1, j2⟩ := json_write_frame {} _ _ _ wf_fresh hsim probe
  refine ⟨j1, ?_⟩
  simp only [events, j2.evs, List.reverse_append]


/-! ### non-vacuity and the proviso, evaluated by the kernel -/

/-- the history of the examples: `12` (a number with no white space after it: the end of input
completes it), `{"a":[1.5,true]}` -/
def hist0 : List Bytes :=
  [[0x31, 0x32],
   [0x7b, 0x22, 0x61, 0x22, 0x3a, 0x5b, 0x31, 0x2e, 0x35, 0x2c, 0x74, 0x72, 0x75, 0x65, 0x5d, 0x7d]]

/-- the probes: `[1,]` (malformed), `{"a":` (truncated), `"k":1` (begins with a key-looking
string), `{"":[null,2e0]}` (accepted) -/
def probes0 : List Bytes :=
  [[0x5b, 0x31, 0x2c, 0x5d], [0x7b, 0x22, 0x61, 0x22, 0x3a], [0x22, 0x6b, 0x22, 0x3a, 0x31],
   [0x7b, 0x22, 0x22, 0x3a, 0x5b, 0x6e, 0x75, 0x6c, 0x6c, 0x2c, 0x32, 0x65, 0x30, 0x5d, 0x7d]]

/-- the history is accepted -/
example : Accepted {} hist0 := ⟨by decide +kernel, by decide +kernel, trivial⟩

/-- non-vacuity of `json_parser_reuse_any`: the history leaves `isDouble = true`, `required = 3`
and 8 events behind; every probe gets the verdict and the events of a new parser (three of the
four are errors), and the resulting states differ from those of a new parser in the frame -/
example :
    (parseSeq {} hist0).isDouble = true ∧ (parseSeq {} hist0).required = 3 ∧ (parseSeq {} hist0).nevs = 8 ∧
    (probes0.map (fun b => (parse {} b).2)) = [some .unknownChar, some .incomplete, some .unknownChar, none] ∧
    (∀ probe ∈ probes0,
      (parse (parseSeq {} hist0) probe).2 = (parse {} probe).2 ∧
      events (parse (parseSeq {} hist0) probe).1 = events (parseSeq {} hist0) ++ events (parse {} probe).1 ∧
      (parse (parseSeq {} hist0) probe).1 =
        Fr (parse (parseSeq {} hist0) probe).1.isDouble (parse (parseSeq {} hist0) probe).1.required
          (parseSeq {} hist0).evs 8 (parse {} probe).1) ∧
    (parse (parseSeq {} hist0) [0x5b, 0x31, 0x2c, 0x5d]).1.required = 3 ∧
    (parse {} [0x5b, 0x31, 0x2c, 0x5d]).1.required = 0 ∧
    (parse (parseSeq {} hist0) [0x7b, 0x22, 0x61, 0x22, 0x3a]).1.isDouble = true ∧
    (parse {} [0x7b, 0x22, 0x61, 0x22, 0x3a]).1.isDouble = false := by
  decide +kernel

/-- non-vacuity of `json_parser_reuse_hist`: a history with REJECTED calls — `[1,]`, `{"a":` and
`"a\\` (a string cut after a complete escape) — none of which ends inside an escape -/
example : NoEscLeft {} [[0x5b, 0x31, 0x2c, 0x5d], [0x31], [0x7b, 0x22, 0x61, 0x22, 0x3a], [0x22, 0x61, 0x5c, 0x5c]] ∧
    (parse {} [0x5b, 0x31, 0x2c, 0x5d]).2 = some .unknownChar ∧
    (parse {} [0x22, 0x61, 0x5c, 0x5c]).2 = some .incomplete :=
  ⟨⟨Or.inr (by decide +kernel), Or.inl (by decide +kernel), Or.inr (by decide +kernel), Or.inr (by decide +kernel),
    trivial⟩, by decide +kernel, by decide +kernel⟩

/-- THE PROVISO IS NECESSARY (REUSE DEFECT 1): `Parse("a\)` is rejected and leaves `inEscape`
set; then `{"":1}` is rejected (a new parser accepts it, 4 events) — also with an accepted
`Parse("1")` in between; `{"a":1}` happens to be read correctly; a string VALUE clears the flag -/
example :
    (parse {} [0x22, 0x61, 0x5c]).2 = some .incomplete ∧ (parse {} [0x22, 0x61, 0x5c]).1.inEscape = true ∧
    (parse (parse {} [0x22, 0x61, 0x5c]).1 [0x7b, 0x22, 0x22, 0x3a, 0x31, 0x7d]).2 = some .incomplete ∧
    (parse {} [0x7b, 0x22, 0x22, 0x3a, 0x31, 0x7d]).2 = none ∧
    (events (parse {} [0x7b, 0x22, 0x22, 0x3a, 0x31, 0x7d]).1).length = 4 ∧
    (parse (parse {} [0x22, 0x61, 0x5c]).1 [0x31]).2 = none ∧
    (parse (parse (parse {} [0x22, 0x61, 0x5c]).1 [0x31]).1 [0x7b, 0x22, 0x22, 0x3a, 0x31, 0x7d]).2 = some .incomplete ∧
    (parse (parse {} [0x22, 0x61, 0x5c]).1 [0x7b, 0x22, 0x61, 0x22, 0x3a, 0x31, 0x7d]).2 = none ∧
    (parse (parse (parse {} [0x22, 0x61, 0x5c]).1 [0x22, 0x22]).1 [0x7b, 0x22, 0x22, 0x3a, 0x31, 0x7d]).2 = none := by
  decide +kernel

/-- `json_parser_reuse_chunks`: non-vacuity (history `{"a":[1.5,true]}`, probe `[1,]` in two
chunks) and the proviso (REUSE DEFECT 2: after `Parse("12")` the buffer holds `12`, and
`Write({"k":1})` + end of input is rejected; a new parser accepts it) -/
example :
    (parse {} (hist0.getD 1 [])).2 = none ∧ (parse {} (hist0.getD 1 [])).1.literalBuffer = [] ∧
    (writeChunks (parse {} (hist0.getD 1 [])).1 [[0x5b, 0x31], [0x2c, 0x5d]]).2 = some .unknownChar ∧
    (writeChunks {} [[0x5b, 0x31], [0x2c, 0x5d]]).2 = some .unknownChar ∧
    (parse {} [0x31, 0x32]).2 = none ∧ (parse {} [0x31, 0x32]).1.literalBuffer = [0x31, 0x32] ∧
    (writeChunks (parse {} [0x31, 0x32]).1 [[0x7b, 0x22, 0x6b, 0x22, 0x3a, 0x31, 0x7d]]).2 = some .expectColon ∧
    (writeChunks {} [[0x7b, 0x22, 0x6b, 0x22, 0x3a, 0x31, 0x7d]]).2 = none := by
  decide +kernel


/-! ## (2) the pull decoder -/

open SF.Props.JsonDec (dok_bytes dok_reader stream_bytes stream_reader)

/-- C17 for the JSON PULL DECODER, general form.  `d0`: a decoder with a new parser
(`NewDecoder` over any read script, `NewBytesDecoder` over any bytes).  If its first `k` calls of
`Next` succeed — `k` documents completely processed; `d` is the decoder then, `stream d` what it
is still going to see: the buffered remainder and everything the reader is still going to
return — then the following `m` calls (for every `m`; the trace stops after the first call
that does not succeed) give, on ANY rest of the stream (valid, invalid, truncated), exactly
the trace of ANY decoder `dn` with a new parser that is going to see the same bytes — results
equal, events equal after those already delivered.  `f`, `f'`: any sufficient fuels. -/
theorem json_decoder_reuse (f f' : Dec → Nat) (hf : Enough f) (hf' : Enough f') (d0 : Dec) (hd0 : DOK d0)
    (hp0 : d0.p = Parse.init none) (k : Nat) (d : Dec) (hk : afterOk f k d0 = some d)
    (dn : Dec) (hdn : DOK dn) (hpn : dn.p = Parse.init none) (hs : stream dn = stream d) (m : Nat) :
    nextsF f m d = frameTrace (Parse.events d.p) (nextsF f' m dn) ∧
    nextsF f (k + m) d0 = nextsF f k d0 ++ frameTrace (Parse.events d.p) (nextsF f' m dn) ∧
    (nextsF f k d0).length = k ∧ (∀ x ∈ nextsF f k d0, x.1 = .ok) ∧ Between d := by
  have hb := between_afterOk f hf k d0 d (between_new d0 hd0 hp0) hk
  have ht := between_trace f f' hf hf' d hb dn hdn hpn hs m
  obtain ⟨j1, j2, j3⟩ := nextsF_afterOk f k m d0 d hk
  exact ⟨ht, by rw [j1, ht], j2, j3, hb⟩

/-- … BYTE-SLICE decoder: after `k` successful calls on `NewBytesDecoder b` (ANY bytes `b`), the
following calls behave as the calls on `NewBytesDecoder` of the remaining bytes -/
theorem json_bytes_decoder_reuse (f f' : Dec → Nat) (hf : Enough f) (hf' : Enough f') (b : Bytes) (k : Nat)
    (d : Dec) (hk : afterOk f k (newBytesDecoder b) = some d) (m : Nat) :
    nextsF f m d = frameTrace (Parse.events d.p) (nextsF f' m (newBytesDecoder (stream d))) ∧
    nextsF f (k + m) (newBytesDecoder b) =
      nextsF f k (newBytesDecoder b) ++ frameTrace (Parse.events d.p) (nextsF f' m (newBytesDecoder (stream d))) := by
  obtain ⟨h1, h2, _⟩ := json_decoder_reuse f f' hf hf' _ (dok_bytes b) rfl k d hk _ (dok_bytes (stream d)) rfl
    (stream_bytes _) m
  exact ⟨h1, h2⟩

/-- … READER-DRIVEN decoder: after `k` successful calls on `NewDecoder` over ANY read script
(`cs`, either way of signalling the end, any buffer size), the following calls behave as the
calls on a NEW decoder over ANY read script `cs'` whose concatenation is the rest of the stream
(any buffer size `n'`, either `lastEOF`) — and as the calls on `NewBytesDecoder` of the rest -/
theorem json_reader_decoder_reuse (f f' : Dec → Nat) (hf : Enough f) (hf' : Enough f') (cs : List Bytes) (e : Bool)
    (n : Int) (k : Nat) (d : Dec) (hk : afterOk f k (newDecoder { chunks := cs, lastEOF := e } n) = some d)
    (cs' : List Bytes) (e' : Bool) (n' : Int) (hcs : cs'.flatten = stream d) (m : Nat) :
    nextsF f m d = frameTrace (Parse.events d.p) (nextsF f' m (newDecoder { chunks := cs', lastEOF := e' } n')) ∧
    nextsF f m d = frameTrace (Parse.events d.p) (nextsF f' m (newBytesDecoder (stream d))) ∧
    nextsF f (k + m) (newDecoder { chunks := cs, lastEOF := e } n) =
      nextsF f k (newDecoder { chunks := cs, lastEOF := e } n) ++
        frameTrace (Parse.events d.p) (nextsF f' m (newDecoder { chunks := cs', lastEOF := e' } n')) := by
  obtain ⟨h1, h2, _⟩ := json_decoder_reuse f f' hf hf' _ (dok_reader cs e n) rfl k d hk _ (dok_reader cs' e' n') rfl
    (by rw [stream_reader, hcs]) m
  obtain ⟨h3, _⟩ := json_decoder_reuse f f' hf hf' _ (dok_reader cs e n) rfl k d hk _ (dok_bytes (stream d)) rfl
    (stream_bytes _) m
  exact ⟨h1, h3, h2⟩

/-- the rest of the read script of a decoder, as a script: the buffered remainder first -/
theorem rest_script (d : Dec) : (d.buffer :: d.rd.pending :: d.rd.chunks).flatten = stream d := by
  simp [stream, rstream]

/-- `12 {"a":[1.5,true]}` -/
def histStream0 : Bytes :=
  [0x31, 0x32, 0x20, 0x7b, 0x22, 0x61, 0x22, 0x3a, 0x5b, 0x31, 0x2e, 0x35, 0x2c, 0x74, 0x72, 0x75, 0x65, 0x5d, 0x7d]

/-- non-vacuity: the stream `12 {"a":[1.5,true]}` ++ probe read through a 3-byte buffer from a
script that cuts inside the number, has a `(0, nil)` read and delivers the last bytes with
`io.EOF`.  After 2 successful calls: the rest of the stream is the probe, and the calls that
follow give the trace of a NEW byte-slice decoder on the probe behind the 8 events of the
history (the parser's scratch fields hold `isDouble = true`, `required = 1` then) — probes `[1,]` (malformed), `{"a":` (truncated), `"k":1` (a string, then an error) -/
example :
    ∀ probe ∈ ([[0x5b, 0x31, 0x2c, 0x5d], [0x7b, 0x22, 0x61, 0x22, 0x3a], [0x22, 0x6b, 0x22, 0x3a, 0x31]] : List Bytes),
      (afterOk nextFuel 2 (newDecoder { chunks := [histStream0.take 1, histStream0.drop 1, [], probe], lastEOF := true } 3)).map
          (fun d => (stream d, nexts 3 d)) =
        some (probe, frameTrace
          [.num .i64 12, .objStart (-1) BT.any, .key [0x61], .arrStart (-1) BT.any, .f64 0x3FF8000000000000,
            .bool true, .arrEnd, .objEnd]
          (nexts 3 (newBytesDecoder probe))) ∧
      (afterOk nextFuel 2 (newDecoder { chunks := [histStream0.take 1, histStream0.drop 1, [], probe], lastEOF := true } 3)).map
          (fun d => (d.p.isDouble, d.p.required)) = some (true, 1) := by
  decide +kernel

example :
    (nexts 3 (newBytesDecoder [0x5b, 0x31, 0x2c, 0x5d])) = [(.err .unknownChar, [.arrStart (-1) BT.any, .num .i64 1])] ∧
    (nexts 3 (newBytesDecoder [0x7b, 0x22, 0x61, 0x22, 0x3a])) = [(.err .incomplete, [.objStart (-1) BT.any, .key [0x61]])] ∧
    (nexts 3 (newBytesDecoder [0x22, 0x6b, 0x22, 0x3a, 0x31])) =
      [(.ok, [.str [0x6b]]), (.err .unknownChar, [.str [0x6b]])] := by
  decide +kernel

/-- the corner the invariant `Between` allows for: the end of input completes the number `12`
and leaves its token in the buffer (`literalBuffer ≠ []`) — nothing is left of the stream then,
and the next call reports a clean end, as a new decoder over no bytes does -/
example :
    (afterOk nextFuel 1 (newBytesDecoder [0x31, 0x32])).map
        (fun d => (stream d, nexts 2 d)) =
      some ([], frameTrace [.num .i64 12] (nexts 2 (newBytesDecoder []))) ∧
    (afterOk nextFuel 1 (newBytesDecoder [0x31, 0x32])).map (fun d => d.p.literalBuffer) = some [0x31, 0x32] ∧
    nexts 2 (newBytesDecoder []) = [(.eof, [])] := by
  decide +kernel

end SF.Props.JsonReuse
