/-
  The cborl parser mirror refines the CBOR specification: for every supported item `t`,
  from any value-expecting configuration, consuming `t.wire` delivers exactly `t.events`
  and completes the value (`onValue`).  Mutual structural induction over items, element
  lists and member lists.  Helper file; property theorems are in SF/Props.
-/
import SF.Proofs.CborParse
namespace SF.Cbor.Parse
open SF SF.Cbor SF.Cbor.Cst

@[simp] theorem setMajor_setMajor (q : P) (a b : UInt8) : setMajor (setMajor q a) b = setMajor q b := rfl

theorem ofNat_keyStart : (stKey ||| stStartX) = (0xac : UInt8) := by decide

/-- an object member's key: `initMapKey` up to and including the `stElem` step -/
theorem key_lemma {q : P} (hq : Good q) (kw : W) (k : Bytes) (h : kw.fits k.length = true)
    (hn : k.length < 9223372036854775808) (tail : Bytes) (ht : tail ≠ []) (f : Nat) :
    loopFrom (f + (wcost kw + 2)) (initMapKey q (head 3 kw k.length ++ k ++ tail)) =
      loopFrom f (stepValue (addEvs q [.key k]) tail) := by
  have hai := ai_lt kw k.length h
  have h1 := ib_major' (m := 3) (a := kw.ai k.length) (by omega) hai
  have h2 := ib_minor' (m := 3) (a := kw.ai k.length) (by omega) hai
  have hne : ¬ (UInt8.ofNat (kw.ai k.length) = lenIndef) := by
    intro h'
    have := congrArg UInt8.toNat h'
    rw [ofNat_toNat_small (by omega)] at this
    simp [lenIndef] at this
    cases kw <;> simp_all [W.ai, W.fits]
  simp only [head_eq, List.cons_append, List.append_assoc, initMapKey, h1, h2, ofNat_96]
  simp only [bne_self_eq_false, Bool.false_eq_true, if_false, beq_iff_eq, hne]
  rw [show f + (wcost kw + 2) = (f + 2) + wcost kw by omega]
  rw [seq_head hq stKey (by decide) kw k.length h hn, ofNat_keyStart]
  have hg1 : Good (pushState q ⟨0xac, stStart⟩) := good_pushState hq _ (by decide)
  have hcur := pushState_current hq.notFail ⟨0xac, stStart⟩
  rw [loopFrom_step _ _ rfl rfl (contParse_start _ _ 0xac (by decide) (by simp [hcur]))]
  rw [execStep_keyStart _ _ (by simp [hcur])]
  simp only [pushLen_current, int_natCast_eq_zero]
  have hfin : ∀ (p' : P), p' = setMajor (addEvs (pushState q ⟨0xac, stStart⟩) [.key k]) stElem →
      loopFrom (f + 1) { p := p', rest := tail } = loopFrom f (stepValue (addEvs q [.key k]) tail) := by
    intro p' hp'
    subst hp'
    rw [loopFrom_step _ _ rfl rfl (contParse_of_rest ht)]
    rw [execStep_elem _ _ (by simp [stElem])]
    simp only [popSt_setMajor, addEvs_pushState, popSt_pushState (good_addEvs hq _).notFail]
  cases k with
  | nil =>
    simp only [List.length_nil, beq_self_eq_true, if_true, List.nil_append]
    rw [visit_good (by simp [hg1.nofail])]
    simp only [popLen_addEvs, popLen_pushLen]
    exact hfin _ rfl
  | cons b0 k' =>
    simp only [List.length_cons, Nat.add_one_ne_zero, beq_iff_eq, if_false, List.cons_append,
      Nat.succ_ne_zero]
    simp only [stepKey, pushLen_current, setMajor_len, Int.toNat_natCast]
    have hc := collectP_good (q := setMajor (pushLen (pushState q ⟨0xac, stStart⟩) ((b0 :: k').length : Nat)) stKey)
      (by simp [hg1.buf]) (b0 :: k') tail
    simp only [List.length_cons, List.cons_append] at hc
    simp only [Int.natCast_add, Int.cast_ofNat_Int] at hc ⊢
    rw [hc]
    simp only []
    rw [visit_good (by simp [hg1.nofail])]
    simp only [popLen_addEvs, popLen_setMajor, popLen_pushLen, setMajor_setMajor, addEvs_setMajor]
    exact hfin _ rfl

end SF.Cbor.Parse

namespace SF.Cbor.Parse
open SF SF.Cbor SF.Cbor.Cst

theorem wireList_ne_nil {x : Item} {xs : List Item} (h : x.ok = true) : wireList (x :: xs) ≠ [] := by
  obtain ⟨b0, bs, hw, _⟩ := wire_first x h
  simp [wireList, hw]

theorem stepArray_pos (q : P) (b : Bytes) (h : q.length.current > 0) : stepArray q b = stepValue q b := by
  simp [stepArray, h]

theorem indefArr_value (q : P) (b0 : UInt8) (bs : Bytes) (h : b0 ≠ 0xff) :
    indefArr q (b0 :: bs) = stepValue q (b0 :: bs) := by
  have : (b0 == codeBreak) = false := by simpa [codeBreak] using h
  simp [indefArr, this]

theorem indefMap_key (q : P) (b0 : UInt8) (bs : Bytes) (h : b0 ≠ 0xff) :
    indefMap q (b0 :: bs) = initMapKey q (b0 :: bs) := by
  have : (b0 == codeBreak) = false := by simpa [codeBreak] using h
  simp [indefMap, this]

theorem head3_ne_break (kw : W) (n : Nat) (h : kw.fits n = true) : ib 3 (kw.ai n) ≠ 0xff := by
  have hib : ∀ (a : Fin 32), ib 3 a.val ≠ 0xff := by decide
  exact hib ⟨_, ai_lt kw n h⟩

theorem withEvs_addEvs (Q : P) (a b : List Ev) : withEvs Q (a ++ Q.evs) = addEvs Q a.reverse := by
  simp [withEvs, addEvs]

mutual

/-- REFINEMENT, one item: from any good configuration, `stepValue` on `t.wire ++ rest`
followed by `cost t` iterations of the parser loop is the completion (`onValue`) of a value
whose events are exactly `t.events`, with `rest` left over. -/
theorem value_lemma (t : Item) (ht : t.ok = true) (f : Nat) (q : P) (rest : Bytes) (hq : Good q) :
    loopFrom (f + cost t) (stepValue q (t.wire ++ rest)) =
      loopFrom f (onValueR (addEvs q t.events) rest) := by
  match t with
  | .uint w n => exact value_uint w n (by simpa [Item.ok] using ht) f q rest hq
  | .nint w n =>
    simp only [Item.ok, Bool.and_eq_true, decide_eq_true_eq] at ht
    exact value_nint w n ht.1 ht.2 f q rest hq
  | .bytes w bs =>
    simp only [Item.ok, Bool.and_eq_true, decide_eq_true_eq] at ht
    exact value_bytes w bs ht.1 ht.2 f q rest hq
  | .text w bs =>
    simp only [Item.ok, Bool.and_eq_true, decide_eq_true_eq] at ht
    exact value_text w bs ht.1 ht.2 f q rest hq
  | .fals => exact value_simple 0xf4 _ stepValue_false f q rest hq
  | .tru => exact value_simple 0xf5 _ stepValue_true f q rest hq
  | .null => exact value_simple 0xf6 _ stepValue_null f q rest hq
  | .undef => exact value_simple 0xf7 _ stepValue_undef f q rest hq
  | .f32 b => exact value_f32 b f q rest hq
  | .f64 b => exact value_f64 b f q rest hq
  | .arr w xs =>
    simp only [Item.ok, Bool.and_eq_true, decide_eq_true_eq] at ht
    obtain ⟨⟨hfit, hlen⟩, hxs⟩ := ht
    simp only [Item.wire, head_eq, List.cons_append, List.append_assoc, cost, Item.events]
    rw [stepValue_sub q 4 (Or.inl rfl) _ (ai_lt w _ hfit), ofNat_128]
    rw [show f + (wcost w + 1 + costArr xs) = (f + costArr xs + 1) + wcost w by omega]
    rw [sub_head hq majorArr (by decide) (by decide) w xs.length hfit hlen]
    have hs : ((majorArr ||| stStartX) : UInt8) = 0x84 := by decide
    rw [hs]
    have hg1 : Good (pushState q ⟨majorArr, stStart⟩) := good_pushState hq _ (by decide)
    have hg2 : Good (pushState (pushState q ⟨majorArr, stStart⟩) ⟨0x84, stStart⟩) :=
      good_pushState hg1 _ (by decide)
    have hcur := pushState_current hg1.notFail ⟨0x84, stStart⟩
    rw [loopFrom_step _ _ rfl rfl (contParse_start _ _ 0x84 (by decide) (by simp [hcur]))]
    rw [execStep_startArr _ _ (by simp [hcur])]
    rw [visit_good (by simp [hg2.nofail])]
    simp only [pushLen_current, popSt_addEvs, popSt_pushLen, popSt_pushState hg1.notFail]
    have hb : Body q (addEvs (pushLen (pushState q ⟨majorArr, stStart⟩) xs.length) [.arrStart xs.length BT.any])
        ⟨majorArr, stStart⟩ true :=
      ⟨rfl, by simp [pushLen, LenStack.push, pushState], by simpa [pushState] using hq.buf,
        by simpa [pushState] using hq.nofail, rfl⟩
    rw [arr_body xs hxs f q _ rest hq hb (by simp)]
    congr 2
    simp [withEvs, addEvs, pushLen, pushState]
  | .arrIndef xs =>
    simp only [Item.ok, Bool.and_eq_true] at ht
    replace ht := ht.2
    simp only [Item.wire, List.cons_append, List.append_assoc, cost, Item.events]
    have hib : (0x9f : UInt8) = ib 4 31 := by decide
    rw [hib, stepValue_sub q 4 (Or.inl rfl) 31 (by omega), ofNat_128, initSub_indef]
    have hs1 : ((majorArr ||| stIndef) : UInt8) = 0x81 := by decide
    have hs2 : ((majorArr ||| stStartX ||| stIndef) : UInt8) = 0x85 := by decide
    rw [hs1, hs2]
    have hg1 : Good (pushState q ⟨0x81, stStart⟩) := good_pushState hq _ (by decide)
    have hg2 : Good (pushState (pushState q ⟨0x81, stStart⟩) ⟨0x85, stStart⟩) :=
      good_pushState hg1 _ (by decide)
    have hcur := pushState_current hg1.notFail ⟨0x85, stStart⟩
    rw [show f + (1 + costIndef xs) = (f + costIndef xs) + 1 by omega]
    rw [loopFrom_step _ _ rfl rfl (contParse_of_rest (by simp))]
    rw [execStep_startIndefArr _ _ (by simp [hcur])]
    rw [visit_good hg2.nofail]
    simp only [popSt_addEvs, popSt_pushState hg1.notFail]
    have hb : Body q (addEvs (pushState q ⟨0x81, stStart⟩) [.arrStart (-1) BT.any]) ⟨0x81, stStart⟩ false :=
      ⟨rfl, by simp [pushState], by simpa [pushState] using hq.buf,
        by simpa [pushState] using hq.nofail, rfl⟩
    have := indef_body xs ht f q _ rest hq hb
    simp only [List.singleton_append, List.cons_append, List.nil_append] at this ⊢
    rw [this]
    congr 2
    simp [withEvs, addEvs, pushState]
  | .map w ms =>
    simp only [Item.ok, Bool.and_eq_true, decide_eq_true_eq] at ht
    obtain ⟨⟨hfit, hlen⟩, hms⟩ := ht
    simp only [Item.wire, head_eq, List.cons_append, List.append_assoc, cost, Item.events]
    rw [stepValue_sub q 5 (Or.inr rfl) _ (ai_lt w _ hfit), ofNat_160]
    rw [show f + (wcost w + 1 + costMap ms) = (f + costMap ms + 1) + wcost w by omega]
    rw [sub_head hq majorMap (by decide) (by decide) w ms.length hfit hlen]
    have hs : ((majorMap ||| stStartX) : UInt8) = 0xa4 := by decide
    rw [hs]
    have hg1 : Good (pushState q ⟨majorMap, stStart⟩) := good_pushState hq _ (by decide)
    have hg2 : Good (pushState (pushState q ⟨majorMap, stStart⟩) ⟨0xa4, stStart⟩) :=
      good_pushState hg1 _ (by decide)
    have hcur := pushState_current hg1.notFail ⟨0xa4, stStart⟩
    rw [loopFrom_step _ _ rfl rfl (contParse_start _ _ 0xa4 (by decide) (by simp [hcur]))]
    rw [execStep_startMap _ _ (by simp [hcur])]
    rw [visit_good (by simp [hg2.nofail])]
    simp only [pushLen_current, popSt_addEvs, popSt_pushLen, popSt_pushState hg1.notFail]
    have hb : Body q (addEvs (pushLen (pushState q ⟨majorMap, stStart⟩) ms.length) [.objStart ms.length BT.any])
        ⟨majorMap, stStart⟩ true :=
      ⟨rfl, by simp [pushLen, LenStack.push, pushState], by simpa [pushState] using hq.buf,
        by simpa [pushState] using hq.nofail, rfl⟩
    rw [map_body ms hms f q _ rest hq hb (by simp)]
    congr 2
    simp [withEvs, addEvs, pushLen, pushState]
  | .mapIndef ms =>
    simp only [Item.ok, Bool.and_eq_true] at ht
    replace ht := ht.2
    simp only [Item.wire, List.cons_append, List.append_assoc, cost, Item.events]
    have hib : (0xbf : UInt8) = ib 5 31 := by decide
    rw [hib, stepValue_sub q 5 (Or.inr rfl) 31 (by omega), ofNat_160, initSub_indef]
    have hs1 : ((majorMap ||| stIndef) : UInt8) = 0xa1 := by decide
    have hs2 : ((majorMap ||| stStartX ||| stIndef) : UInt8) = 0xa5 := by decide
    rw [hs1, hs2]
    have hg1 : Good (pushState q ⟨0xa1, stStart⟩) := good_pushState hq _ (by decide)
    have hg2 : Good (pushState (pushState q ⟨0xa1, stStart⟩) ⟨0xa5, stStart⟩) :=
      good_pushState hg1 _ (by decide)
    have hcur := pushState_current hg1.notFail ⟨0xa5, stStart⟩
    rw [show f + (1 + costIndefMap ms) = (f + costIndefMap ms) + 1 by omega]
    rw [loopFrom_step _ _ rfl rfl (contParse_of_rest (by simp))]
    rw [execStep_startIndefMap _ _ (by simp [hcur])]
    rw [visit_good hg2.nofail]
    simp only [popSt_addEvs, popSt_pushState hg1.notFail]
    have hb : Body q (addEvs (pushState q ⟨0xa1, stStart⟩) [.objStart (-1) BT.any]) ⟨0xa1, stStart⟩ false :=
      ⟨rfl, by simp [pushState], by simpa [pushState] using hq.buf,
        by simpa [pushState] using hq.nofail, rfl⟩
    have := indefmap_body ms ht f q _ rest hq hb
    simp only [List.singleton_append, List.cons_append, List.nil_append] at this ⊢
    rw [this]
    congr 2
    simp [withEvs, addEvs, pushState]

/-- body of a definite array, from `stepArray` -/
theorem arr_body (xs : List Item) (hx : okList xs = true) (f : Nat) (Q q : P) (rest : Bytes)
    (hQ : Good Q) (hb : Body Q q ⟨majorArr, stStart⟩ true) (hl : q.length.current = xs.length) :
    loopFrom (f + costArr xs) (stepArray q (wireList xs ++ rest)) =
      loopFrom f (onValueR (withEvs Q (.arrEnd :: ((eventsList xs).reverse ++ q.evs))) rest) := by
  match xs with
  | [] =>
    simp only [wireList, List.nil_append, costArr, Nat.add_zero, eventsList, List.reverse_nil]
    have := handleLen_empty (Or.inl rfl) hQ hb (by simpa using hl) rest
    simp only [beq_self_eq_true, endEv, if_true] at this
    simp only [stepArray, hl, List.length_nil, Int.natCast_zero, Int.lt_irrefl, gt_iff_lt, if_false]
    rw [this]
  | x :: xs' =>
    simp only [okList, Bool.and_eq_true] at hx
    obtain ⟨hxo, hxs⟩ := hx
    have hgq : Good q := body_good hQ (by decide) hb
    simp only [wireList, List.append_assoc, costArr, eventsList]
    rw [stepArray_pos _ _ (by rw [hl]; simp)]
    have hb1 : Body Q (addEvs q x.events) ⟨majorArr, stStart⟩ true := body_addEvs hb _
    by_cases he : xs' = []
    · subst he
      simp only [List.isEmpty_nil, if_true, Nat.add_zero, costArr, wireList, List.nil_append, eventsList,
        List.append_nil]
      rw [value_lemma x hxo f q rest hgq]
      rw [onValueR_full (Or.inl rfl) hQ hb1 (by simp [hl])]
      simp [endEv, addEvs]
    · have hne : xs'.isEmpty = false := by cases xs' <;> simp_all
      simp only [hne, Bool.false_eq_true, if_false]
      rw [show f + (cost x + 1 + costArr xs') = (f + costArr xs' + 1) + cost x by omega]
      rw [value_lemma x hxo _ q _ hgq]
      rw [onValueR_more (Or.inl rfl) hQ hb1 (by
        simp only [addEvs_len, hl, List.length_cons]
        have : 0 < xs'.length := by cases xs' <;> simp_all
        omega)]
      have hne2 : wireList xs' ++ rest ≠ [] := by
        cases xs' with
        | nil => exact absurd rfl he
        | cons y ys =>
          simp only [okList, Bool.and_eq_true] at hxs
          have := wireList_ne_nil (xs := ys) hxs.1
          simp_all
      rw [loopFrom_step _ _ rfl rfl (contParse_of_rest hne2)]
      have hb2 := body_decLen hb1 1
      rw [execStep_arr _ _ (by rw [body_current hQ hb2]; rfl)]
      rw [arr_body xs' hxs f Q _ rest hQ hb2 (by simp [decLen, hl])]
      simp [decLen, addEvs]

/-- body of an indefinite array, from `indefArr` -/
theorem indef_body (xs : List Item) (hx : okList xs = true) (f : Nat) (Q q : P) (rest : Bytes)
    (hQ : Good Q) (hb : Body Q q ⟨0x81, stStart⟩ false) :
    loopFrom (f + costIndef xs) (indefArr q (wireList xs ++ 0xff :: rest)) =
      loopFrom f (onValueR (withEvs Q (.arrEnd :: ((eventsList xs).reverse ++ q.evs))) rest) := by
  match xs with
  | [] =>
    simp only [wireList, List.nil_append, costIndef, Nat.add_zero, eventsList, List.reverse_nil]
    simp only [indefArr, codeBreak, beq_self_eq_true, if_true]
    rw [visit_good hb.nofail]
    simp only []
    rw [popStateR_indef hQ hb]
  | x :: xs' =>
    simp only [okList, Bool.and_eq_true] at hx
    obtain ⟨hxo, hxs⟩ := hx
    have hgq : Good q := body_good hQ (by decide) hb
    obtain ⟨b0, bs, hw, hb0⟩ := wire_first x hxo
    simp only [wireList, List.append_assoc, costIndef, eventsList]
    have : x.wire ++ (wireList xs' ++ 0xff :: rest) = b0 :: (bs ++ (wireList xs' ++ 0xff :: rest)) := by
      rw [hw]; rfl
    rw [this, indefArr_value _ _ _ hb0, ← this]
    rw [show f + (cost x + 1 + costIndef xs') = (f + costIndef xs' + 1) + cost x by omega]
    rw [value_lemma x hxo _ q _ hgq]
    have hb1 : Body Q (addEvs q x.events) ⟨0x81, stStart⟩ false := body_addEvs hb _
    rw [onValueR_indef (Or.inl rfl) hQ hb1]
    rw [loopFrom_step _ _ rfl rfl (contParse_of_rest (by simp))]
    rw [execStep_indefArr _ _ (by rw [body_current hQ hb1])]
    rw [indef_body xs' hxs f Q _ rest hQ hb1]
    simp [addEvs]

/-- body of a definite map, from `stepMap` -/
theorem map_body (ms : List (W × Bytes × Item)) (hm : okMems ms = true) (f : Nat) (Q q : P) (rest : Bytes)
    (hQ : Good Q) (hb : Body Q q ⟨majorMap, stStart⟩ true) (hl : q.length.current = ms.length) :
    loopFrom (f + costMap ms) (stepMap q (wireMems ms ++ rest)) =
      loopFrom f (onValueR (withEvs Q (.objEnd :: ((eventsMems ms).reverse ++ q.evs))) rest) := by
  match ms with
  | [] =>
    simp only [wireMems, List.nil_append, costMap, Nat.add_zero, eventsMems, List.reverse_nil]
    have := handleLen_empty (Or.inr rfl) hQ hb (by simpa using hl) rest
    have hne : (majorMap == majorArr) = false := by decide
    simp only [hne, endEv, Bool.false_eq_true, if_false] at this
    simp only [stepMap, hl, List.length_nil, Int.natCast_zero, Int.lt_irrefl, gt_iff_lt, if_false]
    rw [this]
  | (kw, k, v) :: ms' =>
    simp only [okMems, Bool.and_eq_true, decide_eq_true_eq] at hm
    obtain ⟨⟨⟨hkf, hkl⟩, hvo⟩, hms⟩ := hm
    have hgq : Good q := body_good hQ (by decide) hb
    simp only [wireMems, List.append_assoc, costMap, eventsMems]
    have hpos : q.length.current > 0 := by rw [hl]; simp
    have hnonempty : (head 3 kw k.length ++ (k ++ (v.wire ++ (wireMems ms' ++ rest)))).length > 0 := by
      simp [head_eq]
    simp only [stepMap, hpos, if_true, hnonempty]
    have htail : v.wire ++ (wireMems ms' ++ rest) ≠ [] := by
      have := wire_ne_nil v hvo
      simp [this]
    have hkey := key_lemma hgq kw k hkf hkl (v.wire ++ (wireMems ms' ++ rest)) htail
    simp only [List.append_assoc] at hkey
    have hb1 : Body Q (addEvs (addEvs q [.key k]) v.events) ⟨majorMap, stStart⟩ true :=
      body_addEvs (body_addEvs hb _) _
    by_cases he : ms' = []
    · subst he
      simp only [List.isEmpty_nil, if_true, Nat.add_zero, costMap, wireMems, List.nil_append, eventsMems,
        List.append_nil]
      simp only [wireMems, List.nil_append] at hkey
      rw [show f + (wcost kw + 2 + cost v) = (f + cost v) + (wcost kw + 2) by omega]
      rw [hkey, value_lemma v hvo f _ rest (good_addEvs hgq _)]
      rw [onValueR_full (Or.inr rfl) hQ hb1 (by simp [hl])]
      have hne : (majorMap == majorArr) = false := by decide
      simp [endEv, hne, addEvs]
    · have hne : ms'.isEmpty = false := by cases ms' <;> simp_all
      simp only [hne, Bool.false_eq_true, if_false]
      rw [show f + (wcost kw + 2 + cost v + 1 + costMap ms') = ((f + costMap ms' + 1) + cost v) + (wcost kw + 2) by omega]
      rw [hkey, value_lemma v hvo _ _ _ (good_addEvs hgq _)]
      rw [onValueR_more (Or.inr rfl) hQ hb1 (by
        simp only [addEvs_len, hl, List.length_cons]
        have : 0 < ms'.length := by cases ms' <;> simp_all
        omega)]
      have hne2 : wireMems ms' ++ rest ≠ [] := by
        cases ms' with
        | nil => exact absurd rfl he
        | cons y ys =>
          obtain ⟨kw2, k2, v2⟩ := y
          simp [wireMems, head_eq]
      rw [loopFrom_step _ _ rfl rfl (contParse_of_rest hne2)]
      have hb2 := body_decLen hb1 1
      rw [execStep_map _ _ (by rw [body_current hQ hb2]; rfl)]
      rw [map_body ms' hms f Q _ rest hQ hb2 (by simp [decLen, hl])]
      simp [decLen, addEvs]

/-- body of an indefinite map, from `indefMap` -/
theorem indefmap_body (ms : List (W × Bytes × Item)) (hm : okMems ms = true) (f : Nat) (Q q : P)
    (rest : Bytes) (hQ : Good Q) (hb : Body Q q ⟨0xa1, stStart⟩ false) :
    loopFrom (f + costIndefMap ms) (indefMap q (wireMems ms ++ 0xff :: rest)) =
      loopFrom f (onValueR (withEvs Q (.objEnd :: ((eventsMems ms).reverse ++ q.evs))) rest) := by
  match ms with
  | [] =>
    simp only [wireMems, List.nil_append, costIndefMap, Nat.add_zero, eventsMems, List.reverse_nil]
    simp only [indefMap, codeBreak, beq_self_eq_true, if_true]
    rw [visit_good hb.nofail]
    simp only []
    rw [popStateR_indef hQ hb]
  | (kw, k, v) :: ms' =>
    simp only [okMems, Bool.and_eq_true, decide_eq_true_eq] at hm
    obtain ⟨⟨⟨hkf, hkl⟩, hvo⟩, hms⟩ := hm
    have hgq : Good q := body_good hQ (by decide) hb
    simp only [wireMems, List.append_assoc, costIndefMap, eventsMems]
    have hhd : head 3 kw k.length ++ (k ++ (v.wire ++ (wireMems ms' ++ 0xff :: rest))) =
        ib 3 (kw.ai k.length) :: (beBytes kw.bytes k.length ++ (k ++ (v.wire ++ (wireMems ms' ++ 0xff :: rest)))) := by
      simp [head_eq]
    rw [hhd, indefMap_key _ _ _ (head3_ne_break kw _ hkf), ← hhd]
    have htail : v.wire ++ (wireMems ms' ++ 0xff :: rest) ≠ [] := by
      have := wire_ne_nil v hvo
      simp [this]
    have hkey := key_lemma hgq kw k hkf hkl (v.wire ++ (wireMems ms' ++ 0xff :: rest)) htail
    simp only [List.append_assoc] at hkey
    rw [show f + (wcost kw + 2 + cost v + 1 + costIndefMap ms') = ((f + costIndefMap ms' + 1) + cost v) + (wcost kw + 2) by omega]
    rw [hkey, value_lemma v hvo _ _ _ (good_addEvs hgq _)]
    have hb1 : Body Q (addEvs (addEvs q [.key k]) v.events) ⟨0xa1, stStart⟩ false :=
      body_addEvs (body_addEvs hb _) _
    rw [onValueR_indef (Or.inr rfl) hQ hb1]
    rw [loopFrom_step _ _ rfl rfl (contParse_of_rest (by simp))]
    rw [execStep_indefMap _ _ (by rw [body_current hQ hb1])]
    rw [indefmap_body ms' hms f Q _ rest hQ hb1]
    simp [addEvs]

end

end SF.Cbor.Parse
