/-
  UBJSON refinement: single steps on explicit configurations — objects (plain, counted,
  typed).
-/
import SF.Proofs.UbjRefScalar
namespace SF.Ubjson.Parse
open SF SF.Ubjson SF.Ubjson.Syn
open StateType StateStep

section obj
variable (S : List St) (VS : StateStack) (LS : List Int) (lc : Int) (vt : Nat) (E : List Ev)

/-! ### '{' : stepObjectInit -/

theorem step_objInit_count (bs : Bytes) :
    execStep (mk S ⟨stObject, stStart⟩ VS LS lc vt E) (countMarker :: bs) =
      ⟨mk S ⟨stObjectCount, stStart⟩ VS LS lc vt E, bs, false, none⟩ := by
  simp +decide [execStep, stepObjectInit, mk, setType, setCurrent]

theorem step_objInit_typed (bs : Bytes) :
    execStep (mk S ⟨stObject, stStart⟩ VS LS lc vt E) (typeMarker :: bs) =
      ⟨mk S ⟨stObjectTyped, stStart⟩ VS LS lc vt E, bs, false, none⟩ := by
  simp +decide [execStep, stepObjectInit, mk, setType, setCurrent]

theorem step_objInit_dyn (b0 : UInt8) (bs : Bytes) (h1 : (b0 == countMarker) = false)
    (h2 : (b0 == typeMarker) = false) :
    execStep (mk S ⟨stObject, stStart⟩ VS LS lc vt E) (b0 :: bs) =
      ⟨mk S ⟨stObjectDyn, stStart⟩ VS LS lc vt (.objStart (-1) BT.any :: E), b0 :: bs, false, none⟩ := by
  simp [execStep, stepObjectInit, mk, setType, setCurrent, h1, h2, visit]

/-! ### plain objects: stepObjectDyn -/

theorem step_objDyn_end (c : St) (bs : Bytes) :
    execStep (mk (c :: S) ⟨stObjectDyn, stStart⟩ VS LS lc vt E) (objEndMarker :: bs) =
      ret S c VS LS lc vt (.objEnd :: E) bs := by
  simp +decide [execStep, stepObjectDyn, mk, visit, popState, StateStack.pop, ret]

theorem lw_marker_ne_objEnd (w : LW) : (w.marker == objEndMarker) = false := by cases w <;> decide

theorem step_objDyn_keyLen (w : LW) (n : Nat) (h : w.fits n = true) (rest : Bytes) :
    execStep (mk S ⟨stObjectDyn, stStart⟩ VS LS lc vt E) (lenWire w n ++ rest) =
      ⟨mk S ⟨stObjectDyn, stFieldNameLen⟩ VS (lc :: LS) n vt E, rest, false, none⟩ := by
  have hl := stepLen_lenWire S ⟨stObjectDyn, stStart⟩ VS LS lc vt E w n h rest ⟨stObjectDyn, stFieldNameLen⟩
  rw [execStep_eq]
  have : dispatch (mk S ⟨stObjectDyn, stStart⟩ VS LS lc vt E) (lenWire w n ++ rest) =
      ⟨mk S ⟨stObjectDyn, stFieldNameLen⟩ VS (lc :: LS) n vt E, rest, false, none⟩ := by
    simp only [mk] at hl ⊢
    have hw := lw_marker_ne_objEnd w
    simp only [dispatch, stepObjectDyn, St.withStep]
    simp only [lenWire, List.cons_append] at hl ⊢
    simp +decide [hw, hl]
  rw [this]

/-- the key: collected, the length popped, OnKey -/
theorem fieldName_mk (ty : StateType) (l0 : Int) (k rest : Bytes) :
    fieldName (mk S ⟨ty, stFieldNameLen⟩ VS (l0 :: LS) k.length vt E) (k ++ rest) =
      ⟨mk S ⟨ty, stCont⟩ VS LS l0 vt (.key k :: E), rest, false, none⟩ := by
  have hc := collectP_nil (mk S ⟨ty, stFieldNameLen⟩ VS (l0 :: LS) (k.length : Nat) vt E) rfl k rest k.length rfl
  unfold fieldName
  have h2 : ¬ ((k.length : Int) < 0) := by omega
  simp only [mk] at hc ⊢
  simp only [h2, if_false, Int.toNat_natCast, hc]
  simp [visit, popLen, Cbor.LenStack.pop, setStep, setCurrent]

theorem step_objDyn_key (l0 : Int) (k rest : Bytes) :
    execStep (mk S ⟨stObjectDyn, stFieldNameLen⟩ VS (l0 :: LS) k.length vt E) (k ++ rest) =
      ⟨mk S ⟨stObjectDyn, stCont⟩ VS LS l0 vt (.key k :: E), rest, false, none⟩ := by
  have hf := fieldName_mk S VS LS vt E stObjectDyn l0 k rest
  rw [execStep_eq]
  have : dispatch (mk S ⟨stObjectDyn, stFieldNameLen⟩ VS (l0 :: LS) k.length vt E) (k ++ rest) =
      ⟨mk S ⟨stObjectDyn, stCont⟩ VS LS l0 vt (.key k :: E), rest, false, none⟩ := by
    simp only [mk] at hf ⊢
    simp +decide [dispatch, stepObjectDyn, hf]
  rw [this]

theorem step_objDyn_value (b0 : UInt8) (bs : Bytes) (hn : (b0 == noopMarker) = false)
    (he : (stepValue (mk S ⟨stObjectDyn, stStart⟩ VS LS lc vt E) (b0 :: bs)).err = none) :
    execStep (mk S ⟨stObjectDyn, stCont⟩ VS LS lc vt E) (b0 :: bs) =
      { stepValue (mk S ⟨stObjectDyn, stStart⟩ VS LS lc vt E) (b0 :: bs) with done := false } := by
  rw [execStep_eq]
  have : dispatch (mk S ⟨stObjectDyn, stCont⟩ VS LS lc vt E) (b0 :: bs) =
      { stepValue (mk S ⟨stObjectDyn, stStart⟩ VS LS lc vt E) (b0 :: bs) with done := false } := by
    simp +decide [dispatch, stepObjectDyn, mk, hn, setStep, setCurrent]
  rw [this]
  simp only [he]

end obj

section objc
variable (S : List St) (VS : StateStack) (LS : List Int) (lc : Int) (vt : Nat) (E : List Ev)

/-! ### counted and typed objects: stepObjectCount / stepObjectTyped -/

theorem step_objCount_len (w : LW) (n : Nat) (h : w.fits n = true) (rest : Bytes) :
    execStep (mk S ⟨stObjectCount, stStart⟩ VS LS lc vt E) (lenWire w n ++ rest) =
      ⟨mk S ⟨stObjectCount, stWithLen⟩ VS (lc :: LS) n vt E, rest, false, none⟩ := by
  have hl := stepLen_lenWire S ⟨stObjectCount, stStart⟩ VS LS lc vt E w n h rest ⟨stObjectCount, stWithLen⟩
  rw [execStep_eq]
  have : dispatch (mk S ⟨stObjectCount, stStart⟩ VS LS lc vt E) (lenWire w n ++ rest) =
      ⟨mk S ⟨stObjectCount, stWithLen⟩ VS (lc :: LS) n vt E, rest, false, none⟩ := by
    simp only [dispatch, mk] at hl ⊢
    simp only [stepObjectCount, St.withStep, beq_self_eq_true, if_true, hl]
  rw [this]

/-- the `stWithLen` step = the `stFieldName` step with OnObjectStart delivered -/
theorem step_objCount_withLen (ty : StateType) (hty : ty = stObjectCount ∨ ty = stObjectTyped)
    (b : Bytes) (h : lc = 0 ∨ b ≠ []) :
    execStep (mk S ⟨ty, stWithLen⟩ VS LS lc vt E) b =
      execStep (mk S ⟨ty, stFieldName⟩ VS LS lc vt (.objStart lc BT.any :: E)) b := by
  have : dispatch (mk S ⟨ty, stWithLen⟩ VS LS lc vt E) b =
      dispatch (mk S ⟨ty, stFieldName⟩ VS LS lc vt (.objStart lc BT.any :: E)) b := by
    have hz0 : ∀ X : StateStep, (popLenState
          { state := { stack := S, current := { type := ty, step := X } }, valueState := VS,
            length := { stack := LS, current := 0 }, valueType := vt, evs := Ev.objEnd :: Ev.objStart 0 BT.any :: E,
            buffer := [], marker := noMarker, err := none, failAt := none }) =
        (popLenState
          { state := { stack := S, current := { type := ty, step := stFieldName } }, valueState := VS,
            length := { stack := LS, current := 0 }, valueType := vt, evs := Ev.objEnd :: Ev.objStart 0 BT.any :: E,
            buffer := [], marker := noMarker, err := none, failAt := none }) := by
      intro X; cases S <;> rfl
    have hz1 : ∀ X : StateStep, (popLenState (popValueState
          { state := { stack := S, current := { type := ty, step := X } }, valueState := VS,
            length := { stack := LS, current := 0 }, valueType := vt, evs := Ev.objEnd :: Ev.objStart 0 BT.any :: E,
            buffer := [], marker := noMarker, err := none, failAt := none })) =
        (popLenState (popValueState
          { state := { stack := S, current := { type := ty, step := stFieldName } }, valueState := VS,
            length := { stack := LS, current := 0 }, valueType := vt, evs := Ev.objEnd :: Ev.objStart 0 BT.any :: E,
            buffer := [], marker := noMarker, err := none, failAt := none })) := by
      intro X; cases S <;> rfl
    by_cases hz : lc = 0
    · subst hz
      rcases hty with rfl | rfl
      · simp +decide [dispatch, mk, stepObjectCount, stepObjectCountedContent, visit, hz0 stWithLen]
      · simp +decide [dispatch, mk, stepObjectTyped, stepObjectCountedContent, visit, hz1 stWithLen]
    · have hb : b ≠ [] := by rcases h with h | h; exact absurd h hz; exact h
      cases b with
      | nil => exact absurd rfl hb
      | cons b0 bs =>
        rcases hty with rfl | rfl <;>
          simp +decide [dispatch, mk, stepObjectCount, stepObjectTyped, stepObjectCountedContent, visit, hz,
              setStep, setCurrent]
  rw [execStep_eq, execStep_eq, this]

theorem step_objCount_end (c : St) (l0 : Int) (b : Bytes) :
    execStep (mk (c :: S) ⟨stObjectCount, stFieldName⟩ VS (l0 :: LS) 0 vt E) b =
      ret S c VS LS l0 vt (.objEnd :: E) b := by
  simp +decide [execStep, stepObjectCount, stepObjectCountedContent, mk, visit, popLenState, popLen, popState,
    StateStack.pop, Cbor.LenStack.pop, ret]

theorem step_objTyped_end (c : St) (l0 : Int) (b : Bytes) :
    execStep (mk (c :: S) ⟨stObjectTyped, stFieldName⟩ VS (l0 :: LS) 0 vt E) b =
      ret S c VS.pop LS l0 vt (.objEnd :: E) b := by
  simp +decide [execStep, stepObjectTyped, stepObjectCountedContent, mk, visit, popLenState, popLen, popState,
    popValueState, StateStack.pop, Cbor.LenStack.pop, ret]

theorem step_objCount_keyLen (ty : StateType) (hty : ty = stObjectCount ∨ ty = stObjectTyped)
    (h0 : lc ≠ 0) (w : LW) (n : Nat) (h : w.fits n = true) (rest : Bytes) :
    execStep (mk S ⟨ty, stFieldName⟩ VS LS lc vt E) (lenWire w n ++ rest) =
      ⟨mk S ⟨ty, stFieldNameLen⟩ VS (lc :: LS) n vt E, rest, false, none⟩ := by
  have hl := stepLen_lenWire S ⟨ty, stFieldName⟩ VS LS lc vt E w n h rest ⟨ty, stFieldNameLen⟩
  rw [execStep_eq]
  have : dispatch (mk S ⟨ty, stFieldName⟩ VS LS lc vt E) (lenWire w n ++ rest) =
      ⟨mk S ⟨ty, stFieldNameLen⟩ VS (lc :: LS) n vt E, rest, false, none⟩ := by
    simp only [mk] at hl ⊢
    rcases hty with rfl | rfl <;>
      simp +decide [dispatch, stepObjectCount, stepObjectTyped, stepObjectCountedContent, St.withStep, h0, hl]
  rw [this]

theorem step_objCount_key (ty : StateType) (hty : ty = stObjectCount ∨ ty = stObjectTyped)
    (l0 : Int) (k rest : Bytes) :
    execStep (mk S ⟨ty, stFieldNameLen⟩ VS (l0 :: LS) k.length vt E) (k ++ rest) =
      ⟨mk S ⟨ty, stCont⟩ VS LS l0 vt (.key k :: E), rest, false, none⟩ := by
  have hf := fieldName_mk S VS LS vt E ty l0 k rest
  rw [execStep_eq]
  have : dispatch (mk S ⟨ty, stFieldNameLen⟩ VS (l0 :: LS) k.length vt E) (k ++ rest) =
      ⟨mk S ⟨ty, stCont⟩ VS LS l0 vt (.key k :: E), rest, false, none⟩ := by
    simp only [mk] at hf ⊢
    rcases hty with rfl | rfl <;>
      simp +decide [dispatch, stepObjectCount, stepObjectTyped, stepObjectCountedContent, hf]
  rw [this]

theorem step_objCount_value (b0 : UInt8) (bs : Bytes) (hn : (b0 == noopMarker) = false)
    (he : (stepValue (mk S ⟨stObjectCount, stFieldName⟩ VS LS (lc - 1) vt E) (b0 :: bs)).err = none) :
    execStep (mk S ⟨stObjectCount, stCont⟩ VS LS lc vt E) (b0 :: bs) =
      { stepValue (mk S ⟨stObjectCount, stFieldName⟩ VS LS (lc - 1) vt E) (b0 :: bs) with done := false } := by
  rw [execStep_eq]
  have : dispatch (mk S ⟨stObjectCount, stCont⟩ VS LS lc vt E) (b0 :: bs) =
      { stepValue (mk S ⟨stObjectCount, stFieldName⟩ VS LS (lc - 1) vt E) (b0 :: bs) with done := false } := by
    simp +decide [dispatch, stepObjectCount, stepObjectCountedContent, mk, hn, setStep, setCurrent, decLen]
  rw [this]
  simp only [he]

theorem step_objTyped_value (b : Bytes) :
    execStep (mk S ⟨stObjectTyped, stCont⟩ VS LS lc vt E) b =
      ⟨mk (⟨stObjectTyped, stFieldName⟩ :: S) VS.current VS LS (lc - 1) vt E, b, false, none⟩ := by
  simp +decide [execStep, stepObjectTyped, stepObjectCountedContent, mk, setStep, setCurrent, decLen, pushState,
    StateStack.push]

end objc
end SF.Ubjson.Parse
