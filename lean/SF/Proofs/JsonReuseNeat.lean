/-
  C17 for the JSON parser / pull decoder mirror: the token buffer `literalBuffer` is empty
  outside tokens.  `Neat p`: if something is buffered then the parser is inside a string, a
  number or a key.  Holds for the fresh parser, is preserved by every step and by the loop
  `feedUntil`.  (The end of input does NOT clear the buffer of a top-level number it completes
  — `Decoder.finalize` leaves the token behind; nothing follows it then, see
  SF/Proofs/JsonReuseDec.lean.)
-/
import SF.Proofs.JsonRefineTidy
set_option linter.unusedSimpArgs false
set_option linter.unusedVariables false
namespace SF.Json.ParseP
open SF SF.Json SF.Json.Parse SF.Json.Float

def isTok (s : St) : Bool := s == .stringState || s == .numberState || s == .dictFieldState

def Neat (p : P) : Prop := isTok p.currentState = false → p.literalBuffer = []

theorem neat_of_nil {p : P} (h : p.literalBuffer = []) : Neat p := fun _ => h

theorem neat_of_tok {p : P} (h : isTok p.currentState = true) : Neat p := by
  intro hc; rw [h] at hc; cases hc

/-! ## the buffer is untouched outside tokens -/

theorem visit_lb (p : P) (e : Ev) : (visit p e).1.literalBuffer = p.literalBuffer := by rw [visit_fst]

theorem popState_lb (p : P) : (popState p).literalBuffer = p.literalBuffer := by unfold popState; split <;> rfl

theorem pushState_lb (p : P) (s : St) : (pushState p s).literalBuffer = p.literalBuffer := by
  unfold pushState; split <;> rfl

theorem stepLit_lb (p : P) (b : Bytes) (kind : String) (err : Err) (ev : Ev)
    (hn : p.required ≤ (strBytes kind).length) : (stepLit p b kind err ev).p.literalBuffer = p.literalBuffer := by
  by_cases hb : b.length < p.required
  · rw [stepLit_short p b kind err ev hn hb]; split <;> rfl
  · rw [stepLit_full p b kind err ev hn (by omega)]
    split
    · simp only [visit_lb, popState_lb]
    · rfl

theorem reportNumber_lb (p : P) (b : Bytes) (d : Bool) : (reportNumber p b d).1.literalBuffer = p.literalBuffer := by
  unfold reportNumber
  split
  · split <;> first | exact visit_lb _ _ | rfl
  · split
    · rfl
    · split
      · exact visit_lb _ _
      · split <;> exact visit_lb _ _

theorem endDict_lb (p : P) (b : Bytes) : (endDict p b).p.literalBuffer = p.literalBuffer := by
  unfold endDict; simp only [visit_lb, popState_lb]

theorem endArray_lb (p : P) (b : Bytes) : (endArray p b).p.literalBuffer = p.literalBuffer := by
  unfold endArray; simp only [visit_lb, popState_lb]

theorem stepDict_lb (p : P) (b : Bytes) (ae : Bool) : (stepDict p b ae).p.literalBuffer = p.literalBuffer := by
  unfold stepDict
  split
  · rfl
  · simp only
    split
    · split
      · rfl
      · exact endDict_lb _ _
    · split <;> rfl

theorem stepDictValueEnd_lb (p : P) (b : Bytes) : (stepDictValueEnd p b).p.literalBuffer = p.literalBuffer := by
  unfold stepDictValueEnd
  split
  · rfl
  · split
    · exact endDict_lb _ _
    · split <;> rfl

theorem stepArray_lb (p : P) (b : Bytes) (ae : Bool) : (stepArray p b ae).p.literalBuffer = p.literalBuffer := by
  unfold stepArray
  split
  · rfl
  · simp only
    split
    · split
      · rfl
      · exact endArray_lb _ _
    · rfl

theorem stepArrValueEnd_lb (p : P) (b : Bytes) : (stepArrValueEnd p b).p.literalBuffer = p.literalBuffer := by
  unfold stepArrValueEnd
  split
  · rfl
  · split
    · exact endArray_lb _ _
    · split <;> rfl

/-! ## tokens -/

theorem stepNumber_neat (p : P) (b : Bytes) (hcs : p.currentState = .numberState) : Neat (stepNumber p b).p := by
  cases hd : (scanNumber b p.isDouble).2.2.1 with
  | false =>
    rw [stepNumber_more p b hd]
    exact neat_of_tok (by simp only [hcs]; rfl)
  | true =>
    rw [stepNumber_done p b hd]
    exact neat_of_nil (by rw [popState_lb, reportNumber_lb])

/-- after doString: the buffer is empty, or it is still inside the string -/
theorem doString_neat (p : P) (b : Bytes) (hb : b ≠ []) :
    ((doString p b).1.literalBuffer = [] ∨ (doString p b).2.2.1 = false) ∧
    (doString p b).1.currentState = p.currentState := by
  cases b with
  | nil => exact absurd rfl hb
  | cons c tl =>
    cases hlb : p.literalBuffer with
    | nil =>
      cases hs : (scanString tl p.inEscape 0).1 with
      | none => rw [doString_start_none p c tl hlb hs]; exact ⟨Or.inr rfl, rfl⟩
      | some i =>
        rw [doString_start_some p c tl i hlb hs]
        cases unquote (tl.take i) <;> exact ⟨Or.inl hlb, rfl⟩
    | cons l ls =>
      cases hs : (scanString (c :: tl) p.inEscape 0).1 with
      | none => rw [doString_cont_none p _ l ls hlb hs]; exact ⟨Or.inr rfl, rfl⟩
      | some i =>
        rw [doString_cont_some p _ l ls i hlb hs]
        cases unquote (ls ++ (c :: tl).take i) <;> exact ⟨Or.inl rfl, rfl⟩

theorem stepString_neat (p : P) (b : Bytes) (hb : b ≠ []) (hcs : p.currentState = .stringState) :
    Neat (stepString p b).p := by
  have h := doString_neat p b hb
  unfold stepString
  generalize doString p b = d at h ⊢
  obtain ⟨q, ref, done, rest, err⟩ := d
  simp only at h ⊢
  obtain ⟨h1, h2⟩ := h
  rcases h1 with h1 | h1
  · split
    · exact neat_of_nil (by simp only [visit_lb, popState_lb]; exact h1)
    · exact neat_of_nil h1
  · subst h1
    simp only [Bool.false_and, Bool.false_eq_true, if_false]
    exact neat_of_tok (by rw [h2, hcs]; rfl)

theorem stepDictKey_neat (p : P) (b : Bytes) (hb : b ≠ []) (hcs : p.currentState = .dictFieldState) :
    Neat (stepDictKey p b).p := by
  have h := doString_neat p b hb
  unfold stepDictKey
  generalize doString p b = d at h ⊢
  obtain ⟨q, ref, done, rest, err⟩ := d
  simp only at h ⊢
  obtain ⟨h1, h2⟩ := h
  rcases h1 with h1 | h1
  · split
    · exact neat_of_nil (by simp only [visit_lb]; exact h1)
    · exact neat_of_nil h1
  · subst h1
    simp only [Bool.false_and, Bool.false_eq_true, if_false]
    exact neat_of_tok (by rw [h2, hcs]; rfl)

theorem stepValue_neat (p : P) (b : Bytes) (ret : St) (h : p.literalBuffer = []) : Neat (stepValue p b ret).p := by
  unfold stepValue
  split
  · exact neat_of_nil h
  · rename_i c tl _
    simp only
    split
    · exact neat_of_nil (by simp only [visit_lb, pushState_lb]; exact h)
    · split
      · exact neat_of_nil (by simp only [visit_lb, pushState_lb]; exact h)
      · split
        · refine neat_of_nil ?_
          unfold stepNULL
          rw [stepLit_lb _ _ _ _ _ (by rw [kind_null]; simp)]
          simp only [pushState_lb]; exact h
        · split
          · refine neat_of_nil ?_
            unfold stepFALSE
            rw [stepLit_lb _ _ _ _ _ (by rw [kind_false]; simp)]
            simp only [pushState_lb]; exact h
          · split
            · refine neat_of_nil ?_
              unfold stepTRUE
              rw [stepLit_lb _ _ _ _ _ (by rw [kind_true]; simp)]
              simp only [pushState_lb]; exact h
            · split
              · apply stepString_neat _ _ (by simp)
                show (pushState _ St.stringState).currentState = _
                unfold pushState; split <;> rfl
              · split
                · exact neat_of_nil h
                · apply stepNumber_neat
                  show (pushState _ St.numberState).currentState = _
                  unfold pushState; split <;> rfl

/-- ONE STEP preserves `Neat` -/
theorem execStep_neat (p : P) (b : Bytes) (hb : b ≠ []) (hinv : Inv p) (h : Neat p) : Neat (execStep p b).1.p := by
  unfold execStep
  cases hcs : p.currentState with
  | failedState =>
    have hf := h (by rw [hcs]; rfl)
    simp only
    split <;> exact neat_of_nil hf
  | startState => exact stepValue_neat p b _ (h (by rw [hcs]; rfl))
  | dictState => exact neat_of_nil (by rw [stepDict_lb]; exact h (by rw [hcs]; rfl))
  | dictNextFieldState => exact neat_of_nil (by rw [stepDict_lb]; exact h (by rw [hcs]; rfl))
  | dictFieldState => exact stepDictKey_neat p b hb hcs
  | dictFieldValueSep =>
    have hf := h (by rw [hcs]; rfl)
    simp only
    split <;> exact neat_of_nil hf
  | dictFieldValue => exact stepValue_neat p b _ (h (by rw [hcs]; rfl))
  | dictFieldStateEnd => exact neat_of_nil (by rw [stepDictValueEnd_lb]; exact h (by rw [hcs]; rfl))
  | arrState => exact neat_of_nil (by rw [stepArray_lb]; exact h (by rw [hcs]; rfl))
  | arrStateValue => exact stepValue_neat p b _ (h (by rw [hcs]; rfl))
  | arrStateNext => exact neat_of_nil (by rw [stepArrValueEnd_lb]; exact h (by rw [hcs]; rfl))
  | nullState =>
    refine neat_of_nil ?_
    unfold stepNULL
    rw [stepLit_lb _ _ _ _ _ (by rw [kind_null]; have := hinv.lit (by rw [hcs]; rfl); rw [hcs] at this; exact this)]
    exact h (by rw [hcs]; rfl)
  | trueState =>
    refine neat_of_nil ?_
    unfold stepTRUE
    rw [stepLit_lb _ _ _ _ _ (by rw [kind_true]; have := hinv.lit (by rw [hcs]; rfl); rw [hcs] at this; exact this)]
    exact h (by rw [hcs]; rfl)
  | falseState =>
    refine neat_of_nil ?_
    unfold stepFALSE
    rw [stepLit_lb _ _ _ _ _ (by rw [kind_false]; have := hinv.lit (by rw [hcs]; rfl); rw [hcs] at this; exact this)]
    exact h (by rw [hcs]; rfl)
  | stringState => exact stepString_neat p b hb hcs
  | numberState => exact stepNumber_neat p b hcs

/-- the loop `feedUntil` preserves `Neat` -/
theorem feedUntil_neat (f : Nat) (p : P) (b : Bytes) (hinv : Inv p) (h : Neat p) : Neat (feedUntil f p b).p := by
  induction f generalizing p b with
  | zero => exact h
  | succ f ih =>
    rw [feedUntil_succ]
    by_cases hb : b = []
    · subst hb; exact h
    · have hbe : b.isEmpty = false := by cases b <;> simp_all
      simp only [hbe, Bool.false_eq_true, if_false]
      have ht := execStep_neat p b hb hinv h
      split
      · exact ht
      · split
        · exact ht
        · rename_i hs _
          have hcs : p.currentState ≠ .failedState := by
            intro hc
            rw [(execStep_failed p b hc).1] at hs; simp at hs
          obtain ⟨_, _, _, k4, _⟩ := execStep_ok p b hb hinv hcs
          split
          · exact ht
          · exact ih _ _ k4 ht

theorem neat_fresh (failAt : Option Nat) : Neat (init failAt) := neat_of_nil rfl

end SF.Json.ParseP
