/-
  C06, converse direction: THE LANGUAGE THE UBJSON PARSER ACCEPTS.  `LItem` is the grammar
  `Syn.Item` of SF/Proofs/UbjItem.lean with the ONE leniency of the parser built in: in plain
  and counted (not typed) objects, no-op bytes `N` may stand between a key and its value
  ("no-op is no field value", stepObjectDyn / stepObjectCountedContent):

    Object ::= '{' (Len bytes N* Value)* '}' | '{' '#' Len (Len bytes N* Value)ⁿ
             | '{' '$' Type '#' Len (Len bytes Payload)ⁿ

  Everything else is `Syn.Item`: `erase` forgets those no-op counts; marker, events, value and
  well-formedness of an `LItem` are those of its `erase`; an `LItem` without such no-ops
  (`plain`) has the wire form of its `erase`.
-/
import SF.Proofs.UbjItem
namespace SF.Ubjson.Syn
open SF SF.Ubjson

inductive LItem
  | null | tru | fals
  | int (k : IK) (v : Int)
  | f32 (bits : UInt32) | f64 (bits : UInt64)
  | char (c : UInt8)
  | str (w : LW) (s : Bytes)
  | hp (w : LW) (s : Bytes)
  | arr (xs : List (Nat × LItem)) (trail : Nat)
  | arrN (w : LW) (xs : List (Nat × LItem))
  | arrT (t : UInt8) (w : LW) (xs : List LItem)
  | obj (ms : List (LW × Bytes × Nat × LItem))                 -- key, no-ops, value
  | objN (w : LW) (ms : List (LW × Bytes × Nat × LItem))
  | objT (t : UInt8) (w : LW) (ms : List (LW × Bytes × LItem))
  deriving Repr, Inhabited

mutual
/-- forget the no-ops between keys and values -/
def LItem.erase : LItem → Item
  | .null => .null | .tru => .tru | .fals => .fals
  | .int k v => .int k v
  | .f32 b => .f32 b | .f64 b => .f64 b
  | .char c => .char c
  | .str w s => .str w s | .hp w s => .hp w s
  | .arr xs t => .arr (eraseElems xs) t
  | .arrN w xs => .arrN w (eraseElems xs)
  | .arrT t w xs => .arrT t w (eraseList xs)
  | .obj ms => .obj (eraseMems ms)
  | .objN w ms => .objN w (eraseMems ms)
  | .objT t w ms => .objT t w (eraseMemsT ms)
def eraseElems : List (Nat × LItem) → List (Nat × Item)
  | [] => []
  | (n, x) :: xs => (n, x.erase) :: eraseElems xs
def eraseList : List LItem → List Item
  | [] => []
  | x :: xs => x.erase :: eraseList xs
def eraseMems : List (LW × Bytes × Nat × LItem) → List (LW × Bytes × Item)
  | [] => []
  | (kw, k, _, v) :: ms => (kw, k, v.erase) :: eraseMems ms
def eraseMemsT : List (LW × Bytes × LItem) → List (LW × Bytes × Item)
  | [] => []
  | (kw, k, v) :: ms => (kw, k, v.erase) :: eraseMemsT ms
end

def LItem.marker (x : LItem) : UInt8 := x.erase.marker

mutual
/-- the value without its marker -/
def LItem.payload : LItem → Bytes
  | .null => [] | .tru => [] | .fals => []
  | .int k v => Enc.twos k.bytes v
  | .f32 b => beBytes 4 b.toNat
  | .f64 b => beBytes 8 b.toNat
  | .char c => [c]
  | .str w s => lenWire w s.length ++ s
  | .hp w s => lenWire w s.length ++ s
  | .arr xs t => lwireElems xs ++ (noops t ++ [arrEndMarker])
  | .arrN w xs => countMarker :: (lenWire w xs.length ++ lwireElems xs)
  | .arrT t w xs => typeMarker :: t :: countMarker :: (lenWire w xs.length ++ lpayList xs)
  | .obj ms => lwireMems ms ++ [objEndMarker]
  | .objN w ms => countMarker :: (lenWire w ms.length ++ lwireMems ms)
  | .objT t w ms => typeMarker :: t :: countMarker :: (lenWire w ms.length ++ lpayMems ms)
def lwireElems : List (Nat × LItem) → Bytes
  | [] => []
  | (n, x) :: xs => noops n ++ (x.erase.marker :: (x.payload ++ lwireElems xs))
def lpayList : List LItem → Bytes
  | [] => []
  | x :: xs => x.payload ++ lpayList xs
/-- members: key length, key, NO-OPS, value -/
def lwireMems : List (LW × Bytes × Nat × LItem) → Bytes
  | [] => []
  | (kw, k, n, v) :: ms => lenWire kw k.length ++ (k ++ (noops n ++ (v.erase.marker :: (v.payload ++ lwireMems ms))))
def lpayMems : List (LW × Bytes × LItem) → Bytes
  | [] => []
  | (kw, k, v) :: ms => lenWire kw k.length ++ (k ++ (v.payload ++ lpayMems ms))
end

def LItem.wire (x : LItem) : Bytes := x.marker :: x.payload

/-- a stream: values with their preceding no-ops, trailing no-ops -/
def lwireStream (xs : List (Nat × LItem)) (trail : Nat) : Bytes := lwireElems xs ++ noops trail

/-- well-formedness, events, value: those of the item without the extra no-ops -/
def LItem.ok (x : LItem) : Bool := x.erase.ok
def LItem.events (x : LItem) : List Ev := x.erase.events
def LItem.value (x : LItem) : Val := x.erase.value

mutual
/-- no no-op between a key and its value, anywhere in the item -/
def LItem.plain : LItem → Bool
  | .arr xs _ => plainElems xs
  | .arrN _ xs => plainElems xs
  | .arrT _ _ xs => plainList xs
  | .obj ms => plainMems ms
  | .objN _ ms => plainMems ms
  | .objT _ _ ms => plainMemsT ms
  | _ => true
def plainElems : List (Nat × LItem) → Bool
  | [] => true
  | (_, x) :: xs => x.plain && plainElems xs
def plainList : List LItem → Bool
  | [] => true
  | x :: xs => x.plain && plainList xs
def plainMems : List (LW × Bytes × Nat × LItem) → Bool
  | [] => true
  | (_, _, n, v) :: ms => n == 0 && v.plain && plainMems ms
def plainMemsT : List (LW × Bytes × LItem) → Bool
  | [] => true
  | (_, _, v) :: ms => v.plain && plainMemsT ms
end

theorem eraseElems_length (xs : List (Nat × LItem)) : (eraseElems xs).length = xs.length := by
  induction xs with
  | nil => rfl
  | cons a xs ih => obtain ⟨n, x⟩ := a; simp [eraseElems, ih]

theorem eraseList_length (xs : List LItem) : (eraseList xs).length = xs.length := by
  induction xs with
  | nil => rfl
  | cons a xs ih => simp [eraseList, ih]

theorem eraseMems_length (ms : List (LW × Bytes × Nat × LItem)) : (eraseMems ms).length = ms.length := by
  induction ms with
  | nil => rfl
  | cons a ms ih => obtain ⟨kw, k, n, v⟩ := a; simp [eraseMems, ih]

theorem eraseMemsT_length (ms : List (LW × Bytes × LItem)) : (eraseMemsT ms).length = ms.length := by
  induction ms with
  | nil => rfl
  | cons a ms ih => obtain ⟨kw, k, v⟩ := a; simp [eraseMemsT, ih]

/- without the extra no-ops the wire form is that of `Syn.Item` -/
mutual
theorem LItem.plain_payload : (x : LItem) → x.plain = true → x.payload = x.erase.payload
  | .null, _ => rfl | .tru, _ => rfl | .fals, _ => rfl
  | .int _ _, _ => rfl | .f32 _, _ => rfl | .f64 _, _ => rfl | .char _, _ => rfl
  | .str _ _, _ => rfl | .hp _ _, _ => rfl
  | .arr xs t, h => by
    simp only [LItem.plain] at h
    simp only [LItem.payload, LItem.erase, Item.payload, plain_wireElems xs h]
  | .arrN w xs, h => by
    simp only [LItem.plain] at h
    simp only [LItem.payload, LItem.erase, Item.payload, plain_wireElems xs h, eraseElems_length]
  | .arrT t w xs, h => by
    simp only [LItem.plain] at h
    simp only [LItem.payload, LItem.erase, Item.payload, plain_payList xs h, eraseList_length]
  | .obj ms, h => by
    simp only [LItem.plain] at h
    simp only [LItem.payload, LItem.erase, Item.payload, plain_wireMems ms h]
  | .objN w ms, h => by
    simp only [LItem.plain] at h
    simp only [LItem.payload, LItem.erase, Item.payload, plain_wireMems ms h, eraseMems_length]
  | .objT t w ms, h => by
    simp only [LItem.plain] at h
    simp only [LItem.payload, LItem.erase, Item.payload, plain_payMems ms h, eraseMemsT_length]
theorem plain_wireElems : (xs : List (Nat × LItem)) → plainElems xs = true → lwireElems xs = wireElems (eraseElems xs)
  | [], _ => rfl
  | (n, x) :: xs, h => by
    simp only [plainElems, Bool.and_eq_true] at h
    simp only [lwireElems, eraseElems, wireElems, LItem.plain_payload x h.1, plain_wireElems xs h.2]
theorem plain_payList : (xs : List LItem) → plainList xs = true → lpayList xs = payList (eraseList xs)
  | [], _ => rfl
  | x :: xs, h => by
    simp only [plainList, Bool.and_eq_true] at h
    simp only [lpayList, eraseList, payList, LItem.plain_payload x h.1, plain_payList xs h.2]
theorem plain_wireMems : (ms : List (LW × Bytes × Nat × LItem)) → plainMems ms = true →
    lwireMems ms = wireMems (eraseMems ms)
  | [], _ => rfl
  | (kw, k, n, v) :: ms, h => by
    simp only [plainMems, Bool.and_eq_true, beq_iff_eq] at h
    obtain ⟨⟨rfl, h2⟩, h3⟩ := h
    simp only [lwireMems, eraseMems, wireMems, LItem.plain_payload v h2, plain_wireMems ms h3, noops,
      List.replicate_zero, List.nil_append]
theorem plain_payMems : (ms : List (LW × Bytes × LItem)) → plainMemsT ms = true →
    lpayMems ms = payMems (eraseMemsT ms)
  | [], _ => rfl
  | (kw, k, v) :: ms, h => by
    simp only [plainMemsT, Bool.and_eq_true] at h
    simp only [lpayMems, eraseMemsT, payMems, LItem.plain_payload v h.1, plain_payMems ms h.2]
end

theorem plain_wireStream (xs : List (Nat × LItem)) (trail : Nat) (h : plainElems xs = true) :
    lwireStream xs trail = wireStream (eraseElems xs) trail := by
  simp only [lwireStream, wireStream, plain_wireElems xs h]

/-- `{ i 0 N Z }` — an object whose one member has a no-op between key and value — and the same
without the no-op -/
example :
    (LItem.obj [(.i, [], 1, .null)]).wire = [0x7b, 0x69, 0x00, 0x4e, 0x5a, 0x7d] ∧
    (LItem.obj [(.i, [], 1, .null)]).erase.wire = [0x7b, 0x69, 0x00, 0x5a, 0x7d] ∧
    (LItem.obj [(.i, [], 1, .null)]).plain = false ∧ (LItem.obj [(.i, [], 0, .null)]).plain = true ∧
    (LItem.obj [(.i, [], 1, .null)]).ok = true := by decide +kernel

end SF.Ubjson.Syn
