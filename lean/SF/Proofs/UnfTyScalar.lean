/-
  Typed targets, part 15: ANY scalar event in ANY reachable context: refused with an error, or
  accepted — through as many reflection states as the target type nests — with the invariant kept.
-/
import SF.Proofs.UnfTyErr
namespace SF.Unf
open SF

variable {D : Nat} {base : S6} {fs : List Frame} {c : Ctx}

/-- the unfolder state on top of the unfolder stack when the frame is the top frame -/
def Frame.cur : Frame → U
  | .prim k _ => .prim k
  | .arrS k _ => .arrStart k
  | .arr k _ _ => .arr k
  | .mapS k _ => .mapStart k
  | .mapK k _ => .mapKey k
  | .mapV k _ _ => .mapVal k
  | .sub _ _ _ _ => .noTarget
  | .rslS _ _ _ => .reflSliceStart
  | .rsl e ru _ _ => .reflSlice e ru
  | .rmS _ _ _ => .reflMapStart
  | .rmK e ru _ => .reflMapOnKey e ru
  | .rmE e ru _ _ => .reflMapOnElem e ru
  | .cellx _ => .noTarget
  | .rp e ru _ => .reflPtr e ru

/-- frames with an unfolder state of their own -/
def Frame.hasU : Frame → Prop
  | .sub _ _ _ _ => False
  | .cellx _ => False
  | _ => True

/-- frames that are gone once they have their value -/
def Frame.pops : Frame → Prop
  | .prim _ _ => True
  | .rp _ _ _ => True
  | _ => False

/-- between two events: the top frame has an unfolder state, and a frame that is gone once it has
its value is on top only as the frame of the target itself (everywhere else it lives inside one
forwarded event) -/
def Rest : List Frame → Prop
  | [] => True
  | F :: fs => F.hasU ∧ (F.pops → fs = [])

theorem Inv.cur {F : Frame} (h : Inv D base (F :: fs) c) (hF : F.hasU) : c.unfolder.current = F.cur := by
  obtain ⟨hu, _⟩ := s6_eq _ _ h.stacks
  cases F <;> first | exact hF.elim | (simp only [stacksOf, Frame.push] at hu; rw [hu]; rfl)

/-- a store through a pointer that is attached to the frames like a child's -/
theorem Inv.store_elem (h : Inv D base fs c) (q : Path) (ρ : Sh) (hatt : Attach q ρ none fs) (x w : GoVal)
    (hx : deref c q = some x) (hw : ρ.ok w) : Inv D base fs (storeAt c q w) := by
  have hrel := attach_rel D fs q ρ none h.wfs hatt
  have hmem := memOK_store c q ρ (liveOf fs) w x hrel h.mem hx hw
  obtain ⟨s1, s2, s3⟩ := storeAt_vb_sizes c q w (storeAt c q w) rfl
  exact ⟨(storeAt_s6 c q w).trans h.stacks, h.wfs, hmem, by rw [s1, h.nA], by rw [s2, h.nMA], by rw [s3, h.nMP]⟩

/-- `null` for a slice element: the element is zeroed -/
theorem nil_rsl (e : GoType) (ru : RU) (p : Path) (i : Int) (f : Nat) (h : Inv D base (.rsl e ru p i :: fs) c) :
    ∃ c', onScalar (f + 1) .nil c = .ok () c' ∧ Inv D base (.rsl e ru p (i + 1) :: fs) c' := by
  obtain ⟨c1, hprep, hinv, ⟨x, hx, _⟩, henv, hwif⟩ := prepare_rsl e ru p i h
  have hcur := h.cur trivial
  by_cases hw : c.whatIfFixed = true
  · refine ⟨storeAt c1 (p.push (.index i.toNat)) (zero c1.env e), ?_, ?_⟩
    · simp [onScalar, bind_def, currentU, hcur, Frame.cur, hprep, getCtx, hwif, hw, store_at_ok c1 _ _ _ hx]
    · exact hinv.store_elem _ (shOf e) ⟨⟨_, rfl⟩, Sh.le_refl _⟩ x _ hx (shaped_zero _ e)
  · refine ⟨c1, ?_, hinv⟩
    simp [onScalar, bind_def, currentU, hcur, Frame.cur, hprep, getCtx, hwif, hw, pure_def]

/-! ### forwarding -/

theorem onScalar_rsl (n : Nat) (s : Sc) (c : Ctx) (e : GoType) (ru : RU) (hcur : c.unfolder.current = .reflSlice e ru)
    (hs : s ≠ .nil) :
    onScalar (n + 1) s c =
      (reflSlicePrepare >>= fun q => initStateRU ru q >>= fun _ => onScalar n s) c := by
  cases s <;> first | exact absurd rfl hs | simp [onScalar, bind_def, currentU, hcur]

theorem onScalar_rmE (n : Nat) (s : Sc) (c : Ctx) (e : GoType) (ru : RU)
    (hcur : c.unfolder.current = .reflMapOnElem e ru) (hs : s ≠ .nil) :
    onScalar (n + 1) s c =
      (reflMapOnElemPrepare e >>= fun q => initStateRU ru q >>= fun _ => onScalar n s >>= fun _ =>
        reflMapOnElemProcess e ru) c := by
  cases s <;> first | exact absurd rfl hs | simp [onScalar, bind_def, currentU, hcur]

theorem onScalar_rp (n : Nat) (s : Sc) (c : Ctx) (e : GoType) (ru : RU)
    (hcur : c.unfolder.current = .reflPtr e ru) (hs : s ≠ .nil) :
    onScalar (n + 1) s c =
      (reflPtrPrepare e >>= fun q => initStateRU ru q >>= fun _ => onScalar n s >>= fun _ =>
        reflPtrProcess e) c := by
  cases s <;> first | exact absurd rfl hs | simp [onScalar, bind_def, currentU, hcur]

/-- the frames after the top frame has accepted a scalar (`none`: it never does) -/
def scalarNext : Frame → List Frame → Option (List Frame)
  | .prim _ _, fs => some fs
  | .arr k p i, fs => some (.arr k p (i + 1) :: fs)
  | .mapV k p _, fs => some (.mapK k p :: fs)
  | .rsl e ru p i, fs => some (.rsl e ru p (i + 1) :: fs)
  | .rmE e ru p _, fs => some (.rmK e ru p :: fs)
  | .rp _ _ _, fs => some fs
  | _, _ => none

theorem scalarNext_waitF (ru : RU) (q : Path) (fs fs' : List Frame) (h : scalarNext (waitF ru q) fs = some fs') :
    fs' = fs := by
  cases ru with
  | lifted pu => cases pu <;> simp [waitF, scalarNext] at h <;> exact h.symm
  | slice e elem => simp [waitF, scalarNext] at h
  | map e elem => simp [waitF, scalarNext] at h
  | ptr e elem => simp [waitF, scalarNext] at h; exact h.symm
  | struct _ => simp [waitF, scalarNext] at h; exact h.symm
  | ref _ => simp [waitF, scalarNext] at h; exact h.symm

/-- fuel one event needs at a frame: one per reflection state it is forwarded through -/
def Frame.need : Frame → Nat
  | .rsl _ ru _ _ => ru.depth + 2
  | .rmE _ ru _ _ => ru.depth + 2
  | .rp _ ru _ => ru.depth + 2
  | _ => 1

theorem need_waitF (ru : RU) (q : Path) : (waitF ru q).need ≤ ru.depth + 1 := by
  cases ru with
  | lifted pu => cases pu <;> simp [waitF, Frame.need]
  | ptr e elem => simp [waitF, Frame.need, RU.depth]
  | _ => simp [waitF, Frame.need]

theorem hasU_waitF (ru : RU) (q : Path) : (waitF ru q).hasU := by
  cases ru with
  | lifted pu => cases pu <;> trivial
  | _ => trivial

end SF.Unf
