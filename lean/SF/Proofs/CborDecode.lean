/-
  The reference decoder of the specification (SF/Cbor/Cst.lean `decode`) inverts `wire` on
  every well-formed item: the executable oracle agrees with the grammar, and its fuel
  (2·length + 2) always suffices.
-/
import SF.Proofs.CborBits
namespace SF.Cbor.Cst
open SF SF.Cbor

/-! ## fuel needed -/
mutual
def need : Item → Nat
  | .arr _ xs => 1 + needL xs
  | .arrIndef xs => 1 + needI xs
  | .map _ ms => 1 + needM ms
  | .mapIndef ms => 1 + needIM ms
  | _ => 1
def needL : List Item → Nat
  | [] => 0
  | x :: xs => 1 + max (need x) (needL xs)
def needI : List Item → Nat
  | [] => 1
  | x :: xs => 1 + max (need x) (needI xs)
def needM : List (W × Bytes × Item) → Nat
  | [] => 0
  | (_, _, v) :: ms => 1 + max (need v) (needM ms)
def needIM : List (W × Bytes × Item) → Nat
  | [] => 1
  | (_, _, v) :: ms => 1 + max (need v) (needIM ms)
end

theorem ib_div : ∀ (m : Fin 8) (a : Fin 32), (ib m.val a.val).toNat / 32 = m.val ∧ (ib m.val a.val).toNat % 32 = a.val := by
  decide

theorem takeN_append (a rest : Bytes) : takeN (a ++ rest) a.length = .ok (a, rest) := by
  simp [takeN]

theorem ai_lt' (w : W) (n : Nat) (h : w.fits n = true) : w.ai n < 32 := by
  cases w <;> simp_all [W.ai, W.fits] <;> omega

/-- decodeHead inverts `head` -/
theorem decodeHead_head (m : Nat) (hm : m < 8) (w : W) (n : Nat) (h : w.fits n = true) (rest : Bytes) :
    decodeHead (head m w n ++ rest) = .ok (⟨m, w.ai n, w, n⟩, rest) := by
  have hai := ai_lt' w n h
  obtain ⟨hd, hmod⟩ := ib_div ⟨m, hm⟩ ⟨w.ai n, hai⟩
  simp only at hd hmod
  have hib : UInt8.ofNat (m * 32 + w.ai n) = ib m (w.ai n) := rfl
  simp only [head, List.cons_append, decodeHead, hib, hd, hmod]
  cases w with
  | imm =>
    have : n < 24 := by simpa [W.fits] using h
    simp [W.ai, W.bytes, beBytes, this]
  | w1 =>
    have hp : n < 256 ^ 1 := by simpa [W.fits] using h
    have := takeN_append (beBytes 1 n) rest
    simp only [beBytes_length] at this
    simp [W.ai, W.bytes, this, beNat_beBytes 1 n hp]
  | w2 =>
    have hp : n < 256 ^ 2 := by simpa [W.fits] using h
    have := takeN_append (beBytes 2 n) rest
    simp only [beBytes_length] at this
    simp [W.ai, W.bytes, this, beNat_beBytes 2 n hp]
  | w4 =>
    have hp : n < 256 ^ 4 := by simpa [W.fits] using h
    have := takeN_append (beBytes 4 n) rest
    simp only [beBytes_length] at this
    simp [W.ai, W.bytes, this, beNat_beBytes 4 n hp]
  | w8 =>
    have hp : n < 256 ^ 8 := by simpa [W.fits] using h
    have := takeN_append (beBytes 8 n) rest
    simp only [beBytes_length] at this
    simp [W.ai, W.bytes, this, beNat_beBytes 8 n hp]

theorem ai_ne_31 (w : W) (n : Nat) (h : w.fits n = true) : (w.ai n == 31) = false := by
  cases w <;> simp_all [W.ai, W.fits] <;> omega

theorem decodeKey_head (kw : W) (k : Bytes) (h : kw.fits k.length = true) (rest : Bytes) :
    decodeKey (head 3 kw k.length ++ (k ++ rest)) = .ok (kw, k, rest) := by
  simp only [decodeKey, decodeHead_head 3 (by omega) kw k.length h, ai_ne_31 kw _ h, takeN_append]
  simp

end SF.Cbor.Cst

namespace SF.Cbor.Cst
open SF SF.Cbor

theorem head_first (m : Nat) (w : W) (n : Nat) (rest : Bytes) :
    head m w n ++ rest = ib m (w.ai n) :: (beBytes w.bytes n ++ rest) := rfl

theorem ib_ne_ff (m a : Nat) (hm : m < 6) (ha : a < 32) : (ib m a == 0xff) = false := by
  have : ∀ (m : Fin 6) (a : Fin 32), (ib m.val a.val == 0xff) = false := by decide
  exact this ⟨m, hm⟩ ⟨a, ha⟩

/-- first byte of a well-formed item is never the break byte -/
theorem wire_cons (t : Item) (h : t.ok = true) : ∃ b0 bs, t.wire = b0 :: bs ∧ (b0 == 0xff) = false := by
  cases t with
  | uint w n => exact ⟨_, _, rfl, ib_ne_ff 0 _ (by omega) (ai_lt' w n (by simpa [Item.ok] using h))⟩
  | nint w n =>
    simp only [Item.ok, Bool.and_eq_true] at h
    exact ⟨_, _, rfl, ib_ne_ff 1 _ (by omega) (ai_lt' w n h.1)⟩
  | bytes w bs =>
    simp only [Item.ok, Bool.and_eq_true] at h
    exact ⟨_, beBytes w.bytes bs.length ++ bs, by rfl, ib_ne_ff 2 _ (by omega) (ai_lt' w _ h.1)⟩
  | text w bs =>
    simp only [Item.ok, Bool.and_eq_true] at h
    exact ⟨_, beBytes w.bytes bs.length ++ bs, by rfl, ib_ne_ff 3 _ (by omega) (ai_lt' w _ h.1)⟩
  | arr w xs =>
    simp only [Item.ok, Bool.and_eq_true] at h
    exact ⟨_, beBytes w.bytes xs.length ++ wireList xs, by rfl, ib_ne_ff 4 _ (by omega) (ai_lt' w _ h.1.1)⟩
  | map w ms =>
    simp only [Item.ok, Bool.and_eq_true] at h
    exact ⟨_, beBytes w.bytes ms.length ++ wireMems ms, by rfl, ib_ne_ff 5 _ (by omega) (ai_lt' w _ h.1.1)⟩
  | arrIndef xs => exact ⟨_, _, rfl, by decide⟩
  | mapIndef ms => exact ⟨_, _, rfl, by decide⟩
  | fals => exact ⟨_, _, rfl, by decide⟩
  | tru => exact ⟨_, _, rfl, by decide⟩
  | null => exact ⟨_, _, rfl, by decide⟩
  | undef => exact ⟨_, _, rfl, by decide⟩
  | f32 b => exact ⟨_, _, rfl, by decide⟩
  | f64 b => exact ⟨_, _, rfl, by decide⟩

theorem decodeHead_lit (b0 : UInt8) (rest : Bytes) (m ai : Nat) (hm : b0.toNat / 32 = m) (ha : b0.toNat % 32 = ai)
    (h : ai < 24) : decodeHead (b0 :: rest) = .ok (⟨m, ai, .imm, ai⟩, rest) := by
  simp [decodeHead, hm, ha, h]

mutual
theorem decode_item (t : Item) (ht : t.ok = true) (f : Nat) (hf : need t ≤ f) (rest : Bytes) :
    decodeItem f (t.wire ++ rest) = .ok (t, rest) := by
  obtain ⟨f, rfl⟩ : ∃ g, f = g + 1 := ⟨f - 1, by cases t <;> simp [need] at hf <;> omega⟩
  match t with
  | .uint w n =>
    simp only [Item.ok] at ht
    simp only [Item.wire, decodeItem, decodeHead_head 0 (by omega) w n ht, ai_ne_31 w n ht]
    simp
  | .nint w n =>
    simp only [Item.ok, Bool.and_eq_true, decide_eq_true_eq] at ht
    simp only [Item.wire, decodeItem, decodeHead_head 1 (by omega) w n ht.1, ai_ne_31 w n ht.1]
    have : ¬ n ≥ 9223372036854775808 := by omega
    simp [this]
  | .bytes w bs =>
    simp only [Item.ok, Bool.and_eq_true, decide_eq_true_eq] at ht
    simp only [Item.wire, List.append_assoc, decodeItem, decodeHead_head 2 (by omega) w _ ht.1,
      ai_ne_31 w _ ht.1, takeN_append]
    simp
  | .text w bs =>
    simp only [Item.ok, Bool.and_eq_true, decide_eq_true_eq] at ht
    simp only [Item.wire, List.append_assoc, decodeItem, decodeHead_head 3 (by omega) w _ ht.1,
      ai_ne_31 w _ ht.1, takeN_append]
    simp
  | .arr w xs =>
    simp only [Item.ok, Bool.and_eq_true, decide_eq_true_eq] at ht
    simp only [need] at hf
    simp only [Item.wire, List.append_assoc, decodeItem, decodeHead_head 4 (by omega) w _ ht.1.1,
      ai_ne_31 w _ ht.1.1]
    simp only [show ((4 : Nat) == 0) = false by decide, show ((4 : Nat) == 1) = false by decide,
      show ((4 : Nat) == 2) = false by decide, show ((4 : Nat) == 3) = false by decide, Bool.false_or,
      Bool.false_eq_true, if_false, beq_self_eq_true, if_true]
    simp only [decode_list xs ht.2 f (by omega) rest]
  | .arrIndef xs =>
    simp only [Item.ok, Bool.and_eq_true] at ht
    replace ht := ht.2
    simp only [need] at hf
    have hh : decodeHead ((0x9f : UInt8) :: (wireList xs ++ [0xff] ++ rest)) = .ok (⟨4, 31, .imm, 0⟩, wireList xs ++ [0xff] ++ rest) := by
      simp +decide [decodeHead]
    simp only [Item.wire, List.cons_append, decodeItem, hh]
    simp only [show ((4 : Nat) == 0) = false by decide, show ((4 : Nat) == 1) = false by decide,
      show ((4 : Nat) == 2) = false by decide, show ((4 : Nat) == 3) = false by decide, Bool.false_or,
      Bool.false_eq_true, if_false, beq_self_eq_true, if_true]
    have := decode_indef xs ht f (by omega) rest
    simp only [List.append_assoc, List.singleton_append] at this ⊢
    simp only [this]
  | .map w ms =>
    simp only [Item.ok, Bool.and_eq_true, decide_eq_true_eq] at ht
    simp only [need] at hf
    simp only [Item.wire, List.append_assoc, decodeItem, decodeHead_head 5 (by omega) w _ ht.1.1,
      ai_ne_31 w _ ht.1.1]
    simp only [show ((5 : Nat) == 0) = false by decide, show ((5 : Nat) == 1) = false by decide,
      show ((5 : Nat) == 2) = false by decide, show ((5 : Nat) == 3) = false by decide,
      show ((5 : Nat) == 4) = false by decide, Bool.false_or,
      Bool.false_eq_true, if_false, beq_self_eq_true, if_true]
    simp only [decode_mems ms ht.2 f (by omega) rest]
  | .mapIndef ms =>
    simp only [Item.ok, Bool.and_eq_true] at ht
    replace ht := ht.2
    simp only [need] at hf
    have hh : decodeHead ((0xbf : UInt8) :: (wireMems ms ++ [0xff] ++ rest)) = .ok (⟨5, 31, .imm, 0⟩, wireMems ms ++ [0xff] ++ rest) := by
      simp +decide [decodeHead]
    simp only [Item.wire, List.cons_append, decodeItem, hh]
    simp only [show ((5 : Nat) == 0) = false by decide, show ((5 : Nat) == 1) = false by decide,
      show ((5 : Nat) == 2) = false by decide, show ((5 : Nat) == 3) = false by decide,
      show ((5 : Nat) == 4) = false by decide, Bool.false_or,
      Bool.false_eq_true, if_false, beq_self_eq_true, if_true]
    have := decode_indefmems ms ht f (by omega) rest
    simp only [List.append_assoc, List.singleton_append] at this ⊢
    simp only [this]
  | .fals => simp +decide [Item.wire, decodeItem, decodeHead]
  | .tru => simp +decide [Item.wire, decodeItem, decodeHead]
  | .null => simp +decide [Item.wire, decodeItem, decodeHead]
  | .undef => simp +decide [Item.wire, decodeItem, decodeHead]
  | .f32 b =>
    have hh := decodeHead_head 7 (by omega) .w4 b.toNat (by simp [W.fits]; exact b.toNat_lt) rest
    have hw : (Item.f32 b).wire ++ rest = head 7 .w4 b.toNat ++ rest := by
      simp +decide [Item.wire, head, W.ai, W.bytes]
    rw [hw]
    simp +decide [decodeItem, hh, W.ai]
  | .f64 b =>
    have hh := decodeHead_head 7 (by omega) .w8 b.toNat (by simp [W.fits]; exact b.toNat_lt) rest
    have hw : (Item.f64 b).wire ++ rest = head 7 .w8 b.toNat ++ rest := by
      simp +decide [Item.wire, head, W.ai, W.bytes]
    rw [hw]
    simp +decide [decodeItem, hh, W.ai]

theorem decode_list (xs : List Item) (h : okList xs = true) (f : Nat) (hf : needL xs ≤ f) (rest : Bytes) :
    decodeList f xs.length (wireList xs ++ rest) = .ok (xs, rest) := by
  match xs with
  | [] => cases f <;> simp [decodeList, wireList]
  | x :: xs' =>
    simp only [okList, Bool.and_eq_true] at h
    simp only [needL] at hf
    obtain ⟨f, rfl⟩ : ∃ g, f = g + 1 := ⟨f - 1, by omega⟩
    simp only [List.length_cons, wireList, List.append_assoc, decodeList]
    simp only [decode_item x h.1 f (by omega) _, decode_list xs' h.2 f (by omega) rest]

theorem decode_indef (xs : List Item) (h : okList xs = true) (f : Nat) (hf : needI xs ≤ f) (rest : Bytes) :
    decodeIndefList f (wireList xs ++ [0xff] ++ rest) = .ok (xs, rest) := by
  match xs with
  | [] =>
    simp only [needI] at hf
    obtain ⟨f, rfl⟩ : ∃ g, f = g + 1 := ⟨f - 1, by omega⟩
    simp [decodeIndefList, wireList]
  | x :: xs' =>
    simp only [okList, Bool.and_eq_true] at h
    simp only [needI] at hf
    obtain ⟨f, rfl⟩ : ∃ g, f = g + 1 := ⟨f - 1, by omega⟩
    obtain ⟨b0, bs, hw, hb0⟩ := wire_cons x h.1
    have hb0' : ¬ (b0 = 255) := by simpa using hb0
    have e : wireList (x :: xs') ++ [0xff] ++ rest = b0 :: (bs ++ (wireList xs' ++ [0xff] ++ rest)) := by
      simp [wireList, hw, List.append_assoc]
    rw [e]
    simp only [decodeIndefList, beq_iff_eq, hb0', if_false]
    have e2 : b0 :: (bs ++ (wireList xs' ++ [0xff] ++ rest)) = x.wire ++ (wireList xs' ++ [0xff] ++ rest) := by
      simp [hw]
    rw [e2]
    simp only [decode_item x h.1 f (by omega) _, decode_indef xs' h.2 f (by omega) rest]

theorem decode_mems (ms : List (W × Bytes × Item)) (h : okMems ms = true) (f : Nat) (hf : needM ms ≤ f)
    (rest : Bytes) : decodeMems f ms.length (wireMems ms ++ rest) = .ok (ms, rest) := by
  match ms with
  | [] => cases f <;> simp [decodeMems, wireMems]
  | (kw, k, v) :: ms' =>
    simp only [okMems, Bool.and_eq_true, decide_eq_true_eq] at h
    simp only [needM] at hf
    obtain ⟨f, rfl⟩ : ∃ g, f = g + 1 := ⟨f - 1, by omega⟩
    simp only [List.length_cons, wireMems, List.append_assoc, decodeMems]
    simp only [decodeKey_head kw k h.1.1.1, decode_item v h.1.2 f (by omega) _, decode_mems ms' h.2 f (by omega) rest]

theorem decode_indefmems (ms : List (W × Bytes × Item)) (h : okMems ms = true) (f : Nat)
    (hf : needIM ms ≤ f) (rest : Bytes) :
    decodeIndefMems f (wireMems ms ++ [0xff] ++ rest) = .ok (ms, rest) := by
  match ms with
  | [] =>
    simp only [needIM] at hf
    obtain ⟨f, rfl⟩ : ∃ g, f = g + 1 := ⟨f - 1, by omega⟩
    simp [decodeIndefMems, wireMems]
  | (kw, k, v) :: ms' =>
    simp only [okMems, Bool.and_eq_true, decide_eq_true_eq] at h
    simp only [needIM] at hf
    obtain ⟨f, rfl⟩ : ∃ g, f = g + 1 := ⟨f - 1, by omega⟩
    have hb0 : ¬ (ib 3 (kw.ai k.length) = 255) := by
      have := ib_ne_ff 3 _ (by omega) (ai_lt' kw _ h.1.1.1)
      simpa using this
    have e : wireMems ((kw, k, v) :: ms') ++ [0xff] ++ rest =
        ib 3 (kw.ai k.length) :: (beBytes kw.bytes k.length ++ (k ++ (v.wire ++ (wireMems ms' ++ [0xff] ++ rest)))) := by
      simp [wireMems, head, ib, List.append_assoc]
    rw [e]
    simp only [decodeIndefMems, beq_iff_eq, hb0, if_false]
    have e2 : ib 3 (kw.ai k.length) :: (beBytes kw.bytes k.length ++ (k ++ (v.wire ++ (wireMems ms' ++ [0xff] ++ rest)))) =
        head 3 kw k.length ++ (k ++ (v.wire ++ (wireMems ms' ++ [0xff] ++ rest))) := rfl
    rw [e2]
    simp only [decodeKey_head kw k h.1.1.1, decode_item v h.1.2 f (by omega) _,
      decode_indefmems ms' h.2 f (by omega) rest]
end

end SF.Cbor.Cst

namespace SF.Cbor.Cst
open SF SF.Cbor

theorem wire_pos (t : Item) : 0 < t.wire.length := by
  cases t <;> simp [Item.wire, head]

theorem need_scalar_le (t : Item) (h : need t = 1) : need t ≤ 2 * t.wire.length := by
  have := wire_pos t; omega

mutual
theorem need_le (t : Item) : need t ≤ 2 * t.wire.length := by
  match t with
  | .arr w xs =>
    have := needL_le xs
    simp only [need, Item.wire, List.length_append, head, List.length_cons, beBytes_length]; omega
  | .arrIndef xs =>
    have := needI_le xs
    simp only [need, Item.wire, List.length_append, List.length_cons, List.length_nil]; omega
  | .map w ms =>
    have := needM_le ms
    simp only [need, Item.wire, List.length_append, head, List.length_cons, beBytes_length]; omega
  | .mapIndef ms =>
    have := needIM_le ms
    simp only [need, Item.wire, List.length_append, List.length_cons, List.length_nil]; omega
  | .uint w n => exact need_scalar_le _ rfl
  | .nint w n => exact need_scalar_le _ rfl
  | .bytes w bs => exact need_scalar_le _ rfl
  | .text w bs => exact need_scalar_le _ rfl
  | .fals => exact need_scalar_le _ rfl
  | .tru => exact need_scalar_le _ rfl
  | .null => exact need_scalar_le _ rfl
  | .undef => exact need_scalar_le _ rfl
  | .f32 b => exact need_scalar_le _ rfl
  | .f64 b => exact need_scalar_le _ rfl
theorem needL_le (xs : List Item) : needL xs ≤ 2 * (wireList xs).length + 1 := by
  match xs with
  | [] => simp [needL]
  | x :: xs' =>
    have := need_le x; have := needL_le xs'; have := wire_pos x
    simp only [needL, wireList, List.length_append]; omega
theorem needI_le (xs : List Item) : needI xs ≤ 2 * (wireList xs).length + 1 := by
  match xs with
  | [] => simp [needI]
  | x :: xs' =>
    have := need_le x; have := needI_le xs'; have := wire_pos x
    simp only [needI, wireList, List.length_append]; omega
theorem needM_le (ms : List (W × Bytes × Item)) : needM ms ≤ 2 * (wireMems ms).length + 1 := by
  match ms with
  | [] => simp [needM]
  | (kw, k, v) :: ms' =>
    have := need_le v; have := needM_le ms'; have := wire_pos v
    simp only [needM, wireMems, List.length_append, head, List.length_cons]; omega
theorem needIM_le (ms : List (W × Bytes × Item)) : needIM ms ≤ 2 * (wireMems ms).length + 1 := by
  match ms with
  | [] => simp [needIM]
  | (kw, k, v) :: ms' =>
    have := need_le v; have := needIM_le ms'; have := wire_pos v
    simp only [needIM, wireMems, List.length_append, head, List.length_cons]; omega
end

/-- SPEC ROUND TRIP: the reference decoder reads every well-formed item back from its wire
form, whatever follows it -/
theorem decode_wire (t : Item) (h : t.ok = true) (rest : Bytes) : decode (t.wire ++ rest) = .ok (t, rest) := by
  unfold decode
  exact decode_item t h _ (by have := need_le t; simp only [List.length_append]; omega) rest

/-- … and every stream of items -/
theorem decodeStream_wire (ts : List Item) (h : okList ts = true) : decodeStream (wireList ts) = .ok ts := by
  have key : ∀ (ts : List Item), okList ts = true → ∀ fuel, ts.length + 1 ≤ fuel →
      decodeAll fuel (wireList ts) = .ok ts := by
    intro ts
    induction ts with
    | nil => intro _ fuel hf; obtain ⟨g, rfl⟩ : ∃ g, fuel = g + 1 := ⟨fuel - 1, by omega⟩; simp [decodeAll, wireList]
    | cons t ts ih =>
      intro h fuel hf
      simp only [okList, Bool.and_eq_true] at h
      obtain ⟨g, rfl⟩ : ∃ g, fuel = g + 1 := ⟨fuel - 1, by omega⟩
      have hne : wireList (t :: ts) ≠ [] := by
        intro hc
        have h1 := wire_pos t
        simp only [wireList, List.append_eq_nil_iff] at hc
        rw [hc.1] at h1
        simp at h1
      cases hw : wireList (t :: ts) with
      | nil => exact absurd hw hne
      | cons b0 bs =>
        simp only [decodeAll]
        rw [← hw]
        simp only [wireList, decode_wire t h.1, ih h.2 g (by simp only [List.length_cons] at hf; omega)]
  have hlen : ts.length ≤ (wireList ts).length := by
    clear h key
    induction ts with
    | nil => simp
    | cons t ts ih => have := wire_pos t; simp only [wireList, List.length_append, List.length_cons]; omega
  exact key ts h _ (by omega)

end SF.Cbor.Cst
