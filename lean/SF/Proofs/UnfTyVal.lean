/-
  C13 for SCALAR typed targets (bool, string, all integer widths, float32/64): one scalar event that
  the specification (`Spec.assign`) assigns is accepted, and the target holds the specified value.
-/
import SF.Proofs.UnfTySet
namespace SF.Unf
open SF SF.Unf.Spec

/-- the context `SetTarget` makes for a target of primitive kind `k` -/
def primCtx (tbl : TypeTable) (k : PK) (v : GoVal) (c : Ctx) : Ctx :=
  { c with
    target := v, env := tbl
    unfolder := c.unfolder.push (.prim k)
    ptr := c.ptr.push (some { root := .target }) }

theorem setTarget_prim (tbl : TypeTable) (t : GoType) (k : PK) (v : GoVal) (c : Ctx) (hk : PK.ofExact? t = some k) :
    setTarget tbl t v c = .ok (primCtx tbl k v c) := by
  cases t <;> simp [PK.ofExact?] at hk <;> subst hk <;> rfl

/-- `unfolderX.assign` on that context -/
theorem scalar_primCtx (f : Nat) (tbl : TypeTable) (k : PK) (v w : GoVal) (c : Ctx) (s : Sc)
    (hc : k.conv s = some w) :
    onScalar (f + 1) s (primCtx tbl k v c) = .ok () { c with target := w, env := tbl } := by
  simp [onScalar, bind_def, currentU, primCtx, Stk.push, hc, pukDeliver, primAssign, currentPtr, store, rootVal, setRoot,
    primCleanup, popU, popPtr, Stk.pop, pure_def]

theorem un_of_ofExact (tbl : TypeTable) (t : GoType) (k : PK) (hk : PK.ofExact? t = some k) : t.un tbl = t := by
  cases t <;> first | rfl | (simp [PK.ofExact?] at hk)

theorem sameVal_int (k k' : NumKind) (v : Int) : sameVal (.int k v) (.int k' v) = true := by
  simp [sameVal, norm, GoVal.print]

/-- what the specification assigns for a scalar into a primitive (non-`interface{}`) type is what
the kind's conversion yields (for integers: up to the spelling `byte` / `uint8` of the kind) -/
theorem assign_scalar_conv (tbl : TypeTable) (ip : Bool) (n : Nat) (t : GoType) (k : PK) (old want : GoVal) (s : Sc)
    (hk : PK.ofExact? t = some k) (hki : k ≠ .ifc) (hs : s.inRange = true)
    (ha : assign tbl ip (n + 1) t old (.sc s) = some want) :
    ∃ w, k.conv s = some w ∧ sameVal w want = true ∧ ((∀ nk, t = .int nk → normKind nk = nk) → w = want) := by
  cases t with
  | bool =>
    simp [PK.ofExact?] at hk; subst hk
    unfold assign at ha
    simp only [GoType.un, resolveFuel, GoType.under] at ha
    cases s <;> simp at ha
    subst ha
    exact ⟨_, rfl, by simp [sameVal, norm], fun _ => rfl⟩
  | string =>
    simp [PK.ofExact?] at hk; subst hk
    unfold assign at ha
    simp only [GoType.un, resolveFuel, GoType.under] at ha
    cases s <;> simp at ha
    subst ha
    exact ⟨_, rfl, by simp [sameVal, norm], fun _ => rfl⟩
  | int nk =>
    simp [PK.ofExact?] at hk; subst hk
    unfold assign at ha
    simp only [GoType.un, resolveFuel, GoType.under] at ha
    cases s <;> simp at ha
    rename_i ek v
    obtain ⟨⟨h1, h2⟩, rfl⟩ := ha
    have e1 : wrapTo ek v = v := wrapTo_inRange ek v h2
    have e2 : wrapTo (normKind nk) v = v := wrapTo_inRange (normKind nk) v (by rw [inRange_normKind]; exact h1)
    refine ⟨.int (normKind nk) v, by simp [PK.conv, e1, e2], sameVal_int _ _ _, ?_⟩
    intro hn
    rw [hn nk rfl]
  | float32 =>
    simp [PK.ofExact?] at hk; subst hk
    unfold assign at ha
    simp only [GoType.un, resolveFuel, GoType.under] at ha
    cases s <;> simp at ha
    · rename_i ek v
      obtain ⟨_, rfl⟩ := ha
      have e1 : wrapTo ek v = v := wrapTo_inRange ek v hs
      exact ⟨_, by simp [PK.conv, e1], by simp [sameVal, norm], fun _ => rfl⟩
    · subst ha
      exact ⟨_, rfl, by simp [sameVal, norm], fun _ => rfl⟩
  | float64 =>
    simp [PK.ofExact?] at hk; subst hk
    unfold assign at ha
    simp only [GoType.un, resolveFuel, GoType.under] at ha
    cases s <;> simp at ha
    · rename_i ek v
      obtain ⟨_, rfl⟩ := ha
      have e1 : wrapTo ek v = v := wrapTo_inRange ek v hs
      exact ⟨_, by simp [PK.conv, e1], by simp [sameVal, norm], fun _ => rfl⟩
    · rename_i b
      split at ha
      · cases ha
      · injection ha with ha
        subst ha
        exact ⟨_, rfl, by simp [sameVal, norm], fun _ => rfl⟩
    · subst ha
      exact ⟨_, rfl, by simp [sameVal, norm], fun _ => rfl⟩
  | ifc => simp [PK.ofExact?] at hk; exact absurd hk.symm hki
  | _ => simp [PK.ofExact?] at hk

end SF.Unf
