/-
  Targets with structs, part 12: `reportChildDone` (after a frame has finished, the frames below are told,
  as long as the unfolder stack keeps shrinking), ONE ARBITRARY EVENT from a reachable context, and any
  sequence of events (port of `UnfTyUnwind`, `UnfTyStep`).
-/
import SF.Proofs.UnfStrEnd
namespace SF.Unf.Str
open SF SF.Unf

variable {tbl : TypeTable} {R : Reg} {D : Nat} {base : S6} {fs : List Frame} {c : Ctx}

/-- the frame lists a finished frame can leave behind -/
def Popped (isArr : Bool) : List Frame → Prop
  | [] => True
  | .cellx _ _ :: _ => True
  | .rsl _ _ _ _ _ :: _ => True
  | .sub a _ _ _ :: _ => a = isArr
  | .st _ _ _ :: _ => True
  | .ign _ _ :: _ => True
  | .ignA _ _ :: _ => True
  | .ignO _ _ :: _ => True
  | _ => False

theorem attach_popped {p : Path} {t : GoType} {fs : List Frame} (isArr : Bool) (h : Attach tbl p t none fs) :
    Popped isArr fs := by
  cases fs with
  | nil => trivial
  | cons G fs => cases G <;> first | trivial | exact h.elim | (simp only [Attach] at h; exact absurd h.1 (by simp))

theorem attach_popped_sub {p : Path} {t : GoType} {fs : List Frame} (a : Bool) (h : Attach tbl p t (some a) fs) :
    Popped a fs := by
  cases fs with
  | nil => trivial
  | cons G fs =>
    cases G <;> first | trivial | exact h.elim | (simp only [Attach, Option.some.injEq] at h; exact h.1.symm)

theorem ignOn_popped {t : GoType} {p : Path} {b : Bool} {fs : List Frame} (isArr : Bool) (h : IgnOn t p b fs) :
    Popped isArr fs := by
  cases fs with
  | nil => exact h.elim
  | cons G fs => cases G <;> first | trivial | exact h.elim

theorem ignOn_isSt {t : GoType} {p : Path} {fs : List Frame} (h : IgnOn t p false fs) : isSt fs := by
  cases fs with
  | nil => exact h.elim
  | cons G fs => cases G <;> first | trivial | exact h.elim | (exact absurd h.1 (by simp))

theorem rep_pure (isArr : Bool) (c : Ctx)
    (hcur : c.unfolder.current = .ignoreArr ∨ c.unfolder.current = .ignoreObj ∨ ∃ fields, c.unfolder.current = .struct fields) :
    rep isArr c = .ok () c := by
  rcases hcur with h | h | ⟨fields, h⟩ <;>
    cases isArr <;> simp [rep, onChildArrayDone, onChildObjectDone, bind_def, currentU, h, pure_def]

theorem rep_ign (isArr : Bool) (c : Ctx) (hcur : c.unfolder.current = .ignore) : rep isArr c = ignoreOnValue c := by
  cases isArr <;> simp [rep, onChildArrayDone, onChildObjectDone, bind_def, currentU, hcur]

theorem Inv.uEq (h : Inv tbl R D base fs c) : c.unfolder = (stacksOf base fs).u := (s6_eq _ _ h.stacks).1

/-- what one report does -/
def ReportOut (tbl : TypeTable) (R : Reg) (D : Nat) (base : S6) (isArr : Bool) (fs : List Frame) (c : Ctx)
    (r : Unf.R Unit) : Prop :=
  ∃ c1 fs1, r = .ok () c1 ∧ Inv tbl R D base fs1 c1 ∧ 1 ≤ c.unfolder.stack.length ∧
    ((c1.unfolder.stack.length = c.unfolder.stack.length ∧ Rest fs1) ∨
     (c.unfolder.stack.length = c1.unfolder.stack.length + 1 ∧ Popped isArr fs1 ∧ fs1.length < fs.length))

/-- delivering the finished sub-container to the `interface{}` frame `S` -/
theorem deliver_sink (isArr : Bool) (S : Frame) (fs' : List Frame) (c3 : Ctx) (v : GoVal) (hS : S.isSinkF)
    (h : Inv tbl R D base (S :: fs') c3) :
    ∃ c1 fs1, pukDeliver c3.unfolder.current v c3 = .ok () c1 ∧ Inv tbl R D base fs1 c1 ∧
      1 ≤ c3.unfolder.stack.length ∧
      ((c1.unfolder.stack.length = c3.unfolder.stack.length ∧ Rest fs1) ∨
       (c3.unfolder.stack.length = c1.unfolder.stack.length + 1 ∧ Popped isArr fs1 ∧ fs1.length < (S :: fs').length)) := by
  have hu := h.uEq
  cases S with
  | prim k t p =>
    cases k <;> try exact hS.elim
    simp only [stacksOf, Frame.push] at hu
    obtain ⟨c1, h1, h2, h3⟩ := deliver_prim .ifc t p v h
    refine ⟨c1, fs', by rw [hu]; exact h1, h2, by rw [hu]; simp [Stk.push], Or.inr ⟨h3, ?_, by simp⟩⟩
    exact attach_popped isArr h.wfs.1.1
  | arr k t p i =>
    cases k <;> try exact hS.elim
    simp only [stacksOf, Frame.push] at hu
    obtain ⟨c1, h1, h2, h3⟩ := deliver_arr .ifc t p i v h
    exact ⟨c1, _, by rw [hu]; exact h1, h2, by rw [hu]; simp [Stk.push], Or.inl ⟨h3, ⟨trivial, fun h => h.elim⟩⟩⟩
  | mapV k t p key =>
    cases k <;> try exact hS.elim
    simp only [stacksOf, Frame.push] at hu
    obtain ⟨c1, h1, h2, h3⟩ := deliver_mapV .ifc t p key v h
    exact ⟨c1, _, by rw [hu]; exact h1, h2, by rw [hu]; simp [Stk.push], Or.inl ⟨h3, ⟨trivial, fun h => h.elim⟩⟩⟩
  | _ => exact hS.elim

/-- ONE REPORT to the frames a finished frame leaves behind -/
theorem report_step (isArr : Bool) (G : Frame) (fs' : List Frame) (h : Inv tbl R D base (G :: fs') c)
    (hP : Popped isArr (G :: fs')) : ReportOut tbl R D base isArr (G :: fs') c (rep isArr c) := by
  cases G with
  | rsl e ru t p i =>
    have hu := h.uEq
    simp only [stacksOf, Frame.push] at hu
    refine ⟨c, _, rep_rsl isArr c e ru (by rw [hu]; rfl), h, by rw [hu]; simp [Stk.push], Or.inl ⟨rfl, ⟨trivial, fun h => h.elim⟩⟩⟩
  | st fields t p =>
    have hu := h.uEq
    simp only [stacksOf, Frame.push] at hu
    refine ⟨c, _, rep_pure isArr c (Or.inr (Or.inr ⟨fields, by rw [hu]; rfl⟩)), h, by rw [hu]; simp [Stk.push],
      Or.inl ⟨rfl, ⟨trivial, fun h => h.elim⟩⟩⟩
  | ignA t p =>
    have hu := h.uEq
    simp only [stacksOf, Frame.push] at hu
    refine ⟨c, _, rep_pure isArr c (Or.inl (by rw [hu]; rfl)), h, by rw [hu]; simp [Stk.push],
      Or.inl ⟨rfl, ⟨trivial, fun h => h.elim⟩⟩⟩
  | ignO t p =>
    have hu := h.uEq
    simp only [stacksOf, Frame.push] at hu
    refine ⟨c, _, rep_pure isArr c (Or.inr (Or.inl (by rw [hu]; rfl))), h, by rw [hu]; simp [Stk.push],
      Or.inl ⟨rfl, ⟨trivial, fun h => h.elim⟩⟩⟩
  | ign t p =>
    obtain ⟨hinv, hu⟩ := pop_ign (F := .ign t p) trivial h
    have hu1 := hinv.uEq
    refine ⟨_, fs', ?_, hinv, by rw [hu]; simp [Stk.push], Or.inr ⟨?_, ignOn_popped isArr h.wfs.1, by simp⟩⟩
    · rw [rep_ign isArr c (by rw [hu]; rfl)]
      simp [ignoreOnValue, bind_def, popU, hu, pure_def]
    · rw [hu]; simp [Stk.push]
  | cellx e' C =>
    cases fs' with
    | nil => exact h.wfs.1.2.2.elim
    | cons G2 fs2 =>
      have hu := h.uEq
      cases G2 with
      | rmE e ru t p key =>
        simp only [stacksOf, Frame.push] at hu
        obtain ⟨c1, h1, h2⟩ := process_rmE e' C e ru t p key h
        have hu1 := h2.uEq
        simp only [stacksOf, Frame.push] at hu1
        refine ⟨c1, _, by rw [rep_rmE isArr c e ru (by rw [hu]; rfl)]; exact h1, h2, by rw [hu]; simp [Stk.push],
          Or.inl ⟨by rw [hu, hu1]; simp [Stk.push], ⟨trivial, fun h => h.elim⟩⟩⟩
      | rp e ru t p =>
        simp only [stacksOf, Frame.push] at hu
        obtain ⟨c1, h1, h2, h3⟩ := process_rp e' C e ru t p h
        refine ⟨c1, _, by rw [rep_rp isArr c e ru (by rw [hu]; rfl)]; exact h1, h2, by rw [hu]; simp [Stk.push],
          Or.inr ⟨h3, attach_popped isArr h.wfs.2.1.1, by simp only [List.length_cons]; omega⟩⟩
      | _ => exact h.wfs.1.2.2.elim
  | sub a bt slot k =>
    have ha : a = isArr := hP
    subst ha
    cases fs' with
    | nil => exact h.wfs.1.2.2.2.elim
    | cons S fs2 =>
      have hS : S.isSinkF := h.wfs.1.2.2.2
      cases a with
      | true =>
        obtain ⟨v, c3, hfin, hinv3, hu3⟩ := finishSubArray bt slot k S h
        have hsink : isSink c.unfolder.current := by rw [← hu3]; exact hS.cur hinv3
        obtain ⟨c1, fs1, hd, hinv1, hlen, hcase⟩ := deliver_sink true S fs2 c3 (.ifc v) hS hinv3
        rw [hu3] at hd hlen hcase
        refine ⟨c1, fs1, ?_, hinv1, hlen, ?_⟩
        · rw [rep_sink_arr c hsink, bind_ok _ _ c c3 _ hfin]; exact hd
        · rcases hcase with hc | ⟨h1, h2, h3⟩
          · exact Or.inl hc
          · exact Or.inr ⟨h1, h2, by simp at h3 ⊢; omega⟩
      | false =>
        obtain ⟨v, c3, hfin, hinv3, hu3⟩ := finishSubMap bt slot k S h
        have hsink : isSink c.unfolder.current := by rw [← hu3]; exact hS.cur hinv3
        obtain ⟨c1, fs1, hd, hinv1, hlen, hcase⟩ := deliver_sink false S fs2 c3 (.ifc v) hS hinv3
        rw [hu3] at hd hlen hcase
        refine ⟨c1, fs1, ?_, hinv1, hlen, ?_⟩
        · rw [rep_sink_obj c hsink, bind_ok _ _ c c3 _ hfin]; exact hd
        · rcases hcase with hc | ⟨h1, h2, h3⟩
          · exact Or.inl hc
          · exact Or.inr ⟨h1, h2, by simp at h3 ⊢; omega⟩
  | _ => exact hP.elim

/-- the outcome of an end event: refused, or accepted with the invariant kept -/
def EndOut (tbl : TypeTable) (R : Reg) (D : Nat) (base : S6) (r : Unf.R Unit) : Prop :=
  (∃ e c', r = .err e c') ∨ (∃ c' fs', r = .ok () c' ∧ Inv tbl R D base fs' c' ∧ Rest fs')

/-- `reportChildDone` after a frame has finished: every frame that finishes in turn tells the next
one; no panic, no fuel exhaustion -/
theorem unwind (isArr : Bool) (hbase : base.u = Stk.init .noTarget) :
    ∀ (m : Nat) (fs : List Frame) (c : Ctx) (fuel lBefore : Nat), fs.length ≤ m → Inv tbl R D base fs c →
      Popped isArr fs → lBefore = c.unfolder.stack.length + 2 → lBefore ≤ fuel →
      EndOut tbl R D base (reportChildDone (rep isArr) fuel lBefore c) := by
  intro m
  induction m with
  | zero =>
    intro fs c fuel lBefore hm h _ hl hf
    have : fs = [] := List.eq_nil_of_length_eq_zero (by omega)
    subst this
    have hu := h.uEq
    simp only [stacksOf] at hu
    obtain ⟨f, rfl⟩ : ∃ f, fuel = f + 1 := ⟨fuel - 1, by omega⟩
    refine Or.inr ⟨c, [], report_stop' _ f lBefore c (Or.inr ?_), h, trivial⟩
    rw [hu, hbase]; rfl
  | succ m ih =>
    intro fs c fuel lBefore hm h hP hl hf
    cases fs with
    | nil =>
      have hu := h.uEq
      simp only [stacksOf] at hu
      obtain ⟨f, rfl⟩ : ∃ f, fuel = f + 1 := ⟨fuel - 1, by omega⟩
      refine Or.inr ⟨c, [], report_stop' _ f lBefore c (Or.inr ?_), h, trivial⟩
      rw [hu, hbase]; rfl
    | cons G fs' =>
      obtain ⟨c1, fs1, hrep, hinv1, hlen, hcase⟩ := report_step isArr G fs' h hP
      obtain ⟨f, rfl⟩ : ∃ f, fuel = f + 1 := ⟨fuel - 1, by omega⟩
      have hstep : reportChildDone (rep isArr) (f + 1) lBefore c =
          reportChildDone (rep isArr) f (c.unfolder.stack.length + 1) c1 := by
        rw [reportChildDone]
        simp only [bind_def, getCtx]
        have e1 : ¬ (c.unfolder.stack.length + 1 ≤ 1) := by omega
        have e2 : ¬ (lBefore ≤ c.unfolder.stack.length + 1) := by omega
        simp only [e1, e2, decide_false, Bool.or_self, Bool.false_eq_true, if_false]
        rw [bind_def, hrep]
      rw [hstep]
      rcases hcase with ⟨hsame, hrest⟩ | ⟨hshr, hP1, hlt⟩
      · obtain ⟨f', rfl⟩ : ∃ f', f = f' + 1 := ⟨f - 1, by omega⟩
        exact Or.inr ⟨c1, fs1, report_stop' _ f' _ c1 (Or.inl (by omega)), hinv1, hrest⟩
      · exact ih fs1 c1 f _ (by simp only [List.length_cons] at hm hlt; omega) hinv1 hP1 (by omega) (by omega)

/-! ## one event -/

theorem Inv.need_le {F : Frame} (h : Inv tbl R D base (F :: fs) c) : NeedLe tbl F (D + 2) := by
  have hb := h.wfs.1
  cases F <;> first
    | exact Nat.le_add_left 1 (D + 1)
    | exact ⟨D, hb.2.1.slice_inv.2.2.1, Nat.le_refl _⟩
    | exact ⟨D, hb.2.map_inv.2.2.1, Nat.le_refl _⟩
    | exact ⟨D, hb.2.ptr_inv.2.2.1, Nat.le_refl _⟩

/-- ANY ARRAY END -/
theorem arrEnd_step (hbase : base.u = Stk.init .noTarget) (F : Frame) (fs : List Frame) (c : Ctx)
    (h : Inv tbl R D base (F :: fs) c) (hU : F.hasU) : EndOut tbl R D base (ctxOnArrayFinished c) := by
  have hcur := h.cur hU
  have fin : ∀ c1, onArrayFinished c = .ok () c1 → Inv tbl R D base fs c1 →
      c.unfolder.stack.length = c1.unfolder.stack.length + 1 → Popped true fs →
      EndOut tbl R D base (ctxOnArrayFinished c) := by
    intro c1 h1 h2 h3 hP
    rw [ctxArrFin_eq c c1 h1]
    exact unwind true hbase fs.length fs c1 _ _ (Nat.le_refl _) h2 hP (by omega) (by omega)
  cases F with
  | sub a bt sl k => exact hU.elim
  | cellx e C => exact hU.elim
  | arr k t p i =>
    obtain ⟨c1, h1, h2, h3⟩ := arrFin_arr k t p i h
    exact fin c1 h1 h2 h3 (attach_popped_sub true h.wfs.1.1)
  | rsl e ru t p i =>
    obtain ⟨c1, h1, h2, h3⟩ := arrFin_rsl e ru t p i h
    exact fin c1 h1 h2 h3 (attach_popped true h.wfs.1.1)
  | ignA t p =>
    obtain ⟨hinv, hu⟩ := pop_ign (F := .ignA t p) trivial h
    refine fin _ ?_ hinv (by rw [hu]; simp [Stk.push]) (ignOn_popped true h.wfs.1)
    simp [onArrayFinished, bind_def, currentU, hu, popU, pure_def, Frame.cur]
  | _ => obtain ⟨e, he⟩ := arrEnd_errU c _ hcur trivial; exact Or.inl ⟨e, c, he⟩

/-- ANY OBJECT END -/
theorem objEnd_step (hbase : base.u = Stk.init .noTarget) (F : Frame) (fs : List Frame) (c : Ctx)
    (h : Inv tbl R D base (F :: fs) c) (hU : F.hasU) : EndOut tbl R D base (ctxOnObjectFinished c) := by
  have hcur := h.cur hU
  have fin : ∀ c1, onObjectFinished c = .ok () c1 → Inv tbl R D base fs c1 →
      c.unfolder.stack.length = c1.unfolder.stack.length + 1 → Popped false fs →
      EndOut tbl R D base (ctxOnObjectFinished c) := by
    intro c1 h1 h2 h3 hP
    rw [ctxObjFin_eq c c1 h1]
    exact unwind false hbase fs.length fs c1 _ _ (Nat.le_refl _) h2 hP (by omega) (by omega)
  cases F with
  | sub a bt sl k => exact hU.elim
  | cellx e C => exact hU.elim
  | mapK k t p =>
    obtain ⟨c1, h1, h2, h3⟩ := objFin_mapK k t p h
    exact fin c1 h1 h2 h3 (attach_popped_sub false h.wfs.1.1)
  | rmK e ru t p =>
    obtain ⟨c1, h1, h2, h3⟩ := objFin_rmK e ru t p h
    exact fin c1 h1 h2 h3 (attach_popped false h.wfs.1.1)
  | st fields t p =>
    obtain ⟨c1, h1, h2, h3⟩ := objFin_st fields t p h
    exact fin c1 h1 h2 h3 (attach_popped false h.wfs.1.1)
  | ignO t p =>
    obtain ⟨hinv, hu⟩ := pop_ign (F := .ignO t p) trivial h
    refine fin _ ?_ hinv (by rw [hu]; simp [Stk.push]) (ignOn_popped false h.wfs.1)
    simp [onObjectFinished, bind_def, currentU, hu, popU, pure_def, Frame.cur]
  | _ => obtain ⟨e, he⟩ := objEnd_errU c _ hcur trivial; exact Or.inl ⟨e, c, he⟩

/-- ANY KEY -/
theorem key_stepF (F : Frame) (fs : List Frame) (c : Ctx) (key : Bytes)
    (h : Inv tbl R D base (F :: fs) c) (hU : F.hasU) : EndOut tbl R D base (onKey key c) := by
  have hcur := h.cur hU
  cases F with
  | sub a bt sl k => exact hU.elim
  | cellx e C => exact hU.elim
  | mapK k t p =>
    obtain ⟨c1, h1, h2⟩ := key_mapK k t p key h
    exact Or.inr ⟨c1, _, h1, h2, ⟨trivial, fun h => h.elim⟩⟩
  | rmK e ru t p =>
    obtain ⟨c1, h1, h2⟩ := key_rmK e ru t p key h
    exact Or.inr ⟨c1, _, h1, h2, ⟨trivial, fun h => h.elim⟩⟩
  | st fields t p =>
    obtain ⟨c1, G, h1, h2, h3⟩ := key_st fields t p key h
    exact Or.inr ⟨c1, _, h1, h2, ⟨h3.hasU, fun _ => Or.inr trivial⟩⟩
  | ignO t p => exact Or.inr ⟨c, _, (key_inIgn key c hcur).1, h, ⟨trivial, fun h => h.elim⟩⟩
  | _ => obtain ⟨e, he⟩ := key_errU key c _ hcur trivial; exact Or.inl ⟨e, c, he⟩

/-- the outcome of one event: refused with an error, the documented panic of an invalid
element-type code, or accepted with the invariant kept -/
def StepOut (tbl : TypeTable) (R : Reg) (D : Nat) (base : S6) (e : UEv) (r : Unf.R Unit) : Prop :=
  (∃ er c', r = .err er c') ∨ (∃ c', r = .panic c' ∧ e.badStart) ∨
  (∃ c' fs', r = .ok () c' ∧ Inv tbl R D base fs' c' ∧ Rest fs')

theorem rest_of_isSt {fs : List Frame} (h : fs = [] ∨ isSt fs) : Rest fs := by
  rcases h with rfl | h
  · trivial
  · cases fs with
    | nil => trivial
    | cons G fs => cases G <;> first | exact h.elim | exact ⟨trivial, fun h => h.elim⟩

/-- ONE ARBITRARY EVENT (keys by value) from a reachable context -/
theorem step_struct (hbase : base.u = Stk.init .noTarget) (fuel : Nat) (hf : D + 2 ≤ fuel) (e : UEv)
    (he : ¬ e.isKeyRef) (fs : List Frame) (c : Ctx) (h : Inv tbl R D base fs c) (hR : Rest fs) :
    StepOut tbl R D base e (stepEv fuel e c) := by
  obtain ⟨f, rfl⟩ : ∃ f, fuel = f + 1 := ⟨fuel - 1, by omega⟩
  cases fs with
  | nil =>
    -- no target: `unfolderNoTarget` answers
    have hcur : c.unfolder.current = .noTarget := by rw [h.uEq]; simp only [stacksOf]; rw [hbase]; rfl
    cases e with
    | scalar s => obtain ⟨er, h1⟩ := scalar_errU f s c _ hcur trivial; exact Or.inl ⟨er, c, h1⟩
    | strRef s => obtain ⟨er, h1⟩ := scalar_errU f (.str s) c _ hcur trivial; exact Or.inl ⟨er, c, h1⟩
    | key k => obtain ⟨er, h1⟩ := key_errU k c _ hcur trivial; exact Or.inl ⟨er, c, h1⟩
    | keyRef k => exact absurd trivial he
    | arrStart l bt => obtain ⟨er, h1⟩ := arrStart_errU f l (bt % 256) c _ hcur trivial; exact Or.inl ⟨er, c, h1⟩
    | objStart l bt => obtain ⟨er, h1⟩ := objStart_errU f l (bt % 256) c _ hcur trivial; exact Or.inl ⟨er, c, h1⟩
    | arrEnd => obtain ⟨er, h1⟩ := arrEnd_errU c _ hcur trivial; exact Or.inl ⟨er, c, h1⟩
    | objEnd => obtain ⟨er, h1⟩ := objEnd_errU c _ hcur trivial; exact Or.inl ⟨er, c, h1⟩
  | cons F fs =>
    have hU : F.hasU := hR.1
    have hneed : NeedLe tbl F (f + 1) := h.need_le.mono hf
    have ofEnd : ∀ r, EndOut tbl R D base r → StepOut tbl R D base e r := by
      intro r hr
      rcases hr with h1 | h1
      · exact Or.inl h1
      · exact Or.inr (Or.inr h1)
    have ofScalar : ∀ r, ScalarOut tbl R D base F fs r → StepOut tbl R D base e r := by
      intro r hr
      rcases hr with h1 | ⟨c', fs', hn, h1, h2⟩
      · exact Or.inl h1
      · refine Or.inr (Or.inr ⟨c', fs', h1, h2, ?_⟩)
        cases F with
        | prim k t p => simp only [scalarNext, Option.some.injEq] at hn; subst hn; exact rest_of_isSt (hR.2 trivial)
        | rp e' ru t p => simp only [scalarNext, Option.some.injEq] at hn; subst hn; exact rest_of_isSt (hR.2 trivial)
        | ign t p => simp only [scalarNext, Option.some.injEq] at hn; subst hn; exact rest_of_isSt (hR.2 trivial)
        | arr k t p i => simp only [scalarNext, Option.some.injEq] at hn; subst hn; exact ⟨trivial, fun h => h.elim⟩
        | mapV k t p key => simp only [scalarNext, Option.some.injEq] at hn; subst hn; exact ⟨trivial, fun h => h.elim⟩
        | rsl e' ru t p i => simp only [scalarNext, Option.some.injEq] at hn; subst hn; exact ⟨trivial, fun h => h.elim⟩
        | rmE e' ru t p key =>
          simp only [scalarNext, Option.some.injEq] at hn; subst hn; exact ⟨trivial, fun h => h.elim⟩
        | ignA t p => simp only [scalarNext, Option.some.injEq] at hn; subst hn; exact ⟨trivial, fun h => h.elim⟩
        | ignO t p => simp only [scalarNext, Option.some.injEq] at hn; subst hn; exact ⟨trivial, fun h => h.elim⟩
        | _ => simp [scalarNext] at hn
    cases e with
    | scalar s => exact ofScalar _ (scalar_step (f + 1) F fs c s h hU hneed)
    | strRef s => exact ofScalar _ (scalar_step (f + 1) F fs c (.str s) h hU hneed)
    | key k => exact ofEnd _ (key_stepF F fs c k h hU)
    | keyRef k => exact absurd trivial he
    | arrEnd => exact ofEnd _ (arrEnd_step hbase F fs c h hU)
    | objEnd => exact ofEnd _ (objEnd_step hbase F fs c h hU)
    | arrStart l bt =>
      rcases arrStart_step (f + 1) F fs c l (bt % 256) h hU hneed with h1 | ⟨c', h1, h2⟩ | h1
      · exact Or.inl h1
      · exact Or.inr (Or.inl ⟨c', h1, h2⟩)
      · exact Or.inr (Or.inr h1)
    | objStart l bt =>
      rcases objStart_step (f + 1) F fs c l (bt % 256) h hU hneed with h1 | ⟨c', h1, h2⟩ | h1
      · exact Or.inl h1
      · exact Or.inr (Or.inl ⟨c', h1, h2⟩)
      · exact Or.inr (Or.inr h1)

/-- ANY SEQUENCE OF EVENTS (keys by value) from a reachable context: accepted completely, or refused with an
error at some event, or — only if it contains a container start announcing an invalid element-type code —
the documented panic.  Never a model gap, never fuel exhaustion, no other panic. -/
theorem run_struct (hbase : base.u = Stk.init .noTarget) (fuel : Nat) (hf : D + 2 ≤ fuel) (es : List UEv)
    (hes : ∀ e ∈ es, ¬ e.isKeyRef) (fs : List Frame) (c : Ctx) (h : Inv tbl R D base fs c) (hR : Rest fs) :
    (∃ c' fs', run fuel es c = .ok () c' ∧ Inv tbl R D base fs' c' ∧ Rest fs') ∨
    (∃ er c', run fuel es c = .err er c') ∨
    (∃ c' e, run fuel es c = .panic c' ∧ e ∈ es ∧ e.badStart) := by
  induction es generalizing fs c with
  | nil => exact Or.inl ⟨c, fs, rfl, h, hR⟩
  | cons e es ih =>
    rcases step_struct hbase fuel hf e (hes e List.mem_cons_self) fs c h hR with
      ⟨er, c1, h1⟩ | ⟨c1, h1, hb⟩ | ⟨c1, fs1, h1, hinv1, hR1⟩
    · exact Or.inr (Or.inl ⟨er, c1, run_cons_err _ _ _ _ _ _ h1⟩)
    · exact Or.inr (Or.inr ⟨c1, e, run_cons_panic' _ _ _ _ _ h1, List.mem_cons_self, hb⟩)
    · rw [run_cons_ok _ _ _ _ _ h1]
      rcases ih (fun e he => hes e (List.mem_cons_of_mem _ he)) fs1 c1 hinv1 hR1 with h2 | h2 | ⟨c', e', h2, hm, hb⟩
      · exact Or.inl h2
      · exact Or.inr (Or.inl h2)
      · exact Or.inr (Or.inr ⟨c', e', h2, List.mem_cons_of_mem _ hm, hb⟩)

end SF.Unf.Str
