/-
  Targets with structs, part 5: the start of a generic sub-array / sub-object in an `interface{}` position
  (port of `UnfTySub`): the scratch slot has the type `[]K` / `map[string]K` of the announced element kind.
-/
import SF.Proofs.UnfStrTpl
namespace SF.Unf.Str
open SF SF.Unf

variable {tbl : TypeTable} {R : Reg} {D : Nat} {base : S6} {fs : List Frame} {c : Ctx} {F : Frame}

theorem flat_goType (k : PK) : Flat tbl k.goType := by
  cases k <;> simp [Flat, PK.goType, GoType.un, GoType.under, resolveFuel]

theorem subTy_arr (k : PK) : (subTy true k).un tbl = .slice k.goType := rfl
theorem subTy_map (k : PK) : (subTy false k).un tbl = .map k.goType := rfl

theorem sliceSt_sliceOf (et : GoType) (z : GoVal) (l : Int) (vs : List GoVal) : sliceOf et (sliceSt et z l vs) := by
  unfold sliceSt sliceFin
  split
  · split
    · exact Or.inl rfl
    · exact Or.inr ⟨_, _, rfl⟩
  · exact Or.inr ⟨_, _, rfl⟩

theorem Frame.isSinkF.cur (hs : F.isSinkF) (h : Inv tbl R D base (F :: fs) c) : isSink c.unfolder.current := by
  obtain ⟨hu, _⟩ := s6_eq _ _ h.stacks
  cases F with
  | prim k t p => cases k <;> first | exact hs.elim | (simp only [stacksOf, Frame.push] at hu; rw [hu]; exact Or.inl rfl)
  | arr k t p i =>
    cases k <;> first | exact hs.elim | (simp only [stacksOf, Frame.push] at hu; rw [hu]; exact Or.inr (Or.inl rfl))
  | mapV k t p key =>
    cases k <;> first | exact hs.elim | (simp only [stacksOf, Frame.push] at hu; rw [hu]; exact Or.inr (Or.inr rfl))
  | _ => exact hs.elim

/-- the live pointers of a context resolve inside the scratch buffers and the cells -/
theorem Inv.fresh_arrays (h : Inv tbl R D base fs c) : ∀ y ∈ liveOf fs, y.1.root ≠ .arrays c.valueBuffer.arrays.size := by
  intro y hy hr
  obtain ⟨v, hv, _⟩ := h.mem y hy
  exact absurd (deref_lt_arrays c y.1 v _ hv hr) (Nat.lt_irrefl _)

theorem Inv.fresh_mapAny (h : Inv tbl R D base fs c) : ∀ y ∈ liveOf fs, y.1.root ≠ .mapAny c.valueBuffer.mapAny.size := by
  intro y hy hr
  obtain ⟨v, hv, _⟩ := h.mem y hy
  exact absurd (deref_lt_mapAny c y.1 v _ hv hr) (Nat.lt_irrefl _)

theorem Inv.fresh_mapPrimitive (h : Inv tbl R D base fs c) :
    ∀ y ∈ liveOf fs, y.1.root ≠ .mapPrimitive c.valueBuffer.mapPrimitive.size := by
  intro y hy hr
  obtain ⟨v, hv, _⟩ := h.mem y hy
  exact absurd (deref_lt_mapPrimitive c y.1 v _ hv hr) (Nat.lt_irrefl _)

theorem Inv.fresh_cells (h : Inv tbl R D base fs c) : ∀ y ∈ liveOf fs, y.1.root ≠ .cell c.cells.size := by
  intro y hy hr
  obtain ⟨v, hv, _⟩ := h.mem y hy
  exact absurd (deref_lt_cells c y.1 v _ hv hr) (Nat.lt_irrefl _)

/-- a generic sub-array starts in an `interface{}` position -/
theorem arrStart_sinkF (hs : F.isSinkF) (f : Nat) (l : Int) (bt : Nat) (k : PK) (hk : btKind bt = some k)
    (h : Inv tbl R D base (F :: fs) c) :
    ∃ c', onArrayStart (f + 1) l bt c = .ok () c' ∧
      Inv tbl R D base (.arr k (subTy true k) ⟨.arrays c.valueBuffer.arrays.size, []⟩ 0 ::
        .sub true bt ⟨.arrays c.valueBuffer.arrays.size, []⟩ k :: F :: fs) c' := by
  refine ⟨_, arrStart_sink f l bt k c (hs.cur h) hk, ?_⟩
  obtain ⟨hu, hp, hv, hkk, hi, hb⟩ := s6_eq _ _ h.stacks
  refine ⟨?_, ⟨?_, ?_, h.wfs⟩, ?_, ?_, ?_, ?_, h.env, h.reg, h.regOK⟩
  · refine s6_mk _ _ ?_ ?_ ?_ ?_ ?_ ?_ <;>
      simp [arrCtx, stacksOf, Frame.push, Stk.push, hu, hp, hv, hkk, hi, hb]
  · exact ⟨⟨rfl, rfl, rfl⟩, _, subTy_arr k, flat_goType k⟩
  · refine ⟨hk, ?_, h.fresh_arrays, hs⟩
    simp [slotRoot, h.nA]
  · intro x hx
    simp only [liveOf, List.map_cons, List.mem_cons] at hx
    have hslot : deref (arrCtx c k bt l []) ⟨.arrays c.valueBuffer.arrays.size, []⟩ =
        some (sliceSt k.goType (zero c.env k.goType) l []) := by
      simp [deref, rootVal, arrCtx]
    have hty : HasTy tbl (subTy true k) (sliceSt k.goType (zero c.env k.goType) l []) :=
      hasTy_of_sliceOf (subTy_arr k) (flat_goType k) (sliceSt_sliceOf _ _ _ _)
    rcases hx with rfl | rfl | hx
    · exact ⟨_, hslot, hty, trivial⟩
    · exact ⟨_, hslot, hty, trivial⟩
    · refine (h.mem.grow ?_) x (by simpa [liveOf] using hx)
      intro p v hd
      exact deref_grow c (arrCtx c k bt l []) rfl (fun _ _ h => h) (fun n v h => push_getElem?_of_some _ _ _ _ h) (fun _ _ h => h)
        (fun _ _ h => h) p v hd
  · simp [arrCtx, cntA, h.nA]
  · simp [arrCtx, cntMA, h.nMA]
  · simp [arrCtx, cntMP, h.nMP]

theorem cntMA_sub (bt : Nat) (sl : Path) (k : PK) (fs : List Frame) :
    cntMA (.sub false bt sl k :: fs) = if k = .ifc then cntMA fs + 1 else cntMA fs := by
  cases k <;> simp [cntMA]

theorem cntMP_sub (bt : Nat) (sl : Path) (k : PK) (fs : List Frame) :
    cntMP (.sub false bt sl k :: fs) = if k = .ifc then cntMP fs else cntMP fs + 1 := by
  cases k <;> simp [cntMP]

/-- a generic sub-object starts in an `interface{}` position -/
theorem objStart_sinkF (hs : F.isSinkF) (f : Nat) (l : Int) (bt : Nat) (k : PK) (hk : btKind bt = some k)
    (h : Inv tbl R D base (F :: fs) c) :
    ∃ c', onObjectStart (f + 1) l bt c = .ok () c' ∧
      Inv tbl R D base (.mapK k (subTy false k) ⟨mapRoot c.valueBuffer k, []⟩ ::
        .sub false bt ⟨mapRoot c.valueBuffer k, []⟩ k :: F :: fs) c' := by
  refine ⟨_, objStart_sink f l bt k c (hs.cur h) hk, ?_⟩
  obtain ⟨hu, hp, hv, hkk, hi, hb⟩ := s6_eq _ _ h.stacks
  have hslot : deref (mapCtx c k bt []) ⟨mapRoot c.valueBuffer k, []⟩ = some (.mapNil k.goType) := by
    by_cases hi : k = .ifc <;> simp [deref, rootVal, mapCtx, mapRoot, mapBuf, mapSt, hi]
  have hty : HasTy tbl (subTy false k) (.mapNil k.goType) := hasTy_of_isMap (subTy_map k) trivial
  have hgrow : ∀ p v, deref c p = some v → deref (mapCtx c k bt []) p = some v := by
    intro p v hd
    by_cases hi : k = .ifc
    · exact deref_grow c (mapCtx c k bt []) rfl (fun _ _ h => h) (fun n v h => by simpa [mapCtx, mapBuf, hi] using h)
        (fun n v h => by simpa [mapCtx, mapBuf, hi] using h)
        (fun n v h => by simpa [mapCtx, mapBuf, hi] using push_getElem?_of_some _ _ _ _ h) p v hd
    · exact deref_grow c (mapCtx c k bt []) rfl (fun _ _ h => h) (fun n v h => by simpa [mapCtx, mapBuf, hi] using h)
        (fun n v h => by simpa [mapCtx, mapBuf, hi] using push_getElem?_of_some _ _ _ _ h)
        (fun n v h => by simpa [mapCtx, mapBuf, hi] using h) p v hd
  refine ⟨?_, ⟨?_, ?_, h.wfs⟩, ?_, ?_, ?_, ?_, h.env, h.reg, h.regOK⟩
  · refine s6_mk _ _ ?_ ?_ ?_ ?_ ?_ ?_ <;>
      simp [mapCtx, stacksOf, Frame.push, Stk.push, hu, hp, hv, hkk, hi, hb]
  · exact ⟨⟨rfl, rfl, rfl⟩, _, subTy_map k⟩
  · refine ⟨hk, ?_, ?_, hs⟩
    · by_cases hi : k = .ifc <;> simp [slotRoot, mapRoot, hi, h.nMA, h.nMP]
    · by_cases hi : k = .ifc
      · simpa [mapRoot, hi] using h.fresh_mapAny
      · simpa [mapRoot, hi] using h.fresh_mapPrimitive
  · intro x hx
    simp only [liveOf, List.map_cons, List.mem_cons] at hx
    rcases hx with rfl | rfl | hx
    · exact ⟨_, hslot, hty, trivial⟩
    · exact ⟨_, hslot, hty, trivial⟩
    · exact (h.mem.grow hgrow) x (by simpa [liveOf] using hx)
  · by_cases hi : k = .ifc <;> simp [mapCtx, mapBuf, cntA, h.nA, hi]
  · rw [show cntMA (.mapK k (subTy false k) ⟨mapRoot c.valueBuffer k, []⟩ ::
        .sub false bt ⟨mapRoot c.valueBuffer k, []⟩ k :: F :: fs) =
      cntMA (.sub false bt ⟨mapRoot c.valueBuffer k, []⟩ k :: F :: fs) from rfl, cntMA_sub]
    by_cases hi : k = .ifc <;> simp [mapCtx, mapBuf, h.nMA, hi]
  · rw [show cntMP (.mapK k (subTy false k) ⟨mapRoot c.valueBuffer k, []⟩ ::
        .sub false bt ⟨mapRoot c.valueBuffer k, []⟩ k :: F :: fs) =
      cntMP (.sub false bt ⟨mapRoot c.valueBuffer k, []⟩ k :: F :: fs) from rfl, cntMP_sub]
    by_cases hi : k = .ifc <;> simp [mapCtx, mapBuf, h.nMP, hi]

end SF.Unf.Str
