/-
  Targets with structs, part 11: delivering a finished generic sub-container to the `interface{}` position
  it belongs to: `unfoldIfcFinishSubArray` / `…SubMap` (the scratch slot is released), `pukDeliver`
  (port of `UnfTyEnd`).
-/
import SF.Proofs.UnfStrStart
namespace SF.Unf.Str
open SF SF.Unf

variable {tbl : TypeTable} {R : Reg} {D : Nat} {base : S6} {fs : List Frame} {c : Ctx}

/-! ## `pukDeliver` -/

theorem deliver_prim (k : PK) (t : GoType) (p : Path) (v : GoVal) (h : Inv tbl R D base (.prim k t p :: fs) c) :
    ∃ c', pukDeliver (.prim k) v c = .ok () c' ∧ Inv tbl R D base fs c' ∧
      c.unfolder.stack.length = c'.unfolder.stack.length + 1 := by
  obtain ⟨hu, hp, hv, hk, hi, hb⟩ := s6_eq _ _ h.stacks
  simp only [stacksOf, Frame.push] at hu hp hv hk hi hb
  obtain ⟨old, hd, _⟩ := h.top_deref
  have hd : deref c p = some old := hd
  have hrun : pukDeliver (.prim k) v c =
      .ok () { storeAt c p v with unfolder := (stacksOf base fs).u, ptr := (stacksOf base fs).p } := by
    simp [pukDeliver, bind_def, primAssign, currentPtr, hp, store_at_ok c p v old hd, primCleanup, popU, hu, popPtr,
      pure_def]
  refine ⟨_, hrun, h.pop_store c rfl v (.flat _ _ h.wfs.1.2) ?_ rfl rfl rfl rfl, by simp [hu, Stk.push]⟩
  exact s6_mk _ _ rfl rfl (by simp [hv]) (by simp [hk]) (by simp [hi]) (by simp [hb])

theorem deliver_arr (k : PK) (t : GoType) (p : Path) (i : Int) (v : GoVal)
    (h : Inv tbl R D base (.arr k t p i :: fs) c) :
    ∃ c', pukDeliver (.arr k) v c = .ok () c' ∧ Inv tbl R D base (.arr k t p (i + 1) :: fs) c' ∧
      c'.unfolder.stack.length = c.unfolder.stack.length := by
  obtain ⟨hu, hp, hv, hk, hi, hb⟩ := s6_eq _ _ h.stacks
  simp only [stacksOf, Frame.push] at hu hp hv hk hi hb
  obtain ⟨sl, hd, hok, _⟩ := h.top_deref
  obtain ⟨e, hun, hfl⟩ := h.wfs.1.2
  have hsl : sliceOf e sl := hok.sliceOf hun
  have hrun : pukDeliver (.arr k) v c = arrAppend v c := rfl
  rw [hrun, arrAppend_at v c p sl (by rw [hp]; rfl) hd hsl.isSlice]
  refine ⟨_, rfl, h.replace_store (F' := .arr k t p (i + 1)) c rfl (appendTo sl c.idx.current v)
    (hasTy_of_sliceOf hun hfl (appendTo_sliceOf e _ _ _ hsl)) rfl rfl trivial h.wfs.1 ?_ rfl
    rfl rfl rfl, by simp⟩
  refine s6_mk _ _ (by simp [hu, stacksOf, Frame.push]) (by simp [hp, stacksOf, Frame.push])
    (by simp [hv, stacksOf, Frame.push]) (by simp [hk, stacksOf, Frame.push]) ?_ (by simp [hb, stacksOf, Frame.push])
  simp [hi, stacksOf, Frame.push, Stk.push]

theorem deliver_mapV (k : PK) (t : GoType) (p : Path) (key : Bytes) (v : GoVal)
    (h : Inv tbl R D base (.mapV k t p key :: fs) c) :
    ∃ c', pukDeliver (.mapVal k) v c = .ok () c' ∧ Inv tbl R D base (.mapK k t p :: fs) c' ∧
      c'.unfolder.stack.length = c.unfolder.stack.length := by
  obtain ⟨hu, hp, hv, hk, hi, hb⟩ := s6_eq _ _ h.stacks
  simp only [stacksOf, Frame.push] at hu hp hv hk hi hb
  obtain ⟨m, hd, hok, _⟩ := h.top_deref
  obtain ⟨e, hun⟩ := h.wfs.1.2
  have hm : isMapVal m := hok.map_inv hun
  have hrun : pukDeliver (.mapVal k) v c = mapPut k v c := rfl
  rw [hrun, mapPut_at k v c p m _ key (by rw [hp]; rfl) hd hm hk]
  refine ⟨_, rfl, h.replace_store (F' := .mapK k t p) { c with key := (stacksOf base fs).k } rfl (putTo m key v)
    (hasTy_of_isMap hun (putTo_ok _ _ _ hm)) rfl rfl trivial h.wfs.1 ?_ rfl rfl rfl rfl, by simp⟩
  exact s6_mk _ _ (by simp [hu, stacksOf, Frame.push, Stk.push]) (by simp [hp, stacksOf, Frame.push])
    (by simp [hv, stacksOf, Frame.push]) (by simp [stacksOf, Frame.push]) (by simp [hi, stacksOf, Frame.push])
    (by simp [hb, stacksOf, Frame.push])

/-! ## releasing a scratch slot -/

/-- `unfoldIfcFinishSubArray`: the finished slice is taken out of its scratch slot, the slot is
released -/
theorem finishSubArray (bt : Nat) (slot : Path) (k : PK) (S : Frame)
    (h : Inv tbl R D base (.sub true bt slot k :: S :: fs) c) :
    ∃ v c3, unfoldIfcFinishSubArray c = .ok v c3 ∧ Inv tbl R D base (S :: fs) c3 ∧ c3.unfolder = c.unfolder := by
  have hs : c.s6 = (Frame.sub true bt slot k).push (stacksOf base (S :: fs)) := h.stacks
  obtain ⟨hu, hp, hv, hkk, hi, hb⟩ := s6_eq _ _ hs
  simp only [Frame.push] at hu hp hv hkk hi hb
  obtain ⟨hbk, hslot, hfresh, _⟩ := h.wfs.1
  obtain ⟨v, hd, _⟩ := h.top_deref
  have hd : deref c slot = some v := hd
  have hsz : c.valueBuffer.arrays.size = cntA (S :: fs) + 1 := h.nA
  have hroot : slot.root = .arrays (c.valueBuffer.arrays.size - 1) := by
    rw [hslot, hsz]; simp [slotRoot]
  obtain ⟨c2, hc2⟩ :
      ∃ c2 : Ctx, c2 = { c with ptr := (stacksOf base (S :: fs)).p, baseType := (stacksOf base (S :: fs)).b } :=
    ⟨_, rfl⟩
  obtain ⟨c1, hc1⟩ : ∃ c1 : Ctx, c1 = { c with ptr := (stacksOf base (S :: fs)).p } := ⟨_, rfl⟩
  have hpop1 : popPtr c = .ok (some slot) c1 := by simp [popPtr, hp, hc1]
  have hpop2 : popBaseType c1 = .ok bt c2 := by
    simp [popBaseType, hc2, hc1, hb]
  have hd2 : deref c2 slot = some v := by rw [hc2]; exact (deref_congr c _ rfl slot).trans hd
  have hvb2 : c2.valueBuffer = c.valueBuffer := by rw [hc2]
  have hne : c2.valueBuffer.arrays ≠ #[] := by
    intro h0; rw [hvb2] at h0; rw [h0] at hsz; simp at hsz
  have hrun : unfoldIfcFinishSubArray c = .ok v
      { c2 with valueBuffer := { c2.valueBuffer with arrays := c2.valueBuffer.arrays.pop } } := by
    simp only [unfoldIfcFinishSubArray, bind_def, hpop1, hpop2]
    simp [hbk, bind_def, load_def, hd2, getCtx, hne]
    simp [modifyCtx, pure_def]
  refine ⟨v, _, hrun, ?_, by rw [hc2]⟩
  have hmemeq : ∀ x ∈ liveOf (S :: fs),
      deref ({ c2 with valueBuffer := { c2.valueBuffer with arrays := c2.valueBuffer.arrays.pop } } : Ctx) x.1 =
        deref c x.1 := by
    intro x hx
    apply deref_other_root _ _ (.arrays (c.valueBuffer.arrays.size - 1))
    · intro r' hr'
      rw [hc2]
      cases r' with
      | arrays n =>
        have : n ≠ c.valueBuffer.arrays.size - 1 := fun h => hr' (by rw [h])
        simp [rootVal, pop_getElem? _ _ this]
      | _ => rfl
    · rw [← hroot]; exact hfresh x hx
  refine ⟨?_, h.wfs.2, h.mem_rest.same_deref hmemeq, ?_, ?_, ?_, by rw [hc2]; exact h.env, by rw [hc2]; exact h.reg,
    h.regOK⟩
  · rw [hc2]; exact s6_mk _ _ hu rfl hv hkk hi rfl
  · rw [hc2]; simp [hsz]
  · rw [hc2]; exact h.nMA
  · rw [hc2]; exact h.nMP

/-- `unfoldIfcFinishSubMap` -/
theorem finishSubMap (bt : Nat) (slot : Path) (k : PK) (S : Frame)
    (h : Inv tbl R D base (.sub false bt slot k :: S :: fs) c) :
    ∃ v c3, unfoldIfcFinishSubMap c = .ok v c3 ∧ Inv tbl R D base (S :: fs) c3 ∧ c3.unfolder = c.unfolder := by
  have hs : c.s6 = (Frame.sub false bt slot k).push (stacksOf base (S :: fs)) := h.stacks
  obtain ⟨hu, hp, hv, hkk, hi, hb⟩ := s6_eq _ _ hs
  simp only [Frame.push] at hu hp hv hkk hi hb
  obtain ⟨hbk, hslot, hfresh, _⟩ := h.wfs.1
  obtain ⟨v, hd, _⟩ := h.top_deref
  have hd : deref c slot = some v := hd
  have hnMA := h.nMA
  have hnMP := h.nMP
  rw [cntMA_sub] at hnMA
  rw [cntMP_sub] at hnMP
  obtain ⟨c2, hc2⟩ :
      ∃ c2 : Ctx, c2 = { c with ptr := (stacksOf base (S :: fs)).p, baseType := (stacksOf base (S :: fs)).b } :=
    ⟨_, rfl⟩
  obtain ⟨c1, hc1⟩ : ∃ c1 : Ctx, c1 = { c with ptr := (stacksOf base (S :: fs)).p } := ⟨_, rfl⟩
  have hpop1 : popPtr c = .ok (some slot) c1 := by simp [popPtr, hp, hc1]
  have hpop2 : popBaseType c1 = .ok bt c2 := by
    simp [popBaseType, hc2, hc1, hb]
  have hd2 : deref c2 slot = some v := by rw [hc2]; exact (deref_congr c _ rfl slot).trans hd
  have hvb2 : c2.valueBuffer = c.valueBuffer := by rw [hc2]
  by_cases hki : k = .ifc
  · -- `mapAny`
    simp only [hki, if_true] at hnMA hnMP
    have hroot : slot.root = .mapAny (c.valueBuffer.mapAny.size - 1) := by
      rw [hslot, hnMA]; simp [slotRoot, hki]
    have hne : c2.valueBuffer.mapAny ≠ #[] := by
      intro h0; rw [hvb2] at h0; rw [h0] at hnMA; simp at hnMA
    have hrun : unfoldIfcFinishSubMap c = .ok v
        { c2 with valueBuffer := { c2.valueBuffer with mapAny := c2.valueBuffer.mapAny.pop } } := by
      simp only [unfoldIfcFinishSubMap, bind_def, hpop1, hpop2]
      simp [hbk, bind_def, load_def, hd2, getCtx, hne, hki]
      simp [modifyCtx, pure_def]
    refine ⟨v, _, hrun, ?_, by rw [hc2]⟩
    have hmemeq : ∀ x ∈ liveOf (S :: fs),
        deref ({ c2 with valueBuffer := { c2.valueBuffer with mapAny := c2.valueBuffer.mapAny.pop } } : Ctx) x.1 =
          deref c x.1 := by
      intro x hx
      apply deref_other_root _ _ (.mapAny (c.valueBuffer.mapAny.size - 1))
      · intro r' hr'
        rw [hc2]
        cases r' with
        | mapAny n =>
          have : n ≠ c.valueBuffer.mapAny.size - 1 := fun h => hr' (by rw [h])
          simp [rootVal, pop_getElem? _ _ this]
        | _ => rfl
      · rw [← hroot]; exact hfresh x hx
    refine ⟨?_, h.wfs.2, h.mem_rest.same_deref hmemeq, ?_, ?_, ?_, by rw [hc2]; exact h.env, by rw [hc2]; exact h.reg,
      h.regOK⟩
    · rw [hc2]; exact s6_mk _ _ hu rfl hv hkk hi rfl
    · rw [hc2]; exact h.nA
    · rw [hc2]; simp [hnMA]
    · rw [hc2]; exact hnMP
  · -- `mapPrimitive`
    simp only [hki, if_false] at hnMA hnMP
    have hroot : slot.root = .mapPrimitive (c.valueBuffer.mapPrimitive.size - 1) := by
      rw [hslot, hnMP]; simp [slotRoot, hki]
    have hne : c2.valueBuffer.mapPrimitive ≠ #[] := by
      intro h0; rw [hvb2] at h0; rw [h0] at hnMP; simp at hnMP
    have hrun : unfoldIfcFinishSubMap c = .ok v
        { c2 with valueBuffer := { c2.valueBuffer with mapPrimitive := c2.valueBuffer.mapPrimitive.pop } } := by
      simp only [unfoldIfcFinishSubMap, bind_def, hpop1, hpop2]
      simp [hbk, bind_def, load_def, hd2, getCtx, hne, hki]
      simp [modifyCtx, pure_def]
    refine ⟨v, _, hrun, ?_, by rw [hc2]⟩
    have hmemeq : ∀ x ∈ liveOf (S :: fs),
        deref ({ c2 with valueBuffer := { c2.valueBuffer with
          mapPrimitive := c2.valueBuffer.mapPrimitive.pop } } : Ctx) x.1 = deref c x.1 := by
      intro x hx
      apply deref_other_root _ _ (.mapPrimitive (c.valueBuffer.mapPrimitive.size - 1))
      · intro r' hr'
        rw [hc2]
        cases r' with
        | mapPrimitive n =>
          have : n ≠ c.valueBuffer.mapPrimitive.size - 1 := fun h => hr' (by rw [h])
          simp [rootVal, pop_getElem? _ _ this]
        | _ => rfl
      · rw [← hroot]; exact hfresh x hx
    refine ⟨?_, h.wfs.2, h.mem_rest.same_deref hmemeq, ?_, ?_, ?_, by rw [hc2]; exact h.env, by rw [hc2]; exact h.reg,
      h.regOK⟩
    · rw [hc2]; exact s6_mk _ _ hu rfl hv hkk hi rfl
    · rw [hc2]; exact h.nA
    · rw [hc2]; exact hnMA
    · rw [hc2]; simp [hnMP]

end SF.Unf.Str
