/-
  C04 for the JSON parser mirror, STRINGS: the parser's `unquote` against the reference
  lexer `Cst.lexString`.  Whenever the reference lexer accepts a string token — every escape
  `\" \\ \/ \b \f \n \r \t`, `\uXXXX` (surrogate pairs combined; a lone surrogate ↦ U+FFFD),
  well-formed UTF-8 of code points ≥ U+0020 — the parser delivers exactly the same bytes.
  (Where the two differ the reference lexer refuses the token: `\'`, and bytes that are not
  well-formed UTF-8, are accepted by the parser — examples at the end.)
-/
import SF.Json.Cst
import SF.Proofs.JsonBasic
import SF.Proofs.JsonEncUtf8
set_option linter.unusedSimpArgs false
namespace SF.Json.ParseP
open SF SF.Json SF.Json.Parse SF.Json.Float

/-! ## the mirror's `unquote` is its rewrite loop on the whole body -/

/-- the amount of fuel does not matter once it exceeds the length -/
theorem unquoteLoop_fuel_irrel (f f' : Nat) (rest out : Bytes) (h : rest.length < f) (h' : rest.length < f') :
    unquoteLoop f rest out = unquoteLoop f' rest out := by
  induction f generalizing f' rest out with
  | zero => omega
  | succ f ih =>
    cases f' with
    | zero => omega
    | succ f' =>
      cases rest with
      | nil => simp [unquoteLoop]
      | cons c tl =>
        simp only [List.length_cons] at h h'
        rw [unquoteLoop.eq_def, unquoteLoop.eq_def (f' + 1)]
        simp only
        by_cases hc : (c == ch '\\') = true
        · simp only [hc, if_true]
          cases tl with
          | nil => rfl
          | cons e tl2 =>
            simp only [List.length_cons] at h h'
            simp only
            by_cases h1 : (e == ch '"' || e == ch '\\' || e == ch '/' || e == ch '\'') = true
            · simp only [h1, if_true]; exact ih _ _ _ (by omega) (by omega)
            simp only [h1, if_false, Bool.false_eq_true]
            by_cases h2 : (e == ch 'b') = true
            · simp only [h2, if_true]; exact ih _ _ _ (by omega) (by omega)
            simp only [h2, if_false, Bool.false_eq_true]
            by_cases h3 : (e == ch 'f') = true
            · simp only [h3, if_true]; exact ih _ _ _ (by omega) (by omega)
            simp only [h3, if_false, Bool.false_eq_true]
            by_cases h4 : (e == ch 'n') = true
            · simp only [h4, if_true]; exact ih _ _ _ (by omega) (by omega)
            simp only [h4, if_false, Bool.false_eq_true]
            by_cases h5 : (e == ch 'r') = true
            · simp only [h5, if_true]; exact ih _ _ _ (by omega) (by omega)
            simp only [h5, if_false, Bool.false_eq_true]
            by_cases h6 : (e == ch 't') = true
            · simp only [h6, if_true]; exact ih _ _ _ (by omega) (by omega)
            simp only [h6, if_false, Bool.false_eq_true]
            by_cases h7 : (e == ch 'u') = true
            · simp only [h7, if_true]
              by_cases h8 : Utf8.lenLt tl2 4 = true
              · simp only [h8, if_true, Bool.false_eq_true, if_false]
              simp only [h8, if_false, Bool.false_eq_true]
              cases parseHex4 (List.take 4 tl2) with
              | none => rfl
              | some code =>
                simp only
                have hlen : ∀ (v : Bool) (x : Option Nat),
                    (if v = true then
                      match x with
                      | some code2 =>
                        if (Utf8.decodeSurrogates code code2 != Utf8.runeError) = true then
                          (Utf8.decodeSurrogates code code2, List.drop 6 (List.drop 4 tl2))
                        else (Utf8.decodeSurrogates code code2, List.drop 4 tl2)
                      | none => (Utf8.runeError, List.drop 4 tl2)
                    else (Utf8.runeError, List.drop 4 tl2)).snd.length ≤ tl2.length := by
                  intro v x
                  split
                  · split
                    · split
                      · simp only [List.length_drop]; omega
                      · simp only [List.length_drop]; omega
                    · simp only [List.length_drop]; omega
                  · simp only [List.length_drop]; omega
                by_cases h9 : Utf8.isSurrogate code = true
                · simp only [h9, if_true]
                  exact ih _ _ _ (Nat.lt_of_le_of_lt (hlen _ _) (by omega)) (Nat.lt_of_le_of_lt (hlen _ _) (by omega))
                · simp only [h9, if_false, Bool.false_eq_true]
                  exact ih _ _ _ (by simp only [List.length_drop]; omega) (by simp only [List.length_drop]; omega)
            · simp only [h7, if_false, Bool.false_eq_true]
        · simp only [hc, if_false, Bool.false_eq_true]
          by_cases h1 : (c == ch '"' || decide (c < ch ' ')) = true
          · simp only [h1, if_true]
          simp only [h1, if_false, Bool.false_eq_true]
          by_cases h2 : c < Utf8.runeSelf
          · simp only [h2, if_true]; exact ih _ _ _ (by omega) (by omega)
          simp only [h2, if_false, Bool.false_eq_true]
          have hs := decodeRune_size_pos c tl
          exact ih _ _ _ (by simp only [List.length_drop, List.length_cons]; omega)
            (by simp only [List.length_drop, List.length_cons]; omega)

/-- one round of the loop on a plain ASCII byte -/
theorem unquoteLoop_plain (g : Nat) (c : UInt8) (tl out : Bytes) (h1 : (c == ch '\\') = false)
    (h2 : (c == ch '"' || decide (c < ch ' ')) = false) (h3 : c < Utf8.runeSelf) :
    unquoteLoop (g + 1) (c :: tl) out = unquoteLoop g tl (c :: out) := by
  rw [unquoteLoop.eq_def]
  simp only [h1, h2, h3, if_true, if_false, Bool.false_eq_true]

/-- one round of the loop on a byte ≥ 0x80: the bytes `decodeRune` spans are copied -/
theorem unquoteLoop_mb (g : Nat) (c : UInt8) (tl out : Bytes) (h1 : (c == ch '\\') = false)
    (h2 : (c == ch '"' || decide (c < ch ' ')) = false) (h3 : ¬ c < Utf8.runeSelf) :
    unquoteLoop (g + 1) (c :: tl) out =
      unquoteLoop g ((c :: tl).drop (Utf8.decodeRune (c :: tl)).2)
        (((c :: tl).take (Utf8.decodeRune (c :: tl)).2).reverse ++ out) := by
  rw [unquoteLoop.eq_def]
  simp only [h1, h2, h3, if_true, if_false, Bool.false_eq_true]

/-- the first loop of unquote only finds a prefix that the rewrite loop copies unchanged -/
theorem scanPlain_spec (fuel : Nat) (l : Bytes) (i0 i : Nat) (h : scanPlain fuel l i0 = some i) :
    ∃ n, i = i0 + n ∧ ∀ g out, l.length < g →
      unquoteLoop g l out = unquoteLoop g (l.drop n) ((l.take n).reverse ++ out) := by
  induction fuel generalizing l i0 with
  | zero => simp [scanPlain] at h
  | succ fuel ih =>
    cases l with
    | nil =>
      simp only [scanPlain, Option.some.injEq] at h
      exact ⟨0, by omega, fun g out _ => by simp⟩
    | cons c rest =>
      simp only [scanPlain] at h
      split at h
      · simp only [Option.some.injEq] at h
        exact ⟨0, by omega, fun g out _ => by simp⟩
      · rename_i hsp
        have hsp' : (c == ch '\\') = false ∧ (c == ch '"' || decide (c < ch ' ')) = false := by
          simp only [Bool.or_eq_true, not_or, Bool.not_eq_true, decide_eq_true_eq] at hsp
          simp [hsp.1.1, hsp.1.2, hsp.2]
        split at h
        · rename_i hlt
          obtain ⟨n', hi, hl⟩ := ih rest (i0 + 1) h
          refine ⟨n' + 1, by omega, fun g out hg => ?_⟩
          obtain ⟨g', rfl⟩ : ∃ g', g = g' + 1 := ⟨g - 1, by simp only [List.length_cons] at hg; omega⟩
          simp only [List.length_cons] at hg
          rw [unquoteLoop_plain g' c rest out hsp'.1 hsp'.2 hlt, hl g' _ (by omega)]
          simp only [List.drop_succ_cons, List.take_succ_cons, List.reverse_cons, List.append_assoc,
            List.singleton_append]
          exact unquoteLoop_fuel_irrel _ _ _ _ (by simp only [List.length_drop]; omega)
            (by simp only [List.length_drop]; omega)
        · rename_i hlt
          split at h
          · simp only [Option.some.injEq] at h
            exact ⟨0, by omega, fun g out _ => by simp⟩
          · obtain ⟨n', hi, hl⟩ := ih _ _ h
            refine ⟨(Utf8.decodeRune (c :: rest)).2 + n', by omega, fun g out hg => ?_⟩
            obtain ⟨g', rfl⟩ : ∃ g', g = g' + 1 := ⟨g - 1, by simp only [List.length_cons] at hg; omega⟩
            have hs := decodeRune_size_pos c rest
            rw [unquoteLoop_mb g' c rest out hsp'.1 hsp'.2 hlt,
              hl g' _ (by simp only [List.length_drop, List.length_cons] at hg ⊢; omega)]
            rw [List.drop_drop, List.take_add, List.reverse_append, List.append_assoc]
            exact unquoteLoop_fuel_irrel _ _ _ _
              (by simp only [List.length_drop, List.length_cons] at hg ⊢; omega)
              (by simp only [List.length_drop, List.length_cons] at hg ⊢; omega)

/-- `unquote` = the rewrite loop on the whole body -/
theorem unquote_eq_loop (raw : Bytes) : unquote raw = unquoteLoop (raw.length + 1) raw [] := by
  unfold unquote
  split
  · rename_i h
    have : raw = [] := by simpa using h
    subst this; rfl
  · cases hs : scanPlain (raw.length + 1) raw 0 with
    | none => exact absurd hs (scanPlain_fuel _ _ _ (by omega))
    | some i =>
      obtain ⟨n, hi, hl⟩ := scanPlain_spec _ _ _ _ hs
      simp only [Nat.zero_add] at hi
      subst hi
      simp only
      rw [hl (raw.length + 1) [] (by omega), List.append_nil]
      split
      · rename_i he
        have : i = raw.length := by simpa using he
        subst this
        simp [unquoteLoop]
      · rfl

/-! ## small facts about hex digits and surrogates -/

theorem hexVal_agree : ∀ a : UInt8, SF.hexVal (Char.ofNat a.toNat) = Cst.hexVal a := by
  apply forall_uint8; decide +kernel

theorem hexVal_not_delim : ∀ a : UInt8, (Cst.hexVal a).isSome = true → (a == 0x22) = false ∧ (a == 0x5c) = false := by
  apply forall_uint8; decide +kernel

theorem lexString_nil (f : Nat) (acc : Bytes) : ∃ e, Cst.lexString f [] acc = .error e := by
  cases f <;> exact ⟨_, rfl⟩

/-- four hex digits at the head of a body that is followed by the closing quote lie in the body -/
theorem hex4_body (raw X rest2 : Bytes) (r : Nat) (h : Cst.hex4 (raw ++ 0x22 :: X) = .ok (r, rest2)) :
    ∃ a b c d raw3, raw = a :: b :: c :: d :: raw3 ∧ rest2 = raw3 ++ 0x22 :: X ∧ parseHex4 [a, b, c, d] = some r ∧
      (∀ x ∈ [a, b, c, d], (x == 0x22) = false ∧ (x == 0x5c) = false) := by
  have key : ∀ (a b c d : UInt8) (tl : Bytes), Cst.hex4 (a :: b :: c :: d :: tl) = .ok (r, rest2) →
      rest2 = tl ∧ parseHex4 [a, b, c, d] = some r ∧
      (∀ x ∈ [a, b, c, d], (x == 0x22) = false ∧ (x == 0x5c) = false) := by
    intro a b c d tl hh
    simp only [Cst.hex4] at hh
    cases ha : Cst.hexVal a with
    | none => simp [ha] at hh
    | some va =>
      cases hb : Cst.hexVal b with
      | none => simp [ha, hb] at hh
      | some vb =>
        cases hc : Cst.hexVal c with
        | none => simp [ha, hb, hc] at hh
        | some vc =>
          cases hd : Cst.hexVal d with
          | none => simp [ha, hb, hc, hd] at hh
          | some vd =>
            simp only [ha, hb, hc, hd, Except.ok.injEq, Prod.mk.injEq] at hh
            refine ⟨hh.2.symm, ?_, ?_⟩
            · simp only [parseHex4, hexVal_agree, ha, hb, hc, hd, hh.1]
            · intro x hx
              simp only [List.mem_cons, List.not_mem_nil, or_false] at hx
              rcases hx with rfl | rfl | rfl | rfl
              · exact hexVal_not_delim _ (by rw [ha]; rfl)
              · exact hexVal_not_delim _ (by rw [hb]; rfl)
              · exact hexVal_not_delim _ (by rw [hc]; rfl)
              · exact hexVal_not_delim _ (by rw [hd]; rfl)
  have hbad : ∀ l : Bytes, l.length < 4 → ∀ x, Cst.hex4 l ≠ .ok x := by
    intro l hl x
    match l, hl with
    | [], _ => simp [Cst.hex4]
    | [_], _ => simp [Cst.hex4]; split <;> simp
    | [_, _], _ => simp [Cst.hex4]; split <;> simp
    | [_, _, _], _ => simp [Cst.hex4]; split <;> simp
  have gen : ∀ l : Bytes, Cst.hex4 l = .ok (r, rest2) → ∃ a b c d tl, l = a :: b :: c :: d :: tl ∧ rest2 = tl ∧
      parseHex4 [a, b, c, d] = some r ∧ (∀ x ∈ [a, b, c, d], (x == 0x22) = false ∧ (x == 0x5c) = false) := by
    intro l hl
    match l, hl with
    | [], hl => exact absurd hl (hbad _ (by simp) _)
    | [_], hl => exact absurd hl (hbad _ (by simp) _)
    | [_, _], hl => exact absurd hl (hbad _ (by simp) _)
    | [_, _, _], hl => exact absurd hl (hbad _ (by simp) _)
    | a :: b :: c :: d :: tl, hl =>
      obtain ⟨h1, h2, h3⟩ := key a b c d tl hl
      exact ⟨a, b, c, d, tl, rfl, h1, h2, h3⟩
  obtain ⟨a, b, c, d, tl, hl, h1, h2, h3⟩ := gen _ h
  match raw, hl with
  | [], hl =>
    simp only [List.nil_append, List.cons.injEq] at hl
    have := (h3 a (by simp)).1
    rw [← hl.1] at this; simp at this
  | [x], hl =>
    simp only [List.cons_append, List.nil_append, List.cons.injEq] at hl
    have := (h3 b (by simp)).1
    rw [← hl.2.1] at this; simp at this
  | [x, y], hl =>
    simp only [List.cons_append, List.nil_append, List.cons.injEq] at hl
    have := (h3 c (by simp)).1
    rw [← hl.2.2.1] at this; simp at this
  | [x, y, z], hl =>
    simp only [List.cons_append, List.nil_append, List.cons.injEq] at hl
    have := (h3 d (by simp)).1
    rw [← hl.2.2.2.1] at this; simp at this
  | x :: y :: z :: w :: raw3, hl =>
    simp only [List.cons_append, List.cons.injEq] at hl
    obtain ⟨rfl, rfl, rfl, rfl, rfl⟩ := hl
    exact ⟨_, _, _, _, raw3, rfl, h1, h2, h3⟩

theorem decodeSurrogates_pair (r1 r2 : Nat) (h1 : (decide (Utf8.surr1 ≤ r1) && decide (r1 < Utf8.surr2)) = true)
    (h2 : (decide (Utf8.surr2 ≤ r2) && decide (r2 < Utf8.surr3)) = true) :
    (Utf8.decodeSurrogates r1 r2 != Utf8.runeError) = true := by
  simp only [Bool.and_eq_true, decide_eq_true_eq] at h1 h2
  have : Utf8.decodeSurrogates r1 r2 =
      (((r1 - Utf8.surr1) <<< 10) ||| (r2 - Utf8.surr2)) + Utf8.surrSelf := by
    simp [Utf8.decodeSurrogates, h1.1, h1.2, h2.1, h2.2]
  rw [this]
  simp only [Utf8.surrSelf, Utf8.runeError, bne_iff_ne, ne_eq]
  omega

theorem decodeSurrogates_bad (r1 r2 : Nat)
    (h : (decide (Utf8.surr1 ≤ r1) && decide (r1 < Utf8.surr2)) = false ∨
         (decide (Utf8.surr2 ≤ r2) && decide (r2 < Utf8.surr3)) = false) :
    Utf8.decodeSurrogates r1 r2 = Utf8.runeError := by
  unfold Utf8.decodeSurrogates
  split
  · rename_i hc
    simp only [Bool.and_eq_true, decide_eq_true_eq] at hc
    simp only [Bool.and_eq_false_iff, decide_eq_false_iff_not] at h
    omega
  · rfl

/-! ## one round of the rewrite loop on an escape -/

theorem unquoteLoop_simple (g : Nat) (e m : UInt8) (tl2 out : Bytes)
    (h : (e, m) ∈ [((34 : UInt8), (34 : UInt8)), (92, 92), (47, 47), (98, 8), (102, 12), (110, 10), (114, 13), (116, 9)]) :
    unquoteLoop (g + 1) (92 :: e :: tl2) out = unquoteLoop g tl2 (m :: out) := by
  simp only [List.mem_cons, Prod.mk.injEq, List.not_mem_nil, or_false] at h
  rcases h with ⟨rfl, rfl⟩ | ⟨rfl, rfl⟩ | ⟨rfl, rfl⟩ | ⟨rfl, rfl⟩ | ⟨rfl, rfl⟩ | ⟨rfl, rfl⟩ | ⟨rfl, rfl⟩ | ⟨rfl, rfl⟩ <;>
    (rw [unquoteLoop.eq_def]; rfl)

/-- the surrogate look-ahead of the rewrite loop -/
def surrNext (code : Nat) (tl3 : Bytes) : Nat × Bytes :=
  if (!Utf8.lenLt tl3 6 && tl3.head? == some (ch '\\') && (tl3.drop 1).head? == some (ch 'u')) = true then
    match parseHex4 ((tl3.drop 2).take 4) with
    | some code2 =>
      if (Utf8.decodeSurrogates code code2 != Utf8.runeError) = true then
        (Utf8.decodeSurrogates code code2, tl3.drop 6)
      else (Utf8.decodeSurrogates code code2, tl3)
    | none => (Utf8.runeError, tl3)
  else (Utf8.runeError, tl3)

theorem unquoteLoop_u (g : Nat) (a b c d : UInt8) (raw3 out : Bytes) (code : Nat)
    (h : parseHex4 [a, b, c, d] = some code) :
    unquoteLoop (g + 1) (92 :: 117 :: a :: b :: c :: d :: raw3) out =
      if Utf8.isSurrogate code = true then
        unquoteLoop g (surrNext code raw3).2 ((Utf8.encodeRune (surrNext code raw3).1).reverse ++ out)
      else unquoteLoop g raw3 ((Utf8.encodeRune code).reverse ++ out) := by
  rw [unquoteLoop.eq_def]
  have e1 : ((92 : UInt8) == ch '\\') = true := by decide
  have e2 : ((117 : UInt8) == ch '"' || (117 : UInt8) == ch '\\' || (117 : UInt8) == ch '/' || (117 : UInt8) == ch '\'') = false := by decide
  have e3 : ((117 : UInt8) == ch 'b') = false := by decide
  have e4 : ((117 : UInt8) == ch 'f') = false := by decide
  have e5 : ((117 : UInt8) == ch 'n') = false := by decide
  have e6 : ((117 : UInt8) == ch 'r') = false := by decide
  have e7 : ((117 : UInt8) == ch 't') = false := by decide
  have e8 : ((117 : UInt8) == ch 'u') = true := by decide
  have e9 : Utf8.lenLt (a :: b :: c :: d :: raw3) 4 = false := by simp [Utf8.lenLt]
  simp only [e1, e2, e3, e4, e5, e6, e7, e8, e9, if_true, if_false, Bool.false_eq_true, List.take_succ_cons,
    List.take_zero, h, List.drop_succ_cons, List.drop_zero]
  rfl

/-! ## scanning over bytes that are neither quote nor backslash -/

theorem scan_plain (c : UInt8) (raw : Bytes) (k : Nat) (h1 : (c == 0x22) = false) (h2 : (c == 0x5c) = false) :
    scanString (c :: raw) false k = scanString raw false (k + 1) := by
  have e1 : (c == ch '"') = false := h1
  have e2 : (c == ch '\\') = false := h2
  simp only [scanString, e1, e2, Bool.false_eq_true, if_false]

theorem scan_esc (e : UInt8) (raw : Bytes) (k : Nat) :
    scanString (0x5c :: e :: raw) false k = scanString raw false (k + 2) := by
  have e1 : ((0x5c : UInt8) == ch '"') = false := by decide
  have e2 : ((0x5c : UInt8) == ch '\\') = true := by decide
  simp only [scanString, e1, e2, Bool.false_eq_true, if_false, if_true]

theorem scan_skip (n : Nat) (l : Bytes) (k : Nat) (hn : n ≤ l.length)
    (h : ∀ x ∈ l.take n, (x == 0x22) = false ∧ (x == 0x5c) = false) :
    scanString l false k = scanString (l.drop n) false (k + n) := by
  induction n generalizing l k with
  | zero => rfl
  | succ n ih =>
    cases l with
    | nil => simp at hn
    | cons c l =>
      simp only [List.length_cons] at hn
      have hc := h c (by simp)
      rw [scan_plain c l k hc.1 hc.2, ih l (k + 1) (by omega) (fun x hx => h x (by simp [hx]))]
      simp only [List.drop_succ_cons]
      congr 1; omega

/-! ## the agreement -/

theorem surrNext_bad (code : Nat) (tl3 : Bytes)
    (h : ∀ code2, Utf8.decodeSurrogates code code2 = Utf8.runeError) : surrNext code tl3 = (Utf8.runeError, tl3) := by
  unfold surrNext
  split
  · split
    · rename_i code2 _
      rw [h code2]
      simp
    · rfl
  · rfl

theorem isSurrogate_iff (r : Nat) :
    Utf8.isSurrogate r = ((decide (Utf8.surr1 ≤ r) && decide (r < Utf8.surr2)) ||
      (decide (Utf8.surr2 ≤ r) && decide (r < Utf8.surr3))) := by
  simp only [Utf8.isSurrogate, Utf8.surr1, Utf8.surr2, Utf8.surr3]
  by_cases h1 : 55296 ≤ r <;> by_cases h2 : r < 56320 <;> by_cases h3 : 56320 ≤ r <;> by_cases h4 : r < 57344 <;>
    simp [h1, h2, h3, h4] <;> omega

/-- MAIN LEMMA: if the reference lexer, started behind the opening quote on `raw` followed by
the closing quote, accepts and stops exactly at the end, then `raw` contains no unescaped
quote (so the closing quote is where the parser finds it) and the parser's rewrite loop
yields the same bytes -/
theorem lex_unquote (f : Nat) : ∀ (raw acc s : Bytes), Cst.lexString f (raw ++ [0x22]) acc = .ok (s, []) →
    (∀ g, raw.length < g → unquoteLoop g raw acc = .ok s) ∧ (∀ k, scanString raw false k = (none, false)) := by
  induction f with
  | zero => intro raw acc s h; simp [Cst.lexString] at h
  | succ f ih =>
    intro raw acc s h
    cases raw with
    | nil =>
      simp only [List.nil_append, Cst.lexString, beq_self_eq_true, if_true, Except.ok.injEq, Prod.mk.injEq,
        and_true] at h
      subst h
      refine ⟨fun g hg => ?_, fun k => rfl⟩
      obtain ⟨g', rfl⟩ : ∃ g', g = g' + 1 := ⟨g - 1, by simp at hg; omega⟩
      rfl
    | cons c raw' =>
      rw [List.cons_append, Cst.lexString.eq_def] at h
      simp only at h
      by_cases hq : (c == 34) = true
      · simp only [hq, if_true, Except.ok.injEq, Prod.mk.injEq] at h
        exact absurd h.2 (by simp)
      have hq : (c == 34) = false := by simpa using hq
      simp only [hq, Bool.false_eq_true, if_false] at h
      by_cases hb : (c == 92) = true
      · have hc92 : c = 92 := by simpa using hb
        subst hc92
        simp only [beq_self_eq_true, if_true] at h
        cases raw' with
        | nil =>
          simp only [List.nil_append, beq_self_eq_true, if_true] at h
          obtain ⟨e, he⟩ := lexString_nil f (34 :: acc)
          rw [he] at h; simp at h
        | cons e raw'' =>
          simp only [List.cons_append] at h
          have simple : ∀ m : UInt8,
              (e, m) ∈ [((34 : UInt8), (34 : UInt8)), (92, 92), (47, 47), (98, 8), (102, 12), (110, 10), (114, 13),
                (116, 9)] →
              Cst.lexString f (raw'' ++ [0x22]) (m :: acc) = .ok (s, []) →
              (∀ g, (92 :: e :: raw'').length < g → unquoteLoop g (92 :: e :: raw'') acc = .ok s) ∧
              (∀ k, scanString (92 :: e :: raw'') false k = (none, false)) := by
            intro m hm hl
            obtain ⟨k1, k2⟩ := ih raw'' _ s hl
            refine ⟨fun g hg => ?_, fun k => by rw [scan_esc]; exact k2 _⟩
            obtain ⟨g', rfl⟩ : ∃ g', g = g' + 1 := ⟨g - 1, by simp at hg; omega⟩
            simp only [List.length_cons] at hg
            rw [unquoteLoop_simple g' e m raw'' acc hm]
            exact k1 g' (by omega)
          by_cases h1 : (e == 34) = true
          · have : e = 34 := by simpa using h1
            subst this
            simp only [beq_self_eq_true, if_true] at h
            exact simple 34 (by simp) h
          have h1 : (e == 34) = false := by simpa using h1
          simp only [h1, Bool.false_eq_true, if_false] at h
          by_cases h2 : (e == 92) = true
          · have : e = 92 := by simpa using h2
            subst this
            simp only [beq_self_eq_true, if_true] at h
            exact simple 92 (by simp) h
          have h2 : (e == 92) = false := by simpa using h2
          simp only [h2, Bool.false_eq_true, if_false] at h
          by_cases h3 : (e == 47) = true
          · have : e = 47 := by simpa using h3
            subst this
            simp only [beq_self_eq_true, if_true] at h
            exact simple 47 (by simp) h
          have h3 : (e == 47) = false := by simpa using h3
          simp only [h3, Bool.false_eq_true, if_false] at h
          by_cases h4 : (e == 98) = true
          · have : e = 98 := by simpa using h4
            subst this
            simp only [beq_self_eq_true, if_true] at h
            exact simple 8 (by simp) h
          have h4 : (e == 98) = false := by simpa using h4
          simp only [h4, Bool.false_eq_true, if_false] at h
          by_cases h5 : (e == 102) = true
          · have : e = 102 := by simpa using h5
            subst this
            simp only [beq_self_eq_true, if_true] at h
            exact simple 12 (by simp) h
          have h5 : (e == 102) = false := by simpa using h5
          simp only [h5, Bool.false_eq_true, if_false] at h
          by_cases h6 : (e == 110) = true
          · have : e = 110 := by simpa using h6
            subst this
            simp only [beq_self_eq_true, if_true] at h
            exact simple 10 (by simp) h
          have h6 : (e == 110) = false := by simpa using h6
          simp only [h6, Bool.false_eq_true, if_false] at h
          by_cases h7 : (e == 114) = true
          · have : e = 114 := by simpa using h7
            subst this
            simp only [beq_self_eq_true, if_true] at h
            exact simple 13 (by simp) h
          have h7 : (e == 114) = false := by simpa using h7
          simp only [h7, Bool.false_eq_true, if_false] at h
          by_cases h8 : (e == 116) = true
          · have : e = 116 := by simpa using h8
            subst this
            simp only [beq_self_eq_true, if_true] at h
            exact simple 9 (by simp) h
          have h8 : (e == 116) = false := by simpa using h8
          simp only [h8, Bool.false_eq_true, if_false] at h
          by_cases h9 : (e == 117) = true
          · have : e = 117 := by simpa using h9
            subst this
            simp only [beq_self_eq_true, if_true] at h
            -- \uXXXX
            cases hx : Cst.hex4 (raw'' ++ [0x22]) with
            | error er => rw [hx] at h; simp at h
            | ok pr =>
              obtain ⟨r1, rest2⟩ := pr
              rw [hx] at h
              simp only at h
              obtain ⟨a, b, c, d, raw3, rfl, rfl, hp, hnd⟩ := hex4_body raw'' [] rest2 r1 hx
              -- what remains to be shown once the continuation is known
              have fin : ∀ (nxt : Bytes) (rn : Nat), nxt.length ≤ raw3.length →
                  (Utf8.isSurrogate r1 = true → surrNext r1 raw3 = (rn, nxt)) →
                  (Utf8.isSurrogate r1 = false → rn = r1 ∧ nxt = raw3) →
                  Cst.lexString f (nxt ++ [0x22]) ((Utf8.encodeRune rn).reverse ++ acc) = .ok (s, []) →
                  (∀ k, scanString nxt false k = (none, false) → scanString raw3 false k = (none, false) ∨
                    ∃ j, scanString raw3 false k = scanString nxt false (k + j)) →
                  (∀ g, (92 :: 117 :: a :: b :: c :: d :: raw3).length < g →
                    unquoteLoop g (92 :: 117 :: a :: b :: c :: d :: raw3) acc = .ok s) ∧
                  (∀ k, scanString (92 :: 117 :: a :: b :: c :: d :: raw3) false k = (none, false)) := by
                intro nxt rn hlen hs1 hs2 hl hsc
                obtain ⟨k1, k2⟩ := ih nxt _ s hl
                refine ⟨fun g hg => ?_, fun k => ?_⟩
                · obtain ⟨g', rfl⟩ : ∃ g', g = g' + 1 := ⟨g - 1, by simp at hg; omega⟩
                  simp only [List.length_cons] at hg
                  rw [unquoteLoop_u g' a b c d raw3 acc r1 hp]
                  cases hsur : Utf8.isSurrogate r1 with
                  | true =>
                    simp only [if_true]
                    rw [hs1 hsur]
                    exact k1 g' (by omega)
                  | false =>
                    simp only [Bool.false_eq_true, if_false]
                    obtain ⟨rfl, rfl⟩ := hs2 hsur
                    exact k1 g' (by omega)
                · rw [scan_esc, scan_skip 4 (a :: b :: c :: d :: raw3) _ (by simp) (by simpa using hnd)]
                  simp only [List.drop_succ_cons, List.drop_zero]
                  rcases hsc (k + 2 + 4) (k2 _) with h' | ⟨j, h'⟩
                  · exact h'
                  · rw [h']; exact k2 _
              by_cases hhi : (decide (Utf8.surr1 ≤ r1) && decide (r1 < Utf8.surr2)) = true
              · -- high surrogate
                have hsur : Utf8.isSurrogate r1 = true := by rw [isSurrogate_iff, hhi]; rfl
                simp only [hhi, if_true] at h
                split at h
                · -- followed by \u
                  rename_i rest3 heq
                  -- raw3 = 92 :: 117 :: raw5
                  obtain ⟨raw5, rfl, rfl⟩ : ∃ raw5, raw3 = 92 :: 117 :: raw5 ∧ rest3 = raw5 ++ [0x22] := by
                    match raw3, heq with
                    | [], heq => simp at heq
                    | [x], heq => simp at heq
                    | x :: y :: raw5, heq =>
                      simp only [List.cons_append, List.cons.injEq] at heq
                      exact ⟨raw5, by rw [heq.1, heq.2.1], heq.2.2.symm⟩
                  cases hx2 : Cst.hex4 (raw5 ++ [0x22]) with
                  | error er =>
                    rw [hx2] at h
                    cases er <;> simp at h
                  | ok pr2 =>
                    obtain ⟨r2, rest4⟩ := pr2
                    rw [hx2] at h
                    simp only at h
                    obtain ⟨a', b', c', d', raw6, rfl, rfl, hp2, hnd2⟩ := hex4_body raw5 [] rest4 r2 hx2
                    have hv : (!Utf8.lenLt (92 :: 117 :: a' :: b' :: c' :: d' :: raw6) 6 &&
                        (92 :: 117 :: a' :: b' :: c' :: d' :: raw6 : Bytes).head? == some (ch '\\') &&
                        ((92 :: 117 :: a' :: b' :: c' :: d' :: raw6 : Bytes).drop 1).head? == some (ch 'u')) = true := by
                      simp [Utf8.lenLt]; decide
                    by_cases hlo : (decide (Utf8.surr2 ≤ r2) && decide (r2 < Utf8.surr3)) = true
                    · simp only [hlo, if_true] at h
                      apply fin raw6 (Utf8.decodeSurrogates r1 r2) (by simp; omega) _ (by intro hc; rw [hsur] at hc; simp at hc) h
                      · intro k hk
                        right
                        refine ⟨6, ?_⟩
                        rw [scan_esc, scan_skip 4 (a' :: b' :: c' :: d' :: raw6) _ (by simp) (by simpa using hnd2)]
                        simp only [List.drop_succ_cons, List.drop_zero]
                      · intro _
                        unfold surrNext
                        rw [if_pos hv]
                        simp only [List.drop_succ_cons, List.drop_zero, List.take_succ_cons, List.take_zero, hp2,
                          decodeSurrogates_pair r1 r2 hhi hlo, if_true]
                    · have hlo : (decide (Utf8.surr2 ≤ r2) && decide (r2 < Utf8.surr3)) = false := by simpa using hlo
                      simp only [hlo, Bool.false_eq_true, if_false] at h
                      apply fin (92 :: 117 :: a' :: b' :: c' :: d' :: raw6) Utf8.runeError (Nat.le_refl _) _
                        (by intro hc; rw [hsur] at hc; simp at hc) h
                      · intro k hk; exact Or.inl hk
                      · intro _
                        unfold surrNext
                        rw [if_pos hv]
                        simp only [List.drop_succ_cons, List.drop_zero, List.take_succ_cons, List.take_zero, hp2,
                          decodeSurrogates_bad r1 r2 (Or.inr hlo)]
                        simp
                · -- not followed by \u
                  rename_i hno
                  apply fin raw3 Utf8.runeError (Nat.le_refl _) _ (by intro hc; rw [hsur] at hc; simp at hc) h
                  · intro k hk; exact Or.inl hk
                  · intro _
                    unfold surrNext
                    split
                    · rename_i hv
                      exfalso
                      simp only [Bool.and_eq_true, Bool.not_eq_true', beq_iff_eq] at hv
                      obtain ⟨⟨hv1, hv2⟩, hv3⟩ := hv
                      match raw3, hv2, hv3 with
                      | x :: y :: rst, hv2, hv3 =>
                        simp only [List.head?_cons, Option.some.injEq, List.drop_succ_cons, List.drop_zero] at hv2 hv3
                        subst hv2; subst hv3
                        exact hno (rst ++ [0x22]) (by
                          have e1 : ch '\\' = 92 := by decide
                          have e2 : ch 'u' = 117 := by decide
                          simp [e1, e2])
                    · rfl
              · have hhi : (decide (Utf8.surr1 ≤ r1) && decide (r1 < Utf8.surr2)) = false := by simpa using hhi
                simp only [hhi, Bool.false_eq_true, if_false] at h
                by_cases hlo1 : (decide (Utf8.surr2 ≤ r1) && decide (r1 < Utf8.surr3)) = true
                · -- lone low surrogate
                  have hsur : Utf8.isSurrogate r1 = true := by rw [isSurrogate_iff, hlo1]; simp
                  simp only [hlo1, if_true] at h
                  apply fin raw3 Utf8.runeError (Nat.le_refl _) _ (by intro hc; rw [hsur] at hc; simp at hc) h
                  · intro k hk; exact Or.inl hk
                  · intro _
                    exact surrNext_bad r1 raw3 (fun code2 => decodeSurrogates_bad r1 code2 (Or.inl hhi))
                · have hlo1 : (decide (Utf8.surr2 ≤ r1) && decide (r1 < Utf8.surr3)) = false := by simpa using hlo1
                  have hsur : Utf8.isSurrogate r1 = false := by rw [isSurrogate_iff, hhi, hlo1]; rfl
                  simp only [hlo1, Bool.false_eq_true, if_false] at h
                  apply fin raw3 r1 (Nat.le_refl _) (by intro hc; rw [hsur] at hc; simp at hc) (fun _ => ⟨rfl, rfl⟩) h
                  intro k hk; exact Or.inl hk
          · have h9 : (e == 117) = false := by simpa using h9
            simp only [h9, Bool.false_eq_true, if_false] at h
            simp at h
      · have hb : (c == 92) = false := by simpa using hb
        simp only [hb, Bool.false_eq_true, if_false] at h
        by_cases hctl : c < 32
        · simp only [hctl, if_true] at h; simp at h
        simp only [hctl, if_false] at h
        have e1 : (c == ch '\\') = false := hb
        have e2 : (c == ch '"' || decide (c < ch ' ')) = false := by
          have : ch ' ' = 32 := by decide
          have hq' : (c == ch '"') = false := hq
          simp [hq', this, hctl]
        by_cases hasc : c < 128
        · simp only [hasc, if_true] at h
          obtain ⟨k1, k2⟩ := ih raw' _ s h
          refine ⟨fun g hg => ?_, fun k => by rw [scan_plain c raw' k hq hb]; exact k2 _⟩
          obtain ⟨g', rfl⟩ : ∃ g', g = g' + 1 := ⟨g - 1, by simp at hg; omega⟩
          simp only [List.length_cons] at hg
          rw [unquoteLoop_plain g' c raw' acc e1 e2 hasc]
          exact k1 g' (by omega)
        · -- multi-byte UTF-8
          simp only [hasc, if_false] at h
          by_cases hsz : (Utf8.decodeRune (c :: (raw' ++ [0x22]))).2 ≤ 1
          · simp only [hsz, if_true] at h
            split at h
            · split at h <;> simp at h
            · simp at h
          simp only [hsz, if_false] at h
          have hc80 : 0x80 ≤ c.toNat := by
            have : ¬ c.toNat < 128 := by simpa [UInt8.lt_iff_toNat_lt] using hasc
            omega
          have hmb := Utf8.decodeRune_mb c (raw' ++ [0x22]) hc80
          cases hm : Utf8.mbDecode (c :: (raw' ++ [0x22])) with
          | none => rw [hm] at hmb; rw [hmb] at hsz; simp at hsz
          | some pr =>
            obtain ⟨r, sz⟩ := pr
            rw [hm] at hmb
            simp only [Option.getD_some] at hmb
            rw [hmb] at h hsz
            simp only at h hsz
            obtain ⟨m1, _, m3, m4, m5, _⟩ := Utf8.mbDecode_some hm
            -- the sequence lies inside the body
            have hin : sz ≤ (c :: raw').length := by
              by_cases hle : sz ≤ (c :: raw').length
              · exact hle
              · exfalso
                have hmem : (0x22 : UInt8) ∈ (c :: (raw' ++ [0x22])).take sz := by
                  have e : c :: (raw' ++ [0x22]) = (c :: raw') ++ [0x22] := by simp
                  rw [e, List.take_append]
                  have : sz - (c :: raw').length ≥ 1 := by omega
                  apply List.mem_append_right
                  obtain ⟨j, hj⟩ : ∃ j, sz - (c :: raw').length = j + 1 := ⟨sz - (c :: raw').length - 1, by omega⟩
                  rw [hj]; simp
                have := m4 _ hmem
                simp at this
            have e : c :: (raw' ++ [0x22]) = (c :: raw') ++ [0x22] := by simp
            have htake : (c :: (raw' ++ [0x22])).take sz = (c :: raw').take sz := by
              rw [e, List.take_append_of_le_length hin]
            have hdrop : (c :: (raw' ++ [0x22])).drop sz = (c :: raw').drop sz ++ [0x22] := by
              rw [e, List.drop_append_of_le_length hin]
            have hdec : Utf8.decodeRune (c :: raw') = (r, sz) := by
              have := m5 ((c :: raw').drop sz)
              rw [htake, List.take_append_drop] at this
              rw [Utf8.decodeRune_mb c raw' hc80, this]; rfl
            rw [htake, hdrop] at h
            obtain ⟨k1, k2⟩ := ih _ _ s h
            refine ⟨fun g hg => ?_, fun k => ?_⟩
            · obtain ⟨g', rfl⟩ : ∃ g', g = g' + 1 := ⟨g - 1, by simp at hg; omega⟩
              rw [unquoteLoop_mb g' c raw' acc e1 e2 hasc, hdec]
              exact k1 g' (by simp only [List.length_drop]; simp only [List.length_cons] at hg ⊢; omega)
            · rw [scan_skip sz (c :: raw') k hin]
              · exact k2 _
              · intro x hx
                have := m4 x (by rw [htake]; exact hx)
                constructor
                · cases hxx : x == 0x22 with
                  | false => rfl
                  | true => have : x = 0x22 := by simpa using hxx
                            subst this; simp at this
                · cases hxx : x == 0x5c with
                  | false => rfl
                  | true => have : x = 0x5c := by simpa using hxx
                            subst this; simp at this

/-! ## the specification of a string token's value, and the parser against it -/

/-- SPECIFICATION: the value of the string token `"` raw `"` is what the reference lexer
`Cst.lexString` (started behind the opening quote, with the fuel `Cst.lex` gives it) returns
when it accepts the token and stops exactly at its end -/
def strVal (raw : Bytes) : Option Bytes :=
  match Cst.lexString (raw.length + 1) (raw ++ [0x22]) [] with
  | .ok (s, []) => some s
  | _ => none

/-- STRINGS AND KEYS: for every token the reference lexer accepts, the body contains no
unescaped quote (so the parser finds the same closing quote) and the parser's `unquote`
delivers exactly the reference value -/
theorem strVal_unquote (raw s : Bytes) (h : strVal raw = some s) :
    unquote raw = .ok s ∧ scanString raw false 0 = (none, false) := by
  unfold strVal at h
  cases hl : Cst.lexString (raw.length + 1) (raw ++ [0x22]) [] with
  | error e => rw [hl] at h; simp at h
  | ok pr =>
    obtain ⟨s', rest⟩ := pr
    rw [hl] at h
    cases rest with
    | cons _ _ => simp at h
    | nil =>
      simp only [Option.some.injEq] at h
      subst h
      obtain ⟨k1, k2⟩ := lex_unquote _ raw [] s' hl
      exact ⟨by rw [unquote_eq_loop]; exact k1 _ (by omega), k2 0⟩

/-- (for the examples: `Except` has no decidable equality) -/
def unqIs (raw : Bytes) (r : Err ⊕ Bytes) : Bool :=
  match unquote raw, r with
  | .ok t, .inr s => t == s
  | .error e, .inl e' => e == e'
  | _, _ => false

/-- what the tokens denote on which the mirror and the reference lexer do NOT agree: the
reference lexer refuses them (`strVal = none`), the mirror accepts `\'` and passes bytes that
are not well-formed UTF-8 through unchanged; a lone surrogate is U+FFFD for both; an unknown
escape, a short `\u`, a raw control character are errors for both -/
example :
    strVal [0x5c, 0x27] = none ∧ unqIs [0x5c, 0x27] (.inr [0x27]) = true ∧
    strVal [0xff] = none ∧ unqIs [0xff] (.inr [0xff]) = true ∧
    strVal [0xc3] = none ∧ unqIs [0xc3] (.inr [0xc3]) = true ∧
    strVal [0x5c, 0x75, 0x64, 0x38, 0x30, 0x30] = some [0xef, 0xbf, 0xbd] ∧
    unqIs [0x5c, 0x75, 0x64, 0x38, 0x30, 0x30] (.inr [0xef, 0xbf, 0xbd]) = true ∧
    strVal [0x5c, 0x75, 0x64, 0x63, 0x30, 0x30, 0x41] = some [0xef, 0xbf, 0xbd, 0x41] ∧
    strVal [0x5c, 0x78] = none ∧ unqIs [0x5c, 0x78] (.inl .unquoteUnknownEscape) = true ∧
    strVal [0x5c, 0x75, 0x31, 0x32] = none ∧ unqIs [0x5c, 0x75, 0x31, 0x32] (.inl .unquoteInvalidUnicode) = true ∧
    strVal [0x0a] = none ∧ unqIs [0x0a] (.inl .unquoteInvalidChar) = true := by
  decide +kernel

/-- non-vacuity: `a\né😀é/` (escapes, a BMP escape, a surrogate pair, raw UTF-8) -/
example :
    strVal [0x61, 0x5c, 0x6e, 0x5c, 0x75, 0x30, 0x30, 0x65, 0x39, 0x5c, 0x75, 0x64, 0x38, 0x33, 0x64, 0x5c, 0x75,
        0x64, 0x65, 0x30, 0x30, 0xc3, 0xa9, 0x5c, 0x2f] =
      some [0x61, 0x0a, 0xc3, 0xa9, 0xf0, 0x9f, 0x98, 0x80, 0xc3, 0xa9, 0x2f] := by
  decide +kernel

end SF.Json.ParseP
