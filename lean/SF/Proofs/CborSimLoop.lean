/-
  Lifting the one-step simulation (SF/Proofs/CborSimStep2.lean) through the loops of the
  parser: `feedUntil`, `feed`, `write`, `writeChunks`, `parse`.
  Results: the fuel handed out by the model always suffices (no hang), and whatever was
  consumed without error is a sequence of complete well-formed items followed by the bytes
  of the context the parser is left in.
-/
import SF.Proofs.CborSimStep2
import SF.Proofs.CborNoFuelErr
set_option linter.unusedSimpArgs false
namespace SF.Cbor.Sim
open SF SF.Cbor SF.Cbor.Cst SF.Cbor.Parse SF.Props.C03

theorem rel_pending {p : P} {c : Ctx} (hr : Rel p c) : startPending p = c.pending := by
  obtain ⟨fs, top⟩ := c
  have hst := hr.st
  cases top with
  | val =>
    cases fs with
    | nil =>
      simp only [Ctx.sts, Top.sts, contsSts, List.nil_append] at hst
      simp +decide [startPending, (List.cons.inj hst).1, Ctx.pending, Top.pending]
    | cons f fs =>
      cases f <;>
      · simp only [Ctx.sts, Top.sts, contsSts, Cont.st, List.nil_append] at hst
        simp +decide [startPending, (List.cons.inj hst).1, Ctx.pending, Top.pending]
  | key m kt =>
    cases kt <;> cases m <;>
    · simp only [Ctx.sts, Top.sts, KeyTop.sts, MapK.st, List.nil_append, List.cons_append] at hst
      simp +decide [startPending, (List.cons.inj hst).1, Ctx.pending, Top.pending]
  | arg k w got =>
    cases k <;>
    · simp only [Ctx.sts, Top.sts, ArgK.sts, List.cons_append] at hst
      simp +decide [startPending, (List.cons.inj hst).1, Ctx.pending, Top.pending]
  | startStr isText w n =>
    cases isText <;>
    · simp only [Ctx.sts, Top.sts, List.cons_append] at hst
      simp +decide [startPending, (List.cons.inj hst).1, Ctx.pending, Top.pending]
  | str isText w n got started =>
    cases isText <;>
    · simp only [Ctx.sts, Top.sts, List.cons_append] at hst
      simp +decide [startPending, (List.cons.inj hst).1, Ctx.pending, Top.pending]
  | _ =>
    simp only [Ctx.sts, Top.sts, List.cons_append] at hst
    simp +decide [startPending, (List.cons.inj hst).1, Ctx.pending, Top.pending]

theorem contParse_eq (r : R) : contParse r = (r.rest.length != 0 || startPending r.p) := rfl

/-- the context an outcome leaves the parser in -/
def Out.ctx : Out → Ctx
  | .done _ => idleCtx
  | .cont c => c

theorem rout_rel {r : R} {o : Out} (h : ROut r o) : Rel r.p o.ctx := by
  cases o with
  | done t => exact h.2
  | cont c => exact h.2

/-! ## feedUntil -/

/-- result of `feedUntil` (the loop of `Write`/`Parse`/`Decoder.Next`) from a state described
by the context `c`: an error, or a prefix `used` of the input was consumed and
  * a complete well-formed item was recognised (`done`), whose wire form is `c.wire ++ used`, or
  * ALL input was consumed and the parser waits — not start-pending — in a context that
    accounts for `c.wire ++ used`. -/
def FeedOK (c : Ctx) (b : Bytes) (r : R) : Prop :=
  ∃ used o, b = used ++ r.rest ∧ ROut r o ∧ GoodOut (c.wire ++ used) o ∧
    (match o with
     | .done _ => True
     | .cont c' => r.rest = [] ∧ c'.pending = false) ∧
    (c.pending = false → used ≠ [])

theorem feedUntil_sim (f : Nat) (c : Ctx) (hv : c.Valid) (p : P) (hr : Rel p c) (b : Bytes)
    (hb : b ≠ [] ∨ c.pending = true) :
    (feedUntil f p b).err ≠ none ∨ FeedOK c b (feedUntil f p b) := by
  induction f generalizing c p b with
  | zero => left; simp [feedUntil]
  | succ f ih =>
    rw [feedUntil_succ]
    rcases step_sim c hv p hr b hb with he | ⟨used, o, hb1, hro, hgo, hm⟩
    · left
      have : (execStep p b).err.isSome = true := by
        cases h : (execStep p b).err with
        | none => exact absurd h he
        | some e => rfl
      simp only [loopFrom, this, Bool.or_true, if_true]
      exact he
    · by_cases he : (execStep p b).err = none
      · cases o with
        | done t =>
          right
          rw [loopFrom_done _ _ hro.1]
          refine ⟨used, .done t, hb1, hro, hgo, trivial, ?_⟩
          intro hp
          rcases hm with hm | ⟨hm, _⟩
          · exact hm
          · rw [hp] at hm; cases hm
        | cont c' =>
          obtain ⟨hd, hrel⟩ := hro
          by_cases hc : contParse (execStep p b) = true
          · rw [loopFrom_cont _ _ hd he hc]
            have hb' : (execStep p b).rest ≠ [] ∨ c'.pending = true := by
              rw [contParse_eq, rel_pending hrel] at hc
              simp only [Bool.or_eq_true, bne_iff_ne, ne_eq, List.length_eq_zero_iff] at hc
              exact hc
            rcases ih c' hgo.1 _ hrel _ hb' with h | ⟨used2, o2, h1, h2, h3, h4, h5⟩
            · exact Or.inl h
            · right
              refine ⟨used ++ used2, o2, ?_, h2, ?_, h4, ?_⟩
              · rw [List.append_assoc, ← h1]; exact hb1
              · rw [← List.append_assoc, ← hgo.2]; exact h3
              · intro hp
                rcases hm with hm | ⟨hm, _⟩
                · simp [hm]
                · rw [hp] at hm; cases hm
          · right
            have hc' : contParse (execStep p b) = false := by simpa using hc
            have hl : loopFrom f (execStep p b) = execStep p b := by
              simp [loopFrom, hd, he, hc']
            rw [hl]
            rw [contParse_eq, rel_pending hrel] at hc'
            simp only [Bool.or_eq_false_iff, bne_eq_false_iff_eq, List.length_eq_zero_iff] at hc'
            refine ⟨used, .cont c', hb1, ⟨hd, hrel⟩, hgo, ⟨hc'.1, hc'.2⟩, ?_⟩
            intro hp
            rcases hm with hm | ⟨hm, _⟩
            · exact hm
            · rw [hp] at hm; cases hm
      · left
        have : (execStep p b).err.isSome = true := by
          cases h : (execStep p b).err with
          | none => exact absurd h he
          | some e => rfl
        simp only [loopFrom, this, Bool.or_true, if_true]
        exact he

/-- NO HANG, inner loop: `2·|b| + 2` iterations always suffice -/
theorem feedUntil_fuel (f : Nat) (c : Ctx) (hv : c.Valid) (p : P) (hr : Rel p c)
    (herr : p.err ≠ some .outOfFuel) (b : Bytes) (hb : b ≠ [] ∨ c.pending = true)
    (hf : 2 * b.length + (if c.pending then 1 else 0) + 1 ≤ f) :
    (feedUntil f p b).err ≠ some .outOfFuel := by
  induction f generalizing c p b with
  | zero => omega
  | succ f ih =>
    rw [feedUntil_succ]
    have hoof := NF.execStep_no_oof p b (by rw [rel_pending hr]; exact hb) herr
    by_cases hstop : ((execStep p b).done || (execStep p b).err.isSome) = true
    · simp only [loopFrom, hstop, if_true]; exact hoof
    · by_cases hc : contParse (execStep p b) = true
      · have hd : (execStep p b).done = false := by
          cases h : (execStep p b).done <;> simp_all
        have he : (execStep p b).err = none := by
          cases h : (execStep p b).err <;> simp_all
        rw [loopFrom_cont _ _ hd he hc]
        rcases step_sim c hv p hr b hb with he' | ⟨used, o, hb1, hro, hgo, hm⟩
        · exact absurd he he'
        · cases o with
          | done t => rw [hro.1] at hd; cases hd
          | cont c' =>
            obtain ⟨_, hrel⟩ := hro
            have hb' : (execStep p b).rest ≠ [] ∨ c'.pending = true := by
              rw [contParse_eq, rel_pending hrel] at hc
              simp only [Bool.or_eq_true, bne_iff_ne, ne_eq, List.length_eq_zero_iff] at hc
              exact hc
            refine ih c' hgo.1 _ hrel (by rw [execStep_errf]; exact herr) _ hb' ?_
            have hlen : b.length = used.length + (execStep p b).rest.length := by
              conv => lhs; rw [hb1]
              simp
            rcases hm with hm | ⟨hm1, hm2⟩
            · have : 0 < used.length := List.length_pos_iff.mpr hm
              split <;> split at hf <;> omega
            · simp only [Out.pending] at hm2
              simp only [hm1, hm2, if_true] at hf ⊢
              simp; omega
      · have : loopFrom f (execStep p b) = execStep p b := by
          simp only [loopFrom, hstop, Bool.false_eq_true, if_false]
          simp [hc]
        rw [this]; exact hoof


/-! ## feed (the loop of `Write`) -/

/-- the parser state `p` is described by the well-formed context `c` and is not
start-pending: the situation between two `Write` calls -/
structure Quiet (p : P) (c : Ctx) : Prop where
  valid : c.Valid
  rel : Rel p c
  np : c.pending = false

theorem quiet_init : Quiet {} idleCtx := ⟨idle_valid, ⟨rfl, rfl, rfl⟩, rfl⟩

theorem feed_sim (fuel : Nat) (c : Ctx) (p : P) (hq : Quiet p c) (b : Bytes) :
    (feed fuel p b).2 ≠ none ∨
    ∃ its c', okwList its = true ∧ Quiet (feed fuel p b).1 c' ∧ c.wire ++ b = wireList its ++ c'.wire := by
  induction fuel generalizing c p b with
  | zero => left; simp [feed]
  | succ fuel ih =>
    cases b with
    | nil =>
      right
      exact ⟨[], c, rfl, by simpa [feed] using hq, by simp [wireList]⟩
    | cons b0 bs =>
      have hne : ((b0 :: bs).length == 0) = false := by simp
      simp only [feed, hne, Bool.false_eq_true, if_false]
      rcases feedUntil_sim (fuelFor (b0 :: bs)) c hq.valid p hq.rel (b0 :: bs) (Or.inl (by simp)) with
        he | ⟨used, o, h1, hro, hgo, hmatch, hu⟩
      · left
        cases h : (feedUntil (fuelFor (b0 :: bs)) p (b0 :: bs)).err with
        | none => exact absurd h he
        | some e => simp
      · cases h : (feedUntil (fuelFor (b0 :: bs)) p (b0 :: bs)).err with
        | some e => left; simp
        | none =>
          simp only []
          cases o with
          | done t =>
            rcases ih idleCtx _ ⟨idle_valid, hro.2, rfl⟩ (feedUntil (fuelFor (b0 :: bs)) p (b0 :: bs)).rest with
              h' | ⟨its, c', h2, h3, h4⟩
            · exact Or.inl h'
            · right
              refine ⟨t :: its, c', by simp [okwList, hgo.1, h2], h3, ?_⟩
              have hw : idleCtx.wire = [] := rfl
              rw [hw, List.nil_append] at h4
              rw [h1, ← List.append_assoc, ← hgo.2, h4]
              simp [wireList]
          | cont c1 =>
            rcases ih c1 _ ⟨hgo.1, hro.2, hmatch.2⟩ (feedUntil (fuelFor (b0 :: bs)) p (b0 :: bs)).rest with
              h' | ⟨its, c', h2, h3, h4⟩
            · exact Or.inl h'
            · right
              refine ⟨its, c', h2, h3, ?_⟩
              rw [h1, ← List.append_assoc, ← hgo.2, h4]

/-- NO HANG, outer loop: `|b| + 1` rounds always suffice -/
theorem feed_fuel (fuel : Nat) (c : Ctx) (p : P) (hq : Quiet p c) (herr : p.err ≠ some .outOfFuel)
    (b : Bytes) (hf : b.length + 1 ≤ fuel) : (feed fuel p b).2 ≠ some .outOfFuel := by
  induction fuel generalizing c p b with
  | zero => omega
  | succ fuel ih =>
    cases b with
    | nil => simp [feed]
    | cons b0 bs =>
      have hne : ((b0 :: bs).length == 0) = false := by simp
      simp only [feed, hne, Bool.false_eq_true, if_false]
      have hoof := feedUntil_fuel (fuelFor (b0 :: bs)) c hq.valid p hq.rel herr (b0 :: bs) (Or.inl (by simp))
        (by simp only [hq.np, fuelFor]; simp; omega)
      cases h : (feedUntil (fuelFor (b0 :: bs)) p (b0 :: bs)).err with
      | some e => simp only []; rw [h] at hoof; exact hoof
      | none =>
        simp only []
        rcases feedUntil_sim (fuelFor (b0 :: bs)) c hq.valid p hq.rel (b0 :: bs) (Or.inl (by simp)) with
          he | ⟨used, o, h1, hro, hgo, hmatch, hu⟩
        · exact absurd h he
        · have hlen : (b0 :: bs).length = used.length +
              (feedUntil (fuelFor (b0 :: bs)) p (b0 :: bs)).rest.length := by
            conv => lhs; rw [h1]
            simp
          have hpos : 0 < used.length := List.length_pos_iff.mpr (hu hq.np)
          have herr' : (feedUntil (fuelFor (b0 :: bs)) p (b0 :: bs)).p.err ≠ some .outOfFuel := by
            rw [feedUntil_no_panic_errf]; exact herr
          cases o with
          | done t => exact ih idleCtx _ ⟨idle_valid, hro.2, rfl⟩ herr' _ (by omega)
          | cont c1 => exact ih c1 _ ⟨hgo.1, hro.2, hmatch.2⟩ herr' _ (by omega)

/-! ## finalize, write, parse, writeChunks -/

theorem finalize_idle {p : P} {c : Ctx} (hr : Rel p c) (h : finalize p = none) : c.wire = [] := by
  obtain ⟨fs, top⟩ := c
  have hst := hr.st
  have hstack : p.state.stack = [] := by
    simp only [finalize] at h
    split at h
    · rename_i hi
      simp only [Bool.and_eq_true, beq_iff_eq, List.length_eq_zero_iff] at hi
      exact hi.1.1
    · cases h
  rw [hstack] at hst
  have hlen := congrArg List.length hst
  simp only [Ctx.sts, List.length_cons, List.length_nil, List.length_append, contsSts_length] at hlen
  have hfs : fs = [] := by
    cases fs with
    | nil => rfl
    | cons f fs => simp at hlen; omega
  subst hfs
  cases top with
  | val => rfl
  | arg k w got => cases k <;> simp [Top.sts, ArgK.sts] at hlen
  | key m kt => simp [Top.sts] at hlen
  | _ => simp [Top.sts] at hlen

theorem finalize_ne_oof (p : P) : finalize p ≠ some .outOfFuel := by
  simp only [finalize]; split <;> simp

theorem quiet_setErr {p : P} {c : Ctx} (h : Quiet p c) (e : Option Err) : Quiet { p with err := e } c :=
  ⟨h.valid, ⟨h.rel.st, h.rel.ln, h.rel.buf⟩, h.np⟩

/-- everything `Parse` accepts from a quiet state is a sequence of complete items -/
theorem parse_sim (c : Ctx) (p : P) (hq : Quiet p c) (b : Bytes) (h : (parse p b).2 = none) :
    ∃ its, okwList its = true ∧ c.wire ++ b = wireList its := by
  simp only [parse, feedAll] at h
  rcases feed_sim (2 * b.length + 2) c p hq b with he | ⟨its, c', h1, h2, h3⟩
  · rcases hf : feed (2 * b.length + 2) p b with ⟨q, _ | e⟩
    · rw [hf] at he; exact absurd rfl he
    · rw [hf] at h; cases h
  · rcases hf : feed (2 * b.length + 2) p b with ⟨q, _ | e⟩
    · rw [hf] at h h2
      simp only [] at h h2
      refine ⟨its, h1, ?_⟩
      rw [h3, finalize_idle h2.rel h]; simp
    · rw [hf] at h; cases h

theorem parse_fuel (c : Ctx) (p : P) (hq : Quiet p c) (herr : p.err ≠ some .outOfFuel) (b : Bytes) :
    (parse p b).2 ≠ some .outOfFuel := by
  have := feed_fuel (2 * b.length + 2) c p hq herr b (by omega)
  simp only [parse, feedAll]
  rcases hf : feed (2 * b.length + 2) p b with ⟨q, _ | e⟩
  · simp only []; exact finalize_ne_oof q
  · rw [hf] at this; simpa using this

theorem writeChunks_sim (cs : List Bytes) (c : Ctx) (p : P) (hq : Quiet p c)
    (h : (writeChunks p cs).2 = none) :
    ∃ its, okwList its = true ∧ c.wire ++ cs.flatten = wireList its := by
  induction cs generalizing c p with
  | nil =>
    simp only [writeChunks] at h
    exact ⟨[], rfl, by rw [finalize_idle hq.rel h]; simp [wireList]⟩
  | cons ch cs ih =>
    simp only [writeChunks, write, feedAll] at h
    rcases feed_sim (2 * ch.length + 2) c p hq ch with he | ⟨its, c', h1, h2, h3⟩
    · rcases hf : feed (2 * ch.length + 2) p ch with ⟨q, _ | e⟩
      · rw [hf] at he; exact absurd rfl he
      · rw [hf] at h; cases h
    · rcases hf : feed (2 * ch.length + 2) p ch with ⟨q, _ | e⟩
      · rw [hf] at h h2
        simp only [] at h h2
        obtain ⟨its2, h4, h5⟩ := ih c' _ (quiet_setErr h2 none) h
        refine ⟨its ++ its2, by simp [okwList_append, h1, h4], ?_⟩
        rw [List.flatten_cons, ← List.append_assoc, h3, List.append_assoc, h5, wireList_append]
      · rw [hf] at h; cases h

theorem writeChunks_fuel (cs : List Bytes) (c : Ctx) (p : P) (hq : Quiet p c)
    (herr : p.err ≠ some .outOfFuel) : (writeChunks p cs).2 ≠ some .outOfFuel := by
  induction cs generalizing c p with
  | nil => simp only [writeChunks]; exact finalize_ne_oof p
  | cons ch cs ih =>
    simp only [writeChunks, write, feedAll]
    have hoof := feed_fuel (2 * ch.length + 2) c p hq herr ch (by omega)
    rcases feed_sim (2 * ch.length + 2) c p hq ch with he | ⟨its, c', h1, h2, h3⟩
    · rcases hf : feed (2 * ch.length + 2) p ch with ⟨q, _ | e⟩
      · rw [hf] at he; exact absurd rfl he
      · rw [hf] at hoof; simpa using hoof
    · rcases hf : feed (2 * ch.length + 2) p ch with ⟨q, _ | e⟩
      · rw [hf] at h2
        simp only [] at h2 ⊢
        exact ih c' _ (quiet_setErr h2 none) (by simp)
      · rw [hf] at hoof; simpa using hoof

end SF.Cbor.Sim
