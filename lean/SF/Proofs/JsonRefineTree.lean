/-
  C04 for the JSON parser mirror: every grammatical JSON text whose tokens denote is read
  without error, delivering exactly its events — by induction over the grammar
  (SF/Proofs/JsonGrammar.lean), for arbitrary nesting and white space.
-/
import SF.Proofs.JsonRefineStep
set_option linter.unusedSimpArgs false
namespace SF.Json.ParseP
open SF SF.Json SF.Json.Parse SF.Json.Float SF.Json.Grammar ETree

/-- a value, read from any state that reads a value -/
def JReads (v : J) : Prop :=
  ∀ p r S, ReadyN p r S → Reads p v.wire v.events (fun q => AtN q r S) (follow v)

/-- the rest `w` of a container, read in state `c` inside it, delivering `es` -/
def InReads (c : St) (w : Bytes) (es : List Ev) : Prop :=
  ∀ p r S, AtN p c (r :: S) → PushOk S r → Reads p w es (fun q => AtN q r S) anyF

/-- a value inside a container, white space, the rest of the container -/
theorem elem_reads (cv ca : St) (hv : (cv = .arrStateValue ∧ ca = .arrStateNext) ∨
      (cv = .dictFieldValue ∧ ca = .dictFieldStateEnd))
    (e : J) (he : JReads e) (ws w : Bytes) (es : List Ev) (hws : allWs ws = true) (hw : InReads ca w es)
    (hstop : stopF w) : InReads cv (e.wire ++ (ws ++ w)) (e.events ++ es) := by
  intro p r S hat hpush
  have hready : ReadyN p ca (r :: S) := by
    refine ⟨⟨Or.inr ⟨stackWF_cons hpush, by rcases hv with ⟨_, rfl⟩ | ⟨_, rfl⟩ <;> rfl⟩, ?_⟩, hat.2⟩
    rcases hv with ⟨rfl, rfl⟩ | ⟨rfl, rfl⟩
    · exact Or.inr (Or.inr ⟨hat.1, rfl⟩)
    · exact Or.inr (Or.inl ⟨hat.1, rfl⟩)
  have hca : trims ca = true := by rcases hv with ⟨_, rfl⟩ | ⟨_, rfl⟩ <;> rfl
  refine reads_seq (he p ca (r :: S) hready) (fun p2 h2 => ?_) (fun more _ _ => stopF_append (stopF_ws hws hstop))
  exact reads_ws h2.1.wf.inv (by rw [h2.1.cs]; exact hca) hws (hw p2 r S h2 hpush)

/-- one byte that leads from state `c` to state `c'` without an event, white space, `w` -/
theorem byte_reads (c c' : St) (x : UInt8) (ht : trims c' = true)
    (hl : ∀ p S', AtN p c S' → Reads p [x] [] (fun q => AtN q c' S') anyF)
    (ws w : Bytes) (es : List Ev) (hws : allWs ws = true) (hw : InReads c' w es) :
    InReads c ([x] ++ (ws ++ w)) es := by
  intro p r S hat hpush
  have := reads_seq (hl p (r :: S) hat)
    (fun p2 hp2 => reads_ws hp2.1.wf.inv (by rw [hp2.1.cs]; exact ht) hws (hw p2 r S hp2 hpush))
    (fun _ _ => trivial)
  simpa using this

theorem first_elem_reads (e : J) (he : JReads e) (hok : e.ok = true) (ws w : Bytes) (es : List Ev)
    (hws : allWs ws = true) (hw : InReads .arrStateNext w es) (hstop : stopF w) :
    InReads .arrState (e.wire ++ (ws ++ w)) (e.events ++ es) := by
  intro p r S hat hpush
  obtain ⟨x, t, hx, hsp, hrb⟩ := J.wire_first e hok
  have hmv := move_arr hat.1 x hsp hrb
  have hwf1 : WF { p with currentState := .arrStateValue } := by
    obtain ⟨rep, h1⟩ := hmv []
    exact wf_of_step hat.1.wf [x] (by simp) (by rw [h1])
  have hat1 : AtN { p with currentState := .arrStateValue } .arrStateValue (r :: S) := atN_setCs hat hwf1
  have k1 := elem_reads _ _ (Or.inl ⟨rfl, rfl⟩) e he ws w es hws hw hstop _ r S hat1 hpush
  rw [hx, List.cons_append] at k1 ⊢
  exact reads_move hat.1.wf hmv rfl k1

theorem member_reads (c : St) (hc : c = .dictState ∨ c = .dictNextFieldState)
    (key k ws1 ws2 : Bytes) (v : J) (hv : JReads v) (ws3 w : Bytes) (es : List Ev)
    (hkey : strVal key = some k) (h1 : allWs ws1 = true) (h2 : allWs ws2 = true) (h3 : allWs ws3 = true)
    (hw : InReads .dictFieldStateEnd w es) (hstop : stopF w) :
    InReads c (0x22 :: (key ++ 0x22 :: (ws1 ++ 0x3a :: (ws2 ++ (v.wire ++ (ws3 ++ w))))))
      (.key k :: (v.events ++ es)) := by
  intro p r S hat hpush
  have hmv := move_dict hat.1 hc
  have hwf1 : WF { p with currentState := .dictFieldState } := by
    obtain ⟨rep, h1⟩ := hmv []
    exact wf_of_step hat.1.wf [0x22] (by simp) (by rw [h1])
  have hat1 : AtN { p with currentState := .dictFieldState } .dictFieldState (r :: S) := atN_setCs hat hwf1
  have hval : InReads .dictFieldValue (v.wire ++ (ws3 ++ w)) (v.events ++ es) :=
    elem_reads _ _ (Or.inr ⟨rfl, rfl⟩) v hv ws3 w es h3 hw hstop
  have hsep : InReads .dictFieldValueSep ([0x3a] ++ (ws2 ++ (v.wire ++ (ws3 ++ w)))) (v.events ++ es) :=
    byte_reads _ _ 0x3a rfl (fun _ _ h => reads_colon h) ws2 _ _ h2 hval
  have k1 : Reads { p with currentState := .dictFieldState }
      ((0x22 :: (key ++ [0x22])) ++ (ws1 ++ ([0x3a] ++ (ws2 ++ (v.wire ++ (ws3 ++ w))))))
      ([.key k] ++ (v.events ++ es)) (fun q => AtN q r S) anyF :=
    reads_seq (reads_key hat1 key k hkey)
      (fun p2 hp2 => reads_ws hp2.1.wf.inv (by rw [hp2.1.cs]; rfl) h1 (hsep p2 r S hp2 hpush)) (fun _ _ => trivial)
  have e0 : (0x22 :: (key ++ 0x22 :: (ws1 ++ 0x3a :: (ws2 ++ (v.wire ++ (ws3 ++ w))))) : Bytes) =
      (0x22 :: (key ++ [0x22])) ++ (ws1 ++ ([0x3a] ++ (ws2 ++ (v.wire ++ (ws3 ++ w))))) := by simp
  rw [e0]
  rw [List.cons_append] at k1 ⊢
  exact reads_move hat.1.wf hmv rfl k1

mutual
theorem jreads : (v : J) → v.ok = true → v.sem = true → JReads v
  | .lit k, _, _ => by
    intro p r S h
    have := reads_lit h k
    simp only [J.events, J.tree, litTree_events, J.wire]
    exact reads_weaken this
  | .num tok, hok, hs => by
    intro p r S h
    simp only [J.sem] at hs
    obtain ⟨ev, hev⟩ := Option.isSome_iff_exists.mp hs
    have := reads_num h tok (by simpa [J.ok] using hok) ev hev
    simp only [J.events, J.tree, numTree_events tok ev hev, J.wire]
    exact fun more hm => this more (hm rfl)
  | .str raw, _, hs => by
    intro p r S h
    simp only [J.sem] at hs
    obtain ⟨s, hsv⟩ := Option.isSome_iff_exists.mp hs
    have := reads_str h raw s hsv
    simp only [J.events, J.tree, hsv, Option.getD_some, ETree.events, J.wire]
    exact reads_weaken this
  | .arr ws body, hok, hs => by
    intro p r S h
    simp only [J.ok, Bool.and_eq_true] at hok
    simp only [J.sem] at hs
    have hb := abody_reads body hok.2 hs
    have := reads_seq (reads_lbrack h)
      (fun p1 hp1 => reads_ws hp1.1.wf.inv (by rw [hp1.1.cs]; rfl) hok.1 (hb p1 r S hp1 h.1.1)) (fun _ _ => trivial)
    simp only [J.events, J.tree, ETree.events, J.wire]
    exact reads_weaken (by simpa using this)
  | .obj ws body, hok, hs => by
    intro p r S h
    simp only [J.ok, Bool.and_eq_true] at hok
    simp only [J.sem] at hs
    have hb := obody_reads body hok.2 hs
    have := reads_seq (reads_lbrace h)
      (fun p1 hp1 => reads_ws hp1.1.wf.inv (by rw [hp1.1.cs]; rfl) hok.1 (hb p1 r S hp1 h.1.1)) (fun _ _ => trivial)
    simp only [J.events, J.tree, ETree.events, J.wire]
    exact reads_weaken (by simpa using this)
theorem abody_reads : (b : ABody) → b.ok = true → b.sem = true →
    InReads .arrState b.wire (eventsList b.trees ++ [.arrEnd])
  | .close, _, _ => fun _ _ _ hat _ => reads_rbrack hat (Or.inl rfl)
  | .elems e ws tl, hok, hs => by
    simp only [ABody.ok, Bool.and_eq_true] at hok
    simp only [ABody.sem, Bool.and_eq_true] at hs
    have := first_elem_reads e (jreads e hok.1.1 hs.1) hok.1.1 ws tl.wire _ hok.1.2 (atail_reads tl hok.2 hs.2)
      (ATail.wire_stop tl)
    simpa [ABody.wire, ABody.trees, eventsList, J.events] using this
theorem atail_reads : (t : ATail) → t.ok = true → t.sem = true →
    InReads .arrStateNext t.wire (eventsList t.trees ++ [.arrEnd])
  | .close, _, _ => fun _ _ _ hat _ => reads_rbrack hat (Or.inr rfl)
  | .more ws1 e ws2 tl, hok, hs => by
    simp only [ATail.ok, Bool.and_eq_true] at hok
    simp only [ATail.sem, Bool.and_eq_true] at hs
    have h1 := elem_reads _ _ (Or.inl ⟨rfl, rfl⟩) e (jreads e hok.1.1.2 hs.1) ws2 tl.wire _ hok.1.2
      (atail_reads tl hok.2 hs.2) (ATail.wire_stop tl)
    have := byte_reads .arrStateNext .arrStateValue 0x2c rfl (fun _ _ hat => reads_comma_arr hat) ws1 _ _
      hok.1.1.1 h1
    simpa [ATail.wire, ATail.trees, eventsList, J.events] using this
theorem obody_reads : (b : OBody) → b.ok = true → b.sem = true →
    InReads .dictState b.wire (eventsMems b.members ++ [.objEnd])
  | .close, _, _ => fun _ _ _ hat _ => reads_rbrace hat (Or.inl rfl)
  | .mems key ws1 ws2 v ws3 tl, hok, hs => by
    simp only [OBody.ok, Bool.and_eq_true] at hok
    simp only [OBody.sem, Bool.and_eq_true] at hs
    obtain ⟨⟨⟨⟨⟨_, h2⟩, h3⟩, h4⟩, h5⟩, h6⟩ := hok
    obtain ⟨k, hk⟩ := Option.isSome_iff_exists.mp hs.1.1
    have := member_reads _ (Or.inl rfl) key k ws1 ws2 v (jreads v h4 hs.1.2) ws3 tl.wire _ hk h2 h3 h5
      (otail_reads tl h6 hs.2) (OTail.wire_stop tl)
    simpa [OBody.wire, OBody.members, eventsMems, J.events, hk] using this
theorem otail_reads : (t : OTail) → t.ok = true → t.sem = true →
    InReads .dictFieldStateEnd t.wire (eventsMems t.members ++ [.objEnd])
  | .close, _, _ => fun _ _ _ hat _ => reads_rbrace hat (Or.inr rfl)
  | .more ws0 key ws1 ws2 v ws3 tl, hok, hs => by
    simp only [OTail.ok, Bool.and_eq_true] at hok
    simp only [OTail.sem, Bool.and_eq_true] at hs
    obtain ⟨⟨⟨⟨⟨⟨h0, _⟩, h2⟩, h3⟩, h4⟩, h5⟩, h6⟩ := hok
    obtain ⟨k, hk⟩ := Option.isSome_iff_exists.mp hs.1.1
    have hm := member_reads _ (Or.inr rfl) key k ws1 ws2 v (jreads v h4 hs.1.2) ws3 tl.wire _ hk h2 h3 h5
      (otail_reads tl h6 hs.2) (OTail.wire_stop tl)
    have := byte_reads .dictFieldStateEnd .dictNextFieldState 0x2c rfl (fun _ _ hat => reads_comma_obj hat) ws0 _ _
      h0 hm
    simpa [OTail.wire, OTail.members, eventsMems, J.events, hk] using this
end

end SF.Json.ParseP
