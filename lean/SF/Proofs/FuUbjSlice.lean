/-
  C11, UBJSON path, STAGE 2: Fold's ONE typed-array event for `[]T` → how the UBJSON encoder writes
  it (empty: `[]`; `[]bool`: a counted array `[#n` of T / F; everything else a TYPED container
  `[$t#n payloads` — for the unsigned kinds wider than a byte with the narrowest marker that holds
  ALL elements) → what the parser reports → the Unfolder.
-/
import SF.Proofs.FuUbjRun
set_option linter.unusedSimpArgs false
namespace SF.FuUbj
open SF SF.Gotype SF.Gotype.Fold SF.FoldProofs SF.FuId SF.FuCbor
open SF.Ubjson SF.Ubjson.Wire SF.Ubjson.Bridge SF.Ubjson.Syn
open SF.Ubjson.Enc (isLeaf leafTree leafItem toItem toItems numItem minM utOf utItem UT minUT elemType elemItem
  typedArr xItem xTree strItem)
open SF.Cbor.Enc (small smallList)
open SF.Unf (Sc UEv PK convList Ctx newUnfolder setTarget typeFuel)
open SF.Ops.Unf (evToUEv)
open SF.Ops.Fu (feed)

/-! ## events of typed / counted arrays of scalars -/

theorem evList_map {α : Type} (item : α → UItem) (g : α → Sc) : ∀ ys : List α,
    (∀ y ∈ ys, (toSyn (item y)).events = [scEv (g y)]) →
    evList (toSynList (ys.map item)) = (ys.map g).map scEv
  | [], _ => rfl
  | y :: r, h => by
    simp only [List.map_cons, toSynList, evList, h y List.mem_cons_self,
      evList_map item g r (fun z hz => h z (List.mem_cons_of_mem _ hz)), List.cons_append, List.nil_append]

theorem typedArr_events {α : Type} (t : UInt8) (item : α → UItem) (g : α → Sc) (ys : List α)
    (h : ∀ y ∈ ys, (toSyn (item y)).events = [scEv (g y)]) :
    (toSyn (typedArr t (ys.map item))).events =
      if ys.isEmpty then [.arrStart (-1) BT.any, .arrEnd]
      else .arrStart ys.length (markerToBaseType t) :: (ys.map g).map scEv ++ [.arrEnd] := by
  cases ys with
  | nil => rfl
  | cons y r =>
    have hne : ((y :: r).length == 0) = false := by simp
    simp only [typedArr, List.length_map, hne, Bool.false_eq_true, if_false, toSyn, Item.events, toSynList_length,
      evList_map item g (y :: r) h, List.isEmpty_cons]
    rfl

/-- the kind of the elements of a numeric typed container: the kind's own marker, `int` as int64,
`OnBytes` as uint8; the unsigned kinds wider than a byte under the marker `T` found for all -/
def ubjElemKind (k : NumKind) (T : UT) : NumKind :=
  match k with
  | .i8 => .i8 | .i16 => .i16 | .i32 => .i32 | .i64 => .i64 | .int => .i64 | .byte => .u8 | .u8 => .u8
  | _ => match T with | .i => .i8 | .U => .u8 | .I => .i16 | .l => .i32 | _ => .i64

theorem elemType_bt (k : NumKind) (T : UT) (hT : T ≠ .H) :
    markerToBaseType (elemType k T) = (ubjElemKind k T).baseType := by
  cases k <;> cases T <;> first | exact absurd rfl hT | decide

theorem elemItem_events (k : NumKind) (T : UT) (hT : T ≠ .H) (v : Int) (h : k.inRange v = true) :
    (toSyn (elemItem k T v)).events = [.num (ubjElemKind k T) v] := by
  have hlo := (Enc.inRange_bounds k v h).1
  have e : ∀ (h0 : 0 ≤ v), ((v.toNat : Nat) : Int) = v := fun h0 => by omega
  cases k <;> simp only [NumKind.lo] at hlo <;> first
    | rfl
    | (cases T <;> first
        | exact absurd rfl hT
        | (simp only [elemItem, utItem, toSyn, Item.events, ubjElemKind, e hlo]; rfl))

theorem elemKind_inRange (k : NumKind) (T : UT) (hT : T ≠ .H) (v : Int) (h : k.inRange v = true)
    (hr : (utOf v.toNat).rank ≤ T.rank) : (ubjElemKind k T).inRange v = true := by
  have hok := toSyn_ok _ (Enc.elemItem_ok k T v h hr)
  have hev := elemItem_events k T hT v h
  generalize toSyn (elemItem k T v) = it at hok hev
  cases it with
  | int ikk w =>
    simp only [Item.events, List.cons.injEq, and_true, Ev.num.injEq] at hev
    rw [← hev.1, ← hev.2]; exact hok
  | char c =>
    have hne : ubjElemKind k T ≠ .byte := by cases k <;> cases T <;> simp [ubjElemKind]
    simp only [Item.events, List.cons.injEq, and_true, Ev.num.injEq] at hev
    exact absurd hev.1.symm hne
  | _ => simp [Item.events] at hev

/-! ## the typed-array event of a slice of scalars -/

/-- the marker found for all elements -/
def utOfElems (xs : List GoVal) : UT := minUT (xs.map getI)

/-- an element as the parser reports it -/
def ubjElem (p : Prim) (xs : List GoVal) (x : GoVal) : Sc :=
  match p with
  | .num k => .num (ubjElemKind (elemKind true k) (utOfElems xs)) (getI x)
  | p => scOfElem true p x

/-- the element type the parser announces (`any` for the counted array of `[]bool`) -/
def ubjBT (p : Prim) (xs : List GoVal) : Nat :=
  match p with
  | .bool => BT.any | .string => BT.string | .f32 => BT.float32 | .f64 => BT.float64
  | .num k => (ubjElemKind (elemKind true k) (utOfElems xs)).baseType

/-- the events the parser delivers for the slice -/
def sliceEvents (p : Prim) (xs : List GoVal) : List Ev :=
  if xs.isEmpty then [.arrStart (-1) BT.any, .arrEnd]
  else .arrStart xs.length (ubjBT p xs) :: (xs.map (ubjElem p xs)).map scEv ++ [.arrEnd]

theorem utOfElems_ne_H (xs : List GoVal) (hf : ∀ x ∈ xs, fitsV x = true) (hi : ∀ x ∈ xs, ∃ n, x = .int n) :
    utOfElems xs ≠ .H := by
  intro hH
  obtain ⟨v, hv, hbig⟩ := Enc.minUT_H _ hH
  obtain ⟨x, hx, rfl⟩ := List.mem_map.mp hv
  obtain ⟨n, rfl⟩ := hi x hx
  have := hf _ hx
  simp only [fitsV, decide_eq_true_eq] at this
  simp only [getI] at hbig
  omega

theorem toItems_map_bool : ∀ bs : List Bool, toSynElems (toItems (bs.map ETree.bool)) =
    bs.map fun b => (0, if b then Item.tru else Item.fals)
  | [] => rfl
  | b :: r => by
    simp only [List.map_cons, toItems, toSynElems, toItems_map_bool r, toItem]
    cases b <;> rfl

theorem evElems_bools : ∀ bs : List Bool, evElems (bs.map fun b => (0, if b then Item.tru else Item.fals)) =
    (bs.map Sc.bool).map scEv
  | [] => rfl
  | b :: r => by
    simp only [List.map_cons, evElems, evElems_bools r]
    cases b <;> rfl

theorem boolArr_events (bs : List Bool) (hn : bs.length < 9223372036854775808) :
    (toSyn (xItem (.boolArr bs))).events =
      if bs.isEmpty then [.arrStart (-1) BT.any, .arrEnd]
      else .arrStart bs.length BT.any :: (bs.map Sc.bool).map scEv ++ [.arrEnd] := by
  cases bs with
  | nil => rfl
  | cons b r =>
    have hpos : ¬ (((b :: r).length : Int) ≤ 0) := by simp only [List.length_cons]; omega
    simp only [xItem, xTree, toItem, hpos, if_false, toSyn, Item.events, toItems_map_bool, evElems_bools,
      List.length_map, List.isEmpty_cons, Bool.false_eq_true]
    rfl

theorem bt_string : markerToBaseType stringMarker = BT.string := by decide
theorem bt_f32 : markerToBaseType float32Marker = BT.float32 := by decide
theorem bt_f64 : markerToBaseType float64Marker = BT.float64 := by decide

theorem hasPrim_int (k : NumKind) (x : GoVal) (h : hasPrim (.num k) x = true) : ∃ n, x = .int n := by
  cases x <;> simp [hasPrim] at h
  exact ⟨_, rfl⟩

/-- THE PARSER'S REPORT for the typed-array event of a slice -/
theorem arrX_events (p : Prim) (xs : List GoVal) (hxs : ∀ x ∈ xs, hasPrim p x = true)
    (hf : ∀ x ∈ xs, fitsV x = true) (hn : xs.length < 9223372036854775808) :
    (toSyn (xItem (arrX true p xs))).events = sliceEvents p xs := by
  cases p with
  | bool =>
    have := boolArr_events (xs.map getB) (by simpa using hn)
    simpa [arrX, sliceEvents, ubjBT, ubjElem, scOfElem, List.map_map, Function.comp_def] using this
  | string =>
    have := typedArr_events stringMarker strItem Sc.str (xs.map getS) (fun _ _ => rfl)
    rw [bt_string] at this
    simpa [arrX, xItem, sliceEvents, ubjBT, ubjElem, scOfElem, List.map_map, Function.comp_def] using this
  | f32 =>
    have := typedArr_events float32Marker UItem.f32 Sc.f32 (xs.map getF32) (fun _ _ => rfl)
    rw [bt_f32] at this
    simpa [arrX, xItem, sliceEvents, ubjBT, ubjElem, scOfElem, List.map_map, Function.comp_def] using this
  | f64 =>
    have := typedArr_events float64Marker UItem.f64 Sc.f64 (xs.map getF64) (fun _ _ => rfl)
    rw [bt_f64] at this
    simpa [arrX, xItem, sliceEvents, ubjBT, ubjElem, scOfElem, List.map_map, Function.comp_def] using this
  | num k =>
    have hT := utOfElems_ne_H xs hf (fun x hx => hasPrim_int k x (hxs x hx))
    have hin : ∀ v ∈ xs.map getI, (elemKind true k).inRange v = true := by
      intro v hv
      obtain ⟨x, hx, rfl⟩ := List.mem_map.mp hv
      have := small_elem true (.num k) x (hxs x hx) (by obtain ⟨n, rfl⟩ := hasPrim_int k x (hxs x hx); rfl)
      exact this
    have := typedArr_events (elemType (elemKind true k) (utOfElems xs)) (elemItem (elemKind true k) (utOfElems xs))
      (fun v => Sc.num (ubjElemKind (elemKind true k) (utOfElems xs)) v) (xs.map getI)
      (fun v hv => elemItem_events _ _ hT v (hin v hv))
    rw [elemType_bt _ _ hT] at this
    simpa [arrX, xItem, utOfElems, sliceEvents, ubjBT, ubjElem, List.map_map, Function.comp_def] using this

/-- the Unfolder's conversion of the reported elements -/
theorem convList_ubjElems (p : Prim) (xs : List GoVal) (hxs : ∀ x ∈ xs, hasPrim p x = true)
    (hf : ∀ x ∈ xs, fitsV x = true) :
    convList (pkOf p) (xs.map (ubjElem p xs)) = some (xs.map (trPrim p)) := by
  cases p with
  | num k =>
    have hT := utOfElems_ne_H xs hf (fun x hx => hasPrim_int k x (hxs x hx))
    rw [← convList_elems true (.num k) xs hxs]
    have key : ∀ ys : List GoVal, (∀ y ∈ ys, y ∈ xs) →
        convList (pkOf (.num k)) (ys.map (ubjElem (.num k) xs)) = convList (pkOf (.num k)) (ys.map (scOfElem true (.num k))) := by
      intro ys
      induction ys with
      | nil => intro _; rfl
      | cons y r ih =>
        intro hys
        have hy := hys y List.mem_cons_self
        have h1 : (elemKind true k).inRange (getI y) = true := by
          have := small_elem true (.num k) y (hxs y hy) (by obtain ⟨n, rfl⟩ := hasPrim_int k y (hxs y hy); rfl)
          exact this
        have h2 := elemKind_inRange (elemKind true k) (utOfElems xs) hT (getI y) h1
          (Enc.minUT_rank _ _ (List.mem_map.mpr ⟨y, hy, rfl⟩))
        have e1 : Unf.wrapTo (ubjElemKind (elemKind true k) (utOfElems xs)) (getI y) = getI y := Unf.wrapTo_inRange _ _ h2
        have e2 : Unf.wrapTo (elemKind true k) (getI y) = getI y := Unf.wrapTo_inRange _ _ h1
        simp only [List.map_cons, convList, ubjElem, scOfElem, pkOf, PK.conv, e1, e2] at ih ⊢
        rw [ih (fun z hz => hys z (List.mem_cons_of_mem _ hz))]
    exact key xs (fun _ h => h)
  | bool => exact convList_elems true .bool xs hxs
  | string => exact convList_elems true .string xs hxs
  | f32 => exact convList_elems true .f32 xs hxs
  | f64 => exact convList_elems true .f64 xs hxs

/-! ## the run -/

theorem leaf_arrX (p : Prim) (xs : List GoVal) : isLeaf (arrX true p xs) = true ∧
    leafTree (arrX true p xs) = xTree (arrX true p xs) ∧ leafItem (arrX true p xs) = xItem (arrX true p xs) := by
  cases p <;> exact ⟨rfl, rfl, rfl⟩

theorem small_arrX (p : Prim) (xs : List GoVal) (hsm : ∀ x ∈ xs, scSmall (scOfElem true p x) = true)
    (hn : xs.length < 9223372036854775808) : small (xTree (arrX true p xs)) = true := by
  have key : ∀ ys : List GoVal, (∀ y ∈ ys, scSmall (scOfElem true p y) = true) →
      smallList (ys.map fun x => scTree (scOfElem true p x)) = true := by
    intro ys
    induction ys with
    | nil => intro _; rfl
    | cons y r ih =>
      intro h
      simp only [List.map_cons, smallList, Bool.and_eq_true]
      exact ⟨h y List.mem_cons_self, ih (fun z hz => h z (List.mem_cons_of_mem _ hz))⟩
  cases p <;> simp only [arrX, xTree, small, List.map_map, List.length_map, Function.comp_def, hn, decide_true,
    Bool.true_and] <;> exact key xs hsm

theorem sliceEvents_shape (p : Prim) (xs : List GoVal) : ∃ (l : Int) (bt : Nat), l ≤ (xs.length : Int) ∧
    sliceEvents p xs = .arrStart l bt :: (xs.map (ubjElem p xs)).map scEv ++ [.arrEnd] := by
  cases xs with
  | nil => exact ⟨-1, BT.any, by simp, rfl⟩
  | cons x r => exact ⟨_, ubjBT p (x :: r), Int.le_refl _, rfl⟩

theorem slice_ubj_run (o : FoldOpts) (hfail : o.failAt = none) (p : Prim) (v : GoVal) (xs : List GoVal)
    (hv : sliceElems? v = some xs) (hxs : ∀ x ∈ xs, hasPrim p x = true)
    (hz : ∀ x ∈ xs, sizedV x = true) (hf : ∀ x ∈ xs, fitsV x = true) (hn : xs.length < 9223372036854775808) :
    ∃ c0 s pr, (impl o (.slice (primTy p)) v).res = .ok ∧
      setTarget tbl (.slice (uPrimTy p)) (Unf.zero tbl (.slice (uPrimTy p))) newUnfolder = .ok c0 ∧
      Enc.run {} (impl o (.slice (primTy p)) v).evs = (s, none) ∧ s.w.out ≠ [] ∧
      Parse.parse {} s.w.out = (pr, none) ∧ Idle pr ∧
      Parse.events pr = sliceEvents p xs ∧
      feed c0 ((Parse.events pr).map fun e => [evToUEv e]) =
        (doneCtx (Unf.sliceFin (uPrimTy p) (xs.map (trPrim p))), none) := by
  rw [impl_slice o hfail p v xs _ hv (arrEv_eq true p xs hxs)]
  obtain ⟨hl1, hl2, hl3⟩ := leaf_arrX p xs
  have hsm : small (leafTree (arrX true p xs)) = true := by
    rw [hl2]
    exact small_arrX p xs (fun x hx => small_elem true p x (hxs x hx) (hz x hx)) hn
  obtain ⟨s, pr, h1, _, h3, h4, h5, h6⟩ := leaf_leg (arrX true p xs) hl1 hsm
  rw [hl3, arrX_events p xs hxs hf hn] at h6
  refine ⟨_, s, pr, rfl, Unf.setTarget_sliceK tbl _ (pkOf p) _ newUnfolder (ofExact_uPrimTy p), h1, h3, h4, h5, h6, ?_⟩
  rw [h6]
  obtain ⟨l, bt, hl, hsh⟩ := sliceEvents_shape p xs
  rw [hsh]
  have : ((Ev.arrStart l bt :: (xs.map (ubjElem p xs)).map scEv ++ [Ev.arrEnd]).map fun e => [evToUEv e]) =
      (UEv.arrStart l bt :: (xs.map (ubjElem p xs)).map UEv.scalar ++ [UEv.arrEnd]).map fun e => [e] := by
    rw [← map_scEv_tokens]
    simp [List.map_map, Function.comp_def, evToUEv]
  rw [this]
  apply feed_singles
  rw [typeFuel_succ]
  have hz0 : Unf.zero tbl (.slice (uPrimTy p)) = .sliceNil (uPrimTy p) := rfl
  rw [hz0, Unf.run_array_into_sliceK 255 tbl (pkOf p) (.sliceNil (uPrimTy p)) newUnfolder _ _ _ _ trivial rfl
    (by simpa using hl) (convList_ubjElems p xs hxs hf)]
  rfl

end SF.FuUbj
