/-
  Helper lemmas for C03 (CBOR parser mirror): no step function indexes an empty slice, and the
  stored error `p.err` is only written by `Write`.  Property theorems: SF/Props/C03.lean.
-/
import SF.Cbor.Parse
import SF.Cbor.Dec
namespace SF.Props.C03
open SF SF.Cbor SF.Cbor.Parse

/-- the states in which feedUntil keeps stepping although the input is used up -/
def startPending (p : P) : Bool := (p.state.current.major &&& (stStartX ||| stIndef)) == stStartX

theorem visit_no_panic (p : P) (e : Ev) : (visit p e).2 ≠ some .panic := by
  simp only [visit]; split <;> (try split) <;> simp

theorem visit_err (p : P) (e : Ev) : (visit p e).2 = none ∨ (visit p e).2 = some .visitor := by
  simp only [visit]; split <;> (try split) <;> simp

theorem onValue_no_panic (n : Nat) (p : P) : (onValue n p).2.2 ≠ some .panic := by
  induction n generalizing p with
  | zero =>
    unfold onValue
    simp only
    split
    · split
      · simp
      · rcases h : visit (decLen p 1) (if p.state.current.major == majorArr then Ev.arrEnd else Ev.objEnd) with ⟨p', err⟩
        have := visit_err (decLen p 1) (if p.state.current.major == majorArr then Ev.arrEnd else Ev.objEnd)
        rw [h] at this
        rcases this with h1 | h1 <;> simp only at h1 <;> subst h1 <;> simp
    · split <;> simp
  | succ n ih =>
    unfold onValue
    simp only
    split
    · split
      · simp
      · rcases h : visit (decLen p 1) (if p.state.current.major == majorArr then Ev.arrEnd else Ev.objEnd) with ⟨p', err⟩
        have := visit_err (decLen p 1) (if p.state.current.major == majorArr then Ev.arrEnd else Ev.objEnd)
        rw [h] at this
        rcases this with h1 | h1 <;> simp only at h1 <;> subst h1
        · simp only; exact ih _
        · simp
    · split <;> simp

theorem popState_no_panic (n : Nat) (p : P) : (popState n p).2.2 ≠ some .panic := by
  cases n with
  | zero => simp [popState]
  | succ n => simp only [popState]; exact onValue_no_panic n _

theorem scalar_no_panic (p : P) (e : Ev) (rest : Bytes) : (scalar p e rest).err ≠ some .panic := by
  unfold scalar
  rcases h : visit p e with ⟨p', err⟩
  have := visit_err p e
  rw [h] at this
  rcases this with h1 | h1
  · simp only at h1; subst h1; simp only [onValueR]; exact onValue_no_panic _ _
  · simp only at h1; subst h1; simp

theorem scalarPop_no_panic (p : P) (e : Ev) (rest : Bytes) : (scalarPop p e rest).err ≠ some .panic := by
  unfold scalarPop
  rcases h : visit p e with ⟨p', err⟩
  have := visit_err p e
  rw [h] at this
  rcases this with h1 | h1
  · simp only at h1; subst h1; simp only [popStateR]; exact popState_no_panic _ _
  · simp only at h1; subst h1; simp

theorem visitAll_err (p : P) (es : List Ev) : (visitAll p es).2 = none ∨ (visitAll p es).2 = some .visitor := by
  induction es generalizing p with
  | nil => simp [visitAll]
  | cons e es ih =>
    simp only [visitAll]
    rcases h : visit p e with ⟨p', err⟩
    have := visit_err p e
    rw [h] at this
    rcases this with h1 | h1
    · simp only at h1; subst h1; exact ih p'
    · simp only at h1; subst h1; simp

end SF.Props.C03

namespace SF.Props.C03
open SF SF.Cbor SF.Cbor.Parse

theorem initByteSeq_no_panic (p : P) (a b : UInt8) (bs : Bytes) : (initByteSeq p a b bs).err ≠ some .panic := by
  unfold initByteSeq; split <;> (try split) <;> simp

theorem initSub_no_panic (p : P) (a b : UInt8) (bs : Bytes) : (initSub p a b bs).err ≠ some .panic := by
  unfold initSub; split <;> (try split) <;> (try split) <;> simp

theorem stepValue_no_panic (p : P) (b : Bytes) : (stepValue p b).err ≠ some .panic := by
  unfold stepValue
  split
  · simp
  · simp only
    repeat' split
    all_goals first
      | exact scalar_no_panic _ _ _
      | exact initByteSeq_no_panic _ _ _ _
      | exact initSub_no_panic _ _ _ _
      | simp

theorem getArg_nonempty (p : P) (b : Bytes) (w : Nat) (hb : b ≠ []) : ∃ r, getArg p b w = .ok r := by
  unfold getArg
  split
  · cases b with
    | nil => exact absurd rfl hb
    | cons b0 bs => exact ⟨_, rfl⟩
  · exact ⟨_, rfl⟩

theorem stepUint_no_panic (p : P) (b : Bytes) (hb : b ≠ []) : (stepUint p b).err ≠ some .panic := by
  unfold stepUint
  split
  · simp
  · rename_i w _
    obtain ⟨⟨p', rest, v⟩, h⟩ := getArg_nonempty p b w hb
    rw [h]
    cases v with
    | none => simp
    | some v => simp only; exact scalarPop_no_panic _ _ _

theorem stepNeg_no_panic (p : P) (b : Bytes) (hb : b ≠ []) : (stepNeg p b).err ≠ some .panic := by
  unfold stepNeg
  split
  · simp
  · rename_i w _
    obtain ⟨⟨p', rest, v⟩, h⟩ := getArg_nonempty p b w hb
    rw [h]
    cases v with
    | none => simp
    | some v =>
      simp only
      cases hn : negEvent w v with
      | error e =>
        simp only
        unfold negEvent at hn
        repeat' split at hn
        all_goals (first | (rw [← hn]; decide) | (injection hn with hn; rw [← hn]; decide) | simp_all)
      | ok ev => simp only; exact scalarPop_no_panic _ _ _

theorem stepLen_no_panic (p : P) (b : Bytes) (hb : b ≠ []) : (stepLen p b).err ≠ some .panic := by
  unfold stepLen
  split
  · simp
  · rename_i w _
    obtain ⟨⟨p', rest, v⟩, h⟩ := getArg_nonempty p b w hb
    rw [h]
    cases v with
    | none => simp
    | some v => simp only; split <;> simp

theorem stepFloat_no_panic (p : P) (b : Bytes) (w : Nat) : (stepFloat p b w).err ≠ some .panic := by
  unfold stepFloat
  simp only
  split
  · simp
  · rename_i t _
    rcases h : visit (collectP p b w).1 (if w == 4 then Ev.f32 (UInt32.ofNat (beNat t)) else Ev.f64 (UInt64.ofNat (beNat t))) with ⟨p', err⟩
    have := visit_err (collectP p b w).1 (if w == 4 then Ev.f32 (UInt32.ofNat (beNat t)) else Ev.f64 (UInt64.ofNat (beNat t)))
    rw [h] at this
    rcases this with h1 | h1 <;> simp only at h1 <;> subst h1
    · simp only [popStateR]; exact popState_no_panic _ _
    · simp

end SF.Props.C03

namespace SF.Props.C03
open SF SF.Cbor SF.Cbor.Parse

/-- case split on the outcome of a visitor call: either it succeeded or it returned the
injected error -/
macro "visit_cases " X:term:max e:term:max : tactic =>
  `(tactic| (rcases hvis : visit $X $e with ⟨q, err⟩
             have hv := visit_err $X $e
             rw [hvis] at hv
             rcases hv with h1 | h1 <;> simp only at h1 <;> subst h1 <;> simp only []))

theorem handleLenD_no_panic (isArr : Bool) (n : Nat) (p : P) : (handleLenD isArr n p).2.2 ≠ some .panic := by
  unfold handleLenD
  split
  · simp
  · visit_cases p (if isArr then Ev.arrEnd else Ev.objEnd)
    · exact popState_no_panic _ _
    · simp

theorem stepBytesGo_no_panic (p : P) (b : Bytes) : (stepBytesGo p b).err ≠ some .panic := by
  unfold stepBytesGo
  simp only []
  split
  · rename_i q e heq
    have hq : ∀ (X : P) (es : List Ev), visitAll X es = (q, some e) → e = Err.visitor := by
      intro X es hX
      have := visitAll_err X es
      rw [hX] at this
      rcases this with h1 | h1 <;> simp at h1
      exact h1
    have := hq _ _ heq
    subst this; simp
  · rename_i q heq
    split
    · visit_cases q Ev.arrEnd
      · simp only [popStateR]; exact popState_no_panic _ _
      · simp
    · simp

theorem stepBytes_no_panic (p : P) (b : Bytes) : (stepBytes p b).err ≠ some .panic := by
  unfold stepBytes
  split
  · visit_cases p (Ev.arrStart p.length.current BT.byte)
    · exact stepBytesGo_no_panic _ _
    · simp
  · exact stepBytesGo_no_panic _ _

theorem stepText_no_panic (p : P) (b : Bytes) : (stepText p b).err ≠ some .panic := by
  unfold stepText
  simp only
  split
  · simp
  · rename_i t _
    visit_cases (popLen (collectP p b p.length.current.toNat).1) (Ev.str t)
    · simp only [popStateR]; exact popState_no_panic _ _
    · simp

theorem stepKey_no_panic (p : P) (b : Bytes) : (stepKey p b).err ≠ some .panic := by
  unfold stepKey
  simp only
  split
  · simp
  · rename_i t _
    visit_cases (collectP p b p.length.current.toNat).1 (Ev.key t)
    · simp
    · simp

theorem initMapKey_no_panic (p : P) (b : Bytes) (hb : b ≠ []) : (initMapKey p b).err ≠ some .panic := by
  unfold initMapKey
  cases b with
  | nil => exact absurd rfl hb
  | cons b0 bs =>
    simp only
    split
    · simp
    · split
      · simp
      · exact initByteSeq_no_panic _ _ _ _

theorem stepArray_no_panic (p : P) (b : Bytes) : (stepArray p b).err ≠ some .panic := by
  unfold stepArray
  split
  · exact stepValue_no_panic _ _
  · simp only; exact handleLenD_no_panic _ _ _

theorem stepMap_no_panic (p : P) (b : Bytes) : (stepMap p b).err ≠ some .panic := by
  unfold stepMap
  split
  · split
    · rename_i h; exact initMapKey_no_panic _ _ (by intro hc; simp [hc] at h)
    · simp
  · simp only; exact handleLenD_no_panic _ _ _

theorem indefArr_no_panic (p : P) (b : Bytes) (hb : b ≠ []) : (indefArr p b).err ≠ some .panic := by
  unfold indefArr
  cases b with
  | nil => exact absurd rfl hb
  | cons b0 bs =>
    simp only
    split
    · visit_cases p Ev.arrEnd
      · simp only [popStateR]; exact popState_no_panic _ _
      · simp
    · exact stepValue_no_panic _ _

theorem indefMap_no_panic (p : P) (b : Bytes) (hb : b ≠ []) : (indefMap p b).err ≠ some .panic := by
  unfold indefMap
  cases b with
  | nil => exact absurd rfl hb
  | cons b0 bs =>
    simp only
    split
    · visit_cases p Ev.objEnd
      · simp only [popStateR]; exact popState_no_panic _ _
      · simp
    · exact initMapKey_no_panic _ _ (by simp)

end SF.Props.C03

namespace SF.Props.C03
open SF SF.Cbor SF.Cbor.Parse

/-- in the states that read a byte unconditionally, feedUntil never steps with empty input -/
theorem not_pending_of_major {p : P} {m : UInt8} (h : p.state.current.major = m)
    (hm : ((m &&& (stStartX ||| stIndef)) == stStartX) = false) : startPending p = false := by
  simp [startPending, h, hm]

/-- ONE STEP NEVER PANICS — for EVERY parser state (reachable or not) whose stored error is
not itself a panic, and every input the main loop can pass: non-empty input, or empty input
in a "start pending" state -/
theorem execStep_no_panic (p : P) (b : Bytes) (h : b ≠ [] ∨ startPending p = true)
    (herr : p.err ≠ some .panic) : (execStep p b).err ≠ some .panic := by
  have hb : ∀ m : UInt8, p.state.current.major = m →
      ((m &&& (stStartX ||| stIndef)) == stStartX) = false → b ≠ [] := by
    intro m hm hf
    rcases h with h | h
    · exact h
    · rw [not_pending_of_major hm hf] at h; exact absurd h (by simp)
  unfold execStep
  simp only []
  by_cases hX : (p.state.current.major == stFail) = true
  · simp only [hX, if_true]
    intro hc; exact herr hc
  simp only [hX, Bool.false_eq_true, if_false]
  clear hX
  by_cases hX : (p.state.current.major == stValue) = true
  · simp only [hX, if_true]
    exact stepValue_no_panic _ _
  simp only [hX, Bool.false_eq_true, if_false]
  clear hX
  by_cases hX : (p.state.current.major == stLen) = true
  · simp only [hX, if_true]
    exact stepLen_no_panic _ _ (hb _ (by simpa using hX) (by decide))
  simp only [hX, Bool.false_eq_true, if_false]
  clear hX
  by_cases hX : (p.state.current.major == majorUint) = true
  · simp only [hX, if_true]
    exact stepUint_no_panic _ _ (hb _ (by simpa using hX) (by decide))
  simp only [hX, Bool.false_eq_true, if_false]
  clear hX
  by_cases hX : (p.state.current.major == majorNeg) = true
  · simp only [hX, if_true]
    exact stepNeg_no_panic _ _ (hb _ (by simpa using hX) (by decide))
  simp only [hX, Bool.false_eq_true, if_false]
  clear hX
  by_cases hX : (p.state.current.major == codeSingleFloat) = true
  · simp only [hX, if_true]
    exact stepFloat_no_panic _ _ _
  simp only [hX, Bool.false_eq_true, if_false]
  clear hX
  by_cases hX : (p.state.current.major == codeDoubleFloat) = true
  · simp only [hX, if_true]
    exact stepFloat_no_panic _ _ _
  simp only [hX, Bool.false_eq_true, if_false]
  clear hX
  by_cases hX : (p.state.current.major == (majorBytes ||| stStartX)) = true
  · simp only [hX, if_true]
    split
    · rcases hvis : visit p (Ev.arrStart 0 BT.byte) with ⟨q, err⟩
      have hv := visit_err p (Ev.arrStart 0 BT.byte)
      rw [hvis] at hv
      rcases hv with h1 | h1 <;> simp only at h1 <;> subst h1 <;> simp only []
      · visit_cases q Ev.arrEnd
        · simp only [popStateR]; exact popState_no_panic _ _
        · simp
      · simp
    · split
      · simp
      · exact stepBytes_no_panic _ _
  simp only [hX, Bool.false_eq_true, if_false]
  clear hX
  by_cases hX : (p.state.current.major == majorBytes) = true
  · simp only [hX, if_true]
    exact stepBytes_no_panic _ _
  simp only [hX, Bool.false_eq_true, if_false]
  clear hX
  by_cases hX : (p.state.current.major == (majorText ||| stStartX)) = true
  · simp only [hX, if_true]
    split
    · visit_cases (popLen p) (Ev.str [])
      · simp only [popStateR]; exact popState_no_panic _ _
      · simp
    · split
      · simp
      · exact stepText_no_panic _ _
  simp only [hX, Bool.false_eq_true, if_false]
  clear hX
  by_cases hX : (p.state.current.major == majorText) = true
  · simp only [hX, if_true]
    exact stepText_no_panic _ _
  simp only [hX, Bool.false_eq_true, if_false]
  clear hX
  by_cases hX : (p.state.current.major == stStartArr) = true
  · simp only [hX, if_true]
    visit_cases p (Ev.arrStart p.length.current BT.any)
    · exact stepArray_no_panic _ _
    · simp
  simp only [hX, Bool.false_eq_true, if_false]
  clear hX
  by_cases hX : (p.state.current.major == majorArr) = true
  · simp only [hX, if_true]
    exact stepArray_no_panic _ _
  simp only [hX, Bool.false_eq_true, if_false]
  clear hX
  by_cases hX : (p.state.current.major == stStartIndefArr) = true
  · simp only [hX, if_true]
    visit_cases p (Ev.arrStart (-1) BT.any)
    · exact indefArr_no_panic _ _ (hb _ (by simpa using hX) (by decide))
    · simp
  simp only [hX, Bool.false_eq_true, if_false]
  clear hX
  by_cases hX : (p.state.current.major == (majorArr ||| stIndef)) = true
  · simp only [hX, if_true]
    exact indefArr_no_panic _ _ (hb _ (by simpa using hX) (by decide))
  simp only [hX, Bool.false_eq_true, if_false]
  clear hX
  by_cases hX : (p.state.current.major == stStartMap) = true
  · simp only [hX, if_true]
    visit_cases p (Ev.objStart p.length.current BT.any)
    · exact stepMap_no_panic _ _
    · simp
  simp only [hX, Bool.false_eq_true, if_false]
  clear hX
  by_cases hX : (p.state.current.major == majorMap) = true
  · simp only [hX, if_true]
    exact stepMap_no_panic _ _
  simp only [hX, Bool.false_eq_true, if_false]
  clear hX
  by_cases hX : (p.state.current.major == stStartIndefMap) = true
  · simp only [hX, if_true]
    visit_cases p (Ev.objStart (-1) BT.any)
    · exact indefMap_no_panic _ _ (hb _ (by simpa using hX) (by decide))
    · simp
  simp only [hX, Bool.false_eq_true, if_false]
  clear hX
  by_cases hX : (p.state.current.major == (majorMap ||| stIndef)) = true
  · simp only [hX, if_true]
    exact indefMap_no_panic _ _ (hb _ (by simpa using hX) (by decide))
  simp only [hX, Bool.false_eq_true, if_false]
  clear hX
  by_cases hX : (p.state.current.major == (stKey ||| stStartX)) = true
  · simp only [hX, if_true]
    split
    · visit_cases p (Ev.key [])
      · simp
      · simp
    · exact stepKey_no_panic _ _
  simp only [hX, Bool.false_eq_true, if_false]
  clear hX
  by_cases hX : (p.state.current.major == stKey) = true
  · simp only [hX, if_true]
    exact stepKey_no_panic _ _
  simp only [hX, Bool.false_eq_true, if_false]
  clear hX
  by_cases hX : (p.state.current.major == stElem) = true
  · simp only [hX, if_true]
    exact stepValue_no_panic _ _
  simp only [hX, Bool.false_eq_true, if_false]
  clear hX
  simp

end SF.Props.C03

namespace SF.Props.C03
open SF SF.Cbor SF.Cbor.Parse

/-! ### the stored error `p.err` is only ever written by `Write` -/

@[simp] theorem setMajor_err (p : P) (m : UInt8) : (setMajor p m).err = p.err := rfl
@[simp] theorem setMinor_err (p : P) (m : UInt8) : (setMinor p m).err = p.err := rfl
@[simp] theorem pushState_err (p : P) (s : St) : (pushState p s).err = p.err := rfl
@[simp] theorem popSt_err (p : P) : (popSt p).err = p.err := rfl
@[simp] theorem pushLen_err (p : P) (l : Int) : (pushLen p l).err = p.err := rfl
@[simp] theorem popLen_err (p : P) : (popLen p).err = p.err := rfl
@[simp] theorem decLen_err (p : P) (n : Int) : (decLen p n).err = p.err := rfl
@[simp] theorem collectP_err (p : P) (b : Bytes) (n : Nat) : (collectP p b n).1.err = p.err := by
  simp [collectP]
@[simp] theorem visit_errf (p : P) (e : Ev) : (visit p e).1.err = p.err := by
  simp only [visit]; split <;> (try split) <;> rfl

theorem visitAll_errf (p : P) (es : List Ev) : (visitAll p es).1.err = p.err := by
  induction es generalizing p with
  | nil => rfl
  | cons e es ih =>
    simp only [visitAll]
    rcases h : visit p e with ⟨q, err⟩
    have hq : q.err = p.err := by have := visit_errf p e; rw [h] at this; exact this
    cases err with
    | none => simp only; rw [ih q, hq]
    | some e => simp only; exact hq

theorem onValue_errf (n : Nat) (p : P) : (onValue n p).1.err = p.err := by
  induction n generalizing p with
  | zero =>
    unfold onValue
    simp only
    split
    · split
      · simp
      · rcases h : visit (decLen p 1) (if p.state.current.major == majorArr then Ev.arrEnd else Ev.objEnd) with ⟨q, err⟩
        have hq : q.err = p.err := by have := visit_errf (decLen p 1) (if p.state.current.major == majorArr then Ev.arrEnd else Ev.objEnd); rw [h] at this; simpa using this
        cases err <;> simp [hq]
    · split <;> simp
  | succ n ih =>
    unfold onValue
    simp only
    split
    · split
      · simp
      · rcases h : visit (decLen p 1) (if p.state.current.major == majorArr then Ev.arrEnd else Ev.objEnd) with ⟨q, err⟩
        have hq : q.err = p.err := by have := visit_errf (decLen p 1) (if p.state.current.major == majorArr then Ev.arrEnd else Ev.objEnd); rw [h] at this; simpa using this
        cases err with
        | none => simp only; rw [ih]; simpa using hq
        | some e => simpa using hq
    · split <;> simp

theorem popState_errf (n : Nat) (p : P) : (popState n p).1.err = p.err := by
  cases n with
  | zero => simp [popState]
  | succ n => simp only [popState]; rw [onValue_errf]; simp

/-- split on a visitor call, keeping that the stored error is unchanged -/
macro "visit_errf_cases " X:term:max e:term:max : tactic =>
  `(tactic| (rcases hvis : visit $X $e with ⟨q, err⟩
             have hq : q.err = ($X).err := by have := visit_errf $X $e; rw [hvis] at this; exact this
             cases err <;> simp only []))

theorem handleLenD_errf (isArr : Bool) (n : Nat) (p : P) : (handleLenD isArr n p).1.err = p.err := by
  unfold handleLenD
  split
  · rfl
  · rcases hvis : visit p (if isArr then Ev.arrEnd else Ev.objEnd) with ⟨q, err⟩
    have hq : q.err = p.err := by have := visit_errf p (if isArr then Ev.arrEnd else Ev.objEnd); rw [hvis] at this; exact this
    cases err with
    | none => simp only; rw [popState_errf]; simpa using hq
    | some e => simpa using hq

theorem scalar_errf (p : P) (e : Ev) (rest : Bytes) : (scalar p e rest).p.err = p.err := by
  unfold scalar
  rcases hvis : visit p e with ⟨q, err⟩
  have hq : q.err = p.err := by have := visit_errf p e; rw [hvis] at this; exact this
  cases err with
  | none => simp only [onValueR]; rw [onValue_errf]; exact hq
  | some e => simpa using hq

theorem scalarPop_errf (p : P) (e : Ev) (rest : Bytes) : (scalarPop p e rest).p.err = p.err := by
  unfold scalarPop
  rcases hvis : visit p e with ⟨q, err⟩
  have hq : q.err = p.err := by have := visit_errf p e; rw [hvis] at this; exact this
  cases err with
  | none => simp only [popStateR]; rw [popState_errf]; exact hq
  | some e => simpa using hq

theorem initByteSeq_errf (p : P) (a b : UInt8) (bs : Bytes) : (initByteSeq p a b bs).p.err = p.err := by
  unfold initByteSeq; split <;> (try split) <;> simp

theorem initSub_errf (p : P) (a b : UInt8) (bs : Bytes) : (initSub p a b bs).p.err = p.err := by
  unfold initSub; split <;> (try split) <;> (try split) <;> simp

theorem stepValue_errf (p : P) (b : Bytes) : (stepValue p b).p.err = p.err := by
  unfold stepValue
  split
  · rfl
  · simp only
    repeat' split
    all_goals first
      | exact scalar_errf _ _ _
      | exact initByteSeq_errf _ _ _ _
      | exact initSub_errf _ _ _ _
      | simp

theorem getArg_errf (p : P) (b : Bytes) (w : Nat) (r : P × Bytes × Option Nat) (h : getArg p b w = .ok r) :
    r.1.err = p.err := by
  unfold getArg at h
  split at h
  · split at h
    · simp at h
    · injection h with h; subst h; rfl
  · injection h with h; subst h; simp

end SF.Props.C03

namespace SF.Props.C03
open SF SF.Cbor SF.Cbor.Parse

theorem stepUint_errf (p : P) (b : Bytes) : (stepUint p b).p.err = p.err := by
  unfold stepUint
  split
  · rfl
  · rename_i w _
    cases h : getArg p b w with
    | error e => rfl
    | ok r =>
      obtain ⟨q, rest, v⟩ := r
      have hq := getArg_errf p b w _ h
      cases v with
      | none => simpa using hq
      | some v => simp only; rw [scalarPop_errf]; exact hq

theorem stepNeg_errf (p : P) (b : Bytes) : (stepNeg p b).p.err = p.err := by
  unfold stepNeg
  split
  · rfl
  · rename_i w _
    cases h : getArg p b w with
    | error e => rfl
    | ok r =>
      obtain ⟨q, rest, v⟩ := r
      have hq := getArg_errf p b w _ h
      cases v with
      | none => simpa using hq
      | some v =>
        simp only
        cases negEvent w v with
        | error e => simpa using hq
        | ok ev => simp only; rw [scalarPop_errf]; exact hq

theorem stepLen_errf (p : P) (b : Bytes) : (stepLen p b).p.err = p.err := by
  unfold stepLen
  split
  · rfl
  · rename_i w _
    cases h : getArg p b w with
    | error e => rfl
    | ok r =>
      obtain ⟨q, rest, v⟩ := r
      have hq := getArg_errf p b w _ h
      cases v with
      | none => simpa using hq
      | some v => simp only; split <;> simpa using hq

theorem stepFloat_errf (p : P) (b : Bytes) (w : Nat) : (stepFloat p b w).p.err = p.err := by
  unfold stepFloat
  simp only
  split
  · simp
  · rename_i t _
    rcases hvis : visit (collectP p b w).1 (if w == 4 then Ev.f32 (UInt32.ofNat (beNat t)) else Ev.f64 (UInt64.ofNat (beNat t))) with ⟨q, err⟩
    have hq : q.err = p.err := by
      have := visit_errf (collectP p b w).1 (if w == 4 then Ev.f32 (UInt32.ofNat (beNat t)) else Ev.f64 (UInt64.ofNat (beNat t)))
      rw [hvis] at this; simpa using this
    cases err with
    | none => simp only [popStateR]; rw [popState_errf]; exact hq
    | some e => simpa using hq

theorem stepBytesGo_errf (p : P) (b : Bytes) : (stepBytesGo p b).p.err = p.err := by
  unfold stepBytesGo
  simp only []
  have hva : ∀ (X : P) (es : List Ev) (q : P) (r : Option Err), visitAll X es = (q, r) → q.err = X.err := by
    intro X es q r h; have := visitAll_errf X es; rw [h] at this; exact this
  split
  · rename_i q e heq
    have := hva _ _ _ _ heq
    simp only [this]; split <;> simp
  · rename_i q heq
    have hq := hva _ _ _ _ heq
    have hq' : q.err = p.err := by rw [hq]; split <;> simp
    split
    · rcases hvis : visit q Ev.arrEnd with ⟨q2, err⟩
      have hq2 : q2.err = q.err := by have := visit_errf q Ev.arrEnd; rw [hvis] at this; exact this
      cases err with
      | none => simp only [popStateR]; rw [popState_errf]; simp [hq2, hq']
      | some e => simp [hq2, hq']
    · exact hq'

theorem stepBytes_errf (p : P) (b : Bytes) : (stepBytes p b).p.err = p.err := by
  unfold stepBytes
  split
  · rcases hvis : visit p (Ev.arrStart p.length.current BT.byte) with ⟨q, err⟩
    have hq : q.err = p.err := by have := visit_errf p (Ev.arrStart p.length.current BT.byte); rw [hvis] at this; exact this
    cases err with
    | none => simp only; rw [stepBytesGo_errf]; simpa using hq
    | some e => simpa using hq
  · exact stepBytesGo_errf _ _

theorem stepText_errf (p : P) (b : Bytes) : (stepText p b).p.err = p.err := by
  unfold stepText
  simp only
  split
  · simp
  · rename_i t _
    rcases hvis : visit (popLen (collectP p b p.length.current.toNat).1) (Ev.str t) with ⟨q, err⟩
    have hq : q.err = p.err := by
      have := visit_errf (popLen (collectP p b p.length.current.toNat).1) (Ev.str t)
      rw [hvis] at this; simpa using this
    cases err with
    | none => simp only [popStateR]; rw [popState_errf]; exact hq
    | some e => simpa using hq

theorem stepKey_errf (p : P) (b : Bytes) : (stepKey p b).p.err = p.err := by
  unfold stepKey
  simp only
  split
  · simp
  · rename_i t _
    rcases hvis : visit (collectP p b p.length.current.toNat).1 (Ev.key t) with ⟨q, err⟩
    have hq : q.err = p.err := by
      have := visit_errf (collectP p b p.length.current.toNat).1 (Ev.key t)
      rw [hvis] at this; simpa using this
    cases err <;> simpa using hq

theorem initMapKey_errf (p : P) (b : Bytes) : (initMapKey p b).p.err = p.err := by
  unfold initMapKey
  cases b with
  | nil => rfl
  | cons b0 bs =>
    simp only
    split
    · rfl
    · split
      · rfl
      · exact initByteSeq_errf _ _ _ _

theorem stepArray_errf (p : P) (b : Bytes) : (stepArray p b).p.err = p.err := by
  unfold stepArray
  split
  · exact stepValue_errf _ _
  · simp only; exact handleLenD_errf _ _ _

theorem stepMap_errf (p : P) (b : Bytes) : (stepMap p b).p.err = p.err := by
  unfold stepMap
  split
  · split
    · exact initMapKey_errf _ _
    · rfl
  · simp only; exact handleLenD_errf _ _ _

theorem indefArr_errf (p : P) (b : Bytes) : (indefArr p b).p.err = p.err := by
  unfold indefArr
  cases b with
  | nil => rfl
  | cons b0 bs =>
    simp only
    split
    · rcases hvis : visit p Ev.arrEnd with ⟨q, err⟩
      have hq : q.err = p.err := by have := visit_errf p Ev.arrEnd; rw [hvis] at this; exact this
      cases err with
      | none => simp only [popStateR]; rw [popState_errf]; exact hq
      | some e => simpa using hq
    · exact stepValue_errf _ _

theorem indefMap_errf (p : P) (b : Bytes) : (indefMap p b).p.err = p.err := by
  unfold indefMap
  cases b with
  | nil => rfl
  | cons b0 bs =>
    simp only
    split
    · rcases hvis : visit p Ev.objEnd with ⟨q, err⟩
      have hq : q.err = p.err := by have := visit_errf p Ev.objEnd; rw [hvis] at this; exact this
      cases err with
      | none => simp only [popStateR]; rw [popState_errf]; exact hq
      | some e => simpa using hq
    · exact initMapKey_errf _ _

end SF.Props.C03

namespace SF.Props.C03
open SF SF.Cbor SF.Cbor.Parse

theorem execStep_errf (p : P) (b : Bytes) : (execStep p b).p.err = p.err := by
  unfold execStep
  simp only []
  by_cases hX : (p.state.current.major == stFail) = true
  · simp only [hX, if_true]
  simp only [hX, Bool.false_eq_true, if_false]
  clear hX
  by_cases hX : (p.state.current.major == stValue) = true
  · simp only [hX, if_true]
    exact stepValue_errf _ _
  simp only [hX, Bool.false_eq_true, if_false]
  clear hX
  by_cases hX : (p.state.current.major == stLen) = true
  · simp only [hX, if_true]
    exact stepLen_errf _ _
  simp only [hX, Bool.false_eq_true, if_false]
  clear hX
  by_cases hX : (p.state.current.major == majorUint) = true
  · simp only [hX, if_true]
    exact stepUint_errf _ _
  simp only [hX, Bool.false_eq_true, if_false]
  clear hX
  by_cases hX : (p.state.current.major == majorNeg) = true
  · simp only [hX, if_true]
    exact stepNeg_errf _ _
  simp only [hX, Bool.false_eq_true, if_false]
  clear hX
  by_cases hX : (p.state.current.major == codeSingleFloat) = true
  · simp only [hX, if_true]
    exact stepFloat_errf _ _ _
  simp only [hX, Bool.false_eq_true, if_false]
  clear hX
  by_cases hX : (p.state.current.major == codeDoubleFloat) = true
  · simp only [hX, if_true]
    exact stepFloat_errf _ _ _
  simp only [hX, Bool.false_eq_true, if_false]
  clear hX
  by_cases hX : (p.state.current.major == (majorBytes ||| stStartX)) = true
  · simp only [hX, if_true]
    split
    · rcases hvis : visit p (Ev.arrStart 0 BT.byte) with ⟨q, err⟩
      have hq : q.err = p.err := by have := visit_errf p (Ev.arrStart 0 BT.byte); rw [hvis] at this; exact this
      cases err with
      | some e => simpa using hq
      | none =>
        simp only
        rcases hvis2 : visit q Ev.arrEnd with ⟨q2, err2⟩
        have hq2 : q2.err = q.err := by have := visit_errf q Ev.arrEnd; rw [hvis2] at this; exact this
        cases err2 with
        | some e => simp [hq2, hq]
        | none => simp only [popStateR]; rw [popState_errf]; simp [hq2, hq]
    · split
      · simp
      · rw [stepBytes_errf]; simp
  simp only [hX, Bool.false_eq_true, if_false]
  clear hX
  by_cases hX : (p.state.current.major == majorBytes) = true
  · simp only [hX, if_true]
    exact stepBytes_errf _ _
  simp only [hX, Bool.false_eq_true, if_false]
  clear hX
  by_cases hX : (p.state.current.major == (majorText ||| stStartX)) = true
  · simp only [hX, if_true]
    split
    · rcases hvis : visit (popLen p) (Ev.str []) with ⟨q, err⟩
      have hq : q.err = p.err := by have := visit_errf (popLen p) (Ev.str []); rw [hvis] at this; simpa using this
      cases err with
      | some e => simpa using hq
      | none => simp only [popStateR]; rw [popState_errf]; exact hq
    · split
      · simp
      · rw [stepText_errf]; simp
  simp only [hX, Bool.false_eq_true, if_false]
  clear hX
  by_cases hX : (p.state.current.major == majorText) = true
  · simp only [hX, if_true]
    exact stepText_errf _ _
  simp only [hX, Bool.false_eq_true, if_false]
  clear hX
  by_cases hX : (p.state.current.major == stStartArr) = true
  · simp only [hX, if_true]
    rcases hvis : visit p (Ev.arrStart p.length.current BT.any) with ⟨q, err⟩
    have hq : q.err = p.err := by have := visit_errf p (Ev.arrStart p.length.current BT.any); rw [hvis] at this; exact this
    cases err with
    | some e => simpa using hq
    | none => simp only; rw [stepArray_errf]; simpa using hq
  simp only [hX, Bool.false_eq_true, if_false]
  clear hX
  by_cases hX : (p.state.current.major == majorArr) = true
  · simp only [hX, if_true]
    exact stepArray_errf _ _
  simp only [hX, Bool.false_eq_true, if_false]
  clear hX
  by_cases hX : (p.state.current.major == stStartIndefArr) = true
  · simp only [hX, if_true]
    rcases hvis : visit p (Ev.arrStart (-1) BT.any) with ⟨q, err⟩
    have hq : q.err = p.err := by have := visit_errf p (Ev.arrStart (-1) BT.any); rw [hvis] at this; exact this
    cases err with
    | some e => simpa using hq
    | none => simp only; rw [indefArr_errf]; simpa using hq
  simp only [hX, Bool.false_eq_true, if_false]
  clear hX
  by_cases hX : (p.state.current.major == (majorArr ||| stIndef)) = true
  · simp only [hX, if_true]
    exact indefArr_errf _ _
  simp only [hX, Bool.false_eq_true, if_false]
  clear hX
  by_cases hX : (p.state.current.major == stStartMap) = true
  · simp only [hX, if_true]
    rcases hvis : visit p (Ev.objStart p.length.current BT.any) with ⟨q, err⟩
    have hq : q.err = p.err := by have := visit_errf p (Ev.objStart p.length.current BT.any); rw [hvis] at this; exact this
    cases err with
    | some e => simpa using hq
    | none => simp only; rw [stepMap_errf]; simpa using hq
  simp only [hX, Bool.false_eq_true, if_false]
  clear hX
  by_cases hX : (p.state.current.major == majorMap) = true
  · simp only [hX, if_true]
    exact stepMap_errf _ _
  simp only [hX, Bool.false_eq_true, if_false]
  clear hX
  by_cases hX : (p.state.current.major == stStartIndefMap) = true
  · simp only [hX, if_true]
    rcases hvis : visit p (Ev.objStart (-1) BT.any) with ⟨q, err⟩
    have hq : q.err = p.err := by have := visit_errf p (Ev.objStart (-1) BT.any); rw [hvis] at this; exact this
    cases err with
    | some e => simpa using hq
    | none => simp only; rw [indefMap_errf]; simpa using hq
  simp only [hX, Bool.false_eq_true, if_false]
  clear hX
  by_cases hX : (p.state.current.major == (majorMap ||| stIndef)) = true
  · simp only [hX, if_true]
    exact indefMap_errf _ _
  simp only [hX, Bool.false_eq_true, if_false]
  clear hX
  by_cases hX : (p.state.current.major == (stKey ||| stStartX)) = true
  · simp only [hX, if_true]
    split
    · rcases hvis : visit p (Ev.key []) with ⟨q, err⟩
      have hq : q.err = p.err := by have := visit_errf p (Ev.key []); rw [hvis] at this; exact this
      cases err <;> simpa using hq
    · rw [stepKey_errf]; simp
  simp only [hX, Bool.false_eq_true, if_false]
  clear hX
  by_cases hX : (p.state.current.major == stKey) = true
  · simp only [hX, if_true]
    exact stepKey_errf _ _
  simp only [hX, Bool.false_eq_true, if_false]
  clear hX
  by_cases hX : (p.state.current.major == stElem) = true
  · simp only [hX, if_true]
    rw [stepValue_errf]; simp
  simp only [hX, Bool.false_eq_true, if_false]

theorem feedUntil_no_panic_errf (f : Nat) (p : P) (b : Bytes) : (feedUntil f p b).p.err = p.err := by
  induction f generalizing p b with
  | zero => simp [feedUntil]
  | succ f ih =>
    simp only [feedUntil]
    have h2 := execStep_errf p b
    split
    · exact h2
    · split
      · exact h2
      · rw [ih, h2]

end SF.Props.C03
