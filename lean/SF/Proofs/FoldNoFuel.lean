/-
  The specification never runs out of its own fuel on good types / typed values that are
  not too deep: `typeOkF` (3 units of fuel per level of the type) and `foldF` (3 per level of
  the value).
-/
import SF.Proofs.FoldTypeOk
import SF.Proofs.FoldEmpty
namespace SF.FoldProofs
open SF SF.Gotype SF.Gotype.Fold SF.Gotype.Rules

/-! ## `typeOkF` -/

def NFA (reg : Bool) (d : Nat) : Prop :=
  ∀ sn T, tdepth T ≤ d → goodT sn T = true → ∀ n seen, (∀ x ∈ seen, x ∈ sn) → 3 * d + 3 ≤ n →
    typeOkF n reg seen T ≠ .error .fuel

def NFI (reg : Bool) (d : Nat) : Prop :=
  ∀ sn T, tdepth T ≤ d → goodT sn T = true → ∀ n seen, (∀ x ∈ seen, x ∈ sn) → 3 * d + 4 ≤ n →
    inlineOkF n reg seen T ≠ .error .fuel

def NFF (reg : Bool) (d : Nat) : Prop :=
  ∀ sn f, tdepth f.typ ≤ d → goodF sn f = true → ∀ n seen, (∀ x ∈ seen, x ∈ sn) → 3 * d + 5 ≤ n →
    fieldOkF n reg seen f ≠ .error .fuel

theorem forM_ne {ε α : Type} {f : α → Except ε Unit} {l : List α} {e : ε}
    (h : ∀ x ∈ l, f x ≠ .error e) : l.forM f ≠ .error e := by
  induction l with
  | nil => intro h'; cases h'
  | cons a l ih =>
    have e1 : (a :: l).forM f = (f a >>= fun _ => l.forM f) := rfl
    rw [e1]
    cases ha : f a with
    | error e' =>
      simp only [bind, Except.bind]
      intro h'
      cases h'
      exact h a (by simp) ha
    | ok u =>
      simp only [bind, Except.bind]
      exact ih (fun x hx => h x (by simp [hx]))

theorem goodFs_mem {sn : List String} {fs : List Field} (hfs : goodFs sn fs = true) {f : Field}
    (hf : f ∈ fs) : goodF sn f = true ∧ tdepthF f ≤ tdepthFs fs := by
  induction fs with
  | nil => cases hf
  | cons g fs ih =>
    simp only [goodFs, Bool.and_eq_true] at hfs
    simp only [tdepthFs]
    rcases List.mem_cons.mp hf with rfl | hf'
    · exact ⟨hfs.1, Nat.le_max_left _ _⟩
    · have := ih hfs.2 hf'
      exact ⟨this.1, Nat.le_trans this.2 (Nat.le_max_right _ _)⟩

theorem nfa_step (reg : Bool) (d : Nat) (ihA : ∀ d' < d, NFA reg d') (ihF : ∀ d' < d, NFF reg d') :
    NFA reg d := by
  intro sn T hT hg n seen hsub hn
  obtain ⟨n', rfl⟩ := exists_succ (k := 0) (by omega : 0 + 1 ≤ n)
  rcases headKind hg with hu | ⟨nm, m, u, rfl⟩
  · rw [typeOkF_unnamed n' reg seen hg hu]
    cases T with
    | bool | string | int _ | float32 | float64 | iface => intro h; cases h
    | slice e | array _ e | ptr e =>
      simp only [tdepth] at hT
      exact ihA (d - 1) (by omega) sn e (by omega) (by simpa [goodT] using hg) n' seen hsub (by omega)
    | map k e =>
      simp only [tdepth] at hT
      simp only []
      split
      · exact ihA (d - 1) (by omega) sn e (by omega) (by simp [goodT] at hg; exact hg.2) n' seen hsub (by omega)
      · intro h; cases h
    | struct fs =>
      simp only [tdepth] at hT
      have hfs : goodFs sn fs = true := by simpa [goodT] using hg
      refine forM_ne ?_
      intro f hf
      have hgf := goodFs_mem hfs hf
      exact ihF (d - 1) (by omega) sn f (by rw [← tdepthF_typ]; omega) hgf.1 n' seen hsub (by omega)
    | named a b c => simp [unnamedHead] at hu
    | ref a => simp [unnamedHead] at hu
    | chan e => intro h; cases h
    | other k => intro h; cases h
  · rw [typeOkF_named n' reg seen hg hsub]
    simp only [tdepth] at hT
    have hgu : goodT (nm :: sn) u = true := by simp_all [goodT]
    exact ihA (d - 1) (by omega) (nm :: sn) u (by omega) hgu n' (nm :: seen)
      (by intro x hx; simp only [List.mem_cons] at hx ⊢; rcases hx with rfl | hx
          · exact Or.inl rfl
          · exact Or.inr (hsub x hx)) (by omega)

theorem nfi_step (reg : Bool) (d : Nat) (hA : NFA reg d) (ihI : ∀ d' < d, NFI reg d') : NFI reg d := by
  intro sn T hT hg n seen hsub hn
  obtain ⟨n', rfl⟩ := exists_succ (k := 0) (by omega : 0 + 1 ≤ n)
  rw [inlineOkF_good n' reg seen hg]
  have hgu := good_under hg
  have hdu := tdepth_under hg
  generalize hU : T.under = U at hgu hdu
  cases U with
  | ptr e =>
    simp only [tdepth] at hdu
    exact ihI (d - 1) (by omega) _ e (by omega) (by simpa [goodT] using hgu.1) n' seen
      (fun x hx => snU_sub sn T x (hsub x hx)) (by omega)
  | struct fs => exact hA sn T hT hg n' seen hsub (by omega)
  | map k e => exact hA sn T hT hg n' seen hsub (by omega)
  | _ => intro h; cases h

theorem nff_step (reg : Bool) (d : Nat) (hA : NFA reg d) (hI : NFI reg d) : NFF reg d := by
  intro sn f hT hg n seen hsub hn
  obtain ⟨n', rfl⟩ := exists_succ (k := 0) (by omega : 0 + 1 ≤ n)
  rw [fieldOkF_eq]
  have hpt := goodF_typ hg
  cases fieldKind f with
  | drop => intro h; cases h
  | conflict => intro h; cases h
  | inline => exact hI sn f.typ hT hpt n' seen hsub (by omega)
  | omitEmpty _ => exact hA sn f.typ hT hpt n' seen hsub (by omega)
  | plain _ => exact hA sn f.typ hT hpt n' seen hsub (by omega)

theorem nofuel_all (reg : Bool) : ∀ d, NFA reg d ∧ NFI reg d ∧ NFF reg d := by
  intro d
  induction d using Nat.strongRecOn with
  | _ d ih =>
    have hA := nfa_step reg d (fun d' h => (ih d' h).1) (fun d' h => (ih d' h).2.2)
    have hI := nfi_step reg d hA (fun d' h => (ih d' h).2.1)
    exact ⟨hA, hI, nff_step reg d hA hI⟩

/-- bound on the depth of a dynamic type for which `Rules.typeOk` (fuel 1000) has fuel -/
def specDynBound : Nat := 332

theorem typeOk_nofuel (reg : Bool) {T : GoType} (hg : goodT [] T = true) (hd : tdepth T ≤ specDynBound) :
    typeOk reg T ≠ .error .fuel := by
  unfold specDynBound at hd
  exact (nofuel_all reg (tdepth T)).1 [] T (Nat.le_refl _) hg 1000 [] (fun _ hx => by cases hx) (by omega)

/-! ## `foldF` -/

mutual
/-- every dynamic type inside the value has depth ≤ `specDynBound` -/
def dynSmall : GoVal → Bool
  | .iface t v => decide (tdepth t ≤ specDynBound) && dynSmall v
  | .slice xs | .array xs | .struct xs => dynSmallL xs
  | .map ms => dynSmallP ms
  | .ptr v => dynSmall v
  | _ => true
def dynSmallL : List GoVal → Bool
  | [] => true
  | x :: xs => dynSmall x && dynSmallL xs
def dynSmallP : List (GoVal × GoVal) → Bool
  | [] => true
  | (_, v) :: ms => dynSmall v && dynSmallP ms
end

theorem dynSmallL_mem {xs : List GoVal} (h : dynSmallL xs = true) {x : GoVal} (hx : x ∈ xs) :
    dynSmall x = true := by
  induction xs with
  | nil => cases hx
  | cons a l ih =>
    simp only [dynSmallL, Bool.and_eq_true] at h
    rcases List.mem_cons.mp hx with rfl | hx'
    · exact h.1
    · exact ih h.2 hx'

theorem dynSmallP_mem {ms : List (GoVal × GoVal)} (h : dynSmallP ms = true) {kx : GoVal × GoVal}
    (hx : kx ∈ ms) : dynSmall kx.2 = true := by
  induction ms with
  | nil => cases hx
  | cons a l ih =>
    obtain ⟨ak, ax⟩ := a
    simp only [dynSmallP, Bool.and_eq_true] at h
    rcases List.mem_cons.mp hx with rfl | hx'
    · exact h.1
    · exact ih h.2 hx'

theorem mapM_ne {ε α β : Type} {f : α → Except ε β} {l : List α} {e : ε}
    (h : ∀ x ∈ l, f x ≠ .error e) : l.mapM f ≠ .error e := by
  induction l with
  | nil => intro h'; cases h'
  | cons a l ih =>
    rw [mapM_cons]
    cases ha : f a with
    | error e' =>
      intro h'
      simp only [Except.error.injEq] at h'
      subst h'
      exact h a (by simp) ha
    | ok b =>
      have := ih (fun x hx => h x (by simp [hx]))
      cases hl : l.mapM f with
      | error e' =>
        intro h'
        simp only [Except.error.injEq] at h'
        subst h'
        exact this hl
      | ok bs => intro h'; cases h'

theorem map_ne {ε α β : Type} {x : Except ε α} {f : α → β} {e : ε} (h : x ≠ .error e) :
    x.map f ≠ .error e := by
  cases x with
  | error e' => intro h'; simp only [Except.map, Except.error.injEq] at h'; subst h'; exact h rfl
  | ok a => intro h'; cases h'

theorem keyOf_err {k : GoVal} {err : RuleErr} (h : keyOf k = .error err) : err = .nonStringKey := by
  cases k <;> simp [keyOf] at h <;> exact h.symm

def NVF (reg : Bool) (N : Nat) : Prop :=
  ∀ sn T v, vdepth v < N → goodT sn T = true → wt T v = true → dynSmall v = true →
    ∀ m, 3 * vdepth v + 1 ≤ m → foldF m reg T v ≠ .error .fuel

def NVI (reg : Bool) (N : Nat) : Prop :=
  ∀ sn T v, vdepth v < N → goodT sn T = true → wt T v = true → dynSmall v = true →
    ∀ m, 3 * vdepth v + 2 ≤ m → inlineF m reg T v ≠ .error .fuel

def NVFld (reg : Bool) (N : Nat) : Prop :=
  ∀ sn f v, vdepth v < N → goodF sn f = true → wt f.typ v = true → dynSmall v = true →
    ∀ m, 3 * vdepth v + 3 ≤ m → fieldF m reg f v ≠ .error .fuel

/-- the fields of a struct value, one by one -/
theorem zip_fields {fs : List Field} {vs : List GoVal} (hw : wtF fs vs = true) (hs : dynSmallL vs = true)
    {fx : Field × GoVal} (h : fx ∈ fs.zip vs) :
    wt fx.1.typ fx.2 = true ∧ dynSmall fx.2 = true ∧ vdepth fx.2 ≤ vdepthL vs ∧ fx.1 ∈ fs := by
  induction fs generalizing vs with
  | nil => simp at h
  | cons f fs ih =>
    cases vs with
    | nil => simp at h
    | cons v vs =>
      simp only [wtF, Bool.and_eq_true] at hw
      simp only [dynSmallL, Bool.and_eq_true] at hs
      simp only [List.zip_cons_cons, List.mem_cons] at h
      simp only [vdepthL]
      rcases h with rfl | h
      · exact ⟨hw.1.1, hs.1, Nat.le_max_left _ _, by simp⟩
      · obtain ⟨a, b, c, d⟩ := ih hw.2 hs.2 h
        exact ⟨a, b, Nat.le_trans c (Nat.le_max_right _ _), by simp [d]⟩

theorem nvf_step (reg : Bool) (N : Nat) (hF : NVF reg N) (hFld : NVFld reg N) : NVF reg (N + 1) := by
  intro sn T v hd hg hw hs m hm
  obtain ⟨m', rfl⟩ := exists_succ (k := 0) (by omega : 0 + 1 ≤ m)
  rw [foldF_under m' reg hg]
  have hgu := good_under hg
  generalize hU : T.under = U at hgu
  cases U with
  | bool | string | int _ | float32 | float64 | chan _ | other _ =>
    cases v <;> intro h <;> cases h
  | named a b c => simp [unnamedHead] at hgu
  | ref a => simp [unnamedHead] at hgu
  | slice e =>
    have he : goodT (snU sn T) e = true := by simpa [goodT] using hgu.1
    rcases wt_slice_inv hU hw with rfl | ⟨xs, rfl, hwl⟩
    · intro h; cases h
    · rw [foldF_slice]
      refine map_ne (mapM_ne ?_)
      intro x hx
      have := vdepthL_mem hx
      rw [vdepth_slice] at hd hm
      exact hF _ e x (by omega) he (wtL_mem hwl hx) (dynSmallL_mem (by simpa [dynSmall] using hs) hx) m' (by omega)
  | array n e =>
    have he : goodT (snU sn T) e = true := by simpa [goodT] using hgu.1
    obtain ⟨xs, rfl, hwl⟩ := wt_array_inv hU hw
    rw [foldF_array]
    refine map_ne (mapM_ne ?_)
    intro x hx
    have := vdepthL_mem hx
    rw [vdepth_array] at hd hm
    exact hF _ e x (by omega) he (wtL_mem hwl hx) (dynSmallL_mem (by simpa [dynSmall] using hs) hx) m' (by omega)
  | map k e =>
    have he : goodT (snU sn T) e = true := by
      have : goodT (snU sn T) k = true ∧ goodT (snU sn T) e = true := by simpa [goodT] using hgu.1
      exact this.2
    rcases wt_map_inv hU hw with rfl | ⟨ms, rfl, hwp, _⟩
    · rw [foldF_map_nil]; split <;> (intro h; cases h)
    · rw [foldF_map]
      split
      · intro h; cases h
      · refine map_ne (mapM_ne ?_)
        intro kx hkx
        unfold entryF
        cases hkk : keyOf kx.1 with
        | error err =>
          have : err = .nonStringKey := keyOf_err hkk
          subst this
          intro h; cases h
        | ok kb =>
          simp only []
          have := vdepthP_mem hkx
          rw [vdepth_map] at hd hm
          have h1 := hF _ e kx.2 (by omega) he (wtP_mem hwp hkx)
            (dynSmallP_mem (by simpa [dynSmall] using hs) hkx) m' (by omega)
          cases hfx : foldF m' reg e kx.2 with
          | error err => intro h; simp only [Except.error.injEq] at h; subst h; exact h1 hfx
          | ok r => intro h; cases h
  | ptr e =>
    have he : goodT (snU sn T) e = true := by simpa [goodT] using hgu.1
    rcases wt_ptr_inv hU hw with rfl | ⟨x, rfl, hx⟩
    · rw [foldF_ptr_nil _ _ _ (customOf_good reg he)]; intro h; cases h
    · rw [foldF_ptr]
      rw [vdepth_ptr] at hd hm
      exact hF _ e x (by omega) he hx (by simpa [dynSmall] using hs) m' (by omega)
  | iface =>
    rcases wt_iface_inv hU hw with rfl | ⟨dt, dv, rfl, hpd, hdd, hwd⟩
    · intro h; cases h
    · rw [foldF_iface]
      simp only [dynSmall, Bool.and_eq_true, decide_eq_true_eq] at hs
      cases htok : typeOk reg dt with
      | error err =>
        simp only []
        intro h
        simp only [Except.error.injEq] at h
        subst h
        exact typeOk_nofuel reg hpd hs.1 htok
      | ok u =>
        simp only []
        rw [vdepth_iface] at hd hm
        exact hF [] dt dv (by omega) hpd hwd hs.2 m' (by omega)
  | struct fs =>
    have hfs : goodFs (snU sn T) fs = true := by simpa [goodT] using hgu.1
    obtain ⟨vs, rfl, hwf⟩ := wt_struct_inv hU hw
    rw [foldF_struct]
    refine map_ne (mapM_ne ?_)
    intro fx hfx
    obtain ⟨h1, h2, h3, h4⟩ := zip_fields hwf (by simpa [dynSmall] using hs) hfx
    rw [vdepth_struct] at hd hm
    exact hFld _ fx.1 fx.2 (by omega) (goodFs_mem hfs h4).1 h1 h2 m' (by omega)

theorem asObject_ne {x : Except RuleErr RVal} (h : x ≠ .error .fuel) :
    (match x with
      | .ok (.obj segs) => (.ok segs : Except RuleErr (List Seg))
      | .ok _ => .error .inlineNeedsObject
      | .error e => .error e) ≠ .error .fuel := by
  cases x with
  | error e => intro h'; simp only [Except.error.injEq] at h'; subst h'; exact h rfl
  | ok r => cases r <;> (intro h'; cases h')

theorem nvi_step (reg : Bool) (N : Nat) (hF1 : NVF reg (N + 1)) (hI : NVI reg N) (hFld : NVFld reg N) :
    NVI reg (N + 1) := by
  intro sn T v hd hg hw hs m hm
  obtain ⟨m', rfl⟩ := exists_succ (k := 0) (by omega : 0 + 1 ≤ m)
  rw [inlineF_under m' reg hg]
  have hgu := good_under hg
  have hwU : wt T.under v = true := by
    conv => lhs; unfold wt
    rw [under_under hg]
    unfold wt at hw
    exact hw
  have hfold : foldF m' reg T.under v ≠ .error .fuel :=
    hF1 _ T.under v hd hgu.1 hwU hs m' (by omega)
  generalize hU : T.under = U at hgu hfold hwU
  cases U with
  | named a b c => simp [unnamedHead] at hgu
  | ref a => simp [unnamedHead] at hgu
  | ptr e =>
    have he : goodT (snU sn T) e = true := by simpa [goodT] using hgu.1
    rcases wt_ptr_inv hU hw with rfl | ⟨x, rfl, hx⟩
    · intro h; cases h
    · have : inlineF (m' + 1) reg (.ptr e) (.ptr x) = inlineF m' reg e x := rfl
      rw [this]
      rw [vdepth_ptr] at hd hm
      exact hI _ e x (by omega) he hx (by simpa [dynSmall] using hs) m' (by omega)
  | struct fs =>
    have hfs : goodFs (snU sn T) fs = true := by simpa [goodT] using hgu.1
    obtain ⟨vs, rfl, hwf⟩ := wt_struct_inv hU hw
    rw [inlineF_struct]
    refine map_ne (mapM_ne ?_)
    intro fx hfx
    obtain ⟨h1, h2, h3, h4⟩ := zip_fields hwf (by simpa [dynSmall] using hs) hfx
    rw [vdepth_struct] at hd hm
    exact hFld _ fx.1 fx.2 (by omega) (goodFs_mem hfs h4).1 h1 h2 m' (by omega)
  | map k e =>
    have : inlineF (m' + 1) reg (.map k e) v =
        match foldF m' reg (.map k e) v with
        | .ok (.obj segs) => .ok segs
        | .ok _ => .error .inlineNeedsObject
        | .error e => .error e := rfl
    rw [this]
    exact asObject_ne hfold
  | iface =>
    rcases wt_iface_inv hU hw with rfl | ⟨dt, dv, rfl, _, _, _⟩
    · intro h; cases h
    · have : inlineF (m' + 1) reg .iface (.iface dt dv) =
          match foldF m' reg .iface (.iface dt dv) with
          | .ok (.obj segs) => .ok segs
          | .ok _ => .error .inlineNeedsObject
          | .error e => .error e := rfl
      rw [this]
      exact asObject_ne hfold
  | _ => cases v <;> intro h <;> cases h

theorem nvfld_step (reg : Bool) (N : Nat) (hF : NVF reg N) (hI : NVI reg N) : NVFld reg N := by
  intro sn f v hd hg hw hs m hm
  obtain ⟨m', rfl⟩ := exists_succ (k := 0) (by omega : 0 + 1 ≤ m)
  rw [fieldF_eq]
  have hpt := goodF_typ hg
  have hfold := hF sn f.typ v hd hpt hw hs m' (by omega)
  cases fieldKind f with
  | drop => intro h; cases h
  | conflict => intro h; cases h
  | inline => exact hI sn f.typ v hd hpt hw hs m' (by omega)
  | omitEmpty name =>
    simp only []
    split
    · intro h; cases h
    · exact map_ne hfold
  | plain name => exact map_ne hfold

theorem nofuel_val_all (reg : Bool) : ∀ N, NVF reg N ∧ NVI reg N ∧ NVFld reg N := by
  intro N
  induction N with
  | zero =>
    refine ⟨?_, ?_, ?_⟩
    · intro sn T v hd; omega
    · intro sn T v hd; omega
    · intro sn f v hd; omega
  | succ N ih =>
    obtain ⟨hF, hI, hFld⟩ := ih
    have hF1 := nvf_step reg N hF hFld
    have hI1 := nvi_step reg N hF1 hI hFld
    exact ⟨hF1, hI1, nvfld_step reg (N + 1) hF1 hI1⟩

/-- the specification does not run out of fuel on a typed value whose depth it has fuel for -/
theorem foldF_nofuel (reg : Bool) {sn : List String} {T : GoType} {v : GoVal} (hg : goodT sn T = true)
    (hw : wt T v = true) (hs : dynSmall v = true) {m : Nat} (hm : 3 * vdepth v + 1 ≤ m) :
    foldF m reg T v ≠ .error .fuel :=
  (nofuel_val_all reg (vdepth v + 1)).1 sn T v (Nat.lt_succ_self _) hg hw hs m hm

end SF.FoldProofs
