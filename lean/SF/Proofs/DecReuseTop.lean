/-
  C17 — "after an instance has completely processed any sequence of documents, its behaviour on
  the next document is identical to that of a newly created instance" — for the UBJSON PULL
  DECODER (mirror SF/Ubjson/Dec.lean), for EVERY rest of the stream (grammatical, malformed,
  truncated, anything) — the counterpart of `json_decoder_reuse` (SF/Proofs/JsonReuseTop.lean)
  and of `ubj_parser_reuse_any` (SF/Proofs/UbjBridgeTop.lean).

  `ubj_decoder_frame`    a decoder whose parser is `p` behind a frame (`Fr v E0 p`: the events
                         `E0` delivered before, another value in the scratch field `valueType`)
                         gives, on ANY buffered bytes and ANY read script, the trace of the
                         same decoder with the parser `p`, behind `E0`.  No proviso.
  `ubj_decoder_reuse`    the stream is `k` grammatical items (no-ops anywhere the grammar allows;
                         cut into reads in any way) followed by ANY bytes `tail`: the first `k`
                         calls succeed, the decoder `d'` then holds exactly `tail`
                         (`stream d' = tail`), and the following calls give the trace of the
                         decoder `setP d' {}` — the same buffer and reader, a NEW parser —
                         behind the events of the `k` items.  Side condition: the one of
                         `reader_decoder_stream` (model fuel, per item of the history).
  `ubj_decoder_reuse_new` … and that is the trace of ANY new decoder (`NewDecoder` over any read
                         script with concatenation `tail`, any buffer size ≥ 1, either
                         `lastEOF`; `NewBytesDecoder tail`) PROVIDED neither trace contains
                         `outOfFuel` — the proviso of `reader_chunking_independent` (the model's
                         per-buffer parser fuel: SF/Proofs/UbjDecTop.lean, header).
  (UBJSON statements: namespace `SF.Props.DecReuse`.)

  RESTRICTION compared with the JSON statement: the HISTORY is a stream of grammatical items
  (as in `ubj_parser_reuse_any`), not "whatever the first k calls succeeded on"; by the converse
  theorem for the parser (SF/Proofs/UbjConverseTop.lean) accepted input is such a stream up to
  no-ops between a key and its value.  The rest of the stream is arbitrary.

  CBOR (namespace `SF.Props.DecReuseCbor`; mirrors SF/Cbor/Parse.lean, SF/Cbor/Dec.lean) — at FULL
  strength, no proviso, the history being whatever the calls succeeded on:
  `cbor_parser_frame`      `Parse` / `Write*` commute with the event-log frame `FrC E0` (the events
                           `E0` delivered before; a visitor fault index shifted) from EVERY parser
                           state, for ALL input and chunkings.
  `cbor_parser_reuse_any`  after ANY history of ACCEPTED `Parse` calls the parser IS a new parser
                           up to the event log (`idle evs`), and for EVERY probe byte string it
                           returns the verdict, delivers the events and ends in the state (up to
                           the frame) of a new parser.
  `cbor_decoder_reuse`     after `k` successful calls of `Next` on a decoder with a new parser —
                           ANY bytes, ANY read script — the trace of the following calls on the
                           rest of the stream (ANY bytes) is the trace of ANY new decoder (over any
                           read script with that concatenation, or the byte slice) behind the
                           events already delivered.

  Helper files: SF/Proofs/UbjDecFrame.lean; SF/Proofs/CborFrame.lean (every step function and
  `feedUntil` commute with the frame), CborDecFrame.lean (`feed`, `Parse`, `Write*`, `Next`),
  CborDecReuse.lean (a step that reports `done` ends in the idle state; `Between`).
-/
import SF.Proofs.UbjDecFrame
import SF.Proofs.UbjDecTop
import SF.Proofs.CborDecReuse
set_option linter.unusedSimpArgs false
set_option linter.unusedVariables false
namespace SF.Props.DecReuse
open SF SF.Ubjson SF.Ubjson.Parse SF.Ubjson.Dec SF.Ubjson.Syn SF.Ubjson.DecR

/-- THE FRAME THEOREM for the UBJSON pull decoder.  `d`: any decoder between two calls on
arbitrary input (`ReadyA`: the invariant of the reachable parser states, nothing pending, a
buffer of at least one byte if there is a reader); `v`: any value of the scratch field
`valueType` — unless a typed-array header state is live (`VtOk`; never between two documents).
The decoder with the parser `Fr v E0 d.p` gives, for EVERY buffered bytes and read script, the
trace of `d` behind the events `E0` -/
theorem ubj_decoder_frame (E0 : List Ev) (f : Dec → Nat) (hf : Enough f) (n : Nat) (d : Dec) (v : Nat)
    (hd : ReadyA d) (hv : VtOk v d.p) :
    nextsF f n (setP d (Fr v E0 d.p)) = frameTrace E0.reverse (nextsF f n d) :=
  nextsF_fr E0 f hf n d v hd hv

/-- a decoder between two documents, with a NEW parser -/
theorem readyA_setP_new (d : Dec) (E : List Ev) (vt : Nat) (h : Ready d E vt) : ReadyA (setP d {}) :=
  ⟨h.rd, good_default, pending_idle [] BT.any, h.bs⟩

/-- C17 for the UBJSON PULL DECODER.  `d0`: a decoder with a new parser (`Ready d0 [] vt`:
`NewDecoder` over any script, `NewBytesDecoder`) whose stream is the wire form of the
grammatical items `xs` (each after its no-ops) followed by ANY bytes `tail`.  Then the first
`xs.length` calls succeed (`okTrace`: `.ok` with the events so far), the decoder `d'` after them
is idle — its parser is a new parser that has delivered the items' events (and holds `vt'` in
the scratch field) — with exactly `tail` still to come, and EVERY further call behaves on `tail`
as on the decoder `setP d' {}` (same buffer, same reader, NEW parser): same results, same events
after those of the history -/
theorem ubj_decoder_reuse (f : Dec → Nat) (hf : Enough f) (xs : List (Nat × Item)) (hok : okElems xs = true)
    (hc : ∀ nx ∈ xs, nx.1 + vcost nx.2 + 2 ≤ 2000000) (tail : Bytes)
    (d0 : Dec) (vt : Nat) (hd : Ready d0 [] vt) (hs : stream d0 = wireElems xs ++ tail) :
    ∃ d' vt', Ready d' (evElems xs).reverse vt' ∧ stream d' = tail ∧ ReadyA (setP d' {}) ∧
      stream (setP d' {}) = tail ∧
      ∀ k, nextsF f k d' = frameTrace (evElems xs) (nextsF f k (setP d' {})) ∧
        nextsF f (xs.length + k) d0 = okTrace [] xs ++ frameTrace (evElems xs) (nextsF f k (setP d' {})) := by
  obtain ⟨d', vt', g1, g2, g3⟩ := nextsG_items fuelFor 1999999 (lt_fuelFor _ (by omega)) f hf xs hok
    (fun nx h => by have := hc nx h; omega) tail d0 [] vt hd hs
  simp only [List.append_nil] at g1
  have hra := readyA_setP_new d' _ vt' g1
  have hfr : ∀ k, nextsF f k d' = frameTrace (evElems xs) (nextsF f k (setP d' {})) := by
    intro k
    have hd' : d' = setP (setP d' {}) (Fr vt' (evElems xs).reverse (setP d' {}).p) := by
      have hp := g1.p
      cases d'
      simp only at hp
      subst hp
      rfl
    have := ubj_decoder_frame (evElems xs).reverse f hf k (setP d' {}) vt' hra (vtOk_idle vt' [] BT.any)
    rw [← hd', List.reverse_reverse] at this
    exact this
  refine ⟨d', vt', g1, g2, hra, g2, fun k => ⟨hfr k, ?_⟩⟩
  rw [nextsF_eq_nextsG, g3 k, ← nextsF_eq_nextsG, hfr k]
  rfl

/-- … and the decoder `setP d' {}` behaves as ANY decoder `dn` with a new parser that is going to
see the same bytes (`NewDecoder` over any script with that concatenation, any buffer size ≥ 1,
either `lastEOF`, or `NewBytesDecoder`), PROVIDED neither trace contains `outOfFuel` (the model's
per-buffer parser fuel; the proviso of `reader_chunking_independent`) -/
theorem ubj_decoder_reuse_new (f : Dec → Nat) (hf : Enough f) (d' : Dec) (hra : ReadyA (setP d' {}))
    (dn : Dec) (hdn : ReadyA dn) (hpn : dn.p = {}) (hs : stream dn = stream d') (k : Nat)
    (hno₁ : ∀ y ∈ nextsF f k (setP d' {}), y.1 ≠ .err .outOfFuel)
    (hno₂ : ∀ y ∈ nextsF f k dn, y.1 ≠ .err .outOfFuel) :
    nextsF f k (setP d' {}) = nextsF f k dn :=
  nextsF_congr f f hf hf k _ _ hra hdn (by rw [hpn]; rfl) (by rw [hs]; rfl) hno₁ hno₂

/-- the two kinds of new decoder satisfy the hypotheses of `ubj_decoder_reuse` (as `d0`) and of
`ubj_decoder_reuse_new` (as `dn`) -/
theorem ready_newDecoder (cs : List Bytes) (e : Bool) (n : Nat) (hn : 1 ≤ n) : Ready (newDecoder cs e n) [] BT.any :=
  ⟨Or.inl rfl, rfl, fun _ => hn⟩

theorem ready_newBytesDecoder (b : Bytes) : Ready (newBytesDecoder b) [] BT.any :=
  ⟨Or.inr ⟨rfl, rfl⟩, rfl, fun h => by simp [newBytesDecoder] at h⟩


/-- `[$i#i 1 1`, `N T` -/
def histU : List (Nat × Item) := [(0, .arrT 0x69 .i [.int .i8 1]), (1, .tru)]

/-- non-vacuity: the history `[$i#i 1 1` (a typed array: it leaves `valueType = int8` behind)
and `N T`, read through a 2-byte buffer from a script with a `(0, nil)` read; then a MALFORMED
rest (`[$S#i 2 i 1 a`: the second string is cut), a malformed object / a
TRUNCATED rest (`[$i i 1`).  After 2 successful calls the following calls give the trace of a
new byte-slice decoder on the rest, behind the 4 events of the history -/
example :
    okElems histU = true ∧ (∀ nx ∈ histU, nx.1 + vcost nx.2 + 2 ≤ 2000000) ∧
    (∀ tail ∈ ([[0x5b, 0x24, 0x53, 0x23, 0x69, 0x02, 0x69, 0x01, 0x61], [0x5b, 0x24, 0x69, 0x69, 0x01],
                [0x7b, 0x23, 0x69, 0x01, 0x69, 0x01, 0x61, 0x21]] : List Bytes),
      nexts 4 (newDecoder [(wireElems histU).take 3, [], (wireElems histU).drop 3 ++ tail] true 2) =
        okTrace [] histU ++ frameTrace (evElems histU) (nexts 2 (newBytesDecoder tail)) ∧
      (nexts 2 (newBytesDecoder tail)).length = 1 ∧
      (nexts 2 (newBytesDecoder tail)).all (fun y => y.1 != .ok && y.1 != .eof) = true) := by
  decide +kernel

end SF.Props.DecReuse

/-! # CBOR -/

namespace SF.Props.DecReuseCbor
open SF SF.Cbor SF.Cbor.Cst SF.Cbor.Parse SF.Cbor.Dec SF.Cbor.DecR
open SF.Cbor.Frame (FrC setP frameTrace)

/-! ## the parser -/

/-- THE FRAME THEOREM for the CBOR parser: `Parse` commutes with the event-log frame — from EVERY
parser state `p` and for ALL byte strings.  (`FrC E0 p`: `p` with the events `E0` delivered
before; a visitor fault index is shifted by their number.) -/
theorem cbor_parser_frame (E0 : List Ev) (p : P) (b : Bytes) :
    parse (FrC E0 p) b = (FrC E0 (parse p b).1, (parse p b).2) :=
  SF.Cbor.Frame.parse_fr E0 p b

/-- … `Write` per chunk + end of input, any chunking -/
theorem cbor_parser_frame_chunks (E0 : List Ev) (p : P) (cs : List Bytes) :
    writeChunks (FrC E0 p) cs = (FrC E0 (writeChunks p cs).1, (writeChunks p cs).2) :=
  SF.Cbor.Frame.writeChunks_fr E0 cs p

theorem idle_eq_fr (evs : List Ev) : idle evs = FrC evs {} := rfl

theorem fr_idle (E0 evs : List Ev) : FrC E0 (idle evs) = idle (evs ++ E0) := rfl

/-- an ACCEPTED `Parse` on a new parser — of ANY byte string — leaves exactly a new parser that
has delivered events -/
theorem cbor_parse_accepted_idle (b : Bytes) (h : (parse {} b).2 = none) :
    (parse {} b).1 = idle (parse {} b).1.evs := by
  obtain ⟨its, h1, rfl⟩ := (SF.Cbor.Term.parse_accepts_iff b).mp h
  rw [SF.Cbor.Term.parse_supported_w its h1]
  rfl

/-- the parser after a sequence of `Parse` calls -/
def parseSeq (p : P) (texts : List Bytes) : P := texts.foldl (fun q b => (parse q b).1) p

/-- every `Parse` of the history was accepted -/
def Accepted (p : P) : List Bytes → Prop
  | [] => True
  | b :: bs => (parse p b).2 = none ∧ Accepted (parse p b).1 bs

theorem parseSeq_idle (hist : List Bytes) : ∀ evs : List Ev, Accepted (idle evs) hist →
    ∃ evs', parseSeq (idle evs) hist = idle evs' := by
  induction hist with
  | nil => intro evs _; exact ⟨evs, rfl⟩
  | cons b bs ih =>
    intro evs h
    obtain ⟨h1, h2⟩ := h
    have hfr := cbor_parser_frame evs {} b
    rw [← idle_eq_fr] at hfr
    rw [hfr] at h1 h2
    simp only at h1 h2
    have hi := cbor_parse_accepted_idle b h1
    simp only [parseSeq, List.foldl_cons]
    rw [hfr]
    simp only
    rw [hi, fr_idle] at h2 ⊢
    exact ih _ h2

/-- C17 for the CBOR parser, entry point `Parse`, at full strength: after ANY history of ACCEPTED
`Parse` calls on one parser (any byte strings it accepted) the parser is exactly a new parser up
to the event log, and for EVERY probe byte string (grammatical, malformed, truncated, …) it
returns the verdict a NEW parser returns, delivers exactly the events a new parser delivers
(after those of the history), and ends in the state a new parser ends in, behind the frame -/
theorem cbor_parser_reuse_any (hist : List Bytes) (hh : Accepted {} hist) (probe : Bytes) :
    parseSeq {} hist = idle (parseSeq {} hist).evs ∧
    (parse (parseSeq {} hist) probe).2 = (parse {} probe).2 ∧
    Parse.events (parse (parseSeq {} hist) probe).1 =
      Parse.events (parseSeq {} hist) ++ Parse.events (parse {} probe).1 ∧
    (parse (parseSeq {} hist) probe).1 = FrC (parseSeq {} hist).evs (parse {} probe).1 := by
  obtain ⟨evs', h⟩ := parseSeq_idle hist [] hh
  have h' : parseSeq {} hist = idle evs' := h
  rw [h']
  have hfr := cbor_parser_frame evs' {} probe
  rw [← idle_eq_fr] at hfr
  refine ⟨rfl, by rw [hfr], ?_, by rw [hfr]; rfl⟩
  rw [hfr, SF.Cbor.Frame.events_fr]
  simp [Parse.events, idle]

/-! ## the pull decoder -/

/-- C17 for the CBOR PULL DECODER, general form.  `d0`: a decoder with a new parser (over any
read script, or `NewBytesDecoder`).  If its first `k` calls of `Next` succeed — `k` documents
completely processed, ANY bytes; `d` is the decoder then, `stream d` what it is still going to
see — then the following `m` calls give, on ANY rest of the stream (valid, invalid, truncated),
exactly the trace of ANY decoder `dn` with a new parser that is going to see the same bytes —
results equal, events equal after those already delivered.  `f`, `f'`: any sufficient fuels. -/
theorem cbor_decoder_reuse (f f' : Dec → Nat) (hf : Enough f) (hf' : Enough f') (d0 : Dec) (hr0 : RdOK d0)
    (hp0 : d0.p = {}) (k : Nat) (d : Dec) (hk : afterOk f k d0 = some d)
    (dn : Dec) (hrn : RdOK dn) (hpn : dn.p = {}) (hs : stream dn = stream d) (m : Nat) :
    nextsF f m d = frameTrace (Parse.events d.p) (nextsF f' m dn) ∧
    nextsF f (k + m) d0 = nextsF f k d0 ++ frameTrace (Parse.events d.p) (nextsF f' m dn) ∧
    (nextsF f k d0).length = k ∧ (∀ x ∈ nextsF f k d0, x.1 = .ok) ∧ (∃ evs, d.p = idle evs) := by
  have hb := between_afterOk f hf k d0 d (between_new d0 hr0 hp0) hk
  have ht := between_trace f f' hf hf' d hb dn hrn hpn hs m
  obtain ⟨j1, j2, j3⟩ := nextsF_afterOk f k m d0 d hk
  exact ⟨ht, by rw [j1, ht], j2, j3, hb.p⟩

/-- … READER-DRIVEN decoder over the script `cs`; the new decoder over ANY script `cs'` whose
concatenation is the rest of the stream, and the byte-slice decoder on the rest -/
theorem cbor_reader_decoder_reuse (f f' : Dec → Nat) (hf : Enough f) (hf' : Enough f') (cs : List Bytes) (k : Nat)
    (d : Dec) (hk : afterOk f k { reads := cs } = some d) (cs' : List Bytes) (hcs : cs'.flatten = stream d) (m : Nat) :
    nextsF f m d = frameTrace (Parse.events d.p) (nextsF f' m { reads := cs' }) ∧
    nextsF f m d = frameTrace (Parse.events d.p) (nextsF f' m { hasReader := false, buffer := stream d }) ∧
    nextsF f (k + m) { reads := cs } =
      nextsF f k { reads := cs } ++ frameTrace (Parse.events d.p) (nextsF f' m { reads := cs' }) := by
  obtain ⟨h1, h2, _⟩ := cbor_decoder_reuse f f' hf hf' { reads := cs } (Or.inl rfl) rfl k d hk
    { reads := cs' } (Or.inl rfl) rfl (by simp [stream, hcs]) m
  obtain ⟨h3, _⟩ := cbor_decoder_reuse f f' hf hf' { reads := cs } (Or.inl rfl) rfl k d hk
    { hasReader := false, buffer := stream d } (Or.inr rfl) rfl (by simp [stream]) m
  exact ⟨h1, h3, h2⟩

/-- … BYTE-SLICE decoder -/
theorem cbor_bytes_decoder_reuse (f f' : Dec → Nat) (hf : Enough f) (hf' : Enough f') (b : Bytes) (k : Nat)
    (d : Dec) (hk : afterOk f k { hasReader := false, buffer := b } = some d) (m : Nat) :
    nextsF f m d = frameTrace (Parse.events d.p) (nextsF f' m { hasReader := false, buffer := stream d }) ∧
    nextsF f (k + m) { hasReader := false, buffer := b } =
      nextsF f k { hasReader := false, buffer := b } ++
        frameTrace (Parse.events d.p) (nextsF f' m { hasReader := false, buffer := stream d }) := by
  obtain ⟨h1, h2, _⟩ := cbor_decoder_reuse f f' hf hf' { hasReader := false, buffer := b } (Or.inr rfl) rfl k d hk
    { hasReader := false, buffer := stream d } (Or.inr rfl) rfl (by simp [stream]) m
  exact ⟨h1, h2⟩

/-! ## non-vacuity, evaluated by the kernel -/

/-- the history of the examples: `[1, -200]` and the text `"a"` -/
def histC : List Bytes := [[0x82, 0x01, 0x38, 0xc7], [0x61, 0x61]]

/-- the probes: `0x1c` (a MALFORMED head), `0x82 0x01` (a TRUNCATED array), `"a"` followed by a stray
break (a text, then an error), `{"a": 1.5}` (accepted) -/
def probesC : List Bytes := [[0x1c], [0x82, 0x01], [0x61, 0x61, 0xff], [0xa1, 0x61, 0x61, 0xfa, 0x3f, 0xc0, 0x00, 0x00]]

example : Accepted {} histC := ⟨by decide +kernel, by decide +kernel, trivial⟩

/-- `cbor_parser_reuse_any` on the examples: same verdicts (three errors), same events after the 5
of the history -/
example :
    (parseSeq {} histC).evs.length = 5 ∧
    probesC.map (fun b => (parse {} b).2) = [some .invalidCode, some .incomplete, some .invalidCode, none] ∧
    (∀ probe ∈ probesC,
      (parse (parseSeq {} histC) probe).2 = (parse {} probe).2 ∧
      Parse.events (parse (parseSeq {} histC) probe).1 =
        Parse.events (parseSeq {} histC) ++ Parse.events (parse {} probe).1 ∧
      (parse (parseSeq {} histC) probe).1 = FrC (parseSeq {} histC).evs (parse {} probe).1) := by
  decide +kernel

/-- `cbor_decoder_reuse` on the examples: the stream `[1, -200] "a"` ++ probe, cut inside the array
and with a `(0, nil)` read; after 2 successful calls the rest of the stream is the probe and the
calls that follow give the trace of a new byte-slice decoder on the probe behind the 5 events -/
example :
    ∀ probe ∈ probesC,
      (afterOk nextFuel 2 { reads := [[0x82, 0x01, 0x38], [], [0xc7, 0x61], [0x61] ++ probe] }).map
          (fun d => (stream d, nexts 3 d)) =
        some (probe, frameTrace
          [.arrStart 2 BT.any, .num .u8 1, .num .i16 (-200), .arrEnd, .str [0x61]]
          (nexts 3 { hasReader := false, buffer := probe })) := by
  decide +kernel

example :
    probesC.map (fun b => (nexts 3 { hasReader := false, buffer := b }).map (·.1)) =
      [[.err .invalidCode], [.unexpectedEOF], [.ok, .err .invalidCode], [.ok, .eof]] := by
  decide +kernel

end SF.Props.DecReuseCbor
