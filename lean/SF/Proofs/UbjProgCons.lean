/-
  C03 no-hang (UBJSON): bytes are conserved — every step leaves `rest` no longer than its
  input, and what leaves the input is consumed or goes to the partial-token buffer.
-/
import SF.Proofs.UbjProgLoop
namespace SF.Ubjson.Parse
open SF SF.Ubjson
open StateType StateStep

/-! ## bytes are never created: the unread input only shrinks, and what leaves it goes to the
partial-token buffer or is consumed -/

/-- `rest` is no longer than `b`, and `rest` + buffer no longer than `b` + old buffer -/
def Cons (p : P) (b : Bytes) (r : R) : Prop :=
  r.rest.length ≤ b.length ∧ r.rest.length + r.p.buffer.length ≤ b.length + p.buffer.length

theorem collect_cons (buffer b : Bytes) (n : Nat) :
    (collect buffer b n).2.1.length ≤ b.length ∧
    (collect buffer b n).2.1.length + (collect buffer b n).1.length ≤ b.length + buffer.length := by
  unfold collect
  simp only []
  repeat' split
  all_goals simp only [List.length_append, List.length_take, List.length_drop, List.length_nil]
  all_goals omega

/-- close a leaf: lengths of explicit results -/
macro "cons_leaf" : tactic =>
  `(tactic| (refine ⟨?_, ?_⟩ <;>
    first
    | omega
    | (simp only [addEv, advanceMarker, pushState, pushLen, popLen, decLen, setCurrent, setStep, setType, popState,
        popLenState, popValueState, panicR, List.length_cons, List.length_nil] at * <;> omega)))

theorem Cons.setDone {p : P} {b : Bytes} {r : R} (h : Cons p b r) (d : Bool) : Cons p b { r with done := d } := h

theorem lenFin_cons (cont : St) (p : P) (b : Bytes) (L : Int) (p0 : P) (b0 : Bytes)
    (h : b.length ≤ b0.length ∧ b.length + p.buffer.length ≤ b0.length + p0.buffer.length) :
    Cons p0 b0 (lenFin cont p b L) := by
  unfold lenFin
  split
  · cons_leaf
  · cons_leaf

theorem lenColl_cons (cont : St) (p : P) (b : Bytes) (n : Nat) (rd : Bytes → Int) (p0 : P) (b0 : Bytes)
    (h : b.length ≤ b0.length ∧ b.length + p.buffer.length ≤ b0.length + p0.buffer.length) :
    Cons p0 b0 (match collectP p b n with
      | (p, rest, none) => ({ p := p, rest := rest } : R)
      | (p, rest, some tmp) => lenFin cont p rest (rd tmp)) := by
  have h2 := collect_cons p.buffer b n
  rcases hc : collectP p b n with ⟨q, rest, tmp⟩
  have hq : q.buffer = (collect p.buffer b n).1 := by
    have : q = (collectP p b n).1 := by rw [hc]
    rw [this]; rfl
  have hr : rest = (collect p.buffer b n).2.1 := by
    have : rest = (collectP p b n).2.1 := by rw [hc]
    rw [this]; rfl
  rw [← hq, ← hr] at h2
  cases tmp with
  | none => exact ⟨by simp only []; omega, by simp only []; omega⟩
  | some t => exact lenFin_cons cont q rest _ p0 b0 ⟨by omega, by omega⟩

theorem lenValue_cons (cont : St) (p : P) (b : Bytes) (p0 : P) (b0 : Bytes)
    (h : b.length ≤ b0.length ∧ b.length + p.buffer.length ≤ b0.length + p0.buffer.length) :
    Cons p0 b0 (lenValue cont p b) := by
  unfold lenValue
  simp only []
  split
  · split
    · cons_leaf
    · exact lenFin_cons _ _ _ _ _ _ (by cons_leaf)
  split
  · split
    · cons_leaf
    · exact lenFin_cons _ _ _ _ _ _ (by cons_leaf)
  split
  · exact lenColl_cons _ _ _ _ _ _ _ h
  split
  · exact lenColl_cons _ _ _ _ _ _ _ h
  split
  · exact lenColl_cons _ _ _ _ _ _ _ h
  cons_leaf

theorem stepLen_cons (p : P) (b : Bytes) (cont : St) : Cons p b (stepLen p b cont) := by
  rw [stepLen_eq]
  split
  · split
    · cons_leaf
    · simp only []
      split
      · split
        · cons_leaf
        · exact lenValue_cons _ _ _ _ _ (by cons_leaf)
      · cons_leaf
  · exact lenValue_cons _ _ _ _ _ (by cons_leaf)

theorem stepValue_cons (p : P) (b : Bytes) : Cons p b (stepValue p b) := by
  unfold stepValue
  cases b with
  | nil => cons_leaf
  | cons x bs =>
    simp only []
    split
    · cons_leaf
    · split <;> (try simp only [visit_eq]) <;> cons_leaf


theorem collectP_cons (p : P) (b : Bytes) (n : Nat) :
    (collectP p b n).2.1.length ≤ b.length ∧
    (collectP p b n).2.1.length + (collectP p b n).1.buffer.length ≤ b.length + p.buffer.length :=
  collect_cons p.buffer b n

/-- a configuration `(p, b)` that lies after `(p0, b0)` -/
def After (p0 : P) (b0 : Bytes) (p : P) (b : Bytes) : Prop :=
  b.length ≤ b0.length ∧ b.length + p.buffer.length ≤ b0.length + p0.buffer.length

theorem After.refl (p : P) (b : Bytes) : After p b p b := ⟨Nat.le_refl _, Nat.le_refl _⟩

theorem After.collect {p0 p : P} {b0 b : Bytes} (h : After p0 b0 p b) (n : Nat) :
    After p0 b0 (collectP p b n).1 (collectP p b n).2.1 := by
  have := collectP_cons p b n
  exact ⟨by have := h.1; omega, by have := h.2; omega⟩

theorem fixFin_cons (p : P) (b : Bytes) (done : Bool) (err : Option Err) (p0 : P) (b0 : Bytes)
    (h : After p0 b0 p b) : Cons p0 b0 (fixFin p b done err) := by
  obtain ⟨h1, h2⟩ := h
  unfold fixFin
  split <;> cons_leaf

theorem fixNow_cons (p : P) (b : Bytes) (e : Ev) (p0 : P) (b0 : Bytes) (h : After p0 b0 p b) :
    Cons p0 b0 (let (q, err) := visit p e; fixFin q b true err) := by
  simp only [visit_eq]
  exact fixFin_cons _ _ _ _ _ _ h

theorem fixColl_cons (p : P) (b : Bytes) (n : Nat) (mk : Bytes → Ev) :
    Cons p b (match collectP p b n with
      | (p, rest, none) => fixFin p rest false none
      | (p, rest, some tmp) => let (p, err) := visit p (mk tmp); fixFin p rest true err) := by
  have h2 := (After.refl p b).collect n
  rcases hc : collectP p b n with ⟨q, rest, tmp⟩
  rw [hc] at h2
  cases tmp with
  | none => exact fixFin_cons _ _ _ _ _ _ h2
  | some t => exact fixNow_cons _ _ _ _ _ h2

theorem stepFixedValue_cons (p : P) (b : Bytes) : Cons p b (stepFixedValue p b) := by
  rw [stepFixedValue_eq]
  split
  · exact fixNow_cons _ _ _ _ _ (After.refl p b)
  · exact fixFin_cons _ _ _ _ _ _ (After.refl p b)
  · exact fixNow_cons _ _ _ _ _ (After.refl p b)
  · exact fixNow_cons _ _ _ _ _ (After.refl p b)
  · cases b with
    | nil => cons_leaf
    | cons x bs => exact fixNow_cons _ _ _ _ _ ⟨by simp, by simp [List.length_cons]⟩
  · cases b with
    | nil => cons_leaf
    | cons x bs => exact fixNow_cons _ _ _ _ _ ⟨by simp, by simp [List.length_cons]⟩
  · exact fixColl_cons _ _ _ _
  · exact fixColl_cons _ _ _ _
  · exact fixColl_cons _ _ _ _
  · exact fixColl_cons _ _ _ _
  · exact fixColl_cons _ _ _ _
  · exact fixColl_cons _ _ _ _
  · cons_leaf

theorem strFin_cons (p : P) (b : Bytes) (done : Bool) (err : Option Err) (p0 : P) (b0 : Bytes)
    (h : After p0 b0 p b) : Cons p0 b0 (strFin p b done err) := by
  obtain ⟨h1, h2⟩ := h
  unfold strFin
  split <;> cons_leaf

theorem strWithLen_cons (p : P) (b : Bytes) (p0 : P) (b0 : Bytes) (h : After p0 b0 p b) :
    Cons p0 b0 (strWithLen p b) := by
  unfold strWithLen
  simp only []
  split
  · simp only [visit_eq]; exact strFin_cons _ _ _ _ _ _ h
  · split
    · obtain ⟨h1, h2⟩ := h; cons_leaf
    · have h2 := h.collect p.length.current.toNat
      rcases hc : collectP p b p.length.current.toNat with ⟨q, rest, tmp⟩
      rw [hc] at h2
      cases tmp with
      | none => exact strFin_cons _ _ _ _ _ _ h2
      | some t => simp only [visit_eq]; exact strFin_cons _ _ _ _ _ _ h2

theorem stepString_cons (p : P) (b : Bytes) : Cons p b (stepString p b) := by
  rw [stepString_eq]
  split
  · have hl := stepLen_cons p b (p.state.current.withStep stWithLen)
    simp only []
    split
    · exact strFin_cons _ _ _ _ _ _ hl
    · exact strWithLen_cons _ _ _ _ hl
  · exact strWithLen_cons _ _ _ _ (After.refl p b)
  · exact strFin_cons _ _ _ _ _ _ (After.refl p b)


/-- split on the outcome of a visitor call -/
macro "verr_split " q:term : tactic =>
  `(tactic| (rcases verr_cases $q with hve | hve <;> rw [hve] <;> simp only []))

theorem stepArrayInit_cons (p : P) (b : Bytes) : Cons p b (stepArrayInit p b) := by
  unfold stepArrayInit
  cases b with
  | nil => cons_leaf
  | cons x bs =>
    simp only []
    split
    · cons_leaf
    split
    · cons_leaf
    · simp only [visit_eq]; cons_leaf

theorem stepArrayDyn_cons (p : P) (b : Bytes) : Cons p b (stepArrayDyn p b) := by
  unfold stepArrayDyn
  cases b with
  | nil => cons_leaf
  | cons x bs =>
    simp only []
    split
    · simp only [visit_eq]
      verr_split p <;> cons_leaf
    · refine Cons.setDone ?_ false
      split
      · exact stepValue_cons (setStep p stCont) (x :: bs)
      · exact stepValue_cons p (x :: bs)

theorem acContent_cons (l : Int) (b : Bytes) (p p0 : P) (hb : p.buffer = p0.buffer) : Cons p0 b (acContent l b p) := by
  have hb' : p.buffer.length = p0.buffer.length := by rw [hb]
  unfold acContent
  split
  · simp only [visit_eq]
    verr_split p <;> cons_leaf
  · cases b with
    | nil => cons_leaf
    | cons x bs =>
      simp only []
      split
      · cons_leaf
      · have := stepValue_cons (decLen p) (x :: bs)
        exact ⟨this.1, by have := this.2; simp only [decLen] at this ⊢; omega⟩

theorem stepArrayCount_cons (p : P) (b : Bytes) : Cons p b (stepArrayCount p b) := by
  rw [stepArrayCount_eq]
  split
  · exact (stepLen_cons p b _).setDone false
  · split
    · simp only [visit_eq]
      split
      · cons_leaf
      · exact acContent_cons _ _ _ _ rfl
    · exact acContent_cons _ _ _ _ rfl

theorem stepType_cons (p : P) (b : Bytes) (cont : St) : Cons p b (stepType p b cont) := by
  unfold stepType
  cases b with
  | nil => cons_leaf
  | cons x bs =>
    simp only []
    split
    · cons_leaf
    · split <;> cons_leaf

theorem stepTypeLenHeader_cons (p : P) (b : Bytes) (cont : StateStep) : Cons p b (stepTypeLenHeader p b cont) := by
  unfold stepTypeLenHeader
  simp only []
  split
  · exact stepType_cons _ _ _
  · cases b with
    | nil => cons_leaf
    | cons x bs =>
      simp only []
      split <;> cons_leaf
  · exact stepLen_cons _ _ _
  · cons_leaf

theorem atContent_cons (l : Int) (b : Bytes) (p p0 : P) (hb : p.buffer = p0.buffer) : Cons p0 b (atContent l b p) := by
  have hb' : p.buffer.length = p0.buffer.length := by rw [hb]
  unfold atContent
  split
  · simp only [visit_eq]
    verr_split p <;> cons_leaf
  · cons_leaf

theorem stepArrayTyped_cons (p : P) (b : Bytes) : Cons p b (stepArrayTyped p b) := by
  rw [stepArrayTyped_eq]
  split
  · exact (stepTypeLenHeader_cons p b _).setDone false
  · split
    · simp only [visit_eq]
      verr_split (setStep p stCont)
      · exact atContent_cons _ _ _ _ rfl
      · cons_leaf
    · exact atContent_cons _ _ _ _ rfl

theorem stepObjectInit_cons (p : P) (b : Bytes) : Cons p b (stepObjectInit p b) := by
  unfold stepObjectInit
  cases b with
  | nil => cons_leaf
  | cons x bs =>
    simp only []
    split
    · cons_leaf
    split
    · cons_leaf
    · simp only [visit_eq]; cons_leaf

theorem fieldName_cons (p : P) (b : Bytes) : Cons p b (fieldName p b) := by
  unfold fieldName
  simp only []
  split
  · cons_leaf
  · have h2 := (After.refl p b).collect p.length.current.toNat
    rcases hc : collectP p b p.length.current.toNat with ⟨q, rest, tmp⟩
    rw [hc] at h2
    obtain ⟨h3, h4⟩ := h2
    cases tmp with
    | none => cons_leaf
    | some t => simp only [visit_eq]; cons_leaf

theorem odBody_cons (step : StateStep) (b : Bytes) (p : P) : Cons p b (odBody step b p) := by
  unfold odBody
  split
  · exact (stepLen_cons p b _).setDone false
  · exact fieldName_cons p b
  · cases b with
    | nil => cons_leaf
    | cons x bs =>
      simp only []
      split
      · cons_leaf
      · exact (stepValue_cons (setStep p stStart) (x :: bs)).setDone false
  · cons_leaf

theorem stepObjectDyn_cons (p : P) (b : Bytes) : Cons p b (stepObjectDyn p b) := by
  rw [stepObjectDyn_eq]
  split
  · cases b with
    | nil => cons_leaf
    | cons x bs =>
      simp only []
      split
      · simp only [visit_eq]
        verr_split p <;> cons_leaf
      · exact odBody_cons _ _ _
  · exact odBody_cons _ _ _

theorem ocFin_cons (p : P) (end_ : Bool) (b : Bytes) (err : Option Err) (p0 : P) (b0 : Bytes)
    (h : After p0 b0 p b) : Cons p0 b0 (ocFin p end_ b err) := by
  obtain ⟨h1, h2⟩ := h
  unfold ocFin
  split
  · simp only [visit_eq]; cons_leaf
  · cons_leaf

theorem ocAtFieldName_cons (p : P) (b : Bytes) (p0 : P) (hb : p.buffer = p0.buffer) :
    Cons p0 b (ocAtFieldName p b) := by
  have hb' : p.buffer.length = p0.buffer.length := by rw [hb]
  unfold ocAtFieldName
  split
  · exact ocFin_cons _ _ _ _ _ _ ⟨Nat.le_refl _, by rw [hb]; exact Nat.le_refl _⟩
  · have := stepLen_cons p b (p.state.current.withStep stFieldNameLen)
    exact ocFin_cons _ _ _ _ _ _ ⟨this.1, by have := this.2; omega⟩

theorem ocValue_cons (typed : Bool) (b : Bytes) (p : P) : Cons p b (ocValue typed b p) := by
  unfold ocValue
  simp only []
  split
  · exact ocFin_cons _ _ _ _ _ _ ⟨Nat.le_refl _, Nat.le_refl _⟩
  · have := stepValue_cons (setStep (decLen p) stFieldName) b
    exact ocFin_cons _ _ _ _ _ _ ⟨this.1, this.2⟩

theorem stepObjectCountedContent_cons (p : P) (b : Bytes) (typed : Bool) :
    Cons p b (stepObjectCountedContent p b typed) := by
  rw [stepObjectCountedContent_eq]
  split
  · simp only [visit_eq]
    verr_split p
    · split
      · exact ocFin_cons _ _ _ _ _ _ ⟨Nat.le_refl _, Nat.le_refl _⟩
      · split
        · exact ocFin_cons _ _ _ _ _ _ ⟨Nat.le_refl _, Nat.le_refl _⟩
        · exact ocAtFieldName_cons _ _ _ rfl
    · cons_leaf
  · exact ocAtFieldName_cons _ _ _ rfl
  · have := fieldName_cons p b
    exact ocFin_cons _ _ _ _ _ _ ⟨this.1, this.2⟩
  · split
    · cases b with
      | nil => cons_leaf
      | cons x bs =>
        simp only []
        split
        · cons_leaf
        · exact ocValue_cons _ _ _
    · exact ocValue_cons _ _ _
  · exact ocFin_cons _ _ _ _ _ _ ⟨Nat.le_refl _, Nat.le_refl _⟩

theorem stepObjectCount_cons (p : P) (b : Bytes) : Cons p b (stepObjectCount p b) := by
  unfold stepObjectCount
  split
  · exact (stepLen_cons p b _).setDone false
  · have := stepObjectCountedContent_cons p b false
    obtain ⟨h1, h2⟩ := this
    simp only []
    split <;> cons_leaf

theorem stepObjectTyped_cons (p : P) (b : Bytes) : Cons p b (stepObjectTyped p b) := by
  unfold stepObjectTyped
  simp only []
  split
  · exact (stepTypeLenHeader_cons p b _).setDone false
  · have := stepObjectCountedContent_cons p b true
    obtain ⟨h1, h2⟩ := this
    split <;> cons_leaf

theorem dispatch_cons (p : P) (b : Bytes) : Cons p b (dispatch p b) := by
  unfold dispatch
  split
  · cons_leaf
  · exact stepValue_cons _ _
  · exact stepFixedValue_cons _ _
  · exact stepString_cons _ _
  · exact stepString_cons _ _
  · exact stepArrayInit_cons _ _
  · exact stepArrayDyn_cons _ _
  · exact stepArrayCount_cons _ _
  · exact stepArrayTyped_cons _ _
  · exact stepObjectInit_cons _ _
  · exact stepObjectDyn_cons _ _
  · exact stepObjectCount_cons _ _
  · exact stepObjectTyped_cons _ _

theorem execStep_cons (p : P) (b : Bytes) : Cons p b (execStep p b) := by
  have := dispatch_cons p b
  rw [execStep_eq]
  cases (dispatch p b).err <;> exact this

end SF.Ubjson.Parse
