/-
  C03 no-hang for the UBJSON parser mirror, helper definitions and primitive lemmas.

  THE LOOP NEVER SPINS: from every state satisfying the shape invariant `G` (below; `{}`
  satisfies it, every step preserves it) each iteration of feedUntil either consumes input
  (from `b` or from the partial-token buffer), or delivers an event, or is the element push
  of a typed container — and that push is always followed by an iteration of one of the
  first two kinds.  Hence `f` iterations imply at least `(f - 1) / 2` units of progress.

  (A bound in the input length alone is FALSE for UBJSON — recorded finding: `[$Z#l…`
  legitimately delivers `count` events from a dozen bytes.)
-/
import SF.Proofs.UbjNoPanicLoop
namespace SF.Ubjson.Parse
open SF SF.Ubjson
open StateType StateStep

/-! ## the shape invariant -/

def fixedStep : StateStep → Bool
  | .stNil | .stTrue | .stFalse | .stInt8 | .stUInt8 | .stInt16 | .stInt32 | .stInt64
  | .stFloat32 | .stFloat64 | .stChar => true
  | _ => false

/-- the (type, step) pairs the parser uses -/
def validSt (s : St) : Bool :=
  match s.type with
  | .stFail => false
  | .stNext => true
  | .stFixed => fixedStep s.step
  | .stHighPrec | .stString => s.step == stStart || s.step == stWithLen
  | .stArray | .stObject => s.step == stStart
  | .stArrayDyn => s.step == stStart || s.step == stCont
  | .stArrayCount => s.step == stStart || s.step == stWithLen || s.step == stCont
  | .stArrayTyped => s.step == stStart || s.step == stWithType0 || s.step == stWithType1
      || s.step == stWithLen || s.step == stCont
  | .stObjectDyn => s.step == stStart || s.step == stFieldNameLen || s.step == stCont
  | .stObjectCount => s.step == stStart || s.step == stWithLen || s.step == stFieldName
      || s.step == stFieldNameLen || s.step == stCont
  | .stObjectTyped => s.step == stStart || s.step == stWithType0 || s.step == stWithType1
      || s.step == stWithLen || s.step == stFieldName || s.step == stFieldNameLen || s.step == stCont

/-- the states a value starts in (what `markerToStartState` yields, except for `N`) -/
def isStart (s : St) : Bool :=
  match s.type with
  | .stFixed => fixedStep s.step
  | .stHighPrec | .stString | .stArray | .stObject => s.step == stStart
  | _ => false

/-- a typed container whose element type has been read (it owns a `valueState` entry) -/
def pastHdr (s : St) : Bool :=
  (s.type == stArrayTyped || s.type == stObjectTyped) && s.step != stStart

/-- the state list (current first) is a chain of open values on top of one `stNext` -/
def chain : List St → Bool
  | [] => false
  | [s] => s.type == stNext
  | s :: rest => s.type != stNext && chain rest

def nT (L : List St) : Nat := (L.filter pastHdr).length

def vdepth (vs : StateStack) : Nat := if vs.current.type == stFail then 0 else vs.stack.length + 1

def isIntMarker (m : UInt8) : Bool :=
  m == int8Marker || m == uint8Marker || m == int16Marker || m == int32Marker || m == int64Marker

/-- the state list of a parser, current state first -/
def sl (p : P) : List St := p.state.current :: p.state.stack

/-- THE SHAPE INVARIANT -/
structure G (p : P) : Prop where
  val : ∀ s ∈ sl p, validSt s = true
  chn : chain (sl p) = true
  mrk : p.marker = noMarker ∨ isIntMarker p.marker = true
  vcur : isStart p.valueState.current = true ∨ (p.valueState.current.type = stFail ∧ p.valueState.stack = [])
  vstk : ∀ s ∈ p.valueState.stack, isStart s = true
  cnt : nT (sl p) = vdepth p.valueState

set_option linter.unusedSimpArgs false in
theorem g_default : G ({} : P) := by
  constructor <;> simp +decide [sl, chain, validSt, nT, vdepth, pastHdr]

set_option linter.unusedSimpArgs false in
theorem g_init (failAt : Option Nat) : G (init failAt) := by
  constructor <;> simp +decide [init, sl, chain, validSt, nT, vdepth, pastHdr]

/-! ## progress -/

/-- the potential that input consumption decreases: two units per unread byte, one per
buffered byte of a partial token -/
def pot (p : P) (b : Bytes) : Nat := 2 * b.length + p.buffer.length

/-- 1 for the two states whose step may push an element without consuming anything -/
def tS (s : St) : Nat :=
  if (s.type == stArrayTyped || s.type == stObjectTyped) && s.step == stCont then 1 else 0

theorem tS_le (s : St) : tS s ≤ 1 := by unfold tS; split <;> omega

/-- one iteration advances: it consumes, or delivers, or is an element push (then the next
one is not) -/
inductive Adv (p : P) (b : Bytes) (r : R) : Prop
  | consume (h1 : pot r.p r.rest + 1 ≤ pot p b) (h2 : p.evs.length ≤ r.p.evs.length)
  | deliver (h1 : pot r.p r.rest ≤ pot p b) (h2 : p.evs.length + 1 ≤ r.p.evs.length)
  | push (h0 : tS p.state.current = 1) (h0' : tS r.p.state.current = 0)
      (h1 : pot r.p r.rest ≤ pot p b) (h2 : p.evs.length ≤ r.p.evs.length)

/-- the inequality the loop induction uses -/
theorem Adv.ineq {p : P} {b : Bytes} {r : R} (h : Adv p b r) :
    1 + tS r.p.state.current + 2 * pot r.p r.rest + 2 * p.evs.length ≤
      tS p.state.current + 2 * pot p b + 2 * r.p.evs.length := by
  have := tS_le r.p.state.current
  have := tS_le p.state.current
  cases h with
  | consume h1 h2 => omega
  | deliver h1 h2 => omega
  | push h0 h0' h1 h2 => omega

/-- what every step function guarantees -/
structure Step (p : P) (b : Bytes) (r : R) : Prop where
  nof : r.err ≠ some .outOfFuel
  ok : r.err = none → G r.p ∧ Adv p b r

theorem Step.setDone {p : P} {b : Bytes} {r : R} (h : Step p b r) (d : Bool) : Step p b { r with done := d } :=
  ⟨h.nof, fun he => let ⟨g, a⟩ := h.ok he
    ⟨g, by
      cases a with
      | consume h1 h2 => exact .consume h1 h2
      | deliver h1 h2 => exact .deliver h1 h2
      | push h0 h0' h1 h2 => exact .push h0 h0' h1 h2⟩⟩

/-- an error outcome -/
theorem Step.error {p : P} {b : Bytes} {r : R} (e : Err) (he : r.err = some e) (hne : e ≠ .outOfFuel) :
    Step p b r :=
  ⟨by rw [he]; simpa using hne, fun h => by rw [he] at h; cases h⟩

/-! ## collect -/

theorem collect_pot (buffer b : Bytes) (n : Nat) :
    2 * (collect buffer b n).2.1.length + (collect buffer b n).1.length ≤ 2 * b.length + buffer.length ∧
    ((collect buffer b n).2.2 = none → b ≠ [] →
      2 * (collect buffer b n).2.1.length + (collect buffer b n).1.length + 1 ≤ 2 * b.length + buffer.length) ∧
    ((collect buffer b n).2.2 ≠ none → 1 ≤ n →
      2 * (collect buffer b n).2.1.length + (collect buffer b n).1.length + 1 ≤ 2 * b.length + buffer.length) := by
  have hb : b ≠ [] → 1 ≤ b.length := by
    intro h; cases b with
    | nil => exact absurd rfl h
    | cons a l => simp
  unfold collect
  simp only []
  repeat' split
  all_goals simp only [List.length_append, List.length_take, List.length_drop, List.length_nil, ne_eq,
    not_true_eq_false, reduceCtorEq, not_false_eq_true, false_implies, true_implies, and_true, true_and]
  all_goals (try simp only [beq_iff_eq] at *)
  all_goals (try omega)
  all_goals (refine ⟨by omega, fun h => ?_⟩; have := hb h; omega)

end SF.Ubjson.Parse
