/-
  C18 for the UBJSON pull decoder over a reader: ONE CALL OF `Decoder.Next` on a reader script
  computes what the fuel-free parser loop `Until` computes on the CONCATENATION of the buffered
  bytes and of everything the reader is still going to return — whatever the chunks of the
  script, whatever the size of the decoder's buffer (`next_whole`).

  The fuel of the parser loop is a model artefact (`fuelFor b = 8·|b| + 2000000` PER CALL of
  feedUntil, i.e. per read): the statement is for whole runs of at most `M` iterations, `M`
  below the fuel granted for any buffer.
-/
import SF.Proofs.UbjDecBase
import SF.Proofs.UbjDecUntil
set_option linter.unusedSimpArgs false
set_option linter.unusedVariables false
namespace SF.Ubjson.DecR
open SF SF.Ubjson SF.Ubjson.Parse SF.Ubjson.Dec
open SF.Ubjson.Chunk (app Ext Sim More Parked Split execStep_split)
open StateType StateStep

/-! ## the specification of one call -/

/-- everything the decoder is still going to see: the buffered bytes, then all reads -/
def stream (d : Dec) : Bytes := d.buffer ++ rstream d.reader

/-- a decoder over a reader, or a byte-slice decoder (`NewBytesDecoder`: no reader, hence no
read script) -/
def RdOK (d : Dec) : Prop := d.hasReader = true ∨ rend d.reader

/-- loop iterations one call of `Next` needs at most: one per remaining `Read` that delivers
something (or is a `(0, nil)` read), one for the buffered bytes, one for the end of the stream -/
def need (d : Dec) : Nat := min d.buffer.length 1 + rcost d.reader + 1

/-- the end-of-stream verdict: `if err := dec.p.finalize(); err != nil { return err }; return io.EOF` -/
def eofV (p : P) : NextRes :=
  match (finalize p).2 with
  | some e => .err e
  | none => .eof

theorem atEOF_spec (d : Dec) : atEOF d = ({ d with p := (finalize d.p).1 }, eofV d.p) := by
  unfold atEOF eofV
  rcases hf : finalize d.p with ⟨q, e⟩
  cases e <;> rfl

/-- the outcome `x` of a call of `Next` matches the result `R` of the parser loop over the
whole remaining stream -/
structure Post (R : R) (x : Dec × NextRes) (bs : Nat) (rd : Bool) : Prop where
  /-- the loop fails: `Next` returns that error, after the same events -/
  err : ∀ e, R.err = some e → x.2 = .err e ∧ x.1.p.evs = R.p.evs
  /-- the loop completes a value: `Next` succeeds in the same parser state and keeps exactly
  the unconsumed rest of the stream -/
  ok : R.err = none → R.done = true →
    x.2 = .ok ∧ x.1.p = R.p ∧ stream x.1 = R.rest ∧ RdOK x.1 ∧ x.1.bufsize = bs ∧ x.1.hasReader = rd
  /-- the stream ends before a value is complete: the end-of-stream verdict of the state reached -/
  eof : R.err = none → R.done = false → x.2 = eofV R.p ∧ x.1.p = (finalize R.p).1

theorem Post.of_sim {r2 r : R} {x : Dec × NextRes} {bs : Nat} {rd : Bool} (h : Post r2 x bs rd) (hs : Sim r2 r) :
    Post r x bs rd := by
  obtain ⟨s1, s2, s3⟩ := hs
  refine ⟨fun e he => ?_, fun he hd => ?_, fun he hd => ?_⟩
  · have := h.err e (by rw [← s1]; exact he)
    exact ⟨this.1, by rw [s2]; exact this.2⟩
  · have he2 : r2.err = none := by rw [← s1]; exact he
    have := s3 he2; subst this
    exact h.ok he hd
  · have he2 : r2.err = none := by rw [← s1]; exact he
    have := s3 he2; subst this
    exact h.eof he hd

/-- what `next_whole` says about a decoder state `d` and an amount of fuel: whole runs of at most
`M` parser iterations -/
def NextOK (ff : Bytes → Nat) (M : Nat) (fuel : Nat) (d : Dec) : Prop :=
  (stream d = [] → (nextG ff fuel d).2 = eofV d.p ∧ (nextG ff fuel d).1.p = (finalize d.p).1) ∧
  (stream d ≠ [] → ∀ R m, Until d.p (stream d) R m → m ≤ M → Post R (nextG ff fuel d) d.bufsize d.hasReader)

theorem feedUntil_idle_nil (f : Nat) (p : P) (hp : pending p = false) :
    feedUntil (f + 1) p [] = { p := p, rest := [] } :=
  feedUntil_stop f p [] (not_more_iff.mpr ⟨rfl, hp⟩)

/-- running the parser on the buffer (possibly empty: after a `(0, nil)` read), given the
statement for the recursive call -/
theorem feedIt_whole (ff : Bytes → Nat) (M : Nat) (hff : ∀ b, M < ff b) (fuel : Nat) (d : Dec)
    (hr : RdOK d) (hg : Good d.p) (hnp : pending d.p = false)
    (ih : ∀ d' : Dec, RdOK d' → Good d'.p → pending d'.p = false → d'.buffer = [] →
      d'.reader = d.reader → d'.bufsize = d.bufsize → d'.hasReader = d.hasReader → NextOK ff M fuel d') :
    (stream d = [] → (feedIt ff fuel d).2 = eofV d.p ∧ (feedIt ff fuel d).1.p = (finalize d.p).1) ∧
    (stream d ≠ [] → ∀ R m, Until d.p (stream d) R m → m ≤ M → Post R (feedIt ff fuel d) d.bufsize d.hasReader) := by
  cases hb : d.buffer with
  | nil =>
    obtain ⟨g, hg'⟩ : ∃ g, ff [] = g + 1 := ⟨ff [] - 1, by have := hff []; omega⟩
    have hfi : feedIt ff fuel d = nextG ff fuel { d with p := d.p, buffer := [] } := by
      unfold feedIt
      simp only [hb, hg', feedUntil_idle_nil _ _ hnp]
      rfl
    have hih := ih { d with p := d.p, buffer := [] } hr hg hnp rfl rfl rfl rfl
    have hs : stream { d with p := d.p, buffer := [] } = stream d := by simp [stream, hb]
    rw [NextOK, hs] at hih
    rw [hfi]
    exact hih
  | cons c0 cs =>
    have hbne : d.buffer ≠ [] := by rw [hb]; simp
    have hsne : stream d ≠ [] := by simp [stream, hb]
    refine ⟨fun h => absurd h hsne, fun _ R m hU hmM => ?_⟩
    have hm : More d.p d.buffer := Or.inl hbne
    obtain ⟨r1, n1, hu1, hdc⟩ := until_decomp hU d.buffer (rstream d.reader) rfl hg hm
    have hfeed : feedUntil (ff d.buffer) d.p d.buffer = r1 :=
      hu1.feed hm _ (by have := hdc.le; have := hff d.buffer; omega)
    unfold feedIt
    simp only [hfeed]
    cases he : r1.err with
    | some e =>
      simp only []
      obtain ⟨q1, q2⟩ := hdc.err e he
      refine ⟨fun e' he' => ?_, fun he' => ?_, fun he' => ?_⟩
      · rw [q1] at he'; injection he' with he'; subst he'
        exact ⟨rfl, q2.symm⟩
      · rw [q1] at he'; cases he'
      · rw [q1] at he'; cases he'
    | none =>
      simp only []
      obtain ⟨g1, g2, g3⟩ := hu1.post hg hm he
      by_cases hd : r1.done = true
      · simp only [hd, if_true]
        have hR := hdc.done he hd
        subst hR
        refine ⟨fun e' he' => ?_, fun _ _ => ⟨rfl, rfl, rfl, hr, rfl, rfl⟩, fun _ hd' => ?_⟩
        · simp [app, he] at he'
        · simp [app, hd] at hd'
      · have hd' : r1.done = false := by simpa using hd
        simp only [hd', Bool.false_eq_true, if_false]
        have hrest := g3 hd'
        have hih := ih { d with p := r1.p, buffer := r1.rest } hr g1 g2 hrest rfl rfl rfl
        have hstream : stream { d with p := r1.p, buffer := r1.rest } = rstream d.reader := by
          simp [stream, hrest]
        rw [NextOK, hstream] at hih
        by_cases ht : rstream d.reader = []
        · have : R = r1 := by
            have h' : stream d = d.buffer := by simp [stream, ht]
            rw [h'] at hU
            exact (Until.det hU hu1).1
          subst this
          obtain ⟨e1, e2⟩ := hih.1 ht
          exact ⟨fun e' he' => (by rw [he] at he'; cases he'), fun _ hd'' => (by rw [hd'] at hd''; cases hd''),
            fun _ _ => ⟨e1, e2⟩⟩
        · obtain ⟨r2, n2, u2, l2, s2⟩ := hdc.cont he hd' ht
          exact (hih.2 ht r2 n2 u2 (by omega)).of_sim s2

theorem rstream_rend {r : Reader} (h : rend r) : rstream r = [] := by
  simp [rstream, h.1, h.2]

/-- ONE CALL OF `Next`, for EVERY reader script and EVERY buffer size ≥ 1: with `need d` loop
iterations (or more) the call behaves as the parser loop over the concatenation of the buffer
and all remaining reads — an empty stream yields the end-of-stream verdict of the current
parser state -/
theorem next_whole (ff : Bytes → Nat) (M : Nat) (hff : ∀ b, M < ff b) (fuel : Nat) (d : Dec)
    (hr : RdOK d) (hg : Good d.p) (hnp : pending d.p = false) (hbs : d.hasReader = true → 1 ≤ d.bufsize)
    (hf : need d ≤ fuel) : NextOK ff M fuel d := by
  induction fuel generalizing d with
  | zero => simp [need] at hf
  | succ fuel ih =>
    cases hb : d.buffer with
    | cons x xs =>
      have hb' : d.buffer ≠ [] := by rw [hb]; simp
      rw [NextOK, nextG_buf ff fuel d hb']
      refine feedIt_whole ff M hff fuel d hr hg hnp (fun d' h1 h2 h3 h4 h5 h6 h7 => ih d' h1 h2 h3 (by rw [h6, h7]; exact hbs) ?_)
      simp only [need, h4, h5, hb] at hf ⊢
      simp at hf ⊢; omega
    | nil =>
      cases hrd : d.hasReader with
      | false =>
        have hre : rend d.reader := by
          rcases hr with h | h
          · rw [hrd] at h; cases h
          · exact h
        have hs : stream d = [] := by simp [stream, hb, rstream_rend hre]
        rw [NextOK, nextG_noReader ff fuel d hb hrd, atEOF_spec]
        exact ⟨fun _ => ⟨rfl, rfl⟩, fun h => absurd hs h⟩
      | true =>
        obtain ⟨r1, r2, r3, r4⟩ := read_spec d.reader d.bufsize (hbs hrd)
        rw [NextOK, nextG_read ff fuel d hb hrd]
        by_cases hre : rend d.reader
        · have hs : stream d = [] := by simp [stream, hb, rstream_rend hre]
          have : readEnd d = true := r2.mpr hre
          simp only [this, if_true, atEOF_spec]
          exact ⟨fun _ => ⟨rfl, rfl⟩, fun h => absurd hs h⟩
        · have : readEnd d = false := by
            cases hx : readEnd d with
            | false => rfl
            | true => exact absurd (r2.mp hx) hre
          simp only [this, Bool.false_eq_true, if_false]
          have hs : stream d = stream (afterRead d) := by
            simp only [stream, hb, List.nil_append, afterRead]
            exact r1
          rw [hs]
          have := feedIt_whole ff M hff fuel (afterRead d) (Or.inl hrd) hg hnp
            (fun d' h1 h2 h3 h4 h5 h6 h7 => ih d' h1 h2 h3 (fun _ => by rw [h6]; exact hbs hrd) (by
              have := r3 hre
              simp only [need, h4, h5, hb, afterRead] at hf ⊢
              simp at hf ⊢; omega))
          exact this

/-- `need` is below the fuel the model hands out -/
theorem need_le_nextFuel (d : Dec) : need d ≤ nextFuel d := by
  simp only [need, nextFuel, rcost]
  omega

end SF.Ubjson.DecR
