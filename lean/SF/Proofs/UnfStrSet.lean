/-
  Targets with structs, part 15: `SetTarget` for a type of the family — the context it makes satisfies the
  invariant, with one frame: the compiled unfolder waiting for its first event; the registry it leaves is
  consistent.
-/
import SF.Proofs.UnfStrCompile
namespace SF.Unf.Str
open SF SF.Unf

variable {tbl : TypeTable} {ns : List String}

theorem regOK_nil (tbl : TypeTable) (D : Nat) : RegOK tbl [] D := fun n ru h => by simp [List.lookup] at h

theorem TTS.parts {t : GoType} (h : TTS tbl ns t = true) : tts tbl ns t = true ∧ ttsTbl tbl ns = true := by
  unfold TTS at h
  simpa using h

/-- an unfolder that `initState` turns into the frame of the target itself -/
theorem init_target (c : Ctx) (v0 : GoVal) (reg : Reg) (t : GoType) (ru : RU)
    (hA : c.valueBuffer.arrays.size = 0) (hMA : c.valueBuffer.mapAny.size = 0)
    (hMP : c.valueBuffer.mapPrimitive.size = 0) (hv0 : HasTy tbl t v0)
    (hreg : RegOK tbl reg chainMax) (hok : RUOk tbl reg chainMax t ru) :
    ∃ F c', initStateRU ru (some ⟨.target, []⟩) ({ c with target := v0, env := tbl, reg := reg } : Ctx) = .ok () c' ∧
      Inv tbl reg chainMax c.s6 [F] c' ∧ Rest [F] := by
  have hinv0 : Inv tbl reg chainMax c.s6 [] ({ c with target := v0, env := tbl, reg := reg } : Ctx) :=
    ⟨rfl, trivial, (fun x hx => nomatch hx), hA, hMA, hMP, rfl, rfl, hreg⟩
  have hderef : deref ({ c with target := v0, env := tbl, reg := reg } : Ctx) ⟨.target, []⟩ = some v0 := by
    simp [deref, rootVal]
  obtain ⟨ru', c', hinit, _, _, hinv, _⟩ := init_at ru t ⟨.target, []⟩ hok hinv0 (fun _ => trivial) v0 hderef hv0
  exact ⟨_, c', hinit, hinv, hasU_waitF _ _ _, fun _ => Or.inl rfl⟩

/-- THE CONTEXT `SetTarget` MAKES, for a target type of the family holding a value laid out like a value of
its type, on an Unfolder whose unfolder stack and scratch buffers are idle and whose registry is
consistent with the type table: the invariant holds with one frame, for the registry `SetTarget` leaves
(which extends the old one and is consistent again) -/
theorem setTarget_inv (t : GoType) (v0 : GoVal) (c c0 : Ctx) (hT : TTS tbl ns t = true)
    (hset : setTarget tbl t v0 c = .ok c0)
    (hA : c.valueBuffer.arrays.size = 0) (hMA : c.valueBuffer.mapAny.size = 0)
    (hMP : c.valueBuffer.mapPrimitive.size = 0) (hreg : RegOK tbl c.reg chainMax) (hv0 : HasTy tbl t v0) :
    ∃ F, Inv tbl c0.reg chainMax c.s6 [F] c0 ∧ Rest [F] ∧ Ext c.reg c0.reg := by
  obtain ⟨htt, hTbl⟩ := TTS.parts hT
  unfold setTarget at hset
  simp only at hset
  split at hset
  · rename_i pu hpu
    split at hset
    · rename_i cc hm
      injection hset with hset
      subst hset
      obtain ⟨F, c', hinit, hinv, hrest⟩ := init_target (tbl := tbl) c v0 c.reg t (.lifted pu) hA hMA hMP hv0 hreg
        (lookupGoType_ok hpu)
      have hm' : initStateRU (.lifted pu) (some ⟨.target, []⟩)
          ({ c with target := v0, env := tbl, reg := c.reg } : Ctx) = .ok () cc := by
        rw [initStateRU_lifted]; exact hm
      rw [hm'] at hinit
      injection hinit with _ hc
      subst hc
      have hr : cc.reg = c.reg := hinv.reg
      rw [hr]
      exact ⟨F, hinv, hrest, Ext.refl _⟩
    · cases hset
  · split at hset
    · cases hset
    · rename_i ru reg hl
      split at hset
      · rename_i cc hm
        injection hset with hset
        subst hset
        obtain ⟨hext, _, hpost⟩ := (compile_ok hTbl typeFuel).1 [] c.reg t ru reg htt hl
        obtain ⟨hok, hent⟩ := hpost reg (Ext.refl _) (fun n hn => by simp at hn)
          (EntriesOK.mono hext ((regOK_iff c.reg).mp hreg))
        obtain ⟨F, c', hinit, hinv, hrest⟩ := init_target (tbl := tbl) c v0 reg t ru hA hMA hMP hv0 hent hok
        have hm' : initStateRU ru (some ⟨.target, []⟩)
            ({ c with target := v0, env := tbl, reg := reg } : Ctx) = .ok () cc := hm
        rw [hm'] at hinit
        injection hinit with _ hc
        subst hc
        have hr : cc.reg = reg := hinv.reg
        rw [hr]
        exact ⟨F, hinv, hrest, hext⟩
      · cases hset

end SF.Unf.Str
