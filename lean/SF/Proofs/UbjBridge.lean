/-
  THE BRIDGE between the two UBJSON grammars of this development:

    (E) `SF.Ubjson.Wire.UItem`  (SF/Proofs/UbjWire.lean)  — the grammar the ENCODER theorems use
        (reference decoder `Cst.decodeStream` reads `i.wire` as `i.value`);
    (P) `SF.Ubjson.Syn.Item`    (SF/Proofs/UbjItem.lean)  — the grammar the PARSER theorems use
        (`parse` delivers `it.events` on `it.wire`).

  `toSyn : UItem → Item` is a total function; it keeps the bytes (`toSyn_wire`, for EVERY item,
  well-formed or not), the value (`toSyn_value`), and well-formedness (`toSyn_ok`), and the
  image of a well-formed `UItem` has NO payload-free typed elements (`toSyn_free`:
  `UItem.ok` demands `typeOk t`, i.e. an element type other than Z / T / F), so the fuel side
  condition of the parser theorems is void on the image.

  Not in the image (parser grammar only): no-ops between array elements, typed containers with
  element type Z / T / F.
-/
import SF.Proofs.UbjWire
import SF.Proofs.UbjRefCost
namespace SF.Ubjson.Bridge
open SF SF.Ubjson
open SF.Ubjson.Wire (UItem IM)
open SF.Ubjson.Syn (Item LW IK)

/-- integer marker ↦ length width -/
def lw : IM → LW
  | .i => .i | .U => .U | .I => .I | .l => .l | .L => .L

/-- integer marker ↦ integer type -/
def ik : IM → IK
  | .i => .i8 | .U => .u8 | .I => .i16 | .l => .i32 | .L => .i64

mutual
/-- the parser-grammar item with the same bytes -/
def toSyn : UItem → Item
  | .null => .null
  | .tru => .tru
  | .fals => .fals
  | .int m v => .int (ik m) v
  | .char c => .char c
  | .f32 b => .f32 b
  | .f64 b => .f64 b
  | .str m s => .str (lw m) s
  | .hp m s => .hp (lw m) s
  | .arr xs => .arr (toSynElems xs) 0
  | .arrN m xs => .arrN (lw m) (toSynElems xs)
  | .arrT t m xs => .arrT t (lw m) (toSynList xs)
  | .obj ms => .obj (toSynMems ms)
  | .objN m ms => .objN (lw m) (toSynMems ms)
  | .objT t m ms => .objT t (lw m) (toSynMems ms)
/-- elements of a plain / counted array: no no-ops -/
def toSynElems : List UItem → List (Nat × Item)
  | [] => []
  | x :: xs => (0, toSyn x) :: toSynElems xs
def toSynList : List UItem → List Item
  | [] => []
  | x :: xs => toSyn x :: toSynList xs
def toSynMems : List (IM × Bytes × UItem) → List (LW × Bytes × Item)
  | [] => []
  | (km, k, v) :: ms => (lw km, k, toSyn v) :: toSynMems ms
end

theorem toSynElems_length (xs : List UItem) : (toSynElems xs).length = xs.length := by
  induction xs with
  | nil => rfl
  | cons x xs ih => simp [toSynElems, ih]
theorem toSynList_length (xs : List UItem) : (toSynList xs).length = xs.length := by
  induction xs with
  | nil => rfl
  | cons x xs ih => simp [toSynList, ih]
theorem toSynMems_length (ms : List (IM × Bytes × UItem)) : (toSynMems ms).length = ms.length := by
  induction ms with
  | nil => rfl
  | cons m ms ih => obtain ⟨km, k, v⟩ := m; simp [toSynMems, ih]

/-! ## markers, integers, lengths -/

theorem lw_marker (m : IM) : (lw m).marker = m.byte := by cases m <;> rfl
theorem lw_bytes (m : IM) : (lw m).bytes = m.width := by cases m <;> rfl
theorem ik_marker (m : IM) : (ik m).marker = m.byte := by cases m <;> rfl
theorem ik_bytes (m : IM) : (ik m).bytes = m.width := by cases m <;> rfl

/-- `beBytes w` only looks at `n mod 256^w` -/
theorem beBytes_mod (w n : Nat) : beBytes w (n % 256 ^ w) = beBytes w n := by
  induction w generalizing n with
  | zero => rfl
  | succ w ih =>
    simp only [beBytes]
    have h1 : n % 256 ^ (w + 1) / 256 = (n / 256) % 256 ^ w := by
      rw [Nat.pow_succ, Nat.mul_comm, Nat.mod_mul_right_div_self]
    have h2 : n % 256 ^ (w + 1) % 256 = n % 256 := by
      rw [Nat.pow_succ, Nat.mul_comm]
      exact Nat.mod_mul_right_mod n 256 (256 ^ w)
    rw [h1, h2, ih]

theorem natCast_emod_pow (n w : Nat) : ((n : Int) % (256 : Int) ^ w).toNat = n % 256 ^ w := by
  have : ((256 : Int) ^ w) = ((256 ^ w : Nat) : Int) := by simp
  rw [this, ← Int.natCast_emod, Int.toNat_natCast]

/-- the two spellings of `Len` coincide, for every length (also one that does not fit) -/
theorem lenWire_eq (m : IM) (n : Nat) : Syn.lenWire (lw m) n = Wire.lenWire m n := by
  simp only [Syn.lenWire, Wire.lenWire, Wire.intPayload, lw_marker, lw_bytes, natCast_emod_pow, beBytes_mod]

theorem twos_eq (m : IM) (v : Int) : Enc.twos (ik m).bytes v = Wire.intPayload m v := by
  simp only [Enc.twos, Wire.intPayload, ik_bytes]

theorem lw_fits (m : IM) (n : Nat) : (lw m).fits n = m.fits (n : Int) := by
  cases m <;> simp only [lw, LW.fits, IM.fits] <;> (apply Bool.eq_iff_iff.mpr; simp only [decide_eq_true_eq]; omega)

theorem ik_inRange (m : IM) (v : Int) : (ik m).inRange v = m.fits v := by
  cases m <;> simp only [ik, IK.inRange, IK.kind, NumKind.inRange, IM.fits, Bool.decide_and] <;> rfl

/-! ## bytes -/

theorem toSyn_marker (x : UItem) : (toSyn x).marker = x.marker := by
  cases x <;> first | rfl | exact ik_marker _

mutual
theorem toSyn_payload (x : UItem) : (toSyn x).payload = x.payload := by
  match x with
  | .null | .tru | .fals | .char _ | .f32 _ | .f64 _ => rfl
  | .int m v => simp only [toSyn, Item.payload, UItem.payload, twos_eq]
  | .str m s => simp only [toSyn, Item.payload, UItem.payload, lenWire_eq]
  | .hp m s => simp only [toSyn, Item.payload, UItem.payload, lenWire_eq]
  | .arr xs =>
    simp only [toSyn, Item.payload, UItem.payload, toSynElems_wire xs, Syn.noops, List.replicate, List.nil_append]
    rfl
  | .arrN m xs =>
    simp only [toSyn, Item.payload, UItem.payload, toSynElems_wire xs, lenWire_eq, toSynElems_length]
    rfl
  | .arrT t m xs =>
    simp only [toSyn, Item.payload, UItem.payload, toSynList_pay xs, lenWire_eq, toSynList_length]
    rfl
  | .obj ms =>
    simp only [toSyn, Item.payload, UItem.payload, toSynMems_wire ms]
    rfl
  | .objN m ms =>
    simp only [toSyn, Item.payload, UItem.payload, toSynMems_wire ms, lenWire_eq, toSynMems_length]
    rfl
  | .objT t m ms =>
    simp only [toSyn, Item.payload, UItem.payload, toSynMems_pay ms, lenWire_eq, toSynMems_length]
    rfl
theorem toSynElems_wire (xs : List UItem) : Syn.wireElems (toSynElems xs) = Wire.wireList xs := by
  match xs with
  | [] => rfl
  | x :: xs' =>
    simp only [toSynElems, Syn.wireElems, Wire.wireList, Syn.noops, List.replicate, List.nil_append,
      toSyn_marker, toSyn_payload x, toSynElems_wire xs']
theorem toSynList_pay (xs : List UItem) : Syn.payList (toSynList xs) = Wire.payloadList xs := by
  match xs with
  | [] => rfl
  | x :: xs' => simp only [toSynList, Syn.payList, Wire.payloadList, toSyn_payload x, toSynList_pay xs']
theorem toSynMems_wire (ms : List (IM × Bytes × UItem)) : Syn.wireMems (toSynMems ms) = Wire.wireMems ms := by
  match ms with
  | [] => rfl
  | (km, k, v) :: ms' =>
    simp only [toSynMems, Syn.wireMems, Wire.wireMems, lenWire_eq, toSyn_marker, toSyn_payload v, toSynMems_wire ms']
theorem toSynMems_pay (ms : List (IM × Bytes × UItem)) : Syn.payMems (toSynMems ms) = Wire.payloadMems ms := by
  match ms with
  | [] => rfl
  | (km, k, v) :: ms' =>
    simp only [toSynMems, Syn.payMems, Wire.payloadMems, lenWire_eq, toSyn_payload v, toSynMems_pay ms']
end

/-- BRIDGE, bytes: the same wire form — for every item, well-formed or not -/
theorem toSyn_wire (x : UItem) : (toSyn x).wire = x.wire := by
  simp only [Item.wire, UItem.wire, toSyn_marker, toSyn_payload]

/-! ## value -/

mutual
/-- BRIDGE, value -/
theorem toSyn_value (x : UItem) : (toSyn x).value = x.value := by
  match x with
  | .null | .tru | .fals | .char _ | .f32 _ | .f64 _ | .int _ _ | .str _ _ | .hp _ _ => rfl
  | .arr xs => simp only [toSyn, Item.value, UItem.value, toSynElems_value xs]
  | .arrN m xs => simp only [toSyn, Item.value, UItem.value, toSynElems_value xs]
  | .arrT t m xs => simp only [toSyn, Item.value, UItem.value, toSynList_value xs]
  | .obj ms => simp only [toSyn, Item.value, UItem.value, toSynMems_value ms]
  | .objN m ms => simp only [toSyn, Item.value, UItem.value, toSynMems_value ms]
  | .objT t m ms => simp only [toSyn, Item.value, UItem.value, toSynMems_value ms]
theorem toSynElems_value (xs : List UItem) : Syn.valElems (toSynElems xs) = Wire.valueList xs := by
  match xs with
  | [] => rfl
  | x :: xs' => simp only [toSynElems, Syn.valElems, Wire.valueList, toSyn_value x, toSynElems_value xs']
theorem toSynList_value (xs : List UItem) : Syn.valList (toSynList xs) = Wire.valueList xs := by
  match xs with
  | [] => rfl
  | x :: xs' => simp only [toSynList, Syn.valList, Wire.valueList, toSyn_value x, toSynList_value xs']
theorem toSynMems_value (ms : List (IM × Bytes × UItem)) : Syn.valMems (toSynMems ms) = Wire.valueMems ms := by
  match ms with
  | [] => rfl
  | (km, k, v) :: ms' => simp only [toSynMems, Syn.valMems, Wire.valueMems, toSyn_value v, toSynMems_value ms']
end

/-! ## well-formedness -/

/-- the encoder grammar's element types are element types of the parser grammar -/
theorem typeMarker_of_cst (t : UInt8) (h : Cst.isTypeMarker t = true) : Syn.isTypeMarker t = true := by
  simp only [Cst.isTypeMarker, Bool.or_eq_true, beq_iff_eq] at h
  rcases h with ((((((((((((((h | h) | h) | h) | h) | h) | h) | h) | h) | h) | h) | h) | h) | h) | h) <;>
    subst h <;> decide

theorem typeOk_type (t : UInt8) (h : Wire.typeOk t = true) : Syn.isTypeMarker t = true := by
  simp only [Wire.typeOk, Bool.and_eq_true] at h
  exact typeMarker_of_cst t h.1.1.1

mutual
/-- BRIDGE, well-formedness -/
theorem toSyn_ok (x : UItem) (h : x.ok = true) : (toSyn x).ok = true := by
  match x with
  | .null | .tru | .fals | .char _ | .f32 _ | .f64 _ => rfl
  | .int m v => simpa only [toSyn, Item.ok, UItem.ok, ik_inRange] using h
  | .str m s => simpa only [toSyn, Item.ok, UItem.ok, lw_fits] using h
  | .hp m s => simpa only [toSyn, Item.ok, UItem.ok, lw_fits] using h
  | .arr xs =>
    simp only [UItem.ok] at h
    simp only [toSyn, Item.ok, toSynElems_ok xs h]
  | .arrN m xs =>
    simp only [UItem.ok, Bool.and_eq_true] at h
    simp only [toSyn, Item.ok, toSynElems_length, lw_fits, h.1, toSynElems_ok xs h.2, Bool.and_self]
  | .arrT t m xs =>
    simp only [UItem.ok, Bool.and_eq_true] at h
    simp only [toSyn, Item.ok, toSynList_length, lw_fits, h.1.1.1, typeOk_type t h.1.1.2,
      toSynList_ok t xs h.1.2 h.2, Bool.and_self]
  | .obj ms =>
    simp only [UItem.ok] at h
    simp only [toSyn, Item.ok, toSynMems_ok ms h]
  | .objN m ms =>
    simp only [UItem.ok, Bool.and_eq_true] at h
    simp only [toSyn, Item.ok, toSynMems_length, lw_fits, h.1, toSynMems_ok ms h.2, Bool.and_self]
  | .objT t m ms =>
    simp only [UItem.ok, Bool.and_eq_true] at h
    simp only [toSyn, Item.ok, toSynMems_length, lw_fits, h.1.1.1, typeOk_type t h.1.1.2,
      toSynMems_okT t ms h.1.2 h.2, Bool.and_self]
theorem toSynElems_ok (xs : List UItem) (h : Wire.okList xs = true) : Syn.okElems (toSynElems xs) = true := by
  match xs with
  | [] => rfl
  | x :: xs' =>
    simp only [Wire.okList, Bool.and_eq_true] at h
    simp only [toSynElems, Syn.okElems, toSyn_ok x h.1, toSynElems_ok xs' h.2, Bool.and_self]
theorem toSynList_ok (t : UInt8) (xs : List UItem) (hm : Wire.allMarker t xs = true) (h : Wire.okList xs = true) :
    Syn.okTyped t (toSynList xs) = true := by
  match xs with
  | [] => rfl
  | x :: xs' =>
    simp only [Wire.okList, Bool.and_eq_true] at h
    simp only [Wire.allMarker, Bool.and_eq_true] at hm
    simp only [toSynList, Syn.okTyped, toSyn_ok x h.1, toSyn_marker, hm.1, toSynList_ok t xs' hm.2 h.2, Bool.and_self]
theorem toSynMems_ok (ms : List (IM × Bytes × UItem)) (h : Wire.okMems ms = true) :
    Syn.okMems (toSynMems ms) = true := by
  match ms with
  | [] => rfl
  | (km, k, v) :: ms' =>
    simp only [Wire.okMems, Bool.and_eq_true] at h
    simp only [toSynMems, Syn.okMems, lw_fits, h.1.1, toSyn_ok v h.1.2, toSynMems_ok ms' h.2, Bool.and_self]
theorem toSynMems_okT (t : UInt8) (ms : List (IM × Bytes × UItem)) (hm : Wire.allMarkerM t ms = true)
    (h : Wire.okMems ms = true) : Syn.okMemsT t (toSynMems ms) = true := by
  match ms with
  | [] => rfl
  | (km, k, v) :: ms' =>
    simp only [Wire.okMems, Bool.and_eq_true] at h
    simp only [Wire.allMarkerM, Bool.and_eq_true] at hm
    simp only [toSynMems, Syn.okMemsT, lw_fits, h.1.1, toSyn_ok v h.1.2, toSyn_marker, hm.1,
      toSynMems_okT t ms' hm.2 h.2, Bool.and_self]
end

/-! ## payload-free elements: none in the image of a well-formed item -/

open SF.Ubjson.Parse (free freeElems freeList freeMems isLit)

theorem isLit_marker (x : Item) (h : isLit x = true) :
    x.marker = 0x5a ∨ x.marker = 0x54 ∨ x.marker = 0x46 := by
  cases x <;> simp [isLit] at h <;> simp +decide

theorem typeOk_not_lit (t : UInt8) (x : UItem) (ht : Wire.typeOk t = true) (hm : (x.marker == t) = true) :
    isLit (toSyn x) = false := by
  cases hl : isLit (toSyn x) with
  | false => rfl
  | true =>
    have h1 := isLit_marker _ hl
    rw [toSyn_marker] at h1
    have : x.marker = t := by simpa using hm
    rw [this] at h1
    simp only [Wire.typeOk, Bool.and_eq_true, bne_iff_ne, ne_eq] at ht
    rcases h1 with h | h | h
    · exact absurd h ht.1.1.2
    · exact absurd h ht.1.2
    · exact absurd h ht.2

mutual
/-- BRIDGE, fuel: a well-formed encoder-grammar item has no payload-free typed element -/
theorem toSyn_free (x : UItem) (h : x.ok = true) : free (toSyn x) = 0 := by
  match x with
  | .null | .tru | .fals | .char _ | .f32 _ | .f64 _ | .int _ _ | .str _ _ | .hp _ _ => rfl
  | .arr xs =>
    simp only [UItem.ok] at h
    simp only [toSyn, free, toSynElems_free xs h]
  | .arrN m xs =>
    simp only [UItem.ok, Bool.and_eq_true] at h
    simp only [toSyn, free, toSynElems_free xs h.2]
  | .arrT t m xs =>
    simp only [UItem.ok, Bool.and_eq_true] at h
    simp only [toSyn, free, toSynList_free t xs h.1.1.2 h.1.2 h.2]
  | .obj ms =>
    simp only [UItem.ok] at h
    simp only [toSyn, free, toSynMems_free ms h]
  | .objN m ms =>
    simp only [UItem.ok, Bool.and_eq_true] at h
    simp only [toSyn, free, toSynMems_free ms h.2]
  | .objT t m ms =>
    simp only [UItem.ok, Bool.and_eq_true] at h
    simp only [toSyn, free, toSynMems_free ms h.2]
theorem toSynElems_free (xs : List UItem) (h : Wire.okList xs = true) : freeElems (toSynElems xs) = 0 := by
  match xs with
  | [] => rfl
  | x :: xs' =>
    simp only [Wire.okList, Bool.and_eq_true] at h
    simp only [toSynElems, freeElems, toSyn_free x h.1, toSynElems_free xs' h.2]
theorem toSynList_free (t : UInt8) (xs : List UItem) (ht : Wire.typeOk t = true)
    (hm : Wire.allMarker t xs = true) (h : Wire.okList xs = true) : freeList (toSynList xs) = 0 := by
  match xs with
  | [] => rfl
  | x :: xs' =>
    simp only [Wire.okList, Bool.and_eq_true] at h
    simp only [Wire.allMarker, Bool.and_eq_true] at hm
    simp only [toSynList, freeList, typeOk_not_lit t x ht hm.1, Bool.false_eq_true, if_false, toSyn_free x h.1,
      toSynList_free t xs' ht hm.2 h.2]
theorem toSynMems_free (ms : List (IM × Bytes × UItem)) (h : Wire.okMems ms = true) :
    freeMems (toSynMems ms) = 0 := by
  match ms with
  | [] => rfl
  | (km, k, v) :: ms' =>
    simp only [Wire.okMems, Bool.and_eq_true] at h
    simp only [toSynMems, freeMems, toSyn_free v h.1.2, toSynMems_free ms' h.2]
end

end SF.Ubjson.Bridge
