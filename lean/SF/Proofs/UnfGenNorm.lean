/-
  The value the mirror delivers for a well-formed tree (`UTree.gen`) is the value the
  specification `Spec.generic` (DESIGN A.8) assigns to the tree's `STree`, up to nil ≙ empty
  for slices and maps (`Spec.norm`, the comparison the C13 oracle uses): the Go code leaves an
  EMPTY sub-array / sub-object as the nil slice / nil map, the specification writes `[]` / `{}`.
-/
import SF.Proofs.UnfGenTree
namespace SF.Unf
open SF SF.Unf.Spec

theorem scGen_eq (s : Sc) : scGen s = generic (.sc s) := by
  cases s <;> simp [scGen, generic, scVal]

theorem norm_ifc (v : GoVal) : norm (.ifc v) = .ifc (norm v) := by simp [norm]
theorem norm_slice (et : GoType) (es h : List GoVal) :
    norm (.slice et es h) = if es.isEmpty then .sliceNil et else .slice et (normList es) [] := by simp [norm]
theorem norm_map (et : GoType) (ms : List (Bytes × GoVal)) :
    norm (.map et ms) = if ms.isEmpty then .mapNil et else .map et (normMems ms) := by simp [norm]
theorem norm_sliceNil (et : GoType) : norm (.sliceNil et) = .sliceNil et := by simp [norm]
theorem norm_mapNil (et : GoType) : norm (.mapNil et) = .mapNil et := by simp [norm]

theorem norm_sliceFin (et : GoType) (vs : List GoVal) : norm (sliceFin et vs) = norm (.slice et vs []) := by
  unfold sliceFin
  cases vs with
  | nil => simp [norm_slice, norm_sliceNil]
  | cons a r => simp

theorem norm_mapSt (et : GoType) (acc : List (Bytes × GoVal)) : norm (mapSt et acc) = norm (.map et acc) := by
  unfold mapSt
  cases acc with
  | nil => simp [norm_map, norm_mapNil]
  | cons a r => simp

theorem normMems_isEmpty (ms : List (Bytes × GoVal)) : (normMems ms).isEmpty = ms.isEmpty := by
  cases ms with
  | nil => simp [normMems]
  | cons a r => obtain ⟨k, v⟩ := a; simp [normMems]

/-- two maps with the same normalised members have the same normal form -/
theorem norm_map_congr (et : GoType) (a b : List (Bytes × GoVal)) (h : normMems a = normMems b) :
    norm (.map et a) = norm (.map et b) := by
  rw [norm_map, norm_map, ← normMems_isEmpty a, ← normMems_isEmpty b, h]

theorem norm_slice_congr (et : GoType) (a b : List GoVal) (h : normList a = normList b) :
    norm (.slice et a []) = norm (.slice et b []) := by
  have he : a.isEmpty = b.isEmpty := by
    cases a <;> cases b <;> simp [normList] at h ⊢
  rw [norm_slice, norm_slice, he, h]

theorem normMems_any (ms : List (Bytes × GoVal)) (k : Bytes) :
    (normMems ms).any (·.1 == k) = ms.any (·.1 == k) := by
  induction ms with
  | nil => simp [normMems]
  | cons a r ih => obtain ⟨k', v⟩ := a; simp [normMems, ih]

theorem normMems_append (a b : List (Bytes × GoVal)) : normMems (a ++ b) = normMems a ++ normMems b := by
  induction a with
  | nil => simp [normMems]
  | cons x r ih => obtain ⟨k', v⟩ := x; simp [normMems, ih]

theorem normMems_replace (ms : List (Bytes × GoVal)) (k : Bytes) (v : GoVal) :
    normMems (ms.map fun kv => if kv.1 == k then (k, v) else kv) =
      (normMems ms).map fun kv => if kv.1 == k then (k, norm v) else kv := by
  induction ms with
  | nil => simp [normMems]
  | cons a r ih =>
    obtain ⟨k', w⟩ := a
    by_cases hk : (k' == k) = true
    · simp only [List.map_cons, hk, if_true, normMems, ih]
    · simp only [List.map_cons, hk, if_false, normMems, ih, Bool.false_eq_true]

/-- `norm` commutes with putting a member (`mapSet` of the mirror = `putMember` of the
specification) -/
theorem normMems_mapSet (ms : List (Bytes × GoVal)) (k : Bytes) (v : GoVal) :
    normMems (mapSet ms k v) = putMember (normMems ms) k (norm v) := by
  unfold mapSet putMember
  rw [normMems_any]
  split
  · exact normMems_replace ms k v
  · rw [normMems_append]; simp [normMems]

theorem mapSet_eq_putMember (ms : List (Bytes × GoVal)) (k : Bytes) (v : GoVal) :
    mapSet ms k v = putMember ms k v := rfl

/-! ### base type codes: the element type of the specification is the element kind of the mirror -/

theorem bt_cases (bt : Nat) (h : bt ≤ 16) :
    bt = 0 ∨ bt = 1 ∨ bt = 2 ∨ bt = 3 ∨ bt = 4 ∨ bt = 5 ∨ bt = 6 ∨ bt = 7 ∨ bt = 8 ∨ bt = 9 ∨ bt = 10 ∨
    bt = 11 ∨ bt = 12 ∨ bt = 13 ∨ bt = 14 ∨ bt = 15 ∨ bt = 16 := by omega

theorem btElem_any (bt : Nat) (h : bt ≤ 16) (ha : isAnyBT bt = true) : btElem bt = none := by
  rcases bt_cases bt h with h | h | h | h | h | h | h | h | h | h | h | h | h | h | h | h | h <;> subst h <;>
    first
    | rfl
    | exact absurd ha (by decide)

theorem btElem_typed (bt : Nat) (h : bt ≤ 16) (ha : isAnyBT bt = false) :
    btElem bt = some (kindOf bt).goType := by
  rcases bt_cases bt h with h | h | h | h | h | h | h | h | h | h | h | h | h | h | h | h | h <;> subst h <;>
    first
    | rfl
    | exact absurd ha (by decide)

/-- a typed element is stored as exactly the scalar's own value -/
theorem typed_eq_scVal (bt : Nat) (x : UTree) (hf : x.fits bt = true) :
    ∃ s, x.toS = .sc s ∧ x.typed (kindOf bt) = scVal s := by
  cases x with
  | scalar s => exact ⟨s, rfl, by simp [UTree.typed, conv_typed bt s hf]⟩
  | strRef s =>
    have hc := conv_typed bt (.str s) (by simpa [UTree.fits, Sc.fits] using hf)
    exact ⟨.str s, rfl, by simp [UTree.typed, hc]⟩
  | arr l b xs => simp [UTree.fits] at hf
  | obj l b ms => simp [UTree.fits] at hf

theorem typedList_eq (bt : Nat) (xs : List UTree) (ha : isAnyBT bt = false) (hbt : bt ≤ 16)
    (hwf : wfList bt xs = true) :
    genList (kindOf bt) xs = typedList (toSList xs) := by
  have hki := kindOf_ne_ifc bt hbt ha
  induction xs with
  | nil => simp [genList, toSList, typedList]
  | cons x r ih =>
    obtain ⟨hx, hr⟩ := wfList_cons bt x r hwf
    simp only [ha, Bool.false_eq_true, if_false] at hx
    obtain ⟨s, hs, hv⟩ := typed_eq_scVal bt x hx
    simp [genList, hki, toSList, hs, typedList, hv, ih hr]

theorem typedMems_eq (bt : Nat) (ms : List (Bool × Bytes × UTree)) (acc : List (Bytes × GoVal))
    (ha : isAnyBT bt = false) (hbt : bt ≤ 16) (hwf : wfMems bt ms = true) :
    genMems (kindOf bt) ms acc = typedMems (toSMems ms) acc := by
  have hki := kindOf_ne_ifc bt hbt ha
  induction ms generalizing acc with
  | nil => simp [genMems, toSMems, typedMems]
  | cons m r ih =>
    obtain ⟨b, k, x⟩ := m
    obtain ⟨hx, hr⟩ := wfMems_cons bt b k x r hwf
    simp only [ha, Bool.false_eq_true, if_false] at hx
    obtain ⟨s, hs, hv⟩ := typed_eq_scVal bt x hx
    simp [genMems, hki, toSMems, hs, typedMems, hv, ih _ hr, mapSet_eq_putMember]

mutual
/-- C13 generic clause, value part: delivered value ≙ specified value -/
theorem gen_norm (t : UTree) (hwf : t.wf = true) : norm t.gen = norm (generic t.toS) := by
  match t with
  | .scalar s => rw [UTree.gen, UTree.toS, scGen_eq]
  | .strRef s => rw [UTree.gen, UTree.toS]; simp [generic, scVal]
  | .arr l bt xs =>
    simp only [UTree.wf, Bool.and_eq_true, decide_eq_true_eq] at hwf
    obtain ⟨⟨hl, hbt⟩, hxs⟩ := hwf
    rw [UTree.gen, UTree.toS, generic, norm_ifc, norm_sliceFin]
    by_cases ha : isAnyBT bt = true
    · rw [btElem_any bt hbt ha, kindOf_ifc_of_any bt hbt ha]
      simp only [norm_ifc, PK.goType]
      rw [norm_slice_congr _ _ _ (genList_norm bt xs ha hxs)]
    · have ha' : isAnyBT bt = false := by simpa using ha
      rw [btElem_typed bt hbt ha', typedList_eq bt xs ha' hbt hxs]
      simp only [norm_ifc]
  | .obj l bt ms =>
    simp only [UTree.wf, Bool.and_eq_true, decide_eq_true_eq] at hwf
    obtain ⟨hbt, hms⟩ := hwf
    rw [UTree.gen, UTree.toS, generic, norm_ifc, norm_mapSt]
    by_cases ha : isAnyBT bt = true
    · rw [btElem_any bt hbt ha, kindOf_ifc_of_any bt hbt ha]
      simp only [norm_ifc, PK.goType]
      rw [norm_map_congr _ _ _ (genMems_norm bt ms [] [] ha hms rfl)]
    · have ha' : isAnyBT bt = false := by simpa using ha
      rw [btElem_typed bt hbt ha', typedMems_eq bt ms [] ha' hbt hms]
      simp only [norm_ifc]
theorem genList_norm (bt : Nat) (xs : List UTree) (ha : isAnyBT bt = true) (hwf : wfList bt xs = true) :
    normList (genList .ifc xs) = normList (genericList (toSList xs)) := by
  match xs with
  | [] => simp [genList, toSList, genericList]
  | x :: r =>
    obtain ⟨hx, hr⟩ := wfList_cons bt x r hwf
    rw [if_pos ha] at hx
    simp only [genList, toSList, genericList, normList, if_true]
    rw [gen_norm x hx, genList_norm bt r ha hr]
theorem genMems_norm (bt : Nat) (ms : List (Bool × Bytes × UTree)) (acc acc' : List (Bytes × GoVal))
    (ha : isAnyBT bt = true) (hwf : wfMems bt ms = true) (hacc : normMems acc = normMems acc') :
    normMems (genMems .ifc ms acc) = normMems (genericMems (toSMems ms) acc') := by
  match ms with
  | [] => simpa [genMems, toSMems, genericMems] using hacc
  | (b, k, x) :: r =>
    obtain ⟨hx, hr⟩ := wfMems_cons bt b k x r hwf
    rw [if_pos ha] at hx
    simp only [genMems, toSMems, genericMems, if_true]
    apply genMems_norm bt r _ _ ha hr
    rw [normMems_mapSet, ← mapSet_eq_putMember acc', normMems_mapSet, hacc, gen_norm x hx]
end

/-- … hence equal under the comparison of the C13 oracle -/
theorem gen_sameVal (t : UTree) (hwf : t.wf = true) : sameVal t.gen (generic t.toS) = true := by
  unfold sameVal
  rw [gen_norm t hwf]
  exact beq_self_eq_true _

end SF.Unf

namespace SF.Unf
open SF SF.Unf.Spec

/-! ### exact equality when no container is empty -/

mutual
/-- no empty array, no empty object anywhere in the tree -/
def UTree.noEmpty : UTree → Bool
  | .scalar _ => true
  | .strRef _ => true
  | .arr _ _ xs => !xs.isEmpty && noEmptyList xs
  | .obj _ _ ms => !ms.isEmpty && noEmptyMems ms
def noEmptyList : List UTree → Bool
  | [] => true
  | x :: r => x.noEmpty && noEmptyList r
def noEmptyMems : List (Bool × Bytes × UTree) → Bool
  | [] => true
  | (_, _, x) :: r => x.noEmpty && noEmptyMems r
end

theorem genMems_nonempty (k : PK) (ms : List (Bool × Bytes × UTree)) (acc : List (Bytes × GoVal))
    (h : ms.isEmpty = false ∨ acc.isEmpty = false) : (genMems k ms acc).isEmpty = false := by
  induction ms generalizing acc with
  | nil => simpa [genMems] using h
  | cons m r ih =>
    obtain ⟨b, key, x⟩ := m
    rw [genMems]
    exact ih _ (Or.inr (mapSet_ne_nil _ _ _))

theorem genList_nonempty (k : PK) (xs : List UTree) (h : xs.isEmpty = false) : (genList k xs).isEmpty = false := by
  cases xs with
  | nil => simp at h
  | cons x r => simp [genList]

mutual
/-- for a well-formed tree without empty containers the delivered value is LITERALLY the
specified one -/
theorem gen_exact (t : UTree) (hwf : t.wf = true) (hne : t.noEmpty = true) : t.gen = generic t.toS := by
  match t with
  | .scalar s => rw [UTree.gen, UTree.toS, scGen_eq]
  | .strRef s => rw [UTree.gen, UTree.toS]; simp [generic, scVal]
  | .arr l bt xs =>
    simp only [UTree.wf, Bool.and_eq_true, decide_eq_true_eq] at hwf
    obtain ⟨⟨hl, hbt⟩, hxs⟩ := hwf
    simp only [UTree.noEmpty, Bool.and_eq_true, Bool.not_eq_true'] at hne
    obtain ⟨hne0, hnes⟩ := hne
    rw [UTree.gen, UTree.toS, generic, sliceFin, genList_nonempty _ _ hne0]
    simp only [Bool.false_eq_true, if_false]
    by_cases ha : isAnyBT bt = true
    · rw [btElem_any bt hbt ha, kindOf_ifc_of_any bt hbt ha, genList_exact bt xs ha hxs hnes]
      rfl
    · have ha' : isAnyBT bt = false := by simpa using ha
      rw [btElem_typed bt hbt ha', typedList_eq bt xs ha' hbt hxs]
  | .obj l bt ms =>
    simp only [UTree.wf, Bool.and_eq_true, decide_eq_true_eq] at hwf
    obtain ⟨hbt, hms⟩ := hwf
    simp only [UTree.noEmpty, Bool.and_eq_true, Bool.not_eq_true'] at hne
    obtain ⟨hne0, hnes⟩ := hne
    rw [UTree.gen, UTree.toS, generic, mapSt, genMems_nonempty _ _ _ (Or.inl hne0)]
    simp only [Bool.false_eq_true, if_false]
    by_cases ha : isAnyBT bt = true
    · rw [btElem_any bt hbt ha, kindOf_ifc_of_any bt hbt ha, genMems_exact bt ms [] ha hms hnes]
      rfl
    · have ha' : isAnyBT bt = false := by simpa using ha
      rw [btElem_typed bt hbt ha', typedMems_eq bt ms [] ha' hbt hms]
theorem genList_exact (bt : Nat) (xs : List UTree) (ha : isAnyBT bt = true) (hwf : wfList bt xs = true)
    (hne : noEmptyList xs = true) : genList .ifc xs = genericList (toSList xs) := by
  match xs with
  | [] => simp [genList, toSList, genericList]
  | x :: r =>
    obtain ⟨hx, hr⟩ := wfList_cons bt x r hwf
    rw [if_pos ha] at hx
    simp only [noEmptyList, Bool.and_eq_true] at hne
    simp only [genList, toSList, genericList, if_true]
    rw [gen_exact x hx hne.1, genList_exact bt r ha hr hne.2]
theorem genMems_exact (bt : Nat) (ms : List (Bool × Bytes × UTree)) (acc : List (Bytes × GoVal))
    (ha : isAnyBT bt = true) (hwf : wfMems bt ms = true) (hne : noEmptyMems ms = true) :
    genMems .ifc ms acc = genericMems (toSMems ms) acc := by
  match ms with
  | [] => simp [genMems, toSMems, genericMems]
  | (b, k, x) :: r =>
    obtain ⟨hx, hr⟩ := wfMems_cons bt b k x r hwf
    rw [if_pos ha] at hx
    simp only [noEmptyMems, Bool.and_eq_true] at hne
    simp only [genMems, toSMems, genericMems, if_true]
    rw [gen_exact x hx hne.1, mapSet_eq_putMember]
    exact genMems_exact bt r _ ha hr hne.2
end

end SF.Unf
