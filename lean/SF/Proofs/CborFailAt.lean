/-
  `failAt` (the visitor's fault index, part of the mirror's state only as a parameter) is never
  changed by any parser function.  Mechanical copy of the `err`-preservation lemmas.
-/
import SF.Proofs.CborNoPanic
namespace SF.Props.C16F
open SF SF.Cbor SF.Cbor.Parse


@[simp] theorem setMajor_fAt (p : P) (m : UInt8) : (setMajor p m).failAt = p.failAt := rfl
@[simp] theorem setMinor_fAt (p : P) (m : UInt8) : (setMinor p m).failAt = p.failAt := rfl
@[simp] theorem pushState_fAt (p : P) (s : St) : (pushState p s).failAt = p.failAt := rfl
@[simp] theorem popSt_fAt (p : P) : (popSt p).failAt = p.failAt := rfl
@[simp] theorem pushLen_fAt (p : P) (l : Int) : (pushLen p l).failAt = p.failAt := rfl
@[simp] theorem popLen_fAt (p : P) : (popLen p).failAt = p.failAt := rfl
@[simp] theorem decLen_fAt (p : P) (n : Int) : (decLen p n).failAt = p.failAt := rfl
@[simp] theorem collectP_fAt (p : P) (b : Bytes) (n : Nat) : (collectP p b n).1.failAt = p.failAt := by
  simp [collectP]
@[simp] theorem visit_fAt (p : P) (e : Ev) : (visit p e).1.failAt = p.failAt := by
  simp only [visit]; split <;> (try split) <;> rfl

theorem visitAll_fAt (p : P) (es : List Ev) : (visitAll p es).1.failAt = p.failAt := by
  induction es generalizing p with
  | nil => rfl
  | cons e es ih =>
    simp only [visitAll]
    rcases h : visit p e with ⟨q, err⟩
    have hq : q.failAt = p.failAt := by have := visit_fAt p e; rw [h] at this; exact this
    cases err with
    | none => simp only; rw [ih q, hq]
    | some e => simp only; exact hq

theorem onValue_fAt (n : Nat) (p : P) : (onValue n p).1.failAt = p.failAt := by
  induction n generalizing p with
  | zero =>
    unfold onValue
    simp only
    split
    · split
      · simp
      · rcases h : visit (decLen p 1) (if p.state.current.major == majorArr then Ev.arrEnd else Ev.objEnd) with ⟨q, err⟩
        have hq : q.failAt = p.failAt := by have := visit_fAt (decLen p 1) (if p.state.current.major == majorArr then Ev.arrEnd else Ev.objEnd); rw [h] at this; simpa using this
        cases err <;> simp [hq]
    · split <;> simp
  | succ n ih =>
    unfold onValue
    simp only
    split
    · split
      · simp
      · rcases h : visit (decLen p 1) (if p.state.current.major == majorArr then Ev.arrEnd else Ev.objEnd) with ⟨q, err⟩
        have hq : q.failAt = p.failAt := by have := visit_fAt (decLen p 1) (if p.state.current.major == majorArr then Ev.arrEnd else Ev.objEnd); rw [h] at this; simpa using this
        cases err with
        | none => simp only; rw [ih]; simpa using hq
        | some e => simpa using hq
    · split <;> simp

theorem popState_fAt (n : Nat) (p : P) : (popState n p).1.failAt = p.failAt := by
  cases n with
  | zero => simp [popState]
  | succ n => simp only [popState]; rw [onValue_fAt]; simp

/-- split on a visitor call, keeping that the stored error is unchanged -/
macro "visit_fAt_cases " X:term:max e:term:max : tactic =>
  `(tactic| (rcases hvis : visit $X $e with ⟨q, err⟩
             have hq : q.failAt = ($X).failAt := by have := visit_fAt $X $e; rw [hvis] at this; exact this
             cases err <;> simp only []))

theorem handleLenD_fAt (isArr : Bool) (n : Nat) (p : P) : (handleLenD isArr n p).1.failAt = p.failAt := by
  unfold handleLenD
  split
  · rfl
  · rcases hvis : visit p (if isArr then Ev.arrEnd else Ev.objEnd) with ⟨q, err⟩
    have hq : q.failAt = p.failAt := by have := visit_fAt p (if isArr then Ev.arrEnd else Ev.objEnd); rw [hvis] at this; exact this
    cases err with
    | none => simp only; rw [popState_fAt]; simpa using hq
    | some e => simpa using hq

theorem scalar_fAt (p : P) (e : Ev) (rest : Bytes) : (scalar p e rest).p.failAt = p.failAt := by
  unfold scalar
  rcases hvis : visit p e with ⟨q, err⟩
  have hq : q.failAt = p.failAt := by have := visit_fAt p e; rw [hvis] at this; exact this
  cases err with
  | none => simp only [onValueR]; rw [onValue_fAt]; exact hq
  | some e => simpa using hq

theorem scalarPop_fAt (p : P) (e : Ev) (rest : Bytes) : (scalarPop p e rest).p.failAt = p.failAt := by
  unfold scalarPop
  rcases hvis : visit p e with ⟨q, err⟩
  have hq : q.failAt = p.failAt := by have := visit_fAt p e; rw [hvis] at this; exact this
  cases err with
  | none => simp only [popStateR]; rw [popState_fAt]; exact hq
  | some e => simpa using hq

theorem initByteSeq_fAt (p : P) (a b : UInt8) (bs : Bytes) : (initByteSeq p a b bs).p.failAt = p.failAt := by
  unfold initByteSeq; split <;> (try split) <;> simp

theorem initSub_fAt (p : P) (a b : UInt8) (bs : Bytes) : (initSub p a b bs).p.failAt = p.failAt := by
  unfold initSub; split <;> (try split) <;> (try split) <;> simp

theorem stepValue_fAt (p : P) (b : Bytes) : (stepValue p b).p.failAt = p.failAt := by
  unfold stepValue
  split
  · rfl
  · simp only
    repeat' split
    all_goals first
      | exact scalar_fAt _ _ _
      | exact initByteSeq_fAt _ _ _ _
      | exact initSub_fAt _ _ _ _
      | simp

theorem getArg_fAt (p : P) (b : Bytes) (w : Nat) (r : P × Bytes × Option Nat) (h : getArg p b w = .ok r) :
    r.1.failAt = p.failAt := by
  unfold getArg at h
  split at h
  · split at h
    · simp at h
    · injection h with h; subst h; rfl
  · injection h with h; subst h; simp


theorem stepUint_fAt (p : P) (b : Bytes) : (stepUint p b).p.failAt = p.failAt := by
  unfold stepUint
  split
  · rfl
  · rename_i w _
    cases h : getArg p b w with
    | error e => rfl
    | ok r =>
      obtain ⟨q, rest, v⟩ := r
      have hq := getArg_fAt p b w _ h
      cases v with
      | none => simpa using hq
      | some v => simp only; rw [scalarPop_fAt]; exact hq

theorem stepNeg_fAt (p : P) (b : Bytes) : (stepNeg p b).p.failAt = p.failAt := by
  unfold stepNeg
  split
  · rfl
  · rename_i w _
    cases h : getArg p b w with
    | error e => rfl
    | ok r =>
      obtain ⟨q, rest, v⟩ := r
      have hq := getArg_fAt p b w _ h
      cases v with
      | none => simpa using hq
      | some v =>
        simp only
        cases negEvent w v with
        | error e => simpa using hq
        | ok ev => simp only; rw [scalarPop_fAt]; exact hq

theorem stepLen_fAt (p : P) (b : Bytes) : (stepLen p b).p.failAt = p.failAt := by
  unfold stepLen
  split
  · rfl
  · rename_i w _
    cases h : getArg p b w with
    | error e => rfl
    | ok r =>
      obtain ⟨q, rest, v⟩ := r
      have hq := getArg_fAt p b w _ h
      cases v with
      | none => simpa using hq
      | some v => simp only; split <;> simpa using hq

theorem stepFloat_fAt (p : P) (b : Bytes) (w : Nat) : (stepFloat p b w).p.failAt = p.failAt := by
  unfold stepFloat
  simp only
  split
  · simp
  · rename_i t _
    rcases hvis : visit (collectP p b w).1 (if w == 4 then Ev.f32 (UInt32.ofNat (beNat t)) else Ev.f64 (UInt64.ofNat (beNat t))) with ⟨q, err⟩
    have hq : q.failAt = p.failAt := by
      have := visit_fAt (collectP p b w).1 (if w == 4 then Ev.f32 (UInt32.ofNat (beNat t)) else Ev.f64 (UInt64.ofNat (beNat t)))
      rw [hvis] at this; simpa using this
    cases err with
    | none => simp only [popStateR]; rw [popState_fAt]; exact hq
    | some e => simpa using hq

theorem stepBytesGo_fAt (p : P) (b : Bytes) : (stepBytesGo p b).p.failAt = p.failAt := by
  unfold stepBytesGo
  simp only []
  have hva : ∀ (X : P) (es : List Ev) (q : P) (r : Option Err), visitAll X es = (q, r) → q.failAt = X.failAt := by
    intro X es q r h; have := visitAll_fAt X es; rw [h] at this; exact this
  split
  · rename_i q e heq
    have := hva _ _ _ _ heq
    simp only [this]; split <;> simp
  · rename_i q heq
    have hq := hva _ _ _ _ heq
    have hq' : q.failAt = p.failAt := by rw [hq]; split <;> simp
    split
    · rcases hvis : visit q Ev.arrEnd with ⟨q2, err⟩
      have hq2 : q2.failAt = q.failAt := by have := visit_fAt q Ev.arrEnd; rw [hvis] at this; exact this
      cases err with
      | none => simp only [popStateR]; rw [popState_fAt]; simp [hq2, hq']
      | some e => simp [hq2, hq']
    · exact hq'

theorem stepBytes_fAt (p : P) (b : Bytes) : (stepBytes p b).p.failAt = p.failAt := by
  unfold stepBytes
  split
  · rcases hvis : visit p (Ev.arrStart p.length.current BT.byte) with ⟨q, err⟩
    have hq : q.failAt = p.failAt := by have := visit_fAt p (Ev.arrStart p.length.current BT.byte); rw [hvis] at this; exact this
    cases err with
    | none => simp only; rw [stepBytesGo_fAt]; simpa using hq
    | some e => simpa using hq
  · exact stepBytesGo_fAt _ _

theorem stepText_fAt (p : P) (b : Bytes) : (stepText p b).p.failAt = p.failAt := by
  unfold stepText
  simp only
  split
  · simp
  · rename_i t _
    rcases hvis : visit (popLen (collectP p b p.length.current.toNat).1) (Ev.str t) with ⟨q, err⟩
    have hq : q.failAt = p.failAt := by
      have := visit_fAt (popLen (collectP p b p.length.current.toNat).1) (Ev.str t)
      rw [hvis] at this; simpa using this
    cases err with
    | none => simp only [popStateR]; rw [popState_fAt]; exact hq
    | some e => simpa using hq

theorem stepKey_fAt (p : P) (b : Bytes) : (stepKey p b).p.failAt = p.failAt := by
  unfold stepKey
  simp only
  split
  · simp
  · rename_i t _
    rcases hvis : visit (collectP p b p.length.current.toNat).1 (Ev.key t) with ⟨q, err⟩
    have hq : q.failAt = p.failAt := by
      have := visit_fAt (collectP p b p.length.current.toNat).1 (Ev.key t)
      rw [hvis] at this; simpa using this
    cases err <;> simpa using hq

theorem initMapKey_fAt (p : P) (b : Bytes) : (initMapKey p b).p.failAt = p.failAt := by
  unfold initMapKey
  cases b with
  | nil => rfl
  | cons b0 bs =>
    simp only
    split
    · rfl
    · split
      · rfl
      · exact initByteSeq_fAt _ _ _ _

theorem stepArray_fAt (p : P) (b : Bytes) : (stepArray p b).p.failAt = p.failAt := by
  unfold stepArray
  split
  · exact stepValue_fAt _ _
  · simp only; exact handleLenD_fAt _ _ _

theorem stepMap_fAt (p : P) (b : Bytes) : (stepMap p b).p.failAt = p.failAt := by
  unfold stepMap
  split
  · split
    · exact initMapKey_fAt _ _
    · rfl
  · simp only; exact handleLenD_fAt _ _ _

theorem indefArr_fAt (p : P) (b : Bytes) : (indefArr p b).p.failAt = p.failAt := by
  unfold indefArr
  cases b with
  | nil => rfl
  | cons b0 bs =>
    simp only
    split
    · rcases hvis : visit p Ev.arrEnd with ⟨q, err⟩
      have hq : q.failAt = p.failAt := by have := visit_fAt p Ev.arrEnd; rw [hvis] at this; exact this
      cases err with
      | none => simp only [popStateR]; rw [popState_fAt]; exact hq
      | some e => simpa using hq
    · exact stepValue_fAt _ _

theorem indefMap_fAt (p : P) (b : Bytes) : (indefMap p b).p.failAt = p.failAt := by
  unfold indefMap
  cases b with
  | nil => rfl
  | cons b0 bs =>
    simp only
    split
    · rcases hvis : visit p Ev.objEnd with ⟨q, err⟩
      have hq : q.failAt = p.failAt := by have := visit_fAt p Ev.objEnd; rw [hvis] at this; exact this
      cases err with
      | none => simp only [popStateR]; rw [popState_fAt]; exact hq
      | some e => simpa using hq
    · exact initMapKey_fAt _ _


theorem execStep_fAt (p : P) (b : Bytes) : (execStep p b).p.failAt = p.failAt := by
  unfold execStep
  simp only []
  by_cases hX : (p.state.current.major == stFail) = true
  · simp only [hX, if_true]
  simp only [hX, Bool.false_eq_true, if_false]
  clear hX
  by_cases hX : (p.state.current.major == stValue) = true
  · simp only [hX, if_true]
    exact stepValue_fAt _ _
  simp only [hX, Bool.false_eq_true, if_false]
  clear hX
  by_cases hX : (p.state.current.major == stLen) = true
  · simp only [hX, if_true]
    exact stepLen_fAt _ _
  simp only [hX, Bool.false_eq_true, if_false]
  clear hX
  by_cases hX : (p.state.current.major == majorUint) = true
  · simp only [hX, if_true]
    exact stepUint_fAt _ _
  simp only [hX, Bool.false_eq_true, if_false]
  clear hX
  by_cases hX : (p.state.current.major == majorNeg) = true
  · simp only [hX, if_true]
    exact stepNeg_fAt _ _
  simp only [hX, Bool.false_eq_true, if_false]
  clear hX
  by_cases hX : (p.state.current.major == codeSingleFloat) = true
  · simp only [hX, if_true]
    exact stepFloat_fAt _ _ _
  simp only [hX, Bool.false_eq_true, if_false]
  clear hX
  by_cases hX : (p.state.current.major == codeDoubleFloat) = true
  · simp only [hX, if_true]
    exact stepFloat_fAt _ _ _
  simp only [hX, Bool.false_eq_true, if_false]
  clear hX
  by_cases hX : (p.state.current.major == (majorBytes ||| stStartX)) = true
  · simp only [hX, if_true]
    split
    · rcases hvis : visit p (Ev.arrStart 0 BT.byte) with ⟨q, err⟩
      have hq : q.failAt = p.failAt := by have := visit_fAt p (Ev.arrStart 0 BT.byte); rw [hvis] at this; exact this
      cases err with
      | some e => simpa using hq
      | none =>
        simp only
        rcases hvis2 : visit q Ev.arrEnd with ⟨q2, err2⟩
        have hq2 : q2.failAt = q.failAt := by have := visit_fAt q Ev.arrEnd; rw [hvis2] at this; exact this
        cases err2 with
        | some e => simp [hq2, hq]
        | none => simp only [popStateR]; rw [popState_fAt]; simp [hq2, hq]
    · split
      · simp
      · rw [stepBytes_fAt]; simp
  simp only [hX, Bool.false_eq_true, if_false]
  clear hX
  by_cases hX : (p.state.current.major == majorBytes) = true
  · simp only [hX, if_true]
    exact stepBytes_fAt _ _
  simp only [hX, Bool.false_eq_true, if_false]
  clear hX
  by_cases hX : (p.state.current.major == (majorText ||| stStartX)) = true
  · simp only [hX, if_true]
    split
    · rcases hvis : visit (popLen p) (Ev.str []) with ⟨q, err⟩
      have hq : q.failAt = p.failAt := by have := visit_fAt (popLen p) (Ev.str []); rw [hvis] at this; simpa using this
      cases err with
      | some e => simpa using hq
      | none => simp only [popStateR]; rw [popState_fAt]; exact hq
    · split
      · simp
      · rw [stepText_fAt]; simp
  simp only [hX, Bool.false_eq_true, if_false]
  clear hX
  by_cases hX : (p.state.current.major == majorText) = true
  · simp only [hX, if_true]
    exact stepText_fAt _ _
  simp only [hX, Bool.false_eq_true, if_false]
  clear hX
  by_cases hX : (p.state.current.major == stStartArr) = true
  · simp only [hX, if_true]
    rcases hvis : visit p (Ev.arrStart p.length.current BT.any) with ⟨q, err⟩
    have hq : q.failAt = p.failAt := by have := visit_fAt p (Ev.arrStart p.length.current BT.any); rw [hvis] at this; exact this
    cases err with
    | some e => simpa using hq
    | none => simp only; rw [stepArray_fAt]; simpa using hq
  simp only [hX, Bool.false_eq_true, if_false]
  clear hX
  by_cases hX : (p.state.current.major == majorArr) = true
  · simp only [hX, if_true]
    exact stepArray_fAt _ _
  simp only [hX, Bool.false_eq_true, if_false]
  clear hX
  by_cases hX : (p.state.current.major == stStartIndefArr) = true
  · simp only [hX, if_true]
    rcases hvis : visit p (Ev.arrStart (-1) BT.any) with ⟨q, err⟩
    have hq : q.failAt = p.failAt := by have := visit_fAt p (Ev.arrStart (-1) BT.any); rw [hvis] at this; exact this
    cases err with
    | some e => simpa using hq
    | none => simp only; rw [indefArr_fAt]; simpa using hq
  simp only [hX, Bool.false_eq_true, if_false]
  clear hX
  by_cases hX : (p.state.current.major == (majorArr ||| stIndef)) = true
  · simp only [hX, if_true]
    exact indefArr_fAt _ _
  simp only [hX, Bool.false_eq_true, if_false]
  clear hX
  by_cases hX : (p.state.current.major == stStartMap) = true
  · simp only [hX, if_true]
    rcases hvis : visit p (Ev.objStart p.length.current BT.any) with ⟨q, err⟩
    have hq : q.failAt = p.failAt := by have := visit_fAt p (Ev.objStart p.length.current BT.any); rw [hvis] at this; exact this
    cases err with
    | some e => simpa using hq
    | none => simp only; rw [stepMap_fAt]; simpa using hq
  simp only [hX, Bool.false_eq_true, if_false]
  clear hX
  by_cases hX : (p.state.current.major == majorMap) = true
  · simp only [hX, if_true]
    exact stepMap_fAt _ _
  simp only [hX, Bool.false_eq_true, if_false]
  clear hX
  by_cases hX : (p.state.current.major == stStartIndefMap) = true
  · simp only [hX, if_true]
    rcases hvis : visit p (Ev.objStart (-1) BT.any) with ⟨q, err⟩
    have hq : q.failAt = p.failAt := by have := visit_fAt p (Ev.objStart (-1) BT.any); rw [hvis] at this; exact this
    cases err with
    | some e => simpa using hq
    | none => simp only; rw [indefMap_fAt]; simpa using hq
  simp only [hX, Bool.false_eq_true, if_false]
  clear hX
  by_cases hX : (p.state.current.major == (majorMap ||| stIndef)) = true
  · simp only [hX, if_true]
    exact indefMap_fAt _ _
  simp only [hX, Bool.false_eq_true, if_false]
  clear hX
  by_cases hX : (p.state.current.major == (stKey ||| stStartX)) = true
  · simp only [hX, if_true]
    split
    · rcases hvis : visit p (Ev.key []) with ⟨q, err⟩
      have hq : q.failAt = p.failAt := by have := visit_fAt p (Ev.key []); rw [hvis] at this; exact this
      cases err <;> simpa using hq
    · rw [stepKey_fAt]; simp
  simp only [hX, Bool.false_eq_true, if_false]
  clear hX
  by_cases hX : (p.state.current.major == stKey) = true
  · simp only [hX, if_true]
    exact stepKey_fAt _ _
  simp only [hX, Bool.false_eq_true, if_false]
  clear hX
  by_cases hX : (p.state.current.major == stElem) = true
  · simp only [hX, if_true]
    rw [stepValue_fAt]; simp
  simp only [hX, Bool.false_eq_true, if_false]

theorem feedUntil_fAt (f : Nat) (p : P) (b : Bytes) : (feedUntil f p b).p.failAt = p.failAt := by
  induction f generalizing p b with
  | zero => simp [feedUntil]
  | succ f ih =>
    simp only [feedUntil]
    have h2 := execStep_fAt p b
    split
    · exact h2
    · split
      · exact h2
      · rw [ih, h2]

theorem feed_fAt (fuel : Nat) (p : P) (b : Bytes) : (feed fuel p b).1.failAt = p.failAt := by
  induction fuel generalizing p b with
  | zero => simp [feed]
  | succ fuel ih =>
    simp only [feed]
    split
    · rfl
    · cases he : (feedUntil (fuelFor b) p b).err with
      | some e => simp only; exact feedUntil_fAt _ _ _
      | none => simp only; rw [ih, feedUntil_fAt]

end SF.Props.C16F
