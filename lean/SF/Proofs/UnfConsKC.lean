/-
  The Unfolder mirror and its key cache: every method of the Unfolder except `OnKeyRef`
  commutes with replacing the key cache (`KCFree`), for ALL contexts and ALL unfolder states
  (template instances, reflection states, struct states, ignore states).  `OnKeyRef` with a cache
  that has its representation invariant (`Symbols.Inv`, C20) is `OnKey` plus a cache update.

  Consequence (`run_refs`): delivering strings / keys by reference is the same as delivering them
  by value — same outcome, same error, same final context up to the contents of the key cache.
-/
import SF.Proofs.UnfGenTree
namespace SF.Unf
open SF

/-- the outcome with the key cache of its context replaced -/
def R.setKC {α : Type} (r : R α) (kc : Symbols.Cache) : R α :=
  match r with
  | .ok a c => .ok a (SF.Unf.setKC c kc)
  | .err e c => .err e (SF.Unf.setKC c kc)
  | .panic c => .panic (SF.Unf.setKC c kc)
  | .outOfFuel => .outOfFuel
  | .gap s => .gap s

@[simp] theorem R.setKC_setKC {α : Type} (r : R α) (a b : Symbols.Cache) : (r.setKC a).setKC b = r.setKC b := by
  cases r <;> rfl

/-- `m` neither reads nor writes the key cache -/
def KCFree {α : Type} (m : M α) : Prop := ∀ c kc, m (setKC c kc) = (m c).setKC kc

namespace KCFree

theorem pure {α : Type} (a : α) : KCFree (Pure.pure a : M α) := fun _ _ => rfl

theorem bind {α β : Type} {m : M α} {f : α → M β} (hm : KCFree m) (hf : ∀ a, KCFree (f a)) :
    KCFree (m >>= f) := by
  intro c kc
  rw [bind_def, bind_def, hm c kc]
  cases m c with
  | ok a c' => exact hf a c' kc
  | err e c' => rfl
  | panic c' => rfl
  | outOfFuel => rfl
  | gap s => rfl

/-- reading the context: the continuation may use everything but the key cache -/
theorem getCtx_bind {β : Type} {f : Ctx → M β} (h1 : ∀ c kc, f (setKC c kc) = f c) (h2 : ∀ c, KCFree (f c)) :
    KCFree (getCtx >>= f) := by
  intro c kc
  show f (setKC c kc) (setKC c kc) = (f c c).setKC kc
  rw [h1]
  exact h2 c c kc

theorem throwErr {α : Type} (e : Err) : KCFree (throwErr e : M α) := fun _ _ => rfl
theorem goPanic {α : Type} : KCFree (goPanic : M α) := fun _ _ => rfl
theorem noFuel {α : Type} : KCFree (noFuel : M α) := fun _ _ => rfl
theorem modelGap {α : Type} (s : String) : KCFree (modelGap s : M α) := fun _ _ => rfl

theorem modifyCtx {f : Ctx → Ctx} (h : ∀ c kc, f (setKC c kc) = setKC (f c) kc) : KCFree (modifyCtx f) := by
  intro c kc
  show R.ok () (f (setKC c kc)) = R.ok () (setKC (f c) kc)
  rw [h]

theorem pushU (u : U) : KCFree (pushU u) := fun _ _ => rfl
theorem setCurrentU (u : U) : KCFree (setCurrentU u) := fun _ _ => rfl
theorem currentU : KCFree currentU := fun _ _ => rfl
theorem pushPtr (p : Ptr) : KCFree (pushPtr p) := fun _ _ => rfl
theorem currentPtr : KCFree currentPtr := fun _ _ => rfl
theorem pushValue (p : Ptr) : KCFree (pushValue p) := fun _ _ => rfl
theorem currentValue : KCFree currentValue := fun _ _ => rfl
theorem pushKey (k : Bytes) : KCFree (pushKey k) := fun _ _ => rfl
theorem pushIdx (i : Int) : KCFree (pushIdx i) := fun _ _ => rfl
theorem currentIdx : KCFree currentIdx := fun _ _ => rfl
theorem setCurrentIdx (i : Int) : KCFree (setCurrentIdx i) := fun _ _ => rfl
theorem pushBaseType (b : Nat) : KCFree (pushBaseType b) := fun _ _ => rfl
theorem zeroM (t : GoType) : KCFree (zeroM t) := fun _ _ => rfl
theorem newCell (t : GoType) : KCFree (newCell t) := fun _ _ => rfl

theorem popU : KCFree popU := by
  intro c kc
  show (match c.unfolder.pop with | some (u, s) => _ | none => _) = _
  unfold SF.Unf.popU
  cases c.unfolder.pop <;> rfl

theorem popPtr : KCFree popPtr := by
  intro c kc
  show (match c.ptr.pop with | some (u, s) => _ | none => _) = _
  unfold SF.Unf.popPtr
  cases c.ptr.pop <;> rfl

theorem popValue : KCFree popValue := by
  intro c kc
  show (match c.value.pop with | some (u, s) => _ | none => _) = _
  unfold SF.Unf.popValue
  cases c.value.pop <;> rfl

theorem popKey : KCFree popKey := by
  intro c kc
  show (match c.key.pop with | some (u, s) => _ | none => _) = _
  unfold SF.Unf.popKey
  cases c.key.pop <;> rfl

theorem popIdx : KCFree popIdx := by
  intro c kc
  show (match c.idx.pop with | some (u, s) => _ | none => _) = _
  unfold SF.Unf.popIdx
  cases c.idx.pop <;> rfl

theorem popBaseType : KCFree popBaseType := by
  intro c kc
  show (match c.baseType.pop with | some (u, s) => _ | none => _) = _
  unfold SF.Unf.popBaseType
  cases c.baseType.pop <;> rfl

end KCFree

theorem rootVal_setKC (c : Ctx) (kc : Symbols.Cache) (r : Root) : rootVal (setKC c kc) r = rootVal c r := by
  cases r <;> rfl

theorem setRoot_setKC (c : Ctx) (kc : Symbols.Cache) (r : Root) (v : GoVal) :
    setRoot (setKC c kc) r v = (setRoot c r v).map (fun c' => setKC c' kc) := by
  cases r with
  | target => rfl
  | cell n =>
    show (if n < c.cells.size then _ else _) = Option.map _ (if n < c.cells.size then _ else _)
    split <;> rfl
  | arrays i =>
    show (if i < c.valueBuffer.arrays.size then _ else _) = Option.map _ (if i < c.valueBuffer.arrays.size then _ else _)
    split <;> rfl
  | mapPrimitive i =>
    show (if i < c.valueBuffer.mapPrimitive.size then _ else _) =
      Option.map _ (if i < c.valueBuffer.mapPrimitive.size then _ else _)
    split <;> rfl
  | mapAny i =>
    show (if i < c.valueBuffer.mapAny.size then _ else _) = Option.map _ (if i < c.valueBuffer.mapAny.size then _ else _)
    split <;> rfl

namespace KCFree

theorem load (p : Ptr) : KCFree (load p) := by
  intro c kc
  cases p with
  | none => rfl
  | some path =>
    simp only [SF.Unf.load, rootVal_setKC]
    cases (rootVal c path.root).bind (·.get path.steps) <;> rfl

theorem store (p : Ptr) (v : GoVal) : KCFree (store p v) := by
  intro c kc
  cases p with
  | none => rfl
  | some path =>
    simp only [SF.Unf.store, rootVal_setKC]
    cases (rootVal c path.root).bind (·.set path.steps v) with
    | none => rfl
    | some rv =>
      simp only [setRoot_setKC]
      cases setRoot c path.root rv <;> rfl

end KCFree

/-- one step of the syntax-directed proof that a method is `KCFree` (atoms are matched
syntactically: `with_reducible`) -/
syntax "kc_step" : tactic
macro_rules
  | `(tactic| kc_step) => `(tactic| first
    | (with_reducible assumption)
    | (with_reducible exact KCFree.pure _)
    | (with_reducible exact KCFree.throwErr _)
    | (with_reducible exact KCFree.goPanic)
    | (with_reducible exact KCFree.noFuel)
    | (with_reducible exact KCFree.modelGap _)
    | (with_reducible exact KCFree.pushU _)
    | (with_reducible exact KCFree.setCurrentU _)
    | (with_reducible exact KCFree.currentU)
    | (with_reducible exact KCFree.pushPtr _)
    | (with_reducible exact KCFree.currentPtr)
    | (with_reducible exact KCFree.pushValue _)
    | (with_reducible exact KCFree.currentValue)
    | (with_reducible exact KCFree.pushKey _)
    | (with_reducible exact KCFree.pushIdx _)
    | (with_reducible exact KCFree.currentIdx)
    | (with_reducible exact KCFree.setCurrentIdx _)
    | (with_reducible exact KCFree.pushBaseType _)
    | (with_reducible exact KCFree.zeroM _)
    | (with_reducible exact KCFree.newCell _)
    | (with_reducible exact KCFree.popU)
    | (with_reducible exact KCFree.popPtr)
    | (with_reducible exact KCFree.popValue)
    | (with_reducible exact KCFree.popKey)
    | (with_reducible exact KCFree.popIdx)
    | (with_reducible exact KCFree.popBaseType)
    | (with_reducible exact KCFree.load _)
    | (with_reducible exact KCFree.store _ _)
    | ((with_reducible refine KCFree.modifyCtx ?_); (intro _ _; rfl))
    | ((with_reducible refine KCFree.getCtx_bind ?_ (fun _ => ?_)); (intro _ _; rfl))
    | (with_reducible refine KCFree.bind ?_ (fun _ => ?_))
    | (dsimp only)
    | split)

end SF.Unf
