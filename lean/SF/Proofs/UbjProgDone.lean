/-
  C03 no-hang (UBJSON): a `done` result without error leaves the parser at the bottom of its
  state stack.
-/
import SF.Proofs.UbjProgCons
namespace SF.Ubjson.Parse
open SF SF.Ubjson
open StateType StateStep

/-! ## `done` without error means: back at the bottom of the state stack -/

def DoneIdle (r : R) : Prop := r.done = true → r.err = none → r.p.state.stack = []

theorem DoneIdle.ofFalse {r : R} (h : r.done = false) : DoneIdle r := by
  intro hd; rw [h] at hd; cases hd

theorem DoneIdle.setFalse (r : R) : DoneIdle { r with done := false } := DoneIdle.ofFalse rfl

theorem DoneIdle.err {r : R} {e : Err} (h : r.err = some e) : DoneIdle r := by
  intro _ he; rw [h] at he; cases he

theorem di_popState (p : P) (b : Bytes) :
    DoneIdle (let (q, d) := popState p; ({ p := q, rest := b, done := d } : R)) := by
  intro hd _
  simpa [popState] using hd

theorem di_popLenState (p : P) (b : Bytes) :
    DoneIdle (let (q, d) := popLenState p; ({ p := q, rest := b, done := d } : R)) := by
  intro hd _
  simpa [popLenState, popState] using hd

theorem stepValue_di (p : P) (b : Bytes) (h : p.state.stack = []) : DoneIdle (stepValue p b) := by
  unfold stepValue
  cases b with
  | nil => exact DoneIdle.err rfl
  | cons x bs =>
    simp only []
    split
    · exact DoneIdle.err rfl
    · split
      · simp only [visit_eq]; intro _ _; exact h
      · exact DoneIdle.ofFalse rfl
      · simp only [visit_eq]; intro _ _; exact h
      · simp only [visit_eq]; intro _ _; exact h
      · exact DoneIdle.ofFalse rfl

theorem fixFin_di (p : P) (b : Bytes) (done : Bool) (err : Option Err) : DoneIdle (fixFin p b done err) := by
  unfold fixFin
  split
  · exact di_popState p b
  · rename_i h
    intro hd he
    simp only at hd he
    subst hd he
    simp at h

theorem stepFixedValue_di (p : P) (b : Bytes) : DoneIdle (stepFixedValue p b) := by
  rw [stepFixedValue_eq]
  split
  all_goals first
    | (simp only [visit_eq]; exact fixFin_di _ _ _ _)
    | exact fixFin_di _ _ _ _
    | exact DoneIdle.ofFalse rfl
    | skip
  · cases b with
    | nil => exact DoneIdle.err rfl
    | cons x bs => simp only [visit_eq]; exact fixFin_di _ _ _ _
  · cases b with
    | nil => exact DoneIdle.err rfl
    | cons x bs => simp only [visit_eq]; exact fixFin_di _ _ _ _
  all_goals
    rcases collectP p b _ with ⟨q, rest, tmp⟩
    cases tmp with
    | none => exact fixFin_di _ _ _ _
    | some t => simp only [visit_eq]; exact fixFin_di _ _ _ _


theorem strFin_di (p : P) (b : Bytes) (done : Bool) (err : Option Err) : DoneIdle (strFin p b done err) := by
  unfold strFin
  split
  · exact di_popLenState p b
  · rename_i h
    intro hd he
    simp only at hd he
    subst hd he
    simp at h

theorem strWithLen_di (p : P) (b : Bytes) : DoneIdle (strWithLen p b) := by
  unfold strWithLen
  simp only []
  split
  · simp only [visit_eq]; exact strFin_di _ _ _ _
  · split
    · exact DoneIdle.err rfl
    · rcases collectP p b _ with ⟨q, rest, tmp⟩
      cases tmp with
      | none => exact strFin_di _ _ _ _
      | some t => simp only [visit_eq]; exact strFin_di _ _ _ _

theorem stepString_di (p : P) (b : Bytes) : DoneIdle (stepString p b) := by
  rw [stepString_eq]
  split
  · simp only []
    split
    · exact strFin_di _ _ _ _
    · exact strWithLen_di _ _
  · exact strWithLen_di _ _
  · exact strFin_di _ _ _ _

theorem stepArrayInit_di (p : P) (b : Bytes) : DoneIdle (stepArrayInit p b) := by
  unfold stepArrayInit
  cases b with
  | nil => exact DoneIdle.err rfl
  | cons x bs =>
    simp only []
    split
    · exact DoneIdle.ofFalse rfl
    split
    · exact DoneIdle.ofFalse rfl
    · simp only [visit_eq]; exact DoneIdle.ofFalse rfl

theorem stepArrayDyn_di (p : P) (b : Bytes) : DoneIdle (stepArrayDyn p b) := by
  unfold stepArrayDyn
  cases b with
  | nil => exact DoneIdle.err rfl
  | cons x bs =>
    simp only []
    split
    · simp only [visit_eq]
      verr_split p
      · exact di_popState _ _
      · exact DoneIdle.err rfl
    · exact DoneIdle.setFalse _

theorem acContent_di (l : Int) (b : Bytes) (p : P) : DoneIdle (acContent l b p) := by
  unfold acContent
  split
  · simp only [visit_eq]
    verr_split p
    · exact di_popLenState _ _
    · exact DoneIdle.err rfl
  · cases b with
    | nil => exact DoneIdle.err rfl
    | cons x bs =>
      simp only []
      split
      · exact DoneIdle.ofFalse rfl
      · exact DoneIdle.setFalse _

theorem stepArrayCount_di (p : P) (b : Bytes) : DoneIdle (stepArrayCount p b) := by
  rw [stepArrayCount_eq]
  split
  · exact DoneIdle.setFalse _
  · split
    · simp only [visit_eq]
      split
      · exact DoneIdle.ofFalse rfl
      · exact acContent_di _ _ _
    · exact acContent_di _ _ _

theorem atContent_di (l : Int) (b : Bytes) (p : P) : DoneIdle (atContent l b p) := by
  unfold atContent
  split
  · simp only [visit_eq]
    verr_split p
    · exact di_popLenState _ _
    · exact DoneIdle.err rfl
  · exact DoneIdle.ofFalse rfl

theorem stepArrayTyped_di (p : P) (b : Bytes) : DoneIdle (stepArrayTyped p b) := by
  rw [stepArrayTyped_eq]
  split
  · exact DoneIdle.setFalse _
  · split
    · simp only [visit_eq]
      verr_split (setStep p stCont)
      · exact atContent_di _ _ _
      · exact DoneIdle.err rfl
    · exact atContent_di _ _ _

theorem stepObjectInit_di (p : P) (b : Bytes) : DoneIdle (stepObjectInit p b) := by
  unfold stepObjectInit
  cases b with
  | nil => exact DoneIdle.err rfl
  | cons x bs =>
    simp only []
    split
    · exact DoneIdle.ofFalse rfl
    split
    · exact DoneIdle.ofFalse rfl
    · simp only [visit_eq]; exact DoneIdle.ofFalse rfl

theorem fieldName_done (p : P) (b : Bytes) : (fieldName p b).done = false := by
  unfold fieldName
  simp only []
  split
  · rfl
  · rcases collectP p b _ with ⟨q, rest, tmp⟩
    cases tmp with
    | none => rfl
    | some t => rfl

theorem odBody_di (step : StateStep) (b : Bytes) (p : P) : DoneIdle (odBody step b p) := by
  unfold odBody
  split
  · exact DoneIdle.setFalse _
  · exact DoneIdle.ofFalse (fieldName_done p b)
  · cases b with
    | nil => exact DoneIdle.err rfl
    | cons x bs =>
      simp only []
      split
      · exact DoneIdle.ofFalse rfl
      · exact DoneIdle.setFalse _
  · exact DoneIdle.ofFalse rfl

theorem stepObjectDyn_di (p : P) (b : Bytes) : DoneIdle (stepObjectDyn p b) := by
  rw [stepObjectDyn_eq]
  split
  · cases b with
    | nil => exact DoneIdle.err rfl
    | cons x bs =>
      simp only []
      split
      · simp only [visit_eq]
        verr_split p
        · exact di_popState _ _
        · exact DoneIdle.err rfl
      · exact odBody_di _ _ _
  · exact odBody_di _ _ _

theorem stepObjectCount_di (p : P) (b : Bytes) : DoneIdle (stepObjectCount p b) := by
  unfold stepObjectCount
  split
  · exact DoneIdle.setFalse _
  · simp only []
    split
    · exact di_popLenState _ _
    · rename_i h
      intro hd he
      simp [hd, he] at h

theorem stepObjectTyped_di (p : P) (b : Bytes) : DoneIdle (stepObjectTyped p b) := by
  unfold stepObjectTyped
  simp only []
  split
  · exact DoneIdle.setFalse _
  · split
    · exact di_popLenState _ _
    · rename_i h
      intro hd he
      simp [hd, he] at h

theorem chain_next_nil {c : St} {S : List St} (h : chain (c :: S) = true) (hc : c.type = stNext) : S = [] := by
  cases S with
  | nil => rfl
  | cons t l => simp [chain, hc] at h

theorem dispatch_di (p : P) (b : Bytes) (hg : G p) : DoneIdle (dispatch p b) := by
  unfold dispatch
  split
  · exact DoneIdle.ofFalse rfl
  · rename_i ht; exact stepValue_di _ _ (chain_next_nil hg.chn ht)
  · exact stepFixedValue_di _ _
  · exact stepString_di _ _
  · exact stepString_di _ _
  · exact stepArrayInit_di _ _
  · exact stepArrayDyn_di _ _
  · exact stepArrayCount_di _ _
  · exact stepArrayTyped_di _ _
  · exact stepObjectInit_di _ _
  · exact stepObjectDyn_di _ _
  · exact stepObjectCount_di _ _
  · exact stepObjectTyped_di _ _

theorem execStep_di (p : P) (b : Bytes) (hg : G p) : DoneIdle (execStep p b) := by
  have := dispatch_di p b hg
  rw [execStep_eq]
  cases he : (dispatch p b).err with
  | none => simp only []; exact this
  | some e => simp only []; exact DoneIdle.err he

end SF.Ubjson.Parse
