/-
  JSON as the SOURCE of a transcoding (C08) and the contract theorem for the JSON parser (C09):
  facts about the event tree `J.tree` of a grammatical JSON text (SF/Proofs/JsonRefineSem.lean).

    tree_wf      the tree obeys the Visitor contract (containers announced with length -1 and
                 element type `any`)
    tree_nums    every number of the tree is an int64 / uint64 event in range
    tree_plain   a text without float tokens has a `plain` tree (JSON encoder theorem)
-/
import SF.Proofs.JsonRefineSem
import SF.Proofs.CborEnc
import SF.Proofs.UbjBridgeEnc
import SF.Proofs.JsonEncParse
import SF.Proofs.JsonSrcStr
namespace SF.Json.Grammar
open SF SF.Json SF.Json.Parse SF.Json.ParseP ETree

/-! ## (A) the tree of a text obeys the contract -/

theorem matchesBT_any (t : ETree) : t.matchesBT BT.any = true := by
  cases t <;> simp [ETree.matchesBT, Ev.matchesBT, BT.any]

mutual
theorem J.tree_wf : (v : J) → v.tree.wf = true
  | .lit k => by cases k <;> rfl
  | .num tok => by
    simp only [J.tree, numTree]
    cases numEv tok with
    | none => rfl
    | some ev => cases ev <;> rfl
  | .str _ => rfl
  | .arr _ body => by
    simp only [J.tree, ETree.wf, lenOkFor, Bool.and_eq_true]
    exact ⟨by simp, ABody.trees_wf body⟩
  | .obj _ body => by
    simp only [J.tree, ETree.wf, lenOkFor, Bool.and_eq_true]
    exact ⟨by simp, OBody.members_wf body⟩
theorem ABody.trees_wf : (b : ABody) → wfList BT.any b.trees = true
  | .close => rfl
  | .elems e _ tl => by
    simp only [ABody.trees, wfList, matchesBT_any, J.tree_wf e, ATail.trees_wf tl, Bool.and_self]
theorem ATail.trees_wf : (t : ATail) → wfList BT.any t.trees = true
  | .close => rfl
  | .more _ e _ tl => by
    simp only [ATail.trees, wfList, matchesBT_any, J.tree_wf e, ATail.trees_wf tl, Bool.and_self]
theorem OBody.members_wf : (b : OBody) → wfMems BT.any b.members = true
  | .close => rfl
  | .mems _ _ _ v _ tl => by
    simp only [OBody.members, wfMems, matchesBT_any, J.tree_wf v, OTail.members_wf tl, Bool.and_self]
theorem OTail.members_wf : (t : OTail) → wfMems BT.any t.members = true
  | .close => rfl
  | .more _ _ _ _ v _ tl => by
    simp only [OTail.members, wfMems, matchesBT_any, J.tree_wf v, OTail.members_wf tl, Bool.and_self]
end

/-! ## numbers: int64 / uint64 events in range, float64 events -/

theorem intEv_range (neg : Bool) (n : Nat) (ev : Ev) (h : intEv neg n = some ev) :
    ∃ k v, ev = .num k v ∧ k.inRange v = true := by
  unfold intEv at h
  repeat' split at h
  all_goals first
    | (simp at h; done)
    | (try simp only [Option.some.injEq] at h
       subst h
       refine ⟨_, _, rfl, ?_⟩
       simp only [NumKind.inRange, NumKind.lo, NumKind.hi, Bool.and_eq_true]
       constructor <;> (apply decide_eq_true; omega))

/-- a number token that denotes: a float64 event (token with `.`/`e`/`E`) or an integer event
in the range of its kind -/
theorem numEv_cases (tok : Bytes) (ev : Ev) (h : numEv tok = some ev) :
    (isDblTok tok = true ∧ ∃ bits, ev = .f64 bits) ∨
    (isDblTok tok = false ∧ ∃ k v, ev = .num k v ∧ k.inRange v = true) := by
  unfold numEv at h
  cases hd : isDblTok tok with
  | true =>
    simp only [hd, if_true] at h
    split at h
    · simp only [Option.some.injEq] at h; exact Or.inl ⟨rfl, _, h.symm⟩
    · simp at h
  | false =>
    simp only [hd, Bool.false_eq_true, if_false] at h
    split at h
    · exact Or.inr ⟨rfl, intEv_range _ _ ev h⟩
    · simp at h


/-! ## side conditions of the encoder theorems, on the text -/

mutual
/-- no float token (`.`, `e`, `E`) in the text -/
def J.noFloat : J → Bool
  | .num tok => !isDblTok tok
  | .arr _ body => body.noFloat
  | .obj _ body => body.noFloat
  | _ => true
def ABody.noFloat : ABody → Bool
  | .close => true
  | .elems e _ tl => e.noFloat && tl.noFloat
def ATail.noFloat : ATail → Bool
  | .close => true
  | .more _ e _ tl => e.noFloat && tl.noFloat
def OBody.noFloat : OBody → Bool
  | .close => true
  | .mems _ _ _ v _ tl => v.noFloat && tl.noFloat
def OTail.noFloat : OTail → Bool
  | .close => true
  | .more _ _ _ _ v _ tl => v.noFloat && tl.noFloat
end

/-- the size condition of the CBOR encoder theorem (`SF.Cbor.Enc.small`) on the tree of the text:
every string value, every key and every element count is below 2^63 (the numbers of the tree
are in range anyway, `numTree_small`); implied by `v.wire.length < 2^63` (`J.sized_of_short`) -/
def J.sized (v : J) : Bool := SF.Cbor.Enc.small v.tree

/-- the size condition of the UBJSON encoder theorem (`SF.Ubjson.Enc.smallU`): every string value
and every key is shorter than 2^63 bytes (containers are announced with length -1, so their
element counts are not written) -/
def J.sizedS (v : J) : Bool := SF.Ubjson.Enc.smallU v.tree

theorem J.sizedS_of_sized (v : J) (h : v.sized = true) : v.sizedS = true :=
  SF.Ubjson.Enc.smallU_of_small _ h

open SF.Cbor.Enc (small smallList smallMems)

theorem numTree_small (tok : Bytes) : small (numTree tok) = true := by
  unfold numTree
  cases h : numEv tok with
  | none => rfl
  | some ev =>
    rcases numEv_cases tok ev h with ⟨_, bits, rfl⟩ | ⟨_, k, v, rfl, hr⟩
    · rfl
    · simpa [evTree, small] using hr

mutual
theorem ATail.trees_length : (t : ATail) → t.trees.length + 1 ≤ t.wire.length
  | .close => by simp [ATail.trees, ATail.wire]
  | .more _ _ _ tl => by
    have := ATail.trees_length tl
    simp only [ATail.trees, ATail.wire, List.length_cons, List.length_append]
    omega
theorem OTail.members_length : (t : OTail) → t.members.length + 1 ≤ t.wire.length
  | .close => by simp [OTail.members, OTail.wire]
  | .more _ _ _ _ _ _ tl => by
    have := OTail.members_length tl
    simp only [OTail.members, OTail.wire, List.length_cons, List.length_append]
    omega
end

theorem ABody.trees_length (b : ABody) : b.trees.length ≤ b.wire.length := by
  cases b with
  | close => simp [ABody.trees]
  | elems e ws tl =>
    have := ATail.trees_length tl
    simp only [ABody.trees, ABody.wire, List.length_cons, List.length_append]
    omega

theorem OBody.members_length (b : OBody) : b.members.length ≤ b.wire.length := by
  cases b with
  | close => simp [OBody.members]
  | mems key ws1 ws2 v ws3 tl =>
    have := OTail.members_length tl
    simp only [OBody.members, OBody.wire, List.length_cons, List.length_append]
    omega

theorem key_small (key : Bytes) (B : Nat) (h : key.length < B) : ((strVal key).getD []).length < B := by
  cases hk : strVal key with
  | none => simp only [Option.getD_none, List.length_nil]; omega
  | some k => have := strVal_length key k hk; simp only [Option.getD_some]; omega

mutual
theorem J.tree_small : (v : J) → v.wire.length < 9223372036854775808 → small v.tree = true
  | .lit k, _ => by cases k <;> rfl
  | .num tok, _ => numTree_small tok
  | .str raw, h => by
    simp only [J.wire, List.length_cons, List.length_append, List.length_nil] at h
    simp only [J.tree, small, decide_eq_true_eq]
    exact key_small raw _ (by omega)
  | .arr ws body, h => by
    simp only [J.wire, List.length_cons, List.length_append] at h
    have := ABody.trees_length body
    simp only [J.tree, small, Bool.and_eq_true, decide_eq_true_eq]
    exact ⟨by omega, ABody.trees_small body (by omega)⟩
  | .obj ws body, h => by
    simp only [J.wire, List.length_cons, List.length_append] at h
    have := OBody.members_length body
    simp only [J.tree, small, Bool.and_eq_true, decide_eq_true_eq]
    exact ⟨by omega, OBody.members_small body (by omega)⟩
theorem ABody.trees_small : (b : ABody) → b.wire.length < 9223372036854775808 → smallList b.trees = true
  | .close, _ => rfl
  | .elems e ws tl, h => by
    simp only [ABody.wire, List.length_append] at h
    simp only [ABody.trees, smallList, Bool.and_eq_true]
    exact ⟨J.tree_small e (by omega), ATail.trees_small tl (by omega)⟩
theorem ATail.trees_small : (t : ATail) → t.wire.length < 9223372036854775808 → smallList t.trees = true
  | .close, _ => rfl
  | .more ws1 e ws2 tl, h => by
    simp only [ATail.wire, List.length_cons, List.length_append] at h
    simp only [ATail.trees, smallList, Bool.and_eq_true]
    exact ⟨J.tree_small e (by omega), ATail.trees_small tl (by omega)⟩
theorem OBody.members_small : (b : OBody) → b.wire.length < 9223372036854775808 → smallMems b.members = true
  | .close, _ => rfl
  | .mems key ws1 ws2 v ws3 tl, h => by
    simp only [OBody.wire, List.length_cons, List.length_append] at h
    simp only [OBody.members, smallMems, Bool.and_eq_true, decide_eq_true_eq]
    exact ⟨⟨key_small key _ (by omega), J.tree_small v (by omega)⟩, OTail.members_small tl (by omega)⟩
theorem OTail.members_small : (t : OTail) → t.wire.length < 9223372036854775808 → smallMems t.members = true
  | .close, _ => rfl
  | .more ws0 key ws1 ws2 v ws3 tl, h => by
    simp only [OTail.wire, List.length_cons, List.length_append] at h
    simp only [OTail.members, smallMems, Bool.and_eq_true, decide_eq_true_eq]
    exact ⟨⟨key_small key _ (by omega), J.tree_small v (by omega)⟩, OTail.members_small tl (by omega)⟩
end

/-- the size condition follows from the length of the text -/
theorem J.sized_of_short (v : J) (h : v.wire.length < 9223372036854775808) : v.sized = true :=
  J.tree_small v h

/-! ## float-free texts have `plain` trees; every tree has well-formed UTF-8 strings and keys -/

open SF.Json.Enc (plain plainList plainMems utf8Tree utf8List utf8Mems validUtf8)

theorem numTree_plain (tok : Bytes) (hs : (numEv tok).isSome = true) (hf : isDblTok tok = false) :
    plain (numTree tok) = true := by
  obtain ⟨ev, hev⟩ := Option.isSome_iff_exists.mp hs
  unfold numTree
  rw [hev]
  rcases numEv_cases tok ev hev with ⟨hd, _⟩ | ⟨_, k, v, rfl, hr⟩
  · rw [hf] at hd; cases hd
  · simpa [evTree, plain] using hr

mutual
theorem J.tree_plain : (v : J) → v.sem = true → v.noFloat = true → plain v.tree = true
  | .lit k, _, _ => by cases k <;> rfl
  | .num tok, hs, hf => by
    simp only [J.sem] at hs
    simp only [J.noFloat, Bool.not_eq_true'] at hf
    exact numTree_plain tok hs hf
  | .str _, _, _ => rfl
  | .arr _ body, hs, hf => by
    simp only [J.sem] at hs; simp only [J.noFloat] at hf
    simp only [J.tree, plain]; exact ABody.trees_plain body hs hf
  | .obj _ body, hs, hf => by
    simp only [J.sem] at hs; simp only [J.noFloat] at hf
    simp only [J.tree, plain]; exact OBody.members_plain body hs hf
theorem ABody.trees_plain : (b : ABody) → b.sem = true → b.noFloat = true → plainList b.trees = true
  | .close, _, _ => rfl
  | .elems e _ tl, hs, hf => by
    simp only [ABody.sem, Bool.and_eq_true] at hs; simp only [ABody.noFloat, Bool.and_eq_true] at hf
    simp only [ABody.trees, plainList, Bool.and_eq_true]
    exact ⟨J.tree_plain e hs.1 hf.1, ATail.trees_plain tl hs.2 hf.2⟩
theorem ATail.trees_plain : (t : ATail) → t.sem = true → t.noFloat = true → plainList t.trees = true
  | .close, _, _ => rfl
  | .more _ e _ tl, hs, hf => by
    simp only [ATail.sem, Bool.and_eq_true] at hs; simp only [ATail.noFloat, Bool.and_eq_true] at hf
    simp only [ATail.trees, plainList, Bool.and_eq_true]
    exact ⟨J.tree_plain e hs.1 hf.1, ATail.trees_plain tl hs.2 hf.2⟩
theorem OBody.members_plain : (b : OBody) → b.sem = true → b.noFloat = true → plainMems b.members = true
  | .close, _, _ => rfl
  | .mems _ _ _ v _ tl, hs, hf => by
    simp only [OBody.sem, Bool.and_eq_true] at hs; simp only [OBody.noFloat, Bool.and_eq_true] at hf
    simp only [OBody.members, plainMems, Bool.and_eq_true]
    exact ⟨J.tree_plain v hs.1.2 hf.1, OTail.members_plain tl hs.2 hf.2⟩
theorem OTail.members_plain : (t : OTail) → t.sem = true → t.noFloat = true → plainMems t.members = true
  | .close, _, _ => rfl
  | .more _ _ _ _ v _ tl, hs, hf => by
    simp only [OTail.sem, Bool.and_eq_true] at hs; simp only [OTail.noFloat, Bool.and_eq_true] at hf
    simp only [OTail.members, plainMems, Bool.and_eq_true]
    exact ⟨J.tree_plain v hs.1.2 hf.1, OTail.members_plain tl hs.2 hf.2⟩
end

theorem key_valid (key : Bytes) : validUtf8 ((strVal key).getD []) = true := by
  cases hk : strVal key with
  | none => rfl
  | some k => exact strVal_valid key k hk

mutual
/-- EVERY string and key the JSON parser delivers for a grammatical text is well-formed UTF-8:
escapes are written with `EncodeRune` (lone surrogates as U+FFFD), unescaped bytes are accepted
by the reference lexer only as well-formed sequences -/
theorem J.tree_utf8 : (v : J) → utf8Tree v.tree = true
  | .lit k => by cases k <;> rfl
  | .num tok => by
    simp only [J.tree, numTree]
    cases numEv tok with
    | none => rfl
    | some ev => cases ev <;> rfl
  | .str raw => by simp only [J.tree, utf8Tree]; exact key_valid raw
  | .arr _ body => by simp only [J.tree, utf8Tree]; exact ABody.trees_utf8 body
  | .obj _ body => by simp only [J.tree, utf8Tree]; exact OBody.members_utf8 body
theorem ABody.trees_utf8 : (b : ABody) → utf8List b.trees = true
  | .close => rfl
  | .elems e _ tl => by
    simp only [ABody.trees, utf8List, J.tree_utf8 e, ATail.trees_utf8 tl, Bool.and_self]
theorem ATail.trees_utf8 : (t : ATail) → utf8List t.trees = true
  | .close => rfl
  | .more _ e _ tl => by
    simp only [ATail.trees, utf8List, J.tree_utf8 e, ATail.trees_utf8 tl, Bool.and_self]
theorem OBody.members_utf8 : (b : OBody) → utf8Mems b.members = true
  | .close => rfl
  | .mems key _ _ v _ tl => by
    simp only [OBody.members, utf8Mems, key_valid key, J.tree_utf8 v, OTail.members_utf8 tl, Bool.and_self]
theorem OTail.members_utf8 : (t : OTail) → utf8Mems t.members = true
  | .close => rfl
  | .more _ key _ _ v _ tl => by
    simp only [OTail.members, utf8Mems, key_valid key, J.tree_utf8 v, OTail.members_utf8 tl, Bool.and_self]
end

/-! ## the same facts on the delivered events -/

/-- what the JSON parser may deliver: strings and keys that are well-formed UTF-8, integers as
int64 / uint64 events in range, floats as float64 events, containers with unknown length and
element type `any` -/
def evOk : Ev → Bool
  | .str s => validUtf8 s
  | .key s => validUtf8 s
  | .num k v => (k == .i64 || k == .u64) && k.inRange v
  | .f32 _ => false
  | .arrStart len bt => len == -1 && bt == BT.any
  | .objStart len bt => len == -1 && bt == BT.any
  | _ => true

theorem intEv_kind (neg : Bool) (n : Nat) (ev : Ev) (h : intEv neg n = some ev) : evOk ev = true := by
  obtain ⟨k, v, rfl, hr⟩ := intEv_range neg n ev h
  unfold intEv at h
  repeat' split at h
  all_goals first
    | (simp at h; done)
    | (try simp only [Option.some.injEq] at h
       cases h
       simp only [evOk, hr, Bool.and_true]; rfl)

theorem numTree_events_ok (tok : Bytes) : (numTree tok).events.all evOk = true := by
  unfold numTree
  cases h : numEv tok with
  | none => rfl
  | some ev =>
    have hev : evOk ev = true := by
      unfold numEv at h
      split at h
      · split at h
        · simp only [Option.some.injEq] at h; subst h; rfl
        · simp at h
      · split at h
        · exact intEv_kind _ _ ev h
        · simp at h
    rw [show (evTree ev).events = [ev] from numEv_shape tok ev h]
    simp [hev]

mutual
theorem J.events_ok : (v : J) → v.tree.events.all evOk = true
  | .lit k => by cases k <;> rfl
  | .num tok => numTree_events_ok tok
  | .str raw => by simp only [J.tree, ETree.events, List.all_cons, evOk, key_valid raw, List.all_nil, Bool.and_self]
  | .arr _ body => by
    simp only [J.tree, ETree.events, List.all_cons, List.all_append, ABody.events_ok body, evOk, List.all_nil,
      Bool.and_true]
    rfl
  | .obj _ body => by
    simp only [J.tree, ETree.events, List.all_cons, List.all_append, OBody.events_ok body, evOk, List.all_nil,
      Bool.and_true]
    rfl
theorem ABody.events_ok : (b : ABody) → (eventsList b.trees).all evOk = true
  | .close => rfl
  | .elems e _ tl => by
    simp only [ABody.trees, eventsList, List.all_append, J.events_ok e, ATail.events_ok tl, Bool.and_self]
theorem ATail.events_ok : (t : ATail) → (eventsList t.trees).all evOk = true
  | .close => rfl
  | .more _ e _ tl => by
    simp only [ATail.trees, eventsList, List.all_append, J.events_ok e, ATail.events_ok tl, Bool.and_self]
theorem OBody.events_ok : (b : OBody) → (eventsMems b.members).all evOk = true
  | .close => rfl
  | .mems key _ _ v _ tl => by
    simp only [OBody.members, eventsMems, List.all_cons, List.all_append, evOk, key_valid key, J.events_ok v,
      OTail.events_ok tl, Bool.and_self]
theorem OTail.events_ok : (t : OTail) → (eventsMems t.members).all evOk = true
  | .close => rfl
  | .more _ key _ _ v _ tl => by
    simp only [OTail.members, eventsMems, List.all_cons, List.all_append, evOk, key_valid key, J.events_ok v,
      OTail.events_ok tl, Bool.and_self]
end

/-- non-vacuity: the sample of SF/Proofs/JsonGrammar.lean meets the side conditions -/
example : sample.sized = true ∧ sample.sizedS = true ∧ sample.noFloat = true := by decide +kernel

end SF.Json.Grammar
