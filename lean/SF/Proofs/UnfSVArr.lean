/-
  C13, VALUES for struct targets, part 6: the store lemma (`FieldOK`) for fields of type `[]T`, `T` of primitive
  kind (bool, string, integers, floats; named or not) — `unfolderArrX` / `unfoldArrStartX` on a pointer INTO the
  target (the field's address), the struct frame below answering `OnChildArrayDone`.
  Any announced length not above the real count (`-1`, `0`, … the count), any announced element type (the typed
  arrays of the ext visitors are, event by event, arrays of scalars), strings by value or by reference.
-/
import SF.Proofs.UnfSVFields
import SF.Proofs.UnfTyValArr2
namespace SF.Unf.SV
open SF SF.Unf SF.Unf.Spec SF.Unf.Str

/-! ## the contexts -/

/-- the context `unfolderArrX.initState` leaves -/
def arrStartCtxAt (c : Ctx) (k : PK) (p : Path) : Ctx :=
  { c with unfolder := ⟨.arrStart k, .arr k :: c.unfolder.current :: c.unfolder.stack⟩,
           idx := c.idx.push 0, ptr := c.ptr.push (some p) }

theorem init_arr (c : Ctx) (k : PK) (p : Path) :
    initStateRU (.lifted (.arr k)) (some p) c = .ok () (arrStartCtxAt c k p) := by
  simp [initStateRU, resolveRU, initStatePU, arrInitState, bind_def, pushU, pushIdx, pushPtr, modifyCtx, arrStartCtxAt,
    Stk.push]

/-- … after `OnArrayStart` and some elements: the target is `T`, the next index `i` -/
def farrCtx (c : Ctx) (k : PK) (steps : List Step) (T : GoVal) (i : Int) : Ctx :=
  { c with target := T,
           unfolder := ⟨.arr k, c.unfolder.current :: c.unfolder.stack⟩,
           idx := ⟨i, c.idx.current :: c.idx.stack⟩,
           ptr := ⟨some ⟨.target, steps⟩, c.ptr.current :: c.ptr.stack⟩ }

theorem arrStart_at (f : Nat) (l : Int) (bt : Nat) (k : PK) (c : Ctx) (steps : List Step) (v T : GoVal)
    (hget : c.target.get steps = some v) (hv : isSliceVal v)
    (hT : c.target.set steps (startSlice (zero c.env k.goType) l v) = some T) :
    stepEv (f + 1) (.arrStart l bt) (arrStartCtxAt c k ⟨.target, steps⟩) = .ok () (farrCtx c k steps T 0) := by
  have hself := set_get_self c.target steps v hget
  rcases c with ⟨⟨uc, us⟩, ⟨pc, ps⟩, vv, kk, ⟨ic, is_⟩, _⟩
  simp only at hget hT hself
  cases v with
  | sliceNil et =>
    by_cases hl : l ≤ 0
    · have hl' : ¬ (0 < if l < 0 then 0 else l) := by split <;> omega
      simp only [startSlice, hl, if_true] at hT
      rw [hself] at hT
      injection hT with hT
      subst hT
      simp [stepEv, onArrayStart, bind_def, currentU_eq, arrStartCtxAt, arrStartOnArrayStart, currentPtr, Stk.push,
        load, rootVal, hget, hl', popU, Stk.pop, pure_def, farrCtx]
    · have hl' : 0 < l := by omega
      have hl2 : (if l < 0 then 0 else l) = l := by split <;> omega
      simp only [startSlice, hl, if_false] at hT
      simp [stepEv, onArrayStart, bind_def, currentU_eq, arrStartCtxAt, arrStartOnArrayStart, currentPtr, Stk.push,
        load, rootVal, hget, hl', hl2, popU, Stk.pop, pure_def, farrCtx, zeroM, store, setRoot, hT]
  | slice et es h =>
    by_cases hl : (if l < 0 then 0 else l) < (es.length : Int)
    · simp only [startSlice, hl, if_true] at hT
      simp [stepEv, onArrayStart, bind_def, currentU_eq, arrStartCtxAt, arrStartOnArrayStart, currentPtr, Stk.push,
        load, rootVal, hget, hl, popU, Stk.pop, pure_def, farrCtx, store, setRoot, hT]
    · simp only [startSlice, hl, if_false] at hT
      rw [hself] at hT
      injection hT with hT
      subst hT
      simp [stepEv, onArrayStart, bind_def, currentU_eq, arrStartCtxAt, arrStartOnArrayStart, currentPtr, Stk.push,
        load, rootVal, hget, hl, popU, Stk.pop, pure_def, farrCtx]
  | _ => exact absurd hv (by simp [isSliceVal])

theorem arrAppend_at (k : PK) (c : Ctx) (steps : List Step) (T T' sl v : GoVal) (i : Int)
    (hget : T.get steps = some sl) (hs : isSliceVal sl) (hT : T.set steps (appendTo sl i v) = some T') :
    arrAppend v (farrCtx c k steps T i) = .ok () (farrCtx c k steps T' (i + 1)) := by
  cases sl with
  | sliceNil et =>
    simp only [appendTo] at hT
    simp [arrAppend, bind_def, currentIdx, currentPtr, farrCtx, load, rootVal, hget, store, setRoot, setCurrentIdx,
      modifyCtx, hT]
  | slice et es h =>
    by_cases hle : (es.length : Int) ≤ i
    · simp only [appendTo, hle, if_true, List.drop_one] at hT
      simp [arrAppend, bind_def, currentIdx, currentPtr, farrCtx, load, rootVal, hget, store, setRoot, setCurrentIdx,
        modifyCtx, hT, hle]
    · simp only [appendTo, hle, if_false] at hT
      simp [arrAppend, bind_def, currentIdx, currentPtr, farrCtx, load, rootVal, hget, store, setRoot, setCurrentIdx,
        modifyCtx, hT, hle]
  | _ => exact absurd hs (by simp [isSliceVal])

theorem scalar_at (f : Nat) (k : PK) (c : Ctx) (steps : List Step) (T T' sl w : GoVal) (i : Int) (s : Sc)
    (hc : k.conv s = some w) (hget : T.get steps = some sl) (hs : isSliceVal sl)
    (hT : T.set steps (appendTo sl i w) = some T') :
    onScalar (f + 1) s (farrCtx c k steps T i) = .ok () (farrCtx c k steps T' (i + 1)) := by
  have h1 : onScalar (f + 1) s (farrCtx c k steps T i) = arrAppend w (farrCtx c k steps T i) := by
    simp [onScalar, bind_def, currentU, farrCtx, hc, pukDeliver]
  rw [h1]
  exact arrAppend_at k c steps T T' sl w i hget hs hT

/-- `OnArrayFinished`: `unfolderArrX.cleanup`, and the struct frame takes the report -/
theorem arrEnd_at (f : Nat) (k : PK) (c : Ctx) (steps : List Step) (T : GoVal) (i : Int) (flds : Fields)
    (hcur : c.unfolder.current = .struct flds) :
    stepEv (f + 1) .arrEnd (farrCtx c k steps T i) = .ok () (upd c T c.cells c.keyCache) := by
  have h1 : onArrayFinished (farrCtx c k steps T i) = .ok () (upd c T c.cells c.keyCache) := by
    rcases c with ⟨⟨uc, us⟩, ⟨pc, ps⟩, vv, kk, ⟨ic, is_⟩, _⟩
    simp [onArrayFinished, bind_def, currentU_eq, farrCtx, arrCleanup, popU, popIdx, popPtr, Stk.pop, pure_def, upd]
  simp only [stepEv]
  rw [ctxArrFin_eq _ _ h1]
  have hrep' : onChildArrayDone (upd c T c.cells c.keyCache) = .ok () (upd c T c.cells c.keyCache) := by
    simp [onChildArrayDone, bind_def, currentU_eq, upd, hcur, pure_def]
  simpa [upd, farrCtx] using report_one onChildArrayDone (c.unfolder.stack.length + 1) (upd c T c.cells c.keyCache) hrep'

/-! ## the elements -/

/-- the scalar a leaf of the value tree delivers (`OnStringRef` = `OnString`) -/
def leafSc : UTree → Sc
  | .scalar s => s
  | .strRef b => .str b
  | _ => .nil

def isLeaf : UTree → Prop
  | .scalar _ => True
  | .strRef _ => True
  | _ => False

theorem leaf_events (f : Nat) (x : UTree) (hx : isLeaf x) (rest : List UEv) (c : Ctx) :
    run (f + 1) (x.events ++ rest) c =
      match onScalar (f + 1) (leafSc x) c with
      | .ok _ c' => run (f + 1) rest c'
      | r => r := by
  cases x with
  | scalar s => simp only [UTree.events, List.cons_append, List.nil_append, run, leafSc]; rfl
  | strRef b => simp only [UTree.events, List.cons_append, List.nil_append, run, leafSc]; rfl
  | arr l bt xs => exact hx.elim
  | obj l bt ms => exact hx.elim

theorem leaves_at (f : Nat) (k : PK) (c : Ctx) (steps : List Step) (s0 : GoVal) (hs0 : isSliceVal s0) :
    ∀ (xs : List UTree) (vs ws : List GoVal) (T : GoVal), (∀ x ∈ xs, isLeaf x) →
      convList k (xs.map leafSc) = some ws → T.get steps = some (slRun s0 vs) →
      ∃ T', run (f + 1) (eventsList xs) (farrCtx c k steps T vs.length) =
          .ok () (farrCtx c k steps T' ((vs ++ ws).length : Nat)) ∧
        T.set steps (slRun s0 (vs ++ ws)) = some T' := by
  intro xs
  induction xs with
  | nil =>
    intro vs ws T _ h hget
    simp [convList] at h
    subst h
    exact ⟨T, by simp [eventsList, run], by simpa using set_get_self T steps _ hget⟩
  | cons x r ih =>
    intro vs ws T hleaf h hget
    simp only [List.map_cons, convList] at h
    split at h
    · rename_i w ws' hw hr
      injection h with h
      subst h
      obtain ⟨T1, hT1⟩ := set_of_get T steps (appendTo (slRun s0 vs) vs.length w) _ hget
      have hstep := scalar_at f k c steps T T1 _ w vs.length (leafSc x) hw hget (slRun_isSlice _ _ hs0) hT1
      rw [appendTo_slRun] at hT1
      have hget1 := get_set_self T steps _ T1 hT1
      obtain ⟨T', hrun, hset⟩ := ih (vs ++ [w]) ws' T1 (fun y hy => hleaf y (List.mem_cons_of_mem _ hy)) hr hget1
      refine ⟨T', ?_, ?_⟩
      · rw [eventsList, leaf_events f x (hleaf x List.mem_cons_self), hstep]
        have e : ((vs.length : Int) + 1) = ((vs ++ [w]).length : Nat) := by simp
        simp only [e]
        rw [hrun]
        simp
      · have := set_prefix_overwrite T steps [] _ T1 (slRun s0 (vs ++ [w] ++ ws')) (by simpa using hT1)
        rw [this] at hset
        simpa using hset
    · cases h

/-! ## the specification side -/

theorem wfList_all (bt : Nat) : ∀ xs : List UTree, wfList bt xs = true → ∀ x ∈ xs, x.wf = true := by
  intro xs
  induction xs with
  | nil => intro _ x hx; cases hx
  | cons a r ih =>
    intro h x hx
    obtain ⟨ha, hr⟩ := SF.Unf.wfList_cons bt a r h
    rcases List.mem_cons.mp hx with rfl | hx
    · by_cases hb : isAnyBT bt = true
      · simpa [hb] using ha
      · simp only [hb] at ha
        exact fits_wf bt x ha
    · exact ih hr x hx

theorem leaf_inRange (x : UTree) (hx : isLeaf x) (hwf : x.wf = true) : (leafSc x).inRange = true := by
  cases x with
  | scalar s => simpa [UTree.wf, leafSc] using hwf
  | strRef b => rfl
  | arr l bt xs => exact hx.elim
  | obj l bt ms => exact hx.elim

theorem leaf_toS (x : UTree) (hx : isLeaf x) : x.toS = .sc (leafSc x) := by
  cases x with
  | scalar s => rfl
  | strRef b => rfl
  | arr l bt xs => exact hx.elim
  | obj l bt ms => exact hx.elim

/-- what the specification assigns to an element of primitive type is what the kind converts; a container
there: no claim -/
theorem assign_leaf (tbl : TypeTable) (ip : Bool) (n : Nat) (e : GoType) (k : PK) (base v : GoVal) (x : UTree)
    (hk : PK.ofExact? (e.un tbl) = some k) (hki : k ≠ .ifc) (hnb : ∀ nk, e.un tbl = .int nk → normKind nk = nk)
    (hwf : x.wf = true) (h : assign tbl ip n e base x.toS = some v) : isLeaf x ∧ k.conv (leafSc x) = some v := by
  cases n with
  | zero => simp [assign] at h
  | succ n =>
    rw [assign_un_prim] at h
    have hl : isLeaf x := by
      cases x with
      | scalar s => trivial
      | strRef b => trivial
      | arr l bt xs =>
        rw [assign_prim_not_sc tbl ip _ _ k _ _ hk hki (by intro sc h; simp [UTree.toS] at h)] at h; cases h
      | obj l bt ms =>
        rw [assign_prim_not_sc tbl ip _ _ k _ _ hk hki (by intro sc h; simp [UTree.toS] at h)] at h; cases h
    rw [leaf_toS x hl] at h
    obtain ⟨w, hc, _, heq⟩ := assign_scalar_conv tbl ip n (e.un tbl) k base v _ hk hki (leaf_inRange x hl hwf) h
    exact ⟨hl, by rw [hc, heq hnb]⟩

theorem assignElems_leaves (tbl : TypeTable) (ip : Bool) (e : GoType) (k : PK) (hk : PK.ofExact? (e.un tbl) = some k)
    (hki : k ≠ .ifc) (hnb : ∀ nk, e.un tbl = .int nk → normKind nk = nk) :
    ∀ (xs : List UTree) (n : Nat) (olds wants : List GoVal), (∀ x ∈ xs, x.wf = true) →
      assignElems tbl ip n e olds (toSList xs) = some wants →
      (∀ x ∈ xs, isLeaf x) ∧ convList k (xs.map leafSc) = some wants := by
  intro xs
  induction xs with
  | nil =>
    intro n olds wants _ h
    cases n with
    | zero => simp [assignElems] at h
    | succ n =>
      simp [toSList, assignElems] at h
      subst h
      exact ⟨fun x hx => (nomatch hx), rfl⟩
  | cons x r ih =>
    intro n olds wants hwf h
    cases n with
    | zero => simp [assignElems] at h
    | succ n =>
      simp only [toSList, assignElems] at h
      split at h
      · rename_i v vs hv hvs
        injection h with h
        subst h
        obtain ⟨hl, hc⟩ := assign_leaf tbl ip n e k _ v x hk hki hnb (hwf x List.mem_cons_self) hv
        obtain ⟨hls, hcs⟩ := ih n _ vs (fun y hy => hwf y (List.mem_cons_of_mem _ hy)) hvs
        refine ⟨?_, by simp [convList, hc, hcs]⟩
        intro y hy
        rcases List.mem_cons.mp hy with rfl | hy
        · exact hl
        · exact hls y hy
      · cases h

/-- `Spec.assign` for a slice type on an array -/
theorem assign_slice_arr_un (tbl : TypeTable) (ip : Bool) (n : Nat) (ft e : GoType) (old want : GoVal) (bt : Nat)
    (xs : List STree) (hu : ft.un tbl = .slice e) (ha : assign tbl ip (n + 1) ft old (.arr bt xs) = some want) :
    ∃ olds wants, assignElems tbl ip n e olds xs = some wants ∧ want = .slice e wants [] := by
  unfold assign at ha
  simp only [hu] at ha
  obtain ⟨wants, hx, hw⟩ := Option.map_eq_some_iff.mp ha
  exact ⟨_, wants, hx, hw.symm⟩

/-- anything but an array where a slice belongs: no claim -/
theorem assign_slice_not_arr (tbl : TypeTable) (ip : Bool) (n : Nat) (ft e : GoType) (old : GoVal) (s : STree)
    (hu : ft.un tbl = .slice e) (hs : ∀ bt xs, s ≠ .arr bt xs) : assign tbl ip n ft old s = none := by
  cases n with
  | zero => simp [assign]
  | succ n =>
    unfold assign
    simp only [hu]
    cases s <;> first | rfl | exact absurd rfl (hs _ _)

theorem sliceTargetFin_sliceOf (e : GoType) (v0 : GoVal) (ws : List GoVal) (h : sliceOf e v0) :
    sliceOf e (sliceTargetFin v0 ws) ∧ norm (sliceTargetFin v0 ws) = norm (.slice e ws []) := by
  rcases h with rfl | ⟨es, hd, rfl⟩
  · refine ⟨?_, norm_sliceFin e _⟩
    simp only [sliceTargetFin, sliceFin]
    split
    · exact Or.inl rfl
    · exact Or.inr ⟨_, _, rfl⟩
  · exact ⟨Or.inr ⟨_, _, rfl⟩, by simp only [sliceTargetFin, norm_slice]⟩

/-! ## the store lemma -/

/-- THE STORE LEMMA for a field of type `[]T`, `T` of primitive kind `k` (not `interface{}`), named or not: the
field then holds EXACTLY the stream's elements, converted (`sliceTargetFin`: what the old slice held beyond stays
hidden in the capacity) -/
theorem fieldOK_arr (tbl : TypeTable) (ft e : GoType) (k : PK) (hu : ft.un tbl = .slice e)
    (hk : PK.ofType? tbl e = some k) (hki : k ≠ .ifc) (hnb : ∀ nk, e.un tbl = .int nk → normKind nk = nk) :
    FieldOK tbl (.lifted (.arr k)) ft := by
  intro f x c steps ip n oldM oldS nv flds henv hcur hkc hget hty hnorm hwf hasg
  have hk' : PK.ofExact? (e.un tbl) = some k := hk
  cases x with
  | arr l bt xs =>
    cases n with
    | zero => simp [assign] at hasg
    | succ n =>
      simp only [UTree.wf, Bool.and_eq_true, decide_eq_true_eq] at hwf
      obtain ⟨⟨hl, _⟩, hwfl⟩ := hwf
      obtain ⟨olds, wants, hel, rfl⟩ :=
        assign_slice_arr_un tbl ip n ft e oldS nv bt _ hu (by simpa [UTree.toS] using hasg)
      obtain ⟨hleaf, hconv⟩ := assignElems_leaves tbl ip e k hk' hki hnb xs n olds wants (wfList_all bt xs hwfl) hel
      have hso : sliceOf e oldM := hty.sliceOf hu
      have hsl : isSliceVal oldM := hso.isSlice
      have hs0 := startSlice_isSlice (zero c.env k.goType) l oldM hsl
      obtain ⟨T0, hT0⟩ := set_of_get c.target steps (startSlice (zero c.env k.goType) l oldM) oldM hget
      have hstart := arrStart_at (f + 1) l bt k c steps oldM T0 hget hsl hT0
      have hg0 : T0.get steps = some (slRun (startSlice (zero c.env k.goType) l oldM) []) := by
        rw [slRun_nil _ hs0]; exact get_set_self _ _ _ _ hT0
      obtain ⟨T', hrun, hset⟩ := leaves_at (f + 1) k c steps _ hs0 xs [] wants T0 hleaf hconv hg0
      have hlen : wants.length = xs.length := by rw [convList_length k _ wants hconv, List.length_map]
      rw [List.nil_append, slRun_start _ _ _ _ (by rw [hlen]; exact hl)] at hset
      have hsetc : c.target.set steps (sliceTargetFin oldM wants) = some T' := by
        rw [← set_prefix_overwrite c.target steps [] _ T0 (sliceTargetFin oldM wants) (by simpa using hT0)]
        exact hset
      obtain ⟨hso', hnorm'⟩ := sliceTargetFin_sliceOf e oldM wants hso
      refine ⟨sliceTargetFin oldM wants, T', c.cells, c.keyCache, _, init_arr c k _, ?_, hsetc, hnorm',
        hasTy_of_sliceOf hu (flat_of_ofExact tbl e k hk') hso', hkc⟩
      rw [UTree.events, List.cons_append, run_cons_ok _ _ _ _ _ hstart]
      have e0 : (0 : Int) = (([] : List GoVal).length : Nat) := rfl
      rw [e0, run_ok_then _ _ _ _ _ hrun, run_single]
      exact arrEnd_at (f + 1) k c steps T' _ flds hcur
  | scalar s =>
    rw [assign_slice_not_arr tbl ip n ft e oldS _ hu (by intro bt xs h; simp [UTree.toS] at h)] at hasg; cases hasg
  | strRef s =>
    rw [assign_slice_not_arr tbl ip n ft e oldS _ hu (by intro bt xs h; simp [UTree.toS] at h)] at hasg; cases hasg
  | obj l bt ms =>
    rw [assign_slice_not_arr tbl ip n ft e oldS _ hu (by intro bt xs h; simp [UTree.toS] at h)] at hasg; cases hasg

end SF.Unf.SV
