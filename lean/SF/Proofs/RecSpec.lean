/-
  The specification on good types over menagerie members, typed values (`wtR`), pointers.
  (cf. `FoldSpec`, `FoldWalk`.)
-/
import SF.Proofs.RecCompile
import SF.Proofs.FoldWalk
import SF.Proofs.FoldTypeOk
namespace SF.FoldRec
open SF SF.Gotype SF.Gotype.Fold SF.Gotype.Rules SF.FoldProofs

section
variable {ns : List String} {D : Nat} (hM : MenOK ns D)
include hM

theorem foldF_underR (m : Nat) (reg : Bool) {T : GoType} (h : goodR ns T = true) (v : GoVal) :
    foldF (m + 1) reg T v = foldF (m + 1) reg T.under v := by
  have h2 := (good_underR hM h).1
  conv => lhs; unfold foldF
  conv => rhs; unfold foldF
  simp only [customOf_goodR hM reg h, customOf_goodR hM reg h2, under_underR hM h]

theorem foldF_underR' (m : Nat) (reg : Bool) {T : GoType} (h : goodR ns T = true) (v : GoVal) :
    foldF m reg T v = foldF m reg T.under v := by
  cases m with
  | zero => rfl
  | succ m => exact foldF_underR hM m reg h v

theorem inlineF_underR (m : Nat) (reg : Bool) {T : GoType} (h : goodR ns T = true) (v : GoVal) :
    inlineF (m + 1) reg T v = inlineF (m + 1) reg T.under v := by
  have h2 := (good_underR hM h).1
  conv => lhs; unfold inlineF
  conv => rhs; unfold inlineF
  simp only [customOf_goodR hM reg h, customOf_goodR hM reg h2, under_underR hM h, foldF_underR' hM m reg h v]

omit hM in
theorem wtR_under_eq (T : GoType) (v : GoVal) (h : T.under.under = T.under) : wtR ns D T.under v = wtR ns D T v := by
  conv => lhs; unfold wtR
  conv => rhs; unfold wtR
  rw [h]

theorem wtR_under {T : GoType} (hg : goodR ns T = true) (v : GoVal) : wtR ns D T.under v = wtR ns D T v :=
  wtR_under_eq T v (under_underR hM hg)

/-! ## inversion of `wtR` -/
omit hM

theorem wtR_slice_inv {T e : GoType} {v : GoVal} (hu : T.under = .slice e) (h : wtR ns D T v = true) :
    v = .nilSlice ∨ ∃ xs, v = .slice xs ∧ wtRL ns D e xs = true := by
  unfold wtR at h
  rw [hu] at h
  cases v <;> simp at h ⊢ <;> exact h

theorem wtR_array_inv {T : GoType} {n : Nat} {e : GoType} {v : GoVal} (hu : T.under = .array n e)
    (h : wtR ns D T v = true) : ∃ xs, v = .array xs ∧ wtRL ns D e xs = true := by
  unfold wtR at h
  rw [hu] at h
  cases v <;> simp at h ⊢ <;> exact h

theorem wtR_map_inv {T k e : GoType} {v : GoVal} (hu : T.under = .map k e) (h : wtR ns D T v = true) :
    v = .nilMap ∨ ∃ ms, v = .map ms ∧ wtRP ns D k e ms = true ∧ (mapKeys ms).Nodup := by
  unfold wtR at h
  rw [hu] at h
  cases v <;> simp at h ⊢ <;> exact h

theorem wtR_ptr_inv {T e : GoType} {v : GoVal} (hu : T.under = .ptr e) (h : wtR ns D T v = true) :
    v = .nilPtr ∨ ∃ x, v = .ptr x ∧ wtR ns D e x = true := by
  unfold wtR at h
  rw [hu] at h
  cases v <;> simp at h ⊢ <;> exact h

theorem wtR_iface_inv {T : GoType} {v : GoVal} (hu : T.under = .iface) (h : wtR ns D T v = true) :
    v = .nilIface ∨ ∃ dt dv, v = .iface dt dv ∧ goodR ns dt = true ∧ tdepth dt ≤ D ∧ wtR ns D dt dv = true := by
  unfold wtR at h
  rw [hu] at h
  cases v <;> simp at h ⊢
  rename_i t x
  exact ⟨t, x, ⟨rfl, rfl⟩, h.1.1, h.1.2, h.2⟩

theorem wtR_struct_inv {T : GoType} {fs : List Field} {v : GoVal} (hu : T.under = .struct fs)
    (h : wtR ns D T v = true) : ∃ vs, v = .struct vs ∧ wtRF ns D fs vs = true := by
  unfold wtR at h
  rw [hu] at h
  cases v <;> simp at h ⊢ <;> exact h

theorem wtR_iface_mk {dt : GoType} {dv : GoVal} (hg : goodR ns dt = true) (hd : tdepth dt ≤ D)
    (hw : wtR ns D dt dv = true) : wtR ns D .iface (.iface dt dv) = true := by
  unfold wtR
  simp [GoType.under, hg, hd, hw]

theorem wtRL_mem {e : GoType} {xs : List GoVal} (h : wtRL ns D e xs = true) {x : GoVal} (hx : x ∈ xs) :
    wtR ns D e x = true := by
  induction xs with
  | nil => cases hx
  | cons a l ih =>
    simp only [wtRL, Bool.and_eq_true] at h
    rcases List.mem_cons.mp hx with rfl | hx'
    · exact h.1
    · exact ih h.2 hx'

theorem wtRP_mem {k e : GoType} {ms : List (GoVal × GoVal)} (h : wtRP ns D k e ms = true)
    {kx : GoVal × GoVal} (hx : kx ∈ ms) : wtR ns D e kx.2 = true := by
  induction ms with
  | nil => cases hx
  | cons a l ih =>
    obtain ⟨ak, ax⟩ := a
    simp only [wtRP, Bool.and_eq_true] at h
    rcases List.mem_cons.mp hx with rfl | hx'
    · exact h.1.2
    · exact ih h.2 hx'

theorem wtR_string_inv {k : GoType} {kv : GoVal} (hk : k.under = .string) (h : wtR ns D k kv = true) :
    ∃ b, kv = .str b := by
  unfold wtR at h
  rw [hk] at h
  cases kv <;> simp at h
  exact ⟨_, rfl⟩

/-! ## following pointers -/
include hM

theorem ptrWalk_goodR : ∀ (T : GoType), goodR ns T = true → ∀ v, wtR ns D T v = true →
    ptrWalk (stripPtr T).1 ⟨T, v⟩ =
      match deref (stripPtr T).1 v with
      | none => .nil
      | some x => .val ⟨(stripPtr T).2, x⟩ := by
  refine strip_inductionR hM _ ?_ ?_
  · intro T _ _ hs v _
    rw [hs]; rfl
  · intro T e _ hu _ hs ih v hw
    rw [hs]
    rcases wtR_ptr_inv hu hw with rfl | ⟨x, rfl, hx⟩
    · rfl
    · simp only [deref, ptrWalk_succ_ptr _ x hu]
      exact ih x hx

theorem deref_wtR : ∀ (T : GoType), goodR ns T = true → ∀ v x, wtR ns D T v = true →
    deref (stripPtr T).1 v = some x →
    wtR ns D (stripPtr T).2 x = true ∧ vdepth x + (stripPtr T).1 = vdepth v := by
  refine strip_inductionR hM _ ?_ ?_
  · intro T _ _ hs v x hw hd
    rw [hs] at hd ⊢
    simp only [deref, Option.some.injEq] at hd
    subst hd
    exact ⟨hw, rfl⟩
  · intro T e _ hu _ hs ih v x hw hd
    rw [hs] at hd ⊢
    rcases wtR_ptr_inv hu hw with rfl | ⟨y, rfl, hy⟩
    · simp [deref] at hd
    · simp only [deref] at hd
      obtain ⟨h1, h2⟩ := ih y x hy hd
      exact ⟨h1, by rw [vdepth_ptr]; simp only []; omega⟩

theorem foldF_derefR (reg : Bool) : ∀ (T : GoType), goodR ns T = true →
    ∀ v m r, wtR ns D T v = true → foldF m reg T v = .ok r →
    match deref (stripPtr T).1 v with
    | none => r = .null
    | some x => ∃ m', foldF m' reg (stripPtr T).2 x = .ok r := by
  refine strip_inductionR hM _ ?_ ?_
  · intro T _ _ hs v m r _ h
    rw [hs]
    exact ⟨m, h⟩
  · intro T e hg hu hge hs ih v m r hw h
    rw [hs]
    cases m with
    | zero => simp [foldF] at h
    | succ m =>
      rw [foldF_underR hM m reg hg, hu] at h
      rcases wtR_ptr_inv hu hw with rfl | ⟨y, rfl, hy⟩
      · rw [foldF_ptr_nil _ _ _ (customOf_goodR hM reg hge)] at h
        cases h
        rfl
      · rw [foldF_ptr] at h
        simp only [deref]
        exact ih y m r hy h

end

end SF.FoldRec
