/-
  Decidable equality of `GoType` terms (the universe derives none), needed to say "this named
  type is the menagerie's own declaration" in the universe of recursive types.
-/
import SF.Gotype.Types
namespace SF.FoldRec
open SF SF.Gotype

mutual
def beqT : GoType → GoType → Bool
  | .bool, .bool | .string, .string | .float32, .float32 | .float64, .float64 | .iface, .iface => true
  | .int a, .int b => decide (a = b)
  | .slice a, .slice b | .ptr a, .ptr b | .chan a, .chan b => beqT a b
  | .array n a, .array m b => decide (n = m) && beqT a b
  | .map k a, .map l b => beqT k l && beqT a b
  | .struct fs, .struct gs => beqFs fs gs
  | .named n m u, .named n' m' u' => decide (n = n') && decide (m = m') && beqT u u'
  | .ref n, .ref n' => decide (n = n')
  | .other k, .other k' => decide (k = k')
  | _, _ => false
def beqFs : List Field → List Field → Bool
  | [], [] => true
  | f :: fs, g :: gs => beqF f g && beqFs fs gs
  | _, _ => false
def beqF : Field → Field → Bool
  | .mk n t tag a, .mk n' t' tag' a' => decide (n = n') && beqT t t' && decide (tag = tag') && decide (a = a')
end

mutual
theorem beqT_eq : ∀ (a b : GoType), beqT a b = true → a = b
  | .bool, b, h => by cases b <;> simp_all [beqT]
  | .string, b, h => by cases b <;> simp_all [beqT]
  | .float32, b, h => by cases b <;> simp_all [beqT]
  | .float64, b, h => by cases b <;> simp_all [beqT]
  | .iface, b, h => by cases b <;> simp_all [beqT]
  | .int k, b, h => by cases b <;> simp_all [beqT]
  | .ref n, b, h => by cases b <;> simp_all [beqT]
  | .other k, b, h => by cases b <;> simp_all [beqT]
  | .slice a, b, h => by
    cases b <;> simp only [beqT, Bool.false_eq_true] at h
    rw [beqT_eq a _ h]
  | .ptr a, b, h => by
    cases b <;> simp only [beqT, Bool.false_eq_true] at h
    rw [beqT_eq a _ h]
  | .chan a, b, h => by
    cases b <;> simp only [beqT, Bool.false_eq_true] at h
    rw [beqT_eq a _ h]
  | .array n a, b, h => by
    cases b <;> simp only [beqT, Bool.false_eq_true, Bool.and_eq_true, decide_eq_true_eq] at h
    rw [h.1, beqT_eq a _ h.2]
  | .map k a, b, h => by
    cases b <;> simp only [beqT, Bool.false_eq_true, Bool.and_eq_true] at h
    rw [beqT_eq k _ h.1, beqT_eq a _ h.2]
  | .struct fs, b, h => by
    cases b <;> simp only [beqT, Bool.false_eq_true] at h
    rw [beqFs_eq fs _ h]
  | .named n m u, b, h => by
    cases b <;> simp only [beqT, Bool.false_eq_true, Bool.and_eq_true, decide_eq_true_eq] at h
    rw [h.1.1, h.1.2, beqT_eq u _ h.2]
theorem beqFs_eq : ∀ (a b : List Field), beqFs a b = true → a = b
  | [], b, h => by cases b <;> simp_all [beqFs]
  | f :: fs, b, h => by
    cases b with
    | nil => simp [beqFs] at h
    | cons g gs =>
      simp only [beqFs, Bool.and_eq_true] at h
      rw [beqF_eq f g h.1, beqFs_eq fs gs h.2]
theorem beqF_eq : ∀ (a b : Field), beqF a b = true → a = b
  | .mk n t tag a, .mk n' t' tag' a', h => by
    simp only [beqF, Bool.and_eq_true, decide_eq_true_eq] at h
    rw [h.1.1.1, beqT_eq t t' h.1.1.2, h.1.2, h.2]
end

mutual
theorem beqT_refl : ∀ (a : GoType), beqT a a = true
  | .bool | .string | .float32 | .float64 | .iface => rfl
  | .int _ | .ref _ | .other _ => by simp [beqT]
  | .slice a | .ptr a | .chan a => by simp only [beqT]; exact beqT_refl a
  | .array n a => by simp only [beqT, decide_true, Bool.true_and]; exact beqT_refl a
  | .map k a => by simp only [beqT, Bool.and_eq_true]; exact ⟨beqT_refl k, beqT_refl a⟩
  | .struct fs => by simp only [beqT]; exact beqFs_refl fs
  | .named n m u => by simp only [beqT, decide_true, Bool.true_and]; exact beqT_refl u
theorem beqFs_refl : ∀ (a : List Field), beqFs a a = true
  | [] => rfl
  | f :: fs => by simp only [beqFs, Bool.and_eq_true]; exact ⟨beqF_refl f, beqFs_refl fs⟩
theorem beqF_refl : ∀ (a : Field), beqF a a = true
  | .mk n t tag a => by simp only [beqF, decide_true, Bool.true_and, Bool.and_true]; exact beqT_refl t
end

end SF.FoldRec
