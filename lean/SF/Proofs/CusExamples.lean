/-
  Evaluation kit for the non-vacuity examples of property C12 with custom code (cf. FoldExamples:
  the kernel cannot run `String.splitOn`, tag strings are parsed there once), the menagerie's
  types as the type parser writes them, and: the type's own code is defined on every value of
  the right shape (`cusOK`, `zeroOK` of `wtC` hold for the menagerie).
-/
import SF.Proofs.FoldExamples
import SF.Proofs.CusErr
import SF.Proofs.CusSub
import SF.Proofs.RecBeq
namespace SF.FoldProofs.Custom.Examples
open SF SF.Gotype SF.Gotype.Fold SF.Gotype.Rules SF.FoldProofs SF.FoldProofs.Examples SF.FoldProofs.Custom

theorem goodC_of_goodT (reg : Bool) : ∀ (T : GoType) (sn : List String), goodT sn T = true → goodC reg sn T = true :=
  Custom.goodC_of_goodT reg

/-! ## the menagerie's types with custom code, as `GoType.parse? "@Name"` writes them -/

abbrev fS : Field := .mk "S" .string "" false
abbrev fN : Field := .mk "N" (.int .int) "" false
abbrev fDi : Field := .mk "D" (.int .int) "" false
abbrev fEs : Field := .mk "E" .string "" false
abbrev fK : Field := .mk "K" (.int .int) "" false
abbrev fPp : Field := .mk "P" (.ptr (.int .int)) "" false

abbrev FVt : GoType := .named "FV" { folder := .value } (.struct [fA, fS])
abbrev FPt : GoType := .named "FP" { folder := .pointer } (.struct [fA])
abbrev FPNt : GoType := .named "FPN" { folder := .pointer } (.struct [fA])
abbrev FSt : GoType := .named "FS" { folder := .value } (.int .int)
abbrev FIntst : GoType := .named "FInts" { folder := .value } (.slice (.int .int))
abbrev FMapt : GoType := .named "FMap" { folder := .value } (.map .string (.int .int))
abbrev FOpent : GoType := .named "FOpen" { folder := .value } (.struct [fA])
abbrev EmbFt : GoType := .named "EmbF" { folder := .value } (.struct [.mk "FV" FVt ",inline" true, fK])
abbrev UFt : GoType := .named "UF" {} (.struct [fDi])
abbrev UOt : GoType := .named "UO" {} (.struct [fDi, fEs])
abbrev UDt : GoType := .named "UD" {} (.int .i64)
abbrev UFMt : GoType := .named "UFM" {} (.map .string (.int .int))
abbrev UFPt : GoType := .named "UFP" {} (.struct [fPp])
abbrev ZVt : GoType := .named "ZV" { isZero := .value } (.struct [fN])
abbrev ZPt : GoType := .named "ZP" { isZero := .pointer } (.struct [fN])
abbrev ZIntt : GoType := .named "ZInt" { isZero := .value } (.int .int)
abbrev ZStrt : GoType := .named "ZStr" { isZero := .value } .string
abbrev ZIntst : GoType := .named "ZInts" { isZero := .value } (.slice (.int .int))
abbrev ZMapPt : GoType := .named "ZMapP" { isZero := .pointer } (.map .string (.int .int))
abbrev ZArrt : GoType := .named "ZArr" { isZero := .value } (.array 2 (.int .int))

/-- the menagerie's custom folders are defined on every value of the shape of their type and
emit one well-formed value there (`cusOK`, a conjunct of `wtC`) — all but `FOpen` -/
theorem cusOK_menagerie (reg : Bool) :
    (∀ a s, cusOK reg FVt (.struct [.int a, .str s]) = true) ∧
    (∀ a, cusOK reg FPt (.struct [.int a]) = true) ∧
    (∀ a, cusOK reg FPNt (.struct [.int a]) = true) ∧
    (∀ n, cusOK reg FSt (.int n) = true) ∧
    (cusOK reg FIntst .nilSlice = true ∧ ∀ xs, cusOK reg FIntst (.slice xs) = true) ∧
    (cusOK reg FMapt .nilMap = true ∧ ∀ ms, cusOK reg FMapt (.map ms) = true) ∧
    (∀ a s k, cusOK reg EmbFt (.struct [.struct [.int a, .str s], k]) = true) ∧
    (∀ a, cusOK reg FOpent (.struct [.int a]) = false) := by
  cases reg <;>
  exact ⟨fun _ _ => rfl, fun _ => rfl, fun _ => rfl, fun _ => rfl, ⟨rfl, fun _ => rfl⟩, ⟨rfl, fun _ => rfl⟩,
    fun _ _ _ => rfl, fun _ => rfl⟩

/-- the registered fold functions likewise (`reg = true`; with `reg = false` these types have no
custom code at all) -/
theorem cusOK_registered :
    (∀ d, cusOK true UFt (.struct [.int d]) = true) ∧
    (∀ d s, cusOK true UOt (.struct [.int d, .str s]) = true) ∧
    (∀ n, cusOK true UDt (.int n) = true) ∧
    (cusOK true UFMt .nilMap = true ∧ ∀ ms, cusOK true UFMt (.map ms) = true) ∧
    (cusOK true UFPt (.struct [.nilPtr]) = true ∧ ∀ n, cusOK true UFPt (.struct [.ptr (.int n)]) = true) :=
  ⟨fun _ => rfl, fun _ _ => rfl, fun _ => rfl, ⟨rfl, fun _ => rfl⟩, ⟨rfl, fun _ => rfl⟩⟩

/-- a nil pointer handed to the folder of a pointer type: every folder of the menagerie gives one
value (`nilTop … false`), all but `FPN` give null (`nilTop … true`) -/
theorem nilTop_menagerie :
    nilTop true false FPt = true ∧ nilTop true true FPt = true ∧
    nilTop true false FPNt = true ∧ nilTop true true FPNt = false ∧
    nilTop true true UFt = true ∧ nilTop true true UOt = true ∧ nilTop true true UDt = true ∧
    nilTop true true UFMt = true ∧ nilTop true true UFPt = true ∧
    nilTop true true FVt = true := by
  decide +kernel

/-- `IsZero()` of the menagerie's IsZeroers is defined on every value of the shape of their type
(`zeroOK`, a conjunct of `wtC`) -/
theorem zeroOK_menagerie :
    (∀ n, zeroOK ZVt (.struct [.int n]) = true) ∧
    (∀ n, zeroOK ZPt (.struct [.int n]) = true) ∧
    (∀ n, zeroOK ZIntt (.int n) = true) ∧
    (∀ s, zeroOK ZStrt (.str s) = true) ∧
    (zeroOK ZIntst .nilSlice = true ∧ zeroOK ZIntst (.slice []) = true ∧
      ∀ x xs, zeroOK ZIntst (.slice (.int x :: xs)) = true) ∧
    (zeroOK ZMapPt .nilMap = true ∧ ∀ ms, zeroOK ZMapPt (.map ms) = true) ∧
    (∀ a b, zeroOK ZArrt (.array [.int a, .int b]) = true) :=
  ⟨fun _ => rfl, fun _ => rfl, fun _ => rfl, fun _ => rfl, ⟨rfl, rfl, fun _ _ => rfl⟩, ⟨rfl, fun _ => rfl⟩,
    fun _ _ => rfl⟩

/-! ## field kinds of the examples -/

theorem kS : fieldKind fS = .plain [115] := by
  rw [fieldKind_untagged _ _ _ (by decide +kernel)]; decide +kernel
theorem kN : fieldKind fN = .plain [110] := by
  rw [fieldKind_untagged _ _ _ (by decide +kernel)]; decide +kernel
theorem kDi : fieldKind fDi = .plain [100] := by
  rw [fieldKind_untagged _ _ _ (by decide +kernel)]; decide +kernel
theorem kEs : fieldKind fEs = .plain [101] := by
  rw [fieldKind_untagged _ _ _ (by decide +kernel)]; decide +kernel

/-- `struct{V FV; P *FP; Z ZV "n,omitempty"; I FV ",inline"}` -/
abbrev fV : Field := .mk "V" FVt "" false
abbrev fP : Field := .mk "P" (.ptr FPt) "" false
abbrev fZ : Field := .mk "Z" ZVt "n,omitempty" false
abbrev fI : Field := .mk "I" FVt ",inline" false

theorem kV : fieldKind fV = .plain [118] := by
  rw [fieldKind_untagged _ _ _ (by decide +kernel)]; decide +kernel
theorem kP : fieldKind fP = .plain [112] := by
  rw [fieldKind_untagged _ _ _ (by decide +kernel)]; decide +kernel
theorem kZ : fieldKind fZ = .omitEmpty [110] := by
  rw [fieldKind_omitempty _ _ _ (by decide +kernel)]; decide +kernel
theorem kI : fieldKind fI = .inline := by
  rw [fieldKind_inline _ _ _ (by decide +kernel)]

abbrev TC : GoType := .struct [fV, fP, fZ, fI]
/-- `{V: FV{1,"x"}, P: &FP{2}, Z: ZV{0}, I: FV{3,"y"}}`: `Z` is zero (`IsZero()`), dropped -/
abbrev vC : GoVal :=
  .struct [.struct [.int 1, .str [120]], .ptr (.struct [.int 2]), .struct [.int 0], .struct [.int 3, .str [121]]]
abbrev rFV (a : Int) (s : Bytes) : List Seg :=
  [(false, [(strBytes "fa", .int a)]), (false, [(strBytes "fs", .str s)]),
   (false, [(strBytes "fl", .arr [.int a, .int 7])])]
abbrev rFP (a : Int) : RVal :=
  .obj [(false, [(strBytes "pa", .int a)]), (false, [(strBytes "po", .obj [(false, [(strBytes "x", .bool true)])])])]
abbrev rC : RVal := .obj ([(false, [([118], .obj (rFV 1 [120]))]), (false, [([112], rFP 2)])] ++ rFV 3 [121])
/-- the same with `Z: ZV{5}`: kept, folded as its underlying struct -/
abbrev vC' : GoVal :=
  .struct [.struct [.int 1, .str [120]], .ptr (.struct [.int 2]), .struct [.int 5], .struct [.int 3, .str [121]]]
abbrev rC' : RVal := .obj ([(false, [([118], .obj (rFV 1 [120]))]), (false, [([112], rFP 2)]),
  (false, [([110], .obj [(false, [([110], .int 5)])])])] ++ rFV 3 [121])

theorem goodFVt (reg : Bool) (sn : List String) (h : sn.contains "FV" = false) : goodC reg sn FVt = true := by
  simp only [goodC, goodCFs, goodCF, inlineIfaceF, inlineNilF, kA, kS, h]
  cases reg <;> decide +kernel
theorem goodFPt (reg : Bool) (sn : List String) (h : sn.contains "FP" = false) : goodC reg sn FPt = true := by
  simp only [goodC, goodCFs, goodCF, inlineIfaceF, inlineNilF, kA, h]
  cases reg <;> decide +kernel
theorem goodZVt (reg : Bool) (sn : List String) (h : sn.contains "ZV" = false) : goodC reg sn ZVt = true := by
  simp only [goodC, goodCFs, goodCF, inlineIfaceF, inlineNilF, kN, h]
  cases reg <;> decide +kernel

theorem goodTC : goodC true [] TC = true := by
  have h1 : goodC true [] FVt = true := goodFVt true [] rfl
  have h2 : goodC true [] (.ptr FPt) = true := goodFPt true [] rfl
  have h3 : goodC true [] ZVt = true := goodZVt true [] rfl
  show goodCFs true [] [fV, fP, fZ, fI] = true
  simp only [goodCFs, goodCF, inlineIfaceF, inlineNilF, kV, kP, kZ, kI]
  rw [h1, h2, h3]
  decide +kernel

theorem wtFV (reg : Bool) (a : Int) (s : Bytes) : wtC reg FVt (.struct [.int a, .str s]) = true := by
  rw [wtC_eq]
  have h1 := (cusOK_menagerie reg).1 a s
  simp only [h1, GoType.under, wtCF, lazyField, kA, kS]
  cases reg <;> rfl
theorem wtFP (reg : Bool) (a : Int) : wtC reg FPt (.struct [.int a]) = true := by
  rw [wtC_eq]
  have h1 := (cusOK_menagerie reg).2.1 a
  simp only [h1, GoType.under, wtCF, lazyField, kA]
  cases reg <;> rfl
theorem wtZV (reg : Bool) (n : Int) : wtC reg ZVt (.struct [.int n]) = true := by
  rw [wtC_eq]
  simp only [GoType.under, wtCF, lazyField, kN]
  cases reg <;> rfl

theorem wtTC (z : Int) : wtC true TC
    (.struct [.struct [.int 1, .str [120]], .ptr (.struct [.int 2]), .struct [.int z], .struct [.int 3, .str [121]]]) =
      true := by
  have h1 := wtFV true 1 [120]
  have h2 := wtFV true 3 [121]
  have h3 := wtZV true z
  have h4 : wtC true (.ptr FPt) (.ptr (.struct [.int 2])) = true := by
    rw [wtC_eq]
    have := wtFP true 2
    simp only [GoType.under, this]
    rfl
  rw [wtC_eq]
  simp only [GoType.under, wtCF, lazyField, kV, kP, kZ, kI, Field.typ, h1, h2, h3, h4]
  rfl

theorem tokZV : typeOkF 998 true [] ZVt = .ok () := by
  have h : typeOkF 998 true [] ZVt = typeOkF (996 + 1) true ["ZV"] (.struct [fN]) := rfl
  rw [h, typeOkF_unnamed 996 true _ rfl]
  simp only [forM_cons', forM_nil', fieldOkF_eq, kN]
  rfl

theorem tokTC : Rules.typeOk true TC = .ok () := by
  unfold Rules.typeOk
  rw [typeOkF_unnamed 999 true [] rfl]
  simp only [forM_cons', forM_nil', fieldOkF_eq, kV, kP, kZ, kI]
  have hV : typeOkF 998 true [] fV.typ = .ok () := rfl
  have hP : typeOkF 998 true [] fP.typ = .ok () := rfl
  have hZ : typeOkF 998 true [] fZ.typ = .ok () := tokZV
  have hI : inlineOkF 998 true [] fI.typ = .ok () := rfl
  rw [hV, hP, hZ, hI]

theorem specC : Rules.foldR TC vC = .ok rC := by
  unfold Rules.foldR
  rw [tokTC]
  simp only []
  rw [foldF_struct]
  simp only [List.zip_cons_cons, List.zip_nil_right, mapM_cons, mapM_nil, fieldF_eq, kV, kP, kZ, kI]
  rfl

theorem specC' : Rules.foldR TC vC' = .ok rC' := by
  unfold Rules.foldR
  rw [tokTC]
  simp only []
  rw [foldF_struct]
  simp only [List.zip_cons_cons, List.zip_nil_right, mapM_cons, mapM_nil, fieldF_eq, kV, kP, kZ, kI]
  have h : foldF 99998 true fZ.typ (GoVal.struct [GoVal.int 5]) =
      foldF (99997 + 1) true (.struct [fN]) (.struct [.int 5]) := rfl
  have hz : isEmptyF 100000 fZ.typ (GoVal.struct [GoVal.int 5]) = false := rfl
  rw [hz, h, foldF_struct]
  simp only [List.zip_cons_cons, List.zip_nil_right, mapM_cons, mapM_nil, fieldF_eq, kN]
  rfl

/-! ## every menagerie type with custom code is a type of the universe -/

abbrev fEmbFV : Field := .mk "FV" FVt ",inline" true
abbrev fEmbZV : Field := .mk "ZV" ZVt "" true
abbrev fWall : Field := .mk "wall" (.int .u64) "" false
abbrev fExt : Field := .mk "ext" (.int .i64) "" false
abbrev EmbZt : GoType := .named "EmbZ" { isZero := .value } (.struct [fEmbZV, fK])
abbrev TimeLiket : GoType := .named "TimeLike" { isZero := .value } (.struct [fWall, fExt])

theorem kK : fieldKind fK = .plain [107] := by
  rw [fieldKind_untagged _ _ _ (by decide +kernel)]; decide +kernel
theorem kPp : fieldKind fPp = .plain [112] := by
  rw [fieldKind_untagged _ _ _ (by decide +kernel)]; decide +kernel
theorem kEmbFV : fieldKind fEmbFV = .inline := by
  rw [fieldKind_inline _ _ _ (by decide +kernel)]
theorem kEmbZV : fieldKind fEmbZV = .plain [122, 118] := by
  rw [fieldKind_untagged _ _ _ (by decide +kernel)]; decide +kernel
theorem kWall : fieldKind fWall = .drop := by decide +kernel
theorem kExt : fieldKind fExt = .drop := by decide +kernel

/-- the folders FV, FP, FPN, FS, FInts, FMap, FOpen, EmbF, the registered UF, UO, UD, UFM, UFP
(with and without registration), the IsZeroers ZV, ZP, ZInt, ZStr, TimeLike, ZInts, ZMapP, ZArr, EmbZ -/
theorem good_menagerie (reg : Bool) :
    goodC reg [] FVt = true ∧ goodC reg [] FPt = true ∧ goodC reg [] FPNt = true ∧ goodC reg [] FSt = true ∧
    goodC reg [] FIntst = true ∧ goodC reg [] FMapt = true ∧ goodC reg [] FOpent = true ∧
    goodC reg [] EmbFt = true ∧
    goodC reg [] UFt = true ∧ goodC reg [] UOt = true ∧ goodC reg [] UDt = true ∧ goodC reg [] UFMt = true ∧
    goodC reg [] UFPt = true ∧
    goodC reg [] ZVt = true ∧ goodC reg [] ZPt = true ∧ goodC reg [] ZIntt = true ∧ goodC reg [] ZStrt = true ∧
    goodC reg [] TimeLiket = true ∧ goodC reg [] ZIntst = true ∧ goodC reg [] ZMapPt = true ∧
    goodC reg [] ZArrt = true ∧ goodC reg [] EmbZt = true := by
  have hFV : goodC reg ["EmbF"] FVt = true := goodFVt reg ["EmbF"] (by decide +kernel)
  have hZV : goodC reg ["EmbZ"] ZVt = true := goodZVt reg ["EmbZ"] (by decide +kernel)
  have hEmbF : goodC reg [] EmbFt = true := by
    show (!([] : List String).contains "EmbF" && namedOK reg "EmbF" { folder := .value } (.struct [fEmbFV, fK]) &&
      unnamedHead (.struct [fEmbFV, fK]) && goodCFs reg ["EmbF"] [fEmbFV, fK]) = true
    simp only [goodCFs, goodCF, inlineIfaceF, inlineNilF, kEmbFV, kK]
    rw [hFV]
    cases reg <;> decide +kernel
  have hEmbZ : goodC reg [] EmbZt = true := by
    show (!([] : List String).contains "EmbZ" && namedOK reg "EmbZ" { isZero := .value } (.struct [fEmbZV, fK]) &&
      unnamedHead (.struct [fEmbZV, fK]) && goodCFs reg ["EmbZ"] [fEmbZV, fK]) = true
    simp only [goodCFs, goodCF, inlineIfaceF, inlineNilF, kEmbZV, kK]
    rw [hZV]
    cases reg <;> decide +kernel
  refine ⟨goodFVt reg [] rfl, goodFPt reg [] rfl, ?_, ?_, ?_, ?_, ?_, hEmbF, ?_, ?_, ?_, ?_, ?_, goodZVt reg [] rfl,
    ?_, ?_, ?_, ?_, ?_, ?_, ?_, hEmbZ⟩ <;>
  (simp only [goodC, goodCFs, goodCF, inlineIfaceF, inlineNilF, kA, kN, kDi, kEs, kPp, kWall, kExt]
   cases reg <;> decide +kernel)

/-! ## a registered fold function, registered or not: `struct{U UO}` -/

abbrev fU : Field := .mk "U" UOt "" false
theorem kU : fieldKind fU = .plain [117] := by
  rw [fieldKind_untagged _ _ _ (by decide +kernel)]; decide +kernel
abbrev TU : GoType := .struct [fU]
abbrev vU : GoVal := .struct [.struct [.int 4, .str [122]]]
/-- registered: what `foldUO` emits -/
abbrev rU : RVal := .obj [(false, [([117], .obj [(false, [(strBytes "ud", .int 4)])])])]
/-- not registered: the struct -/
abbrev rU' : RVal := .obj [(false, [([117], .obj [(false, [([100], .int 4)]), (false, [([101], .str [122])])])])]

theorem goodTU (reg : Bool) : goodC reg [] TU = true := by
  simp only [goodC, goodCFs, goodCF, inlineIfaceF, inlineNilF, kU, kDi, kEs]
  cases reg <;> decide +kernel

theorem wtTU (reg : Bool) : wtC reg TU vU = true := by
  have h1 : wtC reg UOt (.struct [.int 4, .str [122]]) = true := by
    rw [wtC_eq]
    simp only [GoType.under, wtCF, lazyField, kDi, kEs]
    cases reg <;> rfl
  rw [wtC_eq]
  simp only [GoType.under, wtCF, lazyField, kU, Field.typ, h1]
  rfl

theorem tokTU (reg : Bool) : Rules.typeOk reg TU = .ok () := by
  unfold Rules.typeOk
  rw [typeOkF_unnamed 999 reg [] rfl]
  simp only [forM_cons', forM_nil', fieldOkF_eq, kU]
  cases reg
  · have h : typeOkF 998 false [] fU.typ = typeOkF (996 + 1) false ["UO"] (.struct [fDi, fEs]) := rfl
    rw [h, typeOkF_unnamed 996 false _ rfl]
    simp only [forM_cons', forM_nil', fieldOkF_eq, kDi, kEs]
    rfl
  · rfl

theorem specU : Rules.foldR TU vU true = .ok rU := by
  unfold Rules.foldR
  rw [tokTU]
  simp only []
  rw [foldF_struct]
  simp only [List.zip_cons_cons, List.zip_nil_right, mapM_cons, mapM_nil, fieldF_eq, kU]
  rfl

theorem specU' : Rules.foldR TU vU false = .ok rU' := by
  unfold Rules.foldR
  rw [tokTU]
  simp only []
  rw [foldF_struct]
  simp only [List.zip_cons_cons, List.zip_nil_right, mapM_cons, mapM_nil, fieldF_eq, kU]
  have h : foldF 99998 false fU.typ (GoVal.struct [GoVal.int 4, GoVal.str [122]]) =
      foldF (99997 + 1) false (.struct [fDi, fEs]) (.struct [.int 4, .str [122]]) := rfl
  rw [h, foldF_struct]
  simp only [List.zip_cons_cons, List.zip_nil_right, mapM_cons, mapM_nil, fieldF_eq, kDi, kEs]
  rfl

/-! ## the error direction: `inline` of a folder that emits no object, `struct{I FS ",inline"}` -/

abbrev fIS : Field := .mk "I" FSt ",inline" false
theorem kIS : fieldKind fIS = .inline := by
  rw [fieldKind_inline _ _ _ (by decide +kernel)]
abbrev TS : GoType := .struct [fIS]
abbrev vS : GoVal := .struct [.int 3]

theorem goodTS : goodC true [] TS = true := by
  simp only [goodC, goodCFs, goodCF, inlineIfaceF, inlineNilF, kIS]
  decide +kernel

theorem wtTS : wtC true TS vS = true := by
  have h1 : wtC true FSt (.int 3) = true := by decide +kernel
  rw [wtC_eq]
  simp only [GoType.under, wtCF, lazyField, kIS, Field.typ, h1]
  rfl

theorem specS : Rules.foldR TS vS = .error .inlineNeedsObject := by
  have tok : Rules.typeOk true TS = .ok () := by
    unfold Rules.typeOk
    rw [typeOkF_unnamed 999 true [] rfl]
    simp only [forM_cons', forM_nil', fieldOkF_eq, kIS]
    rfl
  unfold Rules.foldR
  rw [tok]
  simp only []
  rw [foldF_struct]
  simp only [List.zip_cons_cons, List.zip_nil_right, mapM_cons, mapM_nil, fieldF_eq, kIS]
  rfl

/-! ## outside the universe: `struct{I FInts ",inline"}` holding a nil slice -/

abbrev fIN : Field := .mk "I" FIntst ",inline" false
theorem kIN : fieldKind fIN = .inline := by
  rw [fieldKind_inline _ _ _ (by decide +kernel)]
abbrev TN : GoType := .struct [fIN]

theorem notGoodTN : goodC true [] TN = false := by
  show goodCFs true [] [fIN] = false
  simp only [goodCFs, goodCF, inlineIfaceF, inlineNilF, kIN]
  decide +kernel

theorem specN : Rules.foldR TN (.struct [.nilSlice]) = .error .userCode := by
  have tok : Rules.typeOk true TN = .ok () := by
    unfold Rules.typeOk
    rw [typeOkF_unnamed 999 true [] rfl]
    simp only [forM_cons', forM_nil', fieldOkF_eq, kIN]
    rfl
  unfold Rules.foldR
  rw [tok]
  simp only []
  rw [foldF_struct]
  simp only [List.zip_cons_cons, List.zip_nil_right, mapM_cons, mapM_nil, fieldF_eq, kIN]
  rfl

/-! ## the type terms above are what the type parser writes for the menagerie's members

(checked by evaluation when this file is compiled; not part of any proof) -/

def sameAsParsed (n : String) (t : GoType) : Bool :=
  match GoType.parse? ("@" ++ n) with
  | some p => SF.FoldRec.beqT p t
  | none => false

#guard [sameAsParsed "FV" FVt, sameAsParsed "FP" FPt, sameAsParsed "FPN" FPNt, sameAsParsed "FS" FSt,
  sameAsParsed "FInts" FIntst, sameAsParsed "FMap" FMapt, sameAsParsed "FOpen" FOpent, sameAsParsed "EmbF" EmbFt,
  sameAsParsed "UF" UFt, sameAsParsed "UO" UOt, sameAsParsed "UD" UDt, sameAsParsed "UFM" UFMt,
  sameAsParsed "UFP" UFPt, sameAsParsed "ZV" ZVt, sameAsParsed "ZP" ZPt, sameAsParsed "ZInt" ZIntt,
  sameAsParsed "ZStr" ZStrt, sameAsParsed "TimeLike" TimeLiket, sameAsParsed "ZInts" ZIntst,
  sameAsParsed "ZMapP" ZMapPt, sameAsParsed "ZArr" ZArrt, sameAsParsed "EmbZ" EmbZt].all id

end SF.FoldProofs.Custom.Examples
