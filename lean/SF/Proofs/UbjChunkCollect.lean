/-
  C02 for the UBJSON parser mirror, part 1: the RESUMPTION LAW of the partial-token buffer
  (`collect`, the same code as cborl's) — for EVERY buffer content, no invariant needed —
  and the notions `Ext` / `Sim` used to compare two step results.
  Property theorems: SF/Proofs/UbjChunkTop.lean.
-/
import SF.Proofs.CborCollect
import SF.Proofs.UbjNoPanicLoop
namespace SF.Ubjson.Chunk
open SF SF.Ubjson SF.Ubjson.Parse
open StateType StateStep

theorem collect_eq_cbor : collect = SF.Cbor.Parse.collect := rfl

/-- a token that is not complete leaves no input -/
theorem collect_none_rest (buf a : Bytes) (n : Nat) (h : (collect buf a n).2.2 = none) :
    (collect buf a n).2.1 = [] := by
  unfold collect at h ⊢
  simp only [] at h ⊢
  repeat' split at h
  all_goals first
    | (simp at h; done)
    | skip
  all_goals (repeat' split) <;> simp_all

/-- RESUMPTION, unconditionally: cutting the input of `collect` at ANY point changes nothing,
whatever the buffer holds -/
theorem collect_resume (buf a b : Bytes) (n : Nat) :
    collect buf (a ++ b) n =
      match collect buf a n with
      | (buf1, rest1, some t) => (buf1, rest1 ++ b, some t)
      | (buf1, _, none) => collect buf1 b n := by
  by_cases h : 0 < n ∧ buf.length < n
  · rw [collect_eq_cbor]
    exact SF.Cbor.Collect.collect_resume_partial buf a b n h.1 h.2
  · have hge : n ≤ buf.length := by omega
    by_cases hb : buf.length > 0
    · have hd : ¬ ((n : Int) - (buf.length : Int) > 0) := by omega
      have h1 : ∀ x : Bytes, collect buf x n =
          (if buf.length == n then [] else buf.drop n, x, some (buf.take n)) := by
        intro x
        unfold collect
        simp only [hb, if_true, hd, if_false, hge, ge_iff_le]
        split <;> simp_all
      rw [h1 a, h1 (a ++ b)]
    · have hnil : buf = [] := by
        cases buf with
        | nil => rfl
        | cons x l => simp at hb
      subst hnil
      have hn : n = 0 := by simpa using hge
      subst hn
      simp [collect]

theorem buffer_eta (p : P) : { p with buffer := p.buffer } = p := by cases p; rfl

/-- the split law of `collectP`: the token is complete within `a` (and `b` is left over in
addition), or `a` is parked and collecting resumes on `b` -/
theorem collectP_split (p : P) (a : Bytes) (n : Nat) :
    (∃ buf rest t, collectP p a n = ({ p with buffer := buf }, rest, some t) ∧
        ∀ b, collectP p (a ++ b) n = ({ p with buffer := buf }, rest ++ b, some t)) ∨
    (∃ buf, collectP p a n = ({ p with buffer := buf }, [], none) ∧
        ∀ b, collectP p (a ++ b) n = collectP { p with buffer := buf } b n) := by
  have hr := collect_resume p.buffer a
  have hn := collect_none_rest p.buffer a n
  rcases hc : collect p.buffer a n with ⟨buf, rest, tmp⟩
  rw [hc] at hn
  cases tmp with
  | some t =>
    left
    refine ⟨buf, rest, t, by simp only [collectP, hc], fun b => ?_⟩
    have := hr b n
    rw [hc] at this
    simp only [collectP, this]
  | none =>
    right
    have hrest : rest = [] := hn rfl
    subst hrest
    refine ⟨buf, by simp only [collectP, hc], fun b => ?_⟩
    have := hr b n
    rw [hc] at this
    simp only [collectP, this]

/-- a zero-length token is always complete -/
theorem collectP_zero_some (p : P) (a : Bytes) : (collectP p a 0).2.2 ≠ none := by
  unfold collectP collect
  simp only []
  repeat' split
  all_goals simp_all

/-! ## comparing two step results -/

/-- the same result, with `b` appended to the unconsumed input -/
def app (r : R) (b : Bytes) : R := { r with rest := r.rest ++ b }

/-- `r'` is `r` with `b` left over in addition (after an error: same error, same events) -/
def Ext (r r' : R) (b : Bytes) : Prop :=
  r'.err = r.err ∧ r'.p.evs = r.p.evs ∧ (r.err = none → r' = app r b)

/-- the same outcome (after an error: same error, same events) -/
def Sim (r r' : R) : Prop :=
  r'.err = r.err ∧ r'.p.evs = r.p.evs ∧ (r.err = none → r' = r)

theorem Ext.of_app {r r' : R} {b : Bytes} (h : r' = app r b) : Ext r r' b := by
  subst h; exact ⟨rfl, rfl, fun _ => rfl⟩

theorem Ext.of_eq_err {r r' : R} {b : Bytes} (h : r' = r) (he : r.err ≠ none) : Ext r r' b := by
  subst h; exact ⟨rfl, rfl, fun h => absurd h he⟩

theorem Sim.refl (r : R) : Sim r r := ⟨rfl, rfl, fun _ => rfl⟩

theorem Sim.of_eq {r r' : R} (h : r' = r) : Sim r r' := by subst h; exact Sim.refl _

theorem Ext.setDone {r r' : R} {b : Bytes} (h : Ext r r' b) (d : Bool) :
    Ext { r with done := d } { r' with done := d } b := by
  obtain ⟨h1, h2, h3⟩ := h
  refine ⟨h1, h2, fun he => ?_⟩
  rw [h3 he]; rfl

/-- close a leaf of a step function: the two results differ in `rest` only, or are the same
error -/
macro "eleaf" : tactic =>
  `(tactic| first
    | exact Ext.of_app rfl
    | exact Ext.of_eq_err rfl (by simp [panicR])
    | exact ⟨rfl, rfl, fun h => by simp [panicR] at h⟩)

end SF.Ubjson.Chunk
