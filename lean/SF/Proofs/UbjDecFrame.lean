/-
  C17 for the UBJSON PULL DECODER (mirror: SF/Ubjson/Dec.lean): `Next` respects the FRAME of
  the parser (`Fr v E0 p`, SF/Proofs/UbjFrame.lean: `p` with another value in the scratch field
  `valueType` and the events `E0` delivered before).  A decoder whose parser is `Fr v E0 p`
  behaves — on ANY buffered bytes and ANY read script — as the same decoder with the parser `p`:
  same results, same events after `E0` (`nextG_fr`, `nextsG_fr`).
  Reasoning goes through `nextG` (never unfold `next`: see SF/Proofs/UbjDecBase.lean).
-/
import SF.Proofs.UbjFrameLoop
import SF.Proofs.UbjDecAny
set_option linter.unusedSimpArgs false
set_option linter.unusedVariables false
namespace SF.Ubjson.DecR
open SF SF.Ubjson SF.Ubjson.Parse SF.Ubjson.Dec
open StateType StateStep

/-- the decoder `d` with another parser value -/
def setP (d : Dec) (p : P) : Dec := { d with p := p }

theorem setP_p (d : Dec) (p : P) : (setP d p).p = p := rfl
theorem setP_buffer (d : Dec) (p : P) : (setP d p).buffer = d.buffer := rfl
theorem setP_setP (d : Dec) (p q : P) : setP (setP d p) q = setP d q := rfl
theorem setP_self (d : Dec) : setP d d.p = d := by cases d; rfl
theorem afterRead_setP (d : Dec) (p : P) : afterRead (setP d p) = setP (afterRead d) p := rfl
theorem readEnd_setP (d : Dec) (p : P) : readEnd (setP d p) = readEnd d := rfl
theorem need_setP (d : Dec) (p : P) : need (setP d p) = need d := rfl
theorem stream_setP (d : Dec) (p : P) : stream (setP d p) = stream d := rfl

theorem atEOF_fr (v : Nat) (E0 : List Ev) (d : Dec) :
    atEOF (setP d (Fr v E0 d.p)) = (setP (atEOF d).1 (Fr v E0 (atEOF d).1.p), (atEOF d).2) ∧ (atEOF d).2 ≠ .ok := by
  rw [atEOF_spec, atEOF_spec]
  simp only [setP_p]
  rw [finalize_fr]
  refine ⟨?_, eofV_ne_ok _⟩
  unfold eofV
  rw [finalize_fr]
  rfl

/-- what `nextG_fr` says about one decoder state and one amount of fuel -/
def NextFr (E0 : List Ev) (ff : Bytes → Nat) (fuel : Nat) (d : Dec) (v : Nat) : Prop :=
  ∃ v', nextG ff fuel (setP d (Fr v E0 d.p)) =
      (setP (nextG ff fuel d).1 (Fr v' E0 (nextG ff fuel d).1.p), (nextG ff fuel d).2) ∧
    ((nextG ff fuel d).2 = .ok → G (nextG ff fuel d).1.p ∧ VtOk v' (nextG ff fuel d).1.p)

theorem fiFr_err (ff : Bytes → Nat) (fuel : Nat) (d : Dec) (e : Err)
    (h : (feedUntil (ff d.buffer) d.p d.buffer).err = some e) :
    feedIt ff fuel d = ({ d with p := (feedUntil (ff d.buffer) d.p d.buffer).p }, .err e) := by
  unfold feedIt; simp only [h]

theorem fiFr_done (ff : Bytes → Nat) (fuel : Nat) (d : Dec)
    (h : (feedUntil (ff d.buffer) d.p d.buffer).err = none) (hd : (feedUntil (ff d.buffer) d.p d.buffer).done = true) :
    feedIt ff fuel d = ({ d with p := (feedUntil (ff d.buffer) d.p d.buffer).p,
                                 buffer := (feedUntil (ff d.buffer) d.p d.buffer).rest }, .ok) := by
  unfold feedIt; simp only [h, hd, if_true]

theorem fiFr_cont (ff : Bytes → Nat) (fuel : Nat) (d : Dec)
    (h : (feedUntil (ff d.buffer) d.p d.buffer).err = none) (hd : (feedUntil (ff d.buffer) d.p d.buffer).done = false) :
    feedIt ff fuel d = nextG ff fuel
      ({ d with p := (feedUntil (ff d.buffer) d.p d.buffer).p, buffer := (feedUntil (ff d.buffer) d.p d.buffer).rest } : Dec) := by
  unfold feedIt; simp only [h, hd, Bool.false_eq_true, if_false]

theorem feedIt_fr (E0 : List Ev) (ff : Bytes → Nat) (fuel : Nat) (d : Dec) (v : Nat) (hg : G d.p) (hl : VtOk v d.p)
    (ih : ∀ (d' : Dec) (v' : Nat), G d'.p → VtOk v' d'.p → NextFr E0 ff fuel d' v') :
    ∃ v', feedIt ff fuel (setP d (Fr v E0 d.p)) =
        (setP (feedIt ff fuel d).1 (Fr v' E0 (feedIt ff fuel d).1.p), (feedIt ff fuel d).2) ∧
      ((feedIt ff fuel d).2 = .ok → G (feedIt ff fuel d).1.p ∧ VtOk v' (feedIt ff fuel d).1.p) := by
  obtain ⟨v1, h1, h2⟩ := feedUntil_fr E0 (ff d.buffer) d.p d.buffer v hg hl
  have h1' : feedUntil (ff (setP d (Fr v E0 d.p)).buffer) (setP d (Fr v E0 d.p)).p (setP d (Fr v E0 d.p)).buffer =
      (feedUntil (ff d.buffer) d.p d.buffer).mapP (Fr v1 E0) := h1
  cases he : (feedUntil (ff d.buffer) d.p d.buffer).err with
  | some e =>
    rw [fiFr_err ff fuel d e he, fiFr_err ff fuel (setP d (Fr v E0 d.p)) e (by rw [h1']; exact he), h1']
    exact ⟨v1, rfl, fun h => by cases h⟩
  | none =>
    have hg' := (feedUntil_progress (ff d.buffer) d.p d.buffer hg).1 he
    cases hd : (feedUntil (ff d.buffer) d.p d.buffer).done with
    | true =>
      rw [fiFr_done ff fuel d he hd,
        fiFr_done ff fuel (setP d (Fr v E0 d.p)) (by rw [h1']; exact he) (by rw [h1']; exact hd), h1']
      exact ⟨v1, rfl, fun _ => ⟨hg', h2 he⟩⟩
    | false =>
      rw [fiFr_cont ff fuel d he hd,
        fiFr_cont ff fuel (setP d (Fr v E0 d.p)) (by rw [h1']; exact he) (by rw [h1']; exact hd), h1']
      exact ih { d with p := (feedUntil (ff d.buffer) d.p d.buffer).p, buffer := (feedUntil (ff d.buffer) d.p d.buffer).rest }
        v1 hg' (h2 he)

/-- ONE CALL OF `Next` RESPECTS THE FRAME — any buffered bytes, any read script, any fuel -/
theorem nextG_fr (E0 : List Ev) (ff : Bytes → Nat) (fuel : Nat) :
    ∀ (d : Dec) (v : Nat), G d.p → VtOk v d.p → NextFr E0 ff fuel d v := by
  induction fuel with
  | zero => intro d v _ _; exact ⟨v, rfl, fun h => by cases h⟩
  | succ fuel ih =>
    intro d v hg hl
    unfold NextFr
    cases hb : d.buffer with
    | cons x xs =>
      have hb1 : d.buffer ≠ [] := by rw [hb]; simp
      have hb2 : (setP d (Fr v E0 d.p)).buffer ≠ [] := hb1
      rw [nextG_buf ff fuel d hb1, nextG_buf ff fuel _ hb2]
      exact feedIt_fr E0 ff fuel d v hg hl ih
    | nil =>
      have hb2 : (setP d (Fr v E0 d.p)).buffer = [] := hb
      cases hh : d.hasReader with
      | false =>
        have hh2 : (setP d (Fr v E0 d.p)).hasReader = false := hh
        rw [nextG_noReader ff fuel d hb hh, nextG_noReader ff fuel _ hb2 hh2]
        obtain ⟨a1, a2⟩ := atEOF_fr v E0 d
        exact ⟨v, a1, fun h => absurd h a2⟩
      | true =>
        have hh2 : (setP d (Fr v E0 d.p)).hasReader = true := hh
        rw [nextG_read ff fuel d hb hh, nextG_read ff fuel _ hb2 hh2, readEnd_setP, afterRead_setP]
        by_cases he : readEnd d = true
        · rw [if_pos he, if_pos he]
          obtain ⟨a1, a2⟩ := atEOF_fr v E0 (afterRead d)
          exact ⟨v, a1, fun h => absurd h a2⟩
        · rw [if_neg he, if_neg he]
          exact feedIt_fr E0 ff fuel (afterRead d) v hg hl ih

/-- the trace behind the frame: the events of the frame come first -/
def frameTrace (pre : List Ev) (tr : List (NextRes × List Ev)) : List (NextRes × List Ev) :=
  tr.map (fun x => (x.1, pre ++ x.2))

theorem events_Fr (v : Nat) (E0 : List Ev) (p : P) : Parse.events (Fr v E0 p) = E0.reverse ++ Parse.events p := by
  simp [Parse.events, Fr]

/-- SEQUENCES OF CALLS RESPECT THE FRAME: the decoder `d` with the framed parser `Fr v E0 d.p`
produces the trace of `d` behind `E0` — ARBITRARY bytes, any read script, any sufficient fuel -/
theorem nextsF_fr (E0 : List Ev) (f : Dec → Nat) (hf : Enough f) (n : Nat) :
    ∀ (d : Dec) (v : Nat), ReadyA d → VtOk v d.p →
      nextsF f n (setP d (Fr v E0 d.p)) = frameTrace E0.reverse (nextsF f n d) := by
  induction n with
  | zero => intros; rfl
  | succ n ih =>
    intro d v h hl
    obtain ⟨v1, h1, h2⟩ := nextG_fr E0 fuelFor (f (setP d (Fr v E0 d.p))) d v h.g.g hl
    have hirr : nextG fuelFor (f (setP d (Fr v E0 d.p))) d = nextG fuelFor (f d) d :=
      nextG_fuel_irrelevant fuelFor _ _ d h.rd h.g h.np h.bs (by rw [← need_setP d (Fr v E0 d.p)]; exact hf _) (hf d)
    rw [hirr] at h1 h2
    rw [nextsF_succ, nextsF_succ, next_eq_nextG, h1]
    simp only [frameTrace, List.map_cons, setP_p, events_Fr]
    congr 1
    by_cases hok : (nextG fuelFor (f d) d).2 = .ok
    · simp only [hok, beq_self_eq_true, if_true]
      have hr : ReadyA (nextG fuelFor (f d) d).1 := by
        have := h.next (f d) (by rw [next_eq_nextG]; exact hok)
        rw [next_eq_nextG] at this; exact this
      exact ih _ v1 hr (h2 hok).2
    · have : ((nextG fuelFor (f d) d).2 == NextRes.ok) = false := by simpa using hok
      simp only [this, Bool.false_eq_true, if_false, List.map_nil]

end SF.Ubjson.DecR
