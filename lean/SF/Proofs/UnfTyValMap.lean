/-
  C13 for `map[string]T` targets, `T` a primitive kind: a well-formed object of scalars the
  specification assigns is accepted and the target holds the specified entries.
-/
import SF.Proofs.UnfTyValArr2
namespace SF.Unf
open SF SF.Unf.Spec

/-- the context `SetTarget` leaves for a target of type `map[string]T` holding `v` -/
def mapCtxK (tbl : TypeTable) (k : PK) (v : GoVal) (c : Ctx) : Ctx :=
  { c with
    target := v, env := tbl
    unfolder := ⟨.mapStart k, .mapKey k :: c.unfolder.current :: c.unfolder.stack⟩
    ptr := c.ptr.push (some { root := .target }) }

theorem setTarget_mapK (tbl : TypeTable) (e : GoType) (k : PK) (v : GoVal) (c : Ctx) (hk : PK.ofExact? e = some k) :
    setTarget tbl (.map e) v c = .ok (mapCtxK tbl k v c) := by
  cases e <;> simp [PK.ofExact?] at hk <;> subst hk <;> rfl

/-- … after `OnObjectStart`, waiting for a key -/
def tmapCtxK (tbl : TypeTable) (k : PK) (m : GoVal) (c : Ctx) : Ctx :=
  { c with
    target := m, env := tbl
    unfolder := ⟨.mapKey k, c.unfolder.current :: c.unfolder.stack⟩
    ptr := ⟨some { root := .target }, c.ptr.current :: c.ptr.stack⟩ }

/-- … after a key -/
def tmapValCtxK (tbl : TypeTable) (k : PK) (m : GoVal) (key : Bytes) (c : Ctx) : Ctx :=
  { c with
    target := m, env := tbl
    unfolder := ⟨.mapVal k, c.unfolder.current :: c.unfolder.stack⟩
    ptr := ⟨some { root := .target }, c.ptr.current :: c.ptr.stack⟩
    key := ⟨key, c.key.current :: c.key.stack⟩ }

theorem objStart_mapK (f : Nat) (l : Int) (bt : Nat) (tbl : TypeTable) (k : PK) (v : GoVal) (c : Ctx) :
    stepEv (f + 1) (.objStart l bt) (mapCtxK tbl k v c) = .ok () (tmapCtxK tbl k v c) := by
  simp [stepEv, onObjectStart, bind_def, currentU_eq, mapCtxK, popU, Stk.pop, pure_def, tmapCtxK, Stk.push]

theorem key_tmapCtxK (f : Nat) (key : Bytes) (tbl : TypeTable) (k : PK) (m : GoVal) (c : Ctx) :
    stepEv (f + 1) (.key key) (tmapCtxK tbl k m c) = .ok () (tmapValCtxK tbl k m key c) := by
  simp [stepEv, onKey, bind_def, currentU_eq, tmapCtxK, mapKeyOnKey, pushKey, modifyCtx, Stk.push, setCurrentU,
    tmapValCtxK]

theorem scalar_tmapValCtxK (f : Nat) (tbl : TypeTable) (k : PK) (m : GoVal) (et : GoType)
    (ms : List (Bytes × GoVal)) (key : Bytes) (s : Sc) (w : GoVal) (c : Ctx) (hm : mapParts m = some (et, ms))
    (hc : k.conv s = some w) :
    stepEv (f + 1) (.scalar s) (tmapValCtxK tbl k m key c) = .ok () (tmapCtxK tbl k (.map et (mapSet ms key w)) c) := by
  have h1 : stepEv (f + 1) (.scalar s) (tmapValCtxK tbl k m key c) = mapPut k w (tmapValCtxK tbl k m key c) := by
    simp [stepEv, onScalar, bind_def, currentU, tmapValCtxK, hc, pukDeliver]
  rw [h1]
  cases m with
  | mapNil et' =>
    simp only [mapParts, Option.some.injEq, Prod.mk.injEq] at hm
    obtain ⟨h1, h2⟩ := hm; subst h1; subst h2
    simp [mapPut, bind_def, currentPtr, tmapValCtxK, load, rootVal, pure_def, popKey, Stk.pop, store, setRoot,
      setCurrentU, modifyCtx, tmapCtxK]
  | map et' ms' =>
    simp only [mapParts, Option.some.injEq, Prod.mk.injEq] at hm
    obtain ⟨h1, h2⟩ := hm; subst h1; subst h2
    simp [mapPut, bind_def, currentPtr, tmapValCtxK, load, rootVal, pure_def, popKey, Stk.pop, store, setRoot,
      setCurrentU, modifyCtx, tmapCtxK]
  | _ => simp [mapParts] at hm

theorem objEnd_tmapCtxK (f : Nat) (tbl : TypeTable) (k : PK) (m : GoVal) (c : Ctx) (hidle : c.unfolder.stack = []) :
    stepEv (f + 1) .objEnd (tmapCtxK tbl k m c) = .ok () { c with target := m, env := tbl } := by
  have h1 : onObjectFinished (tmapCtxK tbl k m c) = .ok () { c with target := m, env := tbl } := by
    simp [onObjectFinished, bind_def, currentU_eq, tmapCtxK, mapKeyCleanup, popU, popPtr, Stk.pop, pure_def]
  simp only [stepEv]
  rw [ctxObjFin_eq _ _ h1]
  simp [reportChildDone, bind_def, getCtx, hidle, pure_def]

/-- the events of the members of an object of scalars (keys by value) -/
def memberEvents : List (Bytes × Sc) → List UEv
  | [] => []
  | (key, s) :: r => .key key :: .scalar s :: memberEvents r

/-- the entries after the members were put, as the kind converts them -/
def putAll (k : PK) : List (Bytes × Sc) → List (Bytes × GoVal) → Option (List (Bytes × GoVal))
  | [], acc => some acc
  | (key, s) :: r, acc => match k.conv s with
    | some w => putAll k r (mapSet acc key w)
    | none => none

/-- the target after the members: untouched by an empty object -/
def mapFinK (m : GoVal) (et : GoType) (mems : List (Bytes × Sc)) (fin : List (Bytes × GoVal)) : GoVal :=
  if mems.isEmpty then m else .map et fin

theorem members_tmapCtxK (f : Nat) (tbl : TypeTable) (k : PK) (c : Ctx) :
    ∀ (mems : List (Bytes × Sc)) (m : GoVal) (et : GoType) (acc fin : List (Bytes × GoVal)),
      mapParts m = some (et, acc) → putAll k mems acc = some fin →
      run (f + 1) (memberEvents mems) (tmapCtxK tbl k m c) = .ok () (tmapCtxK tbl k (mapFinK m et mems fin) c) := by
  intro mems
  induction mems with
  | nil => intro m et acc fin _ _; simp [memberEvents, run, mapFinK]
  | cons mem r ih =>
    intro m et acc fin hm hp
    obtain ⟨key, s⟩ := mem
    simp only [putAll] at hp
    cases hc : k.conv s with
    | none => simp [hc] at hp
    | some w =>
      simp only [hc] at hp
      rw [memberEvents, run_cons_ok _ _ _ _ _ (key_tmapCtxK f key tbl k m c),
        run_cons_ok _ _ _ _ _ (scalar_tmapValCtxK f tbl k m et acc key s w c hm hc),
        ih (.map et (mapSet acc key w)) et (mapSet acc key w) fin rfl hp]
      congr 2
      cases r with
      | nil => simp [putAll] at hp; simp [mapFinK, hp]
      | cons a r' => simp [mapFinK]

/-- a whole object of scalars into a `map[string]T` target -/
theorem run_object_into_mapK (f : Nat) (tbl : TypeTable) (k : PK) (v0 : GoVal) (et : GoType)
    (olds fin : List (Bytes × GoVal)) (c : Ctx) (l : Int) (bt : Nat) (mems : List (Bytes × Sc))
    (hv : mapParts v0 = some (et, olds)) (hidle : c.unfolder.stack = []) (hp : putAll k mems olds = some fin) :
    run (f + 1) (.objStart l bt :: memberEvents mems ++ [.objEnd]) (mapCtxK tbl k v0 c) =
      .ok () { c with target := mapFinK v0 et mems fin, env := tbl } := by
  rw [List.cons_append, run_cons_ok _ _ _ _ _ (objStart_mapK f l bt tbl k v0 c),
    run_ok_then _ _ _ _ _ (members_tmapCtxK f tbl k c mems v0 et olds fin hv hp), run_single,
    objEnd_tmapCtxK f tbl k _ c hidle]

end SF.Unf
