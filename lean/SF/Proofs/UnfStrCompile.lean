/-
  Targets with structs, part 14: COMPILING a type of the family (`lookupReflUnfolder`, `buildReflUnfolder`,
  `fieldUnfolders`: the field table with tag names, inlined structs flattened with their offsets, the
  registry of named types, the lazy placeholder for a type that is being built) yields an unfolder that is
  consistent with the type (`RUOk`), and a registry all of whose entries are.
-/
import SF.Proofs.UnfStrFamily
namespace SF.Unf.Str
open SF SF.Unf

variable {tbl : TypeTable} {ns : List String}

/-! ## the family is closed under looking through names -/

theorem ttsTbl_lookup (hT : ttsTbl tbl ns = true) {n : String} (hn : ns.contains n = true) :
    ∃ t, tbl n = some t ∧ tts tbl ns t = true := by
  unfold ttsTbl at hT
  rw [List.all_eq_true] at hT
  have := hT n (List.contains_iff_mem.mp hn)
  cases h : tbl n with
  | none => rw [h] at this; cases this
  | some t => rw [h] at this; exact ⟨t, rfl, this⟩

/-- the underlying type of a type of the family is in the family and no name (or the table's fuel is
exhausted: `other`) -/
theorem tts_under (hT : ttsTbl tbl ns = true) : ∀ (f : Nat) (t : GoType), tts tbl ns t = true →
    (∃ k, t.under tbl f = .other k) ∨ (tts tbl ns (t.under tbl f) = true ∧ (t.under tbl f).typeName? = none ∨
      ∃ n fs, t.under tbl f = .struct n fs ∧ tts tbl ns (.struct n fs) = true) := by
  intro f
  induction f with
  | zero => intro t _; exact Or.inl ⟨_, rfl⟩
  | succ f ih =>
    intro t ht
    cases t with
    | ref n =>
      simp only [tts] at ht
      obtain ⟨t', h1, h2⟩ := ttsTbl_lookup hT ht
      simp only [GoType.under, h1]
      exact ih t' h2
    | named n u =>
      simp only [tts, Bool.and_eq_true] at ht
      simp only [GoType.under]
      exact ih u ht.1.1
    | struct n fs => exact Or.inr (Or.inr ⟨n, fs, rfl, ht⟩)
    | bool => exact Or.inr (Or.inl ⟨ht, rfl⟩)
    | string => exact Or.inr (Or.inl ⟨ht, rfl⟩)
    | int k => exact Or.inr (Or.inl ⟨ht, rfl⟩)
    | float32 => exact Or.inr (Or.inl ⟨ht, rfl⟩)
    | float64 => exact Or.inr (Or.inl ⟨ht, rfl⟩)
    | ifc => exact Or.inr (Or.inl ⟨ht, rfl⟩)
    | slice e => exact Or.inr (Or.inl ⟨ht, rfl⟩)
    | map e => exact Or.inr (Or.inl ⟨ht, rfl⟩)
    | ptr e => exact Or.inr (Or.inl ⟨ht, rfl⟩)
    | array n e => simp [tts] at ht
    | imap e => simp [tts] at ht
    | other k => simp [tts] at ht

theorem tts_un (hT : ttsTbl tbl ns = true) (t : GoType) (ht : tts tbl ns t = true) :
    (∃ k, t.un tbl = .other k) ∨ tts tbl ns (t.un tbl) = true := by
  rcases tts_under hT resolveFuel t ht with h | ⟨h, _⟩ | ⟨n, fs, h1, h2⟩
  · exact Or.inl h
  · exact Or.inr h
  · exact Or.inr (by unfold GoType.un; rw [h1]; exact h2)

/-- a named type of the family: its name is one of `ns`, and means this type -/
theorem tts_named {t : GoType} {n : String} (ht : tts tbl ns t = true) (hn : t.typeName? = some n) :
    ns.contains n = true ∧ t.un tbl = (GoType.ref n).un tbl := by
  cases t with
  | ref m =>
    simp only [GoType.typeName?, Option.some.injEq] at hn
    subst hn
    exact ⟨by simpa [tts] using ht, rfl⟩
  | named m u =>
    simp only [GoType.typeName?, Option.some.injEq] at hn
    subst hn
    simp only [tts, Bool.and_eq_true] at ht
    exact ⟨ht.1.2, beqTy_eq _ _ ht.2⟩
  | struct m fs =>
    simp only [GoType.typeName?] at hn
    split at hn
    · cases hn
    · rename_i hne
      injection hn with hn
      subst hn
      simp only [tts, Bool.and_eq_true, Bool.or_eq_true] at ht
      rcases ht.2 with h | h
      · exact absurd h hne
      · exact ⟨h.1, beqTy_eq _ _ h.2⟩
  | _ => simp [GoType.typeName?] at hn

theorem elemOK_spec {e : GoType} (h : elemOK tbl e = true) : ZeroOK tbl e ∧ Pch tbl e chainMax := by
  unfold elemOK at h
  simp only [Bool.and_eq_true] at h
  exact ⟨hasTyB_sound tbl _ _ h.1, pchB_sound tbl _ _ h.2⟩

/-! ## the fast paths -/

theorem flat_of_ofExact {t : GoType} {k : PK} (h : PK.ofExact? (t.un tbl) = some k) : Flat tbl t := by
  unfold Flat
  cases hu : t.un tbl <;> rw [hu] at h <;> first | trivial | (simp [PK.ofExact?] at h)

variable {R : Reg} {D : Nat}

/-- `lookupGoPtrUnfolder` (by `Kind()`) -/
theorem lookupGoPtr_ok {t : GoType} {pu : PUK} (h : lookupGoPtrUnfolder tbl t = some pu) :
    RUOk tbl R D t (.lifted pu) := by
  unfold lookupGoPtrUnfolder at h
  split at h
  · rename_i e hu
    obtain ⟨k, hk, rfl⟩ := Option.map_eq_some_iff.mp h
    exact .arr _ e k hu (flat_of_ofExact hk)
  · rename_i e hu
    obtain ⟨k, hk, rfl⟩ := Option.map_eq_some_iff.mp h
    exact .map _ e k hu
  · rename_i u h1 h2
    obtain ⟨k, hk, rfl⟩ := Option.map_eq_some_iff.mp h
    exact .prim _ k (flat_of_ofExact hk)

theorem ofExact_un {e : GoType} {k : PK} (h : PK.ofExact? e = some k) : e.un tbl = e := by
  cases e <;> first | rfl | (simp [PK.ofExact?] at h)

/-- `lookupGoTypeUnfolder` (the type switch over the unnamed pointer types) -/
theorem lookupGoType_ok {t : GoType} {pu : PUK} (h : lookupGoTypeUnfolder t = some pu) :
    RUOk tbl R D t (.lifted pu) := by
  unfold lookupGoTypeUnfolder at h
  split at h
  · rename_i e
    obtain ⟨k, hk, rfl⟩ := Option.map_eq_some_iff.mp h
    exact .arr _ e k rfl (flat_of_ofExact (by rw [ofExact_un hk]; exact hk))
  · rename_i e
    obtain ⟨k, hk, rfl⟩ := Option.map_eq_some_iff.mp h
    exact .map _ e k rfl
  · obtain ⟨k, hk, rfl⟩ := Option.map_eq_some_iff.mp h
    exact .prim _ k (flat_of_ofExact (by rw [ofExact_un hk]; exact hk))

/-! ## the registry -/

/-- `r'` has every entry of `r` -/
def Ext (r r' : Reg) : Prop := ∀ n x, r.lookup n = some x → r'.lookup n = some x

theorem Ext.refl (r : Reg) : Ext r r := fun _ _ h => h
theorem Ext.trans {a b d : Reg} (h1 : Ext a b) (h2 : Ext b d) : Ext a d := fun n x h => h2 n x (h1 n x h)

theorem RUOk.mono {R R' : Reg} (hext : Ext R R') {t : GoType} {ru : RU} (h : RUOk tbl R D t ru) :
    RUOk tbl R' D t ru := by
  induction h with
  | prim t k hf => exact .prim t k hf
  | arr t e k h1 h2 => exact .arr t e k h1 h2
  | map t e k h1 => exact .map t e k h1
  | slice t e elem h1 h2 h3 _ ih => exact .slice t e elem h1 h2 h3 ih
  | rmap t e elem h1 h2 h3 _ ih => exact .rmap t e elem h1 h2 h3 ih
  | ptr t e elem h1 h2 h3 _ ih => exact .ptr t e elem h1 h2 h3 ih
  | struct t fields ft h1 _ ih => exact .struct t fields ft h1 ih
  | ref t n ru h1 h2 => exact .ref t n ru (hext n ru h1) h2

/-- the entries of `r` are real unfolders consistent with the types of their names (references to other
entries are read in `R`) -/
def EntriesOK (tbl : TypeTable) (D : Nat) (R r : Reg) : Prop :=
  ∀ n x, r.lookup n = some x → x.notRef ∧ RUOk tbl R D (.ref n) x

theorem EntriesOK.mono {R R' r : Reg} (hext : Ext R R') (h : EntriesOK tbl D R r) : EntriesOK tbl D R' r :=
  fun n x hl => ⟨(h n x hl).1, (h n x hl).2.mono hext⟩

theorem regOK_iff (R : Reg) : RegOK tbl R D ↔ EntriesOK tbl D R R := Iff.rfl

/-- names registered by a compilation are not among the types being built -/
def Fresh (o : List String) (r r' : Reg) : Prop := ∀ n, r.lookup n = none → r'.lookup n ≠ none → o.contains n = false

/-- the types being built are registered in the end -/
def OpenIn (o : List String) (R : Reg) : Prop := ∀ n, o.contains n = true → R.lookup n ≠ none

/-- what a compilation step that turns registry `reg` into `reg'` guarantees: in every final registry `R`
that extends `reg'` and has the types being built, `C R` holds and the entries of `reg'` are consistent -/
def Post (tbl : TypeTable) (D : Nat) (o : List String) (reg reg' : Reg) (C : Reg → Prop) : Prop :=
  Ext reg reg' ∧ Fresh o reg reg' ∧
  ∀ R, Ext reg' R → OpenIn o R → EntriesOK tbl D R reg → C R ∧ EntriesOK tbl D R reg'

theorem Post.same {o : List String} {reg : Reg} {C : Reg → Prop}
    (h : ∀ R, Ext reg R → OpenIn o R → EntriesOK tbl D R reg → C R) : Post tbl D o reg reg C :=
  ⟨Ext.refl _, fun n h1 h2 => absurd h1 h2, fun R h1 h2 h3 => ⟨h R h1 h2 h3, h3⟩⟩

theorem Post.trans {o : List String} {reg reg1 reg2 : Reg} {C1 C2 : Reg → Prop}
    (h1 : Post tbl D o reg reg1 C1) (h2 : Post tbl D o reg1 reg2 C2) :
    Post tbl D o reg reg2 (fun R => C1 R ∧ C2 R) := by
  obtain ⟨e1, f1, p1⟩ := h1
  obtain ⟨e2, f2, p2⟩ := h2
  refine ⟨e1.trans e2, ?_, ?_⟩
  · intro n hn hn2
    cases h : reg1.lookup n with
    | none => exact f2 n h hn2
    | some x => exact f1 n hn (by rw [h]; simp)
  · intro R hext hopen hent
    obtain ⟨c1, ent1⟩ := p1 R (e2.trans hext) hopen hent
    obtain ⟨c2, ent2⟩ := p2 R hext hopen ent1
    exact ⟨⟨c1, c2⟩, ent2⟩

theorem Post.imp {o : List String} {reg reg' : Reg} {C C' : Reg → Prop} (h : Post tbl D o reg reg' C)
    (hi : ∀ R, Ext reg' R → C R → C' R) : Post tbl D o reg reg' C' :=
  ⟨h.1, h.2.1, fun R h1 h2 h3 => ⟨hi R h1 (h.2.2 R h1 h2 h3).1, (h.2.2 R h1 h2 h3).2⟩⟩

/-! ## struct unfolders -/

theorem TyAt.functional {t a b : GoType} {r : List Step} (h1 : TyAt tbl t r a) : TyAt tbl t r b → a = b := by
  induction h1 with
  | nil t => intro h2; cases h2; rfl
  | index t e i r t' hu _ ih =>
    intro h2
    cases h2 with
    | index _ e' _ _ _ hu' h' => rw [hu] at hu'; injection hu' with hu'; subst hu'; exact ih h'
  | field t n fs i f r t' hu hf _ ih =>
    intro h2
    cases h2 with
    | field _ n' fs' _ f' _ _ hu' hf' h' =>
      rw [hu] at hu'
      injection hu' with h1 h2
      subst h1; subst h2
      rw [hf] at hf'
      injection hf' with hf'
      subst hf'
      exact ih h'

/-- a field table each of whose entries is consistent with the type at its offset -/
theorem RUOk.struct' (t : GoType) (fields : Fields)
    (h : ∀ (key : Bytes) (off : List Nat) (ru : RU), (key, off, ru) ∈ fields →
      off ≠ [] ∧ ∃ tf, TyAt tbl t (off.map Step.field) tf ∧ RUOk tbl R D tf ru) :
    RUOk tbl R D t (.struct fields) := by
  classical
  refine .struct t fields
    (fun off => if hx : ∃ tf, TyAt tbl t (off.map Step.field) tf then Classical.choose hx else t) ?_ ?_
  · intro key off ru hm
    obtain ⟨h1, tf, h2, _⟩ := h key off ru hm
    have hx : ∃ tf, TyAt tbl t (off.map Step.field) tf := ⟨tf, h2⟩
    refine ⟨h1, ?_⟩
    simp only [hx, dif_pos]
    exact Classical.choose_spec hx
  · intro key off ru hm
    obtain ⟨h1, tf, h2, h3⟩ := h key off ru hm
    have hx : ∃ tf, TyAt tbl t (off.map Step.field) tf := ⟨tf, h2⟩
    simp only [hx, dif_pos]
    rw [← TyAt.functional h2 (Classical.choose_spec hx)]
    exact h3

/-- the new entries of a field table: the field at index `i + j`, or — for an inlined struct — a field
inside it, with an unfolder consistent with the type found there -/
def NewFields (tbl : TypeTable) (D : Nat) (fs : List (String × String × GoType)) (i : Nat) (acc res : Fields)
    (R : Reg) : Prop :=
  ∃ new, res = acc ++ new ∧ ∀ (key : Bytes) (off : List Nat) (ru : RU), (key, off, ru) ∈ new →
    ∃ j f r tf, off = (i + j) :: r ∧ fs[j]? = some f ∧ TyAt tbl f.2.2 (r.map Step.field) tf ∧ RUOk tbl R D tf ru

theorem ttsFs_mem {fs : List (String × String × GoType)} (h : ttsFs tbl ns fs = true) :
    ∀ f ∈ fs, tts tbl ns f.2.2 = true := by
  induction fs with
  | nil => intro f hf; cases hf
  | cons g fs ih =>
    simp only [ttsFs, Bool.and_eq_true] at h
    intro f hf
    rcases List.mem_cons.mp hf with rfl | hf
    · exact h.1
    · exact ih h.2 f hf

theorem build_other (f : Nat) (o : List String) (reg : Reg) (k : String) (x : RU × Reg) :
    buildReflUnfolder tbl f o reg (.other k) ≠ .ok x := by
  cases f <;> simp [buildReflUnfolder]

theorem lookup_cons_self (n : String) (x : RU) (r : Reg) : ((n, x) :: r).lookup n = some x := by
  simp [List.lookup]

theorem lookup_cons_ne (n m : String) (x : RU) (r : Reg) (h : m ≠ n) : ((n, x) :: r).lookup m = r.lookup m := by
  have : (m == n) = false := by simp [h]
  simp [List.lookup, this]

theorem mapOK (x : Except Err (RU × Reg)) (g : RU → RU) (ru : RU) (reg' : Reg)
    (h : (x.map fun (p : RU × Reg) => (g p.1, p.2)) = .ok (ru, reg')) : ∃ ru0, x = .ok (ru0, reg') ∧ ru = g ru0 := by
  cases x with
  | error e => cases h
  | ok p =>
    obtain ⟨ru0, r0⟩ := p
    simp only [Except.map] at h
    injection h with h
    injection h with h1 h2
    subst h2
    exact ⟨ru0, rfl, h1.symm⟩

/-- `makeFieldUnfolder` and the rest of the loop, for a field that is not inlined, with its key -/
def nonSquash (tbl : TypeTable) (fuel : Nat) (o : List String) (reg : Reg) (rest : List (String × String × GoType))
    (i : Nat) (acc : Fields) (kn : Bytes) (t : GoType) : Except Err (Fields × Reg) :=
  if acc.any (·.1 == kn) then .error .duplicateField else
  match lookupGoPtrUnfolder tbl t with
  | some pu => fieldUnfolders tbl fuel o reg rest (i + 1) (acc ++ [(kn, [i], .lifted pu)])
  | none =>
    match lookupReflUnfolder tbl fuel o reg t with
    | .error e => .error e
    | .ok (ru, reg') => fieldUnfolders tbl fuel o reg' rest (i + 1) (acc ++ [(kn, [i], ru)])

theorem fieldUnfolders_cons (tbl : TypeTable) (fuel : Nat) (o : List String) (reg : Reg) (name tag : String) (t : GoType)
    (rest : List (String × String × GoType)) (i : Nat) (acc : Fields) :
    fieldUnfolders tbl (fuel + 1) o reg ((name, tag, t) :: rest) i acc =
      if !startsUpper name then fieldUnfolders tbl fuel o reg rest (i + 1) acc else
      if (parseTags tag).2.omitF then fieldUnfolders tbl fuel o reg rest (i + 1) acc else
      if (parseTags tag).2.squash then
        match t.un tbl with
        | .struct _ sfs =>
          match fieldUnfolders tbl fuel o reg sfs 0 [] with
          | .error e => .error e
          | .ok (sub, reg') =>
            if sub.any fun (n, _, _) => acc.any (·.1 == n) then .error .duplicateField else
            fieldUnfolders tbl fuel o reg' rest (i + 1) (acc ++ sub.map fun (n, off, ru) => (n, i :: off, ru))
        | _ => .error .squashNeedObject
      else
        nonSquash tbl fuel o reg rest i acc
          (strBytes (if (parseTags tag).1 != "" then (parseTags tag).1 else toLowerAscii name)) t := by
  rw [fieldUnfolders]
  generalize parseTags tag = pt
  obtain ⟨a, b⟩ := pt
  rfl

/-! ## the three mutually recursive compilation functions -/

def PL (tbl : TypeTable) (ns : List String) (n : Nat) : Prop :=
  ∀ o reg t ru reg', tts tbl ns t = true → lookupReflUnfolder tbl n o reg t = .ok (ru, reg') →
    Post tbl chainMax o reg reg' (fun R => RUOk tbl R chainMax t ru)

def PB (tbl : TypeTable) (ns : List String) (n : Nat) : Prop :=
  ∀ o reg t ru reg', tts tbl ns t = true → buildReflUnfolder tbl n o reg t = .ok (ru, reg') →
    Post tbl chainMax o reg reg' (fun R => RUOk tbl R chainMax t ru) ∧ ru.notRef

def PF (tbl : TypeTable) (ns : List String) (n : Nat) : Prop :=
  ∀ o reg fs i acc res reg', ttsFs tbl ns fs = true → fieldUnfolders tbl n o reg fs i acc = .ok (res, reg') →
    Post tbl chainMax o reg reg' (NewFields tbl chainMax fs i acc res)

theorem newFields_shift {f0 : String × String × GoType} {rest : List (String × String × GoType)} {i : Nat}
    {acc res : Fields} {R : Reg} (h : NewFields tbl chainMax rest (i + 1) acc res R) :
    NewFields tbl chainMax (f0 :: rest) i acc res R := by
  obtain ⟨new, h1, h2⟩ := h
  refine ⟨new, h1, ?_⟩
  intro key off ru hm
  obtain ⟨j, f, r, tf, e1, e2, e3, e4⟩ := h2 key off ru hm
  exact ⟨j + 1, f, r, tf, by rw [e1]; congr 1; omega, by simpa using e2, e3, e4⟩

theorem newFields_acc {f0 : String × String × GoType} {rest : List (String × String × GoType)} {i : Nat}
    {acc mid res : Fields} {R : Reg}
    (hmid : ∀ (key : Bytes) (off : List Nat) (ru : RU), (key, off, ru) ∈ mid →
      ∃ r tf, off = i :: r ∧ TyAt tbl f0.2.2 (r.map Step.field) tf ∧ RUOk tbl R chainMax tf ru)
    (h : NewFields tbl chainMax rest (i + 1) (acc ++ mid) res R) :
    NewFields tbl chainMax (f0 :: rest) i acc res R := by
  obtain ⟨new, h1, h2⟩ := h
  refine ⟨mid ++ new, by rw [h1, List.append_assoc], ?_⟩
  intro key off ru hm
  rcases List.mem_append.mp hm with hm | hm
  · obtain ⟨r, tf, e1, e3, e4⟩ := hmid key off ru hm
    exact ⟨0, f0, r, tf, by rw [e1]; rfl, rfl, e3, e4⟩
  · obtain ⟨j, f, r, tf, e1, e2, e3, e4⟩ := h2 key off ru hm
    exact ⟨j + 1, f, r, tf, by rw [e1]; congr 1; omega, by simpa using e2, e3, e4⟩

theorem compile_ok (hT : ttsTbl tbl ns = true) : ∀ n : Nat, PL tbl ns n ∧ PB tbl ns n ∧ PF tbl ns n := by
  intro n
  induction n with
  | zero =>
    refine ⟨?_, ?_, ?_⟩
    · intro o r t ru r' _ h; simp [lookupReflUnfolder] at h
    · intro o r t ru r' _ h; simp [buildReflUnfolder] at h
    · intro o r fs i acc res r' _ h; simp [fieldUnfolders] at h
  | succ n ih =>
    obtain ⟨ihL, ihB, ihF⟩ := ih
    refine ⟨?_, ?_, ?_⟩
    · -- lookupReflUnfolder
      intro o reg t ru reg' htt h
      rw [lookupReflUnfolder] at h
      cases hn : t.typeName? with
      | none => rw [hn] at h; exact (ihB o reg t ru reg' htt h).1
      | some m =>
        rw [hn] at h
        simp only at h
        obtain ⟨hns, hname⟩ := tts_named htt hn
        by_cases ho : o.contains m = true
        · simp only [ho, if_true] at h
          injection h with h
          injection h with h1 h2
          subst h1; subst h2
          refine Post.same ?_
          intro R _ hopen _
          cases hl : R.lookup m with
          | none => exact absurd hl (hopen m ho)
          | some x => exact .ref t m x hl hname
        · simp only [ho, Bool.false_eq_true, if_false] at h
          cases hl : reg.lookup m with
          | some ru0 =>
            rw [hl] at h
            injection h with h
            injection h with h1 h2
            subst h1; subst h2
            refine Post.same ?_
            intro R hext _ hent
            exact ((hent m _ hl).2).congr hname.symm
          | none =>
            rw [hl] at h
            simp only at h
            cases hb : buildReflUnfolder tbl n (m :: o) reg (t.un tbl) with
            | error e => rw [hb] at h; cases h
            | ok p =>
              obtain ⟨ru1, reg1⟩ := p
              rw [hb] at h
              simp only at h
              injection h with h
              injection h with h1 h2
              subst h1; subst h2
              rcases tts_un hT t htt with ⟨k, hk⟩ | htu
              · rw [hk] at hb; exact absurd hb (build_other _ _ _ _ _)
              · obtain ⟨⟨hext1, hfresh1, hp1⟩, hnr⟩ := ihB (m :: o) reg (t.un tbl) ru1 reg1 htu hb
                have hreg1m : reg1.lookup m = none := by
                  cases h1 : reg1.lookup m with
                  | none => rfl
                  | some x =>
                    have := hfresh1 m hl (by rw [h1]; simp)
                    simp at this
                refine ⟨?_, ?_, ?_⟩
                · intro k x hk
                  have hkm : k ≠ m := by intro h; subst h; rw [hl] at hk; cases hk
                  rw [lookup_cons_ne _ _ _ _ hkm]
                  exact hext1 k x hk
                · intro k hk hk2
                  by_cases hkm : k = m
                  · subst hkm; simpa using ho
                  · rw [lookup_cons_ne _ _ _ _ hkm] at hk2
                    have := hfresh1 k hk hk2
                    simp only [List.contains_cons, Bool.or_eq_false_iff] at this
                    exact this.2
                · intro R hext hopen hent
                  have hRm : R.lookup m = some ru1 := hext m ru1 (lookup_cons_self _ _ _)
                  have hext' : Ext reg1 R := by
                    intro k x hk
                    have hkm : k ≠ m := by intro h; subst h; rw [hreg1m] at hk; cases hk
                    exact hext k x (by rw [lookup_cons_ne _ _ _ _ hkm]; exact hk)
                  have hopen' : OpenIn (m :: o) R := by
                    intro k hk
                    simp only [List.contains_cons, Bool.or_eq_true, beq_iff_eq] at hk
                    rcases hk with rfl | hk
                    · rw [hRm]; simp
                    · exact hopen k hk
                  obtain ⟨hok, hent1⟩ := hp1 R hext' hopen' hent
                  have hokt : RUOk tbl R chainMax t ru1 := hok.congr (un_un tbl t)
                  refine ⟨hokt, ?_⟩
                  intro k x hk
                  by_cases hkm : k = m
                  · subst hkm
                    rw [lookup_cons_self] at hk
                    injection hk with hk
                    subst hk
                    exact ⟨hnr, hokt.congr hname⟩
                  · rw [lookup_cons_ne _ _ _ _ hkm] at hk
                    exact hent1 k x hk
    · -- buildReflUnfolder
      intro o reg t ru reg' htt h
      have primCase : ∀ k : PK, Flat tbl t → ru = .lifted (.prim k) → reg' = reg →
          Post tbl chainMax o reg reg' (fun R => RUOk tbl R chainMax t ru) ∧ ru.notRef := by
        intro k hf h1 h2
        subst h1; subst h2
        exact ⟨Post.same (fun R _ _ _ => .prim t k hf), trivial⟩
      have elemCase : ∀ (e : GoType) (g : RU → RU), tts tbl ns e = true →
          (lookupReflUnfolder tbl n o reg e).map (fun (p : RU × Reg) => (g p.1, p.2)) = .ok (ru, reg') →
          (∀ R ru0, RUOk tbl R chainMax e ru0 → RUOk tbl R chainMax t (g ru0)) → (∀ ru0, (g ru0).notRef) →
          Post tbl chainMax o reg reg' (fun R => RUOk tbl R chainMax t ru) ∧ ru.notRef := by
        intro e g hte hx hg hnr
        obtain ⟨ru0, hx', hru⟩ := mapOK _ g ru reg' hx
        rw [hru]
        exact ⟨(ihL o reg e ru0 reg' hte hx').imp (fun R _ h => hg R ru0 h), hnr ru0⟩
      cases t with
      | bool => simp [buildReflUnfolder, PK.ofExact?] at h; exact primCase _ (by simp [Flat, GoType.un, GoType.under, resolveFuel]) h.1.symm h.2.symm
      | string => simp [buildReflUnfolder, PK.ofExact?] at h; exact primCase _ (by simp [Flat, GoType.un, GoType.under, resolveFuel]) h.1.symm h.2.symm
      | int k => simp [buildReflUnfolder, PK.ofExact?] at h; exact primCase _ (by simp [Flat, GoType.un, GoType.under, resolveFuel]) h.1.symm h.2.symm
      | float32 => simp [buildReflUnfolder, PK.ofExact?] at h; exact primCase _ (by simp [Flat, GoType.un, GoType.under, resolveFuel]) h.1.symm h.2.symm
      | float64 => simp [buildReflUnfolder, PK.ofExact?] at h; exact primCase _ (by simp [Flat, GoType.un, GoType.under, resolveFuel]) h.1.symm h.2.symm
      | ifc => simp [buildReflUnfolder, PK.ofExact?] at h; exact primCase _ (by simp [Flat, GoType.un, GoType.under, resolveFuel]) h.1.symm h.2.symm
      | array k e => simp [tts] at htt
      | imap e => simp [tts] at htt
      | other k => simp [tts] at htt
      | named m u => simp [buildReflUnfolder] at h
      | ref m => simp [buildReflUnfolder] at h
      | ptr e =>
        simp only [tts, Bool.and_eq_true] at htt
        obtain ⟨hz, hp⟩ := elemOK_spec htt.2
        rw [buildReflUnfolder] at h
        exact elemCase e (fun ru => .ptr e ru) htt.1 h (fun R ru0 h0 => .ptr _ e ru0 rfl hz hp h0) (fun _ => trivial)
      | slice e =>
        simp only [tts, Bool.and_eq_true] at htt
        obtain ⟨hz, hp⟩ := elemOK_spec htt.2
        rw [buildReflUnfolder] at h
        cases hk : PK.ofType? tbl e with
        | some k =>
          simp only [hk] at h
          injection h with h
          injection h with h1 h2
          subst h1; subst h2
          exact ⟨Post.same (fun R _ _ _ => .arr _ e k rfl (flat_of_ofExact hk)), trivial⟩
        | none =>
          simp only [hk] at h
          exact elemCase e (fun ru => .slice e ru) htt.1 h (fun R ru0 h0 => .slice _ e ru0 rfl hz hp h0) (fun _ => trivial)
      | map e =>
        simp only [tts, Bool.and_eq_true] at htt
        obtain ⟨hz, hp⟩ := elemOK_spec htt.2
        rw [buildReflUnfolder] at h
        cases hk : PK.ofType? tbl e with
        | some k =>
          simp only [hk] at h
          injection h with h
          injection h with h1 h2
          subst h1; subst h2
          exact ⟨Post.same (fun R _ _ _ => .map _ e k rfl), trivial⟩
        | none =>
          simp only [hk] at h
          exact elemCase e (fun ru => .map e ru) htt.1 h (fun R ru0 h0 => .rmap _ e ru0 rfl hz hp h0) (fun _ => trivial)
      | struct m fs =>
        simp only [tts, Bool.and_eq_true] at htt
        rw [buildReflUnfolder] at h
        cases hx : fieldUnfolders tbl n o reg fs 0 [] with
        | error e => rw [hx] at h; cases h
        | ok p =>
          obtain ⟨fields, r1⟩ := p
          rw [hx] at h
          simp only [Except.map] at h
          injection h with h
          injection h with h1 h2
          subst h1; subst h2
          refine ⟨(ihF o reg fs 0 [] _ _ htt.1 hx).imp ?_, trivial⟩
          intro R _ hnew
          obtain ⟨new, h1, h2⟩ := hnew
          simp only [List.nil_append] at h1
          subst h1
          refine RUOk.struct' _ _ ?_
          intro key off ru hm
          obtain ⟨j, f, r, tf, e1, e2, e3, e4⟩ := h2 key off ru hm
          refine ⟨by rw [e1]; simp, tf, ?_, e4⟩
          rw [e1]
          simp only [Nat.zero_add, List.map_cons]
          exact .field _ m fs j f _ tf rfl e2 e3
    · -- fieldUnfolders
      intro o reg fs i acc res reg' htt h
      cases fs with
      | nil =>
        simp only [fieldUnfolders] at h
        injection h with h
        injection h with h1 h2
        subst h1; subst h2
        exact Post.same (fun R _ _ _ => ⟨[], by simp, fun key off ru hm => by cases hm⟩)
      | cons f0 rest =>
        obtain ⟨name, tag, t⟩ := f0
        simp only [ttsFs, Bool.and_eq_true] at htt
        obtain ⟨ht, hrest⟩ := htt
        have skip : fieldUnfolders tbl n o reg rest (i + 1) acc = .ok (res, reg') →
            Post tbl chainMax o reg reg' (NewFields tbl chainMax ((name, tag, t) :: rest) i acc res) := by
          intro h'
          exact (ihF o reg rest (i + 1) acc res reg' hrest h').imp (fun R _ h => newFields_shift h)
        have nsq : ∀ kn : Bytes, nonSquash tbl n o reg rest i acc kn t = .ok (res, reg') →
            Post tbl chainMax o reg reg' (NewFields tbl chainMax ((name, tag, t) :: rest) i acc res) := by
          intro kn h
          unfold nonSquash at h
          split at h
          · cases h
          · split at h
            · rename_i pu hpu
              have p2 := ihF o reg rest (i + 1) _ res reg' hrest h
              refine p2.imp ?_
              intro R _ hnew2
              refine newFields_acc (f0 := (name, tag, t)) ?_ hnew2
              intro key off ru hm
              simp only [List.mem_singleton, Prod.mk.injEq] at hm
              obtain ⟨_, rfl, rfl⟩ := hm
              exact ⟨[], t, rfl, .nil _, lookupGoPtr_ok hpu⟩
            · split at h
              · cases h
              · rename_i ru1 reg1 hl1
                have p1 := ihL o reg t ru1 reg1 ht hl1
                have p2 := ihF o reg1 rest (i + 1) _ res reg' hrest h
                refine (p1.trans p2).imp ?_
                intro R _ hc
                obtain ⟨hok1, hnew2⟩ := hc
                refine newFields_acc (f0 := (name, tag, t)) ?_ hnew2
                intro key off ru hm
                simp only [List.mem_singleton, Prod.mk.injEq] at hm
                obtain ⟨_, rfl, rfl⟩ := hm
                exact ⟨[], t, rfl, .nil _, hok1⟩
        rw [fieldUnfolders_cons] at h
        split at h
        · exact skip h
        · split at h
          · exact skip h
          · split at h
            · -- squash / inline
              split at h
              · rename_i sname sfs hun
                have hsfs : ttsFs tbl ns sfs = true := by
                  rcases tts_un hT t ht with ⟨k, hk⟩ | htu
                  · rw [hk] at hun; cases hun
                  · rw [hun] at htu
                    simp only [tts, Bool.and_eq_true] at htu
                    exact htu.1
                split at h
                · cases h
                · rename_i sub reg1 hsub
                  split at h
                  · cases h
                  · have p1 := ihF o reg sfs 0 [] sub reg1 hsfs hsub
                    have p2 := ihF o reg1 rest (i + 1) _ res reg' hrest h
                    refine (p1.trans p2).imp ?_
                    intro R _ hc
                    obtain ⟨⟨new1, h11, h12⟩, hnew2⟩ := hc
                    simp only [List.nil_append] at h11
                    subst h11
                    refine newFields_acc (f0 := (name, tag, t)) ?_ hnew2
                    intro key off ru hm
                    obtain ⟨⟨key1, off1, ru1⟩, hm1, heq⟩ := List.mem_map.mp hm
                    simp only [Prod.mk.injEq] at heq
                    obtain ⟨rfl, rfl, rfl⟩ := heq
                    obtain ⟨j, f, r, tf, e1, e2, e3, e4⟩ := h12 key1 off1 ru1 hm1
                    refine ⟨off1, tf, rfl, ?_, e4⟩
                    rw [e1]
                    simp only [Nat.zero_add, List.map_cons]
                    exact .field _ sname sfs j f _ tf hun e2 e3
              · cases h
            · exact nsq _ h

end SF.Unf.Str
