/-
  WHICH streams make an `interface{}` target panic: exactly those in which a container START
  that is reached announces an element type code that is none of the 17 BaseTypes
  (`makeArrayPtr` / `makeMapPtr`: panic("invalid type code")).
-/
import SF.Proofs.UnfGenDeliver
namespace SF.Unf
open SF

mutual
/-- well-formed AS FAR AS IT IS LOOKED AT: like `wf`, but a container may announce an invalid
element type code (17 … 255); its content is then arbitrary -/
def UTree.wfX : UTree → Bool
  | .scalar s => s.inRange
  | .strRef _ => true
  | .arr l bt xs =>
    if bt ≤ 16 then decide (l ≤ (xs.length : Int)) && wfXList bt xs else decide (17 ≤ bt % 256)
  | .obj _ bt ms =>
    if bt ≤ 16 then wfXMems bt ms else decide (17 ≤ bt % 256)
def wfXList (bt : Nat) : List UTree → Bool
  | [] => true
  | x :: r => (if isAnyBT bt then x.wfX else x.fits bt) && wfXList bt r
def wfXMems (bt : Nat) : List (Bool × Bytes × UTree) → Bool
  | [] => true
  | (_, _, x) :: r => (if isAnyBT bt then x.wfX else x.fits bt) && wfXMems bt r
end

mutual
/-- an invalid element type code is reached (typed containers hold scalars only) -/
def UTree.bad : UTree → Bool
  | .scalar _ => false
  | .strRef _ => false
  | .arr _ bt xs => if bt ≤ 16 then isAnyBT bt && badList xs else true
  | .obj _ bt ms => if bt ≤ 16 then isAnyBT bt && badMems ms else true
def badList : List UTree → Bool
  | [] => false
  | x :: r => x.bad || badList r
def badMems : List (Bool × Bytes × UTree) → Bool
  | [] => false
  | (_, _, x) :: r => x.bad || badMems r
end

mutual
/-- no invalid code reached: the tree is well-formed -/
theorem wf_of_wfX (t : UTree) (h : t.wfX = true) (hb : t.bad = false) : t.wf = true := by
  match t with
  | .scalar s => simpa [UTree.wfX, UTree.wf] using h
  | .strRef s => rfl
  | .arr l bt xs =>
    by_cases hbt : bt ≤ 16
    · simp only [UTree.wfX, hbt, if_true, Bool.and_eq_true, decide_eq_true_eq] at h
      simp only [UTree.bad, hbt, if_true] at hb
      simp only [UTree.wf, Bool.and_eq_true, decide_eq_true_eq]
      exact ⟨⟨h.1, hbt⟩, wfList_of_wfX bt xs h.2 (by
        intro ha; simpa [ha] using hb)⟩
    · simp [UTree.bad, hbt] at hb
  | .obj l bt ms =>
    by_cases hbt : bt ≤ 16
    · simp only [UTree.wfX, hbt, if_true] at h
      simp only [UTree.bad, hbt, if_true] at hb
      simp only [UTree.wf, Bool.and_eq_true, decide_eq_true_eq]
      exact ⟨hbt, wfMems_of_wfX bt ms h (by
        intro ha; simpa [ha] using hb)⟩
    · simp [UTree.bad, hbt] at hb
theorem wfList_of_wfX (bt : Nat) (xs : List UTree) (h : wfXList bt xs = true)
    (hb : isAnyBT bt = true → badList xs = false) : wfList bt xs = true := by
  match xs with
  | [] => rfl
  | x :: r =>
    rw [wfXList, Bool.and_eq_true] at h
    rw [wfList, Bool.and_eq_true]
    by_cases ha : isAnyBT bt = true
    · have hb' := hb ha
      simp only [badList, Bool.or_eq_false_iff] at hb'
      rw [if_pos ha] at h ⊢
      exact ⟨wf_of_wfX x h.1 hb'.1, wfList_of_wfX bt r h.2 (fun _ => hb'.2)⟩
    · rw [if_neg ha] at h ⊢
      exact ⟨h.1, wfList_of_wfX bt r h.2 (fun ha' => absurd ha' ha)⟩
theorem wfMems_of_wfX (bt : Nat) (ms : List (Bool × Bytes × UTree)) (h : wfXMems bt ms = true)
    (hb : isAnyBT bt = true → badMems ms = false) : wfMems bt ms = true := by
  match ms with
  | [] => rfl
  | (b, k, x) :: r =>
    rw [wfXMems, Bool.and_eq_true] at h
    rw [wfMems, Bool.and_eq_true]
    by_cases ha : isAnyBT bt = true
    · have hb' := hb ha
      simp only [badMems, Bool.or_eq_false_iff] at hb'
      rw [if_pos ha] at h ⊢
      exact ⟨wf_of_wfX x h.1 hb'.1, wfMems_of_wfX bt r h.2 (fun _ => hb'.2)⟩
    · rw [if_neg ha] at h ⊢
      exact ⟨h.1, wfMems_of_wfX bt r h.2 (fun ha' => absurd ha' ha)⟩
end

theorem run_panic_append (fuel : Nat) (a b : List UEv) (c c' : Ctx) (h : run fuel a c = .panic c') :
    run fuel (a ++ b) c = .panic c' := by
  rw [run_append, h]

/-- one well-formed element of a generic sub-array -/
theorem elem_step (f : Nat) (x : UTree) (c : Ctx) (bt : Nat) (l : Int) (vs : List GoVal)
    (hbt : bt ≤ 16) (ha : isAnyBT bt = true) (hx : x.wf = true) (hkc : Symbols.Inv c.keyCache) :
    ∃ kc', KCOk c.keyCache kc' ∧
      run (f + 1) x.events (arrCtx c (kindOf bt) bt l vs) =
        .ok () (arrCtx (setKC c kc') (kindOf bt) bt l (vs ++ [x.gen])) := by
  have hw : wfList bt [x] = true := by simp [wfList, ha, hx]
  obtain ⟨kc', hok, hrun⟩ := list_generic f [x] c bt l vs hbt hw hkc
  refine ⟨kc', hok, ?_⟩
  simpa [eventsList, genList, kindOf_ifc_of_any bt hbt ha] using hrun

/-- one well-formed member of a generic sub-object -/
theorem member_step (f : Nat) (b : Bool) (key : Bytes) (x : UTree) (c : Ctx) (bt : Nat)
    (acc : List (Bytes × GoVal))
    (hbt : bt ≤ 16) (ha : isAnyBT bt = true) (hx : x.wf = true) (hkc : Symbols.Inv c.keyCache) :
    ∃ kc', KCOk c.keyCache kc' ∧
      run (f + 1) ((if b then UEv.keyRef key else UEv.key key) :: x.events) (mapCtx c (kindOf bt) bt acc) =
        .ok () (mapCtx (setKC c kc') (kindOf bt) bt (mapSet acc key x.gen)) := by
  have hw : wfMems bt [(b, key, x)] = true := by simp [wfMems, ha, hx]
  obtain ⟨kc', hok, hrun⟩ := mems_generic f [(b, key, x)] c bt acc hbt hw hkc
  refine ⟨kc', hok, ?_⟩
  simpa [eventsMems, genMems, kindOf_ifc_of_any bt hbt ha] using hrun

theorem key_step (f : Nat) (b : Bool) (key : Bytes) (c : Ctx) (k : PK) (bt : Nat) (acc : List (Bytes × GoVal))
    (hkc : Symbols.Inv c.keyCache) :
    ∃ kc0, KCOk c.keyCache kc0 ∧
      stepEv (f + 1) (if b then UEv.keyRef key else UEv.key key) (mapCtx c k bt acc) =
        .ok () (mapValCtx (setKC c kc0) k bt acc key) := by
  cases b with
  | false =>
    refine ⟨c.keyCache, KCOk.refl hkc, ?_⟩
    simp only [Bool.false_eq_true, if_false, stepEv, setKC_self]
    exact onKey_mapCtx c _ bt acc key
  | true =>
    obtain ⟨kc0, hg, hok0⟩ := kc_get c.keyCache key hkc
    refine ⟨kc0, hok0, ?_⟩
    simp only [if_true, stepEv]
    exact onKeyRef_mapCtx c _ bt acc key kc0 hg

theorem run_cons_panic (fuel : Nat) (e : UEv) (es : List UEv) (c c' : Ctx) (h : stepEv fuel e c = .panic c') :
    run fuel (e :: es) c = .panic c' := by
  rw [run, h]

mutual
/-- a stream that reaches an invalid element type code panics, in any generic position -/
theorem tree_panics (f : Nat) (t : UTree) (c : Ctx) (hX : t.wfX = true) (hb : t.bad = true)
    (hu : isSink c.unfolder.current) (hkc : Symbols.Inv c.keyCache) :
    ∃ c', run (f + 1) t.events c = .panic c' := by
  match t with
  | .scalar s => simp [UTree.bad] at hb
  | .strRef s => simp [UTree.bad] at hb
  | .arr l bt xs =>
    by_cases hbt : bt ≤ 16
    · simp only [UTree.wfX, hbt, if_true, Bool.and_eq_true, decide_eq_true_eq] at hX
      simp only [UTree.bad, hbt, if_true, Bool.and_eq_true] at hb
      have h1 : stepEv (f + 1) (.arrStart l bt) c = .ok () (arrCtx c (kindOf bt) bt l []) := by
        simp only [stepEv, mod256 bt hbt]
        exact arrStart_sink f l bt _ c hu (btKind_of_le bt hbt)
      obtain ⟨c', hp⟩ := list_panics f xs c bt l [] hbt hb.1 hX.2 hb.2 hkc
      exact ⟨c', by rw [UTree.events, List.cons_append, run_cons_ok _ _ _ _ _ h1, run_panic_append _ _ _ _ _ hp]⟩
    · simp only [UTree.wfX, hbt, if_false, decide_eq_true_eq] at hX
      refine ⟨c, ?_⟩
      rw [UTree.events, List.cons_append]
      exact run_cons_panic _ _ _ _ _ (arrStart_invalid f l _ c hu ((btKind_none_iff _).mpr hX))
  | .obj l bt ms =>
    by_cases hbt : bt ≤ 16
    · simp only [UTree.wfX, hbt, if_true] at hX
      simp only [UTree.bad, hbt, if_true, Bool.and_eq_true] at hb
      have h1 : stepEv (f + 1) (.objStart l bt) c = .ok () (mapCtx c (kindOf bt) bt []) := by
        simp only [stepEv, mod256 bt hbt]
        exact objStart_sink f l bt _ c hu (btKind_of_le bt hbt)
      obtain ⟨c', hp⟩ := mems_panics f ms c bt [] hbt hb.1 hX hb.2 hkc
      exact ⟨c', by rw [UTree.events, List.cons_append, run_cons_ok _ _ _ _ _ h1, run_panic_append _ _ _ _ _ hp]⟩
    · simp only [UTree.wfX, hbt, if_false, decide_eq_true_eq] at hX
      refine ⟨c, ?_⟩
      rw [UTree.events, List.cons_append]
      exact run_cons_panic _ _ _ _ _ (objStart_invalid f l _ c hu ((btKind_none_iff _).mpr hX))
theorem list_panics (f : Nat) (xs : List UTree) (c : Ctx) (bt : Nat) (l : Int) (vs : List GoVal)
    (hbt : bt ≤ 16) (ha : isAnyBT bt = true) (hX : wfXList bt xs = true) (hb : badList xs = true)
    (hkc : Symbols.Inv c.keyCache) :
    ∃ c', run (f + 1) (eventsList xs) (arrCtx c (kindOf bt) bt l vs) = .panic c' := by
  match xs with
  | [] => simp [badList] at hb
  | x :: r =>
    rw [wfXList, Bool.and_eq_true, if_pos ha] at hX
    have hki := kindOf_ifc_of_any bt hbt ha
    by_cases hxb : x.bad = true
    · obtain ⟨c', hp⟩ := tree_panics f x (arrCtx c (kindOf bt) bt l vs) hX.1 hxb
        (Or.inr (Or.inl (by rw [hki]; rfl))) hkc
      exact ⟨c', by rw [eventsList, run_panic_append _ _ _ _ _ hp]⟩
    · have hxb' : x.bad = false := by simpa using hxb
      have hbr : badList r = true := by simpa [badList, hxb'] using hb
      obtain ⟨kc1, hok1, hstep⟩ := elem_step f x c bt l vs hbt ha (wf_of_wfX x hX.1 hxb') hkc
      obtain ⟨c', hp⟩ := list_panics f r (setKC c kc1) bt l (vs ++ [x.gen]) hbt ha hX.2 hbr hok1.1
      exact ⟨c', by rw [eventsList, run_ok_then _ _ _ _ _ hstep, hp]⟩
theorem mems_panics (f : Nat) (ms : List (Bool × Bytes × UTree)) (c : Ctx) (bt : Nat) (acc : List (Bytes × GoVal))
    (hbt : bt ≤ 16) (ha : isAnyBT bt = true) (hX : wfXMems bt ms = true) (hb : badMems ms = true)
    (hkc : Symbols.Inv c.keyCache) :
    ∃ c', run (f + 1) (eventsMems ms) (mapCtx c (kindOf bt) bt acc) = .panic c' := by
  match ms with
  | [] => simp [badMems] at hb
  | (b, key, x) :: r =>
    rw [wfXMems, Bool.and_eq_true, if_pos ha] at hX
    have hki := kindOf_ifc_of_any bt hbt ha
    by_cases hxb : x.bad = true
    · obtain ⟨kc0, hok0, hkey⟩ := key_step f b key c (kindOf bt) bt acc hkc
      obtain ⟨c', hp⟩ := tree_panics f x (mapValCtx (setKC c kc0) (kindOf bt) bt acc key) hX.1 hxb
        (Or.inr (Or.inr (by rw [hki]; rfl))) hok0.1
      exact ⟨c', by rw [eventsMems, List.cons_append, run_cons_ok _ _ _ _ _ hkey, run_panic_append _ _ _ _ _ hp]⟩
    · have hxb' : x.bad = false := by simpa using hxb
      have hbr : badMems r = true := by simpa [badMems, hxb'] using hb
      obtain ⟨kc1, hok1, hstep⟩ := member_step f b key x c bt acc hbt ha (wf_of_wfX x hX.1 hxb') hkc
      obtain ⟨c', hp⟩ := mems_panics f r (setKC c kc1) bt (mapSet acc key x.gen) hbt ha hX.2 hbr hok1.1
      refine ⟨c', ?_⟩
      rw [eventsMems, run_ok_then _ _ _ _ _ hstep, hp]
end

end SF.Unf
