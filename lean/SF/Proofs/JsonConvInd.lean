/-
  C04, converse direction: THE INDUCTION.  `claims`: for every parser state `p` that reads a
  value or is inside a container between two tokens, and every input `b`: if the run over
  `b` ends without error, then it has read a text of the (lenient) grammar — white space,
  a value, … up to the bracket that closes the container — and continues behind it, or it
  ends inside a token / inside the container.  By induction on the measure `cost p b` every
  step decreases; each case inverts ONE step of the state machine (the first byte that is
  not white space decides which) and applies the hypothesis to what is left.
-/
import SF.Proofs.JsonConvValue
set_option linter.unusedSimpArgs false
set_option linter.unusedVariables false
namespace SF.Json.ParseP
open SF SF.Json SF.Json.Parse SF.Json.Float SF.Json.Grammar ETree

/-- the induction hypothesis at `(p, b)` -/
def IHyp (p : P) (b : Bytes) : Prop := ∀ p' b', cost p' b' < cost p b → Claims p' b'

theorem imp_bool {a b : Bool} (h : a = true → b = true) : (!a || b) = true := by
  cases a <;> simp_all

theorem chv_lbrace : ch '{' = 0x7b := by decide
theorem chv_rbrace : ch '}' = 0x7d := by decide
theorem chv_lbrack : ch '[' = 0x5b := by decide
theorem chv_rbrack : ch ']' = 0x5d := by decide
theorem chv_comma : ch ',' = 0x2c := by decide
theorem chv_colon : ch ':' = 0x3a := by decide
theorem chv_n : ch 'n' = 0x6e := by decide
theorem chv_t : ch 't' = 0x74 := by decide
theorem chv_f : ch 'f' = 0x66 := by decide

theorem eq_of_beq_ch {x : UInt8} {c : Char} {v : UInt8} (hv : ch c = v) (h : (x == ch c) = true) : x = v := by
  rw [← hv]; simpa using h

/-! ## values -/

theorem v_step {p : P} {b : Bytes} (ih : IHyp p b) {r : St} {S : List St} (h : ReadyN p r S) (q : P)
    (hrun : runA p b = (q, none)) : VConcl p r S b q := by
  obtain ⟨c0, hat, _, htr⟩ := h.1.at
  cases b with
  | nil =>
    rw [runA_nil] at hrun
    simp only [Prod.mk.injEq, and_true] at hrun
    exact Or.inl ⟨rfl, hrun.symm⟩
  | cons x tl =>
    by_cases hsp : Utf8.isSpaceByte x = true
    · rw [runA_skip1 p x tl hat.wf.inv (by rw [hat.cs]; exact htr) hsp] at hrun
      exact VConcl_space hsp ((ih p tl (by simp only [cost, List.length_cons]; omega) q hrun).1 r S h)
    have hsp' : Utf8.isSpaceByte x = false := by simpa using hsp
    by_cases h1 : (x == ch '{') = true
    · have := eq_of_beq_ch chv_lbrace h1; subst this
      obtain ⟨p1, hp1, hev, hr⟩ := reads_lbrace h tl trivial
      rw [List.singleton_append] at hr
      rw [hr] at hrun
      have hc := (ih p1 tl (by simp only [cost, List.length_cons, hp1.1.cs, weight]; omega) q hrun).2
        .dictState r S rfl hp1 h.1.1
      rcases hc with hd | ⟨w, more, es, p2, rfl, hrest, hp2, hev2, hr2⟩
      · exact Or.inr (Or.inr (Or.inl hd))
      · simp only [Rest] at hrest
        obtain ⟨ws, body, rfl, k1, k2, k3, rfl⟩ := hrest
        refine Or.inr (Or.inr (Or.inr ⟨[], .obj ws body, more, p2, by simp [J.wire], rfl, ?_, ?_, ?_, hp2, ?_, hr2⟩))
        · simp [J.okL, k1, k2]
        · simp [J.semL, k3]
        · intro hn; simp [J.isNum] at hn
        · rw [hev2, hev]; simp [J.eventsL, J.treeL, ETree.events]
    have h1' : (x == ch '{') = false := by simpa using h1
    by_cases h2 : (x == ch '[') = true
    · have := eq_of_beq_ch chv_lbrack h2; subst this
      obtain ⟨p1, hp1, hev, hr⟩ := reads_lbrack h tl trivial
      rw [List.singleton_append] at hr
      rw [hr] at hrun
      have hc := (ih p1 tl (by simp only [cost, List.length_cons, hp1.1.cs, weight]; omega) q hrun).2
        .arrState r S rfl hp1 h.1.1
      rcases hc with hd | ⟨w, more, es, p2, rfl, hrest, hp2, hev2, hr2⟩
      · exact Or.inr (Or.inr (Or.inl hd))
      · simp only [Rest] at hrest
        obtain ⟨ws, body, rfl, k1, k2, k3, rfl⟩ := hrest
        refine Or.inr (Or.inr (Or.inr ⟨[], .arr ws body, more, p2, by simp [J.wire], rfl, ?_, ?_, ?_, hp2, ?_, hr2⟩))
        · simp [J.okL, k1, k2]
        · simp [J.semL, k3]
        · intro hn; simp [J.isNum] at hn
        · rw [hev2, hev]; simp [J.eventsL, J.treeL, ETree.events]
    have h2' : (x == ch '[') = false := by simpa using h2
    by_cases h3 : (x == ch 'n') = true
    · have := eq_of_beq_ch chv_n h3; subst this
      exact v_lit h .null 0x6e _ rfl tl q hrun
    have h3' : (x == ch 'n') = false := by simpa using h3
    by_cases h4 : (x == ch 'f') = true
    · have := eq_of_beq_ch chv_f h4; subst this
      exact v_lit h .fals 0x66 _ rfl tl q hrun
    have h4' : (x == ch 'f') = false := by simpa using h4
    by_cases h5 : (x == ch 't') = true
    · have := eq_of_beq_ch chv_t h5; subst this
      exact v_lit h .tru 0x74 _ rfl tl q hrun
    have h5' : (x == ch 't') = false := by simpa using h5
    by_cases h6 : (x == ch '"') = true
    · have := eq_of_beq_ch chv_quote h6; subst this
      exact v_str h tl q hrun
    have h6' : (x == ch '"') = false := by simpa using h6
    by_cases h7 : (x == ch '-' || x == ch '+' || x == ch '.' || Parse.isDigit x) = true
    · exact v_num h x tl h7 q hrun
    have h7' : (x == ch '-' || x == ch '+' || x == ch '.' || Parse.isDigit x) = false := by simpa using h7
    exfalso
    apply not_errs hrun
    apply errs_of_stepValue h _ (by simp)
    rw [stepValue_unknown p r x tl hsp' h1' h2' h3' h4' h5' h6' h7']; simp

/-! ## inside a container: the common part -/

/-- the input is empty (the run ends inside the container), begins with white space (skip it),
or begins with another byte -/
theorem c_pre {c : St} {p : P} {b : Bytes} (ih : IHyp p b) (hc : isPhase c = true) {r : St} {S : List St}
    (hat : AtN p c (r :: S)) (hpush : PushOk S r) (q : P) (hrun : runA p b = (q, none))
    (main : ∀ x tl, b = x :: tl → Utf8.isSpaceByte x = false → CConcl c p r S b q) : CConcl c p r S b q := by
  cases b with
  | nil =>
    rw [runA_nil] at hrun
    simp only [Prod.mk.injEq, and_true] at hrun
    subst hrun
    exact Or.inl (deep_at hat.1 (isPhase_ne_num hc))
  | cons x tl =>
    by_cases hsp : Utf8.isSpaceByte x = true
    · rw [runA_skip1 p x tl hat.1.wf.inv (by rw [hat.1.cs]; exact isPhase_trims hc) hsp] at hrun
      exact CConcl_space hsp ((ih p tl (by simp only [cost, List.length_cons]; omega) q hrun).2 c r S hc hat hpush)
    · exact main x tl rfl (by simpa using hsp)

theorem numSep_of_follow {v : J} {ws x : Bytes} (hf : follow v (ws ++ x)) : v.isNum = true → numSep ws = true := by
  intro hn
  obtain ⟨c, t, h1, h2⟩ := hf hn
  cases ws with
  | nil => rfl
  | cons a ws' =>
    simp only [List.cons_append, List.cons.injEq] at h1
    simp only [numSep]; rw [h1.1]; exact h2

/-- a value inside a container (state `c`, return state `ca`), then the rest of the container -/
theorem val_then {p : P} {b : Bytes} {q : P} {c ca r : St} {S : List St} (hat : AtN p c (r :: S))
    (hc : c ≠ .numberState) (hV : VConcl p ca (r :: S) b q)
    (next : ∀ p1 more, more.length < b.length → AtN p1 ca (r :: S) → runA p1 more = (q, none) →
      CConcl ca p1 r S more q) :
    Deep S q ∨ ∃ ws v w' more es' p2, b = ws ++ (J.wire v ++ (w' ++ more)) ∧ allSp ws = true ∧ v.okL = true ∧
      v.semL = true ∧ follow v (w' ++ more) ∧ Rest ca w' es' ∧ AtN p2 r S ∧
      p2.evs = es'.reverse ++ (v.eventsL.reverse ++ p.evs) ∧ runA p2 more = (q, none) := by
  rcases hV with ⟨_, rfl⟩ | ⟨ws, tok, _, _, _, rfl⟩ | hd | ⟨ws, v, more1, p1, rfl, k1, k2, k3, k4, hp1, hev1, hr1⟩
  · exact Or.inl (deep_at hat.1 hc)
  · left
    refine ⟨?_, fun _ => ?_⟩ <;> simp only [pendP, hat.1.st, List.length_cons] <;> omega
  · exact Or.inl (deep_of_cons' hd)
  · obtain ⟨x, t, hx, _, _⟩ := J.wire_firstL v k2
    have hlen : more1.length < (ws ++ (v.wire ++ more1)).length := by
      rw [hx]; simp only [List.length_append, List.length_cons]; omega
    rcases next p1 more1 hlen hp1 hr1 with hd | ⟨w', more, es', p2, rfl, hrest, hp2, hev2, hr2⟩
    · exact Or.inl hd
    · exact Or.inr ⟨ws, v, w', more, es', p2, rfl, k1, k2, k3, k4, hrest, hp2, by rw [hev2, hev1], hr2⟩

theorem readyN_arr {p : P} {r : St} {S : List St} (hat : AtN p .arrStateValue (r :: S)) (hpush : PushOk S r) :
    ReadyN p .arrStateNext (r :: S) :=
  ⟨⟨Or.inr ⟨stackWF_cons hpush, rfl⟩, Or.inr (Or.inr ⟨hat.1, rfl⟩)⟩, hat.2⟩

theorem readyN_dict {p : P} {r : St} {S : List St} (hat : AtN p .dictFieldValue (r :: S)) (hpush : PushOk S r) :
    ReadyN p .dictFieldStateEnd (r :: S) :=
  ⟨⟨Or.inr ⟨stackWF_cons hpush, rfl⟩, Or.inr (Or.inl ⟨hat.1, rfl⟩)⟩, hat.2⟩

/-! ## arrays -/

theorem c_arrStateValue {p : P} {b : Bytes} (ih : IHyp p b) {r : St} {S : List St}
    (hat : AtN p .arrStateValue (r :: S)) (hpush : PushOk S r) (q : P) (hrun : runA p b = (q, none)) :
    CConcl .arrStateValue p r S b q := by
  have hV := v_step ih (readyN_arr hat hpush) q hrun
  rcases val_then hat (by simp) hV (fun p1 more hlen hp1 hr1 =>
      (ih p1 more (by simp only [cost, hp1.1.cs, hat.1.cs, weight]; omega) q hr1).2 .arrStateNext r S rfl hp1 hpush)
    with hd | ⟨ws, v, w', more, es', p2, rfl, k1, k2, k3, k4, hrest, hp2, hev2, hr2⟩
  · exact Or.inl hd
  · simp only [Rest] at hrest
    obtain ⟨ws2, tl, rfl, j1, j2, j3, rfl⟩ := hrest
    refine Or.inr ⟨ws ++ (v.wire ++ (ws2 ++ tl.wire)), more, v.eventsL ++ (eventsList tl.treesL ++ [.arrEnd]), p2,
      by simp, ?_, hp2, ?_, hr2⟩
    · exact ⟨ws, v, ws2, tl, rfl, k1, k2, j1, numSep_of_follow (by rw [← List.append_assoc]; exact k4), j2, k3, j3, rfl⟩
    · rw [hev2]; simp

theorem errs_arrNext {p : P} {S : List St} (hat : AtN p .arrStateNext S) (x : UInt8) (tl : Bytes)
    (hsp : Utf8.isSpaceByte x = false) (h1 : (x == ch ']') = false) (h2 : (x == ch ',') = false) :
    Errs (runA p (x :: tl)) := by
  apply errs_of_step p _ (by simp) hat.1.wf.inv
  unfold execStep; rw [hat.1.cs]; simp only [stepArrValueEnd]; rw [trimLeft_ns _ hsp]
  simp [h1, h2]

theorem c_arrStateNext {p : P} {b : Bytes} (ih : IHyp p b) {r : St} {S : List St}
    (hat : AtN p .arrStateNext (r :: S)) (hpush : PushOk S r) (q : P) (hrun : runA p b = (q, none)) :
    CConcl .arrStateNext p r S b q := by
  apply c_pre ih rfl hat hpush q hrun
  intro x tl hb hsp
  subst hb
  by_cases h1 : (x == ch ']') = true
  · have := eq_of_beq_ch chv_rbrack h1; subst this
    obtain ⟨p1, hp1, hev, hr⟩ := reads_rbrack hat (Or.inr rfl) tl trivial
    rw [List.singleton_append] at hr
    rw [hr] at hrun
    exact Or.inr ⟨[0x5d], tl, [.arrEnd], p1, rfl, ⟨[], .close, rfl, rfl, rfl, rfl, rfl⟩, hp1, hev, hrun⟩
  have h1' : (x == ch ']') = false := by simpa using h1
  by_cases h2 : (x == ch ',') = true
  · have := eq_of_beq_ch chv_comma h2; subst this
    obtain ⟨p1, hp1, hev, hr⟩ := reads_comma_arr hat tl trivial
    rw [List.singleton_append] at hr
    rw [hr] at hrun
    have hc := (ih p1 tl (by simp only [cost, List.length_cons, hp1.1.cs, weight]; omega) q hrun).2
      .arrStateValue r S rfl hp1 hpush
    rcases hc with hd | ⟨w, more, es, p2, rfl, hrest, hp2, hev2, hr2⟩
    · exact Or.inl hd
    · simp only [Rest] at hrest
      obtain ⟨ws1, e, ws2, tl', rfl, j1, j2, j3, j4, j5, j6, j7, rfl⟩ := hrest
      refine Or.inr ⟨0x2c :: (ws1 ++ (e.wire ++ (ws2 ++ tl'.wire))), more,
        e.eventsL ++ (eventsList tl'.treesL ++ [.arrEnd]), p2, rfl, ?_, hp2, ?_, hr2⟩
      · refine ⟨[], .more ws1 e ws2 tl', rfl, rfl, ?_, ?_, ?_⟩
        · simp [ATail.okL, j1, j2, j3, j5, imp_bool j4]
        · simp [ATail.semL, j6, j7]
        · simp [ATail.treesL, eventsList, J.eventsL]
      · rw [hev2, hev]; simp
  have h2' : (x == ch ',') = false := by simpa using h2
  exact absurd (errs_arrNext hat x tl hsp h1' h2') (not_errs hrun)

theorem c_arrState {p : P} {b : Bytes} (ih : IHyp p b) {r : St} {S : List St}
    (hat : AtN p .arrState (r :: S)) (hpush : PushOk S r) (q : P) (hrun : runA p b = (q, none)) :
    CConcl .arrState p r S b q := by
  apply c_pre ih rfl hat hpush q hrun
  intro x tl hb hsp
  subst hb
  by_cases h1 : (x == ch ']') = true
  · have := eq_of_beq_ch chv_rbrack h1; subst this
    obtain ⟨p1, hp1, hev, hr⟩ := reads_rbrack hat (Or.inl rfl) tl trivial
    rw [List.singleton_append] at hr
    rw [hr] at hrun
    exact Or.inr ⟨[0x5d], tl, [.arrEnd], p1, rfl, ⟨[], .close, rfl, rfl, rfl, rfl, rfl⟩, hp1, hev, hrun⟩
  have h1' : (x == ch ']') = false := by simpa using h1
  -- the state moves on to arrStateValue without consuming anything
  have hmv := move_arr hat.1 x hsp h1'
  obtain ⟨rep, hs⟩ := hmv tl
  have hwf1 : WF { p with currentState := .arrStateValue } := wf_of_step hat.1.wf (x :: tl) (by simp) (by rw [hs])
  have hat1 : AtN { p with currentState := .arrStateValue } .arrStateValue (r :: S) := atN_setCs hat hwf1
  rw [runA_move p _ _ (by simp) hat.1.wf rep hs] at hrun
  have hc := (ih _ (x :: tl) (by simp only [cost, hat.1.cs, weight]; omega) q hrun).2 .arrStateValue r S rfl hat1 hpush
  rcases hc with hd | ⟨w, more, es, p2, hbw, hrest, hp2, hev2, hr2⟩
  · exact Or.inl hd
  · simp only [Rest] at hrest
    obtain ⟨ws1, e, ws2, tl', rfl, j1, j2, j3, j4, j5, j6, j7, rfl⟩ := hrest
    have hnil : ws1 = [] := allSp_nil_of_head (w := (e.wire ++ (ws2 ++ tl'.wire)) ++ more) j1 hsp (by
      rw [hbw]; simp)
    subst hnil
    refine Or.inr ⟨e.wire ++ (ws2 ++ tl'.wire), more, e.eventsL ++ (eventsList tl'.treesL ++ [.arrEnd]), p2,
      by simpa using hbw, ?_, hp2, hev2, hr2⟩
    refine ⟨[], .elems e ws2 tl', rfl, rfl, ?_, ?_, ?_⟩
    · simp [ABody.okL, j2, j3, j5, imp_bool j4]
    · simp [ABody.semL, j6, j7]
    · simp [ABody.treesL, eventsList, J.eventsL]

/-! ## objects -/

theorem c_dictFieldValue {p : P} {b : Bytes} (ih : IHyp p b) {r : St} {S : List St}
    (hat : AtN p .dictFieldValue (r :: S)) (hpush : PushOk S r) (q : P) (hrun : runA p b = (q, none)) :
    CConcl .dictFieldValue p r S b q := by
  have hV := v_step ih (readyN_dict hat hpush) q hrun
  rcases val_then hat (by simp) hV (fun p1 more hlen hp1 hr1 =>
      (ih p1 more (by simp only [cost, hp1.1.cs, hat.1.cs, weight]; omega) q hr1).2 .dictFieldStateEnd r S rfl hp1
        hpush)
    with hd | ⟨ws, v, w', more, es', p2, rfl, k1, k2, k3, k4, hrest, hp2, hev2, hr2⟩
  · exact Or.inl hd
  · simp only [Rest] at hrest
    obtain ⟨ws2, tl, rfl, j1, j2, j3, rfl⟩ := hrest
    refine Or.inr ⟨ws ++ (v.wire ++ (ws2 ++ tl.wire)), more, v.eventsL ++ (eventsMems tl.membersL ++ [.objEnd]), p2,
      by simp, ?_, hp2, ?_, hr2⟩
    · exact ⟨ws, v, ws2, tl, rfl, k1, k2, j1, numSep_of_follow (by rw [← List.append_assoc]; exact k4), j2, k3, j3, rfl⟩
    · rw [hev2]; simp

theorem errs_sep {p : P} {S : List St} (hat : AtN p .dictFieldValueSep S) (x : UInt8) (tl : Bytes)
    (hsp : Utf8.isSpaceByte x = false) (h1 : (x == ch ':') = false) : Errs (runA p (x :: tl)) := by
  apply errs_of_step p _ (by simp) hat.1.wf.inv
  unfold execStep; rw [hat.1.cs]; simp only; rw [trimLeft_ns _ hsp]
  have : (x != ch ':') = true := by simp only [bne, h1]; rfl
  simp [this]

theorem c_dictFieldValueSep {p : P} {b : Bytes} (ih : IHyp p b) {r : St} {S : List St}
    (hat : AtN p .dictFieldValueSep (r :: S)) (hpush : PushOk S r) (q : P) (hrun : runA p b = (q, none)) :
    CConcl .dictFieldValueSep p r S b q := by
  apply c_pre ih rfl hat hpush q hrun
  intro x tl hb hsp
  subst hb
  by_cases h1 : (x == ch ':') = true
  · have := eq_of_beq_ch chv_colon h1; subst this
    obtain ⟨p1, hp1, hev, hr⟩ := reads_colon hat tl trivial
    rw [List.singleton_append] at hr
    rw [hr] at hrun
    have hc := (ih p1 tl (by simp only [cost, List.length_cons, hp1.1.cs, weight]; omega) q hrun).2
      .dictFieldValue r S rfl hp1 hpush
    rcases hc with hd | ⟨w, more, es, p2, rfl, hrest, hp2, hev2, hr2⟩
    · exact Or.inl hd
    · simp only [Rest] at hrest
      refine Or.inr ⟨0x3a :: w, more, es, p2, rfl, ⟨[], w, rfl, rfl, hrest⟩, hp2, ?_, hr2⟩
      rw [hev2, hev]; simp
  have h1' : (x == ch ':') = false := by simpa using h1
  exact absurd (errs_sep hat x tl hsp h1') (not_errs hrun)

/-- a key and what follows it, from the two states that expect a key, at the opening quote -/
theorem key_conv {c : St} (hc : c = .dictState ∨ c = .dictNextFieldState) {p : P} {r : St} {S : List St}
    (hat : AtN p c (r :: S)) (tl : Bytes) (q : P) (hrun : runA p (0x22 :: tl) = (q, none))
    (next : ∀ p1 more, more.length < tl.length → AtN p1 .dictFieldValueSep (r :: S) → runA p1 more = (q, none) →
      CConcl .dictFieldValueSep p1 r S more q) :
    Deep S q ∨ ∃ key k w' more es' p2, tl = key ++ 0x22 :: (w' ++ more) ∧ bodyOk key = true ∧ strValL key = some k ∧
      Rest .dictFieldValueSep w' es' ∧ AtN p2 r S ∧ p2.evs = es'.reverse ++ (.key k :: p.evs) ∧
      runA p2 more = (q, none) := by
  have hmv := move_dict hat.1 hc
  obtain ⟨rep, hs⟩ := hmv tl
  have hwf1 : WF { p with currentState := .dictFieldState } := wf_of_step hat.1.wf (0x22 :: tl) (by simp) (by rw [hs])
  have hat1 : AtN { p with currentState := .dictFieldState } .dictFieldState (r :: S) := atN_setCs hat hwf1
  rw [runA_move p _ _ (by simp) hat.1.wf rep hs] at hrun
  rcases str_split tl with hnone | ⟨key, more1, rfl, hb⟩
  · -- no closing quote: the run ends inside the key
    left
    have hE : ∀ b, execStep { p with currentState := .dictFieldState } b =
        (stepDictKey { p with currentState := .dictFieldState } b, false) := by
      intro b; unfold execStep; rfl
    have e1 := hE (0x22 :: tl)
    unfold stepDictKey at e1
    rw [doString_start_none _ 0x22 tl hat1.1.clean.1 (by rw [hat1.1.clean.2]; exact hnone)] at e1
    simp only [Bool.false_and, Bool.false_eq_true, if_false] at e1
    have := run_of_last_step _ (0x22 :: tl) (by simp) hwf1 _ _ e1
    rw [hrun] at this
    simp only [Prod.mk.injEq, and_true] at this
    subst this
    exact deep_token (r := r) (c := .dictFieldState) (by simp [hat.1.st]) rfl (by simp)
  · cases hu : unquote key with
    | error e => exact absurd (errs_key hat1 key more1 hb e hu) (not_errs hrun)
    | ok k =>
      obtain ⟨p1, hp1, hev, hr⟩ := reads_keyL hat1 key k hb hu more1 trivial
      have e0 : (0x22 :: (key ++ 0x22 :: more1) : Bytes) = 0x22 :: (key ++ [0x22]) ++ more1 := by simp
      rw [e0, hr] at hrun
      rcases next p1 more1 (by simp only [List.length_append, List.length_cons]; omega) hp1 hrun with
        hd | ⟨w', more, es', p2, rfl, hrest, hp2, hev2, hr2⟩
      · exact Or.inl hd
      · refine Or.inr ⟨key, k, w', more, es', p2, rfl, hb, strValL_of_unquote hu, hrest, hp2, ?_, hr2⟩
        rw [hev2, hev]; simp

theorem errs_dict {c : St} (hc : c = .dictState ∨ c = .dictNextFieldState) {p : P} {S : List St} (hat : AtN p c S)
    (x : UInt8) (tl : Bytes) (hsp : Utf8.isSpaceByte x = false) (h1 : (x == ch '}') = false ∨ c = .dictNextFieldState)
    (h2 : (x == ch '"') = false) : Errs (runA p (x :: tl)) := by
  apply errs_of_step p _ (by simp) hat.1.wf.inv
  rcases hc with rfl | rfl
  · rcases h1 with h1 | h1
    · unfold execStep; rw [hat.1.cs]; simp only [stepDict]; rw [trimLeft_ns _ hsp]
      simp [h1, h2]
    · cases h1
  · unfold execStep; rw [hat.1.cs]; simp only [stepDict]; rw [trimLeft_ns _ hsp]
    by_cases h3 : (x == ch '}') = true
    · simp [h3]
    · have h3' : (x == ch '}') = false := by simpa using h3
      simp [h3', h2]

theorem c_dictNextFieldState {p : P} {b : Bytes} (ih : IHyp p b) {r : St} {S : List St}
    (hat : AtN p .dictNextFieldState (r :: S)) (hpush : PushOk S r) (q : P) (hrun : runA p b = (q, none)) :
    CConcl .dictNextFieldState p r S b q := by
  apply c_pre ih rfl hat hpush q hrun
  intro x tl hb hsp
  subst hb
  by_cases h2 : (x == ch '"') = true
  · have := eq_of_beq_ch chv_quote h2; subst this
    rcases key_conv (Or.inr rfl) hat tl q hrun (fun p1 more hlen hp1 hr1 =>
        (ih p1 more (by simp only [cost, List.length_cons, hp1.1.cs, hat.1.cs, weight]; omega) q hr1).2
          .dictFieldValueSep r S rfl hp1 hpush) with
      hd | ⟨key, k, w', more, es', p2, rfl, hb, hk, hrest, hp2, hev2, hr2⟩
    · exact Or.inl hd
    · simp only [Rest] at hrest
      obtain ⟨ws1, w'', rfl, j1, j2⟩ := hrest
      refine Or.inr ⟨0x22 :: (key ++ 0x22 :: (ws1 ++ 0x3a :: w'')), more, .key k :: es', p2, by simp, ?_, hp2, ?_, hr2⟩
      · exact ⟨[], key, k, ws1, w'', es', rfl, rfl, hb, hk, j1, j2, rfl⟩
      · rw [hev2]; simp
  have h2' : (x == ch '"') = false := by simpa using h2
  exact absurd (errs_dict (Or.inr rfl) hat x tl hsp (Or.inr rfl) h2') (not_errs hrun)

theorem errs_dictEnd {p : P} {S : List St} (hat : AtN p .dictFieldStateEnd S) (x : UInt8) (tl : Bytes)
    (hsp : Utf8.isSpaceByte x = false) (h1 : (x == ch '}') = false) (h2 : (x == ch ',') = false) :
    Errs (runA p (x :: tl)) := by
  apply errs_of_step p _ (by simp) hat.1.wf.inv
  unfold execStep; rw [hat.1.cs]; simp only [stepDictValueEnd]; rw [trimLeft_ns _ hsp]
  simp [h1, h2]

theorem c_dictFieldStateEnd {p : P} {b : Bytes} (ih : IHyp p b) {r : St} {S : List St}
    (hat : AtN p .dictFieldStateEnd (r :: S)) (hpush : PushOk S r) (q : P) (hrun : runA p b = (q, none)) :
    CConcl .dictFieldStateEnd p r S b q := by
  apply c_pre ih rfl hat hpush q hrun
  intro x tl hb hsp
  subst hb
  by_cases h1 : (x == ch '}') = true
  · have := eq_of_beq_ch chv_rbrace h1; subst this
    obtain ⟨p1, hp1, hev, hr⟩ := reads_rbrace hat (Or.inr rfl) tl trivial
    rw [List.singleton_append] at hr
    rw [hr] at hrun
    exact Or.inr ⟨[0x7d], tl, [.objEnd], p1, rfl, ⟨[], .close, rfl, rfl, rfl, rfl, rfl⟩, hp1, hev, hrun⟩
  have h1' : (x == ch '}') = false := by simpa using h1
  by_cases h2 : (x == ch ',') = true
  · have := eq_of_beq_ch chv_comma h2; subst this
    obtain ⟨p1, hp1, hev, hr⟩ := reads_comma_obj hat tl trivial
    rw [List.singleton_append] at hr
    rw [hr] at hrun
    have hc := (ih p1 tl (by simp only [cost, List.length_cons, hp1.1.cs, weight]; omega) q hrun).2
      .dictNextFieldState r S rfl hp1 hpush
    rcases hc with hd | ⟨w, more, es, p2, rfl, hrest, hp2, hev2, hr2⟩
    · exact Or.inl hd
    · simp only [Rest] at hrest
      obtain ⟨ws0, key, k, ws1, w', es', rfl, i1, i2, i3, i4, hmem, rfl⟩ := hrest
      obtain ⟨ws2, v, ws3, tl', rfl, j1, j2, j3, j4, j5, j6, j7, rfl⟩ := hmem
      refine Or.inr ⟨0x2c :: (ws0 ++ 0x22 :: (key ++ 0x22 :: (ws1 ++ 0x3a :: (ws2 ++ (v.wire ++ (ws3 ++ tl'.wire)))))),
        more, .key k :: (v.eventsL ++ (eventsMems tl'.membersL ++ [.objEnd])), p2, rfl, ?_, hp2, ?_, hr2⟩
      · refine ⟨[], .more ws0 key ws1 ws2 v ws3 tl', rfl, rfl, ?_, ?_, ?_⟩
        · simp [OTail.okL, i1, i2, i4, j1, j2, j3, j5, imp_bool j4]
        · simp [OTail.semL, i3, j6, j7]
        · simp [OTail.membersL, eventsMems, J.eventsL, i3]
      · rw [hev2, hev]; simp
  have h2' : (x == ch ',') = false := by simpa using h2
  exact absurd (errs_dictEnd hat x tl hsp h1' h2') (not_errs hrun)

theorem c_dictState {p : P} {b : Bytes} (ih : IHyp p b) {r : St} {S : List St}
    (hat : AtN p .dictState (r :: S)) (hpush : PushOk S r) (q : P) (hrun : runA p b = (q, none)) :
    CConcl .dictState p r S b q := by
  apply c_pre ih rfl hat hpush q hrun
  intro x tl hb hsp
  subst hb
  by_cases h1 : (x == ch '}') = true
  · have := eq_of_beq_ch chv_rbrace h1; subst this
    obtain ⟨p1, hp1, hev, hr⟩ := reads_rbrace hat (Or.inl rfl) tl trivial
    rw [List.singleton_append] at hr
    rw [hr] at hrun
    exact Or.inr ⟨[0x7d], tl, [.objEnd], p1, rfl, ⟨[], .close, rfl, rfl, rfl, rfl, rfl⟩, hp1, hev, hrun⟩
  have h1' : (x == ch '}') = false := by simpa using h1
  by_cases h2 : (x == ch '"') = true
  · have := eq_of_beq_ch chv_quote h2; subst this
    rcases key_conv (Or.inl rfl) hat tl q hrun (fun p1 more hlen hp1 hr1 =>
        (ih p1 more (by simp only [cost, List.length_cons, hp1.1.cs, hat.1.cs, weight]; omega) q hr1).2
          .dictFieldValueSep r S rfl hp1 hpush) with
      hd | ⟨key, k, w', more, es', p2, rfl, hb, hk, hrest, hp2, hev2, hr2⟩
    · exact Or.inl hd
    · simp only [Rest] at hrest
      obtain ⟨ws1, w'', rfl, i1, hmem⟩ := hrest
      obtain ⟨ws2, v, ws3, tl', rfl, j1, j2, j3, j4, j5, j6, j7, rfl⟩ := hmem
      refine Or.inr ⟨0x22 :: (key ++ 0x22 :: (ws1 ++ 0x3a :: (ws2 ++ (v.wire ++ (ws3 ++ tl'.wire))))),
        more, .key k :: (v.eventsL ++ (eventsMems tl'.membersL ++ [.objEnd])), p2, by simp, ?_, hp2, ?_, hr2⟩
      · refine ⟨[], .mems key ws1 ws2 v ws3 tl', rfl, rfl, ?_, ?_, ?_⟩
        · simp [OBody.okL, hb, i1, j1, j2, j3, j5, imp_bool j4]
        · simp [OBody.semL, hk, j6, j7]
        · simp [OBody.membersL, eventsMems, J.eventsL, hk]
      · rw [hev2]; simp
  have h2' : (x == ch '"') = false := by simpa using h2
  exact absurd (errs_dict (Or.inl rfl) hat x tl hsp (Or.inl h1') h2') (not_errs hrun)

/-! ## all claims -/

theorem claims (p : P) (b : Bytes) : Claims p b := by
  generalize hn : cost p b = n
  induction n using Nat.strongRecOn generalizing p b with
  | _ n ihn =>
    have ih : IHyp p b := fun p' b' h => ihn _ (hn ▸ h) p' b' rfl
    intro q hrun
    refine ⟨fun r S h => v_step ih h q hrun, fun c r S hc hat hpush => ?_⟩
    cases c <;> simp [isPhase] at hc
    · exact c_arrState ih hat hpush q hrun
    · exact c_arrStateValue ih hat hpush q hrun
    · exact c_arrStateNext ih hat hpush q hrun
    · exact c_dictState ih hat hpush q hrun
    · exact c_dictNextFieldState ih hat hpush q hrun
    · exact c_dictFieldValue ih hat hpush q hrun
    · exact c_dictFieldValueSep ih hat hpush q hrun
    · exact c_dictFieldStateEnd ih hat hpush q hrun

end SF.Json.ParseP
