/-
  The representation relation `approx` restated in SF/Proofs/UbjEncTree.lean IS the relation
  `approxUbj` the oracle evaluates (SF/Ops/Oracle.lean).
-/
import SF.Proofs.UbjEncTree
import SF.Ops.Oracle
namespace SF.Ubjson.Enc
open SF SF.Ubjson

theorem decimal_eq_oracle (n : Nat) : decimal n = SF.Ops.decimalBytes n := rfl

theorem allDecimal_eq_oracle (a b : List Val) : allDecimal a b = SF.Ops.allDecimal a b := by
  induction a generalizing b with
  | nil => cases b <;> rfl
  | cons x a ih =>
    cases b with
    | nil => cases x <;> rfl
    | cons y b =>
      cases x <;> cases y <;> simp [allDecimal, SF.Ops.allDecimal, ih, decimal_eq_oracle]

theorem allDecimalMems_eq_oracle (a b : List (Bytes × Val)) :
    allDecimalMems a b = SF.Ops.allDecimalMems a b := by
  induction a generalizing b with
  | nil => cases b <;> rfl
  | cons x a ih =>
    obtain ⟨k, x⟩ := x
    cases b with
    | nil => cases x <;> rfl
    | cons y b =>
      obtain ⟨l, y⟩ := y
      cases x <;> cases y <;> simp [allDecimalMems, SF.Ops.allDecimalMems, ih, decimal_eq_oracle]

mutual
theorem approx_eq_oracle (a b : Val) : approx a b = SF.Ops.approxUbj a b := by
  match a with
  | .null => cases b <;> simp [approx, SF.Ops.approxUbj]
  | .bool x => cases b <;> simp [approx, SF.Ops.approxUbj]
  | .int n => cases b <;> simp [approx, SF.Ops.approxUbj, decimal_eq_oracle]
  | .f32 x => cases b <;> simp [approx, SF.Ops.approxUbj]
  | .f64 x => cases b <;> simp [approx, SF.Ops.approxUbj]
  | .str x => cases b <;> simp [approx, SF.Ops.approxUbj]
  | .arr xs =>
    cases b <;> simp only [approx, SF.Ops.approxUbj]
    rename_i ys
    rw [approxList_eq_oracle xs ys, allDecimal_eq_oracle]
    congr 3
  | .obj xs =>
    cases b <;> simp only [approx, SF.Ops.approxUbj]
    rename_i ys
    rw [approxMems_eq_oracle xs ys, allDecimalMems_eq_oracle]
    congr 3
theorem approxList_eq_oracle (a b : List Val) : approxList a b = SF.Ops.approxUbjList a b := by
  match a, b with
  | [], [] => rfl
  | [], _ :: _ => rfl
  | _ :: _, [] => rfl
  | x :: a', y :: b' => simp only [approxList, SF.Ops.approxUbjList, approx_eq_oracle x y, approxList_eq_oracle a' b']
theorem approxMems_eq_oracle (a b : List (Bytes × Val)) : approxMems a b = SF.Ops.approxUbjMems a b := by
  match a, b with
  | [], [] => rfl
  | [], _ :: _ => rfl
  | _ :: _, [] => rfl
  | (k, x) :: a', (l, y) :: b' =>
    simp only [approxMems, SF.Ops.approxUbjMems, approx_eq_oracle x y, approxMems_eq_oracle a' b']
end

end SF.Ubjson.Enc
