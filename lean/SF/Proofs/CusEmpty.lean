/-
  `omitempty` and `inline` on good types with custom code (cf. FoldEmpty): the specification's
  `isEmptyF` (with `IsZero()`, rule 6e) / `inlineF` through pointers, and the mirror's resolver
  chain (`makeResolveNonEmptyValue`: `resolveBySize`, `resolveIsZeroer`, `resolveIsZeroerPtr`).
-/
import SF.Proofs.FoldEmpty
import SF.Proofs.CusWalk
namespace SF.FoldProofs.Custom
open SF SF.Gotype SF.Gotype.Fold SF.Gotype.Rules

variable {reg : Bool}

/-- `IsZero()` of the type says the value is zero -/
def zeroEmpty (bt : GoType) (x : GoVal) : Bool :=
  match hasIsZero bt with
  | some (n, byPtr) => (customIsZero n (recvOf byPtr x)).getD false
  | none => false

/-- emptiness of a value of a non-pointer, non-interface type (rule 6e): `IsZero()` is true, or
length 0 for the sized kinds -/
def baseEmpty (bt : GoType) (x : GoVal) : Bool := zeroEmpty bt x || sizedEmpty bt x

theorem isEmptyF_base (f : Nat) {T : GoType}
    (hni : isIfaceT T = false) (hnp : ∀ e, T.under ≠ .ptr e) (v : GoVal) :
    isEmptyF (f + 1) T v = baseEmpty T v := by
  unfold isEmptyF baseEmpty zeroEmpty sizedEmpty recvOf
  unfold isIfaceT at hni
  generalize T.under = U at hni hnp
  cases U <;> first
    | (simp at hni; done)
    | (exact absurd rfl (hnp _))
    | (cases v <;> rfl)

theorem isEmptyF_deref : ∀ (sn : List String) (T : GoType), goodC reg sn T = true → ∀ v f, wtC reg T v = true →
    (stripPtr T).1 < f → isIfaceT (stripPtr T).2 = false →
    isEmptyF f T v =
      match deref (stripPtr T).1 v with
      | none => true
      | some x => baseEmpty (stripPtr T).2 x := by
  refine strip_induction _ ?_ ?_
  · intro sn T hg hnp hs v f _ hf hni
    rw [hs] at hni ⊢
    obtain ⟨f', rfl⟩ : ∃ f', f = f' + 1 := ⟨f - 1, by omega⟩
    simp only [deref]
    exact isEmptyF_base f' hni hnp v
  · intro sn T e hg hu _ hs ih v f hw hf hni
    rw [hs] at hf hni ⊢
    obtain ⟨f', rfl⟩ : ∃ f', f = f' + 1 := ⟨f - 1, by omega⟩
    rcases wt_ptr_inv hu hw with rfl | ⟨y, rfl, hy⟩
    · rw [isEmptyF_ptr_nil f' hu]; rfl
    · rw [isEmptyF_ptr f' hu]
      simp only [deref]
      exact ih y f' hy (by simp only [] at hf; omega) hni

/-! ## the resolver chain -/

theorem isPtrKind_good {sn : List String} {t : GoType} (hp : goodC reg sn t = true) :
    isPtrKind t = decide (1 ≤ (stripPtr t).1) := by
  unfold isPtrKind
  by_cases h : ∃ e, t.under = .ptr e
  · obtain ⟨e, he⟩ := h
    rw [he, stripPtr_of_under_ptr he (headKind hp)]
    simp
  · have hnp : ∀ e, t.under ≠ .ptr e := fun e he => h ⟨e, he⟩
    rw [stripPtr_of_under_nonptr hp hnp]
    cases hu : t.under <;> first | (simp; done) | (exact absurd hu (hnp _))

/-- the `IsZero()` resolvers of a base type -/
def isZeroers (bt : GoType) : List Resolver :=
  if implementsIsZeroer bt then [.isZeroer]
  else if implementsPtrIsZeroer bt then [.isZeroerPtr]
  else []

/-- the resolver chain of any good type -/
theorem mrnev_gen {sn : List String} {t : GoType} (hp : goodC reg sn t = true) (hd : tdepth t ≤ 1000) :
    makeResolveNonEmptyValue t =
      (if 1 ≤ (stripPtr t).1 then [Resolver.pointers (stripPtr t).1] else []) ++
      (if isIfaceT (stripPtr t).2 then [Resolver.interfaceLazy]
       else (if isSized (stripPtr t).2 then [Resolver.bySize] else []) ++ isZeroers (stripPtr t).2) := by
  unfold makeResolveNonEmptyValue
  rw [baseType_good hp hd]
  simp only [isPtrKind_good hp, decide_eq_true_eq]
  congr 1
  unfold isIfaceT isSized isZeroers
  generalize (stripPtr t).2.under = U
  cases U <;> simp

theorem mrnev_good {sn : List String} {t : GoType} (hp : goodC reg sn t = true) (hd : tdepth t ≤ 1000)
    (hni : isIfaceT (stripPtr t).2 = false) :
    makeResolveNonEmptyValue t =
      (if 1 ≤ (stripPtr t).1 then [Resolver.pointers (stripPtr t).1] else []) ++
      ((if isSized (stripPtr t).2 then [Resolver.bySize] else []) ++ isZeroers (stripPtr t).2) := by
  rw [mrnev_gen hp hd]
  simp only [hni, Bool.false_eq_true, if_false]

theorem applyResolvers_isZeroer (f : Nat) (rs : List Resolver) (rv : RV) :
    applyResolvers (f + 1) (.isZeroer :: rs) rv =
      match isZeroCall rv with
      | some empty => if empty then .drop else applyResolvers f rs rv
      | none => .panic := by
  rw [applyResolvers]
  cases isZeroCall rv with
  | none => rfl
  | some b => cases b <;> rfl

theorem applyResolvers_isZeroerPtr (f : Nat) (rs : List Resolver) (rv : RV) :
    applyResolvers (f + 1) (.isZeroerPtr :: rs) rv =
      match isZeroCall ⟨.ptr rv.t, .ptr rv.v⟩ with
      | some empty => if empty then .drop else applyResolvers f rs rv
      | none => .panic := by
  rw [applyResolvers]
  dsimp only
  cases isZeroCall ⟨.ptr rv.t, .ptr rv.v⟩ with
  | none => rfl
  | some b => cases b <;> rfl

/-- the `IsZero()` resolvers drop exactly the values whose `IsZero()` is true -/
theorem zero_resolve (f : Nat) {sn : List String} {bt : GoType} {x : GoVal} (hg : goodC reg sn bt = true)
    (hnp : ∀ e, bt ≠ .ptr e) (hz : zeroOK bt x = true) :
    applyResolvers (f + 2) (isZeroers bt) ⟨bt, x⟩ = if zeroEmpty bt x then .drop else .keep ⟨bt, x⟩ := by
  rcases headKind hg with hu | ⟨n, m, u, rfl⟩
  · -- no methods
    have h1 : implementsIsZeroer bt = false := by
      unfold implementsIsZeroer
      rw [whnf_good hg]
      cases bt <;> first | rfl | (exact absurd rfl (hnp _)) | (simp [unnamedHead] at hu)
    have h2 : implementsPtrIsZeroer bt = false := by
      unfold implementsPtrIsZeroer implementsIsZeroer
      cases bt <;> first | rfl | (simp [unnamedHead] at hu)
    simp only [isZeroers, h1, h2, Bool.false_eq_true, if_false, applyResolvers_nil, zeroEmpty,
      hasIsZero_unnamed hu]
  · have hI : implementsIsZeroer (.named n m u) = (m.isZero == .value) := rfl
    have hP : implementsPtrIsZeroer (.named n m u) = (m.isZero != .none) := rfl
    have hH : hasIsZero (.named n m u) =
        if m.isZero == .value then some (n, false) else if m.isZero == .pointer then some (n, true) else none := rfl
    unfold zeroOK at hz
    unfold zeroEmpty isZeroers
    rw [hI, hP, hH]
    rw [hH] at hz
    cases hm : m.isZero with
    | none => simp [applyResolvers_nil]
    | value =>
      simp only [hm, beq_self_eq_true, if_true] at hz ⊢
      rw [applyResolvers_isZeroer]
      have hc : isZeroCall ⟨.named n m u, x⟩ = customIsZero n x := rfl
      rw [hc]
      simp only [recvOf, Bool.false_eq_true, if_false] at hz ⊢
      cases hcz : customIsZero n x with
      | none => rw [hcz] at hz; cases hz
      | some b => cases b <;> simp [applyResolvers_nil]
    | pointer =>
      have e1 : (Recv.pointer == Recv.value) = false := by decide
      have e2 : (Recv.pointer != Recv.none) = true := by decide
      simp only [hm, e1, e2, beq_self_eq_true, Bool.false_eq_true, if_false, if_true] at hz ⊢
      rw [applyResolvers_isZeroerPtr]
      have hc : isZeroCall ⟨.ptr (.named n m u), .ptr x⟩ = customIsZero n (.ptr x) := by
        simp only [isZeroCall, GoType.whnf, hm, beq_self_eq_true, if_true]
      simp only [hc]
      simp only [recvOf, if_true] at hz ⊢
      cases hcz : customIsZero n (.ptr x) with
      | none => rw [hcz] at hz; cases hz
      | some b => cases b <;> simp [applyResolvers_nil]

/-- the resolver chain of an `omitempty` field whose base type is no interface -/
theorem resolve_good {sn : List String} {t : GoType} {x : GoVal} (hp : goodC reg sn t = true)
    (hw : wtC reg t x = true) (hd : tdepth t ≤ 1000) (hni : isIfaceT (stripPtr t).2 = false) :
    applyResolvers 1000 (makeResolveNonEmptyValue t) ⟨t, x⟩ =
      match deref (stripPtr t).1 x with
      | none => .drop
      | some x' => if baseEmpty (stripPtr t).2 x' then .drop else .keep ⟨(stripPtr t).2, x'⟩ := by
  rw [mrnev_good hp hd hni]
  have hw' := ptrWalk_good sn t hp x hw
  obtain ⟨sn', _, hpb⟩ := good_stripPtr t sn hp
  have hnp' := stripPtr_not_ptr' hp
  have h1000 : (1000 : Nat) = 996 + 1 + 1 + 1 + 1 := rfl
  rw [h1000]
  -- after the pointers
  have tail : ∀ (f : Nat) (x' : GoVal), wtC reg (stripPtr t).2 x' = true →
      applyResolvers (f + 1 + 1 + 1) ((if isSized (stripPtr t).2 then [Resolver.bySize] else []) ++
          isZeroers (stripPtr t).2) ⟨(stripPtr t).2, x'⟩ =
        if baseEmpty (stripPtr t).2 x' then .drop else .keep ⟨(stripPtr t).2, x'⟩ := by
    intro f x' hx'
    have hz := wtC_zero hx'
    unfold baseEmpty
    by_cases hs : isSized (stripPtr t).2 = true
    · obtain ⟨l, hl⟩ : ∃ l, len? x' = some l := by
        unfold isSized at hs
        rw [wtC_eq] at hx'
        simp only [Bool.and_eq_true] at hx'
        replace hx' := hx'.2
        generalize (stripPtr t).2.under = U at hs hx'
        cases U <;> simp at hs <;> cases x' <;> simp_all [len?]
      simp only [hs, if_true, List.singleton_append, applyResolvers_bySize, hl, sizedEmpty_sized hs]
      cases l with
      | zero => simp
      | succ l =>
        rw [zero_resolve f hpb hnp' hz]
        simp
    · have hs' : isSized (stripPtr t).2 = false := by simpa using hs
      simp only [hs', Bool.false_eq_true, if_false, List.nil_append, sizedEmpty_unsized hs', Bool.or_false]
      exact zero_resolve (f + 1) hpb hnp' hz
  by_cases hn : 1 ≤ (stripPtr t).1
  · simp only [hn, if_true, List.singleton_append, applyResolvers_pointers, hw']
    cases hdr : deref (stripPtr t).1 x with
    | none => rfl
    | some x' =>
      simp only []
      exact tail 996 x' (deref_wt sn t hp x x' hw hdr).1
  · have hn0 : (stripPtr t).1 = 0 := by omega
    have hb : (stripPtr t).2 = t := by
      by_cases hpp : ∃ e, t.under = .ptr e
      · obtain ⟨e, he⟩ := hpp
        rw [stripPtr_of_under_ptr he (headKind hp)] at hn0
        simp at hn0
      · rw [stripPtr_of_under_nonptr hp (fun e he => hpp ⟨e, he⟩)]
    have := tail 997 x (by rw [hb]; exact hw)
    rw [hn0]
    simp only [deref]
    rw [hb] at this ⊢
    have h10 : ¬ (1 ≤ 0) := by omega
    simp only [h10, if_false, List.nil_append]
    exact this

/-! ## the lazy resolver of interface values -/

/-- emptiness through pointers, whatever the base type -/
theorem isEmptyF_deref_gen : ∀ (sn : List String) (T : GoType), goodC reg sn T = true → ∀ v f, wtC reg T v = true →
    isEmptyF (f + (stripPtr T).1) T v =
      match deref (stripPtr T).1 v with
      | none => true
      | some x => isEmptyF f (stripPtr T).2 x := by
  refine strip_induction _ ?_ ?_
  · intro sn T _ _ hs v f _
    rw [hs]
    rfl
  · intro sn T e hg hu _ hs ih v f hw
    rw [hs]
    have : f + ((stripPtr e).1 + 1) = (f + (stripPtr e).1) + 1 := by omega
    simp only [this]
    rcases wt_ptr_inv hu hw with rfl | ⟨y, rfl, hy⟩
    · rw [isEmptyF_ptr_nil _ hu]; rfl
    · rw [isEmptyF_ptr _ hu]
      simp only [deref]
      exact ih y f hy

/-- the non-empty value the resolver chain of `t` arrives at, from `x` -/
inductive Lazy : GoType → GoVal → RV → Prop
  | base {t : GoType} {x x' : GoVal} : deref (stripPtr t).1 x = some x' → isIfaceT (stripPtr t).2 = false →
      baseEmpty (stripPtr t).2 x' = false → Lazy t x ⟨(stripPtr t).2, x'⟩
  | keep {t : GoType} {x : GoVal} {dt : GoType} {dv : GoVal} :
      deref (stripPtr t).1 x = some (.iface dt dv) → isIfaceT (stripPtr t).2 = true →
      (makeResolveNonEmptyValue dt).isEmpty = true → Lazy t x ⟨(stripPtr t).2, .iface dt dv⟩
  | step {t : GoType} {x : GoVal} {dt : GoType} {dv : GoVal} {rv : RV} :
      deref (stripPtr t).1 x = some (.iface dt dv) → isIfaceT (stripPtr t).2 = true →
      (makeResolveNonEmptyValue dt).isEmpty = false → Lazy dt dv rv → Lazy t x rv

theorem isEmptyF_deref_none : ∀ (sn : List String) (T : GoType), goodC reg sn T = true → ∀ v fe, wtC reg T v = true →
    deref (stripPtr T).1 v = none → vdepth v + 2 ≤ fe → isEmptyF fe T v = true := by
  refine strip_induction _ ?_ ?_
  · intro sn T _ _ hs v fe _ hn _
    rw [hs] at hn
    simp [deref] at hn
  · intro sn T e _ hu _ hs ih v fe hw hn hfe
    rw [hs] at hn
    obtain ⟨fe', rfl⟩ : ∃ fe', fe = fe' + 1 := ⟨fe - 1, by omega⟩
    rcases wt_ptr_inv hu hw with rfl | ⟨y, rfl, hy⟩
    · exact isEmptyF_ptr_nil fe' hu
    · rw [isEmptyF_ptr fe' hu]
      simp only [deref] at hn
      rw [vdepth_ptr] at hfe
      exact ih y fe' hy hn (by omega)

/-- the tail of the chain on a value of a sized / `IsZero` base type -/
theorem base_resolve (f : Nat) {sn : List String} {bt : GoType} {x' : GoVal} (hpb : goodC reg sn bt = true)
    (hnp' : ∀ e, bt ≠ .ptr e) (hx' : wtC reg bt x' = true) :
    applyResolvers (f + 3) ((if isSized bt then [Resolver.bySize] else []) ++ isZeroers bt) ⟨bt, x'⟩ =
      if baseEmpty bt x' then .drop else .keep ⟨bt, x'⟩ := by
  have hz := wtC_zero hx'
  unfold baseEmpty
  by_cases hs : isSized bt = true
  · obtain ⟨l, hl⟩ : ∃ l, len? x' = some l := by
      unfold isSized at hs
      rw [wtC_eq] at hx'
      simp only [Bool.and_eq_true] at hx'
      replace hx' := hx'.2
      generalize bt.under = U at hs hx'
      cases U <;> simp at hs <;> cases x' <;> simp_all [len?]
    simp only [hs, if_true, List.singleton_append, applyResolvers_bySize, hl, sizedEmpty_sized hs]
    cases l with
    | zero => simp
    | succ l =>
      rw [zero_resolve f hpb hnp' hz]
      simp
  · have hs' : isSized bt = false := by simpa using hs
    simp only [hs', Bool.false_eq_true, if_false, List.nil_append, sizedEmpty_unsized hs', Bool.or_false]
    exact zero_resolve (f + 1) hpb hnp' hz

/-- the resolver chain of an `omitempty` field of any good type: it drops exactly the values the
rules call empty, and keeps a value reached through pointers and interfaces otherwise -/
theorem lazy_resolve : ∀ (N : Nat) (sn : List String) (t : GoType) (x : GoVal), vdepth x < N →
    goodC reg sn t = true → wtC reg t x = true → tdepth t ≤ 1000 →
    ∀ F fe, 2 * vdepth x + 4 ≤ F → vdepth x + 2 ≤ fe →
    (isEmptyF fe t x = true ∧ applyResolvers F (makeResolveNonEmptyValue t) ⟨t, x⟩ = .drop) ∨
    (isEmptyF fe t x = false ∧ ∃ rv, Lazy t x rv ∧
      applyResolvers F (makeResolveNonEmptyValue t) ⟨t, x⟩ = .keep rv) := by
  intro N
  induction N with
  | zero => intro sn t x hd; omega
  | succ N ih =>
    intro sn t x hd hp hw hdt F fe hF hfe
    rw [mrnev_gen hp hdt]
    have hwalk := ptrWalk_good sn t hp x hw
    obtain ⟨sn', _, hpb⟩ := good_stripPtr t sn hp
    have hnp := stripPtr_not_ptr t sn hp
    have hnp' := stripPtr_not_ptr' hp
    -- the value behind the pointers: the rest of the chain on it
    have tail : ∀ (f : Nat) (x' : GoVal), deref (stripPtr t).1 x = some x' → wtC reg (stripPtr t).2 x' = true →
        vdepth x' ≤ vdepth x → 2 * vdepth x' + 4 ≤ f → ∀ fe', vdepth x' + 2 ≤ fe' →
        (isEmptyF fe' (stripPtr t).2 x' = true ∧
          applyResolvers f (if isIfaceT (stripPtr t).2 then [Resolver.interfaceLazy]
            else (if isSized (stripPtr t).2 then [Resolver.bySize] else []) ++ isZeroers (stripPtr t).2)
              ⟨(stripPtr t).2, x'⟩ = .drop) ∨
        (isEmptyF fe' (stripPtr t).2 x' = false ∧ ∃ rv, Lazy t x rv ∧
          applyResolvers f (if isIfaceT (stripPtr t).2 then [Resolver.interfaceLazy]
            else (if isSized (stripPtr t).2 then [Resolver.bySize] else []) ++ isZeroers (stripPtr t).2)
              ⟨(stripPtr t).2, x'⟩ = .keep rv) := by
      intro f x' hdr hx' hdx' hf fe' hfe'
      obtain ⟨f1, rfl⟩ : ∃ f1, f = f1 + 1 := ⟨f - 1, by omega⟩
      obtain ⟨f2, rfl⟩ : ∃ f2, f1 = f2 + 1 := ⟨f1 - 1, by omega⟩
      obtain ⟨fe1, rfl⟩ : ∃ fe1, fe' = fe1 + 1 := ⟨fe' - 1, by omega⟩
      by_cases hi : isIfaceT (stripPtr t).2 = true
      · have hu : (stripPtr t).2.under = .iface := by
          unfold isIfaceT at hi
          cases hU : (stripPtr t).2.under <;> simp_all
        rw [if_pos hi, applyResolvers_lazy]
        rcases wt_iface_inv hu hx' with rfl | ⟨dt, dv, rfl, hpd, hdd, hwd⟩
        · exact Or.inl ⟨isEmptyF_iface_nil fe1 hu, rfl⟩
        · rw [isEmptyF_iface fe1 hu]
          rw [vdepth_iface] at hdx' hf hfe'
          have hrec := ih [] dt dv (by omega) hpd hwd (by unfold dynBound at hdd; omega) (f2 + 1) fe1
            (by omega) (by omega)
          by_cases hem : (makeResolveNonEmptyValue dt).isEmpty = true
          · have hnil : makeResolveNonEmptyValue dt = [] := by
              cases h : makeResolveNonEmptyValue dt with
              | nil => rfl
              | cons a l => rw [h] at hem; simp at hem
            rw [hnil, applyResolvers_nil] at hrec
            rcases hrec with ⟨_, h2⟩ | ⟨h1, _⟩
            · cases h2
            · refine Or.inr ⟨h1, _, Lazy.keep hdr hi hem, ?_⟩
              show (if (makeResolveNonEmptyValue dt).isEmpty = true then _ else _) = _
              rw [if_pos hem, applyResolvers_nil]
          · have hem' : (makeResolveNonEmptyValue dt).isEmpty = false := by simpa using hem
            rcases hrec with ⟨h1, h2⟩ | ⟨h1, rv, hl, h2⟩
            · refine Or.inl ⟨h1, ?_⟩
              show (if (makeResolveNonEmptyValue dt).isEmpty = true then _ else _) = _
              rw [if_neg hem, h2]
            · refine Or.inr ⟨h1, rv, Lazy.step hdr hi hem' hl, ?_⟩
              show (if (makeResolveNonEmptyValue dt).isEmpty = true then _ else _) = _
              rw [if_neg hem, h2]
              exact applyResolvers_nil f2 rv
      · have hi' : isIfaceT (stripPtr t).2 = false := by simpa using hi
        rw [if_neg hi, isEmptyF_base fe1 hi' hnp]
        obtain ⟨f3, rfl⟩ : ∃ f3, f2 = f3 + 1 := ⟨f2 - 1, by omega⟩
        rw [base_resolve f3 hpb hnp' hx']
        cases hbe : baseEmpty (stripPtr t).2 x' with
        | true => exact Or.inl ⟨rfl, by simp⟩
        | false => exact Or.inr ⟨rfl, _, Lazy.base hdr hi' hbe, by simp⟩
    -- assemble
    obtain ⟨F1, rfl⟩ : ∃ F1, F = F1 + 1 := ⟨F - 1, by omega⟩
    by_cases hn : 1 ≤ (stripPtr t).1
    · rw [if_pos hn, List.singleton_append, applyResolvers_pointers, hwalk]
      cases hdr : deref (stripPtr t).1 x with
      | none =>
        exact Or.inl ⟨isEmptyF_deref_none sn t hp x fe hw hdr hfe, rfl⟩
      | some x' =>
        simp only []
        obtain ⟨hwx', hdx'⟩ := deref_wt sn t hp x x' hw hdr
        have hemp := isEmptyF_deref_gen sn t hp x (fe - (stripPtr t).1) hw
        rw [show fe - (stripPtr t).1 + (stripPtr t).1 = fe by omega, hdr] at hemp
        simp only [] at hemp
        rw [hemp]
        exact tail F1 x' hdr hwx' (by omega) (by omega) (fe - (stripPtr t).1) (by omega)
    · have hn0 : (stripPtr t).1 = 0 := by omega
      have hb : (stripPtr t).2 = t := by
        by_cases hpp : ∃ e, t.under = .ptr e
        · obtain ⟨e, he⟩ := hpp
          rw [stripPtr_of_under_ptr he (headKind hp)] at hn0
          simp at hn0
        · rw [stripPtr_of_under_nonptr hp (fun e he => hpp ⟨e, he⟩)]
      have hdr : deref (stripPtr t).1 x = some x := by rw [hn0]; rfl
      have := tail (F1 + 1) x hdr (by rw [hb]; exact hw) (Nat.le_refl _) (by omega) fe hfe
      rw [if_neg hn, List.nil_append]
      rw [hb] at this ⊢
      exact this

/-! ## `inline` through names and pointers -/

theorem inlineF_under (m : Nat) {sn : List String} {T : GoType} (h : goodC reg sn T = true)
    (h1 : isC1 reg T = false) (v : GoVal) : inlineF (m + 1) reg T v = inlineF (m + 1) reg T.under v := by
  have h2 := (good_under h).2
  conv => lhs; unfold inlineF
  conv => rhs; unfold inlineF
  simp only [customOf_notC1 h1, customOf_unnamed reg h2, under_under h, foldF_under' m h h1 v]

theorem inlineF_deref : ∀ (sn : List String) (T : GoType), goodC reg sn T = true →
    ∀ v m segs, wtC reg T v = true → inlineF m reg T v = .ok segs →
    match deref (stripPtr T).1 v with
    | none => segs = []
    | some x => ∃ m', inlineF m' reg (stripPtr T).2 x = .ok segs := by
  refine strip_induction _ ?_ ?_
  · intro sn T _ _ hs v m segs _ h
    rw [hs]
    exact ⟨m, h⟩
  · intro sn T e hg hu _ hs ih v m segs hw h
    rw [hs]
    cases m with
    | zero => simp [inlineF] at h
    | succ m =>
      rw [inlineF_under m hg (notC1_of_under_ptr hg hu), hu] at h
      rcases wt_ptr_inv hu hw with rfl | ⟨y, rfl, hy⟩
      · have : inlineF (m + 1) reg (.ptr e) .nilPtr = .ok [] := rfl
        rw [this] at h
        cases h
        rfl
      · have : inlineF (m + 1) reg (.ptr e) (.ptr y) = inlineF m reg e y := rfl
        rw [this] at h
        simp only [deref]
        exact ih y m segs hy h

/-- rule 6c on a type with a custom folder -/
theorem inlineF_c1 (m : Nat) {T : GoType} {n : String} {byPtr : Bool} (hc : customOf reg T = some (n, byPtr))
    (v : GoVal) :
    inlineF (m + 1) reg T v =
      match v with
      | .nilSlice | .nilMap => .error .userCode
      | _ =>
        match customValue n byPtr v with
        | .ok (.obj segs) => .ok segs
        | .ok _ => .error .inlineNeedsObject
        | .error e => .error e := by
  unfold inlineF
  simp only [hc]
  cases v <;> rfl

end SF.FoldProofs.Custom
