/-
  UBJSON refinement, base: explicit configurations, one unrolling of the feedUntil loop,
  collect on whole-buffer input, stepLen on a well-formed length.
-/
import SF.Proofs.UbjNoPanicLen
import SF.Proofs.UbjNum
namespace SF.Ubjson.Parse
open SF SF.Ubjson SF.Ubjson.Syn
open StateType StateStep

/-- a configuration between tokens: nothing buffered, no pending length marker, no stored
error, no injected visitor fault -/
def mk (S : List St) (c : St) (VS : StateStack) (LS : List Int) (lc : Int) (vt : Nat) (E : List Ev) : P :=
  { state := ⟨S, c⟩, valueState := VS, length := ⟨LS, lc⟩, buffer := [], marker := noMarker,
    valueType := vt, err := none, evs := E, failAt := none }

/-- what feedUntil does with the result of one step -/
def after (f : Nat) (r : R) : R := if r.done || r.err.isSome then r else feedUntil f r.p r.rest

theorem feedUntil_succ (f : Nat) (p : P) (b : Bytes) (hg : (!b.isEmpty || pending p) = true) :
    feedUntil (f + 1) p b = after f (execStep p b) := by
  simp only [feedUntil, after]
  simp [hg]

theorem after_done (f : Nat) (r : R) (h : r.done = true) : after f r = r := by simp [after, h]
theorem after_cont (f : Nat) (p : P) (b : Bytes) : after f ⟨p, b, false, none⟩ = feedUntil f p b := by
  simp [after]

theorem collect_nil (b : Bytes) (n : Nat) (h : n ≤ b.length) :
    collect [] b n = ([], b.drop n, some (b.take n)) := by
  simp [collect, h]

theorem collectP_nil (p : P) (hp : p.buffer = []) (a rest : Bytes) (n : Nat) (hn : a.length = n) :
    collectP p (a ++ rest) n = (p, rest, some a) := by
  subst hn
  simp only [collectP, hp]
  rw [collect_nil _ _ (by simp)]
  cases p; simp_all

theorem ofNat_mod_toNat (n : Nat) (h : n < 256) : (UInt8.ofNat (n % 256)).toNat = n := by
  simp [UInt8.toNat_ofNat']; omega

theorem beBytes_append_isEmpty (w n : Nat) (rest : Bytes) (hw : 0 < w) : (beBytes w n ++ rest).isEmpty = false := by
  have : (beBytes w n ++ rest).length ≠ 0 := by simp; omega
  cases h : beBytes w n ++ rest with
  | nil => simp [h] at this
  | cons a l => rfl

theorem stepLen_lenWire (S : List St) (c : St) (VS LS lc vt E) (w : LW) (n : Nat) (h : w.fits n = true)
    (rest : Bytes) (cont : St) :
    stepLen (mk S c VS LS lc vt E) (lenWire w n ++ rest) cont =
      ⟨mk S cont VS (lc :: LS) n vt E, rest, false, none⟩ := by
  rw [stepLen_eq]
  cases w
  · -- i
    have hn : n < 128 := by simpa [LW.fits] using h
    have : readInt8 (UInt8.ofNat (n % 256)) = n := by
      have := toSigned_len 1 n (by omega) (by simpa using hn)
      simp only [beBytes, List.nil_append, beNat_single] at this
      exact this
    simp +decide [lenWire, LW.marker, LW.bytes, beBytes, mk, lenValue, lenFin, this, pushLen, setCurrent,
      Cbor.LenStack.push]
  · -- U
    have hn : n < 256 := by simpa [LW.fits] using h
    have : (UInt8.ofNat (n % 256)).toNat = n := ofNat_mod_toNat n hn
    simp +decide [lenWire, LW.marker, LW.bytes, beBytes, mk, lenValue, lenFin, this, pushLen, setCurrent,
      Cbor.LenStack.push]
  · -- I
    have hn : n < 32768 := by simpa [LW.fits] using h
    have hc := collectP_nil { mk S c VS LS lc vt E with marker := int16Marker } rfl (beBytes 2 n) rest 2 (by simp)
    have : readInt16 (beBytes 2 n) = n := toSigned_len 2 n (by omega) (by simpa using hn)
    have he := beBytes_append_isEmpty 2 n rest (by omega)
    simp +decide only [lenWire, LW.marker, LW.bytes, List.cons_append, mk, he]
    simp +decide [lenValue]
    simp only [mk] at hc
    rw [hc]
    simp +decide [lenFin, this, pushLen, setCurrent, Cbor.LenStack.push]
  · -- l
    have hn : n < 2147483648 := by simpa [LW.fits] using h
    have hc := collectP_nil { mk S c VS LS lc vt E with marker := int32Marker } rfl (beBytes 4 n) rest 4 (by simp)
    have : readInt32 (beBytes 4 n) = n := toSigned_len 4 n (by omega) (by simpa using hn)
    have he := beBytes_append_isEmpty 4 n rest (by omega)
    simp +decide only [lenWire, LW.marker, LW.bytes, List.cons_append, mk, he]
    simp +decide [lenValue]
    simp only [mk] at hc
    rw [hc]
    simp +decide [lenFin, this, pushLen, setCurrent, Cbor.LenStack.push]
  · -- L
    have hn : n < 9223372036854775808 := by simpa [LW.fits] using h
    have hc := collectP_nil { mk S c VS LS lc vt E with marker := int64Marker } rfl (beBytes 8 n) rest 8 (by simp)
    have : readInt64 (beBytes 8 n) = n := toSigned_len 8 n (by omega) (by simpa using hn)
    have he := beBytes_append_isEmpty 8 n rest (by omega)
    simp +decide only [lenWire, LW.marker, LW.bytes, List.cons_append, mk, he]
    simp +decide [lenValue]
    simp only [mk] at hc
    rw [hc]
    simp +decide [lenFin, this, pushLen, setCurrent, Cbor.LenStack.push]

end SF.Ubjson.Parse
