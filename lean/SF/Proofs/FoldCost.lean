/-
  The fuel `Rules.agrees` needs on the value the rules give (`rcost r`), bounded by a measure
  of the Go value alone: `vcost v`.  (So the side condition `rcost r ≤ 100000` of `fold_agrees`
  can be replaced by `vcost v ≤ 100000`.)
-/
import SF.Proofs.FoldNoFuel
import SF.Proofs.FoldMatch
namespace SF.FoldProofs
open SF SF.Gotype SF.Gotype.Rules

mutual
/-- number of nodes of a value -/
def vsize : GoVal → Nat
  | .slice xs | .array xs | .struct xs => vsizeL xs + 1
  | .map ms => vsizeP ms + 1
  | .ptr v | .iface _ v => vsize v + 1
  | _ => 1
def vsizeL : List GoVal → Nat
  | [] => 0
  | x :: xs => vsize x + vsizeL xs
def vsizeP : List (GoVal × GoVal) → Nat
  | [] => 0
  | (_, v) :: ms => vsize v + vsizeP ms
end

mutual
/-- bound on the comparison fuel of whatever the value folds to -/
def vcost : GoVal → Nat
  | .slice xs | .array xs => vcostL xs + 1
  | .struct xs => vcostL xs + vsizeL xs + 2
  | .map ms => vcostP ms + ms.length + 3
  | .ptr v | .iface _ v => vcost v
  | _ => 2
def vcostL : List GoVal → Nat
  | [] => 2
  | x :: xs => max (vcost x) (vcostL xs)
def vcostP : List (GoVal × GoVal) → Nat
  | [] => 2
  | (_, v) :: ms => max (vcost v) (vcostP ms)
end

/-- the most expensive segment -/
def segMax : List Seg → Nat
  | [] => 0
  | (u, mems) :: rest => max (rcostMems mems + (if u then mems.length + 1 else 0)) (segMax rest)

theorem rcostSegs_le (segs : List Seg) : rcostSegs segs ≤ max (segMax segs) 1 + segs.length := by
  induction segs with
  | nil => simp [rcostSegs, segMax]
  | cons s rest ih =>
    obtain ⟨u, mems⟩ := s
    simp only [rcostSegs, segMax, List.length_cons]
    omega

theorem segMax_append (a b : List Seg) : segMax (a ++ b) = max (segMax a) (segMax b) := by
  induction a with
  | nil => simp [segMax]
  | cons s rest ih =>
    obtain ⟨u, mems⟩ := s
    simp only [List.cons_append, segMax, ih]
    omega

theorem vsize_pos (v : GoVal) : 1 ≤ vsize v := by
  cases v <;> simp [vsize]

theorem vcostL_ge (xs : List GoVal) : 2 ≤ vcostL xs := by
  induction xs with
  | nil => simp [vcostL]
  | cons x xs ih => simp only [vcostL]; omega

theorem vcost_ge (v : GoVal) : 2 ≤ vcost v := by
  have hL : ∀ xs : List GoVal, 2 ≤ vcostL xs := by
    intro xs
    induction xs with
    | nil => simp [vcostL]
    | cons x xs ih => simp only [vcostL]; omega
  have hP : ∀ ms : List (GoVal × GoVal), 2 ≤ vcostP ms := by
    intro ms
    induction ms with
    | nil => simp [vcostP]
    | cons x ms ih => obtain ⟨k, v⟩ := x; simp only [vcostP]; omega
  induction v using GoVal.rec (motive_2 := fun _ => True) (motive_3 := fun _ => True)
    (motive_4 := fun _ => True) <;> first
      | (simp [vcost]; done)
      | (simp only [vcost]; have := hL ‹_›; omega)
      | (simp only [vcost]; have := hP ‹_›; omega)
      | (simp only [vcost]; assumption)
      | trivial

theorem vcostL_mem {xs : List GoVal} {x : GoVal} (hx : x ∈ xs) : vcost x ≤ vcostL xs := by
  induction xs with
  | nil => cases hx
  | cons a l ih =>
    simp only [vcostL]
    rcases List.mem_cons.mp hx with rfl | hx'
    · exact Nat.le_max_left _ _
    · exact Nat.le_trans (ih hx') (Nat.le_max_right _ _)

theorem vcostP_mem {ms : List (GoVal × GoVal)} {kx : GoVal × GoVal} (hx : kx ∈ ms) :
    vcost kx.2 ≤ vcostP ms := by
  induction ms with
  | nil => cases hx
  | cons a l ih =>
    obtain ⟨ak, ax⟩ := a
    simp only [vcostP]
    rcases List.mem_cons.mp hx with rfl | hx'
    · exact Nat.le_max_left _ _
    · exact Nat.le_trans (ih hx') (Nat.le_max_right _ _)

/-- elements folded one by one: the cost of the list -/
theorem rcostList_le {f : GoVal → Except RuleErr RVal} {xs : List GoVal} {rs : List RVal} {b : Nat}
    (h : All2 (fun x r => f x = .ok r) xs rs) (hb : ∀ x ∈ xs, ∀ r, f x = .ok r → rcost r ≤ b) :
    rcostList rs ≤ b := by
  induction h with
  | nil => simp [rcostList]
  | @cons x r xs rs h1 _ ih =>
    simp only [rcostList]
    have := hb x (by simp) r h1
    have := ih (fun y hy => hb y (by simp [hy]))
    omega

theorem rcostMems_le {m : Nat} {reg : Bool} {e : GoType} {ms : List (GoVal × GoVal)}
    {mems : List (Bytes × RVal)} {b : Nat}
    (h : All2 (fun kx mem => entryF m reg e kx = .ok mem) ms mems)
    (hb : ∀ kx ∈ ms, ∀ r, foldF m reg e kx.2 = .ok r → rcost r ≤ b) :
    rcostMems mems ≤ b ∧ mems.length = ms.length := by
  induction h with
  | nil => simp [rcostMems]
  | @cons kx mem ms mems h1 _ ih =>
    obtain ⟨k, w⟩ := mem
    simp only [rcostMems, List.length_cons]
    have hf : foldF m reg e kx.2 = .ok w := by
      unfold entryF at h1
      cases hk : keyOf kx.1 with
      | error err => simp [hk] at h1
      | ok kb =>
        cases hf : foldF m reg e kx.2 with
        | error err => simp [hk, hf] at h1
        | ok r => simp only [hk, hf, Except.ok.injEq, Prod.mk.injEq] at h1; rw [h1.2]
    have := hb kx (by simp) w hf
    have := ih (fun y hy => hb y (by simp [hy]))
    omega

/-- the value folds to something cheap to compare; if to an object, one with few segments -/
def CostF (reg : Bool) (N : Nat) : Prop :=
  ∀ sn T v, vdepth v < N → goodT sn T = true → wt T v = true →
    ∀ m r, foldF m reg T v = .ok r → rcost r ≤ vcost v ∧ ∀ segs, r = .obj segs → segs.length ≤ vsize v

def CostI (reg : Bool) (N : Nat) : Prop :=
  ∀ sn T v, vdepth v < N → goodT sn T = true → wt T v = true →
    ∀ m segs, inlineF m reg T v = .ok segs → segMax segs ≤ vcost v ∧ segs.length ≤ vsize v

def CostFld (reg : Bool) (N : Nat) : Prop :=
  ∀ sn f v, vdepth v < N → goodF sn f = true → wt f.typ v = true →
    ∀ m segs, fieldF m reg f v = .ok segs → segMax segs ≤ vcost v ∧ segs.length ≤ vsize v

/-- the fields of a struct value, one by one -/
theorem fields_cost {reg : Bool} {N : Nat} (hFld : CostFld reg N) {sn : List String} {m : Nat} :
    ∀ (fs : List Field) (vs : List GoVal) (segss : List (List Seg)), goodFs sn fs = true →
    wtF fs vs = true → vdepthL vs < N →
    (fs.zip vs).mapM (fun (fx : Field × GoVal) => fieldF m reg fx.1 fx.2) = .ok segss →
    segMax segss.flatten ≤ vcostL vs ∧ segss.flatten.length ≤ vsizeL vs := by
  intro fs
  induction fs with
  | nil =>
    intro vs segss _ hw _ h
    cases vs with
    | cons v vs => simp [wtF] at hw
    | nil =>
      simp only [List.zip_nil_right, mapM_nil, Except.ok.injEq] at h
      subst h
      simp [segMax, vsizeL]
  | cons f fs ih =>
    intro vs segss hg hw hd h
    cases vs with
    | nil => simp [wtF] at hw
    | cons x vs =>
      simp only [wtF, Bool.and_eq_true] at hw
      simp only [goodFs, Bool.and_eq_true] at hg
      simp only [vdepthL] at hd
      rw [List.zip_cons_cons, mapM_cons] at h
      cases hsg : fieldF m reg f x with
      | error e => simp [hsg] at h
      | ok segs =>
        cases hsr : (fs.zip vs).mapM (fun (fx : Field × GoVal) => fieldF m reg fx.1 fx.2) with
        | error e => simp [hsg, hsr] at h
        | ok segss' =>
          simp only [hsg, hsr, Except.ok.injEq] at h
          subst h
          obtain ⟨h1, h2⟩ := hFld sn f x (by omega) hg.1 hw.1.1 m segs hsg
          obtain ⟨h3, h4⟩ := ih vs segss' hg.2 hw.2 (by omega) hsr
          simp only [List.flatten_cons, segMax_append, List.length_append, vcostL, vsizeL]
          omega

theorem map_inv' {α β : Type} {x : Except RuleErr α} {f : α → β} {r : β} (h : x.map f = .ok r) :
    ∃ a, x = .ok a ∧ r = f a := by
  cases x with
  | error e => simp [Except.map] at h
  | ok a => simp only [Except.map, Except.ok.injEq] at h; exact ⟨a, rfl, h.symm⟩

theorem costF_step (reg : Bool) (N : Nat) (hF : CostF reg N) (hFld : CostFld reg N) : CostF reg (N + 1) := by
  intro sn T v hd hg hw m r hspec
  cases m with
  | zero => simp [foldF] at hspec
  | succ m' =>
  rw [foldF_under m' reg hg] at hspec
  have hgu := good_under hg
  generalize hU : T.under = U at hgu hspec
  cases U with
  | named a b c => simp [unnamedHead] at hgu
  | ref a => simp [unnamedHead] at hgu
  | slice e =>
    have he : goodT (snU sn T) e = true := by simpa [goodT] using hgu.1
    rcases wt_slice_inv hU hw with rfl | ⟨xs, rfl, hwl⟩
    · rw [foldF_slice_nil] at hspec; cases hspec
      exact ⟨by simp [rcost, rcostList, vcost], fun segs h => by cases h⟩
    · rw [foldF_slice] at hspec
      obtain ⟨rs, hrs, rfl⟩ := map_inv' hspec
      rw [vdepth_slice] at hd
      refine ⟨?_, fun segs h => by cases h⟩
      simp only [rcost, vcost]
      have := rcostList_le (mapM_ok hrs) (b := vcostL xs) (fun x hx r hr => by
        have := vdepthL_mem hx
        exact Nat.le_trans (hF _ e x (by omega) he (wtL_mem hwl hx) m' r hr).1 (vcostL_mem hx))
      omega
  | array n e =>
    have he : goodT (snU sn T) e = true := by simpa [goodT] using hgu.1
    obtain ⟨xs, rfl, hwl⟩ := wt_array_inv hU hw
    rw [foldF_array] at hspec
    obtain ⟨rs, hrs, rfl⟩ := map_inv' hspec
    rw [vdepth_array] at hd
    refine ⟨?_, fun segs h => by cases h⟩
    simp only [rcost, vcost]
    have := rcostList_le (mapM_ok hrs) (b := vcostL xs) (fun x hx r hr => by
      have := vdepthL_mem hx
      exact Nat.le_trans (hF _ e x (by omega) he (wtL_mem hwl hx) m' r hr).1 (vcostL_mem hx))
    omega
  | map k e =>
    have he : goodT (snU sn T) e = true := by
      have : goodT (snU sn T) k = true ∧ goodT (snU sn T) e = true := by simpa [goodT] using hgu.1
      exact this.2
    rcases wt_map_inv hU hw with rfl | ⟨ms, rfl, hwp, _⟩
    · rw [foldF_map_nil] at hspec
      split at hspec
      · cases hspec
        exact ⟨by simp [rcost, rcostSegs, vcost], fun segs h => by cases h; simp⟩
      · cases hspec
    · rw [foldF_map] at hspec
      split at hspec
      · cases hspec
      · obtain ⟨mems, hmems, rfl⟩ := map_inv' hspec
        rw [vdepth_map] at hd
        obtain ⟨h1, h2⟩ := rcostMems_le (mapM_ok hmems) (b := vcostP ms) (fun kx hkx r hr => by
          have := vdepthP_mem hkx
          exact Nat.le_trans (hF _ e kx.2 (by omega) he (wtP_mem hwp hkx) m' r hr).1 (vcostP_mem hkx))
        refine ⟨?_, ?_⟩
        · simp only [rcost, rcostSegs, vcost, if_true]
          omega
        · intro segs h
          cases h
          simp [vsize]
  | ptr e =>
    have he : goodT (snU sn T) e = true := by simpa [goodT] using hgu.1
    rcases wt_ptr_inv hU hw with rfl | ⟨x, rfl, hx⟩
    · rw [foldF_ptr_nil _ _ _ (customOf_good reg he)] at hspec; cases hspec
      exact ⟨by simp [rcost, vcost], fun segs h => by cases h⟩
    · rw [foldF_ptr] at hspec
      rw [vdepth_ptr] at hd
      obtain ⟨h1, h2⟩ := hF _ e x (by omega) he hx m' r hspec
      simp only [vcost, vsize]
      exact ⟨h1, fun segs h => Nat.le_succ_of_le (h2 segs h)⟩
  | iface =>
    rcases wt_iface_inv hU hw with rfl | ⟨dt, dv, rfl, hpd, _, hwd⟩
    · rw [foldF_iface_nil] at hspec; cases hspec
      exact ⟨by simp [rcost, vcost], fun segs h => by cases h⟩
    · rw [foldF_iface] at hspec
      cases htok : typeOk reg dt with
      | error e => simp [htok] at hspec
      | ok u =>
        simp only [htok] at hspec
        rw [vdepth_iface] at hd
        obtain ⟨h1, h2⟩ := hF [] dt dv (by omega) hpd hwd m' r hspec
        simp only [vcost, vsize]
        exact ⟨h1, fun segs h => Nat.le_succ_of_le (h2 segs h)⟩
  | struct fs =>
    have hfs : goodFs (snU sn T) fs = true := by simpa [goodT] using hgu.1
    obtain ⟨vs, rfl, hwf⟩ := wt_struct_inv hU hw
    rw [foldF_struct] at hspec
    obtain ⟨segss, hsegss, rfl⟩ := map_inv' hspec
    rw [vdepth_struct] at hd
    obtain ⟨h1, h2⟩ := fields_cost hFld fs vs segss hfs hwf (by omega) hsegss
    have h3 := rcostSegs_le segss.flatten
    have := vcostL_ge vs
    refine ⟨?_, ?_⟩
    · simp only [rcost, vcost]
      omega
    · intro segs h
      cases h
      simp only [vsize]
      omega
  | _ =>
    -- scalars, and the kinds that do not fold at all
    cases v <;> first
      | (simp [foldF, customOf, GoType.whnf, GoType.under] at hspec; done)
      | (have := hspec; simp only [foldF_bool, foldF_string, foldF_int, foldF_f32, foldF_f64, Except.ok.injEq] at this
         subst this
         exact ⟨by simp [rcost, vcost], fun segs h => by cases h⟩)

theorem segMax_le (segs : List Seg) : segMax segs + 1 ≤ rcostSegs segs := by
  induction segs with
  | nil => simp [rcostSegs, segMax]
  | cons s rest ih =>
    obtain ⟨u, mems⟩ := s
    simp only [rcostSegs, segMax]
    omega

theorem costI_step (reg : Bool) (N : Nat) (hF1 : CostF reg (N + 1)) (hI : CostI reg N) (hFld : CostFld reg N) :
    CostI reg (N + 1) := by
  intro sn T v hd hg hw m segs hspec
  cases m with
  | zero => simp [inlineF] at hspec
  | succ m' =>
  rw [inlineF_under m' reg hg] at hspec
  have hgu := good_under hg
  have hwU : wt T.under v = true := by
    conv => lhs; unfold wt
    rw [under_under hg]
    unfold wt at hw
    exact hw
  -- what the whole value folds to, when it is asked for as an object
  have hobj : ∀ segs', foldF m' reg T.under v = .ok (.obj segs') →
      segMax segs' ≤ vcost v ∧ segs'.length ≤ vsize v := by
    intro segs' hf
    obtain ⟨h1, h2⟩ := hF1 _ T.under v hd hgu.1 hwU m' _ hf
    have := segMax_le segs'
    simp only [rcost] at h1
    exact ⟨by omega, h2 segs' rfl⟩
  generalize hU : T.under = U at hspec hgu hobj
  cases U with
  | named a b c => simp [unnamedHead] at hgu
  | ref a => simp [unnamedHead] at hgu
  | ptr e =>
    have he : goodT (snU sn T) e = true := by simpa [goodT] using hgu.1
    rcases wt_ptr_inv hU hw with rfl | ⟨x, rfl, hx⟩
    · have : inlineF (m' + 1) reg (.ptr e) .nilPtr = .ok [] := rfl
      rw [this] at hspec; cases hspec; simp [segMax]
    · have : inlineF (m' + 1) reg (.ptr e) (.ptr x) = inlineF m' reg e x := rfl
      rw [this] at hspec
      rw [vdepth_ptr] at hd
      obtain ⟨h1, h2⟩ := hI _ e x (by omega) he hx m' segs hspec
      simp only [vcost, vsize]
      omega
  | struct fs =>
    have hfs : goodFs (snU sn T) fs = true := by simpa [goodT] using hgu.1
    obtain ⟨vs, rfl, hwf⟩ := wt_struct_inv hU hw
    rw [inlineF_struct] at hspec
    obtain ⟨segss, hsegss, rfl⟩ := map_inv' hspec
    rw [vdepth_struct] at hd
    obtain ⟨h1, h2⟩ := fields_cost hFld fs vs segss hfs hwf (by omega) hsegss
    simp only [vcost, vsize]
    omega
  | map k e =>
    exact hobj segs (inlineF_map hspec)
  | iface =>
    rcases wt_iface_inv hU hw with rfl | ⟨dt, dv, rfl, _, _, _⟩
    · have : inlineF (m' + 1) reg .iface .nilIface = .ok [] := rfl
      rw [this] at hspec; cases hspec; simp [segMax]
    · have : inlineF (m' + 1) reg .iface (.iface dt dv) =
          match foldF m' reg .iface (.iface dt dv) with
          | .ok (.obj segs) => .ok segs
          | .ok _ => .error .inlineNeedsObject
          | .error e => .error e := rfl
      rw [this] at hspec
      cases hf : foldF m' reg .iface (.iface dt dv) with
      | error e => simp [hf] at hspec
      | ok r =>
        cases r <;> simp [hf] at hspec
        subst hspec
        exact hobj _ hf
  | _ => cases v <;> simp [inlineF, customOf, GoType.whnf, GoType.under] at hspec

theorem costFld_step (reg : Bool) (N : Nat) (hF : CostF reg N) (hI : CostI reg N) : CostFld reg N := by
  intro sn f v hd hg hw m segs hspec
  cases m with
  | zero => simp [fieldF] at hspec
  | succ m' =>
  rw [fieldF_eq] at hspec
  have hpt := goodF_typ hg
  have hmember : ∀ name, (foldF m' reg f.typ v).map (memberSeg name) = .ok segs →
      segMax segs ≤ vcost v ∧ segs.length ≤ vsize v := by
    intro name h
    obtain ⟨r, hr, rfl⟩ := map_inv' h
    obtain ⟨h1, _⟩ := hF sn f.typ v hd hpt hw m' r hr
    have := vsize_pos v
    simp only [memberSeg, segMax, rcostMems, Bool.false_eq_true, if_false, List.length_cons, List.length_nil]
    omega
  cases hk : fieldKind f with
  | drop => simp only [hk, Except.ok.injEq] at hspec; subst hspec; simp [segMax]
  | conflict => simp [hk] at hspec
  | inline => simp only [hk] at hspec; exact hI sn f.typ v hd hpt hw m' segs hspec
  | omitEmpty name =>
    simp only [hk] at hspec
    split at hspec
    · simp only [Except.ok.injEq] at hspec; subst hspec; simp [segMax]
    · exact hmember name hspec
  | plain name => simp only [hk] at hspec; exact hmember name hspec

theorem cost_all (reg : Bool) : ∀ N, CostF reg N ∧ CostI reg N ∧ CostFld reg N := by
  intro N
  induction N with
  | zero =>
    refine ⟨?_, ?_, ?_⟩
    · intro sn T v hd; omega
    · intro sn T v hd; omega
    · intro sn f v hd; omega
  | succ N ih =>
    obtain ⟨hF, hI, hFld⟩ := ih
    have hF1 := costF_step reg N hF hFld
    have hI1 := costI_step reg N hF1 hI hFld
    exact ⟨hF1, hI1, costFld_step reg (N + 1) hF1 hI1⟩

/-- the comparison fuel of what a typed value of a good type folds to, from the value alone -/
theorem rcost_le_vcost {reg : Bool} {sn : List String} {T : GoType} {v : GoVal} {r : RVal}
    (hg : goodT sn T = true) (hw : wt T v = true) (hspec : Rules.foldR T v reg = .ok r) :
    rcost r ≤ vcost v := by
  unfold Rules.foldR at hspec
  cases htok : typeOk reg T with
  | error e => simp [htok] at hspec
  | ok u =>
    simp only [htok] at hspec
    exact ((cost_all reg (vdepth v + 1)).1 sn T v (Nat.lt_succ_self _) hg hw _ r hspec).1

end SF.FoldProofs
