/-
  C04, converse direction, for the JSON parser mirror: THE LANGUAGE THE PARSER ACCEPTS, as
  predicates on the concrete syntax trees `J` of SF/Proofs/JsonGrammar.lean.

  The parser is lenient in three places; the predicates below are `J.ok` / `J.sem` /
  `J.tree` with exactly these leniencies built in:

  * WHITE SPACE is what Go's `unicode.IsSpace` says of a byte (`Utf8.isSpaceByte`: 0x09–0x0D,
    0x20, 0x85, 0xA0), not only the four characters of RFC 8259 (`allSp` for `allWs`) — but a
    NUMBER token ends only at one of the parser's stop characters (space, \t, \f, \n, \r, `,`,
    `]`, `}`), so the white space after a number element must begin with one of those
    (`numSep`);
  * NUMBER tokens denote (`numEvL`) what `numEv` says, and additionally `+` DIGIT+ (Go's
    strconv accepts a leading plus sign);
  * STRING tokens denote (`strValL`) what the parser's own `unquote` delivers: that is the
    reference lexer's value on every token the reference lexer accepts (`strVal`), and
    additionally `\'` is an escape and bytes that are not well-formed UTF-8 are passed through.

  `J.okL` / `J.semL` / `J.eventsL` are implied by / agree with `J.ok` / `J.sem` / `J.events`
  on the strict grammar (`okL_of_ok`, `semL_of_sem`).
-/
import SF.Proofs.JsonRefineSem
import SF.Proofs.JsonTrunc
set_option linter.unusedSimpArgs false
namespace SF.Json.Grammar
open SF SF.Json SF.Json.Parse SF.Json.Float SF.Json.ParseP ETree

/-- white space for the parser: bytes `unicode.IsSpace` accepts -/
def allSp (ws : Bytes) : Bool := ws.all Utf8.isSpaceByte

/-- white space after a number token inside a text: none (then `,` `]` `}` follows) or
beginning with a stop character -/
def numSep : Bytes → Bool
  | [] => true
  | c :: _ => isStopChar c

/-- white space after a number document of a stream: not empty, beginning with a stop character -/
def numSepTop : Bytes → Bool
  | [] => false
  | c :: _ => isStopChar c

/-! ## what the tokens denote for the parser -/

/-- sign and digits of `[+-]? DIGIT+` -/
def intPartsL (tok : Bytes) : Option (Bool × Bytes) :=
  let (neg, ds) : Bool × Bytes := match tok with
    | c :: tl => if c == ch '+' then (false, tl) else if c == ch '-' then (true, tl) else (false, tok)
    | [] => (false, [])
  if !ds.isEmpty && ds.all Parse.isDigit then some (neg, ds) else none

/-- the event of an integer token `[+-]? DIGIT+` -/
def intEvOf (tok : Bytes) : Option Ev :=
  match intPartsL tok with
  | some (neg, ds) => intEv neg (digitsVal ds)
  | none => none

/-- the event a number token denotes FOR THE PARSER: as `numEv`, and `+` DIGIT+ -/
def numEvL (tok : Bytes) : Option Ev :=
  if isDblTok tok then
    match parseFloat tok with
    | .ok bits => some (.f64 bits)
    | _ => none
  else intEvOf tok

/-- the value of a string token FOR THE PARSER: what `unquote` makes of the body -/
def strValL (raw : Bytes) : Option Bytes :=
  match unquote raw with
  | .ok s => some s
  | .error _ => none

theorem strValL_some {raw s : Bytes} (h : strValL raw = some s) : unquote raw = .ok s := by
  unfold strValL at h
  cases hu : unquote raw with
  | ok t => rw [hu] at h; simp only [Option.some.injEq] at h; rw [h]
  | error e => rw [hu] at h; simp at h

theorem strValL_none {raw : Bytes} (h : strValL raw = none) : ∃ e, unquote raw = .error e := by
  unfold strValL at h
  cases hu : unquote raw with
  | ok t => rw [hu] at h; simp at h
  | error e => exact ⟨e, rfl⟩

theorem strValL_of_unquote {raw s : Bytes} (h : unquote raw = .ok s) : strValL raw = some s := by
  unfold strValL; rw [h]

/-- every string token the reference lexer accepts denotes the same for the parser -/
theorem strValL_of_strVal {raw s : Bytes} (h : strVal raw = some s) : strValL raw = some s :=
  strValL_of_unquote (strVal_unquote raw s h).1

theorem digit_not_sign (c : UInt8) (h : Parse.isDigit c = true) : (c == ch '+') = false ∧ (c == ch '-') = false := by
  have := (digit_val c h).2.2
  have h43 : (ch '+').toNat = 43 := by decide
  have h45 : (ch '-').toNat = 45 := by decide
  constructor
  · cases hcc : c == ch '+' with
    | false => rfl
    | true => have := congrArg UInt8.toNat (beq_iff_eq.mp hcc); omega
  · cases hcc : c == ch '-' with
    | false => rfl
    | true => have := congrArg UInt8.toNat (beq_iff_eq.mp hcc); omega

theorem intPartsL_of_intParts {tok : Bytes} {x : Bool × Bytes} (h : intParts tok = some x) :
    intPartsL tok = some x := by
  obtain ⟨neg, ds⟩ := x
  obtain ⟨rfl, hne, hd⟩ := intParts_some tok neg ds h
  have hmp : (ch '-' == ch '+') = false := by decide
  cases neg with
  | true =>
    simp only [if_true, List.cons_append, List.nil_append, intPartsL, hmp, beq_self_eq_true, Bool.false_eq_true,
      if_false, hd, Bool.and_true]
    cases ds with
    | nil => exact absurd rfl hne
    | cons _ _ => rfl
  | false =>
    cases ds with
    | nil => exact absurd rfl hne
    | cons c t =>
      have hc : Parse.isDigit c = true := by simp only [List.all_cons, Bool.and_eq_true] at hd; exact hd.1
      obtain ⟨h1, h2⟩ := digit_not_sign c hc
      simp only [Bool.false_eq_true, if_false, List.nil_append, intPartsL, h1, h2, hd, Bool.and_true]
      rfl

/-- every number token that denotes, denotes the same for the parser -/
theorem numEvL_of_numEv {tok : Bytes} {ev : Ev} (h : numEv tok = some ev) : numEvL tok = some ev := by
  unfold numEv at h
  unfold numEvL
  cases hd : isDblTok tok with
  | true =>
    simp only [hd, if_true] at h ⊢
    cases hp : parseFloat tok with
    | ok bits => rw [hp] at h; simpa using h
    | syntaxErr => rw [hp] at h; simp at h
    | rangeErr b => rw [hp] at h; simp at h
    | unmodelled => rw [hp] at h; simp at h
  | false =>
    simp only [hd, Bool.false_eq_true, if_false, intEvOf] at h ⊢
    cases hi : intParts tok with
    | none => rw [hi] at h; simp at h
    | some x => rw [hi] at h; rw [intPartsL_of_intParts hi]; exact h

/-! ## the lenient grammar -/

mutual
/-- `J.ok` with the parser's white space -/
def J.okL : J → Bool
  | .lit _ => true
  | .num tok => tokOk tok
  | .str raw => bodyOk raw
  | .arr ws body => allSp ws && body.okL
  | .obj ws body => allSp ws && body.okL
def ABody.okL : ABody → Bool
  | .close => true
  | .elems e ws tl => e.okL && allSp ws && (!e.isNum || numSep ws) && tl.okL
def ATail.okL : ATail → Bool
  | .close => true
  | .more ws1 e ws2 tl => allSp ws1 && e.okL && allSp ws2 && (!e.isNum || numSep ws2) && tl.okL
def OBody.okL : OBody → Bool
  | .close => true
  | .mems key ws1 ws2 v ws3 tl =>
    bodyOk key && allSp ws1 && allSp ws2 && v.okL && allSp ws3 && (!v.isNum || numSep ws3) && tl.okL
def OTail.okL : OTail → Bool
  | .close => true
  | .more ws0 key ws1 ws2 v ws3 tl =>
    allSp ws0 && bodyOk key && allSp ws1 && allSp ws2 && v.okL && allSp ws3 && (!v.isNum || numSep ws3) && tl.okL
end

mutual
/-- `J.sem` for the parser: every token of the text denotes for the parser -/
def J.semL : J → Bool
  | .lit _ => true
  | .num tok => (numEvL tok).isSome
  | .str raw => (strValL raw).isSome
  | .arr _ body => body.semL
  | .obj _ body => body.semL
def ABody.semL : ABody → Bool
  | .close => true
  | .elems e _ tl => e.semL && tl.semL
def ATail.semL : ATail → Bool
  | .close => true
  | .more _ e _ tl => e.semL && tl.semL
def OBody.semL : OBody → Bool
  | .close => true
  | .mems key _ _ v _ tl => (strValL key).isSome && v.semL && tl.semL
def OTail.semL : OTail → Bool
  | .close => true
  | .more _ key _ _ v _ tl => (strValL key).isSome && v.semL && tl.semL
end

def numTreeL (tok : Bytes) : ETree := match numEvL tok with
  | some ev => evTree ev
  | none => .null

mutual
/-- `J.tree` with the parser's reading of the tokens -/
def J.treeL : J → ETree
  | .lit k => litTree k
  | .num tok => numTreeL tok
  | .str raw => .str ((strValL raw).getD [])
  | .arr _ body => .arr (-1) BT.any body.treesL
  | .obj _ body => .obj (-1) BT.any body.membersL
def ABody.treesL : ABody → List ETree
  | .close => []
  | .elems e _ tl => e.treeL :: tl.treesL
def ATail.treesL : ATail → List ETree
  | .close => []
  | .more _ e _ tl => e.treeL :: tl.treesL
def OBody.membersL : OBody → List (Bytes × ETree)
  | .close => []
  | .mems key _ _ v _ tl => ((strValL key).getD [], v.treeL) :: tl.membersL
def OTail.membersL : OTail → List (Bytes × ETree)
  | .close => []
  | .more _ key _ _ v _ tl => ((strValL key).getD [], v.treeL) :: tl.membersL
end

/-- the events of the text, as the parser reads its tokens -/
def J.eventsL (v : J) : List Ev := v.treeL.events
/-- the value of the text, as the parser reads its tokens -/
def J.valueL (v : J) : Val := v.treeL.value

theorem J.build_eventsL (v : J) : build v.eventsL = some v.valueL := SF.build_events v.treeL

theorem numEvL_shape (tok : Bytes) (ev : Ev) (h : numEvL tok = some ev) : (evTree ev).events = [ev] := by
  unfold numEvL at h
  split at h
  · split at h
    · simp only [Option.some.injEq] at h; subst h; rfl
    · simp at h
  · unfold intEvOf at h
    split at h
    · rename_i neg ds _
      unfold intEv at h
      repeat' split at h
      all_goals first | (simp only [Option.some.injEq] at h; subst h; rfl) | simp at h
    · simp at h

theorem numTreeL_events (tok : Bytes) (ev : Ev) (h : numEvL tok = some ev) : (numTreeL tok).events = [ev] := by
  unfold numTreeL; rw [h]; exact numEvL_shape tok ev h

/-! ## the strict grammar is part of the lenient one -/

theorem allSp_of_allWs {ws : Bytes} (h : allWs ws = true) : allSp ws = true := by
  induction ws with
  | nil => rfl
  | cons a t ih =>
    simp only [allWs, List.all_cons, Bool.and_eq_true] at h
    simp only [allSp, List.all_cons, Bool.and_eq_true]
    exact ⟨(isWs_space a h.1).1, ih h.2⟩

theorem numSep_of_allWs {ws : Bytes} (h : allWs ws = true) : numSep ws = true := by
  cases ws with
  | nil => rfl
  | cons a t =>
    simp only [allWs, List.all_cons, Bool.and_eq_true] at h
    exact (isWs_space a h.1).2

mutual
theorem J.okL_of_ok : (v : J) → v.ok = true → v.okL = true
  | .lit _, _ => rfl
  | .num _, h => h
  | .str _, h => h
  | .arr ws body, h => by
    simp only [J.ok, Bool.and_eq_true] at h
    simp only [J.okL, Bool.and_eq_true]
    exact ⟨allSp_of_allWs h.1, ABody.okL_of_ok body h.2⟩
  | .obj ws body, h => by
    simp only [J.ok, Bool.and_eq_true] at h
    simp only [J.okL, Bool.and_eq_true]
    exact ⟨allSp_of_allWs h.1, OBody.okL_of_ok body h.2⟩
theorem ABody.okL_of_ok : (b : ABody) → b.ok = true → b.okL = true
  | .close, _ => rfl
  | .elems e ws tl, h => by
    simp only [ABody.ok, Bool.and_eq_true] at h
    simp only [ABody.okL, Bool.and_eq_true, Bool.or_eq_true]
    exact ⟨⟨⟨J.okL_of_ok e h.1.1, allSp_of_allWs h.1.2⟩, Or.inr (numSep_of_allWs h.1.2)⟩, ATail.okL_of_ok tl h.2⟩
theorem ATail.okL_of_ok : (t : ATail) → t.ok = true → t.okL = true
  | .close, _ => rfl
  | .more ws1 e ws2 tl, h => by
    simp only [ATail.ok, Bool.and_eq_true] at h
    simp only [ATail.okL, Bool.and_eq_true, Bool.or_eq_true]
    exact ⟨⟨⟨⟨allSp_of_allWs h.1.1.1, J.okL_of_ok e h.1.1.2⟩, allSp_of_allWs h.1.2⟩,
      Or.inr (numSep_of_allWs h.1.2)⟩, ATail.okL_of_ok tl h.2⟩
theorem OBody.okL_of_ok : (b : OBody) → b.ok = true → b.okL = true
  | .close, _ => rfl
  | .mems key ws1 ws2 v ws3 tl, h => by
    simp only [OBody.ok, Bool.and_eq_true] at h
    obtain ⟨⟨⟨⟨⟨h1, h2⟩, h3⟩, h4⟩, h5⟩, h6⟩ := h
    simp only [OBody.okL, Bool.and_eq_true, Bool.or_eq_true]
    exact ⟨⟨⟨⟨⟨⟨h1, allSp_of_allWs h2⟩, allSp_of_allWs h3⟩, J.okL_of_ok v h4⟩, allSp_of_allWs h5⟩,
      Or.inr (numSep_of_allWs h5)⟩, OTail.okL_of_ok tl h6⟩
theorem OTail.okL_of_ok : (t : OTail) → t.ok = true → t.okL = true
  | .close, _ => rfl
  | .more ws0 key ws1 ws2 v ws3 tl, h => by
    simp only [OTail.ok, Bool.and_eq_true] at h
    obtain ⟨⟨⟨⟨⟨⟨h0, h1⟩, h2⟩, h3⟩, h4⟩, h5⟩, h6⟩ := h
    simp only [OTail.okL, Bool.and_eq_true, Bool.or_eq_true]
    exact ⟨⟨⟨⟨⟨⟨⟨allSp_of_allWs h0, h1⟩, allSp_of_allWs h2⟩, allSp_of_allWs h3⟩, J.okL_of_ok v h4⟩,
      allSp_of_allWs h5⟩, Or.inr (numSep_of_allWs h5)⟩, OTail.okL_of_ok tl h6⟩
end

theorem isSome_strValL {raw : Bytes} (h : (strVal raw).isSome = true) :
    (strValL raw).isSome = true ∧ (strValL raw).getD [] = (strVal raw).getD [] := by
  obtain ⟨s, hs⟩ := Option.isSome_iff_exists.mp h
  rw [strValL_of_strVal hs, hs]; exact ⟨rfl, rfl⟩

mutual
theorem J.semL_of_sem : (v : J) → v.sem = true → v.semL = true ∧ v.treeL = v.tree
  | .lit _, _ => ⟨rfl, rfl⟩
  | .num tok, h => by
    simp only [J.sem] at h
    obtain ⟨ev, hev⟩ := Option.isSome_iff_exists.mp h
    simp [J.semL, J.treeL, J.tree, numTreeL, numTree, numEvL_of_numEv hev, hev]
  | .str raw, h => by
    simp only [J.sem] at h
    obtain ⟨k1, k2⟩ := isSome_strValL h
    simp [J.semL, J.treeL, J.tree, k1, k2]
  | .arr _ body, h => by
    simp only [J.sem] at h
    obtain ⟨k1, k2⟩ := ABody.semL_of_sem body h
    simp [J.semL, J.treeL, J.tree, k1, k2]
  | .obj _ body, h => by
    simp only [J.sem] at h
    obtain ⟨k1, k2⟩ := OBody.semL_of_sem body h
    simp [J.semL, J.treeL, J.tree, k1, k2]
theorem ABody.semL_of_sem : (b : ABody) → b.sem = true → b.semL = true ∧ b.treesL = b.trees
  | .close, _ => ⟨rfl, rfl⟩
  | .elems e _ tl, h => by
    simp only [ABody.sem, Bool.and_eq_true] at h
    obtain ⟨k1, k2⟩ := J.semL_of_sem e h.1
    obtain ⟨j1, j2⟩ := ATail.semL_of_sem tl h.2
    simp [ABody.semL, ABody.treesL, ABody.trees, k1, k2, j1, j2]
theorem ATail.semL_of_sem : (t : ATail) → t.sem = true → t.semL = true ∧ t.treesL = t.trees
  | .close, _ => ⟨rfl, rfl⟩
  | .more _ e _ tl, h => by
    simp only [ATail.sem, Bool.and_eq_true] at h
    obtain ⟨k1, k2⟩ := J.semL_of_sem e h.1
    obtain ⟨j1, j2⟩ := ATail.semL_of_sem tl h.2
    simp [ATail.semL, ATail.treesL, ATail.trees, k1, k2, j1, j2]
theorem OBody.semL_of_sem : (b : OBody) → b.sem = true → b.semL = true ∧ b.membersL = b.members
  | .close, _ => ⟨rfl, rfl⟩
  | .mems key _ _ v _ tl, h => by
    simp only [OBody.sem, Bool.and_eq_true] at h
    obtain ⟨i1, i2⟩ := isSome_strValL h.1.1
    obtain ⟨k1, k2⟩ := J.semL_of_sem v h.1.2
    obtain ⟨j1, j2⟩ := OTail.semL_of_sem tl h.2
    simp [OBody.semL, OBody.membersL, OBody.members, i1, i2, k1, k2, j1, j2]
theorem OTail.semL_of_sem : (t : OTail) → t.sem = true → t.semL = true ∧ t.membersL = t.members
  | .close, _ => ⟨rfl, rfl⟩
  | .more _ key _ _ v _ tl, h => by
    simp only [OTail.sem, Bool.and_eq_true] at h
    obtain ⟨i1, i2⟩ := isSome_strValL h.1.1
    obtain ⟨k1, k2⟩ := J.semL_of_sem v h.1.2
    obtain ⟨j1, j2⟩ := OTail.semL_of_sem tl h.2
    simp [OTail.semL, OTail.membersL, OTail.members, i1, i2, k1, k2, j1, j2]
end

theorem J.eventsL_of_sem (v : J) (h : v.sem = true) : v.eventsL = v.events := by
  simp only [J.eventsL, J.events, (J.semL_of_sem v h).2]

/-! ## the first byte of a text -/

theorem valueStart_facts : ∀ a : UInt8,
    (a == ch '-' || a == ch '+' || a == ch '.' || Parse.isDigit a || a == 0x6e || a == 0x74 || a == 0x66 ||
      a == 0x22 || a == 0x5b || a == 0x7b) = true →
    Utf8.isSpaceByte a = false ∧ isStopChar a = false := by
  apply forall_uint8; decide +kernel

/-- a text begins with a byte that is neither white space nor a stop character -/
theorem J.wire_firstL (v : J) (hok : v.okL = true) :
    ∃ x t, v.wire = x :: t ∧ Utf8.isSpaceByte x = false ∧ isStopChar x = false := by
  cases v with
  | lit k => cases k <;> exact ⟨_, _, rfl, by decide, by decide⟩
  | num tok =>
    cases tok with
    | nil => simp [J.okL, tokOk] at hok
    | cons a t =>
      simp only [J.okL, tokOk, Bool.and_eq_true] at hok
      have := valueStart_facts a (by
        have := hok.1
        simp only [Bool.or_eq_true] at this ⊢
        rcases this with ((h | h) | h) | h <;> simp [h])
      exact ⟨a, t, rfl, this.1, this.2⟩
  | str raw => exact ⟨_, _, rfl, by decide, by decide⟩
  | arr ws body => exact ⟨_, _, rfl, by decide, by decide⟩
  | obj ws body => exact ⟨_, _, rfl, by decide, by decide⟩

/-! ## examples: what the leniencies are -/

/-- `+5`, `007`, `.5`, `5.`, hexadecimal floats denote for the parser (not for RFC 8259); a
sign alone, a dot alone, `0x10`, `1x` do not -/
example :
    numEvL [0x2b, 0x35] = some (.num .i64 5) ∧ numEv [0x2b, 0x35] = none ∧
    numEvL [0x30, 0x30, 0x37] = some (.num .i64 7) ∧
    (numEvL [0x2e, 0x35]).isSome = true ∧ (numEvL [0x35, 0x2e]).isSome = true ∧
    numEvL [0x2d] = none ∧ numEvL [0x2b] = none ∧ numEvL [0x2e] = none ∧
    numEvL [0x30, 0x78, 0x31, 0x30] = none ∧ numEvL [0x31, 0x78] = none := by
  decide +kernel

/-- `\'` and bytes that are not UTF-8 denote for the parser, not for the reference lexer;
an unknown escape, a raw control character denote for neither -/
example :
    strValL [0x5c, 0x27] = some [0x27] ∧ strVal [0x5c, 0x27] = none ∧
    strValL [0xff] = some [0xff] ∧ strVal [0xff] = none ∧
    strValL [0x5c, 0x78] = none ∧ strValL [0x0a] = none := by
  decide +kernel

end SF.Json.Grammar
