/-
  C03 (truncation clause) for the JSON parser mirror, INPUT-LEVEL form: every proper non-empty
  prefix of a grammatical JSON text (SF/Proofs/JsonGrammar.lean) that is not a bare number is
  an error — for `Parse` and, by chunk independence, for `Write*` + end of input in any
  chunking.

  Method: the parser is run over the text token by token.  For every syntactic category and
  every state the parser can be in at its beginning, (1) the text of the category leads —
  whatever follows — to an error or to the state after the category (`Leads`), and (2) after
  every proper prefix of it the parser has reported an error or is deeper in its stack than
  at the beginning (`PrefOK`).  Both compose along concatenation.
-/
import SF.Proofs.JsonGrammar
import SF.Proofs.JsonShape
import SF.Proofs.JsonChunk
set_option linter.unusedSimpArgs false
namespace SF.Json.ParseP
open SF SF.Json SF.Json.Parse SF.Json.Float SF.Json.Grammar

/-! ## generalities -/

theorem prefix_append_cases {α : Type} {z a b : List α} (h : z <+: a ++ b) :
    z <+: a ∨ ∃ z', z = a ++ z' ∧ z' <+: b := by
  induction a generalizing z with
  | nil => exact Or.inr ⟨z, rfl, h⟩
  | cons x a ih =>
    cases z with
    | nil => exact Or.inl (List.nil_prefix)
    | cons y z =>
      simp only [List.cons_append, List.cons_prefix_cons] at h
      obtain ⟨rfl, h⟩ := h
      rcases ih h with h1 | ⟨z', rfl, h2⟩
      · exact Or.inl (by simp [List.cons_prefix_cons, h1])
      · exact Or.inr ⟨z', rfl, h2⟩

theorem prefix_cons_cases {α : Type} {z : List α} {x : α} {b : List α} (h : z <+: x :: b) :
    z = [] ∨ ∃ z', z = x :: z' ∧ z' <+: b := by
  cases z with
  | nil => exact Or.inl rfl
  | cons y z =>
    simp only [List.cons_prefix_cons] at h
    exact Or.inr ⟨z, by rw [h.1], h.2⟩

theorem isWs_space : ∀ c : UInt8, isWs c = true → Utf8.isSpaceByte c = true ∧ isStopChar c = true := by
  apply forall_uint8; decide +kernel

theorem allWs_prefix {z ws : Bytes} (h : z <+: ws) (hws : allWs ws = true) : allWs z = true := by
  obtain ⟨t, rfl⟩ := h
  simp only [allWs, List.all_append, Bool.and_eq_true] at hws
  exact hws.1

/-- a run ended in an error -/
def Errs (x : P × Option Err) : Prop := x.2 ≠ none

theorem runA_wf (p : P) (b : Bytes) (h : WF p) : WF (runA p b).1 := by
  rw [← feedAll_run p b h.inv]
  exact feed_wf _ p b h

/-- one step that takes `w` off the front -/
theorem runA_of_step (p : P) (b : Bytes) (hb : b ≠ []) (hinv : Inv p) (q : P) (more : Bytes) (e : Option Err)
    (rep : Bool) (h : execStep p b = ({ p := q, rest := more, reported := rep, err := e }, false)) :
    (e = none → runA p b = runA q more) ∧ (e ≠ none → Errs (runA p b)) := by
  rw [runA_step p b hb hinv, h]
  cases e with
  | none => simp
  | some e => simp [Errs]

/-! ## white space -/

theorem execStep_space (p : P) (a : UInt8) (rest : Bytes) (ht : trims p.currentState = true)
    (h : Utf8.isSpaceByte a = true) :
    execStep p [a] = ({ p := p, rest := [] }, false) ∧ execStep p (a :: rest) = execStep p rest := by
  constructor
  · unfold execStep
    cases hcs : p.currentState <;> rw [hcs] at ht <;> simp [trims] at ht
    all_goals simp only [stepStart, fun ret => (stepValue_space p a rest ret h).1,
      fun ae => (stepArray_space p a rest ae h).1, (stepArrValueEnd_space p a rest h).1,
      fun ae => (stepDict_space p a rest ae h).1, (stepDictValueEnd_space p a rest h).1,
      trimLeft_space _ h, trimLeft, h, if_true]
  · unfold execStep
    cases hcs : p.currentState <;> rw [hcs] at ht <;> simp [trims] at ht
    all_goals simp only [stepStart, fun ret => (stepValue_space p a rest ret h).2,
      fun ae => (stepArray_space p a rest ae h).2, (stepArrValueEnd_space p a rest h).2,
      fun ae => (stepDict_space p a rest ae h).2, (stepDictValueEnd_space p a rest h).2,
      trimLeft_space _ h]

theorem runA_skip1 (p : P) (a : UInt8) (rest : Bytes) (hinv : Inv p) (ht : trims p.currentState = true)
    (h : Utf8.isSpaceByte a = true) : runA p (a :: rest) = runA p rest := by
  obtain ⟨h1, h2⟩ := execStep_space p a rest ht h
  by_cases hr : rest = []
  · subst hr
    rw [runA_step p [a] (by simp) hinv, h1]
    simp
  · rw [runA_step p (a :: rest) (by simp) hinv, runA_step p rest hr hinv, h2]

/-- white space is skipped in the states between tokens -/
theorem runA_skip (p : P) (ws w : Bytes) (hinv : Inv p) (ht : trims p.currentState = true)
    (hws : allWs ws = true) : runA p (ws ++ w) = runA p w := by
  induction ws with
  | nil => rfl
  | cons a ws ih =>
    simp only [allWs, List.all_cons, Bool.and_eq_true] at hws
    rw [List.cons_append, runA_skip1 p a _ hinv ht (isWs_space a hws.1).1]
    exact ih hws.2

/-! ## state classes, `Leads`, `PrefOK` -/

/-- nothing buffered, no escape pending -/
def Clean (p : P) : Prop := p.literalBuffer = [] ∧ p.inEscape = false

/-- in state `c` with stack `S`, well-formed and clean -/
structure At (p : P) (c : St) (S : List St) : Prop where
  wf : WF p
  clean : Clean p
  cs : p.currentState = c
  st : p.states = S

/-- about to read a value, after which the state will be `r` and the stack `S` again -/
def ValueReady (p : P) (r : St) (S : List St) : Prop :=
  PushOk S r ∧
  ((At p .startState S ∧ r = .startState) ∨ (At p .dictFieldValue S ∧ r = .dictFieldStateEnd) ∨
    (At p .arrStateValue S ∧ r = .arrStateNext))

/-- deeper in the stack than `S`, and not merely by a number in progress directly on `S` -/
def Deep (S : List St) (q : P) : Prop :=
  q.states.length > S.length ∧ (q.currentState = .numberState → q.states.length > S.length + 1)

/-- … where a number in progress directly on `S` is allowed if the value is a number -/
def DeepJ (v : J) (S : List St) (q : P) : Prop :=
  q.states.length > S.length ∧
  (q.currentState = .numberState → v.isNum = true ∨ q.states.length > S.length + 1)

theorem Deep.toJ {v : J} {S : List St} {q : P} (h : Deep S q) : DeepJ v S q := ⟨h.1, fun hc => Or.inr (h.2 hc)⟩

theorem deep_of_cons {r : St} {S : List St} {q : P} {v : J} (h : DeepJ v (r :: S) q) : Deep S q := by
  obtain ⟨h1, h2⟩ := h
  simp only [List.length_cons] at h1 h2
  exact ⟨by omega, fun _ => by omega⟩

theorem deep_of_cons' {r : St} {S : List St} {q : P} (h : Deep (r :: S) q) : Deep S q := by
  obtain ⟨h1, h2⟩ := h
  simp only [List.length_cons] at h1 h2
  exact ⟨by omega, fun _ => by omega⟩

theorem deep_at {p : P} {c r : St} {S : List St} (h : At p c (r :: S)) (hc : c ≠ .numberState) : Deep S p := by
  refine ⟨by rw [h.st]; simp, fun hn => ?_⟩
  rw [h.cs] at hn; exact absurd hn hc

/-- the text `w` leads from `p` — whatever follows, as long as it satisfies `F` — to an
error or to a state of class `Q` with what follows still to be read -/
def Leads (p : P) (w : Bytes) (Q : P → Prop) (F : Bytes → Prop) : Prop :=
  ∀ more, F more → Errs (runA p (w ++ more)) ∨ ∃ p1, Q p1 ∧ runA p (w ++ more) = runA p1 more

/-- after every proper prefix of `w` the parser has failed or is in `D` -/
def PrefOK (p : P) (w : Bytes) (D : P → Prop) : Prop :=
  ∀ z, z <+: w → z ≠ w → Errs (runA p z) ∨ D (runA p z).1

def anyF : Bytes → Prop := fun _ => True

/-- what follows begins with a stop character -/
def stopF : Bytes → Prop := fun more => ∃ c t, more = c :: t ∧ isStopChar c = true

theorem leads_seq {p : P} {w1 w2 : Bytes} {Q Q' : P → Prop} {F1 F2 : Bytes → Prop}
    (h1 : Leads p w1 Q F1) (h2 : ∀ p1, Q p1 → Leads p1 w2 Q' F2) (hF : ∀ more, F2 more → F1 (w2 ++ more)) :
    Leads p (w1 ++ w2) Q' F2 := by
  intro more hm
  rw [List.append_assoc]
  rcases h1 (w2 ++ more) (hF more hm) with e | ⟨p1, q1, e1⟩
  · exact Or.inl e
  · rw [e1]; exact h2 p1 q1 more hm

/-- prefixes of `w1 ++ w2`: inside `w1`, exactly `w1`, or `w1` and a non-empty proper
prefix of `w2` -/
theorem pref_seq {p : P} {w1 w2 : Bytes} {Q : P → Prop} {F1 : Bytes → Prop} {D : P → Prop}
    (hp1 : PrefOK p w1 D)
    (hfull : w2 ≠ [] → Errs (runA p w1) ∨ D (runA p w1).1)
    (h1 : Leads p w1 Q F1)
    (h2 : ∀ p1, Q p1 → PrefOK p1 w2 D)
    (hF : ∀ z', z' <+: w2 → z' ≠ [] → F1 z') :
    PrefOK p (w1 ++ w2) D := by
  intro z hz hne
  rcases prefix_append_cases hz with hz1 | ⟨z', rfl, hz2⟩
  · by_cases he : z = w1
    · subst he
      apply hfull
      intro h2e; subst h2e; simp at hne
    · exact hp1 z hz1 he
  · by_cases hz' : z' = []
    · subst hz'
      simp only [List.append_nil] at hne ⊢
      apply hfull
      intro h2e; subst h2e; simp at hne
    · rcases h1 z' (hF z' hz2 hz') with e | ⟨p1, q1, e1⟩
      · exact Or.inl e
      · rw [e1]
        apply h2 p1 q1 z' hz2
        intro hc; subst hc; exact hne rfl

/-- white space in front, in a state that skips it -/
theorem leads_ws {p : P} {ws w : Bytes} {Q : P → Prop} {F : Bytes → Prop} (hinv : Inv p)
    (ht : trims p.currentState = true) (hws : allWs ws = true) (h : Leads p w Q F) : Leads p (ws ++ w) Q F := by
  intro more hm
  rw [List.append_assoc, runA_skip p ws _ hinv ht hws]
  exact h more hm

theorem pref_ws {p : P} {ws w : Bytes} {D : P → Prop} (hinv : Inv p)
    (ht : trims p.currentState = true) (hws : allWs ws = true) (hD : D p) (h : PrefOK p w D) :
    PrefOK p (ws ++ w) D := by
  intro z hz hne
  rcases prefix_append_cases hz with hz1 | ⟨z', rfl, hz2⟩
  · right
    have := runA_skip p z [] hinv ht (allWs_prefix hz1 hws)
    rw [List.append_nil, runA_nil] at this
    rw [this]; exact hD
  · rw [runA_skip p ws _ hinv ht hws]
    apply h z' hz2
    intro hc; subst hc; exact hne rfl

/-! ## single steps -/

/-- a step that takes the non-empty `w` off the front, whatever follows (subject to `F`) -/
theorem leads_of_step (p : P) (w : Bytes) (hw : w ≠ []) (Q : P → Prop) (F : Bytes → Prop) (hwf : WF p)
    (h : ∀ more, F more → ∃ q rep e,
      execStep p (w ++ more) = ({ p := q, rest := more, reported := rep, err := e }, false) ∧ (WF q → Q q)) :
    Leads p w Q F := by
  intro more hm
  obtain ⟨q, rep, e, he, hq⟩ := h more hm
  have hne : w ++ more ≠ [] := by intro hc; exact hw (List.append_eq_nil_iff.mp hc).1
  have hs := runA_of_step p (w ++ more) hne hwf.inv q more e rep he
  have hq' : WF q := by
    have := (execStep_wf p (w ++ more) hne hwf).2
    rw [he] at this; exact this
  cases e with
  | some e => exact Or.inl (hs.2 (by simp))
  | none => exact Or.inr ⟨q, hq hq', hs.1 rfl⟩

/-- a step that takes all of the non-empty `z` and stops there -/
theorem run_of_last_step (p : P) (z : Bytes) (hz : z ≠ []) (hwf : WF p) (q : P) (rep : Bool)
    (h : execStep p z = ({ p := q, rest := [], reported := rep, err := none }, false)) :
    runA p z = (q, none) := by
  rw [(runA_of_step p z hz hwf.inv q [] none rep h).1 rfl, runA_nil]

theorem pref_single (p : P) (x : UInt8) (D : P → Prop) (hD : D p) : PrefOK p [x] D := by
  intro z hz hne
  rcases prefix_cons_cases hz with rfl | ⟨z', rfl, hz'⟩
  · rw [runA_nil]; exact Or.inr hD
  · have : z' = [] := by simpa using hz'
    subst this; exact absurd rfl hne

/-- a step that consumes nothing and only changes the state -/
theorem runA_move (p q : P) (b : Bytes) (hb : b ≠ []) (hwf : WF p) (rep : Bool)
    (h : execStep p b = ({ p := q, rest := b, reported := rep, err := none }, false)) :
    runA p b = runA q b :=
  (runA_of_step p b hb hwf.inv q b none rep h).1 rfl

theorem leads_move {p q : P} {x : UInt8} {w : Bytes} {Q : P → Prop} {F : Bytes → Prop} (hwf : WF p)
    (h : ∀ t, ∃ rep, execStep p (x :: t) = ({ p := q, rest := x :: t, reported := rep, err := none }, false))
    (hl : Leads q (x :: w) Q F) : Leads p (x :: w) Q F := by
  intro more hm
  obtain ⟨rep, he⟩ := h (w ++ more)
  rw [List.cons_append, runA_move p q _ (by simp) hwf rep he]
  exact hl more hm

theorem pref_move {p q : P} {x : UInt8} {w : Bytes} {D : P → Prop} (hwf : WF p)
    (h : ∀ t, ∃ rep, execStep p (x :: t) = ({ p := q, rest := x :: t, reported := rep, err := none }, false))
    (hD : D p) (hl : PrefOK q (x :: w) D) : PrefOK p (x :: w) D := by
  intro z hz hne
  rcases prefix_cons_cases hz with rfl | ⟨z', rfl, hz'⟩
  · rw [runA_nil]; exact Or.inr hD
  · obtain ⟨rep, he⟩ := h z'
    rw [runA_move p q _ (by simp) hwf rep he]
    exact hl _ hz hne

theorem clean_visit {p : P} (e : Ev) (h : Clean p) : Clean (visit p e).1 := by rw [visit_fst]; exact h

theorem isRet_pushOk {S : List St} {r : St} (h : PushOk S r) : isRet r = true := isRet_of_pushOk h

/-- the state in which a value is read -/
theorem ValueReady.at {p : P} {r : St} {S : List St} (h : ValueReady p r S) :
    ∃ c, At p c S ∧ (∀ b, execStep p b = (stepValue p b r, false) ∨
      execStep p b = ({ stepValue p b r with reported := false }, false)) ∧ trims c = true := by
  rcases h.2 with ⟨h1, rfl⟩ | ⟨h1, rfl⟩ | ⟨h1, rfl⟩
  · exact ⟨_, h1, fun b => Or.inl (by unfold execStep; rw [h1.cs]; simp only [stepStart, h1.cs]), rfl⟩
  · exact ⟨_, h1, fun b => Or.inl (by unfold execStep; rw [h1.cs]), rfl⟩
  · exact ⟨_, h1, fun b => Or.inr (by unfold execStep; rw [h1.cs]), rfl⟩

/-- a step of `stepValue` as a step of the loop -/
theorem ValueReady.step {p : P} {r : St} {S : List St} (h : ValueReady p r S) (b : Bytes) (q : P)
    (more : Bytes) (rep : Bool) (e : Option Err)
    (hs : stepValue p b r = { p := q, rest := more, reported := rep, err := e }) :
    ∃ rep', execStep p b = ({ p := q, rest := more, reported := rep', err := e }, false) := by
  obtain ⟨c, _, hE, _⟩ := h.at
  rcases hE b with h1 | h1
  · exact ⟨rep, by rw [h1, hs]⟩
  · exact ⟨false, by rw [h1, hs]⟩

/-! ## brackets, commas, colons -/

theorem stepValue_lbrack (p : P) (r : St) (more : Bytes) :
    stepValue p (0x5b :: more) r =
      { p := (visit (pushState { p with currentState := r } .arrState) (.arrStart (-1) BT.any)).1, rest := more,
        err := (visit (pushState { p with currentState := r } .arrState) (.arrStart (-1) BT.any)).2 } := by
  unfold stepValue
  rw [trimLeft_ns _ (by decide)]
  rfl

theorem stepValue_lbrace (p : P) (r : St) (more : Bytes) :
    stepValue p (0x7b :: more) r =
      { p := (visit (pushState { p with currentState := r } .dictState) (.objStart (-1) BT.any)).1, rest := more,
        err := (visit (pushState { p with currentState := r } .dictState) (.objStart (-1) BT.any)).2 } := by
  unfold stepValue
  rw [trimLeft_ns _ (by decide)]
  rfl

theorem leads_lbrack {p : P} {r : St} {S : List St} (h : ValueReady p r S) :
    Leads p [0x5b] (fun q => At q .arrState (r :: S)) anyF := by
  obtain ⟨c, hat, _, _⟩ := h.at
  apply leads_of_step p [0x5b] (by simp) _ _ hat.wf
  intro more _
  obtain ⟨rep, he⟩ := h.step (0x5b :: more) _ more false _ (stepValue_lbrack p r more)
  refine ⟨_, rep, _, he, fun hq => ⟨hq, clean_visit _ ?_, ?_, ?_⟩⟩
  · rw [pushState_ret p r _ (isRet_pushOk h.1)]; exact hat.clean
  · rw [visit_cs, pushState_ret p r _ (isRet_pushOk h.1)]
  · rw [visit_fst, pushState_ret p r _ (isRet_pushOk h.1)]; simp only [hat.st]

theorem leads_lbrace {p : P} {r : St} {S : List St} (h : ValueReady p r S) :
    Leads p [0x7b] (fun q => At q .dictState (r :: S)) anyF := by
  obtain ⟨c, hat, _, _⟩ := h.at
  apply leads_of_step p [0x7b] (by simp) _ _ hat.wf
  intro more _
  obtain ⟨rep, he⟩ := h.step (0x7b :: more) _ more false _ (stepValue_lbrace p r more)
  refine ⟨_, rep, _, he, fun hq => ⟨hq, clean_visit _ ?_, ?_, ?_⟩⟩
  · rw [pushState_ret p r _ (isRet_pushOk h.1)]; exact hat.clean
  · rw [visit_cs, pushState_ret p r _ (isRet_pushOk h.1)]
  · rw [visit_fst, pushState_ret p r _ (isRet_pushOk h.1)]; simp only [hat.st]

theorem popState_cons (p : P) (r : St) (S : List St) (h : p.states = r :: S) :
    popState p = { p with currentState := r, states := S } := by
  unfold popState; rw [h]

theorem at_pop_visit {p : P} {c r : St} {S : List St} (h : At p c (r :: S)) (e : Ev)
    (hq : WF (visit (popState p) e).1) : At (visit (popState p) e).1 r S := by
  refine ⟨hq, clean_visit _ ?_, ?_, ?_⟩
  · rw [popState_cons p r S h.st]; exact h.clean
  · rw [visit_cs, popState_cons p r S h.st]
  · rw [visit_fst, popState_cons p r S h.st]

/-- `]` in arrState or arrStateNext -/
theorem leads_rbrack {p : P} {c r : St} {S : List St} (h : At p c (r :: S))
    (hc : c = .arrState ∨ c = .arrStateNext) : Leads p [0x5d] (fun q => At q r S) anyF := by
  apply leads_of_step p [0x5d] (by simp) _ _ h.wf
  intro more _
  refine ⟨(visit (popState p) .arrEnd).1, true, (visit (popState p) .arrEnd).2, ?_, fun hq => at_pop_visit h _ hq⟩
  rw [List.singleton_append]
  rcases hc with rfl | rfl
  · unfold execStep; rw [h.cs]; simp only [stepArray]; rw [trimLeft_ns _ (by decide)]; rfl
  · unfold execStep; rw [h.cs]; simp only [stepArrValueEnd]; rw [trimLeft_ns _ (by decide)]; rfl

/-- `}` in dictState or dictFieldStateEnd -/
theorem leads_rbrace {p : P} {c r : St} {S : List St} (h : At p c (r :: S))
    (hc : c = .dictState ∨ c = .dictFieldStateEnd) : Leads p [0x7d] (fun q => At q r S) anyF := by
  apply leads_of_step p [0x7d] (by simp) _ _ h.wf
  intro more _
  refine ⟨(visit (popState p) .objEnd).1, true, (visit (popState p) .objEnd).2, ?_, fun hq => at_pop_visit h _ hq⟩
  rw [List.singleton_append]
  rcases hc with rfl | rfl
  · unfold execStep; rw [h.cs]; simp only [stepDict]; rw [trimLeft_ns _ (by decide)]; rfl
  · unfold execStep; rw [h.cs]; simp only [stepDictValueEnd]; rw [trimLeft_ns _ (by decide)]; rfl

theorem at_setCs {p : P} {c c' : St} {S : List St} (h : At p c S) (hq : WF { p with currentState := c' }) :
    At { p with currentState := c' } c' S := ⟨hq, h.clean, rfl, h.st⟩

/-- `,` in arrStateNext -/
theorem leads_comma_arr {p : P} {S : List St} (h : At p .arrStateNext S) :
    Leads p [0x2c] (fun q => At q .arrStateValue S) anyF := by
  apply leads_of_step p [0x2c] (by simp) _ _ h.wf
  intro more _
  refine ⟨{ p with currentState := .arrStateValue }, false, none, ?_, fun hq => at_setCs h hq⟩
  rw [List.singleton_append]
  unfold execStep; rw [h.cs]; simp only [stepArrValueEnd]; rw [trimLeft_ns _ (by decide)]; rfl

/-- `,` in dictFieldStateEnd -/
theorem leads_comma_obj {p : P} {S : List St} (h : At p .dictFieldStateEnd S) :
    Leads p [0x2c] (fun q => At q .dictNextFieldState S) anyF := by
  apply leads_of_step p [0x2c] (by simp) _ _ h.wf
  intro more _
  refine ⟨{ p with currentState := .dictNextFieldState }, false, none, ?_, fun hq => at_setCs h hq⟩
  rw [List.singleton_append]
  unfold execStep; rw [h.cs]; simp only [stepDictValueEnd]; rw [trimLeft_ns _ (by decide)]; rfl

/-- `:` in dictFieldValueSep -/
theorem leads_colon {p : P} {S : List St} (h : At p .dictFieldValueSep S) :
    Leads p [0x3a] (fun q => At q .dictFieldValue S) anyF := by
  apply leads_of_step p [0x3a] (by simp) _ _ h.wf
  intro more _
  refine ⟨{ p with currentState := .dictFieldValue }, false, none, ?_, fun hq => at_setCs h hq⟩
  rw [List.singleton_append]
  unfold execStep; rw [h.cs]; simp only; rw [trimLeft_ns _ (by decide)]; rfl

/-! ## the steps that consume nothing -/

theorem move_arr {p : P} {S : List St} (h : At p .arrState S) (x : UInt8) (hsp : Utf8.isSpaceByte x = false)
    (hx : (x == ch ']') = false) :
    ∀ t, ∃ rep, execStep p (x :: t) =
      ({ p := { p with currentState := .arrStateValue }, rest := x :: t, reported := rep, err := none }, false) := by
  intro t
  refine ⟨false, ?_⟩
  unfold execStep; rw [h.cs]; simp only [stepArray]; rw [trimLeft_ns _ hsp]
  simp only [hx, Bool.false_eq_true, if_false]

theorem move_dict {p : P} {c : St} {S : List St} (h : At p c S) (hc : c = .dictState ∨ c = .dictNextFieldState) :
    ∀ t, ∃ rep, execStep p (0x22 :: t) =
      ({ p := { p with currentState := .dictFieldState }, rest := 0x22 :: t, reported := rep, err := none }, false) := by
  intro t
  refine ⟨false, ?_⟩
  rcases hc with rfl | rfl
  · unfold execStep; rw [h.cs]; simp only [stepDict]; rw [trimLeft_ns _ (by decide)]; rfl
  · unfold execStep; rw [h.cs]; simp only [stepDict]; rw [trimLeft_ns _ (by decide)]; rfl

/-! ## literals -/

theorem hasPrefix_self_append (s more : Bytes) : hasPrefix (s ++ more) s = true := by
  induction s with
  | nil => exact hasPrefix_nil _
  | cons c s ih => simp [hasPrefix, ih]

/-- the rest of a literal, complete -/
theorem stepLit_word (P0 : P) (kind : String) (err : Err) (ev : Ev) (c : UInt8) (tl more : Bytes)
    (hk : strBytes kind = c :: tl) (hreq : P0.required = tl.length) :
    stepLit P0 (tl ++ more) kind err ev =
      { p := (visit (popState P0) ev).1, rest := more, reported := true, err := (visit (popState P0) ev).2 } := by
  rw [stepLit_full P0 (tl ++ more) kind err ev (by rw [hk, hreq]; simp) (by rw [hreq]; simp), hk, hreq]
  simp only [List.length_cons, Nat.add_sub_cancel_left, List.drop_succ_cons, List.drop_zero,
    hasPrefix_self_append, if_true, List.drop_left]

/-- the rest of a literal, cut short -/
theorem stepLit_cut (P0 : P) (kind : String) (err : Err) (ev : Ev) (c : UInt8) (tl z : Bytes)
    (hk : strBytes kind = c :: tl) (hreq : P0.required = tl.length) (hz : z <+: tl) (hne : z ≠ tl) :
    stepLit P0 z kind err ev =
      { p := { P0 with required := tl.length - z.length }, rest := [], reported := false, err := none } := by
  obtain ⟨t, rfl⟩ := hz
  have hlt : z.length < (z ++ t).length := by
    cases t with
    | nil => simp at hne
    | cons _ _ => simp
  rw [stepLit_short P0 z kind err ev (by rw [hk, hreq]; simp) (by rw [hreq]; exact hlt), hk, hreq]
  simp only [List.length_cons, Nat.add_sub_cancel_left, List.drop_succ_cons, List.drop_zero,
    List.take_left, hasPrefix_self_append, if_true]
  have := hasPrefix_self_append z []
  rw [List.append_nil] at this
  simp only [this, if_true]

/-- what holds after a non-empty proper prefix of a scalar: the scalar's state, one deeper -/
def Inside (r : St) (S : List St) (c : St) (q : P) : Prop := q.states = r :: S ∧ q.currentState = c

theorem lit_claim {p : P} {r : St} {S : List St} (h : ValueReady p r S) (kind : String) (err : Err) (ev : Ev)
    (litSt : St) (c : UInt8) (tl : Bytes) (hk : strBytes kind = c :: tl)
    (hdisp : ∀ b, stepValue p (c :: b) r =
      stepLit { pushState { p with currentState := r } litSt with required := tl.length } b kind err ev) :
    Leads p (c :: tl) (fun q => At q r S) anyF ∧
    ∀ z, z <+: c :: tl → z ≠ [] → z ≠ c :: tl → runA p z = ((runA p z).1, none) ∧ Inside r S litSt (runA p z).1 := by
  obtain ⟨c0, hat, _, _⟩ := h.at
  have hpush := pushState_ret p r litSt (isRet_pushOk h.1)
  constructor
  · apply leads_of_step p (c :: tl) (by simp) _ _ hat.wf
    intro more _
    have e1 := hdisp (tl ++ more)
    rw [stepLit_word _ kind err ev c tl more hk rfl, hpush] at e1
    obtain ⟨rep, he⟩ := h.step (c :: tl ++ more) _ more true _ e1
    refine ⟨_, rep, _, he, fun hq => ⟨hq, clean_visit _ ?_, ?_, ?_⟩⟩
    · rw [popState_cons _ r p.states rfl]; exact hat.clean
    · rw [visit_cs, popState_cons _ r p.states rfl]
    · rw [visit_fst, popState_cons _ r p.states rfl]; exact hat.st
  · intro z hz hne hne2
    rcases prefix_cons_cases hz with rfl | ⟨z', rfl, hz'⟩
    · exact absurd rfl hne
    · have hne3 : z' ≠ tl := by intro hc; subst hc; exact hne2 rfl
      have e1 := hdisp z'
      rw [stepLit_cut _ kind err ev c tl z' hk rfl hz' hne3, hpush] at e1
      obtain ⟨rep, he⟩ := h.step (c :: z') _ [] false _ e1
      rw [run_of_last_step p (c :: z') (by simp) hat.wf _ rep he]
      exact ⟨rfl, by simp only [hat.st], rfl⟩

theorem lit_claims {p : P} {r : St} {S : List St} (h : ValueReady p r S) (k : LitK) :
    Leads p k.word (fun q => At q r S) anyF ∧
    ∀ z, z <+: k.word → z ≠ [] → z ≠ k.word →
      runA p z = ((runA p z).1, none) ∧ ∃ c, c ≠ .numberState ∧ Inside r S c (runA p z).1 := by
  cases k with
  | null =>
    obtain ⟨k1, k2⟩ := lit_claim h "null" .expectedNull .null .nullState 0x6e [0x75, 0x6c, 0x6c] kind_null
      (by intro b; unfold stepValue; rw [trimLeft_ns _ (by decide)]; rfl)
    exact ⟨k1, fun z hz h1 h2 => ⟨(k2 z hz h1 h2).1, _, by simp, (k2 z hz h1 h2).2⟩⟩
  | tru =>
    obtain ⟨k1, k2⟩ := lit_claim h "true" .expectedTrue (.bool true) .trueState 0x74 [0x72, 0x75, 0x65] kind_true
      (by intro b; unfold stepValue; rw [trimLeft_ns _ (by decide)]; rfl)
    exact ⟨k1, fun z hz h1 h2 => ⟨(k2 z hz h1 h2).1, _, by simp, (k2 z hz h1 h2).2⟩⟩
  | fals =>
    obtain ⟨k1, k2⟩ := lit_claim h "false" .expectedFalse (.bool false) .falseState 0x66 [0x61, 0x6c, 0x73, 0x65]
      kind_false (by intro b; unfold stepValue; rw [trimLeft_ns _ (by decide)]; rfl)
    exact ⟨k1, fun z hz h1 h2 => ⟨(k2 z hz h1 h2).1, _, by simp, (k2 z hz h1 h2).2⟩⟩

/-! ## strings and keys -/

/-- a step that takes `w` off the front unless it reports an error -/
theorem leads_of_step' (p : P) (w : Bytes) (hw : w ≠ []) (Q : P → Prop) (F : Bytes → Prop) (hwf : WF p)
    (h : ∀ more, F more → ∃ q rst rep e,
      execStep p (w ++ more) = ({ p := q, rest := rst, reported := rep, err := e }, false) ∧
      (e = none → rst = more ∧ (WF q → Q q))) :
    Leads p w Q F := by
  intro more hm
  obtain ⟨q, rst, rep, e, he, hq⟩ := h more hm
  have hne : w ++ more ≠ [] := by intro hc; exact hw (List.append_eq_nil_iff.mp hc).1
  have hs := runA_of_step p (w ++ more) hne hwf.inv q rst e rep he
  have hq' : WF q := by
    have := (execStep_wf p (w ++ more) hne hwf).2
    rw [he] at this; exact this
  cases e with
  | some e => exact Or.inl (hs.2 (by simp))
  | none =>
    obtain ⟨rfl, hq2⟩ := hq rfl
    exact Or.inr ⟨q, hq2 hq', hs.1 rfl⟩

theorem scan_body (raw more : Bytes) (esc : Bool) (k : Nat) (h : scanString raw esc k = (none, false)) :
    scanString (raw ++ 0x22 :: more) esc k = (some (k + raw.length), false) := by
  induction raw generalizing esc k with
  | nil =>
    simp only [scanString, Prod.mk.injEq, true_and] at h
    subst h
    simp only [List.nil_append, scanString, Bool.false_eq_true, if_false, List.length_nil, Nat.add_zero]
    rfl
  | cons c rest ih =>
    simp only [scanString] at h
    simp only [List.cons_append, scanString, List.length_cons]
    split
    · rename_i he
      rw [if_pos he] at h
      rw [ih _ _ h]; congr 2; omega
    · rename_i he
      rw [if_neg he] at h
      split
      · rename_i hq; rw [if_pos hq] at h; simp at h
      · rename_i hq
        rw [if_neg hq] at h
        split
        · rename_i hb; rw [if_pos hb] at h; rw [ih _ _ h]; congr 2; omega
        · rename_i hb; rw [if_neg hb] at h; rw [ih _ _ h]; congr 2; omega

theorem scan_prefix_none (raw z : Bytes) (esc : Bool) (k : Nat) (h : (scanString raw esc k).1 = none)
    (hz : z <+: raw) : (scanString z esc k).1 = none := by
  induction raw generalizing z esc k with
  | nil =>
    have : z = [] := by simpa using hz
    subst this; rfl
  | cons c rest ih =>
    rcases prefix_cons_cases hz with rfl | ⟨z', rfl, hz'⟩
    · rfl
    · simp only [scanString] at h ⊢
      split
      · rename_i he; rw [if_pos he] at h; exact ih _ _ _ h hz'
      · rename_i he
        rw [if_neg he] at h
        split
        · rename_i hq; rw [if_pos hq] at h; simp at h
        · rename_i hq
          rw [if_neg hq] at h
          split
          · rename_i hb; rw [if_pos hb] at h; exact ih _ _ _ h hz'
          · rename_i hb; rw [if_neg hb] at h; exact ih _ _ _ h hz'

theorem bodyOk_scan {raw : Bytes} (h : bodyOk raw = true) : scanString raw false 0 = (none, false) := by
  simpa [bodyOk] using h

/-- a proper prefix of `raw ++ [x]` is a prefix of `raw` -/
theorem prefix_snoc {α : Type} {z raw : List α} {x : α} (h : z <+: raw ++ [x]) (hne : z ≠ raw ++ [x]) : z <+: raw := by
  rcases prefix_append_cases h with h1 | ⟨z', rfl, h2⟩
  · exact h1
  · rcases prefix_cons_cases h2 with rfl | ⟨z'', rfl, h3⟩
    · simp
    · have : z'' = [] := by simpa using h3
      subst this; exact absurd rfl hne

theorem doString_body (P0 : P) (hlb : P0.literalBuffer = []) (hesc : P0.inEscape = false) (raw more : Bytes)
    (hb : bodyOk raw = true) :
    doString P0 (0x22 :: (raw ++ 0x22 :: more)) =
      match unquote raw with
      | .error e => ({ P0 with inEscape := false }, [], false, [], some e)
      | .ok s => ({ P0 with inEscape := false }, s, true, more, none) := by
  have hs := scan_body raw more false 0 (bodyOk_scan hb)
  rw [doString_start_some P0 0x22 (raw ++ 0x22 :: more) raw.length hlb (by rw [hesc, hs]; simp)]
  rw [hesc, hs]
  simp only [List.take_left]
  have : List.drop (raw.length + 1) (raw ++ 0x22 :: more) = more := by
    rw [← List.drop_drop, List.drop_left]; rfl
  rw [this]
  cases unquote raw <;> rfl

theorem doString_cut (P0 : P) (hlb : P0.literalBuffer = []) (hesc : P0.inEscape = false) (raw z : Bytes)
    (hb : bodyOk raw = true) (hz : z <+: raw) :
    doString P0 (0x22 :: z) =
      ({ P0 with literalBuffer := 0x22 :: z, inEscape := (scanString z false 0).2 }, [], false, [], none) := by
  have hs := scan_prefix_none raw z false 0 (by rw [bodyOk_scan hb]) hz
  rw [doString_start_none P0 0x22 z hlb (by rw [hesc]; exact hs), hesc]

theorem stepValue_quote (p : P) (r : St) (more : Bytes) :
    stepValue p (0x22 :: more) r =
      stepString { pushState { p with currentState := r, literalBuffer := [] } .stringState with inEscape := false }
        (0x22 :: more) := by
  unfold stepValue
  rw [trimLeft_ns _ (by decide)]
  rfl

/-- a string, from a state that reads a value -/
theorem str_claims {p : P} {r : St} {S : List St} (h : ValueReady p r S) (raw : Bytes) (hb : bodyOk raw = true) :
    Leads p (0x22 :: (raw ++ [0x22])) (fun q => At q r S) anyF ∧
    ∀ z, z <+: 0x22 :: (raw ++ [0x22]) → z ≠ [] → z ≠ 0x22 :: (raw ++ [0x22]) →
      runA p z = ((runA p z).1, none) ∧ Inside r S .stringState (runA p z).1 := by
  obtain ⟨c0, hat, _, _⟩ := h.at
  have hpush := pushState_ret { p with literalBuffer := [] } r .stringState (isRet_pushOk h.1)
  simp only at hpush
  constructor
  · apply leads_of_step' p _ (by simp) _ _ hat.wf
    intro more _
    have e1 := stepValue_quote p r (raw ++ 0x22 :: more)
    rw [hpush] at e1
    unfold stepString at e1
    rw [doString_body _ rfl rfl raw more hb] at e1
    have e0 : (0x22 :: (raw ++ [0x22]) ++ more : Bytes) = 0x22 :: (raw ++ 0x22 :: more) := by simp
    rw [e0]
    cases hu : unquote raw with
    | error e =>
      rw [hu] at e1
      simp only [Bool.false_and, Bool.false_eq_true, if_false] at e1
      obtain ⟨rep, he⟩ := h.step _ _ _ _ _ e1
      exact ⟨_, _, rep, _, he, by simp⟩
    | ok s' =>
      rw [hu] at e1
      simp only [Bool.true_and, Option.isNone_none, if_true] at e1
      obtain ⟨rep, he⟩ := h.step _ _ _ _ _ e1
      refine ⟨_, _, rep, _, he, fun _ => ⟨rfl, fun hq => ⟨hq, clean_visit _ ?_, ?_, ?_⟩⟩⟩
      · rw [popState_cons _ r p.states rfl]; exact ⟨rfl, rfl⟩
      · rw [visit_cs, popState_cons _ r p.states rfl]
      · rw [visit_fst, popState_cons _ r p.states rfl]; exact hat.st
  · intro z hz hne hne2
    rcases prefix_cons_cases hz with rfl | ⟨z', rfl, hz'⟩
    · exact absurd rfl hne
    · have hz2 : z' <+: raw := prefix_snoc hz' (by intro hc; subst hc; exact hne2 rfl)
      have e1 := stepValue_quote p r z'
      rw [hpush] at e1
      unfold stepString at e1
      rw [doString_cut _ rfl rfl raw z' hb hz2] at e1
      simp only [Bool.false_and, Bool.false_eq_true, if_false] at e1
      obtain ⟨rep, he⟩ := h.step _ _ _ _ _ e1
      rw [run_of_last_step p (0x22 :: z') (by simp) hat.wf _ rep he]
      exact ⟨rfl, by simp only [hat.st], rfl⟩

/-- a key, in dictFieldState -/
theorem key_claims {p : P} {S : List St} (h : At p .dictFieldState S) (key : Bytes) (hb : bodyOk key = true) :
    Leads p (0x22 :: (key ++ [0x22])) (fun q => At q .dictFieldValueSep S) anyF ∧
    ∀ z, z <+: 0x22 :: (key ++ [0x22]) → z ≠ [] → z ≠ 0x22 :: (key ++ [0x22]) →
      runA p z = ((runA p z).1, none) ∧ (runA p z).1.states = S ∧ (runA p z).1.currentState = .dictFieldState := by
  have hE : ∀ b, execStep p b = (stepDictKey p b, false) := by
    intro b; unfold execStep; rw [h.cs]
  constructor
  · apply leads_of_step' p _ (by simp) _ _ h.wf
    intro more _
    have e0 : (0x22 :: (key ++ [0x22]) ++ more : Bytes) = 0x22 :: (key ++ 0x22 :: more) := by simp
    rw [e0, hE]
    unfold stepDictKey
    rw [doString_body p h.clean.1 h.clean.2 key more hb]
    cases hu : unquote key with
    | error e =>
      simp only [Bool.false_and, Bool.false_eq_true, if_false]
      exact ⟨_, _, _, _, rfl, by simp⟩
    | ok s' =>
      simp only [Bool.true_and, Option.isNone_none, if_true]
      refine ⟨_, _, _, _, rfl, fun _ => ⟨rfl, fun hq => ⟨hq, clean_visit _ ⟨h.clean.1, rfl⟩, ?_, ?_⟩⟩⟩
      · rw [visit_cs]
      · rw [visit_fst]; exact h.st
  · intro z hz hne hne2
    rcases prefix_cons_cases hz with rfl | ⟨z', rfl, hz'⟩
    · exact absurd rfl hne
    · have hz2 : z' <+: key := prefix_snoc hz' (by intro hc; subst hc; exact hne2 rfl)
      have he : execStep p (0x22 :: z') =
          ({ p := { p with literalBuffer := 0x22 :: z', inEscape := (scanString z' false 0).2 }, rest := [],
             reported := false, err := none }, false) := by
        rw [hE]; unfold stepDictKey
        rw [doString_cut p h.clean.1 h.clean.2 key z' hb hz2]
        rfl
      rw [run_of_last_step p (0x22 :: z') (by simp) h.wf _ _ he]
      exact ⟨rfl, h.st, h.cs⟩

/-! ## numbers -/

theorem numStart_facts : ∀ a : UInt8,
    (a == ch '-' || a == ch '+' || a == ch '.' || Parse.isDigit a) = true →
    Utf8.isSpaceByte a = false ∧ (a == ch '{') = false ∧ (a == ch '[') = false ∧ (a == ch 'n') = false ∧
    (a == ch 'f') = false ∧ (a == ch 't') = false ∧ (a == ch '"') = false ∧ (a == ch ']') = false := by
  apply forall_uint8; decide +kernel

theorem stepValue_num (p : P) (r : St) (a : UInt8) (b : Bytes)
    (ha : (a == ch '-' || a == ch '+' || a == ch '.' || Parse.isDigit a) = true) :
    stepValue p (a :: b) r =
      stepNumber { pushState { p with currentState := r, isDouble := false, literalBuffer := [] } .numberState
        with isDouble := false } (a :: b) := by
  obtain ⟨h0, h1, h2, h3, h4, h5, h6, _⟩ := numStart_facts a ha
  unfold stepValue
  rw [trimLeft_ns _ h0]
  simp only [h1, h2, h3, h4, h5, h6, ha, Bool.false_eq_true, if_false, Bool.not_true]

theorem scan_tok_all (z : Bytes) (dbl : Bool) (h : z.all (fun x => !isStopChar x) = true) :
    (scanNumber z dbl).2.2.1 = false := by
  induction z generalizing dbl with
  | nil => rfl
  | cons c z ih =>
    simp only [List.all_cons, Bool.and_eq_true, Bool.not_eq_true'] at h
    simp only [scanNumber, h.1, Bool.false_eq_true, if_false]
    exact ih _ h.2

theorem scan_tok_stop (tok : Bytes) (c : UInt8) (t : Bytes) (dbl : Bool)
    (h : tok.all (fun x => !isStopChar x) = true) (hc : isStopChar c = true) :
    (scanNumber (tok ++ c :: t) dbl).1 = tok ∧ (scanNumber (tok ++ c :: t) dbl).2.1 = c :: t ∧
    (scanNumber (tok ++ c :: t) dbl).2.2.1 = true := by
  induction tok generalizing dbl with
  | nil => simp [scanNumber, hc]
  | cons x tok ih =>
    simp only [List.all_cons, Bool.and_eq_true, Bool.not_eq_true'] at h
    simp only [List.cons_append, scanNumber, h.1, Bool.false_eq_true, if_false]
    obtain ⟨k1, k2, k3⟩ := ih (dbl || x == ch '.' || x == ch 'e' || x == ch 'E') h.2
    exact ⟨by rw [k1], k2, k3⟩

theorem all_prefix {z tok : Bytes} {f : UInt8 → Bool} (hz : z <+: tok) (h : tok.all f = true) : z.all f = true := by
  obtain ⟨t, rfl⟩ := hz
  simp only [List.all_append, Bool.and_eq_true] at h
  exact h.1

/-- a number, from a state that reads a value; what follows must begin with a stop character -/
theorem num_claims {p : P} {r : St} {S : List St} (h : ValueReady p r S) (tok : Bytes) (hb : tokOk tok = true) :
    Leads p tok (fun q => At q r S) stopF ∧
    ∀ z, z <+: tok → z ≠ [] → runA p z = ((runA p z).1, none) ∧ Inside r S .numberState (runA p z).1 := by
  obtain ⟨c0, hat, _, _⟩ := h.at
  cases tok with
  | nil => simp [tokOk] at hb
  | cons a tl =>
    simp only [tokOk, Bool.and_eq_true] at hb
    obtain ⟨ha, hall⟩ := hb
    have hpush := pushState_ret { p with isDouble := false, literalBuffer := [] } r .numberState (isRet_pushOk h.1)
    simp only at hpush
    constructor
    · apply leads_of_step' p _ (by simp) _ _ hat.wf
      intro more hm
      obtain ⟨c, t, rfl, hc⟩ := hm
      obtain ⟨k1, k2, k3⟩ := scan_tok_stop (a :: tl) c t false hall hc
      have e1 := stepValue_num p r a (tl ++ c :: t) ha
      rw [hpush, stepNumber_done _ _ k3] at e1
      simp only [List.cons_append] at k1 k2 e1 ⊢
      simp only [k1, k2, List.nil_append] at e1
      obtain ⟨_, evs, nevs, h2⟩ := reportNumber_spec
        { p with isDouble := (scanNumber (a :: (tl ++ c :: t)) false).2.2.2, literalBuffer := [],
                 states := r :: p.states, currentState := .numberState }
        (a :: tl) (scanNumber (a :: (tl ++ c :: t)) false).2.2.2 (by simp)
      rw [h2] at e1
      obtain ⟨rep, he⟩ := h.step _ _ _ _ _ e1
      refine ⟨_, _, rep, _, he, fun _ => ⟨rfl, fun hq => ⟨hq, ?_, ?_, ?_⟩⟩⟩
      · rw [popState_cons _ r p.states rfl]; exact ⟨rfl, hat.clean.2⟩
      · rw [popState_cons _ r p.states rfl]
      · rw [popState_cons _ r p.states rfl]; exact hat.st
    · intro z hz hne
      rcases prefix_cons_cases hz with rfl | ⟨z', rfl, hz'⟩
      · exact absurd rfl hne
      · have hall' : (a :: z').all (fun x => !isStopChar x) = true := all_prefix hz hall
        have e1 := stepValue_num p r a z' ha
        rw [hpush, stepNumber_more _ _ (scan_tok_all _ _ hall')] at e1
        obtain ⟨rep, he⟩ := h.step _ _ _ _ _ e1
        rw [run_of_last_step p (a :: z') (by simp) hat.wf _ rep he]
        exact ⟨rfl, by simp only [hat.st], rfl⟩

/-! ## the claims about the syntactic categories -/

/-- what may follow a value: after a number, a stop character -/
def follow (v : J) : Bytes → Prop := fun more => v.isNum = true → stopF more

/-- a value, read from any state that reads a value: its text leads to the state after the
value; after a non-empty proper prefix (for a number: also after the whole token) the parser
has failed or is deeper -/
def JClaim (v : J) : Prop :=
  ∀ p r S, ValueReady p r S →
    Leads p v.wire (fun q => At q r S) (follow v) ∧
    ∀ z, z <+: v.wire → z ≠ [] → (z ≠ v.wire ∨ v.isNum = true) → Errs (runA p z) ∨ DeepJ v S (runA p z).1

/-- the rest of a container, read in state `c` inside it -/
def InClaim (c : St) (w : Bytes) : Prop :=
  ∀ p r S, At p c (r :: S) → PushOk S r →
    Leads p w (fun q => At q r S) anyF ∧ PrefOK p w (Deep S)

theorem stopF_prefix {z w : Bytes} (hz : z <+: w) (hne : z ≠ []) (hw : stopF w) : stopF z := by
  obtain ⟨c, t, rfl, hc⟩ := hw
  rcases prefix_cons_cases hz with rfl | ⟨z', rfl, _⟩
  · exact absurd rfl hne
  · exact ⟨c, z', rfl, hc⟩

theorem stopF_ws {ws w : Bytes} (hws : allWs ws = true) (hw : stopF w) : stopF (ws ++ w) := by
  cases ws with
  | nil => exact hw
  | cons a ws =>
    simp only [allWs, List.all_cons, Bool.and_eq_true] at hws
    exact ⟨a, ws ++ w, rfl, (isWs_space a hws.1).2⟩

theorem stopF_append {w more : Bytes} (hw : stopF w) : stopF (w ++ more) := by
  obtain ⟨c, t, rfl, hc⟩ := hw
  exact ⟨c, t ++ more, rfl, hc⟩

theorem deep_inside {r r0 : St} {S : List St} {c : St} {q : P} (h : Inside r (r0 :: S) c q) : Deep S q := by
  obtain ⟨h1, _⟩ := h
  exact ⟨by rw [h1]; simp only [List.length_cons]; omega, fun _ => by rw [h1]; simp only [List.length_cons]; omega⟩

/-- a value inside a container, then white space, then the rest `w` of the container (which
begins with a stop character) -/
theorem elem_claims (cv ca : St) (hv : (cv = .arrStateValue ∧ ca = .arrStateNext) ∨
      (cv = .dictFieldValue ∧ ca = .dictFieldStateEnd))
    (e : J) (he : JClaim e) (hne : e.wire ≠ []) (ws w : Bytes) (hws : allWs ws = true) (hw : InClaim ca w)
    (hstop : stopF w) (p : P) (r : St) (S : List St) (hat : At p cv (r :: S)) (hpush : PushOk S r) :
    Leads p (e.wire ++ (ws ++ w)) (fun q => At q r S) anyF ∧ PrefOK p (e.wire ++ (ws ++ w)) (Deep S) := by
  have hready : ValueReady p ca (r :: S) := by
    refine ⟨Or.inr ⟨stackWF_cons hpush, by rcases hv with ⟨_, rfl⟩ | ⟨_, rfl⟩ <;> rfl⟩, ?_⟩
    rcases hv with ⟨rfl, rfl⟩ | ⟨rfl, rfl⟩
    · exact Or.inr (Or.inr ⟨hat, rfl⟩)
    · exact Or.inr (Or.inl ⟨hat, rfl⟩)
  have hca : ca ≠ .numberState ∧ trims ca = true := by
    rcases hv with ⟨_, rfl⟩ | ⟨_, rfl⟩ <;> exact ⟨by simp, rfl⟩
  have hcv : cv ≠ .numberState := by rcases hv with ⟨rfl, _⟩ | ⟨rfl, _⟩ <;> simp
  obtain ⟨L1, PJ⟩ := he p ca (r :: S) hready
  have hcont : ∀ p2, At p2 ca (r :: S) →
      Leads p2 (ws ++ w) (fun q => At q r S) anyF ∧ PrefOK p2 (ws ++ w) (Deep S) := by
    intro p2 h2
    obtain ⟨k1, k2⟩ := hw p2 r S h2 hpush
    exact ⟨leads_ws h2.wf.inv (by rw [h2.cs]; exact hca.2) hws k1,
      pref_ws h2.wf.inv (by rw [h2.cs]; exact hca.2) hws (deep_at h2 hca.1) k2⟩
  have hstop2 : stopF (ws ++ w) := stopF_ws hws hstop
  constructor
  · exact leads_seq L1 (fun p2 h2 => (hcont p2 h2).1) (fun more _ _ => stopF_append hstop2)
  · apply pref_seq (Q := fun q => At q ca (r :: S)) (F1 := follow e)
    · intro z hz hzne
      by_cases hz0 : z = []
      · subst hz0; rw [runA_nil]; exact Or.inr (deep_at hat hcv)
      · exact (PJ z hz hz0 (Or.inl hzne)).imp id deep_of_cons
    · intro _
      cases hn : e.isNum with
      | true => exact (PJ e.wire (List.prefix_refl _) hne (Or.inr hn)).imp id deep_of_cons
      | false =>
        rcases L1 [] (by intro h; rw [hn] at h; simp at h) with k | ⟨p2, h2, k⟩
        · rw [List.append_nil] at k; exact Or.inl k
        · rw [List.append_nil] at k; rw [k, runA_nil]; exact Or.inr (deep_at h2 hca.1)
    · exact L1
    · exact fun p2 h2 => (hcont p2 h2).2
    · exact fun z' hz' hne' _ => stopF_prefix hz' hne' hstop2

theorem J.wire_first (v : J) (hok : v.ok = true) :
    ∃ x t, v.wire = x :: t ∧ Utf8.isSpaceByte x = false ∧ (x == ch ']') = false := by
  cases v with
  | lit k => cases k <;> exact ⟨_, _, rfl, by decide, by decide⟩
  | num tok =>
    cases tok with
    | nil => simp [J.ok, tokOk] at hok
    | cons a tl =>
      simp only [J.ok, tokOk, Bool.and_eq_true] at hok
      obtain ⟨h0, _, _, _, _, _, _, h7⟩ := numStart_facts a hok.1
      exact ⟨a, tl, rfl, h0, h7⟩
  | str raw => exact ⟨_, _, rfl, by decide, by decide⟩
  | arr ws body => exact ⟨_, _, rfl, by decide, by decide⟩
  | obj ws body => exact ⟨_, _, rfl, by decide, by decide⟩

theorem ATail.wire_stop (t : ATail) : stopF t.wire := by
  cases t with
  | close => exact ⟨_, _, rfl, by decide⟩
  | more ws1 e ws2 tl => exact ⟨_, _, rfl, by decide⟩

theorem OTail.wire_stop (t : OTail) : stopF t.wire := by
  cases t with
  | close => exact ⟨_, _, rfl, by decide⟩
  | more ws0 key ws1 ws2 v ws3 tl => exact ⟨_, _, rfl, by decide⟩

theorem wf_of_step {p q : P} (hwf : WF p) (b : Bytes) (hb : b ≠ []) (h : (execStep p b).1.p = q) : WF q := by
  rw [← h]; exact (execStep_wf p b hb hwf).2

/-- the first element of an array, in arrState -/
theorem first_elem_claims (e : J) (he : JClaim e) (hok : e.ok = true) (ws w : Bytes) (hws : allWs ws = true)
    (hw : InClaim .arrStateNext w) (hstop : stopF w) : InClaim .arrState (e.wire ++ (ws ++ w)) := by
  intro p r S hat hpush
  obtain ⟨x, t, hx, hsp, hrb⟩ := J.wire_first e hok
  have hmv := move_arr hat x hsp hrb
  have hwf1 : WF { p with currentState := .arrStateValue } := by
    obtain ⟨rep, h1⟩ := hmv []
    exact wf_of_step hat.wf [x] (by simp) (by rw [h1])
  have hat1 : At { p with currentState := .arrStateValue } .arrStateValue (r :: S) := at_setCs hat hwf1
  obtain ⟨k1, k2⟩ := elem_claims _ _ (Or.inl ⟨rfl, rfl⟩) e he (by rw [hx]; simp) ws w hws hw hstop _ r S hat1 hpush
  rw [hx, List.cons_append] at k1 k2 ⊢
  exact ⟨leads_move hat.wf hmv k1, pref_move hat.wf hmv (deep_at hat (by simp)) k2⟩

/-- a member of an object from its key on, in dictState or dictNextFieldState -/
theorem member_claims (c : St) (hc : c = .dictState ∨ c = .dictNextFieldState)
    (key ws1 ws2 : Bytes) (v : J) (hv : JClaim v) (hvok : v.ok = true) (ws3 w : Bytes)
    (hkey : bodyOk key = true) (h1 : allWs ws1 = true) (h2 : allWs ws2 = true) (h3 : allWs ws3 = true)
    (hw : InClaim .dictFieldStateEnd w) (hstop : stopF w) :
    InClaim c (0x22 :: (key ++ 0x22 :: (ws1 ++ 0x3a :: (ws2 ++ (v.wire ++ (ws3 ++ w)))))) := by
  intro p r S hat hpush
  have hmv := move_dict hat hc
  have hwf1 : WF { p with currentState := .dictFieldState } := by
    obtain ⟨rep, h1⟩ := hmv []
    exact wf_of_step hat.wf [0x22] (by simp) (by rw [h1])
  have hat1 : At { p with currentState := .dictFieldState } .dictFieldState (r :: S) := at_setCs hat hwf1
  have hcne : c ≠ .numberState := by rcases hc with rfl | rfl <;> simp
  -- the key
  obtain ⟨LK, PK⟩ := key_claims hat1 key hkey
  have hvne : v.wire ≠ [] := by obtain ⟨x, t, hx, _⟩ := J.wire_first v hvok; rw [hx]; simp
  -- after the key: ws1 `:` ws2 value ws3 w
  have hafter : ∀ p2, At p2 .dictFieldValueSep (r :: S) →
      Leads p2 (ws1 ++ ([0x3a] ++ (ws2 ++ (v.wire ++ (ws3 ++ w))))) (fun q => At q r S) anyF ∧
      PrefOK p2 (ws1 ++ ([0x3a] ++ (ws2 ++ (v.wire ++ (ws3 ++ w))))) (Deep S) := by
    intro p2 hp2
    have hval : ∀ p3, At p3 .dictFieldValue (r :: S) →
        Leads p3 (ws2 ++ (v.wire ++ (ws3 ++ w))) (fun q => At q r S) anyF ∧
        PrefOK p3 (ws2 ++ (v.wire ++ (ws3 ++ w))) (Deep S) := by
      intro p3 hp3
      obtain ⟨k1, k2⟩ := elem_claims _ _ (Or.inr ⟨rfl, rfl⟩) v hv hvne ws3 w h3 hw hstop p3 r S hp3 hpush
      exact ⟨leads_ws hp3.wf.inv (by rw [hp3.cs]; rfl) h2 k1,
        pref_ws hp3.wf.inv (by rw [hp3.cs]; rfl) h2 (deep_at hp3 (by simp)) k2⟩
    have LC := leads_colon hp2
    have k1 : Leads p2 ([0x3a] ++ (ws2 ++ (v.wire ++ (ws3 ++ w)))) (fun q => At q r S) anyF :=
      leads_seq LC (fun p3 hp3 => (hval p3 hp3).1) (fun _ _ => trivial)
    have k2 : PrefOK p2 ([0x3a] ++ (ws2 ++ (v.wire ++ (ws3 ++ w)))) (Deep S) := by
      apply pref_seq (Q := fun q => At q .dictFieldValue (r :: S)) (F1 := anyF)
      · exact pref_single p2 _ _ (deep_at hp2 (by simp))
      · intro _
        rcases LC [] trivial with k | ⟨p3, hp3, k⟩
        · rw [List.append_nil] at k; exact Or.inl k
        · rw [List.append_nil] at k; rw [k, runA_nil]; exact Or.inr (deep_at hp3 (by simp))
      · exact LC
      · exact fun p3 hp3 => (hval p3 hp3).2
      · exact fun _ _ _ => trivial
    exact ⟨leads_ws hp2.wf.inv (by rw [hp2.cs]; rfl) h1 k1,
      pref_ws hp2.wf.inv (by rw [hp2.cs]; rfl) h1 (deep_at hp2 (by simp)) k2⟩
  have e0 : (0x22 :: (key ++ 0x22 :: (ws1 ++ 0x3a :: (ws2 ++ (v.wire ++ (ws3 ++ w))))) : Bytes) =
      (0x22 :: (key ++ [0x22])) ++ (ws1 ++ ([0x3a] ++ (ws2 ++ (v.wire ++ (ws3 ++ w))))) := by simp
  have k1 : Leads { p with currentState := .dictFieldState }
      ((0x22 :: (key ++ [0x22])) ++ (ws1 ++ ([0x3a] ++ (ws2 ++ (v.wire ++ (ws3 ++ w))))))
      (fun q => At q r S) anyF :=
    leads_seq LK (fun p2 hp2 => (hafter p2 hp2).1) (fun _ _ => trivial)
  have k2 : PrefOK { p with currentState := .dictFieldState }
      ((0x22 :: (key ++ [0x22])) ++ (ws1 ++ ([0x3a] ++ (ws2 ++ (v.wire ++ (ws3 ++ w)))))) (Deep S) := by
    apply pref_seq (Q := fun q => At q .dictFieldValueSep (r :: S)) (F1 := anyF)
    · intro z hz hzne
      by_cases hz0 : z = []
      · subst hz0; rw [runA_nil]; exact Or.inr (deep_at hat1 (by simp))
      · obtain ⟨j1, j2, j3⟩ := PK z hz hz0 hzne
        right
        exact ⟨by rw [j2]; simp, fun hn => by rw [j3] at hn; simp at hn⟩
    · intro _
      rcases LK [] trivial with k | ⟨p2, hp2, k⟩
      · rw [List.append_nil] at k; exact Or.inl k
      · rw [List.append_nil] at k; rw [k, runA_nil]; exact Or.inr (deep_at hp2 (by simp))
    · exact LK
    · exact fun p2 hp2 => (hafter p2 hp2).2
    · exact fun _ _ _ => trivial
  rw [e0]
  rw [List.cons_append] at k1 k2 ⊢
  exact ⟨leads_move hat.wf hmv k1, pref_move hat.wf hmv (deep_at hat hcne) k2⟩

theorem leads_weaken {p : P} {w : Bytes} {Q : P → Prop} {F : Bytes → Prop} (h : Leads p w Q anyF) : Leads p w Q F :=
  fun more _ => h more trivial

theorem close_claim (c : St) (x : UInt8)
    (hl : ∀ p r S, At p c (r :: S) → Leads p [x] (fun q => At q r S) anyF) (hc : c ≠ .numberState) :
    InClaim c [x] :=
  fun p r S hat _ => ⟨hl p r S hat, pref_single p x _ (deep_at hat hc)⟩

/-- one byte `x` that leads from state `c` to state `c'` (inside the container), then white
space, then `w` -/
theorem byte_then (c c' : St) (x : UInt8) (hc : c ≠ .numberState) (hc' : c' ≠ .numberState) (ht : trims c' = true)
    (hl : ∀ p S', At p c S' → Leads p [x] (fun q => At q c' S') anyF)
    (ws w : Bytes) (hws : allWs ws = true) (hw : InClaim c' w) : InClaim c ([x] ++ (ws ++ w)) := by
  intro p r S hat hpush
  have L := hl p (r :: S) hat
  have hcont : ∀ p2, At p2 c' (r :: S) →
      Leads p2 (ws ++ w) (fun q => At q r S) anyF ∧ PrefOK p2 (ws ++ w) (Deep S) := by
    intro p2 hp2
    obtain ⟨k1, k2⟩ := hw p2 r S hp2 hpush
    exact ⟨leads_ws hp2.wf.inv (by rw [hp2.cs]; exact ht) hws k1,
      pref_ws hp2.wf.inv (by rw [hp2.cs]; exact ht) hws (deep_at hp2 hc') k2⟩
  constructor
  · exact leads_seq L (fun p2 hp2 => (hcont p2 hp2).1) (fun _ _ => trivial)
  · apply pref_seq (Q := fun q => At q c' (r :: S)) (F1 := anyF)
    · exact pref_single p x _ (deep_at hat hc)
    · intro _
      rcases L [] trivial with k | ⟨p2, hp2, k⟩
      · rw [List.append_nil] at k; exact Or.inl k
      · rw [List.append_nil] at k; rw [k, runA_nil]; exact Or.inr (deep_at hp2 hc')
    · exact L
    · exact fun p2 hp2 => (hcont p2 hp2).2
    · exact fun _ _ _ => trivial

/-- a value in arrStateValue / dictFieldValue (no step before it) as an `InClaim` -/
theorem elem_in (e : J) (he : JClaim e) (hok : e.ok = true) (ws w : Bytes) (hws : allWs ws = true)
    (hw : InClaim .arrStateNext w) (hstop : stopF w) : InClaim .arrStateValue (e.wire ++ (ws ++ w)) := by
  intro p r S hat hpush
  obtain ⟨x, t, hx, _⟩ := J.wire_first e hok
  exact elem_claims _ _ (Or.inl ⟨rfl, rfl⟩) e he (by rw [hx]; simp) ws w hws hw hstop p r S hat hpush

mutual
theorem jclaim : (v : J) → v.ok = true → JClaim v
  | .lit k, _ => by
    intro p r S h
    obtain ⟨k1, k2⟩ := lit_claims h k
    refine ⟨leads_weaken k1, fun z hz hne hd => ?_⟩
    rcases hd with hd | hd
    · obtain ⟨j1, c, hc, j2⟩ := k2 z hz hne hd
      right
      exact ⟨by rw [j2.1]; simp, fun hn => by rw [j2.2] at hn; exact absurd hn hc⟩
    · simp [J.isNum] at hd
  | .num tok, hok => by
    intro p r S h
    obtain ⟨k1, k2⟩ := num_claims h tok (by simpa [J.ok] using hok)
    refine ⟨fun more hm => k1 more (hm rfl), fun z hz hne _ => ?_⟩
    obtain ⟨j1, j2⟩ := k2 z hz hne
    right
    exact ⟨by rw [j2.1]; simp, fun _ => Or.inl rfl⟩
  | .str raw, hok => by
    intro p r S h
    obtain ⟨k1, k2⟩ := str_claims h raw (by simpa [J.ok] using hok)
    refine ⟨leads_weaken k1, fun z hz hne hd => ?_⟩
    rcases hd with hd | hd
    · obtain ⟨j1, j2⟩ := k2 z hz hne hd
      right
      exact ⟨by rw [j2.1]; simp, fun hn => by rw [j2.2] at hn; simp at hn⟩
    · simp [J.isNum] at hd
  | .arr ws body, hok => by
    intro p r S h
    simp only [J.ok, Bool.and_eq_true] at hok
    have hb := abody_claim body hok.2
    have L := leads_lbrack h
    have hcont : ∀ p1, At p1 .arrState (r :: S) →
        Leads p1 (ws ++ body.wire) (fun q => At q r S) anyF ∧ PrefOK p1 (ws ++ body.wire) (Deep S) := by
      intro p1 hp1
      obtain ⟨k1, k2⟩ := hb p1 r S hp1 h.1
      exact ⟨leads_ws hp1.wf.inv (by rw [hp1.cs]; rfl) hok.1 k1,
        pref_ws hp1.wf.inv (by rw [hp1.cs]; rfl) hok.1 (deep_at hp1 (by simp)) k2⟩
    constructor
    · exact leads_weaken (leads_seq (w1 := [0x5b]) L (fun p1 hp1 => (hcont p1 hp1).1) (fun _ _ => trivial))
    · intro z hz hne hd
      rcases hd with hd | hd
      · rcases prefix_cons_cases hz with rfl | ⟨z1, rfl, hz1⟩
        · exact absurd rfl hne
        · rcases L z1 trivial with k | ⟨p1, hp1, k⟩
          · exact Or.inl k
          · rw [List.singleton_append] at k
            rw [k]
            exact ((hcont p1 hp1).2 z1 hz1 (by intro hc; subst hc; exact hd rfl)).imp id Deep.toJ
      · simp [J.isNum] at hd
  | .obj ws body, hok => by
    intro p r S h
    simp only [J.ok, Bool.and_eq_true] at hok
    have hb := obody_claim body hok.2
    have L := leads_lbrace h
    have hcont : ∀ p1, At p1 .dictState (r :: S) →
        Leads p1 (ws ++ body.wire) (fun q => At q r S) anyF ∧ PrefOK p1 (ws ++ body.wire) (Deep S) := by
      intro p1 hp1
      obtain ⟨k1, k2⟩ := hb p1 r S hp1 h.1
      exact ⟨leads_ws hp1.wf.inv (by rw [hp1.cs]; rfl) hok.1 k1,
        pref_ws hp1.wf.inv (by rw [hp1.cs]; rfl) hok.1 (deep_at hp1 (by simp)) k2⟩
    constructor
    · exact leads_weaken (leads_seq (w1 := [0x7b]) L (fun p1 hp1 => (hcont p1 hp1).1) (fun _ _ => trivial))
    · intro z hz hne hd
      rcases hd with hd | hd
      · rcases prefix_cons_cases hz with rfl | ⟨z1, rfl, hz1⟩
        · exact absurd rfl hne
        · rcases L z1 trivial with k | ⟨p1, hp1, k⟩
          · exact Or.inl k
          · rw [List.singleton_append] at k
            rw [k]
            exact ((hcont p1 hp1).2 z1 hz1 (by intro hc; subst hc; exact hd rfl)).imp id Deep.toJ
      · simp [J.isNum] at hd
theorem abody_claim : (b : ABody) → b.ok = true → InClaim .arrState b.wire
  | .close, _ => close_claim _ _ (fun _ _ _ hat => leads_rbrack hat (Or.inl rfl)) (by simp)
  | .elems e ws tl, hok => by
    simp only [ABody.ok, Bool.and_eq_true] at hok
    exact first_elem_claims e (jclaim e hok.1.1) hok.1.1 ws tl.wire hok.1.2 (atail_claim tl hok.2) (ATail.wire_stop tl)
theorem atail_claim : (t : ATail) → t.ok = true → InClaim .arrStateNext t.wire
  | .close, _ => close_claim _ _ (fun _ _ _ hat => leads_rbrack hat (Or.inr rfl)) (by simp)
  | .more ws1 e ws2 tl, hok => by
    simp only [ATail.ok, Bool.and_eq_true] at hok
    have h1 := elem_in e (jclaim e hok.1.1.2) hok.1.1.2 ws2 tl.wire hok.1.2 (atail_claim tl hok.2) (ATail.wire_stop tl)
    exact byte_then .arrStateNext .arrStateValue 0x2c (by simp) (by simp) rfl
      (fun _ _ hat => leads_comma_arr hat) ws1 _ hok.1.1.1 h1
theorem obody_claim : (b : OBody) → b.ok = true → InClaim .dictState b.wire
  | .close, _ => close_claim _ _ (fun _ _ _ hat => leads_rbrace hat (Or.inl rfl)) (by simp)
  | .mems key ws1 ws2 v ws3 tl, hok => by
    simp only [OBody.ok, Bool.and_eq_true] at hok
    obtain ⟨⟨⟨⟨⟨h1, h2⟩, h3⟩, h4⟩, h5⟩, h6⟩ := hok
    exact member_claims _ (Or.inl rfl) key ws1 ws2 v (jclaim v h4) h4 ws3 tl.wire h1 h2 h3 h5
      (otail_claim tl h6) (OTail.wire_stop tl)
theorem otail_claim : (t : OTail) → t.ok = true → InClaim .dictFieldStateEnd t.wire
  | .close, _ => close_claim _ _ (fun _ _ _ hat => leads_rbrace hat (Or.inr rfl)) (by simp)
  | .more ws0 key ws1 ws2 v ws3 tl, hok => by
    simp only [OTail.ok, Bool.and_eq_true] at hok
    obtain ⟨⟨⟨⟨⟨⟨h0, h1⟩, h2⟩, h3⟩, h4⟩, h5⟩, h6⟩ := hok
    have hm := member_claims _ (Or.inr rfl) key ws1 ws2 v (jclaim v h4) h4 ws3 tl.wire h1 h2 h3 h5
      (otail_claim tl h6) (OTail.wire_stop tl)
    exact byte_then .dictFieldStateEnd .dictNextFieldState 0x2c (by simp) (by simp) rfl
      (fun _ _ hat => leads_comma_obj hat) ws0 _ h0 hm
end

/-! ## the truncation theorem -/

theorem ready_fresh : ValueReady {} .startState [] :=
  ⟨Or.inl ⟨rfl, rfl⟩, Or.inl ⟨⟨wf_fresh, ⟨rfl, rfl⟩, rfl, rfl⟩, rfl⟩⟩

theorem parse_eq_tail (b : Bytes) : parse {} b = parseTail (runA {} b) := by
  rw [parse_eq_parseFrom]
  show parseTail (feedAll {} b) = _
  rw [feedAll_run {} b inv_fresh]

/-- a run that failed, or ended deeper than idle, is not accepted at the end of the input -/
theorem parseTail_deep (v : J) (hnn : v.isNum = false) (x : P × Option Err) (hwf : WF x.1)
    (h : Errs x ∨ DeepJ v [] x.1) : (parseTail x).2 ≠ none := by
  obtain ⟨q, e⟩ := x
  cases e with
  | some e => simp [parseTail]
  | none =>
    rcases h with h | ⟨h1, h2⟩
    · exact absurd rfl h
    · simp only [parseTail]
      intro hf
      rcases finalize_none q hwf hf with hi | ⟨⟨hn, hs⟩, _⟩
      · rw [hi.1] at h1; simp at h1
      · rcases h2 hn with h3 | h3
        · rw [hnn] at h3; simp at h3
        · rw [hs] at h3; simp at h3

/-- C03 (truncation clause) for JSON, INPUT-LEVEL form: every proper non-empty prefix of a
grammatical JSON text that is not a bare number — optionally after white space — is
reported as an error by `Parse` / `ParseString` -/
theorem truncated_is_error (v : J) (hok : v.ok = true) (hnn : v.isNum = false) (ws z : Bytes)
    (hws : allWs ws = true) (hz : z <+: v.wire) (hne : z ≠ []) (hne2 : z ≠ v.wire) :
    (parse {} (ws ++ z)).2 ≠ none := by
  rw [parse_eq_tail, runA_skip {} ws z inv_fresh rfl hws]
  exact parseTail_deep v hnn _ (runA_wf {} z wf_fresh)
    ((jclaim v hok {} .startState [] ready_fresh).2 z hz hne (Or.inl hne2))

/-- … and by `Write*` + end of input (`ParseReader`), however the prefix is chunked -/
theorem truncated_is_error_chunks (v : J) (hok : v.ok = true) (hnn : v.isNum = false) (ws z : Bytes)
    (hws : allWs ws = true) (hz : z <+: v.wire) (hne : z ≠ []) (hne2 : z ≠ v.wire)
    (cs : List Bytes) (hcs : cs.flatten = ws ++ z) : (writeChunks {} cs).2 ≠ none := by
  rw [(writeChunks_eq_parse cs).1, hcs]
  exact truncated_is_error v hok hnn ws z hws hz hne hne2

/-- the text of a value leads the parser — if it reports no error on the way — back to the
idle state: the end of the value is where the grammar says it is -/
theorem complete_is_idle (v : J) (hok : v.ok = true) (hnn : v.isNum = false) :
    (runA {} v.wire).2 ≠ none ∨ Idle (runA {} v.wire).1 := by
  rcases (jclaim v hok {} .startState [] ready_fresh).1 [] (by intro h; rw [hnn] at h; simp at h) with k | ⟨q, hq, k⟩
  · rw [List.append_nil] at k; exact Or.inl k
  · rw [List.append_nil] at k
    rw [k, runA_nil]
    exact Or.inr ⟨hq.st, hq.cs⟩

end SF.Json.ParseP
