/-
  `run` / `encAll` of the JSON encoder on the events of trees (glue between the tree refinement
  theorem `enc_tree` and the stream-level entry points).
-/
import SF.Proofs.JsonEncTree
import SF.Proofs.JsonEncSim
namespace SF.Json.Enc
open SF SF.Json SF.Json.Float ETree

/-- the encoder driven through `run` with basic events -/
theorem run_evs (s s' : Enc) (es : List Ev) (h : execEvs s es = (s', .ok)) :
    run s (es.map XEv.ev) = (s', none, .ok) := by
  have key : ∀ (es : List Ev) (s : Enc) (i : Nat), execEvs s es = (s', .ok) →
      run.go s i (es.map XEv.ev) = (s', none, .ok) := by
    intro es
    induction es with
    | nil => intro s i h; simp [execEvs] at h; simp [run.go, h]
    | cons e es ih =>
      intro s i h
      simp only [execEvs] at h
      simp only [List.map_cons, run.go, step]
      rcases hx : exec s (acts s e) with ⟨s1, r⟩
      rw [hx] at h
      cases r with
      | ok => simp only at h ⊢; exact ih s1 (i + 1) h
      | err => simp at h
      | panic => simp at h
      | hang => simp at h
  exact key es s 0 h

/-- one document from any state with a healthy writer -/
theorem enc_doc (o : Enc) (t : ETree) (hs : supported o t = true) (s : Enc) (ho : Opts s o)
    (hf : s.w.failFrom = none) :
    ∃ w', execEvs s t.events = ({ s with w := w', first := afterVal s }, .ok) ∧ w'.failFrom = none ∧
      w'.out = s.w.out ++ sep s ++ text o t := by
  obtain ⟨w', h1, h2, h3⟩ := enc_tree o t hs s ho hf []
  rw [List.append_nil] at h1
  exact ⟨w', by rw [h1]; rfl, h2, h3⟩

/-- a history of documents at top level (or inside an object value position): every document
leaves the visitor as it found it, only the output grew -/
theorem enc_docs (o : Enc) (hist : List ETree) (hh : ∀ t ∈ hist, supported o t = true) (s : Enc) (ho : Opts s o)
    (hf : s.w.failFrom = none) (ha : s.inArray.current = false) :
    ∃ w', execEvs s (eventsList hist) = ({ s with w := w' }, .ok) ∧ w'.failFrom = none ∧
      w'.out = s.w.out ++ (hist.map (text o)).flatten := by
  induction hist generalizing s with
  | nil => exact ⟨s.w, rfl, hf, by simp⟩
  | cons t ts ih =>
    obtain ⟨w1, a1, a2, a3⟩ := enc_tree o t (hh t (by simp)) s ho hf (eventsList ts)
    have hav : afterVal s = s.first := by simp [afterVal, ha]
    have hsep : sep s = [] := by simp [sep, ha]
    rw [hav] at a1
    obtain ⟨w2, b1, b2, b3⟩ := ih (fun t' ht' => hh t' (by simp [ht'])) (s.upd w1 s.first)
      (opts_upd ho _ _) a2 ha
    refine ⟨w2, ?_, b2, ?_⟩
    · simp only [eventsList]; rw [a1, b1]; rfl
    · rw [b3]; simp [Enc.upd, a3, hsep]

end SF.Json.Enc
