/-
  C17 for the JSON parser mirror: `inEscape` is set only while a string or key is being read.
  `Tidy p`: if an escape is pending then the parser is inside a string or key of which at
  least the opening quote has been buffered.  Holds for the fresh parser, is preserved by
  every step; so after any ACCEPTED input (the parser is idle) no escape is pending, which is
  what `Parse` — it does not reset `inEscape` — needs to read the next document correctly.
-/
import SF.Proofs.JsonShape
set_option linter.unusedSimpArgs false
namespace SF.Json.ParseP
open SF SF.Json SF.Json.Parse SF.Json.Float

def Tidy (p : P) : Prop :=
  p.inEscape = true →
    (p.currentState = .stringState ∨ p.currentState = .dictFieldState) ∧ p.literalBuffer ≠ []

theorem tidy_of_false {p : P} (h : p.inEscape = false) : Tidy p := by
  intro hc; rw [h] at hc; simp at hc

theorem scanString_some_esc (buf : Bytes) (esc : Bool) (k i : Nat) (h : (scanString buf esc k).1 = some i) :
    (scanString buf esc k).2 = false := by
  induction buf generalizing esc k with
  | nil => simp [scanString] at h
  | cons c rest ih =>
    simp only [scanString] at h ⊢
    split
    · rename_i he; rw [if_pos he] at h; exact ih _ _ h
    · rename_i he
      rw [if_neg he] at h
      split
      · simpa using he
      · rename_i hq
        rw [if_neg hq] at h
        split
        · rename_i hb; rw [if_pos hb] at h; exact ih _ _ h
        · rename_i hb; rw [if_neg hb] at h; exact ih _ _ h

/-! ## `inEscape` is untouched outside strings -/

theorem visit_esc (p : P) (e : Ev) : (visit p e).1.inEscape = p.inEscape := by rw [visit_fst]

theorem popState_esc (p : P) : (popState p).inEscape = p.inEscape := by unfold popState; split <;> rfl

theorem pushState_esc (p : P) (s : St) : (pushState p s).inEscape = p.inEscape := by
  unfold pushState; split <;> rfl

theorem stepLit_esc (p : P) (b : Bytes) (kind : String) (err : Err) (ev : Ev)
    (hn : p.required ≤ (strBytes kind).length) : (stepLit p b kind err ev).p.inEscape = p.inEscape := by
  by_cases hb : b.length < p.required
  · rw [stepLit_short p b kind err ev hn hb]; split <;> rfl
  · rw [stepLit_full p b kind err ev hn (by omega)]
    split
    · simp only [visit_esc, popState_esc]
    · rfl

theorem reportNumber_esc (p : P) (b : Bytes) (d : Bool) : (reportNumber p b d).1.inEscape = p.inEscape := by
  unfold reportNumber
  split
  · split <;> first | exact visit_esc _ _ | rfl
  · split
    · rfl
    · split
      · exact visit_esc _ _
      · split <;> exact visit_esc _ _

theorem stepNumber_esc (p : P) (b : Bytes) : (stepNumber p b).p.inEscape = p.inEscape := by
  cases hd : (scanNumber b p.isDouble).2.2.1 with
  | false => rw [stepNumber_more p b hd]
  | true => rw [stepNumber_done p b hd]; simp only [popState_esc, reportNumber_esc]

theorem endDict_esc (p : P) (b : Bytes) : (endDict p b).p.inEscape = p.inEscape := by
  unfold endDict; simp only [visit_esc, popState_esc]

theorem endArray_esc (p : P) (b : Bytes) : (endArray p b).p.inEscape = p.inEscape := by
  unfold endArray; simp only [visit_esc, popState_esc]

theorem stepDict_esc (p : P) (b : Bytes) (ae : Bool) : (stepDict p b ae).p.inEscape = p.inEscape := by
  unfold stepDict
  split
  · rfl
  · simp only
    split
    · split
      · rfl
      · exact endDict_esc _ _
    · split <;> rfl

theorem stepDictValueEnd_esc (p : P) (b : Bytes) : (stepDictValueEnd p b).p.inEscape = p.inEscape := by
  unfold stepDictValueEnd
  split
  · rfl
  · split
    · exact endDict_esc _ _
    · split <;> rfl

theorem stepArray_esc (p : P) (b : Bytes) (ae : Bool) : (stepArray p b ae).p.inEscape = p.inEscape := by
  unfold stepArray
  split
  · rfl
  · simp only
    split
    · split
      · rfl
      · exact endArray_esc _ _
    · rfl

theorem stepArrValueEnd_esc (p : P) (b : Bytes) : (stepArrValueEnd p b).p.inEscape = p.inEscape := by
  unfold stepArrValueEnd
  split
  · rfl
  · split
    · exact endArray_esc _ _
    · split <;> rfl

/-! ## strings -/

/-- after doString: either it is still inside the string (everything buffered), or no
escape is pending -/
theorem doString_tidy (p : P) (b : Bytes) (hb : b ≠ []) :
    ((doString p b).1.inEscape = false ∧ (doString p b).1.currentState = p.currentState) ∨
    ((doString p b).2.2.1 = false ∧ (doString p b).2.2.2.2 = none ∧ (doString p b).1.literalBuffer ≠ [] ∧
      (doString p b).1.currentState = p.currentState) := by
  cases b with
  | nil => exact absurd rfl hb
  | cons c tl =>
    cases hlb : p.literalBuffer with
    | nil =>
      cases hs : (scanString tl p.inEscape 0).1 with
      | none => rw [doString_start_none p c tl hlb hs]; exact Or.inr ⟨rfl, rfl, by simp, rfl⟩
      | some i =>
        rw [doString_start_some p c tl i hlb hs]
        have := scanString_some_esc _ _ _ _ hs
        cases unquote (tl.take i) <;> exact Or.inl ⟨this, rfl⟩
    | cons l ls =>
      cases hs : (scanString (c :: tl) p.inEscape 0).1 with
      | none => rw [doString_cont_none p _ l ls hlb hs]; exact Or.inr ⟨rfl, rfl, by simp, rfl⟩
      | some i =>
        rw [doString_cont_some p _ l ls i hlb hs]
        have := scanString_some_esc _ _ _ _ hs
        cases unquote (ls ++ (c :: tl).take i) <;> exact Or.inl ⟨this, rfl⟩

theorem stepString_tidy (p : P) (b : Bytes) (hb : b ≠ []) (hcs : p.currentState = .stringState) :
    Tidy (stepString p b).p := by
  have h := doString_tidy p b hb
  unfold stepString
  generalize doString p b = d at h ⊢
  obtain ⟨q, ref, done, rest, err⟩ := d
  simp only at h ⊢
  rcases h with ⟨h1, _⟩ | ⟨h1, h2, h3, h4⟩
  · split
    · exact tidy_of_false (by simp only [visit_esc, popState_esc]; exact h1)
    · exact tidy_of_false h1
  · subst h1
    simp only [Bool.false_and, Bool.false_eq_true, if_false]
    exact fun _ => ⟨Or.inl (by rw [h4, hcs]), h3⟩

theorem stepDictKey_tidy (p : P) (b : Bytes) (hb : b ≠ []) (hcs : p.currentState = .dictFieldState) :
    Tidy (stepDictKey p b).p := by
  have h := doString_tidy p b hb
  unfold stepDictKey
  generalize doString p b = d at h ⊢
  obtain ⟨q, ref, done, rest, err⟩ := d
  simp only at h ⊢
  rcases h with ⟨h1, _⟩ | ⟨h1, h2, h3, h4⟩
  · split
    · exact tidy_of_false (by simp only [visit_esc]; exact h1)
    · exact tidy_of_false h1
  · subst h1
    simp only [Bool.false_and, Bool.false_eq_true, if_false]
    exact fun _ => ⟨Or.inr (by rw [h4, hcs]), h3⟩

theorem stepValue_tidy (p : P) (b : Bytes) (ret : St) (h : p.inEscape = false) : Tidy (stepValue p b ret).p := by
  unfold stepValue
  split
  · exact tidy_of_false h
  · rename_i c tl _
    simp only
    split
    · exact tidy_of_false (by simp only [visit_esc, pushState_esc]; exact h)
    · split
      · exact tidy_of_false (by simp only [visit_esc, pushState_esc]; exact h)
      · split
        · refine tidy_of_false ?_
          unfold stepNULL
          rw [stepLit_esc _ _ _ _ _ (by rw [kind_null]; simp)]
          simp only [pushState_esc]; exact h
        · split
          · refine tidy_of_false ?_
            unfold stepFALSE
            rw [stepLit_esc _ _ _ _ _ (by rw [kind_false]; simp)]
            simp only [pushState_esc]; exact h
          · split
            · refine tidy_of_false ?_
              unfold stepTRUE
              rw [stepLit_esc _ _ _ _ _ (by rw [kind_true]; simp)]
              simp only [pushState_esc]; exact h
            · split
              · apply stepString_tidy _ _ (by simp)
                show (pushState _ St.stringState).currentState = _
                unfold pushState; split <;> rfl
              · split
                · exact tidy_of_false h
                · refine tidy_of_false ?_
                  rw [stepNumber_esc]
                  simp only [pushState_esc]; exact h

/-- ONE STEP preserves `Tidy` -/
theorem execStep_tidy (p : P) (b : Bytes) (hb : b ≠ []) (hinv : Inv p) (h : Tidy p) : Tidy (execStep p b).1.p := by
  by_cases hs : p.currentState = .stringState
  · unfold execStep; rw [hs]; exact stepString_tidy p b hb hs
  by_cases hk : p.currentState = .dictFieldState
  · unfold execStep; rw [hk]; exact stepDictKey_tidy p b hb hk
  have hf : p.inEscape = false := by
    cases he : p.inEscape with
    | false => rfl
    | true => rcases (h he).1 with h1 | h1 <;> contradiction
  unfold execStep
  cases hcs : p.currentState with
  | failedState =>
    simp only
    split <;> exact tidy_of_false hf
  | startState => exact stepValue_tidy p b _ hf
  | dictState => exact tidy_of_false (by rw [stepDict_esc]; exact hf)
  | dictNextFieldState => exact tidy_of_false (by rw [stepDict_esc]; exact hf)
  | dictFieldState => exact absurd hcs hk
  | dictFieldValueSep =>
    simp only
    split <;> exact tidy_of_false hf
  | dictFieldValue => exact stepValue_tidy p b _ hf
  | dictFieldStateEnd => exact tidy_of_false (by rw [stepDictValueEnd_esc]; exact hf)
  | arrState => exact tidy_of_false (by rw [stepArray_esc]; exact hf)
  | arrStateValue => exact stepValue_tidy p b _ hf
  | arrStateNext => exact tidy_of_false (by rw [stepArrValueEnd_esc]; exact hf)
  | nullState =>
    refine tidy_of_false ?_
    unfold stepNULL
    rw [stepLit_esc _ _ _ _ _ (by rw [kind_null]; have := hinv.lit (by rw [hcs]; rfl); rw [hcs] at this; exact this)]
    exact hf
  | trueState =>
    refine tidy_of_false ?_
    unfold stepTRUE
    rw [stepLit_esc _ _ _ _ _ (by rw [kind_true]; have := hinv.lit (by rw [hcs]; rfl); rw [hcs] at this; exact this)]
    exact hf
  | falseState =>
    refine tidy_of_false ?_
    unfold stepFALSE
    rw [stepLit_esc _ _ _ _ _ (by rw [kind_false]; have := hinv.lit (by rw [hcs]; rfl); rw [hcs] at this; exact this)]
    exact hf
  | stringState => exact absurd hcs hs
  | numberState => exact tidy_of_false (by rw [stepNumber_esc]; exact hf)

/-! ## the loops -/

theorem feedUntil_tidy (f : Nat) (p : P) (b : Bytes) (hinv : Inv p) (h : Tidy p) : Tidy (feedUntil f p b).p := by
  induction f generalizing p b with
  | zero => exact h
  | succ f ih =>
    rw [feedUntil_succ]
    by_cases hb : b = []
    · subst hb; exact h
    · have hbe : b.isEmpty = false := by cases b <;> simp_all
      simp only [hbe, Bool.false_eq_true, if_false]
      have ht := execStep_tidy p b hb hinv h
      split
      · exact ht
      · split
        · exact ht
        · rename_i hs _
          have hcs : p.currentState ≠ .failedState := by
            intro hc
            rw [(execStep_failed p b hc).1] at hs; simp at hs
          obtain ⟨_, _, _, k4, _⟩ := execStep_ok p b hb hinv hcs
          split
          · exact ht
          · exact ih _ _ k4 ht

theorem feed_tidy (fuel : Nat) (p : P) (b : Bytes) (hinv : Inv p) (h : Tidy p) : Tidy (feed fuel p b).1 := by
  induction fuel generalizing p b with
  | zero => exact h
  | succ fuel ih =>
    rw [feed_succ]
    split
    · exact h
    · have ht := feedUntil_tidy (fuelFor b) p b hinv h
      have hi := (feedUntil_spec (fuelFor b) p b hinv).1
      split
      · exact ht
      · exact ih _ _ hi ht

theorem write_tidy (p : P) (b : Bytes) (hinv : Inv p) (h : Tidy p) : Tidy (write p b).1 := by
  unfold write feedAll
  exact feed_tidy _ p b hinv h

theorem tidy_fresh : Tidy {} := tidy_of_false rfl

/-- every state reached from the fresh parser by `Write` calls is tidy -/
theorem writes_tidy (cs : List Bytes) (p : P) (hinv : Inv p) (h : Tidy p) :
    Tidy (cs.foldl (fun q c => (write q c).1) p) := by
  induction cs generalizing p with
  | nil => exact h
  | cons c cs ih => exact ih _ (write_spec p c hinv).1 (write_tidy p c hinv h)

/-! ## an accepted `Parse` leaves the parser idle and reusable -/

/-- no escape pending, a visitor that does not fail: what `Parse` needs of the parser value
it is called on (it resets the state stack, the state and the buffer, nothing else) -/
def Reusable (p : P) : Prop := p.inEscape = false ∧ p.failAt = none

theorem finalize_accepted (q : P) (hwf : WF q) (ht : Tidy q) (h : (finalize q).2 = none) :
    Idle (finalize q).1 ∧ (finalize q).1.inEscape = false := by
  have hesc : q.inEscape = false := by
    cases he : q.inEscape with
    | false => rfl
    | true =>
      exfalso
      rcases finalize_none q hwf h with hi | ⟨⟨hn, _⟩, _⟩
      · rcases (ht he).1 with h1 | h1 <;> rw [hi.2] at h1 <;> simp at h1
      · rcases (ht he).1 with h1 | h1 <;> rw [hn] at h1 <;> simp at h1
  rcases finalize_none q hwf h with hi | ⟨⟨hn, hs⟩, hr⟩
  · have : finalize q = (q, none) := by
      unfold finalize; simp [hi.1, hi.2]
    rw [this]; exact ⟨hi, hesc⟩
  · obtain ⟨_, evs, nevs, h2⟩ := reportNumber_spec q q.literalBuffer q.isDouble (hwf.inv.num hn)
    have : finalize q = ({ q with evs := evs, nevs := nevs, currentState := .startState, states := [] }, none) := by
      unfold finalize
      simp only [hn, beq_self_eq_true, if_true]
      cases hrn : reportNumber q q.literalBuffer q.isDouble with
      | mk q' e =>
        rw [hrn] at hr h2
        simp only at hr h2
        subst hr; subst h2
        simp [popState, hs]
    rw [this]
    exact ⟨⟨rfl, rfl⟩, hesc⟩

theorem parse_accepted (p : P) (b : Bytes) (hp : p.inEscape = false) (h : (parse p b).2 = none) :
    Idle (parse p b).1 ∧ (parse p b).1.inEscape = false := by
  have hwf : WF { p with states := [], literalBuffer := [], currentState := .startState } :=
    ⟨by constructor <;> simp [isLit], Or.inl ⟨rfl, rfl⟩⟩
  have ht : Tidy { p with states := [], literalBuffer := [], currentState := .startState } := tidy_of_false hp
  have k1 := feed_wf (2 * b.length + 4) _ b hwf
  have k2 := feed_tidy (2 * b.length + 4) _ b hwf.inv ht
  unfold parse feedAll at h ⊢
  simp only at h ⊢
  cases hf : feed (2 * b.length + 4) { p with states := [], literalBuffer := [], currentState := .startState } b with
  | mk q e =>
    rw [hf] at h k1 k2
    cases e with
    | some e => simp at h
    | none =>
      simp only at h ⊢
      obtain ⟨j1, j2⟩ := finalize_accepted q k1 k2 h
      exact ⟨⟨j1.1, j1.2⟩, j2⟩

end SF.Json.ParseP
