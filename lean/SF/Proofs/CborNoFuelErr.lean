/-
  No step of the cborl parser mirror ever reports `Err.outOfFuel` by itself (that error is
  produced only by the fuel-instrumented loops).  Mechanical copy of the no-panic analysis
  (SF/Proofs/CborNoPanic.lean) for the other instrumentation error.
-/
import SF.Proofs.CborNoPanic
namespace SF.Cbor.Sim.NF
open SF SF.Cbor SF.Cbor.Parse SF.Props.C03

theorem visit_no_oof (p : P) (e : Ev) : (visit p e).2 ≠ some .outOfFuel := by
  simp only [visit]; split <;> (try split) <;> simp

theorem onValue_no_oof (n : Nat) (p : P) : (onValue n p).2.2 ≠ some .outOfFuel := by
  induction n generalizing p with
  | zero =>
    unfold onValue
    simp only
    split
    · split
      · simp
      · rcases h : visit (decLen p 1) (if p.state.current.major == majorArr then Ev.arrEnd else Ev.objEnd) with ⟨p', err⟩
        have := visit_err (decLen p 1) (if p.state.current.major == majorArr then Ev.arrEnd else Ev.objEnd)
        rw [h] at this
        rcases this with h1 | h1 <;> simp only at h1 <;> subst h1 <;> simp
    · split <;> simp
  | succ n ih =>
    unfold onValue
    simp only
    split
    · split
      · simp
      · rcases h : visit (decLen p 1) (if p.state.current.major == majorArr then Ev.arrEnd else Ev.objEnd) with ⟨p', err⟩
        have := visit_err (decLen p 1) (if p.state.current.major == majorArr then Ev.arrEnd else Ev.objEnd)
        rw [h] at this
        rcases this with h1 | h1 <;> simp only at h1 <;> subst h1
        · simp only; exact ih _
        · simp
    · split <;> simp

theorem popState_no_oof (n : Nat) (p : P) : (popState n p).2.2 ≠ some .outOfFuel := by
  cases n with
  | zero => simp [popState]
  | succ n => simp only [popState]; exact onValue_no_oof n _

theorem scalar_no_oof (p : P) (e : Ev) (rest : Bytes) : (scalar p e rest).err ≠ some .outOfFuel := by
  unfold scalar
  rcases h : visit p e with ⟨p', err⟩
  have := visit_err p e
  rw [h] at this
  rcases this with h1 | h1
  · simp only at h1; subst h1; simp only [onValueR]; exact onValue_no_oof _ _
  · simp only at h1; subst h1; simp

theorem scalarPop_no_oof (p : P) (e : Ev) (rest : Bytes) : (scalarPop p e rest).err ≠ some .outOfFuel := by
  unfold scalarPop
  rcases h : visit p e with ⟨p', err⟩
  have := visit_err p e
  rw [h] at this
  rcases this with h1 | h1
  · simp only at h1; subst h1; simp only [popStateR]; exact popState_no_oof _ _
  · simp only at h1; subst h1; simp



theorem initByteSeq_no_oof (p : P) (a b : UInt8) (bs : Bytes) : (initByteSeq p a b bs).err ≠ some .outOfFuel := by
  unfold initByteSeq; split <;> (try split) <;> simp

theorem initSub_no_oof (p : P) (a b : UInt8) (bs : Bytes) : (initSub p a b bs).err ≠ some .outOfFuel := by
  unfold initSub; split <;> (try split) <;> (try split) <;> simp

theorem stepValue_no_oof (p : P) (b : Bytes) : (stepValue p b).err ≠ some .outOfFuel := by
  unfold stepValue
  split
  · simp
  · simp only
    repeat' split
    all_goals first
      | exact scalar_no_oof _ _ _
      | exact initByteSeq_no_oof _ _ _ _
      | exact initSub_no_oof _ _ _ _
      | simp

theorem stepUint_no_oof (p : P) (b : Bytes) (hb : b ≠ []) : (stepUint p b).err ≠ some .outOfFuel := by
  unfold stepUint
  split
  · simp
  · rename_i w _
    obtain ⟨⟨p', rest, v⟩, h⟩ := getArg_nonempty p b w hb
    rw [h]
    cases v with
    | none => simp
    | some v => simp only; exact scalarPop_no_oof _ _ _

theorem stepNeg_no_oof (p : P) (b : Bytes) (hb : b ≠ []) : (stepNeg p b).err ≠ some .outOfFuel := by
  unfold stepNeg
  split
  · simp
  · rename_i w _
    obtain ⟨⟨p', rest, v⟩, h⟩ := getArg_nonempty p b w hb
    rw [h]
    cases v with
    | none => simp
    | some v =>
      simp only
      cases hn : negEvent w v with
      | error e =>
        simp only
        unfold negEvent at hn
        repeat' split at hn
        all_goals (first | (rw [← hn]; decide) | (injection hn with hn; rw [← hn]; decide) | simp_all)
      | ok ev => simp only; exact scalarPop_no_oof _ _ _

theorem stepLen_no_oof (p : P) (b : Bytes) (hb : b ≠ []) : (stepLen p b).err ≠ some .outOfFuel := by
  unfold stepLen
  split
  · simp
  · rename_i w _
    obtain ⟨⟨p', rest, v⟩, h⟩ := getArg_nonempty p b w hb
    rw [h]
    cases v with
    | none => simp
    | some v => simp only; split <;> simp

theorem stepFloat_no_oof (p : P) (b : Bytes) (w : Nat) : (stepFloat p b w).err ≠ some .outOfFuel := by
  unfold stepFloat
  simp only
  split
  · simp
  · rename_i t _
    rcases h : visit (collectP p b w).1 (if w == 4 then Ev.f32 (UInt32.ofNat (beNat t)) else Ev.f64 (UInt64.ofNat (beNat t))) with ⟨p', err⟩
    have := visit_err (collectP p b w).1 (if w == 4 then Ev.f32 (UInt32.ofNat (beNat t)) else Ev.f64 (UInt64.ofNat (beNat t)))
    rw [h] at this
    rcases this with h1 | h1 <;> simp only at h1 <;> subst h1
    · simp only [popStateR]; exact popState_no_oof _ _
    · simp



theorem handleLenD_no_oof (isArr : Bool) (n : Nat) (p : P) : (handleLenD isArr n p).2.2 ≠ some .outOfFuel := by
  unfold handleLenD
  split
  · simp
  · visit_cases p (if isArr then Ev.arrEnd else Ev.objEnd)
    · exact popState_no_oof _ _
    · simp

theorem stepBytesGo_no_oof (p : P) (b : Bytes) : (stepBytesGo p b).err ≠ some .outOfFuel := by
  unfold stepBytesGo
  simp only []
  split
  · rename_i q e heq
    have hq : ∀ (X : P) (es : List Ev), visitAll X es = (q, some e) → e = Err.visitor := by
      intro X es hX
      have := visitAll_err X es
      rw [hX] at this
      rcases this with h1 | h1 <;> simp at h1
      exact h1
    have := hq _ _ heq
    subst this; simp
  · rename_i q heq
    split
    · visit_cases q Ev.arrEnd
      · simp only [popStateR]; exact popState_no_oof _ _
      · simp
    · simp

theorem stepBytes_no_oof (p : P) (b : Bytes) : (stepBytes p b).err ≠ some .outOfFuel := by
  unfold stepBytes
  split
  · visit_cases p (Ev.arrStart p.length.current BT.byte)
    · exact stepBytesGo_no_oof _ _
    · simp
  · exact stepBytesGo_no_oof _ _

theorem stepText_no_oof (p : P) (b : Bytes) : (stepText p b).err ≠ some .outOfFuel := by
  unfold stepText
  simp only
  split
  · simp
  · rename_i t _
    visit_cases (popLen (collectP p b p.length.current.toNat).1) (Ev.str t)
    · simp only [popStateR]; exact popState_no_oof _ _
    · simp

theorem stepKey_no_oof (p : P) (b : Bytes) : (stepKey p b).err ≠ some .outOfFuel := by
  unfold stepKey
  simp only
  split
  · simp
  · rename_i t _
    visit_cases (collectP p b p.length.current.toNat).1 (Ev.key t)
    · simp
    · simp

theorem initMapKey_no_oof (p : P) (b : Bytes) (hb : b ≠ []) : (initMapKey p b).err ≠ some .outOfFuel := by
  unfold initMapKey
  cases b with
  | nil => exact absurd rfl hb
  | cons b0 bs =>
    simp only
    split
    · simp
    · split
      · simp
      · exact initByteSeq_no_oof _ _ _ _

theorem stepArray_no_oof (p : P) (b : Bytes) : (stepArray p b).err ≠ some .outOfFuel := by
  unfold stepArray
  split
  · exact stepValue_no_oof _ _
  · simp only; exact handleLenD_no_oof _ _ _

theorem stepMap_no_oof (p : P) (b : Bytes) : (stepMap p b).err ≠ some .outOfFuel := by
  unfold stepMap
  split
  · split
    · rename_i h; exact initMapKey_no_oof _ _ (by intro hc; simp [hc] at h)
    · simp
  · simp only; exact handleLenD_no_oof _ _ _

theorem indefArr_no_oof (p : P) (b : Bytes) (hb : b ≠ []) : (indefArr p b).err ≠ some .outOfFuel := by
  unfold indefArr
  cases b with
  | nil => exact absurd rfl hb
  | cons b0 bs =>
    simp only
    split
    · visit_cases p Ev.arrEnd
      · simp only [popStateR]; exact popState_no_oof _ _
      · simp
    · exact stepValue_no_oof _ _

theorem indefMap_no_oof (p : P) (b : Bytes) (hb : b ≠ []) : (indefMap p b).err ≠ some .outOfFuel := by
  unfold indefMap
  cases b with
  | nil => exact absurd rfl hb
  | cons b0 bs =>
    simp only
    split
    · visit_cases p Ev.objEnd
      · simp only [popStateR]; exact popState_no_oof _ _
      · simp
    · exact initMapKey_no_oof _ _ (by simp)



/-- ONE STEP NEVER PANICS — for EVERY parser state (reachable or not) whose stored error is
not itself a panic, and every input the main loop can pass: non-empty input, or empty input
in a "start pending" state -/
theorem execStep_no_oof (p : P) (b : Bytes) (h : b ≠ [] ∨ startPending p = true)
    (herr : p.err ≠ some .outOfFuel) : (execStep p b).err ≠ some .outOfFuel := by
  have hb : ∀ m : UInt8, p.state.current.major = m →
      ((m &&& (stStartX ||| stIndef)) == stStartX) = false → b ≠ [] := by
    intro m hm hf
    rcases h with h | h
    · exact h
    · rw [not_pending_of_major hm hf] at h; exact absurd h (by simp)
  unfold execStep
  simp only []
  by_cases hX : (p.state.current.major == stFail) = true
  · simp only [hX, if_true]
    intro hc; exact herr hc
  simp only [hX, Bool.false_eq_true, if_false]
  clear hX
  by_cases hX : (p.state.current.major == stValue) = true
  · simp only [hX, if_true]
    exact stepValue_no_oof _ _
  simp only [hX, Bool.false_eq_true, if_false]
  clear hX
  by_cases hX : (p.state.current.major == stLen) = true
  · simp only [hX, if_true]
    exact stepLen_no_oof _ _ (hb _ (by simpa using hX) (by decide))
  simp only [hX, Bool.false_eq_true, if_false]
  clear hX
  by_cases hX : (p.state.current.major == majorUint) = true
  · simp only [hX, if_true]
    exact stepUint_no_oof _ _ (hb _ (by simpa using hX) (by decide))
  simp only [hX, Bool.false_eq_true, if_false]
  clear hX
  by_cases hX : (p.state.current.major == majorNeg) = true
  · simp only [hX, if_true]
    exact stepNeg_no_oof _ _ (hb _ (by simpa using hX) (by decide))
  simp only [hX, Bool.false_eq_true, if_false]
  clear hX
  by_cases hX : (p.state.current.major == codeSingleFloat) = true
  · simp only [hX, if_true]
    exact stepFloat_no_oof _ _ _
  simp only [hX, Bool.false_eq_true, if_false]
  clear hX
  by_cases hX : (p.state.current.major == codeDoubleFloat) = true
  · simp only [hX, if_true]
    exact stepFloat_no_oof _ _ _
  simp only [hX, Bool.false_eq_true, if_false]
  clear hX
  by_cases hX : (p.state.current.major == (majorBytes ||| stStartX)) = true
  · simp only [hX, if_true]
    split
    · rcases hvis : visit p (Ev.arrStart 0 BT.byte) with ⟨q, err⟩
      have hv := visit_err p (Ev.arrStart 0 BT.byte)
      rw [hvis] at hv
      rcases hv with h1 | h1 <;> simp only at h1 <;> subst h1 <;> simp only []
      · visit_cases q Ev.arrEnd
        · simp only [popStateR]; exact popState_no_oof _ _
        · simp
      · simp
    · split
      · simp
      · exact stepBytes_no_oof _ _
  simp only [hX, Bool.false_eq_true, if_false]
  clear hX
  by_cases hX : (p.state.current.major == majorBytes) = true
  · simp only [hX, if_true]
    exact stepBytes_no_oof _ _
  simp only [hX, Bool.false_eq_true, if_false]
  clear hX
  by_cases hX : (p.state.current.major == (majorText ||| stStartX)) = true
  · simp only [hX, if_true]
    split
    · visit_cases (popLen p) (Ev.str [])
      · simp only [popStateR]; exact popState_no_oof _ _
      · simp
    · split
      · simp
      · exact stepText_no_oof _ _
  simp only [hX, Bool.false_eq_true, if_false]
  clear hX
  by_cases hX : (p.state.current.major == majorText) = true
  · simp only [hX, if_true]
    exact stepText_no_oof _ _
  simp only [hX, Bool.false_eq_true, if_false]
  clear hX
  by_cases hX : (p.state.current.major == stStartArr) = true
  · simp only [hX, if_true]
    visit_cases p (Ev.arrStart p.length.current BT.any)
    · exact stepArray_no_oof _ _
    · simp
  simp only [hX, Bool.false_eq_true, if_false]
  clear hX
  by_cases hX : (p.state.current.major == majorArr) = true
  · simp only [hX, if_true]
    exact stepArray_no_oof _ _
  simp only [hX, Bool.false_eq_true, if_false]
  clear hX
  by_cases hX : (p.state.current.major == stStartIndefArr) = true
  · simp only [hX, if_true]
    visit_cases p (Ev.arrStart (-1) BT.any)
    · exact indefArr_no_oof _ _ (hb _ (by simpa using hX) (by decide))
    · simp
  simp only [hX, Bool.false_eq_true, if_false]
  clear hX
  by_cases hX : (p.state.current.major == (majorArr ||| stIndef)) = true
  · simp only [hX, if_true]
    exact indefArr_no_oof _ _ (hb _ (by simpa using hX) (by decide))
  simp only [hX, Bool.false_eq_true, if_false]
  clear hX
  by_cases hX : (p.state.current.major == stStartMap) = true
  · simp only [hX, if_true]
    visit_cases p (Ev.objStart p.length.current BT.any)
    · exact stepMap_no_oof _ _
    · simp
  simp only [hX, Bool.false_eq_true, if_false]
  clear hX
  by_cases hX : (p.state.current.major == majorMap) = true
  · simp only [hX, if_true]
    exact stepMap_no_oof _ _
  simp only [hX, Bool.false_eq_true, if_false]
  clear hX
  by_cases hX : (p.state.current.major == stStartIndefMap) = true
  · simp only [hX, if_true]
    visit_cases p (Ev.objStart (-1) BT.any)
    · exact indefMap_no_oof _ _ (hb _ (by simpa using hX) (by decide))
    · simp
  simp only [hX, Bool.false_eq_true, if_false]
  clear hX
  by_cases hX : (p.state.current.major == (majorMap ||| stIndef)) = true
  · simp only [hX, if_true]
    exact indefMap_no_oof _ _ (hb _ (by simpa using hX) (by decide))
  simp only [hX, Bool.false_eq_true, if_false]
  clear hX
  by_cases hX : (p.state.current.major == (stKey ||| stStartX)) = true
  · simp only [hX, if_true]
    split
    · visit_cases p (Ev.key [])
      · simp
      · simp
    · exact stepKey_no_oof _ _
  simp only [hX, Bool.false_eq_true, if_false]
  clear hX
  by_cases hX : (p.state.current.major == stKey) = true
  · simp only [hX, if_true]
    exact stepKey_no_oof _ _
  simp only [hX, Bool.false_eq_true, if_false]
  clear hX
  by_cases hX : (p.state.current.major == stElem) = true
  · simp only [hX, if_true]
    exact stepValue_no_oof _ _
  simp only [hX, Bool.false_eq_true, if_false]
  clear hX
  simp

end SF.Cbor.Sim.NF
