/-
  C11, UBJSON path, the CODEC leg: what the UBJSON encoder mirror writes for ONE event of Fold
  (a scalar or an extended value event: `isLeaf`), as the wire form of an explicit well-formed
  item, what the parser mirror (`Parse` / `Write*` + end of input / `ParseReader`) reports for it,
  and the kind under which an integer comes back (`ubjKind`).
-/
import SF.Proofs.FuCborRun
import SF.Proofs.UbjBridgeTop
import SF.Proofs.UbjChunkTop
import SF.Ops.Ubjson
set_option linter.unusedSimpArgs false
namespace SF.FuUbj
open SF SF.FuCbor
open SF.Ubjson SF.Ubjson.Wire SF.Ubjson.Bridge
open SF.Ubjson.Enc (isLeaf leafTree leafItem toItem numItem item16 item32 item64 minM utOf utItem)
open SF.Cbor.Enc (small)
open SF.Unf (Sc UEv PK)

/-! ## the parser entry points on one accepted document -/

theorem init_none : Parse.init none = {} := rfl

/-- one `Write` of the whole document, then end of input: the same final state as `Parse` -/
theorem writeChunks_single (b : Bytes) (pr : Parse.P) (hp : Parse.parse {} b = (pr, none)) :
    Parse.writeChunks {} [b] = (pr, none) := by
  have h1 : (Parse.writeChunks {} [b]).2 ≠ some .outOfFuel := by
    simp only [Parse.writeChunks, Parse.write]
    rcases hf : Parse.feedAll {} b with ⟨q, _ | e⟩
    · exact SF.Props.UbjParse.finalize_terminates _
    · simp [Parse.parse, hf] at hp
  have h2 : (Parse.parse {} [b].flatten).2 ≠ some .outOfFuel := by simp [hp]
  obtain ⟨_, hb, hc⟩ := SF.Props.UbjChunk.ubj_chunk_independent_default [b] h1 h2
  have hfl : [b].flatten = b := by simp
  rw [hfl, hp] at hb hc
  have := hc hb
  rcases hw : Parse.writeChunks {} [b] with ⟨q, e⟩
  rw [hw] at hb this
  simp only at hb this
  rw [hb, this]

/-- the document in ANY chunking -/
theorem writeChunks_any (b : Bytes) (pr : Parse.P) (hp : Parse.parse {} b = (pr, none)) (cs : List Bytes)
    (hcs : cs.flatten = b) (hfuel : (Parse.writeChunks {} cs).2 ≠ some .outOfFuel) :
    Parse.writeChunks {} cs = (pr, none) := by
  have h2 : (Parse.parse {} cs.flatten).2 ≠ some .outOfFuel := by simp [hcs, hp]
  obtain ⟨_, hb, hc⟩ := SF.Props.UbjChunk.ubj_chunk_independent_default cs hfuel h2
  rw [hcs, hp] at hb hc
  have := hc hb
  rcases hw : Parse.writeChunks {} cs with ⟨q, e⟩
  rw [hw] at hb this
  simp only at hb this
  rw [hb, this]

/-- `ParseReader` over one `Read` result that fits `io.Copy`'s buffer -/
theorem parseReader_single (b : Bytes) (hne : b ≠ []) (hlen : b.length ≤ 32768) :
    Parse.parseReader (Parse.init none) [b] = Parse.writeChunks {} [b] := by
  have hc : Parse.copyPieces (b.length / 32768 + 1) b = [b] := by simp [Parse.copyPieces, hlen]
  have hemp : b.isEmpty = false := by cases b <;> simp_all
  simp [Parse.parseReader, hc, init_none, hemp]

theorem parseEvents_of (b : Bytes) (pr : Parse.P) (hne : b ≠ []) (hlen : b.length ≤ 32768)
    (hp : Parse.parse {} b = (pr, none)) :
    SF.Ops.Ubjson.parseEvents [b] = (Parse.events pr, "ok") := by
  simp [SF.Ops.Ubjson.parseEvents, parseReader_single b hne hlen, writeChunks_single b pr hp,
    SF.Ops.Ubjson.errClass]

theorem copyPieces_flatten : ∀ (fuel : Nat) (c : Bytes), c.length / 32768 < fuel →
    (Parse.copyPieces fuel c).flatten = c
  | 0, _, h => by omega
  | fuel + 1, c, h => by
    by_cases hc : c.length ≤ 32768
    · simp [Parse.copyPieces, hc]
    · have hd : (c.drop 32768).length / 32768 < fuel := by
        rw [List.length_drop]; omega
      simp only [Parse.copyPieces, hc, if_false, List.flatten_cons, copyPieces_flatten fuel _ hd, List.take_append_drop]

theorem filter_flatten : ∀ cs : List Bytes, (cs.filter (!·.isEmpty)).flatten = cs.flatten
  | [] => rfl
  | c :: cs => by
    cases c with
    | nil => simp [filter_flatten cs]
    | cons a r => simp [filter_flatten cs]

/-- `ParseReader` over one `Read` result of ANY length (io.Copy: one `Write` per 32 KiB), under the
model's fuel proviso -/
theorem parseReader_any (b : Bytes) (pr : Parse.P) (hp : Parse.parse {} b = (pr, none))
    (hfuel : (Parse.parseReader (Parse.init none) [b]).2 ≠ some .outOfFuel) :
    Parse.parseReader (Parse.init none) [b] = (pr, none) := by
  unfold Parse.parseReader at hfuel ⊢
  rw [init_none] at hfuel ⊢
  apply writeChunks_any b pr hp _ _ hfuel
  rw [filter_flatten]
  simp only [List.flatMap_cons, List.flatMap_nil, List.append_nil]
  exact copyPieces_flatten _ _ (by omega)

/-! ## one leaf event through encoder and parser -/

theorem uwire_ne_nil (i : UItem) : i.wire ≠ [] := by simp [UItem.wire]

/-- the parser's final state after one document: idle (initial state stack, empty length stack
and buffer, no stored error); only the event log and the scratch field `valueType` differ from a
new parser -/
def Idle (pr : Parse.P) : Prop := ∃ vt, pr = { evs := pr.evs, valueType := vt }

theorem leaf_leg (x : XEv) (hx : isLeaf x = true) (hs : small (leafTree x) = true) :
    ∃ s pr, Enc.run {} [x] = (s, none) ∧ s.w.out = (leafItem x).wire ∧ s.w.out ≠ [] ∧
      Parse.parse {} s.w.out = (pr, none) ∧ Idle pr ∧
      Parse.events pr = (toSyn (leafItem x)).events := by
  have hok := Enc.leaf_ok x hx hs
  have hrun : Enc.run {} [x] = ((({} : Enc.Enc)).emits (Enc.xchunks x), none) := by
    show Enc.run.go {} 0 [x] = _
    rw [Enc.run_go_cons, Enc.step_leaf {} rfl x hx]
    rfl
  have hout : ((({} : Enc.Enc)).emits (Enc.xchunks x)).w.out = (leafItem x).wire := by
    rw [Enc.emits_out, Enc.leaf_wire x hx]; rfl
  obtain ⟨vt, hp, _⟩ := SF.Props.UbjBridge.parser_agrees_with_reference (leafItem x) hok
  refine ⟨_, _, hrun, hout, by rw [hout]; exact uwire_ne_nil _, by rw [hout]; exact hp, ⟨vt, rfl⟩, ?_⟩
  simp [Parse.events]

/-! ## scalars -/

/-- the narrowest signed marker (what `OnInt16` / `OnInt32` / `OnInt64` choose) -/
def narrowS (v : Int) : NumKind :=
  if -128 ≤ v ∧ v ≤ 127 then .i8
  else if -32768 ≤ v ∧ v ≤ 32767 then .i16
  else if -2147483648 ≤ v ∧ v ≤ 2147483647 then .i32
  else .i64

/-- the narrowest marker, `U` included (what `OnInt` and the unsigned calls choose) -/
def narrowM (v : Int) : NumKind :=
  if -128 ≤ v ∧ v ≤ 127 then .i8
  else if 0 ≤ v ∧ v ≤ 255 then .u8
  else if -32768 ≤ v ∧ v ≤ 32767 then .i16
  else if -2147483648 ≤ v ∧ v ≤ 2147483647 then .i32
  else .i64

/-- the kind under which the UBJSON parser reports the integer `v` that was handed to the encoder
under kind `k`: UBJSON has the markers i (int8), U (uint8), I (int16), l (int32), L (int64) and
C (char, used for `OnByte`) only -/
def ubjKind : NumKind → Int → NumKind
  | .i8, _ => .i8
  | .u8, _ => .u8
  | .byte, _ => .byte
  | .i16, v | .i32, v | .i64, v => narrowS v
  | _, v => narrowM v          -- int, uint16, uint32, uint64, uint

/-- a scalar call after the UBJSON leg -/
def ubjSc : Sc → Sc
  | .num k v => .num (ubjKind k v) v
  | s => s

/-- what the format carries: numbers up to MaxInt64 (a larger one — necessarily a uint64 / uint —
is written as a high-precision number and comes back as a STRING) -/
def scFits : Sc → Bool
  | .num _ v => decide (v ≤ 9223372036854775807)
  | _ => true

theorem narrowS_inRange (v : Int) (h1 : -9223372036854775808 ≤ v) (h2 : v ≤ 9223372036854775807) :
    (narrowS v).inRange v = true := by
  unfold narrowS
  split
  · simp only [NumKind.inRange, NumKind.lo, NumKind.hi, Bool.and_eq_true]; exact ⟨decide_eq_true (by omega), decide_eq_true (by omega)⟩
  · split
    · simp only [NumKind.inRange, NumKind.lo, NumKind.hi, Bool.and_eq_true]; exact ⟨decide_eq_true (by omega), decide_eq_true (by omega)⟩
    · split
      · simp only [NumKind.inRange, NumKind.lo, NumKind.hi, Bool.and_eq_true]; exact ⟨decide_eq_true (by omega), decide_eq_true (by omega)⟩
      · simp only [NumKind.inRange, NumKind.lo, NumKind.hi, Bool.and_eq_true]; exact ⟨decide_eq_true (by omega), decide_eq_true (by omega)⟩

theorem narrowM_inRange (v : Int) (h1 : -9223372036854775808 ≤ v) (h2 : v ≤ 9223372036854775807) :
    (narrowM v).inRange v = true := by
  unfold narrowM
  split
  · simp only [NumKind.inRange, NumKind.lo, NumKind.hi, Bool.and_eq_true]; exact ⟨decide_eq_true (by omega), decide_eq_true (by omega)⟩
  · split
    · simp only [NumKind.inRange, NumKind.lo, NumKind.hi, Bool.and_eq_true]; exact ⟨decide_eq_true (by omega), decide_eq_true (by omega)⟩
    · split
      · simp only [NumKind.inRange, NumKind.lo, NumKind.hi, Bool.and_eq_true]; exact ⟨decide_eq_true (by omega), decide_eq_true (by omega)⟩
      · split
        · simp only [NumKind.inRange, NumKind.lo, NumKind.hi, Bool.and_eq_true]; exact ⟨decide_eq_true (by omega), decide_eq_true (by omega)⟩
        · simp only [NumKind.inRange, NumKind.lo, NumKind.hi, Bool.and_eq_true]; exact ⟨decide_eq_true (by omega), decide_eq_true (by omega)⟩

theorem ubjKind_inRange (k : NumKind) (v : Int) (h : k.inRange v = true) (hf : v ≤ 9223372036854775807) :
    (ubjKind k v).inRange v = true := by
  have hb := kind_bounds k v h
  cases k <;> first
    | exact h
    | exact narrowS_inRange v hb.1 hf
    | exact narrowM_inRange v hb.1 hf

theorem events_item16 (v : Int) (h : -32768 ≤ v ∧ v ≤ 32767) : (toSyn (item16 v)).events = [.num (narrowS v) v] := by
  by_cases h8 : (-128 ≤ v ∧ v ≤ 127)
  · simp only [item16, narrowS, h8, if_true]; rfl
  · simp only [item16, narrowS, h8, h, if_true, if_false, and_self]; rfl

theorem events_item32 (v : Int) (h : -2147483648 ≤ v ∧ v ≤ 2147483647) :
    (toSyn (item32 v)).events = [.num (narrowS v) v] := by
  by_cases h16 : (-32768 ≤ v ∧ v ≤ 32767)
  · simp only [item32, h16, if_true]; exact events_item16 v h16
  · have h8 : ¬ (-128 ≤ v ∧ v ≤ 127) := by omega
    simp only [item32, narrowS, h8, h16, h, if_true, if_false, and_self]; rfl

theorem events_item64 (v : Int) : (toSyn (item64 v)).events = [.num (narrowS v) v] := by
  by_cases h32 : (-2147483648 ≤ v ∧ v ≤ 2147483647)
  · simp only [item64, h32, if_true]; exact events_item32 v h32
  · have h8 : ¬ (-128 ≤ v ∧ v ≤ 127) := by omega
    have h16 : ¬ (-32768 ≤ v ∧ v ≤ 32767) := by omega
    simp only [item64, narrowS, h8, h16, h32, if_false]; rfl

theorem events_minM (v : Int) : (toSyn (.int (minM v) v)).events = [.num (narrowM v) v] := by
  by_cases c0 : (-128 ≤ v ∧ v ≤ 127)
  · simp only [minM, narrowM, c0, if_true]; rfl
  · by_cases c1 : (0 ≤ v ∧ v ≤ 255)
    · simp only [minM, narrowM, c0, c1, if_true, if_false]; rfl
    · by_cases c2 : (-32768 ≤ v ∧ v ≤ 32767)
      · simp only [minM, narrowM, c0, c1, c2, if_true, if_false]; rfl
      · by_cases c3 : (-2147483648 ≤ v ∧ v ≤ 2147483647)
        · simp only [minM, narrowM, c0, c1, c2, c3, if_true, if_false]; rfl
        · simp only [minM, narrowM, c0, c1, c2, c3, if_false]; rfl

theorem minM_nat (n : Nat) (hf : (n : Int) ≤ 9223372036854775807) : utItem (utOf n) n = .int (minM n) n := by
  by_cases c0 : n ≤ 127
  · have d0 : (-128 ≤ (n : Int) ∧ (n : Int) ≤ 127) := by omega
    simp only [utOf, minM, c0, d0, if_true, and_self]; rfl
  · have d0 : ¬ (-128 ≤ (n : Int) ∧ (n : Int) ≤ 127) := by omega
    by_cases c1 : n ≤ 255
    · have d1 : (0 ≤ (n : Int) ∧ (n : Int) ≤ 255) := by omega
      simp only [utOf, minM, c0, c1, d0, d1, if_true, if_false, and_self]; rfl
    · have d1 : ¬ (0 ≤ (n : Int) ∧ (n : Int) ≤ 255) := by omega
      by_cases c2 : n ≤ 32767
      · have d2 : (-32768 ≤ (n : Int) ∧ (n : Int) ≤ 32767) := by omega
        simp only [utOf, minM, c0, c1, c2, d0, d1, d2, if_true, if_false, and_self]; rfl
      · have d2 : ¬ (-32768 ≤ (n : Int) ∧ (n : Int) ≤ 32767) := by omega
        by_cases c3 : n ≤ 2147483647
        · have d3 : (-2147483648 ≤ (n : Int) ∧ (n : Int) ≤ 2147483647) := by omega
          simp only [utOf, minM, c0, c1, c2, c3, d0, d1, d2, d3, if_true, if_false, and_self]; rfl
        · have d3 : ¬ (-2147483648 ≤ (n : Int) ∧ (n : Int) ≤ 2147483647) := by omega
          have c4 : n ≤ 9223372036854775807 := by omega
          simp only [utOf, minM, c0, c1, c2, c3, c4, d0, d1, d2, d3, if_true, if_false]; rfl

theorem events_ut (n : Nat) (hf : (n : Int) ≤ 9223372036854775807) :
    (toSyn (utItem (utOf n) n)).events = [.num (narrowM n) n] := by
  rw [minM_nat n hf]; exact events_minM n

/-- THE PARSER'S REPORT for one number: the same integer under the kind `ubjKind` -/
theorem events_numItem (k : NumKind) (v : Int) (h : k.inRange v = true) (hf : v ≤ 9223372036854775807) :
    (toSyn (numItem k v)).events = [.num (ubjKind k v) v] := by
  have hr : k.lo ≤ v ∧ v ≤ k.hi := by
    simpa [NumKind.inRange] using h
  have hun : ∀ (hlo : 0 ≤ v), (toSyn (utItem (utOf v.toNat) v.toNat)).events = [.num (narrowM v) v] := by
    intro hlo
    have e : ((v.toNat : Nat) : Int) = v := by omega
    have := events_ut v.toNat (by omega)
    rw [e] at this
    exact this
  cases k
  case i8 => rfl
  case i16 => exact events_item16 v (by simpa [NumKind.lo, NumKind.hi] using hr)
  case i32 => exact events_item32 v (by simpa [NumKind.lo, NumKind.hi] using hr)
  case i64 => exact events_item64 v
  case int => exact events_minM v
  case u8 => rfl
  case byte =>
    simp only [NumKind.lo, NumKind.hi] at hr
    show [Ev.num .byte ((UInt8.ofNat (v % 256).toNat).toNat : Nat)] = [Ev.num .byte v]
    congr 2
    simp only [UInt8.toNat_ofNat']
    omega
  all_goals exact hun (by simpa [NumKind.lo] using hr.1)

/-- the item the encoder writes for a scalar -/
def scUItem (t : Sc) : UItem := toItem (scTree t)

theorem leaf_scEv (t : Sc) : isLeaf (.ev (scEv t)) = true ∧ leafTree (.ev (scEv t)) = scTree t ∧
    leafItem (.ev (scEv t)) = scUItem t := by
  cases t <;> exact ⟨rfl, rfl, rfl⟩

theorem scUItem_events (t : Sc) (hs : scSmall t = true) (hf : scFits t = true) :
    (toSyn (scUItem t)).events = [scEv (ubjSc t)] := by
  cases t with
  | num k v => exact events_numItem k v hs (by simpa [scFits] using hf)
  | bool b => cases b <;> rfl
  | _ => rfl

theorem ubjSc_small (s : Sc) (h : scSmall s = true) (hf : scFits s = true) : scSmall (ubjSc s) = true := by
  cases s with
  | num k v => exact ubjKind_inRange k v h (by simpa [scFits] using hf)
  | _ => exact h

/-- the UBJSON leg does not change what a typed (non-`interface{}`) target stores -/
theorem conv_ubjSc (k : PK) (hk : k ≠ .ifc) (s : Sc) (hs : scSmall s = true) (hf : scFits s = true) :
    k.conv (ubjSc s) = k.conv s := by
  cases s with
  | num ek v =>
    have e1 : Unf.wrapTo (ubjKind ek v) v = v :=
      Unf.wrapTo_inRange _ _ (ubjKind_inRange ek v hs (by simpa [scFits] using hf))
    have e2 : Unf.wrapTo ek v = v := Unf.wrapTo_inRange _ _ hs
    cases k <;> simp only [ubjSc, PK.conv, e1, e2]
    exact absurd rfl hk
  | _ => rfl

theorem convList_ubjSc (k : PK) (hk : k ≠ .ifc) : ∀ scs : List Sc, (∀ t ∈ scs, scSmall t = true ∧ scFits t = true) →
    Unf.convList k (scs.map ubjSc) = Unf.convList k scs
  | [], _ => rfl
  | t :: r, h => by
    simp only [List.map_cons, Unf.convList, conv_ubjSc k hk t (h t List.mem_cons_self).1 (h t List.mem_cons_self).2,
      convList_ubjSc k hk r (fun y hy => h y (List.mem_cons_of_mem _ hy))]

end SF.FuUbj
