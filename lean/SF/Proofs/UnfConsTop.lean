/-
  The Unfolder mirror (SF/Gotype/Unfold.lean) as CONSUMER — PROPERTY THEOREMS (namespace
  SF.UnfProofs.Cons):

  (1) C10: an extended event stream means its expansion, for EVERY stream, EVERY target type, EVERY
      context (`ext_events_mean_expansion`, `…_same_outcome`, `…_any_target`); in the form of the
      `unf` oracle for `interface{}` targets (`ext_unfold_into_interface`: WF1 expansion ⇒ accepted,
      stored value = `Spec.generic` of the stream up to nil ≙ empty); C14 for extended sequences
      into generic targets (`any_ext_events_into_interface`, `…_map_or_slice`).
      Helper files: UnfConsKC, UnfConsKC2 (every Unfolder method except `OnKeyRef` commutes with
      replacing the key cache; `OnKeyRef` = cache update + `OnKey`), UnfConsParse (every WF1 event
      list is the event list of a well-formed value tree).
  (2) C14 for TYPED targets (`TT`: primitives, `interface{}`, `[]T`, `map[string]T`, `*T`, any
      nesting): no panic, no fuel exhaustion, no model gap for ANY event sequence
      (`any_events_into_typed`, `any_basic_events_into_typed`, `any_ext_events_into_typed`,
      `typed_complete_is_idle`).  Helper files: UnfTy*.lean (see below).
      C13 for scalar targets, `[]T` and `map[string]T` with primitive `T`
      (`unfold_scalar_into_typed`, `unfold_array_into_prim_slice`, `unfold_object_into_prim_map`).
      Helper files: UnfTyVal, UnfTyValArr(2), UnfTyValMap(2).
-/
import SF.Proofs.UnfConsKC2
import SF.Proofs.UnfGenericTop
import SF.Ops.Unfold
import SF.Proofs.UnfConsParse
import SF.Proofs.UnfTyValMap2
namespace SF.UnfProofs.Cons
open SF SF.Unf SF.Ops.Unf

/-! ## (1) C10: an extended event stream means its expansion

`EnsureExtVisitor(unfolder)` (op `unf`, `SF.Ops.Unf.xevToUEvs`): the Unfolder implements `Visitor`
and `StringRefVisitor` itself — `OnStringRef` / `OnKeyRef` reach it as such — and receives typed
arrays / typed maps through the adapters of array.go / map.go, i.e. as their expansion. -/

/-- the calls the Unfolder receives for an extended event stream -/
def deliver (xs : List XEv) : List UEv := xs.flatMap xevToUEvs

/-- the calls it receives for the expansion of the stream into basic events -/
def deliverExpanded (xs : List XEv) : List UEv := (expandAll xs).map evToUEv

theorem xevToUEvs_deref (x : XEv) : (xevToUEvs x).map UEv.deref = x.expand.map evToUEv := by
  have hev : ∀ e : Ev, (evToUEv e).deref = evToUEv e := by intro e; cases e <;> rfl
  have hall : ∀ es : List Ev, (es.map evToUEv).map UEv.deref = es.map evToUEv := by
    intro es
    induction es with
    | nil => rfl
    | cons e es ih => simp only [List.map_cons, hev, ih]
  cases x with
  | ev e => simp [xevToUEvs, XEv.expand, hev]
  | strRef s => rfl
  | keyRef k => rfl
  | _ => exact hall _

theorem deliver_deref (xs : List XEv) : (deliver xs).map UEv.deref = deliverExpanded xs := by
  unfold deliver deliverExpanded expandAll
  induction xs with
  | nil => rfl
  | cons x xs ih => simp only [List.flatMap_cons, List.map_append, ih, xevToUEvs_deref]

/-- C10, UNFOLDER AS CONSUMER — for EVERY extended event stream `xs` (well-formed or not), EVERY
context `c` of the Unfolder (any target type — primitives, slices, maps, pointers, structs,
`interface{}` —, any state of the six stacks, in the middle of a document or idle) whose key cache
has its representation invariant (C20; every cache made by `NewUnfolder` / `EnableKeyCache` has it),
and every fuel: delivering `xs` has EXACTLY the outcome of delivering its expansion
`expandAll xs` — the same result (ok / the same error / panic / …), and the same final context:
target (the stored value), all six stacks, scratch buffers, `reflect.New` cells, registry —
except for the contents of the key cache, which has seen the by-reference keys and still has its
invariant and its configuration (`KCOk`).  The mirror stores literally the same value (typed arrays
inside `interface{}` keep their typed element type in BOTH runs: `[]int8`, `map[string]string` …). -/
theorem ext_events_mean_expansion (fuel : Nat) (xs : List XEv) (c : Ctx) (hkc : Symbols.Inv c.keyCache) :
    ∃ kc', KCOk c.keyCache kc' ∧
      run fuel (deliver xs) c = (run fuel (deliverExpanded xs) c).setKC kc' := by
  obtain ⟨kc', hok, h⟩ := run_deref fuel (deliver xs) c c.keyCache hkc
  rw [setKC_self, deliver_deref] at h
  exact ⟨kc', hok, h⟩

/-- … spelled out: the expansion is accepted iff the stream is, with the same stored value and
the same depths of the six stacks; it is refused with an error iff the stream is, with the same
error; it panics iff the stream does -/
theorem ext_events_same_outcome (fuel : Nat) (xs : List XEv) (c : Ctx) (hkc : Symbols.Inv c.keyCache) :
    (∀ c₁, run fuel (deliverExpanded xs) c = .ok () c₁ →
      ∃ c₂, run fuel (deliver xs) c = .ok () c₂ ∧ c₂.target = c₁.target ∧ c₂.depths = c₁.depths ∧
        c₂ = setKC c₁ c₂.keyCache ∧ KCOk c.keyCache c₂.keyCache) ∧
    (∀ e c₁, run fuel (deliverExpanded xs) c = .err e c₁ →
      ∃ c₂, run fuel (deliver xs) c = .err e c₂ ∧ c₂.target = c₁.target ∧ c₂ = setKC c₁ c₂.keyCache) ∧
    (∀ c₁, run fuel (deliverExpanded xs) c = .panic c₁ → ∃ c₂, run fuel (deliver xs) c = .panic c₂) ∧
    ((∃ c₂, run fuel (deliver xs) c = .ok () c₂) → ∃ c₁, run fuel (deliverExpanded xs) c = .ok () c₁) ∧
    ((∃ e c₂, run fuel (deliver xs) c = .err e c₂) → ∃ e c₁, run fuel (deliverExpanded xs) c = .err e c₁) ∧
    ((∃ c₂, run fuel (deliver xs) c = .panic c₂) → ∃ c₁, run fuel (deliverExpanded xs) c = .panic c₁) := by
  obtain ⟨kc', hok, h⟩ := ext_events_mean_expansion fuel xs c hkc
  refine ⟨?_, ?_, ?_, ?_, ?_, ?_⟩
  · intro c₁ h1
    rw [h1] at h
    exact ⟨setKC c₁ kc', h, rfl, rfl, rfl, hok⟩
  · intro e c₁ h1
    rw [h1] at h
    exact ⟨setKC c₁ kc', h, rfl, rfl⟩
  · intro c₁ h1
    rw [h1] at h
    exact ⟨setKC c₁ kc', h⟩
  · intro ⟨c₂, h2⟩
    rw [h2] at h
    cases h1 : run fuel (deliverExpanded xs) c <;> rw [h1] at h <;> cases h
    exact ⟨_, rfl⟩
  · intro ⟨e, c₂, h2⟩
    rw [h2] at h
    cases h1 : run fuel (deliverExpanded xs) c <;> rw [h1] at h <;> cases h
    exact ⟨_, _, rfl⟩
  · intro ⟨c₂, h2⟩
    rw [h2] at h
    cases h1 : run fuel (deliverExpanded xs) c <;> rw [h1] at h <;> cases h
    exact ⟨_, rfl⟩

/-- `KCFree` methods leave the key cache alone -/
theorem KCFree.keyCache_eq {α : Type} {m : M α} (h : KCFree m) {c c' : Ctx} {a : α} (hm : m c = .ok a c') :
    c'.keyCache = c.keyCache := by
  have := h c c.keyCache
  rw [setKC_self, hm] at this
  injection this with _ h2
  rw [h2]
  rfl

/-- `SetTarget` does not touch the key cache -/
theorem setTarget_keyCache (tbl : TypeTable) (t : GoType) (v : GoVal) (c c0 : Ctx)
    (h : setTarget tbl t v c = .ok c0) : c0.keyCache = c.keyCache := by
  unfold setTarget at h
  simp only at h
  split at h
  · split at h
    · rename_i hm
      injection h with h
      subst h
      exact (KCFree.keyCache_eq (KCFree.initStatePU _ _) hm).trans rfl
    · cases h
  · split at h
    · cases h
    · split at h
      · rename_i hm
        injection h with h
        subst h
        exact (KCFree.keyCache_eq (KCFree.initStateRU _ _) hm).trans rfl
      · cases h

/-- C10 after `SetTarget`, for EVERY target type `t` the Unfolder accepts and every value `v0` the
target variable holds: the stream and its expansion have the same outcome and store the same value -/
theorem ext_events_mean_expansion_any_target (fuel : Nat) (tbl : TypeTable) (t : GoType) (v0 : GoVal)
    (xs : List XEv) (c c0 : Ctx) (hkc : Symbols.Inv c.keyCache) (h0 : setTarget tbl t v0 c = .ok c0) :
    ∃ kc', KCOk c.keyCache kc' ∧
      run fuel (deliver xs) c0 = (run fuel (deliverExpanded xs) c0).setKC kc' := by
  have hk := setTarget_keyCache tbl t v0 c c0 h0
  rw [← hk]
  exact ext_events_mean_expansion fuel xs c0 (by rw [hk]; exact hkc)

/-! ## C14 for extended event sequences into generic targets -/

/-- a basic container start announcing an element-type code that is no `structform.BaseType` -/
def XEv.badStart : XEv → Prop
  | .ev (.arrStart _ bt) => 17 ≤ bt % 256
  | .ev (.objStart _ bt) => 17 ≤ bt % 256
  | _ => False

theorem baseType_lt (k : NumKind) : k.baseType % 256 < 17 := by cases k <;> decide

theorem not_bad_of_scalars {α : Type} (g : α → Ev) (hg : ∀ a, ¬ (evToUEv (g a)).badStart) (xs : List α)
    (e : UEv) (h : e ∈ (xs.map g).map evToUEv) : ¬ e.badStart := by
  simp only [List.map_map, List.mem_map, Function.comp] at h
  obtain ⟨a, _, rfl⟩ := h
  exact hg a

theorem not_bad_of_members {α : Type} (g : α → Ev) (hg : ∀ a, ¬ (evToUEv (g a)).badStart)
    (ms : List (Bytes × α)) (e : UEv)
    (h : e ∈ (ms.flatMap fun m => [Ev.key m.1, g m.2]).map evToUEv) : ¬ e.badStart := by
  simp only [List.mem_map, List.mem_flatMap, List.mem_cons, List.not_mem_nil, or_false] at h
  obtain ⟨e0, ⟨m, _, h1 | h1⟩, rfl⟩ := h
  · subst h1; exact fun h => h
  · subst h1; exact hg _

/-- typed arrays / maps and by-reference events never deliver an invalid element-type code:
the adapters announce the `BaseType` of their own element type -/
theorem badStart_of_deliver (xs : List XEv) (e : UEv) (hm : e ∈ deliver xs) (hb : e.badStart) :
    ∃ x ∈ xs, XEv.badStart x := by
  unfold deliver at hm
  obtain ⟨x, hx, he⟩ := List.mem_flatMap.mp hm
  have harr : ∀ {α : Type} (g : α → Ev) (hg : ∀ a, ¬ (evToUEv (g a)).badStart) (ys : List α) (bt : Nat)
      (hbt : bt % 256 < 17),
      e ∈ (Ev.arrStart ys.length bt :: ys.map g ++ [Ev.arrEnd]).map evToUEv → False := by
    intro α g hg ys bt hbt h
    simp only [List.cons_append, List.map_cons, List.map_append, List.mem_cons, List.mem_append, List.map_nil,
      List.not_mem_nil, or_false] at h
    rcases h with h | h | h
    · subst h; exact absurd hb (by show ¬ 17 ≤ bt % 256; omega)
    · exact not_bad_of_scalars g hg ys e h hb
    · subst h; exact hb
  have hobj : ∀ {α : Type} (g : α → Ev) (hg : ∀ a, ¬ (evToUEv (g a)).badStart) (ms : List (Bytes × α)) (bt : Nat)
      (hbt : bt % 256 < 17),
      e ∈ (Ev.objStart ms.length bt :: (ms.flatMap fun (m : Bytes × α) => [Ev.key m.1, g m.2]) ++ [Ev.objEnd]).map evToUEv →
        False := by
    intro α g hg ms bt hbt h
    simp only [List.cons_append, List.map_cons, List.map_append, List.mem_cons, List.mem_append, List.map_nil,
      List.not_mem_nil, or_false] at h
    rcases h with h | h | h
    · subst h; exact absurd hb (by show ¬ 17 ≤ bt % 256; omega)
    · exact not_bad_of_members g hg ms e h hb
    · subst h; exact hb
  cases x with
  | ev e0 =>
    simp only [xevToUEvs, List.mem_singleton] at he
    subst he
    refine ⟨_, hx, ?_⟩
    cases e0 <;> first | exact hb | exact absurd hb (fun h => h)
  | strRef s => simp only [xevToUEvs, List.mem_singleton] at he; subst he; exact absurd hb (fun h => h)
  | keyRef s => simp only [xevToUEvs, List.mem_singleton] at he; subst he; exact absurd hb (fun h => h)
  | boolArr ys => exact (harr Ev.bool (fun _ h => h) ys BT.bool (by decide) he).elim
  | strArr ys => exact (harr Ev.str (fun _ h => h) ys BT.string (by decide) he).elim
  | numArr k ys => exact (harr (Ev.num k) (fun _ h => h) ys k.baseType (baseType_lt k) he).elim
  | f32Arr ys => exact (harr Ev.f32 (fun _ h => h) ys BT.float32 (by decide) he).elim
  | f64Arr ys => exact (harr Ev.f64 (fun _ h => h) ys BT.float64 (by decide) he).elim
  | boolObj ms => exact (hobj Ev.bool (fun _ h => h) ms BT.bool (by decide) he).elim
  | strObj ms => exact (hobj Ev.str (fun _ h => h) ms BT.string (by decide) he).elim
  | numObj k ms => exact (hobj (Ev.num k) (fun _ h => h) ms k.baseType (baseType_lt k) he).elim
  | f32Obj ms => exact (hobj Ev.f32 (fun _ h => h) ms BT.float32 (by decide) he).elim
  | f64Obj ms => exact (hobj Ev.f64 (fun _ h => h) ms BT.float64 (by decide) he).elim

/-- C14 FOR EVERY EXTENDED EVENT SEQUENCE.  `SetTarget(&v)`, `var v interface{}` (or
`map[string]interface{}`, `[]interface{}`), on an idle Unfolder, followed by ANY sequence of
extended events whatsoever — typed arrays / maps where no value may come, by-reference keys
outside objects, unbalanced, truncated, … : ok, or an ERROR, or — only if the sequence contains a
BASIC container start announcing an element-type code 17 … 255 — the documented panic of
`makeArrayPtr` / `makeMapPtr`.  Never a model gap, never fuel exhaustion, no other panic (in
particular none from the key cache). -/
theorem any_ext_events_into_interface (f : Nat) (tbl : TypeTable) (v0 : GoVal) (c : Ctx) (xs : List XEv)
    (hidle : c.unfolder = Stk.init .noTarget) (hkc : Symbols.Inv c.keyCache) :
    ∃ c0, setTarget tbl .ifc v0 c = .ok c0 ∧
      ((∃ c', run (f + 1) (deliver xs) c0 = .ok () c') ∨
       (∃ e c', run (f + 1) (deliver xs) c0 = .err e c') ∨
       (∃ c' x, run (f + 1) (deliver xs) c0 = .panic c' ∧ x ∈ xs ∧ XEv.badStart x)) := by
  obtain ⟨c0, h0, h⟩ := any_events_into_interface f tbl v0 c (deliver xs) hidle hkc
  refine ⟨c0, h0, ?_⟩
  rcases h with h | h | ⟨c', e, h, hm, hb⟩
  · exact Or.inl h
  · exact Or.inr (Or.inl h)
  · obtain ⟨x, hx, hbx⟩ := badStart_of_deliver xs e hm hb
    exact Or.inr (Or.inr ⟨c', x, h, hx, hbx⟩)

/-- … with valid element-type codes on the basic container starts: NO extended event sequence
makes the Unfolder panic on an `interface{}` target -/
theorem no_panic_any_ext_events_into_interface (f : Nat) (tbl : TypeTable) (v0 : GoVal) (c : Ctx) (xs : List XEv)
    (hidle : c.unfolder = Stk.init .noTarget) (hkc : Symbols.Inv c.keyCache)
    (hcodes : ∀ x ∈ xs, ¬ XEv.badStart x) :
    ∃ c0, setTarget tbl .ifc v0 c = .ok c0 ∧
      ((∃ c', run (f + 1) (deliver xs) c0 = .ok () c') ∨ (∃ e c', run (f + 1) (deliver xs) c0 = .err e c')) := by
  obtain ⟨c0, h0, h⟩ := any_ext_events_into_interface f tbl v0 c xs hidle hkc
  refine ⟨c0, h0, ?_⟩
  rcases h with h | h | ⟨c', x, _, hx, hb⟩
  · exact Or.inl h
  · exact Or.inr h
  · exact absurd hb (hcodes x hx)

/-- … the same for `map[string]interface{}` and `[]interface{}` targets holding any value -/
theorem any_ext_events_into_map_or_slice (f : Nat) (tbl : TypeTable) (c : Ctx) (xs : List XEv)
    (hidle : c.unfolder = Stk.init .noTarget) (hkc : Symbols.Inv c.keyCache) (t : GoType) (v0 : GoVal)
    (hv0 : (t = .map .ifc ∧ ∃ et ms, mapParts v0 = some (et, ms)) ∨ (t = .slice .ifc ∧ isSliceVal v0)) :
    ∃ c0, setTarget tbl t v0 c = .ok c0 ∧
      ((∃ c', run (f + 1) (deliver xs) c0 = .ok () c') ∨
       (∃ e c', run (f + 1) (deliver xs) c0 = .err e c') ∨
       (∃ c' x, run (f + 1) (deliver xs) c0 = .panic c' ∧ x ∈ xs ∧ XEv.badStart x)) := by
  obtain ⟨c0, h0, h⟩ := any_events_into_map_or_slice f tbl c (deliver xs) hidle hkc t v0 hv0
  refine ⟨c0, h0, ?_⟩
  rcases h with h | h | ⟨c', e, h, hm, hb⟩
  · exact Or.inl h
  · exact Or.inr (Or.inl h)
  · obtain ⟨x, hx, hbx⟩ := badStart_of_deliver xs e hm hb
    exact Or.inr (Or.inr ⟨c', x, h, hx, hbx⟩)

/-- C10 + C13 (generic clause) IN THE FORM OF THE `unf` ORACLE.  For EVERY extended event stream `xs`
whose expansion is one well-formed document (`WF1`, the Visitor contract of C09; element-type
codes ≤ 16 and numbers inside their kind's range — exactly the oracle's `wf` of `SF.Ops.opUnf`):
the specification's reader builds a tree from the expansion, its claim for an `interface{}` target
(`Spec.expected`) is the generic value `Spec.generic tree`, and after `SetTarget(&v)`,
`var v interface{}`, on an idle Unfolder BOTH the stream and its expansion are accepted, store the
SAME value — equal to the specification's up to nil ≙ empty (`norm` / `sameVal`, the oracle's
comparison) — and leave the Unfolder exactly as it was before `SetTarget` (all six stacks, scratch
buffers, cells), except for target, type table and the contents of the key cache. -/
theorem ext_unfold_into_interface (f : Nat) (tbl : TypeTable) (v0 : GoVal) (xs : List XEv) (c : Ctx)
    (hwf : WF1 (expandAll xs) = true) (hb : btsValid (expandAll xs) = true) (hn : numsValid (expandAll xs) = true)
    (hidle : c.unfolder.stack = []) (hkc : Symbols.Inv c.keyCache) :
    ∃ tree c₀ c₁ c₂,
      Spec.sbuild (expandAll xs) = some tree ∧ Spec.expected tbl .ifc v0 tree = some (Spec.generic tree) ∧
      setTarget tbl .ifc v0 c = .ok c₀ ∧
      run (f + 1) (deliver xs) c₀ = .ok () c₁ ∧ run (f + 1) (deliverExpanded xs) c₀ = .ok () c₂ ∧
      c₁.target = c₂.target ∧
      Spec.norm c₁.target = Spec.norm (Spec.generic tree) ∧ Spec.sameVal c₁.target (Spec.generic tree) = true ∧
      c₁ = { c with target := c₁.target, env := tbl, keyCache := c₁.keyCache } ∧ KCOk c.keyCache c₁.keyCache := by
  obtain ⟨t, htwf, hev, hsb⟩ := SF.Unf.Parse.tree_of_wf1_spec (expandAll xs) hwf hb hn
  obtain ⟨c0, kc', h0, hok, hrun⟩ := unfold_into_interface f tbl v0 t c htwf hidle hkc
  have hrun' : run (f + 1) (deliverExpanded xs) c0 =
      .ok () { c with target := t.gen, env := tbl, keyCache := kc' } := by
    unfold deliverExpanded; rw [← hev]; exact hrun
  obtain ⟨kc2, hok2, hx⟩ := ext_events_mean_expansion_any_target (f + 1) tbl .ifc v0 xs c c0 hkc h0
  rw [hrun'] at hx
  refine ⟨t.toS, c0, _, _, hsb, (spec_tree_of_events t tbl v0).2, h0, hx, hrun', rfl, gen_norm t htwf,
    gen_sameVal t htwf, rfl, hok2⟩

/-! ### non-vacuity -/

/-- `{"a"(key by reference): <typed int8 array>[3,-3], "b"(by reference): "s"(by reference),
"m": <typed string map>{"k": "v"}}` -/
def demoXs : List XEv :=
  [.ev (.objStart (-1) 0), .keyRef [0x61], .numArr .i8 [3, -3], .keyRef [0x62], .strRef [0x73],
   .ev (.key [0x6d]), .strObj [([0x6b], [0x76])], .ev .objEnd]

example : (deliver demoXs).length = 14 ∧ (deliverExpanded demoXs).length = 14 := by decide +kernel

/-- the hypotheses of `ext_unfold_into_interface` hold for it -/
example : WF1 (expandAll demoXs) = true ∧ btsValid (expandAll demoXs) = true ∧
    numsValid (expandAll demoXs) = true := by decide +kernel

/-- the hypotheses hold for a new Unfolder with the key cache enabled (capacity 1) … -/
example : Symbols.Inv (enableKeyCache newUnfolder 1).keyCache := Symbols.inv_init 1

/-- … and the two runs, evaluated: same stored value (the typed containers keep their element
types in both), same depths; the key caches differ (`"b"` cached after one eviction / nothing) -/
example :
    (match setTarget (fun _ => none) .ifc .ifcNil (enableKeyCache newUnfolder 1) with
     | .ok c₀ =>
       (match run 1 (deliver demoXs) c₀, run 1 (deliverExpanded demoXs) c₀ with
        | .ok _ c₁, .ok _ c₂ =>
          c₁.depths == [0, 0, 0, 0, 0, 0] && c₂.depths == [0, 0, 0, 0, 0, 0] &&
          c₁.keyCache.lst == [[0x62]] && c₂.keyCache.lst == [] &&
          (match c₁.target, c₂.target with
           | .ifc (.map .ifc [([0x61], .ifc (.slice (.int .i8) [.int .i8 3, .int .i8 (Int.negSucc 2)] [])),
                              ([0x62], .ifc (.str [0x73])),
                              ([0x6d], .ifc (.map .string [([0x6b], .str [0x76])]))]),
             .ifc (.map .ifc [([0x61], .ifc (.slice (.int .i8) [.int .i8 3, .int .i8 (Int.negSucc 2)] [])),
                              ([0x62], .ifc (.str [0x73])),
                              ([0x6d], .ifc (.map .string [([0x6b], .str [0x76])]))]) => true
           | _, _ => false)
        | _, _ => false)
     | .error _ => false) = true := by decide +kernel

/-- a typed target (`map[string][]int8`, reflection states) and a refused stream: a by-reference
key where the typed array's elements … are over: the same error in both runs -/
example :
    (match setTarget (fun _ => none) (.map (.slice (.int .i8))) (.mapNil (.slice (.int .i8)))
        (enableKeyCache newUnfolder 4) with
     | .ok c₀ =>
       (match run 3 (deliver [.ev (.objStart 1 0), .keyRef [0x61], .numArr .i8 [3], .strRef [0x73]]) c₀,
              run 3 (deliverExpanded [.ev (.objStart 1 0), .keyRef [0x61], .numArr .i8 [3], .strRef [0x73]]) c₀ with
        | .err e₁ c₁, .err e₂ c₂ =>
          e₁ == e₂ && c₁.depths == c₂.depths && c₁.keyCache.lst == [[0x61]] && c₂.keyCache.lst == [] &&
          (match c₁.target, c₂.target with
           | .map _ [([0x61], .slice _ [.int .i8 3] [])], .map _ [([0x61], .slice _ [.int .i8 3] [])] => true
           | _, _ => false)
        | _, _ => false)
     | .error _ => false) = true := by decide +kernel

/-- the key-cache hypothesis is needed: a cache violating its invariant (enabled with capacity 0,
finding F28 — `init` no longer builds one) panics on the by-reference key, the expansion is fine -/
example :
    (match run 1 (deliver [.ev (.objStart 1 0), .keyRef [0x61]])
        (ifcCtx (fun _ => none) .ifcNil { newUnfolder with keyCache := { enabled := true, max := 0 } }),
      run 1 (deliverExpanded [.ev (.objStart 1 0), .keyRef [0x61]])
        (ifcCtx (fun _ => none) .ifcNil { newUnfolder with keyCache := { enabled := true, max := 0 } }) with
     | .panic _, .ok _ _ => true
     | _, _ => false) = true := by decide +kernel

/-- an extended sequence that is refused, and one that panics (basic start with code 17) -/
example :
    (match run 1 (deliver [.boolArr [true], .keyRef [0x61]]) (ifcCtx (fun _ => none) .ifcNil newUnfolder) with
     | .err .notInitialized _ => true
     | _ => false) = true ∧
    (match run 1 (deliver [.ev (.arrStart 1 17), .boolArr [true]]) (ifcCtx (fun _ => none) .ifcNil newUnfolder) with
     | .panic _ => true
     | _ => false) = true ∧ XEv.badStart (.ev (.arrStart 1 17)) := by
  refine ⟨by decide +kernel, by decide +kernel, ?_⟩
  show 17 ≤ 17 % 256
  decide

/-! ## (2) C14 for TYPED targets: no panic, no fuel exhaustion, for ANY event sequence

Family of target types (`SF.Unf.TT`): every type built from `bool`, `string`, all integer widths,
`float32/64` and `interface{}` by `[]T`, `map[string]T` and `*T`, to any nesting depth the Unfolder
accepts (no structs, no named types).  Helper files (new, under SF/Proofs): `UnfTyShape` (shapes of
values, `get`/`set` along index paths), `UnfTyMem` (pointers, `storeAt`, the store lemma),
`UnfTyFrames` (the frames on the six stacks, the invariant `Inv`), `UnfTyRel`, `UnfTyOps`, `UnfTyInv`,
`UnfTyTpl` / `UnfTySub` (template states, generic sub-containers), `UnfTyRefl` … `UnfTyProc`
(reflection states: prepare / initState / process), `UnfTyErr`, `UnfTyScalar(2)` / `UnfTyStart` /
`UnfTyEnd` / `UnfTyUnwind` (one event of each kind, forwarded through any number of reflection
states; `reportChildDone`), `UnfTyStep` (`step_typed`, `run_typed`), `UnfTySet` (`SetTarget`). -/

/-- the value the target variable holds has the shape of its type (slices are slices as deep as the
type says, maps are maps): true for every Go value of the type, in particular for the zero value
(`SF.Unf.shaped_zero`) -/
def Shaped (t : GoType) (v : GoVal) : Prop := (shOf t).ok v

theorem shaped_zero (tbl : TypeTable) (t : GoType) : Shaped t (zero tbl t) := SF.Unf.shaped_zero tbl t

/-- an Unfolder between documents: nothing on the unfolder stack, no scratch slot in use — a new
Unfolder, one that was `Reset`, and (by `typed_complete_is_idle`) one whose documents were all
completed -/
structure Idle (c : Ctx) : Prop where
  unfolder : c.unfolder = Stk.init .noTarget
  arrays : c.valueBuffer.arrays.size = 0
  mapAny : c.valueBuffer.mapAny.size = 0
  mapPrimitive : c.valueBuffer.mapPrimitive.size = 0

theorem idle_new : Idle newUnfolder := ⟨rfl, rfl, rfl, rfl⟩
theorem idle_reset (c : Ctx) : Idle (reset c) := ⟨rfl, rfl, rfl, rfl⟩
theorem idle_enableKeyCache (c : Ctx) (n : Int) (h : Idle c) : Idle (enableKeyCache c n) :=
  ⟨h.unfolder, h.arrays, h.mapAny, h.mapPrimitive⟩

/-- C14 (no-panic clause) FOR TYPED TARGETS, EVERY EVENT SEQUENCE.  `SetTarget(&v)` for a `v` of
any type `t` of the family (holding any value of that type) on an idle Unfolder, followed by ANY
sequence of events (keys by value; by-reference keys: `any_ext_events_into_typed`) — mismatching,
unbalanced, truncated, keys outside objects, wrong announced lengths, out-of-range numbers,
containers where scalars belong, events after the document is complete … — with the fuel the op
handlers use (`typeFuel` = 256) or more: if `SetTarget` accepts the type, the outcome is `.ok`, or
an ERROR, or — only if the sequence contains a container start announcing an element-type code
17 … 255 (reaching an `interface{}` position) — the documented panic of `makeArrayPtr` /
`makeMapPtr`.  Never fuel exhaustion, never a model gap (no stale pointer, no value of the wrong
shape behind a pointer), and no other panic: no pop of an empty stack, no nil dereference, no
write to a nil map, no out-of-range scratch slot. -/
theorem any_events_into_typed (fuel : Nat) (hf : typeFuel ≤ fuel) (tbl : TypeTable) (t : GoType) (v0 : GoVal)
    (c c0 : Ctx) (es : List UEv) (hes : ∀ e ∈ es, ¬ e.isKeyRef) (hT : TT t = true) (hidle : Idle c)
    (hv0 : Shaped t v0) (hset : setTarget tbl t v0 c = .ok c0) :
    (∃ c', run fuel es c0 = .ok () c') ∨
    (∃ e c', run fuel es c0 = .err e c') ∨
    (∃ c' e, run fuel es c0 = .panic c' ∧ e ∈ es ∧ e.badStart) := by
  obtain ⟨F, hinv, hR⟩ := setTarget_inv tbl t v0 c c0 hT hset hidle.arrays hidle.mapAny hidle.mapPrimitive hv0
  rcases run_typed (base := c.s6) hidle.unfolder fuel (by unfold typeFuel at hf; omega) es hes [F] c0 hinv hR with
    ⟨c', _, h, _, _⟩ | h | h
  · exact Or.inl ⟨c', h⟩
  · exact Or.inr (Or.inl h)
  · exact Or.inr (Or.inr h)

/-- … for BASIC events (`structform.Visitor`), as the op `unf` delivers them -/
theorem any_basic_events_into_typed (fuel : Nat) (hf : typeFuel ≤ fuel) (tbl : TypeTable) (t : GoType) (v0 : GoVal)
    (c c0 : Ctx) (evs : List Ev) (hT : TT t = true) (hidle : Idle c)
    (hv0 : Shaped t v0) (hset : setTarget tbl t v0 c = .ok c0) :
    (∃ c', run fuel (evs.map evToUEv) c0 = .ok () c') ∨
    (∃ e c', run fuel (evs.map evToUEv) c0 = .err e c') ∨
    (∃ c' e, run fuel (evs.map evToUEv) c0 = .panic c' ∧ e ∈ evs ∧ XEv.badStart (.ev e)) := by
  have hes : ∀ e ∈ evs.map evToUEv, ¬ e.isKeyRef := by
    intro e he
    obtain ⟨e0, _, rfl⟩ := List.mem_map.mp he
    cases e0 <;> exact fun h => h
  rcases any_events_into_typed fuel hf tbl t v0 c c0 _ hes hT hidle hv0 hset with h | h | ⟨c', e, h, hm, hb⟩
  · exact Or.inl h
  · exact Or.inr (Or.inl h)
  · obtain ⟨e0, hm0, rfl⟩ := List.mem_map.mp hm
    refine Or.inr (Or.inr ⟨c', e0, h, hm0, ?_⟩)
    cases e0 <;> first | exact hb | exact hb.elim

/-- … with valid element-type codes: ok or error, nothing else -/
theorem no_panic_any_events_into_typed (fuel : Nat) (hf : typeFuel ≤ fuel) (tbl : TypeTable) (t : GoType)
    (v0 : GoVal) (c c0 : Ctx) (es : List UEv) (hes : ∀ e ∈ es, ¬ e.isKeyRef) (hT : TT t = true) (hidle : Idle c)
    (hv0 : Shaped t v0) (hset : setTarget tbl t v0 c = .ok c0) (hcodes : ∀ e ∈ es, ¬ e.badStart) :
    (∃ c', run fuel es c0 = .ok () c') ∨ (∃ e c', run fuel es c0 = .err e c') := by
  rcases any_events_into_typed fuel hf tbl t v0 c c0 es hes hT hidle hv0 hset with h | h | ⟨c', e, _, hm, hb⟩
  · exact Or.inl h
  · exact Or.inr h
  · exact absurd hb (hcodes e hm)

/-- … and whenever the sequence is accepted and has brought the unfolder stack back to
`unfolderNoTarget` (the document is complete), ALL six stacks are exactly those of the idle
Unfolder and every scratch slot has been released: the Unfolder is idle again -/
theorem typed_complete_is_idle (fuel : Nat) (hf : typeFuel ≤ fuel) (tbl : TypeTable) (t : GoType) (v0 : GoVal)
    (c c0 c' : Ctx) (es : List UEv) (hes : ∀ e ∈ es, ¬ e.isKeyRef) (hT : TT t = true) (hidle : Idle c)
    (hv0 : Shaped t v0) (hset : setTarget tbl t v0 c = .ok c0) (hrun : run fuel es c0 = .ok () c')
    (hdone : c'.unfolder.stack = []) :
    Idle c' ∧ c'.ptr = c.ptr ∧ c'.value = c.value ∧ c'.key = c.key ∧ c'.idx = c.idx ∧ c'.baseType = c.baseType := by
  obtain ⟨F, hinv, hR⟩ := setTarget_inv tbl t v0 c c0 hT hset hidle.arrays hidle.mapAny hidle.mapPrimitive hv0
  rcases run_typed (base := c.s6) hidle.unfolder fuel (by unfold typeFuel at hf; omega) es hes [F] c0 hinv hR with
    ⟨c'', fs', h, hinv', hR'⟩ | ⟨e, c'', h⟩ | ⟨c'', e, h, _⟩
  · rw [hrun] at h
    injection h with _ h
    subst h
    cases fs' with
    | nil =>
      obtain ⟨hu, hp, hv, hk, hi, hb⟩ := s6_eq _ _ hinv'.stacks
      exact ⟨⟨hu.trans hidle.unfolder, hinv'.nA, hinv'.nMA, hinv'.nMP⟩, hp, hv, hk, hi, hb⟩
    | cons G fs2 =>
      -- a frame with an unfolder state is left: the unfolder stack is not empty
      have hcur := hinv'.uEq
      have hU : G.hasU := hR'.1
      exfalso
      cases G <;> first | exact hU.elim | (simp only [stacksOf, Frame.push] at hcur; rw [hcur] at hdone; simp [Stk.push] at hdone)
  · rw [hrun] at h; cases h
  · rw [hrun] at h; cases h

theorem deref_not_bad (e : UEv) (h : e.deref.badStart) : e.badStart := by
  cases e <;> first | exact h | exact h.elim

theorem deref_not_keyRef (e : UEv) : ¬ e.deref.isKeyRef := by
  cases e <;> exact fun h => h

/-- C14 FOR TYPED TARGETS, EVERY EXTENDED EVENT SEQUENCE (typed arrays / maps, strings and keys by
reference), with a key cache that has its invariant (C20) -/
theorem any_ext_events_into_typed (fuel : Nat) (hf : typeFuel ≤ fuel) (tbl : TypeTable) (t : GoType) (v0 : GoVal)
    (c c0 : Ctx) (xs : List XEv) (hT : TT t = true) (hidle : Idle c) (hkc : Symbols.Inv c.keyCache)
    (hv0 : Shaped t v0) (hset : setTarget tbl t v0 c = .ok c0) :
    (∃ c', run fuel (deliver xs) c0 = .ok () c') ∨
    (∃ e c', run fuel (deliver xs) c0 = .err e c') ∨
    (∃ c' x, run fuel (deliver xs) c0 = .panic c' ∧ x ∈ xs ∧ XEv.badStart x) := by
  obtain ⟨kc', _, hx⟩ := ext_events_mean_expansion_any_target fuel tbl t v0 xs c c0 hkc hset
  have hes : ∀ e ∈ deliverExpanded xs, ¬ e.isKeyRef := by
    intro e he
    rw [← deliver_deref] at he
    obtain ⟨e0, _, rfl⟩ := List.mem_map.mp he
    exact deref_not_keyRef e0
  rcases any_events_into_typed fuel hf tbl t v0 c c0 (deliverExpanded xs) hes hT hidle hv0 hset with
    ⟨c', h⟩ | ⟨e, c', h⟩ | ⟨c', e, h, hm, hb⟩
  · rw [h] at hx; exact Or.inl ⟨_, hx⟩
  · rw [h] at hx; exact Or.inr (Or.inl ⟨e, _, hx⟩)
  · rw [h] at hx
    rw [← deliver_deref] at hm
    obtain ⟨e0, hm0, rfl⟩ := List.mem_map.mp hm
    obtain ⟨x, hxm, hbx⟩ := badStart_of_deliver xs e0 hm0 (deref_not_bad e0 hb)
    exact Or.inr (Or.inr ⟨_, x, hx, hxm, hbx⟩)

/-! ## C13 for SCALAR typed targets -/

/-- C13, SCALAR TARGETS.  Target of type `bool`, `string`, any integer width, `float32`, `float64`
(`PK.ofExact? t = some k`, `k ≠ interface{}`) holding anything, on ANY Unfolder context `c` (idle or
not), and one scalar event `s` carrying a value of its own Go type (`s.inRange`): whenever the
specification makes a claim (`Spec.expected`: `Spec.assign` defined under both readings — "assign
what matches, convert numbers that fit"), `SetTarget` and the event are accepted, the context is
exactly `c` again with the target holding a value the oracle's comparison (`sameVal`) identifies
with the specified one — LITERALLY the specified one unless the target type is spelled `byte`
(`GoType.int .byte`, which the type universe never produces: the mirror then writes `uint8`). -/
theorem unfold_scalar_into_typed (f : Nat) (tbl : TypeTable) (t : GoType) (k : PK) (v0 : GoVal) (c : Ctx) (s : Sc)
    (want : GoVal) (hk : PK.ofExact? t = some k) (hki : k ≠ .ifc) (hs : s.inRange = true)
    (hexp : Spec.expected tbl t v0 (.sc s) = some want) :
    ∃ c₀ got, setTarget tbl t v0 c = .ok c₀ ∧
      run (f + 1) [.scalar s] c₀ = .ok () { c with target := got, env := tbl } ∧
      Spec.sameVal got want = true ∧ ((∀ nk, t = .int nk → normKind nk = nk) → got = want) := by
  have ha : ∃ a, Spec.assign tbl true (99999 + 1) t v0 (.sc s) = some a ∧ a = want := by
    unfold Spec.expected at hexp
    split at hexp
    · rename_i a b ha hb
      split at hexp
      · injection hexp with hexp; exact ⟨a, ha, hexp⟩
      · cases hexp
    · cases hexp
  obtain ⟨a, ha, rfl⟩ := ha
  obtain ⟨w, hc, hsame, heq⟩ := assign_scalar_conv tbl true 99999 t k v0 a s hk hki hs ha
  refine ⟨primCtx tbl k v0 c, w, setTarget_prim tbl t k v0 c hk, ?_, hsame, heq⟩
  rw [run_single]
  exact scalar_primCtx f tbl k v0 w c s hc

/-- non-vacuity: `OnInt8(-3)` into a `float64` holding 1.0, `OnUint16(300)` into an `int64`; the
specification makes a claim, and the mirror evaluated -/
example :
    (Spec.assign (fun _ => none) true 5 .float64 (.f64 0x3ff0000000000000) (.sc (.num .i8 (-3)))).isSome = true ∧
    (Spec.assign (fun _ => none) false 5 (.int .i64) (.int .i64 7) (.sc (.num .u16 300))).isSome = true ∧
    (match setTarget (fun _ => none) (.int .i64) (.int .i64 7) newUnfolder with
     | .ok c₀ =>
       (match run 1 [.scalar (.num .u16 300)] c₀ with
        | .ok _ c₁ => (match c₁.target with | .int .i64 300 => true | _ => false) && c₁.depths == [0, 0, 0, 0, 0, 0]
        | _ => false)
     | .error _ => false) = true := by decide +kernel

/-- … and a document the specification makes NO claim about (a number that does not fit the target:
`OnInt16(300)` into an `int8`) is accepted by the Go code with the wrapped value 44 — C13 says
nothing, C14 (`any_events_into_typed`) says: no panic -/
example :
    Spec.assign (fun _ => none) true 5 (.int .i8) (.int .i8 0) (.sc (.num .i16 300)) = none ∧
    (match setTarget (fun _ => none) (.int .i8) (.int .i8 0) newUnfolder with
     | .ok c₀ =>
       (match run 1 [.scalar (.num .i16 300)] c₀ with
        | .ok _ c₁ => (match c₁.target with | .int .i8 44 => true | _ => false)
        | _ => false)
     | .error _ => false) = true := by decide +kernel

theorem expected_assign (tbl : TypeTable) (t : GoType) (old want : GoVal) (s : Spec.STree)
    (h : Spec.expected tbl t old s = some want) : Spec.assign tbl true 100000 t old s = some want := by
  have key : ∀ (x y : Option GoVal),
      (match x, y with
        | some a, some b => if Spec.sameVal a b then some a else none
        | _, _ => none) = some want → x = some want := by
    intro x y h
    cases x with
    | none => simp at h
    | some a =>
      cases y with
      | none => simp at h
      | some b =>
        simp only at h
        split at h
        · exact h
        · cases h
  exact key _ _ h

/-! ## C13 for `[]T` and `map[string]T` targets, `T` a primitive kind (one container level) -/

/-- C13, `[]T` TARGETS (`T` = bool, string, any integer width, float32/64).  Target holding any
slice value (nil, or any elements and spare capacity), idle Unfolder, a well-formed array of
scalars (announced length `-1`, `0` … the real count; numbers inside their kind's range): whenever
the specification makes a claim, `SetTarget` and the whole array are accepted, the context is
exactly `c` again, and the target holds a slice the oracle's comparison identifies with the
specified one: exactly the stream's elements, converted, nothing left of the old elements (they stay
hidden in the capacity: `sliceTargetFin`). -/
theorem unfold_array_into_prim_slice (f : Nat) (tbl : TypeTable) (e : GoType) (k : PK) (v0 : GoVal) (c : Ctx)
    (l : Int) (bt : Nat) (scs : List Sc) (want : GoVal) (hk : PK.ofExact? e = some k) (hki : k ≠ .ifc)
    (hv0 : isSliceVal v0) (hidle : c.unfolder.stack = []) (hl : l ≤ (scs.length : Int))
    (hs : ∀ s ∈ scs, s.inRange = true)
    (hexp : Spec.expected tbl (.slice e) v0 (.arr bt (scs.map Spec.STree.sc)) = some want) :
    ∃ c₀ got, setTarget tbl (.slice e) v0 c = .ok c₀ ∧
      run (f + 1) (.arrStart l bt :: scs.map UEv.scalar ++ [.arrEnd]) c₀ = .ok () { c with target := got, env := tbl } ∧
      Spec.sameVal got want = true := by
  obtain ⟨olds, wants, hel, rfl⟩ := assign_slice_arr tbl true 99999 e v0 want bt _ (expected_assign _ _ _ _ _ hexp)
  obtain ⟨ws, hws, hall⟩ := assignElems_scalars tbl true e k hk hki scs 99999 olds wants hs hel
  exact ⟨sliceCtxK tbl k v0 c, sliceTargetFin v0 ws, setTarget_sliceK tbl e k v0 c hk,
    run_array_into_sliceK f tbl k v0 c l bt scs ws hv0 hidle hl hws, sameVal_sliceFin _ v0 e ws wants hv0 hall⟩

/-- C13, `map[string]T` TARGETS.  Target holding any map value (nil, or any entries), idle Unfolder,
a well-formed object of scalars (keys by value; by reference: `ext_events_mean_expansion`): whenever
the specification makes a claim, everything is accepted, the context is exactly `c` again, and the
target holds a map the oracle's comparison identifies with the specified one: the old entries, with
the stream's members put in stream order (a nil map stays nil for an empty object). -/
theorem unfold_object_into_prim_map (f : Nat) (tbl : TypeTable) (e : GoType) (k : PK) (v0 : GoVal) (et : GoType)
    (olds : List (Bytes × GoVal)) (c : Ctx) (l : Int) (bt : Nat) (mems : List (Bytes × Sc)) (want : GoVal)
    (hk : PK.ofExact? e = some k) (hki : k ≠ .ifc) (hv0 : mapParts v0 = some (et, olds))
    (hidle : c.unfolder.stack = []) (hs : ∀ m ∈ mems, m.2.inRange = true)
    (hexp : Spec.expected tbl (.map e) v0 (.obj bt (memberTrees mems)) = some want) :
    ∃ c₀ got, setTarget tbl (.map e) v0 c = .ok c₀ ∧
      run (f + 1) (.objStart l bt :: memberEvents mems ++ [.objEnd]) c₀ = .ok () { c with target := got, env := tbl } ∧
      Spec.sameVal got want = true := by
  obtain ⟨wantMs, hen, rfl⟩ := assign_map_obj tbl true 99999 e v0 want bt _ (expected_assign _ _ _ _ _ hexp)
  rw [olds_of_mapParts v0 et olds hv0] at hen
  obtain ⟨fin, hfin, hall⟩ := assignEntries_scalars tbl true e k hk hki mems 99999 olds olds wantMs
    (MemsOK.refl _ olds) hs hen
  refine ⟨mapCtxK tbl k v0 c, mapFinK v0 et mems fin, setTarget_mapK tbl e k v0 c hk,
    run_object_into_mapK f tbl k v0 et olds fin c l bt mems hv0 hidle hfin, ?_⟩
  unfold mapFinK
  cases mems with
  | nil =>
    simp only [putAll, Option.some.injEq] at hfin
    subst hfin
    simp only [List.isEmpty_nil, if_true]
    cases v0 with
    | mapNil et' =>
      simp only [mapParts, Option.some.injEq, Prod.mk.injEq] at hv0
      obtain ⟨_, rfl⟩ := hv0
      cases hall
      exact sameVal_mapNil _ _
    | map et' ms' =>
      simp only [mapParts, Option.some.injEq, Prod.mk.injEq] at hv0
      obtain ⟨_, rfl⟩ := hv0
      exact sameVal_map _ _ _ _ _ hall
    | _ => simp [mapParts] at hv0
  | cons m r =>
    simp only [List.isEmpty_cons, Bool.false_eq_true, if_false]
    exact sameVal_map _ _ _ _ _ hall

/-- non-vacuity: `[1, 300, -2]` (as `OnInt8`, `OnInt16`, `OnInt64`) announced with length 3 into an
`[]int32` holding `[9, 9, 9, 9]`; `{"a": 1.5, "b": 2}` into a `map[string]float64` holding
`{"b": 0, "z": 7}` — the specification makes a claim for both, and the mirror evaluated -/
example :
    (Spec.assign (fun _ => none) true 9 (.slice (.int .i32))
      (.slice (.int .i32) [.int .i32 9, .int .i32 9, .int .i32 9, .int .i32 9] [])
      (.arr 0 [.sc (.num .i8 1), .sc (.num .i16 300), .sc (.num .i64 (-2))])).isSome = true ∧
    (match setTarget (fun _ => none) (.slice (.int .i32))
        (.slice (.int .i32) [.int .i32 9, .int .i32 9, .int .i32 9, .int .i32 9] []) newUnfolder with
     | .ok c₀ =>
       (match run 1 [.arrStart 3 0, .scalar (.num .i8 1), .scalar (.num .i16 300), .scalar (.num .i64 (-2)), .arrEnd]
          c₀ with
        | .ok _ c₁ =>
          c₁.depths == [0, 0, 0, 0, 0, 0] &&
          (match c₁.target with
           | .slice _ [.int .i32 1, .int .i32 300, .int .i32 (Int.negSucc 1)] [.int .i32 9] => true
           | _ => false)
        | _ => false)
     | .error _ => false) = true ∧
    (Spec.assign (fun _ => none) false 9 (.map .float64)
      (.map .float64 [([0x62], .f64 0), ([0x7a], .f64 0x401c000000000000)])
      (.obj 0 (memberTrees [([0x61], .f64 0x3ff8000000000000), ([0x62], .num .i8 2)]))).isSome = true ∧
    (match setTarget (fun _ => none) (.map .float64)
        (.map .float64 [([0x62], .f64 0), ([0x7a], .f64 0x401c000000000000)]) newUnfolder with
     | .ok c₀ =>
       (match run 1 (.objStart 2 0 :: memberEvents [([0x61], .f64 0x3ff8000000000000), ([0x62], .num .i8 2)] ++ [.objEnd])
          c₀ with
        | .ok _ c₁ =>
          (match c₁.target with
           | .map _ [([0x62], .f64 0x4000000000000000), ([0x7a], .f64 0x401c000000000000),
                     ([0x61], .f64 0x3ff8000000000000)] => true
           | _ => false)
        | _ => false)
     | .error _ => false) = true := by
  refine ⟨by decide +kernel, by decide +kernel, by decide +kernel, by decide +kernel⟩

/-! ### non-vacuity (C14) -/

/-- `map[string][]*int64` -/
def demoT : GoType := .map (.slice (.ptr (.int .i64)))

/-- the hypotheses: the type is in the family, `SetTarget` accepts it on a new Unfolder (with or
without key cache), the zero value has its shape -/
example : TT demoT = true ∧ Idle newUnfolder ∧ Idle (enableKeyCache newUnfolder 2) ∧
    Shaped demoT (zero (fun _ => none) demoT) ∧
    (match setTarget (fun _ => none) demoT (zero (fun _ => none) demoT) newUnfolder with
     | .ok _ => true | .error _ => false) = true :=
  ⟨by decide +kernel, idle_new, idle_enableKeyCache _ _ idle_new, shaped_zero _ _, by decide +kernel⟩

/-- `{"a": [5, null]}` is accepted (through `unfolderReflMap`, `unfolderReflSlice`, `unfolderReflPtr`,
`unfolderInt64`) and leaves all six stacks idle; a string where the `*int64` belongs, and an
unbalanced sequence, are refused with errors -/
example :
    (match setTarget (fun _ => none) demoT (zero (fun _ => none) demoT) newUnfolder with
     | .ok c₀ =>
       (match run typeFuel [.objStart 1 0, .key [0x61], .arrStart 2 0, .scalar (.num .i8 5), .scalar .nil,
                            .arrEnd, .objEnd] c₀ with
        | .ok _ c₁ =>
          c₁.depths == [0, 0, 0, 0, 0, 0] &&
          (match c₁.target with
           | .map _ [([0x61], .slice _ [.ptr _ (.int .i64 5), .ptrNil _] [])] => true
           | _ => false)
        | _ => false) &&
       (match run typeFuel [.objStart 1 0, .key [0x61], .arrStart 2 0, .scalar (.str [0x78])] c₀ with
        | .err .unsupported _ => true
        | _ => false) &&
       (match run typeFuel [.objStart 1 0, .arrEnd, .key [0x61]] c₀ with
        | .err .expectedObjectKey _ => true
        | _ => false)
     | .error _ => false) = true := by decide +kernel

/-- `[]*interface{}`: typed and generic sub-containers behind pointers; and the documented panic
(element-type code 17 in an `interface{}` position) -/
example :
    (match setTarget (fun _ => none) (.slice (.ptr .ifc)) (.sliceNil (.ptr .ifc)) newUnfolder with
     | .ok c₀ =>
       (match run typeFuel [.arrStart 1 0, .arrStart 1 6, .scalar (.num .i8 5), .arrEnd, .objStart 0 0, .key [1],
                            .scalar (.bool true), .objEnd, .arrEnd] c₀ with
        | .ok _ c₁ =>
          c₁.depths == [0, 0, 0, 0, 0, 0] && c₁.valueBuffer.arrays.size == 0 && c₁.valueBuffer.mapAny.size == 0 &&
          (match c₁.target with
           | .slice _ [.ptr _ (.ifc (.slice (.int .i8) [.int .i8 5] [])),
                       .ptr _ (.ifc (.map .ifc [([1], .ifc (.bool true))]))] [] => true
           | _ => false)
        | _ => false) &&
       (match run typeFuel [.arrStart 1 0, .arrStart 1 17] c₀ with
        | .panic _ => true
        | _ => false)
     | .error _ => false) = true := by decide +kernel

/-- the fuel hypothesis is needed: with fuel 2 the event for `**[][]bool` is not forwarded through
both pointers — the mirror's `outOfFuel` (fuel is an artefact of the mirror: it bounds a recursion
the Go code does by method dispatch; `typeFuel` = 256 exceeds every nesting `SetTarget` accepts) -/
example :
    (match setTarget (fun _ => none) (.ptr (.ptr (.slice (.slice .bool)))) (.ptrNil (.ptr (.slice (.slice .bool))))
        newUnfolder with
     | .ok c₀ =>
       (match run 2 [.arrStart 1 0] c₀, run typeFuel [.arrStart 1 0, .arrStart 1 0, .scalar (.bool true)] c₀ with
        | .outOfFuel, .ok _ c₁ => c₁.depths == [4, 1, 5, 0, 2, 0]
        | _, _ => false)
     | .error _ => false) = true := by decide +kernel

/-- the shape hypothesis is needed (it holds for every Go value of the target's type; the model's
value universe is untyped): a `[]bool` variable "holding" `true` is outside what the mirror covers -/
example :
    (match setTarget (fun _ => none) (.slice .bool) (.bool true) newUnfolder with
     | .ok c₀ => (match run typeFuel [.arrStart 1 0] c₀ with | .gap _ => true | _ => false)
     | .error _ => false) = true := by decide +kernel

/-- on the idleness hypothesis: `Idle.unfolder` is the hypothesis of the existing C14 theorems (a
`SetTarget` in the middle of a document is not covered).  The three scratch-buffer clauses are what
the invariant's slot accounting starts from (slot index = number of live sub-containers); they
hold for every Unfolder the API can produce with an idle unfolder stack: `NewUnfolder`, `Reset`
(`idle_new`, `idle_reset`), and after every accepted complete document (`typed_complete_is_idle`).
They are a hypothesis of the PROOF, not a known necessity: a stale slot shifts all indices by one
and the mirror still releases the right slot — evaluated: -/
example :
    (match setTarget (fun _ => none) .ifc .ifcNil
        { newUnfolder with valueBuffer := { arrays := #[.bool true] } } with
     | .ok c₀ =>
       (match run typeFuel [.arrStart 0 0, .arrEnd] c₀ with
        | .ok _ c₁ => c₁.valueBuffer.arrays.size == 1 && c₁.depths == [0, 0, 0, 0, 0, 0]
        | _ => false)
     | .error _ => false) = true := by decide +kernel

end SF.UnfProofs.Cons
