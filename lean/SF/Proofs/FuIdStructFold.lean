/-
  C11, direct path, STRUCT types with fields of primitive kind — FOLD side: the events `Fold.impl`
  delivers for a struct whose fields are (a) dropped (unexported, `-`, `omit`) or (b) plain members
  of a scalar type, computed exactly:  `{`  key₁ v₁ … keyₙ vₙ  `}`  in declaration order, the values
  through the reflection folders `reFoldX` (`int` as `OnInt64`, a signalling float32 NaN quieted).
  The tag strings enter through `fieldKind` (the documented grammar, `FoldTags`) only.
-/
import SF.Proofs.FuIdPtr
import SF.Proofs.FoldRun
import SF.Proofs.FoldCompile
namespace SF.FuId
open SF SF.Gotype SF.Gotype.Fold SF.FoldProofs

/-- what becomes of a struct field of scalar type `p`: dropped, or the member `nm` -/
inductive FD
  | drop (p : Prim)
  | mem (nm : Bytes) (p : Prim)
  deriving DecidableEq, Repr

def FD.prim : FD → Prim
  | .drop p => p
  | .mem _ p => p

/-- the field `f` is described by `d` (`fieldKind`: computed from the documented tag grammar) -/
def DescF (f : Field) : FD → Prop
  | .drop p => fieldKind f = .drop ∧ f.typ = primTy p
  | .mem nm p => fieldKind f = .plain nm ∧ f.typ = primTy p

inductive Desc : List Field → List FD → Prop
  | nil : Desc [] []
  | cons {f : Field} {d : FD} {fs : List Field} {ds : List FD} : DescF f d → Desc fs ds → Desc (f :: fs) (d :: ds)

/-- one Go value per field, of the field's scalar type -/
inductive Vals : List FD → List GoVal → Prop
  | nil : Vals [] []
  | cons {d : FD} {v : GoVal} {ds : List FD} {vs : List GoVal} : hasPrim d.prim v = true → Vals ds vs → Vals (d :: ds) (v :: vs)

/-- the event of a scalar on the reflection path (`reFoldX`) -/
def evOfPrim : Prim → GoVal → Ev
  | .bool, x => .bool (getB x)
  | .string, x => .str (getS x)
  | .num k, x => .num (if k == .int then .i64 else k) (getI x)
  | .f32, x => .f32 (quiet32 (getF32 x))
  | .f64, x => .f64 (getF64 x)

theorem primEv_refl (p : Prim) (y : GoVal) (h : hasPrim p y = true) :
    primEv true p y = some (.ev (evOfPrim p y)) := by
  cases p <;> cases y <;> simp [hasPrim] at h <;> rfl

theorem evOfPrim_tok (p : Prim) (y : GoVal) : SF.Ops.Unf.evToUEv (evOfPrim p y) = .scalar (scOfPtr p y) := by
  cases p <;> rfl

/-- the compiled field folders -/
def foldersOf : List FD → Nat → List ReFold
  | [], _ => []
  | .drop _ :: r, i => foldersOf r (i + 1)
  | .mem nm p :: r, i => .field nm i (.prim p) :: foldersOf r (i + 1)

/-- the events of the members -/
def memEvs : List FD → List GoVal → List XEv
  | .drop _ :: ds, _ :: vs => memEvs ds vs
  | .mem nm p :: ds, v :: vs => .ev (.key nm) :: .ev (evOfPrim p v) :: memEvs ds vs
  | _, _ => []

/-! ## compile -/

theorem build_fields (cf : Nat) (o : FoldOpts) (op : Open) : ∀ (fs : List Field) (ds : List FD) (i : Nat), Desc fs ds →
    ∃ fvs, (fs.zipIdx i).mapM (fun (x : Field × Nat) => buildFieldFold (cf + 2) o op x.1 x.2) = .ok fvs ∧
      fvs.filterMap id = foldersOf ds i := by
  intro fs ds i h
  induction h generalizing i with
  | nil => exact ⟨[], rfl, rfl⟩
  | @cons f d fs ds hf _ ih =>
    obtain ⟨fvs, h1, h2⟩ := ih (i + 1)
    rw [List.zipIdx_cons, mapM_cons, h1, buildFieldFold_eq]
    cases d with
    | drop p =>
      obtain ⟨hk, _⟩ := hf
      simp only [hk]
      exact ⟨none :: fvs, rfl, by simpa [foldersOf] using h2⟩
    | mem nm p =>
      obtain ⟨hk, ht⟩ := hf
      simp only [hk, ht, compile_prim]
      exact ⟨some (.field nm i (.prim p)) :: fvs, rfl, by simp [foldersOf, h2]⟩

theorem good_primTy (sn : List String) (p : Prim) : goodT sn (primTy p) = true := by cases p <;> rfl

theorem good_of_desc (sn : List String) : ∀ (fs : List Field) (ds : List FD), Desc fs ds → goodFs sn fs = true := by
  intro fs ds h
  induction h with
  | nil => rfl
  | @cons f d fs ds hf _ ih =>
    obtain ⟨n, t, tag, a⟩ := f
    have hk : fieldKind (.mk n t tag a) ≠ .inline ∧ t = primTy d.prim := by
      cases d <;> obtain ⟨hk, ht⟩ := hf <;> exact ⟨by rw [hk]; simp, ht⟩
    have hi : inlineIfaceF (.mk n t tag a) = false := by
      unfold inlineIfaceF
      cases hfk : fieldKind (.mk n t tag a) <;> first | rfl | exact absurd hfk hk.1
    obtain ⟨_, rfl⟩ := hk
    simp only [goodFs, goodF, hi, good_primTy, ih]
    rfl

theorem compile_struct (o : FoldOpts) (S : GoType) (fs : List Field) (ds : List FD)
    (hg : goodT [] S = true) (hu : S.under = .struct fs) (hd : Desc fs ds) :
    getReflectFold compileFuel o {} S =
      .ok (.structFold (foldersOf ds 0) (structFoldLen fs (foldersOf ds 0).length)) := by
  show getReflectFold (1999 + 1) o {} S = _
  rw [grf_struct 1999 o {} hg (OpIn_empty []) hu]
  show getReflectFoldStruct (1998 + 1) o _ fs false = _
  rw [grfs_eq]
  obtain ⟨fvs, h1, h2⟩ := build_fields 1996 o (Open.enter {} S) fs ds 0 hd
  have : fs.zipIdx = fs.zipIdx 0 := rfl
  rw [this, h1]
  simp only [h2, Bool.false_eq_true, if_false]

/-! ## run -/

theorem emit_ev' (s : St) (e : Ev) (h : s.failAt = none) :
    ∃ s', emit s .user (.ev e) = (s', .ok) ∧ s'.evs = .ev e :: s.evs ∧ s'.failAt = none := by
  rw [emit_user_healthy s _ h, reorder_ev]
  exact ⟨_, rfl, rfl, h⟩

theorem drop_head {α : Type} {l : List α} {i : Nat} {a : α} {r : List α} (h : l.drop i = a :: r) :
    l[i]? = some a ∧ l.drop (i + 1) = r := by
  constructor
  · have := List.getElem?_drop (xs := l) (i := i) (j := 0)
    rw [h] at this
    simpa using this.symm
  · have : l.drop (i + 1) = (l.drop i).drop 1 := by rw [List.drop_drop]
    rw [this, h]; rfl

theorem seq_fields (rf : Nat) (o : FoldOpts) (S : GoType) (fsAll : List Field) (vsAll : List GoVal)
    (hu : S.under = .struct fsAll) :
    ∀ (fs : List Field) (ds : List FD), Desc fs ds → ∀ (vs : List GoVal) (i : Nat), Vals ds vs →
      fsAll.drop i = fs → vsAll.drop i = vs → ∀ s : St, s.failAt = none →
      ∃ s', seqM (fun s fv => run (rf + 2) o .user fv ⟨S, .struct vsAll⟩ s) s (foldersOf ds i) = (s', .ok) ∧
        s'.evs = (memEvs ds vs).reverse ++ s.evs ∧ s'.failAt = none := by
  intro fs ds h
  induction h with
  | nil =>
    intro vs i hv _ _ s hs
    cases hv
    exact ⟨s, rfl, by simp [memEvs], hs⟩
  | @cons f d fs ds hf _ ih =>
    intro vs i hv hfs hvs s hs
    cases hv with
    | @cons _ v _ vs' hp hv' =>
    obtain ⟨hfi, hfr⟩ := drop_head hfs
    obtain ⟨hvi, hvr⟩ := drop_head hvs
    cases d with
    | drop p =>
      obtain ⟨s', h1, h2, h3⟩ := ih vs' (i + 1) hv' hfr hvr s hs
      exact ⟨s', by simpa [foldersOf] using h1, by simpa [memEvs] using h2, h3⟩
    | mem nm p =>
      obtain ⟨_, ht⟩ := hf
      obtain ⟨s1, he1, hev1, hf1⟩ := emit_ev' s (.key nm) hs
      obtain ⟨s2, he2, hev2, hf2⟩ := emit_ev' s1 (evOfPrim p v) hf1
      obtain ⟨s', h1, h2, h3⟩ := ih vs' (i + 1) hv' hfr hvr s2 hf2
      refine ⟨s', ?_, ?_, h3⟩
      · have hfield : RV.field ⟨S, .struct vsAll⟩ i = some ⟨primTy p, v⟩ := by
          simp only [RV.field, hu, hfi, hvi, ht]
        have hstep : run (rf + 2) o .user (.field nm i (.prim p)) ⟨S, .struct vsAll⟩ s = (s2, .ok) := by
          rw [run_field, he1]
          simp only [hfield]
          rw [run_prim]
          simp only [primEv_refl p v hp, he2]
        simp only [foldersOf, seqM, hstep]
        exact h1
      · rw [h2, hev2, hev1]
        simp [memEvs]

theorem fastSel_struct {S : GoType} {fs : List Field} (hg : goodT [] S = true) (hu : S.under = .struct fs) :
    fastSel S = none := by
  cases S <;> first | (simp [GoType.under] at hu; done) | (simp [goodT] at hg; done) | skip
  · rfl
  · rename_i n m u
    simp only [GoType.under] at hu
    subst hu
    rfl

/-- STRUCT, fold side -/
theorem impl_struct (o : FoldOpts) (hfail : o.failAt = none) (S : GoType) (fs : List Field) (ds : List FD)
    (vs : List GoVal) (hg : goodT [] S = true) (hu : S.under = .struct fs) (hd : Desc fs ds) (hv : Vals ds vs) :
    impl o S (.struct vs) =
      { evs := .ev (.objStart (structFoldLen fs (foldersOf ds 0).length) BT.any) :: memEvs ds vs ++ [.ev .objEnd],
        res := .ok } := by
  obtain ⟨s1, he1, hev1, hf1⟩ := emit_ev' (st0 o) (.objStart (structFoldLen fs (foldersOf ds 0).length) BT.any) hfail
  obtain ⟨s2, hseq, hev2, hf2⟩ := seq_fields 99995 o S fs vs hu fs ds hd vs 0 hv rfl rfl s1 hf1
  obtain ⟨s3, he3, hev3, _⟩ := emit_ev' s2 .objEnd hf2
  have : foldInterfaceValue runFuel o .user (.iface S (.struct vs)) (st0 o) = (s3, .ok) := by
    show foldInterfaceValue (99999 + 1) o .user _ _ = _
    rw [fiv_good 99999 o .user _ _ hg, fastSel_struct hg hu]
    show foldAnyReflect (99998 + 1) o .user _ _ = _
    rw [foldAnyReflect_eq]
    simp only [compile_struct o S fs ds hg hu hd]
    show run (99997 + 1) o .user _ _ _ = _
    rw [run_structFold, he1]
    simp only [hseq, he3]
  rw [impl_of o S _ _ _ (by rw [hu]; simp) this, hev3, hev2, hev1]
  simp [st0]

end SF.FuId
