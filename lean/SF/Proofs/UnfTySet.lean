/-
  Typed targets, part 21: `SetTarget` for the types built from primitives, `interface{}`, slices,
  string-keyed maps and pointers — the compiled unfolder is consistent, its nesting is below the
  fuel of one event, and the context `SetTarget` makes satisfies the invariant.
-/
import SF.Proofs.UnfTyStep
namespace SF.Unf
open SF

/-- the target types of this development: built from bool, string, the integer and float kinds and
`interface{}` by `[]T`, `map[string]T`, `*T` (no structs, no named types) -/
def TT : GoType → Bool
  | .bool | .string | .int _ | .float32 | .float64 | .ifc => true
  | .slice e => TT e
  | .map e => TT e
  | .ptr e => TT e
  | _ => false

theorem TT.typeName {t : GoType} (h : TT t = true) : t.typeName? = none := by
  cases t <;> first | rfl | (simp [TT] at h)

theorem TT.un {t : GoType} (h : TT t = true) (tbl : TypeTable) : t.un tbl = t := by
  cases t <;> first | rfl | (simp [TT] at h)

theorem ofExact_flat {t : GoType} {k : PK} (h : PK.ofExact? t = some k) : shOf t = .flat := by
  cases t <;> first | rfl | (simp [PK.ofExact?] at h)

/-- what a successful compilation of a type of the family yields -/
def CompOK (n : Nat) (t : GoType) (ru : RU) : Prop := ru.ok ∧ ru.req = shOf t ∧ ru.depth < n

theorem compile_ok (tbl : TypeTable) : ∀ n : Nat,
    (∀ open_ reg t ru reg', TT t = true → lookupReflUnfolder tbl n open_ reg t = .ok (ru, reg') → CompOK n t ru) ∧
    (∀ open_ reg t ru reg', TT t = true → buildReflUnfolder tbl n open_ reg t = .ok (ru, reg') → CompOK n t ru) := by
  intro n
  induction n with
  | zero =>
    constructor
    · intro o r t ru r' _ h; simp [lookupReflUnfolder] at h
    · intro o r t ru r' _ h; simp [buildReflUnfolder] at h
  | succ n ih =>
    obtain ⟨ihL, ihB⟩ := ih
    have mapOK : ∀ (x : Except Err (RU × Reg)) (g : RU → RU) (ru : RU) (reg' : Reg),
        (x.map fun (p : RU × Reg) => (g p.1, p.2)) = .ok (ru, reg') → ∃ ru0 r0, x = .ok (ru0, r0) ∧ ru = g ru0 := by
      intro x g ru reg' h
      cases x with
      | error e => cases h
      | ok p =>
        obtain ⟨ru0, r0⟩ := p
        simp only [Except.map] at h
        injection h with h
        injection h with h1 h2
        exact ⟨ru0, r0, rfl, h1.symm⟩
    constructor
    · intro o r t ru r' hT h
      rw [lookupReflUnfolder, TT.typeName hT] at h
      obtain ⟨h1, h2, h3⟩ := ihB o r t ru r' hT h
      exact ⟨h1, h2, by omega⟩
    · intro o r t ru r' hT h
      cases t with
      | bool => simp [buildReflUnfolder, PK.ofExact?] at h; obtain ⟨rfl, _⟩ := h; exact ⟨trivial, rfl, by simp [RU.depth]⟩
      | string => simp [buildReflUnfolder, PK.ofExact?] at h; obtain ⟨rfl, _⟩ := h; exact ⟨trivial, rfl, by simp [RU.depth]⟩
      | int k => simp [buildReflUnfolder, PK.ofExact?] at h; obtain ⟨rfl, _⟩ := h; exact ⟨trivial, rfl, by simp [RU.depth]⟩
      | float32 => simp [buildReflUnfolder, PK.ofExact?] at h; obtain ⟨rfl, _⟩ := h; exact ⟨trivial, rfl, by simp [RU.depth]⟩
      | float64 => simp [buildReflUnfolder, PK.ofExact?] at h; obtain ⟨rfl, _⟩ := h; exact ⟨trivial, rfl, by simp [RU.depth]⟩
      | ifc => simp [buildReflUnfolder, PK.ofExact?] at h; obtain ⟨rfl, _⟩ := h; exact ⟨trivial, rfl, by simp [RU.depth]⟩
      | ptr e =>
        have hTe : TT e = true := hT
        rw [buildReflUnfolder] at h
        obtain ⟨ru0, r0, hx, rfl⟩ := mapOK _ (fun ru => .ptr e ru) ru r' h
        obtain ⟨h1, h2, h3⟩ := ihL o r e ru0 r0 hTe hx
        exact ⟨⟨h2, h1⟩, rfl, by simp only [RU.depth]; omega⟩
      | slice e =>
        have hTe : TT e = true := hT
        rw [buildReflUnfolder] at h
        cases hk : PK.ofType? tbl e with
        | some k =>
          simp only [hk] at h
          injection h with h
          injection h with h1 h2
          subst h1
          have : shOf e = .flat := by
            unfold PK.ofType? at hk
            rw [TT.un hTe] at hk
            exact ofExact_flat hk
          exact ⟨trivial, by simp [RU.req, shOf, this], by simp [RU.depth]⟩
        | none =>
          simp only [hk] at h
          obtain ⟨ru0, r0, hx, rfl⟩ := mapOK _ (fun ru => .slice e ru) ru r' h
          obtain ⟨h1, h2, h3⟩ := ihL o r e ru0 r0 hTe hx
          exact ⟨⟨h2, h1⟩, rfl, by simp only [RU.depth]; omega⟩
      | map e =>
        have hTe : TT e = true := hT
        rw [buildReflUnfolder] at h
        cases hk : PK.ofType? tbl e with
        | some k =>
          simp only [hk] at h
          injection h with h
          injection h with h1 h2
          subst h1
          exact ⟨trivial, rfl, by simp [RU.depth]⟩
        | none =>
          simp only [hk] at h
          obtain ⟨ru0, r0, hx, rfl⟩ := mapOK _ (fun ru => .map e ru) ru r' h
          obtain ⟨h1, h2, h3⟩ := ihL o r e ru0 r0 hTe hx
          exact ⟨⟨h2, h1⟩, rfl, by simp only [RU.depth]; omega⟩
      | _ => simp [TT] at hT

theorem initStateRU_lifted (pu : PUK) (q : Ptr) (c : Ctx) : initStateRU (.lifted pu) q c = initStatePU pu q c := by
  simp [initStateRU, bind_def, resolveRU]

theorem lookupGo_req (t : GoType) (pu : PUK) (v0 : GoVal) (h : lookupGoTypeUnfolder t = some pu)
    (hv0 : (shOf t).ok v0) : (RU.lifted pu).req.ok v0 := by
  cases t with
  | slice e =>
    simp only [lookupGoTypeUnfolder] at h
    cases hk : PK.ofExact? e with
    | none => simp [hk] at h
    | some k =>
      simp only [hk, Option.map_some, Option.some.injEq] at h
      subst h
      have : shOf e = .flat := ofExact_flat hk
      simpa [RU.req, shOf, this] using hv0
  | map e =>
    simp only [lookupGoTypeUnfolder] at h
    cases hk : PK.ofExact? e with
    | none => simp [hk] at h
    | some k =>
      simp only [hk, Option.map_some, Option.some.injEq] at h
      subst h
      exact hv0
  | _ =>
    simp only [lookupGoTypeUnfolder] at h
    obtain ⟨k, _, rfl⟩ := Option.map_eq_some_iff.mp h
    exact flat_ok _

/-- THE CONTEXT `SetTarget` MAKES, for a target type of the family holding a value of its type's
shape, on an Unfolder whose unfolder stack and scratch buffers are idle (a new one, one that was
`Reset`, one that has completed its documents): the invariant holds with one frame — the compiled
unfolder waiting for its first event — and nesting depth at most 255 -/
theorem setTarget_inv (tbl : TypeTable) (t : GoType) (v0 : GoVal) (c c0 : Ctx) (hT : TT t = true)
    (hset : setTarget tbl t v0 c = .ok c0)
    (hA : c.valueBuffer.arrays.size = 0) (hMA : c.valueBuffer.mapAny.size = 0)
    (hMP : c.valueBuffer.mapPrimitive.size = 0) (hv0 : (shOf t).ok v0) :
    ∃ F, Inv 255 c.s6 [F] c0 ∧ Rest [F] := by
  have hinv0 : ∀ reg : Reg, Inv 255 c.s6 [] ({ c with target := v0, env := tbl, reg := reg } : Ctx) := by
    intro reg
    exact ⟨rfl, trivial, (fun x hx => nomatch hx), hA, hMA, hMP⟩
  have hderef : ∀ reg : Reg, deref ({ c with target := v0, env := tbl, reg := reg } : Ctx) ⟨.target, []⟩ = some v0 := by
    intro reg; simp [deref, rootVal]
  unfold setTarget at hset
  simp only at hset
  split at hset
  · rename_i pu hpu
    split at hset
    · rename_i cc hm
      injection hset with hset
      subst hset
      have hm' : initStateRU (.lifted pu) (some ⟨.target, []⟩)
          ({ c with target := v0, env := tbl, reg := c.reg } : Ctx) = .ok () cc := by
        rw [initStateRU_lifted]; exact hm
      obtain ⟨c', hinit, hinv, _, _⟩ := init_at (.lifted pu) ⟨.target, []⟩ ⟨trivial, Nat.zero_le _⟩ (hinv0 c.reg)
        (fun _ => trivial) v0 (hderef c.reg) (lookupGo_req t pu v0 hpu hv0)
      rw [hm'] at hinit
      injection hinit with _ hc
      subst hc
      exact ⟨_, hinv, hasU_waitF _ _, fun _ => rfl⟩
    · cases hset
  · split at hset
    · cases hset
    · rename_i ru reg hl
      split at hset
      · rename_i cc hm
        injection hset with hset
        subst hset
        obtain ⟨hok, hreq, hdep⟩ := (compile_ok tbl typeFuel).1 [] c.reg t ru reg hT hl
        have hdep' : ru.depth ≤ 255 := by unfold typeFuel at hdep; omega
        obtain ⟨c', hinit, hinv, _, _⟩ := init_at ru ⟨.target, []⟩ ⟨hok, hdep'⟩ (hinv0 reg)
          (fun _ => trivial) v0 (hderef reg) (by rw [hreq]; exact hv0)
        have hm' : initStateRU ru (some ⟨.target, []⟩)
            ({ c with target := v0, env := tbl, reg := reg } : Ctx) = .ok () cc := hm
        rw [hm'] at hinit
        injection hinit with _ hc
        subst hc
        exact ⟨_, hinv, hasU_waitF _ _, fun _ => rfl⟩
      · cases hset

end SF.Unf
