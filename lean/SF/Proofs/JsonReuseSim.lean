/-
  C17 for the JSON parser mirror (SF/Json/Parse.lean), the FRAME relation.
  `Sim E0 n0 p q`: `q` is `p` seen through a frame — the events `E0` were delivered before
  (`n0` visitor calls; a visitor fault index is shifted by `n0`), the stored error `err` is
  arbitrary, `isDouble` is arbitrary outside a number, `required` is arbitrary outside a
  literal.  Everything else (state stack, current state, token buffer, `inEscape`) is equal.
  Every step function respects `Sim` (from well-formed states, where the fail state — the only
  reader of `err` — is unreachable).
-/
import SF.Proofs.JsonShape
set_option linter.unusedSimpArgs false
set_option linter.unusedVariables false
namespace SF.Json.ParseP
open SF SF.Json SF.Json.Parse SF.Json.Float

/-- `q` is `p` behind the frame `(E0, n0)`, up to the dead fields -/
structure Sim (E0 : List Ev) (n0 : Nat) (p q : P) : Prop where
  st : q.states = p.states
  cs : q.currentState = p.currentState
  lb : q.literalBuffer = p.literalBuffer
  esc : q.inEscape = p.inEscape
  evs : q.evs = p.evs ++ E0
  nevs : q.nevs = p.nevs + n0
  fa : q.failAt = p.failAt.map (· + n0)
  /-- `isDouble` is live only inside a number -/
  dbl : p.currentState = .numberState → q.isDouble = p.isDouble
  /-- `required` is live only inside a literal -/
  req : isLit p.currentState = true → q.required = p.required

/-- results of a step function that agree up to the frame -/
structure SimR (E0 : List Ev) (n0 : Nat) (x y : R) : Prop where
  rest : y.rest = x.rest
  rep : y.reported = x.reported
  err : y.err = x.err
  p : Sim E0 n0 x.p y.p

variable {E0 : List Ev} {n0 : Nat} {p q : P}

theorem visit_sim_snd (h : Sim E0 n0 p q) (e : Ev) : (visit q e).2 = (visit p e).2 := by
  simp only [visit, h.fa, h.nevs]
  cases p.failAt with
  | none => rfl
  | some k =>
    simp only [Option.map_some]
    by_cases hk : p.nevs ≥ k
    · have : p.nevs + n0 ≥ k + n0 := by omega
      simp [hk, this]
    · have : ¬ p.nevs + n0 ≥ k + n0 := by omega
      simp [hk, this]

theorem visit_sim (h : Sim E0 n0 p q) (e : Ev) : Sim E0 n0 (visit p e).1 (visit q e).1 := by
  rw [visit_fst, visit_fst]
  exact ⟨h.st, h.cs, h.lb, h.esc, by simp [h.evs], by simp only [h.nevs]; omega, h.fa, h.dbl, h.req⟩

theorem isRet_not_num {s : St} (h : isRet s = true) : s ≠ .numberState := by
  intro hc; subst hc; simp [isRet] at h

theorem popState_sim (h : Sim E0 n0 p q) (hst : ∀ s ∈ p.states, isRet s = true) :
    Sim E0 n0 (popState p) (popState q) := by
  unfold popState
  rw [h.st]
  cases hs : p.states with
  | nil =>
    exact ⟨by simp only [h.st, hs], rfl, h.lb, h.esc, h.evs, h.nevs, h.fa, fun hc => (by cases hc),
      fun hc => (by simp [isLit] at hc)⟩
  | cons last rest =>
    have hl := hst last (by rw [hs]; simp)
    exact ⟨rfl, rfl, h.lb, h.esc, h.evs, h.nevs, h.fa, fun hc => absurd hc (isRet_not_num hl),
      fun hc => (by simp only [isLit_ret hl] at hc; cases hc)⟩


/-! ## literals -/

theorem stepLit_sim (h : Sim E0 n0 p q) (b : Bytes) (kind : String) (err : Err) (ev : Ev)
    (hst : ∀ s ∈ p.states, isRet s = true) (hlit : isLit p.currentState = true)
    (hn : p.required ≤ (strBytes kind).length) :
    SimR E0 n0 (stepLit p b kind err ev) (stepLit q b kind err ev) := by
  have hr : q.required = p.required := h.req hlit
  by_cases hb : b.length < p.required
  · rw [stepLit_short p b kind err ev hn hb, stepLit_short q b kind err ev (by rw [hr]; exact hn) (by rw [hr]; exact hb), hr]
    have hs : Sim E0 n0 { p with required := p.required - b.length } { q with required := p.required - b.length } :=
      ⟨h.st, h.cs, h.lb, h.esc, h.evs, h.nevs, h.fa, h.dbl, fun _ => rfl⟩
    split
    · exact ⟨rfl, rfl, rfl, hs⟩
    · exact ⟨rfl, rfl, rfl, hs⟩
  · rw [stepLit_full p b kind err ev hn (by omega), stepLit_full q b kind err ev (by rw [hr]; exact hn) (by rw [hr]; omega), hr]
    split
    · have hp := popState_sim h hst
      exact ⟨rfl, rfl, visit_sim_snd hp ev, visit_sim hp ev⟩
    · exact ⟨rfl, rfl, rfl, h⟩

/-! ## numbers -/

theorem reportNumber_sim (h : Sim E0 n0 p q) (b : Bytes) (d : Bool) :
    (reportNumber q b d).2 = (reportNumber p b d).2 ∧ Sim E0 n0 (reportNumber p b d).1 (reportNumber q b d).1 := by
  unfold reportNumber
  split
  · split
    · exact ⟨visit_sim_snd h _, visit_sim h _⟩
    · exact ⟨rfl, h⟩
    · exact ⟨rfl, h⟩
    · exact ⟨rfl, h⟩
  · split
    · exact ⟨rfl, h⟩
    · split
      · exact ⟨visit_sim_snd h _, visit_sim h _⟩
      · split
        · exact ⟨visit_sim_snd h _, visit_sim h _⟩
        · exact ⟨visit_sim_snd h _, visit_sim h _⟩

theorem stepNumber_sim (h : Sim E0 n0 p q) (b : Bytes) (hst : ∀ s ∈ p.states, isRet s = true)
    (hd : q.isDouble = p.isDouble) : SimR E0 n0 (stepNumber p b) (stepNumber q b) := by
  cases hdone : (scanNumber b p.isDouble).2.2.1 with
  | false =>
    rw [stepNumber_more p b hdone, stepNumber_more q b (by rw [hd]; exact hdone), hd, h.lb]
    exact ⟨rfl, rfl, rfl, h.st, h.cs, rfl, h.esc, h.evs, h.nevs, h.fa, fun _ => rfl, h.req⟩
  | true =>
    rw [stepNumber_done p b hdone, stepNumber_done q b (by rw [hd]; exact hdone), hd, h.lb]
    have hs : Sim E0 n0 { p with isDouble := (scanNumber b p.isDouble).2.2.2, literalBuffer := [] }
        { q with isDouble := (scanNumber b p.isDouble).2.2.2, literalBuffer := [] } :=
      ⟨h.st, h.cs, rfl, h.esc, h.evs, h.nevs, h.fa, fun _ => rfl, h.req⟩
    obtain ⟨k1, k2⟩ := reportNumber_sim hs (p.literalBuffer ++ (scanNumber b p.isDouble).1) (scanNumber b p.isDouble).2.2.2
    refine ⟨rfl, rfl, k1, popState_sim k2 ?_⟩
    obtain ⟨evs, nevs, h2⟩ : ∃ evs nevs, (reportNumber { p with isDouble := (scanNumber b p.isDouble).2.2.2, literalBuffer := [] }
        (p.literalBuffer ++ (scanNumber b p.isDouble).1) (scanNumber b p.isDouble).2.2.2).1 =
        { { p with isDouble := (scanNumber b p.isDouble).2.2.2, literalBuffer := [] } with evs := evs, nevs := nevs } := by
      generalize ({ p with isDouble := (scanNumber b p.isDouble).2.2.2, literalBuffer := [] } : P) = p1
      generalize (p.literalBuffer ++ (scanNumber b p.isDouble).1) = tok
      generalize (scanNumber b p.isDouble).2.2.2 = dd
      unfold reportNumber
      split
      · split
        · exact ⟨_, _, visit_fst _ _⟩
        · exact ⟨p1.evs, p1.nevs, rfl⟩
        · exact ⟨p1.evs, p1.nevs, rfl⟩
        · exact ⟨p1.evs, p1.nevs, rfl⟩
      · split
        · exact ⟨p1.evs, p1.nevs, rfl⟩
        · split
          · exact ⟨_, _, visit_fst _ _⟩
          · split
            · exact ⟨_, _, visit_fst _ _⟩
            · exact ⟨_, _, visit_fst _ _⟩
    rw [h2]
    exact hst


/-! ## strings -/

/-- updating the two fields `doString` writes, on both sides -/
theorem Sim.str (h : Sim E0 n0 p q) (lb : Bytes) (esc : Bool) :
    Sim E0 n0 { p with literalBuffer := lb, inEscape := esc } { q with literalBuffer := lb, inEscape := esc } :=
  ⟨h.st, h.cs, rfl, rfl, h.evs, h.nevs, h.fa, h.dbl, h.req⟩

theorem doString_sim (h : Sim E0 n0 p q) (b : Bytes) (hb : b ≠ []) :
    (doString q b).2 = (doString p b).2 ∧ Sim E0 n0 (doString p b).1 (doString q b).1 := by
  cases b with
  | nil => exact absurd rfl hb
  | cons c tl =>
    cases hlb : p.literalBuffer with
    | nil =>
      have hlb' : q.literalBuffer = [] := by rw [h.lb, hlb]
      have hpe : ∀ e, ({ p with inEscape := e } : P) = { p with literalBuffer := [], inEscape := e } := by
        intro e; cases p; simp only at hlb; subst hlb; rfl
      have hqe : ∀ e, ({ q with inEscape := e } : P) = { q with literalBuffer := [], inEscape := e } := by
        intro e; cases q; simp only at hlb'; subst hlb'; rfl
      cases hs : (scanString tl p.inEscape 0).1 with
      | none =>
        have hs' : (scanString tl q.inEscape 0).1 = none := by rw [h.esc]; exact hs
        rw [doString_start_none p c tl hlb hs, doString_start_none q c tl hlb' hs', h.esc]
        exact ⟨rfl, h.str _ _⟩
      | some i =>
        have hs' : (scanString tl q.inEscape 0).1 = some i := by rw [h.esc]; exact hs
        rw [doString_start_some p c tl i hlb hs, doString_start_some q c tl i hlb' hs', h.esc]
        cases unquote (tl.take i) with
        | error e => simp only []; rw [hpe, hqe]; exact ⟨trivial, h.str _ _⟩
        | ok s => simp only []; rw [hpe, hqe]; exact ⟨trivial, h.str _ _⟩
    | cons l ls =>
      have hlb' : q.literalBuffer = l :: ls := by rw [h.lb, hlb]
      cases hs : (scanString (c :: tl) p.inEscape 0).1 with
      | none =>
        have hs' : (scanString (c :: tl) q.inEscape 0).1 = none := by rw [h.esc]; exact hs
        rw [doString_cont_none p _ l ls hlb hs, doString_cont_none q _ l ls hlb' hs', h.esc]
        exact ⟨rfl, h.str _ _⟩
      | some i =>
        have hs' : (scanString (c :: tl) q.inEscape 0).1 = some i := by rw [h.esc]; exact hs
        rw [doString_cont_some p _ l ls i hlb hs, doString_cont_some q _ l ls i hlb' hs', h.esc]
        cases unquote (ls ++ (c :: tl).take i) with
        | error e => exact ⟨rfl, h.str _ _⟩
        | ok s => exact ⟨rfl, h.str _ _⟩

theorem stepString_sim (h : Sim E0 n0 p q) (b : Bytes) (hb : b ≠ []) (hst : ∀ s ∈ p.states, isRet s = true) :
    SimR E0 n0 (stepString p b) (stepString q b) := by
  obtain ⟨k1, k2⟩ := doString_sim h b hb
  obtain ⟨esc, lb, ref, done, rest, err, hd, _⟩ := doString_spec p b hb
  unfold stepString
  generalize doString q b = dq at k1 k2
  obtain ⟨q', dq2⟩ := dq
  simp only at k1 k2
  subst k1
  rw [hd] at k2 ⊢
  simp only at k2 ⊢
  split
  · have hp := popState_sim k2 hst
    exact ⟨rfl, rfl, visit_sim_snd hp _, visit_sim hp _⟩
  · exact ⟨rfl, rfl, rfl, k2⟩

theorem stepDictKey_sim (h : Sim E0 n0 p q) (b : Bytes) (hb : b ≠ []) :
    SimR E0 n0 (stepDictKey p b) (stepDictKey q b) := by
  obtain ⟨k1, k2⟩ := doString_sim h b hb
  unfold stepDictKey
  generalize doString q b = dq at k1 k2
  generalize doString p b = dp at k1 k2
  obtain ⟨q', dq2⟩ := dq
  obtain ⟨p', ref, done, rest, err⟩ := dp
  simp only at k1 k2
  subst k1
  simp only
  split
  · have hs : Sim E0 n0 { p' with currentState := .dictFieldValueSep } { q' with currentState := .dictFieldValueSep } :=
      ⟨k2.st, rfl, k2.lb, k2.esc, k2.evs, k2.nevs, k2.fa, fun hc => (by cases hc), fun hc => (by simp [isLit] at hc)⟩
    exact ⟨rfl, rfl, visit_sim_snd hs _, visit_sim hs _⟩
  · exact ⟨rfl, rfl, rfl, k2⟩


/-! ## containers -/

/-- moving to a state that is neither a number nor a literal, on both sides -/
theorem Sim.goto (h : Sim E0 n0 p q) (c : St) (hn : c ≠ .numberState) (hl : isLit c = false) :
    Sim E0 n0 { p with currentState := c } { q with currentState := c } :=
  ⟨h.st, rfl, h.lb, h.esc, h.evs, h.nevs, h.fa, fun hc => absurd hc hn, fun hc => (by simp only [hl] at hc; cases hc)⟩

theorem endDict_sim (h : Sim E0 n0 p q) (b : Bytes) (hst : ∀ s ∈ p.states, isRet s = true) :
    SimR E0 n0 (endDict p b) (endDict q b) := by
  unfold endDict
  have hp := popState_sim h hst
  exact ⟨rfl, rfl, visit_sim_snd hp _, visit_sim hp _⟩

theorem endArray_sim (h : Sim E0 n0 p q) (b : Bytes) (hst : ∀ s ∈ p.states, isRet s = true) :
    SimR E0 n0 (endArray p b) (endArray q b) := by
  unfold endArray
  have hp := popState_sim h hst
  exact ⟨rfl, rfl, visit_sim_snd hp _, visit_sim hp _⟩

theorem stepDict_sim (h : Sim E0 n0 p q) (b : Bytes) (ae : Bool) (hst : ∀ s ∈ p.states, isRet s = true) :
    SimR E0 n0 (stepDict p b ae) (stepDict q b ae) := by
  unfold stepDict
  split
  · exact ⟨rfl, rfl, rfl, h⟩
  · simp only
    split
    · split
      · exact ⟨rfl, rfl, rfl, h⟩
      · exact endDict_sim h _ hst
    · split
      · exact ⟨rfl, rfl, rfl, h.goto _ (by simp) rfl⟩
      · exact ⟨rfl, rfl, rfl, h⟩

theorem stepDictValueEnd_sim (h : Sim E0 n0 p q) (b : Bytes) (hst : ∀ s ∈ p.states, isRet s = true) :
    SimR E0 n0 (stepDictValueEnd p b) (stepDictValueEnd q b) := by
  unfold stepDictValueEnd
  split
  · exact ⟨rfl, rfl, rfl, h⟩
  · split
    · exact endDict_sim h _ hst
    · split
      · exact ⟨rfl, rfl, rfl, h.goto _ (by simp) rfl⟩
      · exact ⟨rfl, rfl, rfl, h⟩

theorem stepArray_sim (h : Sim E0 n0 p q) (b : Bytes) (ae : Bool) (hst : ∀ s ∈ p.states, isRet s = true) :
    SimR E0 n0 (stepArray p b ae) (stepArray q b ae) := by
  unfold stepArray
  split
  · exact ⟨rfl, rfl, rfl, h⟩
  · simp only
    split
    · split
      · exact ⟨rfl, rfl, rfl, h⟩
      · exact endArray_sim h _ hst
    · exact ⟨rfl, rfl, rfl, h.goto _ (by simp) rfl⟩

theorem stepArrValueEnd_sim (h : Sim E0 n0 p q) (b : Bytes) (hst : ∀ s ∈ p.states, isRet s = true) :
    SimR E0 n0 (stepArrValueEnd p b) (stepArrValueEnd q b) := by
  unfold stepArrValueEnd
  split
  · exact ⟨rfl, rfl, rfl, h⟩
  · split
    · exact endArray_sim h _ hst
    · split
      · exact ⟨rfl, rfl, rfl, h.goto _ (by simp) rfl⟩
      · exact ⟨rfl, rfl, rfl, h⟩


/-! ## values -/

theorem stepValue_sim (h : Sim E0 n0 p q) (b : Bytes) (ret : St) (hst : ∀ s ∈ p.states, isRet s = true)
    (hret : isRet ret = true) : SimR E0 n0 (stepValue p b ret) (stepValue q b ret) := by
  have hst' := stack_cons hst hret
  unfold stepValue
  split
  · exact ⟨rfl, rfl, rfl, h⟩
  · rename_i c tl htr
    simp only
    by_cases h1 : (c == ch '{') = true
    · simp only [if_pos h1, pushState_ret _ ret _ hret]
      have hs : Sim E0 n0 { p with states := ret :: p.states, currentState := .dictState }
          { q with states := ret :: q.states, currentState := .dictState } :=
        ⟨by simp only [h.st], rfl, h.lb, h.esc, h.evs, h.nevs, h.fa, fun hc => (by cases hc), fun hc => (by simp [isLit] at hc)⟩
      exact ⟨rfl, rfl, visit_sim_snd hs _, visit_sim hs _⟩
    simp only [if_neg h1]
    by_cases h2 : (c == ch '[') = true
    · simp only [if_pos h2, pushState_ret _ ret _ hret]
      have hs : Sim E0 n0 { p with states := ret :: p.states, currentState := .arrState }
          { q with states := ret :: q.states, currentState := .arrState } :=
        ⟨by simp only [h.st], rfl, h.lb, h.esc, h.evs, h.nevs, h.fa, fun hc => (by cases hc), fun hc => (by simp [isLit] at hc)⟩
      exact ⟨rfl, rfl, visit_sim_snd hs _, visit_sim hs _⟩
    simp only [if_neg h2]
    by_cases h3 : (c == ch 'n') = true
    · simp only [if_pos h3, pushState_ret _ ret _ hret]
      have hs : Sim E0 n0 { p with states := ret :: p.states, currentState := .nullState, required := 3 }
          { q with states := ret :: q.states, currentState := .nullState, required := 3 } :=
        ⟨by simp only [h.st], rfl, h.lb, h.esc, h.evs, h.nevs, h.fa, fun hc => (by cases hc), fun _ => rfl⟩
      exact stepLit_sim hs tl "null" .expectedNull .null hst' rfl (by rw [kind_null]; simp)
    simp only [if_neg h3]
    by_cases h4 : (c == ch 'f') = true
    · simp only [if_pos h4, pushState_ret _ ret _ hret]
      have hs : Sim E0 n0 { p with states := ret :: p.states, currentState := .falseState, required := 4 }
          { q with states := ret :: q.states, currentState := .falseState, required := 4 } :=
        ⟨by simp only [h.st], rfl, h.lb, h.esc, h.evs, h.nevs, h.fa, fun hc => (by cases hc), fun _ => rfl⟩
      exact stepLit_sim hs tl "false" .expectedFalse (.bool false) hst' rfl (by rw [kind_false]; simp)
    simp only [if_neg h4]
    by_cases h5 : (c == ch 't') = true
    · simp only [if_pos h5, pushState_ret _ ret _ hret]
      have hs : Sim E0 n0 { p with states := ret :: p.states, currentState := .trueState, required := 3 }
          { q with states := ret :: q.states, currentState := .trueState, required := 3 } :=
        ⟨by simp only [h.st], rfl, h.lb, h.esc, h.evs, h.nevs, h.fa, fun hc => (by cases hc), fun _ => rfl⟩
      exact stepLit_sim hs tl "true" .expectedTrue (.bool true) hst' rfl (by rw [kind_true]; simp)
    simp only [if_neg h5]
    by_cases h6 : (c == ch '"') = true
    · simp only [if_pos h6]
      have e1 := pushState_ret { p with literalBuffer := [] } ret .stringState hret
      have e2 := pushState_ret { q with literalBuffer := [] } ret .stringState hret
      simp only at e1 e2
      rw [e1, e2]
      have hs : Sim E0 n0
          { p with literalBuffer := [], states := ret :: p.states, currentState := .stringState, inEscape := false }
          { q with literalBuffer := [], states := ret :: q.states, currentState := .stringState, inEscape := false } :=
        ⟨by simp only [h.st], rfl, rfl, rfl, h.evs, h.nevs, h.fa, fun hc => (by cases hc), fun hc => (by simp [isLit] at hc)⟩
      exact stepString_sim hs (c :: tl) (by simp) hst'
    simp only [if_neg h6]
    split
    · have hs : Sim E0 n0 { p with currentState := ret, isDouble := false } { q with currentState := ret, isDouble := false } :=
        ⟨h.st, rfl, h.lb, h.esc, h.evs, h.nevs, h.fa, fun _ => rfl, fun hc => (by simp only [isLit_ret hret] at hc; cases hc)⟩
      exact ⟨rfl, rfl, rfl, hs⟩
    · have e1 := pushState_ret { p with isDouble := false, literalBuffer := [] } ret .numberState hret
      have e2 := pushState_ret { q with isDouble := false, literalBuffer := [] } ret .numberState hret
      simp only at e1 e2
      rw [e1, e2]
      have hs : Sim E0 n0
          { p with isDouble := false, literalBuffer := [], states := ret :: p.states, currentState := .numberState }
          { q with isDouble := false, literalBuffer := [], states := ret :: q.states, currentState := .numberState } :=
        ⟨by simp only [h.st], rfl, rfl, h.esc, h.evs, h.nevs, h.fa, fun _ => rfl, fun hc => (by simp [isLit] at hc)⟩
      exact stepNumber_sim hs (c :: tl) hst' rfl

/-! ## one step -/

/-- ONE STEP respects the frame (from a well-formed state: the fail state, the only reader of
the stored error, is not reachable) -/
theorem execStep_sim (h : Sim E0 n0 p q) (b : Bytes) (hb : b ≠ []) (hw : WF p) :
    (execStep q b).2 = (execStep p b).2 ∧ SimR E0 n0 (execStep p b).1 (execStep q b).1 := by
  have hst := hw.inv.stack
  unfold execStep
  rw [h.cs]
  cases hcs : p.currentState with
  | failedState => exact absurd hcs hw.not_failed
  | startState =>
    simp only [stepStart, h.cs, hcs]
    exact ⟨trivial, stepValue_sim h b _ hst rfl⟩
  | dictState => exact ⟨rfl, stepDict_sim h b _ hst⟩
  | dictNextFieldState => exact ⟨rfl, stepDict_sim h b _ hst⟩
  | dictFieldState => exact ⟨rfl, stepDictKey_sim h b hb⟩
  | dictFieldValueSep =>
    simp only
    split
    · exact ⟨rfl, rfl, rfl, rfl, h⟩
    · exact ⟨rfl, rfl, rfl, rfl, h.goto _ (by simp) rfl⟩
  | dictFieldValue => exact ⟨rfl, stepValue_sim h b _ hst rfl⟩
  | dictFieldStateEnd => exact ⟨rfl, stepDictValueEnd_sim h b hst⟩
  | arrState => exact ⟨rfl, stepArray_sim h b _ hst⟩
  | arrStateValue =>
    obtain ⟨k1, k2, k3, k4⟩ := stepValue_sim h b .arrStateNext hst rfl
    exact ⟨rfl, k1, rfl, k3, k4⟩
  | arrStateNext => exact ⟨rfl, stepArrValueEnd_sim h b hst⟩
  | nullState =>
    exact ⟨rfl, stepLit_sim h b _ _ _ hst (by rw [hcs]; rfl)
      (by rw [kind_null]; have := hw.inv.lit (by rw [hcs]; rfl); rw [hcs] at this; exact this)⟩
  | trueState =>
    exact ⟨rfl, stepLit_sim h b _ _ _ hst (by rw [hcs]; rfl)
      (by rw [kind_true]; have := hw.inv.lit (by rw [hcs]; rfl); rw [hcs] at this; exact this)⟩
  | falseState =>
    exact ⟨rfl, stepLit_sim h b _ _ _ hst (by rw [hcs]; rfl)
      (by rw [kind_false]; have := hw.inv.lit (by rw [hcs]; rfl); rw [hcs] at this; exact this)⟩
  | stringState => exact ⟨rfl, stepString_sim h b hb hst⟩
  | numberState => exact ⟨rfl, stepNumber_sim h b hst (h.dbl hcs)⟩

end SF.Json.ParseP
