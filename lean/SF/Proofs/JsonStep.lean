/-
  C03 for the JSON parser mirror, the step lemmas: an invariant `Inv` of the parser state
  (the state stack holds return states only; inside a literal `required` does not exceed
  the literal's length; inside a number the token buffer is not empty), and for every step
  function: under `Inv` the outcome is neither `panic` nor `outOfFuel`, the stored error is
  untouched, and — unless an error is reported — `Inv` holds again and the measure
  `cost = 2·|input| + weight(state)` has strictly decreased.
-/
import SF.Proofs.JsonBasic
set_option linter.unusedSimpArgs false
namespace SF.Json.ParseP
open SF SF.Json SF.Json.Parse SF.Json.Float

/-- the states `stepValue` is told to return to after a value -/
def isRet (s : St) : Bool := s == .startState || s == .dictFieldStateEnd || s == .arrStateNext
/-- inside `null` / `true` / `false` -/
def isLit (s : St) : Bool := s == .nullState || s == .trueState || s == .falseState
/-- length of the literal a state reads -/
def kindLen : St → Nat
  | .falseState => 5
  | _ => 4

/-- INVARIANT of the parser state (between any two steps, hence between any two writes) -/
structure Inv (p : P) : Prop where
  /-- the state stack holds return states only -/
  stack : ∀ s ∈ p.states, isRet s = true
  /-- inside a literal, the number of bytes still required is at most its length
  (`kind[len(kind)-required:]` is in range) -/
  lit : isLit p.currentState = true → p.required ≤ kindLen p.currentState
  /-- inside a number, at least its first byte has been buffered (`b[0]` in parseInt) -/
  num : p.currentState = .numberState → p.literalBuffer ≠ []

theorem inv_init (failAt : Option Nat) : Inv (init failAt) := by
  constructor <;> simp [init, isLit]

theorem inv_fresh : Inv {} := by
  constructor <;> simp [isLit]

/-- states that may be left without consuming input -/
def weight : St → Nat
  | .dictState | .dictNextFieldState | .arrState | .numberState | .nullState | .trueState | .falseState => 1
  | _ => 0

/-- the measure that every step decreases -/
def cost (p : P) (b : Bytes) : Nat := 2 * b.length + weight p.currentState

theorem weight_le_one (s : St) : weight s ≤ 1 := by cases s <;> simp [weight]

theorem weight_ret {s : St} (h : isRet s = true) : weight s = 0 := by
  cases s <;> simp [isRet] at h <;> rfl

theorem isLit_ret {s : St} (h : isRet s = true) : isLit s = false := by
  cases s <;> simp [isRet] at h <;> rfl

/-- popState leads to a return state (or to failedState), from which nothing is pending -/
theorem popState_spec (p : P) (h : ∀ s ∈ p.states, isRet s = true) :
    Inv (popState p) ∧ weight (popState p).currentState = 0 ∧ (popState p).err = p.err := by
  unfold popState
  cases hs : p.states with
  | nil =>
    simp only
    refine ⟨⟨by simp [hs], by simp [isLit], by simp⟩, rfl, trivial⟩
  | cons last rest =>
    simp only
    rw [hs] at h
    have hl := h last (by simp)
    refine ⟨⟨fun s hs' => h s (by simp [hs']), ?_, ?_⟩, weight_ret hl, trivial⟩
    · simp [isLit_ret hl]
    · intro hc; simp only at hc; subst hc; simp [isRet] at hl


theorem visit_inv {p : P} (e : Ev) (h : Inv p) : Inv (visit p e).1 := by
  rw [visit_fst]; exact ⟨h.stack, h.lit, h.num⟩

/-! ## literals -/

/-- stepNULL / stepTRUE / stepFALSE, called with `required ≤ |kind|` (from `stepValue` with
the input after the first letter, possibly empty; or from the literal's own state) -/
theorem stepLit_ok (p : P) (b : Bytes) (kind : String) (err : Err) (ev : Ev)
    (hst : ∀ s ∈ p.states, isRet s = true) (hlit : isLit p.currentState = true)
    (hk : (strBytes kind).length = kindLen p.currentState) (hreq : p.required ≤ kindLen p.currentState)
    (herr : Safe (some err)) :
    Safe (stepLit p b kind err ev).err ∧ (stepLit p b kind err ev).p.err = p.err ∧
    Inv (stepLit p b kind err ev).p ∧
    ((stepLit p b kind err ev).err = none →
      cost (stepLit p b kind err ev).p (stepLit p b kind err ev).rest ≤ 2 * b.length + 1 ∧
      (b ≠ [] → cost (stepLit p b kind err ev).p (stepLit p b kind err ev).rest < 2 * b.length + 1)) := by
  have hinv' : ∀ n, n ≤ p.required → Inv { p with required := n } := by
    intro n hn
    refine ⟨hst, fun _ => ?_, ?_⟩
    · simp only; omega
    · intro hc; simp only at hc; rw [hc] at hlit; simp [isLit] at hlit
  by_cases hb : b.length < p.required
  · rw [stepLit_short p b _ err ev (by omega) hb]
    split
    · refine ⟨safe_none, rfl, hinv' _ (by omega), fun _ => ⟨?_, ?_⟩⟩
      · simp only [cost, List.length_nil]; have := weight_le_one p.currentState; omega
      · intro hne
        have : 0 < b.length := List.length_pos_iff.mpr hne
        simp only [cost, List.length_nil]; have := weight_le_one p.currentState; omega
    · exact ⟨herr, rfl, hinv' _ (by omega), by simp⟩
  · rw [stepLit_full p b _ err ev (by omega) (by omega)]
    split
    · obtain ⟨h1, h2, h3⟩ := popState_spec p hst
      refine ⟨visit_safe _ _, by simp only [visit_fst]; exact h3, visit_inv _ h1, fun _ => ⟨?_, ?_⟩⟩
      · simp only [visit_fst, cost, h2, List.length_drop]; omega
      · intro _; simp only [visit_fst, cost, h2, List.length_drop]; omega
    · exact ⟨herr, rfl, hinv' _ (Nat.le_refl _), by simp⟩

/-! ## numbers -/

/-- stepNumber, called with a non-empty token so far (from `stepValue`: the input starts
with a character that is no stop character; from numberState: the buffer is not empty) -/
theorem stepNumber_ok (p : P) (b : Bytes) (hst : ∀ s ∈ p.states, isRet s = true)
    (hcs : p.currentState = .numberState)
    (hne : p.literalBuffer ≠ [] ∨ ∃ c tl, b = c :: tl ∧ isStopChar c = false) :
    Safe (stepNumber p b).err ∧ (stepNumber p b).p.err = p.err ∧ Inv (stepNumber p b).p ∧
    ((stepNumber p b).err = none →
      (((stepNumber p b).rest = [] ∧ weight (stepNumber p b).p.currentState = 1) ∨
       (weight (stepNumber p b).p.currentState = 0 ∧ (stepNumber p b).rest.length ≤ b.length ∧
         (p.literalBuffer = [] → (stepNumber p b).rest.length < b.length)))) := by
  cases hd : (scanNumber b p.isDouble).2.2.1 with
  | false =>
    rw [stepNumber_more p b hd]
    refine ⟨safe_none, rfl, ⟨hst, ?_, ?_⟩, fun _ => Or.inl ⟨rfl, ?_⟩⟩
    · simp [hcs, isLit]
    · intro _
      simp only
      rcases hne with h | ⟨c, tl, rfl, _⟩
      · intro hc; exact h (List.append_eq_nil_iff.mp hc).1
      · simp
    · simp only [hcs]; rfl
  | true =>
    rw [stepNumber_done p b hd]
    have htok : p.literalBuffer ++ (scanNumber b p.isDouble).1 ≠ [] := by
      rcases hne with h | ⟨c, tl, rfl, hc⟩
      · intro hc; exact h (List.append_eq_nil_iff.mp hc).1
      · intro h; exact scanNumber_tok_ne c tl _ hc (List.append_eq_nil_iff.mp h).2
    obtain ⟨h1, evs, nevs, h2⟩ := reportNumber_spec
      { p with isDouble := (scanNumber b p.isDouble).2.2.2, literalBuffer := [] }
      (p.literalBuffer ++ (scanNumber b p.isDouble).1) (scanNumber b p.isDouble).2.2.2 htok
    rw [h2]
    obtain ⟨h3, h4, h5⟩ := popState_spec
      { p with isDouble := (scanNumber b p.isDouble).2.2.2, literalBuffer := [], evs := evs, nevs := nevs } hst
    refine ⟨h1, h5, h3, fun _ => Or.inr ⟨h4, scanNumber_rest_le _ _, ?_⟩⟩
    intro hlb
    rcases hne with h | ⟨c, tl, rfl, hc⟩
    · exact absurd hlb h
    · have hsp := congrArg List.length (scanNumber_split (c :: tl) p.isDouble)
      have hne := scanNumber_tok_ne c tl p.isDouble hc
      have : 0 < (scanNumber (c :: tl) p.isDouble).1.length := List.length_pos_iff.mpr hne
      simp only [List.length_append] at hsp
      simp only
      omega

/-! ## strings -/

/-- summary of doString on non-empty input: no fatal outcome; only `inEscape` and the
buffer change; either the string ends in this write (something was consumed) or all input
is taken and buffered -/
theorem doString_spec (p : P) (b : Bytes) (hb : b ≠ []) :
    ∃ esc lb ref done rest err,
      doString p b = ({ p with inEscape := esc, literalBuffer := lb }, ref, done, rest, err) ∧ Safe err ∧
      (done = true → err = none ∧ rest.length < b.length) ∧
      (done = false → rest = [] ∧ (err = none → lb = p.literalBuffer ++ b)) := by
  cases b with
  | nil => exact absurd rfl hb
  | cons c tl =>
    cases hlb : p.literalBuffer with
    | nil =>
      cases hs : (scanString tl p.inEscape 0).1 with
      | none =>
        rw [doString_start_none p c tl hlb hs]
        exact ⟨_, _, _, _, _, _, rfl, safe_none, by simp, by simp⟩
      | some i =>
        rw [doString_start_some p c tl i hlb hs]
        have hp : ∀ esc, ({ p with inEscape := esc } : P) = { p with inEscape := esc, literalBuffer := [] } := by
          intro esc; cases p; simp only at hlb; subst hlb; rfl
        cases hu : unquote (tl.take i) with
        | error e =>
          simp only
          rw [hp]
          exact ⟨_, _, _, _, _, _, rfl, unquote_safe _ _ hu, by simp, by simp⟩
        | ok s' =>
          simp only
          rw [hp]
          refine ⟨_, _, _, _, _, _, rfl, safe_none, ?_, by simp⟩
          intro _
          simp only [List.length_drop, List.length_cons, true_and]
          omega
    | cons l ls =>
      cases hs : (scanString (c :: tl) p.inEscape 0).1 with
      | none =>
        rw [doString_cont_none p _ l ls hlb hs]
        exact ⟨_, _, _, _, _, _, rfl, safe_none, by simp, by simp⟩
      | some i =>
        rw [doString_cont_some p _ l ls i hlb hs]
        cases hu : unquote (ls ++ (c :: tl).take i) with
        | error e =>
          simp only
          exact ⟨_, _, _, _, _, _, rfl, unquote_safe _ _ hu, by simp, by simp⟩
        | ok s' =>
          simp only
          refine ⟨_, _, _, _, _, _, rfl, safe_none, ?_, by simp⟩
          intro _
          simp only [List.length_drop, List.length_cons, true_and]
          omega

/-- stepString (from `stepValue` with the opening quote first, or from stringState) -/
theorem stepString_ok (p : P) (b : Bytes) (hb : b ≠ []) (hst : ∀ s ∈ p.states, isRet s = true)
    (hcs : p.currentState = .stringState) :
    Safe (stepString p b).err ∧ (stepString p b).p.err = p.err ∧ Inv (stepString p b).p ∧
    ((stepString p b).err = none →
      weight (stepString p b).p.currentState = 0 ∧ (stepString p b).rest.length < b.length) := by
  obtain ⟨esc, lb, ref, done, rest, err, h, h1, h2, h3⟩ := doString_spec p b hb
  unfold stepString
  rw [h]
  cases done with
  | true =>
    obtain ⟨rfl, h2'⟩ := h2 rfl
    obtain ⟨h4, h5, h6⟩ := popState_spec { p with inEscape := esc, literalBuffer := lb } hst
    simp only [Bool.true_and, Option.isNone_none, if_true]
    refine ⟨visit_safe _ _, by rw [visit_fst]; exact h6, visit_inv _ h4, fun _ => ⟨?_, h2'⟩⟩
    rw [visit_fst]; exact h5
  | false =>
    obtain ⟨rfl, h3⟩ := h3 rfl
    simp only [Bool.false_and, Bool.false_eq_true, if_false]
    refine ⟨h1, trivial, ⟨hst, ?_, ?_⟩, fun he => ⟨?_, ?_⟩⟩
    · simp [hcs, isLit]
    · simp [hcs]
    · simp only [hcs]; rfl
    · simp only [List.length_nil]; exact List.length_pos_iff.mpr hb

/-- stepDictKey (dictFieldState) -/
theorem stepDictKey_ok (p : P) (b : Bytes) (hb : b ≠ []) (hst : ∀ s ∈ p.states, isRet s = true)
    (hcs : p.currentState = .dictFieldState) :
    Safe (stepDictKey p b).err ∧ (stepDictKey p b).p.err = p.err ∧ Inv (stepDictKey p b).p ∧
    ((stepDictKey p b).err = none →
      weight (stepDictKey p b).p.currentState = 0 ∧ (stepDictKey p b).rest.length < b.length) := by
  obtain ⟨esc, lb, ref, done, rest, err, h, h1, h2, h3⟩ := doString_spec p b hb
  unfold stepDictKey
  rw [h]
  cases done with
  | true =>
    obtain ⟨rfl, h2'⟩ := h2 rfl
    simp only [Bool.true_and, Option.isNone_none, if_true]
    refine ⟨visit_safe _ _, by rw [visit_fst], ?_, fun _ => ⟨?_, h2'⟩⟩
    · rw [visit_fst]; exact ⟨hst, by simp [isLit], by simp⟩
    · rw [visit_fst]; rfl
  | false =>
    obtain ⟨rfl, h3⟩ := h3 rfl
    simp only [Bool.false_and, Bool.false_eq_true, if_false]
    refine ⟨h1, trivial, ⟨hst, ?_, ?_⟩, fun he => ⟨?_, ?_⟩⟩
    · simp [hcs, isLit]
    · simp [hcs]
    · simp only [hcs]; rfl
    · simp only [List.length_nil]; exact List.length_pos_iff.mpr hb

/-! ## values -/

theorem pushState_ret (p : P) (ret next : St) (hret : isRet ret = true) :
    pushState { p with currentState := ret } next =
      { p with states := ret :: p.states, currentState := next } := by
  unfold pushState
  have : (ret != St.failedState) = true := by cases ret <;> simp [isRet] at hret <;> rfl
  simp only [this, if_true]

theorem stack_cons {p : P} {ret : St} (hst : ∀ s ∈ p.states, isRet s = true) (hret : isRet ret = true) :
    ∀ s ∈ ret :: p.states, isRet s = true := by
  intro s hs
  rcases List.mem_cons.mp hs with h | h
  · rw [h]; exact hret
  · exact hst s h

/-- stepValue (startState, dictFieldValue, arrStateValue): at least one byte is consumed -/
theorem stepValue_ok (p : P) (b : Bytes) (ret : St) (hb : b ≠ []) (hinv : Inv p) (hret : isRet ret = true) :
    Safe (stepValue p b ret).err ∧ (stepValue p b ret).p.err = p.err ∧ Inv (stepValue p b ret).p ∧
    ((stepValue p b ret).err = none →
      cost (stepValue p b ret).p (stepValue p b ret).rest < 2 * b.length) := by
  have hst := hinv.stack
  have hblen : 0 < b.length := List.length_pos_iff.mpr hb
  have htl := trimLeft_length_le b
  unfold stepValue
  split
  · refine ⟨safe_none, rfl, hinv, fun _ => ?_⟩
    simp only [cost, List.length_nil]; have := weight_le_one p.currentState; omega
  · rename_i c tl htr
    rw [htr] at htl
    simp only [List.length_cons] at htl
    simp only
    by_cases h1 : (c == ch '{') = true
    · rw [if_pos h1, pushState_ret p ret _ hret]
      refine ⟨visit_safe _ _, by rw [visit_fst], ?_, fun _ => ?_⟩
      · rw [visit_fst]; exact ⟨stack_cons hst hret, by simp [isLit], by simp⟩
      · rw [visit_fst]; simp only [cost, weight]; omega
    rw [if_neg h1]
    by_cases h2 : (c == ch '[') = true
    · rw [if_pos h2, pushState_ret p ret _ hret]
      refine ⟨visit_safe _ _, by rw [visit_fst], ?_, fun _ => ?_⟩
      · rw [visit_fst]; exact ⟨stack_cons hst hret, by simp [isLit], by simp⟩
      · rw [visit_fst]; simp only [cost, weight]; omega
    rw [if_neg h2]
    by_cases h3 : (c == ch 'n') = true
    · rw [if_pos h3, pushState_ret p ret _ hret]
      obtain ⟨k1, k2, k3, k4⟩ := stepLit_ok
        { p with states := ret :: p.states, currentState := .nullState, required := 3 } tl "null"
        .expectedNull .null (stack_cons hst hret) rfl (by rw [kind_null]; rfl) (by simp [kindLen])
        (by simp [Safe])
      exact ⟨k1, k2, k3, fun he => Nat.lt_of_le_of_lt (k4 he).1 (by omega)⟩
    rw [if_neg h3]
    by_cases h4 : (c == ch 'f') = true
    · rw [if_pos h4, pushState_ret p ret _ hret]
      obtain ⟨k1, k2, k3, k4⟩ := stepLit_ok
        { p with states := ret :: p.states, currentState := .falseState, required := 4 } tl "false"
        .expectedFalse (.bool false) (stack_cons hst hret) rfl (by rw [kind_false]; rfl) (by simp [kindLen])
        (by simp [Safe])
      exact ⟨k1, k2, k3, fun he => Nat.lt_of_le_of_lt (k4 he).1 (by omega)⟩
    rw [if_neg h4]
    by_cases h5 : (c == ch 't') = true
    · rw [if_pos h5, pushState_ret p ret _ hret]
      obtain ⟨k1, k2, k3, k4⟩ := stepLit_ok
        { p with states := ret :: p.states, currentState := .trueState, required := 3 } tl "true"
        .expectedTrue (.bool true) (stack_cons hst hret) rfl (by rw [kind_true]; rfl) (by simp [kindLen])
        (by simp [Safe])
      exact ⟨k1, k2, k3, fun he => Nat.lt_of_le_of_lt (k4 he).1 (by omega)⟩
    rw [if_neg h5]
    by_cases h6 : (c == ch '"') = true
    · rw [if_pos h6]
      have := pushState_ret { p with literalBuffer := [] } ret .stringState hret
      simp only at this
      rw [this]
      obtain ⟨k1, k2, k3, k4⟩ := stepString_ok
        { p with literalBuffer := [], states := ret :: p.states, currentState := .stringState, inEscape := false }
        (c :: tl) (by simp) (stack_cons hst hret) rfl
      refine ⟨k1, k2, k3, fun he => ?_⟩
      obtain ⟨k5, k6⟩ := k4 he
      simp only [cost, k5]
      simp only [List.length_cons] at k6
      omega
    rw [if_neg h6]
    by_cases h7 : (c == ch '-' || c == ch '+' || c == ch '.' || Parse.isDigit c) = true
    · have h7' : (!(c == ch '-' || c == ch '+' || c == ch '.' || Parse.isDigit c)) = false := by rw [h7]; rfl
      rw [h7']
      simp only [Bool.false_eq_true, if_false]
      have := pushState_ret { p with isDouble := false, literalBuffer := [] } ret .numberState hret
      simp only at this
      rw [this]
      obtain ⟨k1, k2, k3, k4⟩ := stepNumber_ok
        { p with isDouble := false, literalBuffer := [], states := ret :: p.states, currentState := .numberState }
        (c :: tl) (stack_cons hst hret) rfl (Or.inr ⟨c, tl, rfl, numStart_not_stop c h7⟩)
      refine ⟨k1, k2, k3, fun he => ?_⟩
      rcases k4 he with ⟨k5, k6⟩ | ⟨k5, _, k6⟩
      · simp only [cost, k5, k6, List.length_nil]; omega
      · have k6 := k6 rfl
        simp only [List.length_cons] at k6
        simp only [cost, k5]; omega
    · have h7' : (!(c == ch '-' || c == ch '+' || c == ch '.' || Parse.isDigit c)) = true := by
        simp only [Bool.not_eq_true] at h7; rw [h7]; rfl
      rw [h7']
      simp only [if_true]
      refine ⟨by simp [Safe], trivial, ⟨hst, ?_, ?_⟩, by simp⟩
      · simp [isLit_ret hret]
      · intro hc; simp only at hc; rw [hc] at hret; simp [isRet] at hret

/-! ## containers -/

/-- what a step function has to deliver (relative to the cost `c0` it starts from) -/
def StepOk (p : P) (c0 : Nat) (r : R) : Prop :=
  Safe r.err ∧ r.p.err = p.err ∧ Inv r.p ∧ (r.err = none → cost r.p r.rest < c0)

theorem endDict_ok (p : P) (c : UInt8) (tl : Bytes) (hst : ∀ s ∈ p.states, isRet s = true) :
    Safe (endDict p (c :: tl)).err ∧ (endDict p (c :: tl)).p.err = p.err ∧
    (Inv (endDict p (c :: tl)).p ∧ cost (endDict p (c :: tl)).p (endDict p (c :: tl)).rest = 2 * tl.length) := by
  obtain ⟨h1, h2, h3⟩ := popState_spec p hst
  unfold endDict
  refine ⟨visit_safe _ _, by simp only [visit_fst]; exact h3, visit_inv _ h1, ?_⟩
  simp only [visit_fst, cost, h2, List.drop_succ_cons, List.drop_zero]; omega

theorem endArray_ok (p : P) (c : UInt8) (tl : Bytes) (hst : ∀ s ∈ p.states, isRet s = true) :
    Safe (endArray p (c :: tl)).err ∧ (endArray p (c :: tl)).p.err = p.err ∧
    (Inv (endArray p (c :: tl)).p ∧ cost (endArray p (c :: tl)).p (endArray p (c :: tl)).rest = 2 * tl.length) := by
  obtain ⟨h1, h2, h3⟩ := popState_spec p hst
  unfold endArray
  refine ⟨visit_safe _ _, by simp only [visit_fst]; exact h3, visit_inv _ h1, ?_⟩
  simp only [visit_fst, cost, h2, List.drop_succ_cons, List.drop_zero]; omega

theorem stepDict_ok (p : P) (b : Bytes) (allowEnd : Bool) (hb : b ≠ []) (hinv : Inv p)
    (hw : weight p.currentState = 1) :
    StepOk p (cost p b) (stepDict p b allowEnd) := by
  have hblen : 0 < b.length := List.length_pos_iff.mpr hb
  have htl := trimLeft_length_le b
  unfold StepOk stepDict
  split
  · refine ⟨safe_none, rfl, hinv, fun _ => ?_⟩
    simp only [cost, List.length_nil, hw]; omega
  · rename_i c tl htr
    rw [htr] at htl
    simp only [List.length_cons] at htl
    simp only
    split
    · split
      · exact ⟨by simp [Safe], rfl, hinv, by simp⟩
      · obtain ⟨k1, k2, k3, k4⟩ := endDict_ok p c tl hinv.stack
        refine ⟨k1, k2, k3, fun _ => ?_⟩
        rw [k4]; simp only [cost]; omega
    · split
      · refine ⟨safe_none, rfl, ⟨hinv.stack, by simp [isLit], by simp⟩, fun _ => ?_⟩
        have e : weight St.dictFieldState = 0 := rfl
        simp only [cost, e, List.length_cons, hw]; omega
      · exact ⟨by simp [Safe], rfl, hinv, by simp⟩

theorem stepDictValueEnd_ok (p : P) (b : Bytes) (hb : b ≠ []) (hinv : Inv p) :
    StepOk p (cost p b) (stepDictValueEnd p b) := by
  have hblen : 0 < b.length := List.length_pos_iff.mpr hb
  have htl := trimLeft_length_le b
  unfold StepOk stepDictValueEnd
  split
  · refine ⟨safe_none, rfl, hinv, fun _ => ?_⟩
    simp only [cost, List.length_nil]; omega
  · rename_i c tl htr
    rw [htr] at htl
    simp only [List.length_cons] at htl
    split
    · obtain ⟨k1, k2, k3, k4⟩ := endDict_ok p c tl hinv.stack
      refine ⟨k1, k2, k3, fun _ => ?_⟩
      rw [k4]; simp only [cost]; omega
    · split
      · refine ⟨safe_none, rfl, ⟨hinv.stack, by simp [isLit], by simp⟩, fun _ => ?_⟩
        simp only [cost, weight]; omega
      · exact ⟨by simp [Safe], rfl, hinv, by simp⟩

theorem stepArray_ok (p : P) (b : Bytes) (allowEnd : Bool) (hb : b ≠ []) (hinv : Inv p)
    (hw : weight p.currentState = 1) :
    StepOk p (cost p b) (stepArray p b allowEnd) := by
  have hblen : 0 < b.length := List.length_pos_iff.mpr hb
  have htl := trimLeft_length_le b
  unfold StepOk stepArray
  split
  · refine ⟨safe_none, rfl, hinv, fun _ => ?_⟩
    simp only [cost, List.length_nil, hw]; omega
  · rename_i c tl htr
    rw [htr] at htl
    simp only [List.length_cons] at htl
    simp only
    split
    · split
      · exact ⟨by simp [Safe], rfl, hinv, by simp⟩
      · obtain ⟨k1, k2, k3, k4⟩ := endArray_ok p c tl hinv.stack
        refine ⟨k1, k2, k3, fun _ => ?_⟩
        rw [k4]; simp only [cost]; omega
    · refine ⟨safe_none, rfl, ⟨hinv.stack, by simp [isLit], by simp⟩, fun _ => ?_⟩
      have e : weight St.arrStateValue = 0 := rfl
      simp only [cost, e, List.length_cons, hw]; omega

theorem stepArrValueEnd_ok (p : P) (b : Bytes) (hb : b ≠ []) (hinv : Inv p) :
    StepOk p (cost p b) (stepArrValueEnd p b) := by
  have hblen : 0 < b.length := List.length_pos_iff.mpr hb
  have htl := trimLeft_length_le b
  unfold StepOk stepArrValueEnd
  split
  · refine ⟨safe_none, rfl, hinv, fun _ => ?_⟩
    simp only [cost, List.length_nil]; omega
  · rename_i c tl htr
    rw [htr] at htl
    simp only [List.length_cons] at htl
    split
    · obtain ⟨k1, k2, k3, k4⟩ := endArray_ok p c tl hinv.stack
      refine ⟨k1, k2, k3, fun _ => ?_⟩
      rw [k4]; simp only [cost]; omega
    · split
      · refine ⟨safe_none, rfl, ⟨hinv.stack, by simp [isLit], by simp⟩, fun _ => ?_⟩
        simp only [cost, weight]; omega
      · exact ⟨by simp [Safe], rfl, hinv, by simp⟩

/-! ## one round of feedUntil -/

/-- the fail state: the stored error (or "invalid parser state") is returned again; nothing
else changes -/
theorem execStep_failed (p : P) (b : Bytes) (h : p.currentState = .failedState) :
    (execStep p b).2 = true ∧ (execStep p b).1.rest = b ∧
    (execStep p b).1.err = (execStep p b).1.p.err ∧ (execStep p b).1.err ≠ none ∧
    ((execStep p b).1.err = p.err ∨ (p.err = none ∧ (execStep p b).1.err = some .invalidState)) ∧
    (Inv p → Inv (execStep p b).1.p) := by
  unfold execStep
  simp only [h]
  cases he : p.err with
  | none =>
    simp only [Option.isNone_none, if_true]
    refine ⟨trivial, trivial, trivial, by simp, Or.inr ⟨trivial, trivial⟩, fun hi => ⟨hi.stack, by simp [isLit], by simp⟩⟩
  | some e =>
    simp only [Option.isNone_some, Bool.false_eq_true, if_false, he]
    exact ⟨trivial, trivial, trivial, by simp, Or.inl trivial, fun hi => hi⟩

/-- ONE STEP from a state satisfying the invariant, on non-empty input: no fatal outcome,
the stored error untouched, the invariant again, and — if no error is reported — a strictly
smaller cost -/
theorem execStep_ok (p : P) (b : Bytes) (hb : b ≠ []) (hinv : Inv p) (h : p.currentState ≠ .failedState) :
    (execStep p b).2 = false ∧ StepOk p (cost p b) (execStep p b).1 := by
  have hblen : 0 < b.length := List.length_pos_iff.mpr hb
  unfold execStep
  cases hcs : p.currentState with
  | failedState => exact absurd hcs h
  | startState =>
    simp only [stepStart, hcs]
    obtain ⟨k1, k2, k3, k4⟩ := stepValue_ok p b .startState hb hinv rfl
    exact ⟨trivial, k1, k2, k3, fun he => by have := k4 he; simp only [cost] at this ⊢; omega⟩
  | dictState => exact ⟨rfl, stepDict_ok p b true hb hinv (by rw [hcs]; rfl)⟩
  | dictNextFieldState => exact ⟨rfl, stepDict_ok p b false hb hinv (by rw [hcs]; rfl)⟩
  | dictFieldState =>
    obtain ⟨k1, k2, k3, k4⟩ := stepDictKey_ok p b hb hinv.stack hcs
    refine ⟨rfl, k1, k2, k3, fun he => ?_⟩
    have := k4 he
    simp only [cost, this.1]; omega
  | dictFieldValueSep =>
    have htl := trimLeft_length_le b
    simp only
    split
    · refine ⟨rfl, safe_none, rfl, hinv, fun _ => ?_⟩
      simp only [cost, List.length_nil]; omega
    · rename_i c tl htr
      rw [htr] at htl
      simp only [List.length_cons] at htl
      refine ⟨rfl, ?_, rfl, ⟨hinv.stack, by simp [isLit], by simp⟩, fun _ => ?_⟩
      · simp only; split <;> simp [Safe]
      · have e : weight St.dictFieldValue = 0 := rfl
        simp only [cost, e]; omega
  | dictFieldValue =>
    obtain ⟨k1, k2, k3, k4⟩ := stepValue_ok p b .dictFieldStateEnd hb hinv rfl
    exact ⟨rfl, k1, k2, k3, fun he => by have := k4 he; simp only [cost] at this ⊢; omega⟩
  | dictFieldStateEnd => exact ⟨rfl, stepDictValueEnd_ok p b hb hinv⟩
  | arrState => exact ⟨rfl, stepArray_ok p b true hb hinv (by rw [hcs]; rfl)⟩
  | arrStateValue =>
    obtain ⟨k1, k2, k3, k4⟩ := stepValue_ok p b .arrStateNext hb hinv rfl
    exact ⟨rfl, k1, k2, k3, fun he => by have := k4 he; simp only [cost] at this ⊢; omega⟩
  | arrStateNext => exact ⟨rfl, stepArrValueEnd_ok p b hb hinv⟩
  | nullState =>
    obtain ⟨k1, k2, k3, k4⟩ := stepLit_ok p b "null" .expectedNull .null hinv.stack (by rw [hcs]; rfl)
      (by rw [kind_null, hcs]; rfl) (hinv.lit (by rw [hcs]; rfl)) (by simp [Safe])
    refine ⟨rfl, k1, k2, k3, fun he => ?_⟩
    have := (k4 he).2 hb
    simp only [cost, hcs, weight] at this ⊢
    exact this
  | trueState =>
    obtain ⟨k1, k2, k3, k4⟩ := stepLit_ok p b "true" .expectedTrue (.bool true) hinv.stack (by rw [hcs]; rfl)
      (by rw [kind_true, hcs]; rfl) (hinv.lit (by rw [hcs]; rfl)) (by simp [Safe])
    refine ⟨rfl, k1, k2, k3, fun he => ?_⟩
    have := (k4 he).2 hb
    simp only [cost, hcs, weight] at this ⊢
    exact this
  | falseState =>
    obtain ⟨k1, k2, k3, k4⟩ := stepLit_ok p b "false" .expectedFalse (.bool false) hinv.stack (by rw [hcs]; rfl)
      (by rw [kind_false, hcs]; rfl) (hinv.lit (by rw [hcs]; rfl)) (by simp [Safe])
    refine ⟨rfl, k1, k2, k3, fun he => ?_⟩
    have := (k4 he).2 hb
    simp only [cost, hcs, weight] at this ⊢
    exact this
  | stringState =>
    obtain ⟨k1, k2, k3, k4⟩ := stepString_ok p b hb hinv.stack hcs
    refine ⟨rfl, k1, k2, k3, fun he => ?_⟩
    have := k4 he
    simp only [cost, this.1]; omega
  | numberState =>
    obtain ⟨k1, k2, k3, k4⟩ := stepNumber_ok p b hinv.stack hcs (Or.inl (hinv.num hcs))
    refine ⟨rfl, k1, k2, k3, fun he => ?_⟩
    have e : weight St.numberState = 1 := rfl
    rcases k4 he with ⟨k5, k6⟩ | ⟨k5, k6, _⟩
    · simp only [cost, k5, k6, hcs, e, List.length_nil]; omega
    · simp only [cost, k5, hcs, e]; omega

end SF.Json.ParseP
