/-
  UBJSON parser mirror (SF/Ubjson/Parse.lean) — final property theorems for

  (1) C02, CHUNK INDEPENDENCE: for EVERY byte string, EVERY way of cutting it into chunks (empty
      chunks and single bytes included) and EVERY visitor fault index, `Write` per chunk followed
      by end of input (`writeChunks` = `ParseReader`) delivers the same events and returns the
      same verdict — the same error VALUE — as `Parse` on the whole byte string; on success the
      two final parser states are identical.  From `init k` and from every state reachable by
      successful `Write`s (`Reach`).
      THE ONLY SIDE CONDITION IS ABOUT THE MODEL'S FUEL: neither run reports `outOfFuel`.  It
      cannot be dropped (counterexample below): `fuelFor` is granted per `feedUntil` call, so a
      typed array with a payload-free element type (`[$Z#l…`: `count` events from a dozen
      bytes — the recorded finding of C03) can exhaust the fuel of one chunking and not of
      another.  The Go code has no fuel; every fuel-free statement below (`execStep_split`,
      `runs_split`) is unconditional.
  (2) C16, VISITOR ERRORS: for EVERY byte string, chunking and fault index `k`: the parser
      either delivers at most `k` events and returns no visitor error, or it returns THE
      VISITOR'S error and event `k` is the last event delivered.

  Helper lemmas: SF/Proofs/UbjChunk{Collect,SplitA,SplitB,SplitC,Run,Fault}.lean.
-/
import SF.Proofs.UbjChunkRun
import SF.Proofs.UbjChunkFault
set_option linter.unusedSimpArgs false
set_option linter.unusedVariables false
namespace SF.Props.UbjChunk
open SF SF.Ubjson SF.Ubjson.Parse SF.Ubjson.Chunk
open StateType StateStep

/-! ## (1) C02 — chunk independence -/

/-- the fuel-free core, one step: `SF.Ubjson.Chunk.execStep_split` -/
theorem step_split (p : P) (a : Bytes) (hI : Inv p) (hm : More p a) : Split p a := execStep_split p a hI hm

/-- the token buffer: cutting the input of `collect` at ANY point changes nothing, whatever the
buffer holds -/
theorem collect_resume (buf a b : Bytes) (n : Nat) :
    collect buf (a ++ b) n =
      match collect buf a n with
      | (buf1, rest1, some t) => (buf1, rest1 ++ b, some t)
      | (buf1, _, none) => collect buf1 b n := SF.Ubjson.Chunk.collect_resume buf a b n

/-- SPLIT LAW at the level of `feedAll` (the body of `Write` and of `Parse`): feeding `a ++ b`
is feeding `a` and then `b` to the resulting parser — same verdict (same error value), same
events, and without error the very same parser state (buffer, pending marker, stacks).  From
every invariant state, with any visitor; unless one of the three runs exhausts the fuel. -/
theorem feedAll_split (p : P) (a b : Bytes) (hI : CI p) (hp : pending p = false)
    (h1 : (feedAll p a).2 ≠ some .outOfFuel) (h2 : (feedAll p (a ++ b)).2 ≠ some .outOfFuel)
    (h3 : (feedAll (feedAll p a).1 b).2 ≠ some .outOfFuel) :
    match feedAll p a with
    | (p1, some e) => (feedAll p (a ++ b)).2 = some e ∧ (feedAll p (a ++ b)).1.evs = p1.evs
    | (p1, none) =>
        CI p1 ∧ pending p1 = false ∧
        (feedAll p (a ++ b)).2 = (feedAll p1 b).2 ∧
        (feedAll p (a ++ b)).1.evs = (feedAll p1 b).1.evs ∧
        ((feedAll p1 b).2 = none → (feedAll p (a ++ b)).1 = (feedAll p1 b).1) := by
  have hr := feedAll_runs p a hI (Or.inr hp) h1
  have hw := feedAll_runs p (a ++ b) hI (Or.inr hp) h2
  obtain ⟨s1, s2⟩ := runs_split hr b hI
  rcases hfa : feedAll p a with ⟨p1, _ | e⟩
  · rw [hfa] at hr s1 s2 h3
    simp only [] at h3 ⊢
    obtain ⟨hI1, hnp1, _⟩ := hr.inv hI rfl
    have hr2 := feedAll_runs p1 b hI1 (Or.inr hnp1) h3
    obtain ⟨p2', k1, k2, k3⟩ := s2 rfl _ _ hr2
    obtain ⟨d1, d2⟩ := Runs.det hw k1
    exact ⟨hI1, hnp1, d2, by rw [d1]; exact k2, fun h => by rw [d1]; exact k3 h⟩
  · rw [hfa] at hr s1
    simp only []
    obtain ⟨p1', k1, k2⟩ := s1 e rfl
    obtain ⟨d1, d2⟩ := Runs.det hw k1
    exact ⟨d2, by rw [d1]; exact k2⟩

/-- non-vacuity of the split law: a cut inside the 2-byte count of a counted array, after its
length marker: the marker is kept in `p.marker`, one byte in the buffer -/
example : (feedAll {} [0x5b, 0x23, 0x49, 0x00]).2 = none ∧
    (feedAll {} [0x5b, 0x23, 0x49, 0x00]).1.marker = int16Marker ∧ (feedAll {} [0x5b, 0x23, 0x49, 0x00]).1.buffer = [0x00] ∧
    feedAll {} ([0x5b, 0x23, 0x49, 0x00] ++ [0x02, 0x5a, 0x54]) = feedAll (feedAll {} [0x5b, 0x23, 0x49, 0x00]).1 [0x02, 0x5a, 0x54] ∧
    (feedAll {} ([0x5b, 0x23, 0x49, 0x00] ++ [0x02, 0x5a, 0x54])).1.evs = [.arrEnd, .bool true, .null, .arrStart 2 BT.any] := by
  decide +kernel

/-- the `Write` calls of `writeChunks`, without the final end-of-input check -/
def feedChunks (p : P) : List Bytes → P × Option Err
  | [] => (p, none)
  | c :: cs =>
    match write p c with
    | (q, some e) => (q, some e)
    | (q, none) => feedChunks q cs

theorem writeChunks_eq (p : P) (cs : List Bytes) :
    writeChunks p cs = match feedChunks p cs with
      | (q, some e) => (q, some e)
      | (q, none) => finalize q := by
  induction cs generalizing p with
  | nil => rfl
  | cons c cs ih =>
    simp only [writeChunks, feedChunks]
    rcases write p c with ⟨q, _ | e⟩
    · exact ih q
    · rfl

theorem err_none_eta (p : P) (h : p.err = none) : { p with err := none } = p := by
  cases p; simp_all

theorem pending_congr {p q : P} (hs : q.state = p.state) (hl : q.length = p.length) : pending q = pending p := by
  simp only [pending, hs, hl]

/-- all `Write`s together compute the big-step relation on the concatenated input -/
theorem feedChunks_runs (cs : List Bytes) (p : P) (hI : CI p) (he : p.err = none) (hp : pending p = false)
    (hne : (feedChunks p cs).2 ≠ some .outOfFuel) :
    ∃ p'', Runs p cs.flatten p'' (feedChunks p cs).2 ∧ p''.evs = (feedChunks p cs).1.evs ∧
      ((feedChunks p cs).2 = none → p'' = (feedChunks p cs).1 ∧ p''.err = none) := by
  induction cs generalizing p with
  | nil =>
    refine ⟨p, Runs.stop ?_, rfl, fun _ => ⟨rfl, he⟩⟩
    rintro (h | h)
    · exact h rfl
    · rw [hp] at h; cases h
  | cons c cs ih =>
    simp only [feedChunks, write, List.flatten_cons] at hne ⊢
    have hfa : (feedAll p c).2 ≠ some .outOfFuel := by
      intro hc
      rcases hf : feedAll p c with ⟨q, e⟩
      rw [hf] at hc hne
      simp only at hc
      subst hc
      simp at hne
    have hr := feedAll_runs p c hI (Or.inr hp) hfa
    obtain ⟨s1, s2⟩ := runs_split hr cs.flatten hI
    rcases hf : feedAll p c with ⟨q, _ | e⟩
    · rw [hf] at hr s1 s2 hne
      simp only [] at hr s1 s2 hne ⊢
      obtain ⟨hIq, hpq, heq⟩ := hr.inv hI rfl
      have heq' : q.err = none := heq.trans he
      rw [err_none_eta q heq'] at hne ⊢
      obtain ⟨p'', k1, k2, k3⟩ := ih q hIq heq' hpq hne
      obtain ⟨p2', j1, j2, j3⟩ := s2 trivial _ _ k1
      refine ⟨p2', j1, j2.trans k2, fun h => ?_⟩
      obtain ⟨k3a, k3b⟩ := k3 h
      have := j3 h
      exact ⟨this.trans k3a, by rw [this]; exact k3b⟩
    · rw [hf] at hr s1
      simp only [] at hr s1 ⊢
      obtain ⟨p1', j1, j2⟩ := s1 e rfl
      exact ⟨p1', j1, j2, fun h => by cases h⟩

/-- `finalize` does not touch the stored error -/
theorem finalizeLoop_perr (n : Nat) (p : P) : (finalizeLoop n p).1.err = p.err := by
  induction n generalizing p with
  | zero => simp only [finalizeLoop]; split <;> rfl
  | succ n ih =>
    simp only [finalizeLoop]
    split
    · rfl
    · have hclose : ∀ e : Ev, (match visit p e with
          | (q, some err) => (q, some err)
          | (q, none) =>
            finalizeLoop n (popLenState
              (if (p.state.current.type == stArrayTyped || p.state.current.type == stObjectTyped) = true
                then popValueState q else q)).1).1.err = p.err := by
        intro e
        simp only [visit_eq]
        rcases verr_cases p with h | h <;> rw [h] <;> simp only []
        · rw [ih]
          split <;> rfl
        · rfl
      split
      · split
        · rfl
        · exact hclose _
      · split
        · rfl
        · exact hclose _
      · split
        · rfl
        · exact hclose _
      · split
        · rfl
        · exact hclose _
      · rfl

theorem finalize_perr (p : P) : (finalize p).1.err = p.err := by
  unfold finalize
  have := finalizeLoop_perr p.state.stack.length p
  rcases hf : finalizeLoop p.state.stack.length p with ⟨q, e⟩
  rw [hf] at this
  cases e with
  | some e => exact this
  | none => simp only []; split <;> exact this

/-- C02 for the UBJSON parser, general form: from EVERY parser state satisfying the invariant
`CI` (= the no-panic invariant `Inv` and the shape invariant `G` of C03) with no stored error
and nothing pending, with ANY visitor fault index: unless one of the two runs exhausts the
model's fuel, writing the chunks `cs` one by one and then signalling end of input reports the
same events and returns the same verdict (the same error value) as parsing their concatenation
at once; when the verdict is "no error" the two final parser states are identical. -/
theorem chunk_independent_ci (cs : List Bytes) (p : P) (hI : CI p) (he : p.err = none)
    (hp : pending p = false)
    (h1 : (writeChunks p cs).2 ≠ some .outOfFuel) (h2 : (parse p cs.flatten).2 ≠ some .outOfFuel) :
    (writeChunks p cs).1.evs = (parse p cs.flatten).1.evs ∧
    (writeChunks p cs).2 = (parse p cs.flatten).2 ∧
    ((writeChunks p cs).2 = none → (writeChunks p cs).1 = (parse p cs.flatten).1) := by
  rw [writeChunks_eq] at h1 ⊢
  have hfc : (feedChunks p cs).2 ≠ some .outOfFuel := by
    intro hc
    rcases hf : feedChunks p cs with ⟨q, e⟩
    rw [hf] at hc h1
    simp only at hc
    subst hc
    simp at h1
  have hfa : (feedAll p cs.flatten).2 ≠ some .outOfFuel := by
    intro hc
    unfold parse at h2
    rcases hf : feedAll p cs.flatten with ⟨q, e⟩
    rw [hf] at hc h2
    simp only at hc
    subst hc
    simp at h2
  obtain ⟨p'', k1, k2, k3⟩ := feedChunks_runs cs p hI he hp hfc
  have hw := feedAll_runs p cs.flatten hI (Or.inr hp) hfa
  obtain ⟨d1, d2⟩ := Runs.det hw k1
  unfold parse
  rcases hfc' : feedChunks p cs with ⟨qc, ec⟩
  rcases hfa' : feedAll p cs.flatten with ⟨qa, ea⟩
  rw [hfc'] at k2 k3 d2
  rw [hfa'] at d1 d2
  simp only at k2 k3 d1 d2
  subst d2
  cases ea with
  | some e =>
    simp only []
    exact ⟨by rw [← k2, d1], trivial, fun h => by cases h⟩
  | none =>
    simp only []
    obtain ⟨k3a, k3b⟩ := k3 rfl
    have hq : qc = qa := by rw [← k3a, d1]
    subst hq
    have hqe : qc.err = none := by rw [← k3a]; exact k3b
    rcases hfin : finalize qc with ⟨q', e'⟩
    simp only []
    refine ⟨trivial, trivial, fun h => ?_⟩
    subst h
    have := finalize_perr qc
    rw [hfin, hqe] at this
    exact (err_none_eta q' this).symm

/-- C02 for the UBJSON parser: for EVERY byte string and EVERY chunking, with ANY visitor
fault index `k`: `Write` per chunk + end of input (`ParseReader`) = `Parse` of the
concatenation — same events, same verdict (error value); unless the model's fuel runs out -/
theorem ubj_chunk_independent (k : Option Nat) (cs : List Bytes)
    (h1 : (writeChunks (init k) cs).2 ≠ some .outOfFuel) (h2 : (parse (init k) cs.flatten).2 ≠ some .outOfFuel) :
    (writeChunks (init k) cs).1.evs = (parse (init k) cs.flatten).1.evs ∧
    (writeChunks (init k) cs).2 = (parse (init k) cs.flatten).2 ∧
    ((writeChunks (init k) cs).2 = none → (writeChunks (init k) cs).1 = (parse (init k) cs.flatten).1) :=
  chunk_independent_ci cs (init k) (ci_init k) rfl rfl h1 h2

/-- … in particular from the zero-value parser `{}` (= `init none`, a visitor that never fails) -/
theorem ubj_chunk_independent_default (cs : List Bytes)
    (h1 : (writeChunks {} cs).2 ≠ some .outOfFuel) (h2 : (parse {} cs.flatten).2 ≠ some .outOfFuel) :
    (writeChunks {} cs).1.evs = (parse {} cs.flatten).1.evs ∧
    (writeChunks {} cs).2 = (parse {} cs.flatten).2 ∧
    ((writeChunks {} cs).2 = none → (writeChunks {} cs).1 = (parse {} cs.flatten).1) :=
  ubj_chunk_independent none cs h1 h2

/-- … hence any two chunkings of the same bytes are indistinguishable -/
theorem ubj_chunkings_agree (k : Option Nat) (cs₁ cs₂ : List Bytes) (h : cs₁.flatten = cs₂.flatten)
    (h1 : (writeChunks (init k) cs₁).2 ≠ some .outOfFuel) (h2 : (writeChunks (init k) cs₂).2 ≠ some .outOfFuel)
    (h3 : (parse (init k) cs₁.flatten).2 ≠ some .outOfFuel) :
    (writeChunks (init k) cs₁).1.evs = (writeChunks (init k) cs₂).1.evs ∧
    (writeChunks (init k) cs₁).2 = (writeChunks (init k) cs₂).2 := by
  have a1 := ubj_chunk_independent k cs₁ h1 h3
  have a2 := ubj_chunk_independent k cs₂ h2 (by rw [← h]; exact h3)
  rw [h] at a1
  exact ⟨a1.1.trans a2.1.symm, a1.2.1.trans a2.2.1.symm⟩

/-! ### from any reachable parser state -/

/-- the parser states reachable from a fresh parser (any visitor fault index) by successful
`Write` calls with arbitrary arguments -/
inductive Reach : P → Prop
  | init (k : Option Nat) : Reach (Parse.init k)
  | write {p : P} (c : Bytes) : Reach p → (Parse.write p c).2 = none → Reach (Parse.write p c).1

/-- a successful `Write` from an invariant state leads to an invariant state -/
theorem ci_write (p : P) (c : Bytes) (hI : CI p) (he : p.err = none) (hp : pending p = false)
    (hw : (write p c).2 = none) :
    CI (write p c).1 ∧ (write p c).1.err = none ∧ pending (write p c).1 = false := by
  unfold write at hw ⊢
  rcases hf : feedAll p c with ⟨q, _ | e⟩
  · simp only []
    have hr := feedAll_runs p c hI (Or.inr hp) (by rw [hf]; simp)
    rw [hf] at hr
    obtain ⟨i1, i2, i3⟩ := hr.inv hI rfl
    exact ⟨i1.congr rfl rfl rfl rfl (by simp), trivial, (pending_congr rfl rfl).trans i2⟩
  · rw [hf] at hw; simp at hw

theorem Reach.ci {p : P} (h : Reach p) : CI p ∧ p.err = none ∧ pending p = false := by
  induction h with
  | init k => exact ⟨ci_init k, rfl, rfl⟩
  | write c _ hw ih => exact ci_write _ c ih.1 ih.2.1 ih.2.2 hw

/-- C02 from EVERY REACHABLE STATE (mid-document, inside any nesting of containers, with a
partially received token parked in the buffer or a length marker pending): the rest of the
stream may be chunked in any way.  When no error is reported the final parser states coincide. -/
theorem ubj_chunk_independent_reach (p : P) (h : Reach p) (cs : List Bytes)
    (h1 : (writeChunks p cs).2 ≠ some .outOfFuel) (h2 : (parse p cs.flatten).2 ≠ some .outOfFuel) :
    (writeChunks p cs).1.evs = (parse p cs.flatten).1.evs ∧
    (writeChunks p cs).2 = (parse p cs.flatten).2 ∧
    ((writeChunks p cs).2 = none → (writeChunks p cs).1 = (parse p cs.flatten).1) :=
  chunk_independent_ci cs p h.ci.1 h.ci.2.1 h.ci.2.2 h1 h2

/-! ### the fuel side condition, a posteriori: fewer than a million events -/

/-- `Parse` from any state satisfying the shape invariant can only run out of fuel after a
million events (less one per byte received) — C03 no-hang, restated for `init k` -/
theorem parse_outOfFuel_events (p : P) (hg : G p) (b : Bytes) (h : (parse p b).2 = some .outOfFuel) :
    1000000 ≤ (parse p b).1.evs.length + b.length + p.buffer.length := by
  unfold parse feedAll at h ⊢
  rw [feed_eq_feedG] at h ⊢
  have key := feedG_hang_events p b hg
  generalize hf : feedG fuelFor (2 * b.length + 2) p b = res at h key ⊢
  obtain ⟨q, e⟩ := res
  cases e with
  | none =>
    simp only [] at h
    have := finalize_no_fuel q
    rcases hq : finalize q with ⟨q', e'⟩
    rw [hq] at h this
    simp only [] at h this
    exact absurd h this
  | some e =>
    simp only [] at h ⊢
    have he : e = .outOfFuel := by simpa using h
    subst he
    have := key rfl
    simp only [] at this
    exact this

/-- C02 with a DECIDABLE side condition on the two outcomes: if each run delivered fewer than
`1000000 - |input|` events, the fuel did not run out, hence they agree -/
theorem ubj_chunk_independent_small (k : Option Nat) (cs : List Bytes)
    (h1 : (writeChunks (init k) cs).1.evs.length + cs.flatten.length < 1000000)
    (h2 : (parse (init k) cs.flatten).1.evs.length + cs.flatten.length < 1000000) :
    (writeChunks (init k) cs).1.evs = (parse (init k) cs.flatten).1.evs ∧
    (writeChunks (init k) cs).2 = (parse (init k) cs.flatten).2 := by
  have a1 : (writeChunks (init k) cs).2 ≠ some .outOfFuel := by
    intro hc
    have := writeChunks_hang cs (init k) (g_init k) hc
    have hb : (init k).buffer.length = 0 := rfl
    omega
  have a2 : (parse (init k) cs.flatten).2 ≠ some .outOfFuel := by
    intro hc
    have := parse_outOfFuel_events (init k) (g_init k) cs.flatten hc
    have hb : (init k).buffer.length = 0 := rfl
    omega
  exact ⟨(ubj_chunk_independent k cs a1 a2).1, (ubj_chunk_independent k cs a1 a2).2.1⟩

/-! ### non-vacuity -/

/-- `{#i1 i1 "a" [$i#i2 1 2` — a typed array inside a counted object -/
def doc : Bytes := [0x7b, 0x23, 0x69, 0x01, 0x69, 0x01, 0x61, 0x5b, 0x24, 0x69, 0x23, 0x69, 0x02, 0x01, 0x02]

/-- a document with multi-byte tokens: `[#I 0x0002  S I 0x0003 "abc"  D <8 bytes>` -/
def doc2 : Bytes := [0x5b, 0x23, 0x49, 0x00, 0x02, 0x53, 0x49, 0x00, 0x03, 0x61, 0x62, 0x63,
  0x44, 0x3f, 0xf8, 0, 0, 0, 0, 0, 0]

/-- all two-way cuts of a byte string -/
def cuts (b : Bytes) : List (List Bytes) := (List.range (b.length + 1)).map fun i => [b.take i, b.drop i]

/-- the statement's instance for `doc` cut at EVERY position (16 cuts), and cut into single
bytes with empty chunks in between; the document is accepted with 6 events -/
example : (cuts doc).all (fun cs => decide (writeChunks {} cs = parse {} doc)) = true ∧
    writeChunks {} (doc.flatMap fun x => [[x], []]) = parse {} doc ∧
    (parse {} doc).2 = none ∧
    events (parse {} doc).1 = [.objStart 1 BT.any, .key [0x61], .arrStart 2 BT.int8, .num .i8 1, .num .i8 2, .arrEnd,
      .objEnd] := by
  decide +kernel

/-- the fuel hypotheses hold on these instances -/
example : (cuts doc).all (fun cs => decide ((writeChunks (init none) cs).2 ≠ some .outOfFuel)) = true ∧
    (parse (init none) doc).2 ≠ some .outOfFuel := by
  decide +kernel

/-- … for `doc2` (cuts inside the 2-byte count, the 2-byte string length, the string, the
float) -/
example : (cuts doc2).all (fun cs => decide (writeChunks {} cs = parse {} doc2)) = true ∧
    writeChunks {} (doc2.map fun x => [x]) = parse {} doc2 ∧ (parse {} doc2).2 = none := by
  decide +kernel

/-- … invalid and truncated input: the same error value either way -/
example : (cuts (doc.take 12)).all (fun cs => decide ((writeChunks {} cs).2 = some .missingArrEnd)) = true ∧
    (parse {} (doc.take 12)).2 = some .missingArrEnd ∧
    (cuts (doc.take 14)).all (fun cs => decide ((writeChunks {} cs).2 = some .incomplete)) = true ∧
    (parse {} (doc.take 14)).2 = some .incomplete ∧
    (cuts [0x5b, 0x24, 0x4e, 0x23]).all (fun cs => decide ((writeChunks {} cs).2 = some .unknownMarker)) = true ∧
    (parse {} [0x5b, 0x24, 0x4e, 0x23]).2 = some .unknownMarker := by
  decide +kernel

/-- … with a failing visitor (fault index in the middle of the typed array) -/
example : (cuts doc).all (fun cs => decide ((writeChunks (init (some 3)) cs).2 = some .visitor ∧
      (writeChunks (init (some 3)) cs).1.evs = (parse (init (some 3)) doc).1.evs)) = true ∧
    (parse (init (some 3)) doc).1.evs.length = 4 := by
  decide +kernel

/-- a reachable mid-document state: inside the typed array, the count's marker read, nothing
pending; the hypotheses of `chunk_independent_ci` hold there -/
example : Reach (write {} (doc.take 11)).1 := Reach.write (doc.take 11) (Reach.init none) (by decide +kernel)
example : (write {} (doc.take 11)).1.state.stack.length = 2 ∧
    writeChunks (write {} (doc.take 11)).1 [[0x69], [], [0x02, 0x01], [0x02]] = parse (write {} (doc.take 11)).1 (doc.drop 11) ∧
    (parse (write {} (doc.take 11)).1 (doc.drop 11)).2 = none := by
  decide +kernel

/-
  THE FUEL SIDE CONDITION CANNOT BE DROPPED.  Counterexample (evaluated with `#eval`, 20 s in the
  interpreter, therefore not part of the build): `[$Z#l 00 0f 42 5e` — a typed array of
  1000030 nulls, 9 bytes —

      def d : Bytes := [0x5b, 0x24, 0x5a, 0x23, 0x6c, 0x00, 0x0f, 0x42, 0x5e]
      #eval (parse {} d).2                                          -- none
      #eval (parse {} d).1.evs.length                               -- 1000032
      #eval (writeChunks {} [d.take 8, d.drop 8]).2                 -- some outOfFuel
      #eval (writeChunks {} [d.take 8, d.drop 8]).1.evs.length      -- 1000004

  The whole-buffer run gets `fuelFor d = 8·9 + 2000000` iterations for its single `feedUntil`
  call and needs 2·1000030 + 7; the chunked run enters the element loop in the `feedUntil`
  call of the 1-byte chunk with `8·1 + 2000000` iterations, 2·28 too few.  Conversely (hence BOTH
  hypotheses are needed), two such arrays in one document exhaust the whole-buffer run only:

      def arr : Bytes := [0x5b, 0x24, 0x5a, 0x23, 0x6c, 0x00, 0x09, 0x27, 0xc0]      -- 600000 nulls
      #eval (parse {} ([0x5b] ++ arr ++ arr ++ [0x5d])).2                            -- some outOfFuel
      #eval (writeChunks {} [[0x5b] ++ arr, arr ++ [0x5d]]).2                        -- none (1200006 events)

  This is an artefact of the mirror's fuel — the Go loop has none — and the intended statement

      ∀ k cs, writeChunks (init k) cs ≃ parse (init k) cs.flatten          (no side condition)

  is FALSE for the mirror as it stands; `ubj_chunk_independent` is its strongest true variant,
  `runs_split` / `step_split` its fuel-free content.
-/

/-! ## (2) C16 — visitor errors -/

open SF.Ubjson.Fault

/-- the visitor has not failed yet: at most k events delivered (fault index k) -/
def NoFault (p : P) : Prop := ∀ k, p.failAt = some k → p.evs.length ≤ k

/-- the visitor has just failed: exactly k+1 events delivered -/
def Stopped (p : P) : Prop := ∃ k, p.failAt = some k ∧ p.evs.length = k + 1

/-- outcome of a computation that started with `NoFault`: either still no fault and the error
(if any) is not the visitor's, or the visitor's error with delivery stopped right there -/
def GoodOut (q : P) (err : Option Err) : Prop :=
  (err ≠ some .visitor ∧ NoFault q) ∨ (err = some .visitor ∧ Stopped q)

theorem nf_of {p : P} (h : NoFault p) (he : p.err ≠ some .visitor) : NF p.failAt p := ⟨rfl, h, he⟩

theorem goodOut_of {fa : Option Nat} {q : P} {e : Option Err} (h : Fault.GoodOut fa q e) :
    GoodOut q e ∧ q.failAt = fa := by
  rcases h with ⟨h1, h2⟩ | ⟨h1, h2⟩
  · exact ⟨Or.inl ⟨h1, fun k hk => h2.2.1 k (h2.1.symm.trans hk)⟩, h2.1⟩
  · obtain ⟨hf, k, hk, hl⟩ := h2
    exact ⟨Or.inr ⟨h1, k, hf.trans hk, hl⟩, hf⟩

/-- ONE STEP under a possibly failing visitor: starting without a fault, either no fault
occurred (and any error is the parser's own), or the visitor failed, the step returned THE
VISITOR'S error, and exactly the failing event was the last one delivered -/
theorem execStep_returns_visitor_error (p : P) (b : Bytes) (h : NoFault p) (he : p.err ≠ some .visitor) :
    GoodOut (execStep p b).p (execStep p b).err ∧ (execStep p b).p.failAt = p.failAt :=
  goodOut_of (execStep_good p b (nf_of h he))

/-- C16 for the UBJSON parser, general form: from EVERY state in which the visitor has not
failed yet, for EVERY chunking: `Write*` + end of input either never reaches the failing event
(and any error is the parser's own), or returns THE VISITOR'S error with the failing event the
last one delivered; the fault index is never touched -/
theorem writeChunks_returns_visitor_error (cs : List Bytes) (p : P) (h : NoFault p)
    (he : p.err ≠ some .visitor) :
    GoodOut (writeChunks p cs).1 (writeChunks p cs).2 ∧ (writeChunks p cs).1.failAt = p.failAt :=
  goodOut_of (writeChunks_good cs p (nf_of h he))

/-- … and `Parse` / `ParseString` -/
theorem parse_returns_visitor_error (b : Bytes) (p : P) (h : NoFault p) (he : p.err ≠ some .visitor) :
    GoodOut (parse p b).1 (parse p b).2 ∧ (parse p b).1.failAt = p.failAt :=
  goodOut_of (parse_good p b (nf_of h he))

theorem goodOut_cases {q : P} {e : Option Err} {k : Nat} (h : GoodOut q e) (hk : q.failAt = some k) :
    (e ≠ some .visitor ∧ q.evs.length ≤ k) ∨ (e = some .visitor ∧ q.evs.length = k + 1) := by
  rcases h with ⟨h1, h2⟩ | ⟨h1, k', h2, h3⟩
  · exact Or.inl ⟨h1, h2 k hk⟩
  · rw [hk] at h2; injection h2 with h2; subst h2
    exact Or.inr ⟨h1, h3⟩

theorem noFault_init (k : Option Nat) : NoFault (init k) := fun k' _ => by simp [init]

/-- C16 for the UBJSON parser, `Parse`: for EVERY byte string (valid or not) and EVERY fault
index k — with a visitor that returns an error from its k-th event on, `ubjson.Parse` either
never reached event k (at most k events delivered, and any error is the parser's own), or it
returns THE VISITOR'S error and event k is the last event delivered: nothing of the document
reaches the visitor after its error -/
theorem ubj_parser_returns_visitor_error (k : Nat) (b : Bytes) :
    ((parse (init (some k)) b).2 ≠ some .visitor ∧ (parse (init (some k)) b).1.evs.length ≤ k) ∨
    ((parse (init (some k)) b).2 = some .visitor ∧ (parse (init (some k)) b).1.evs.length = k + 1) := by
  have h := parse_returns_visitor_error b (init (some k)) (noFault_init _) (by simp [init])
  exact goodOut_cases h.1 h.2

/-- … and `Write*` + end of input (`ParseReader`), EVERY chunking -/
theorem ubj_writeChunks_returns_visitor_error (k : Nat) (cs : List Bytes) :
    ((writeChunks (init (some k)) cs).2 ≠ some .visitor ∧ (writeChunks (init (some k)) cs).1.evs.length ≤ k) ∨
    ((writeChunks (init (some k)) cs).2 = some .visitor ∧ (writeChunks (init (some k)) cs).1.evs.length = k + 1) := by
  have h := writeChunks_returns_visitor_error cs (init (some k)) (noFault_init _) (by simp [init])
  exact goodOut_cases h.1 h.2

/-- … from every reachable state (mid-document): the events delivered so far count -/
theorem ubj_writeChunks_returns_visitor_error_reach (p : P) (hr : Reach p) (h : NoFault p) (k : Nat)
    (hk : p.failAt = some k) (cs : List Bytes) :
    ((writeChunks p cs).2 ≠ some .visitor ∧ (writeChunks p cs).1.evs.length ≤ k) ∨
    ((writeChunks p cs).2 = some .visitor ∧ (writeChunks p cs).1.evs.length = k + 1) := by
  have h := writeChunks_returns_visitor_error cs p h (by rw [hr.ci.2.1]; simp)
  exact goodOut_cases h.1 (h.2.trans hk)

/-- with no fault index the visitor never fails: no visitor error, ever -/
theorem ubj_no_visitor_error (cs : List Bytes) : (writeChunks (init none) cs).2 ≠ some .visitor := by
  have h := writeChunks_returns_visitor_error cs (init none) (noFault_init _) (by simp [init])
  rcases h.1 with ⟨h1, _⟩ | ⟨_, k, h2, _⟩
  · exact h1
  · rw [h.2] at h2; cases h2

/-- non-vacuity: the visitor fails at its 4th event (index 3, the first element of the typed
array inside the counted object): the error is the visitor's, 4 events were delivered — whole
and byte by byte; a fault index beyond the document (7 events) is never reached -/
example : (parse (init (some 3)) doc).2 = some .visitor ∧ (parse (init (some 3)) doc).1.evs.length = 4 ∧
    (writeChunks (init (some 3)) (doc.map fun x => [x])).2 = some .visitor ∧
    (writeChunks (init (some 3)) (doc.map fun x => [x])).1.evs.length = 4 ∧
    (parse (init (some 7)) doc).2 = none ∧ (parse (init (some 7)) doc).1.evs.length = 7 ∧
    (parse (init (some 6)) doc).2 = some .visitor ∧ (parse (init (some 6)) doc).1.evs.length = 7 := by
  decide +kernel

/-- … on truncated input (2 events, then the end-of-input check fails): the parser's own error is
reported unchanged as long as the visitor has not failed; a fault index within the 2 events wins -/
example : (parse (init (some 9)) (doc.take 12)).2 = some .missingArrEnd ∧
    (parse (init (some 2)) (doc.take 12)).2 = some .missingArrEnd ∧
    (parse (init (some 1)) (doc.take 12)).2 = some .visitor ∧
    (parse (init (some 1)) (doc.take 12)).1.evs.length = 2 := by
  decide +kernel

end SF.Props.UbjChunk
