/-
  C03 helper lemmas (UBJSON): stepString, stepArrayInit, stepArrayDyn.
-/
import SF.Proofs.UbjNoPanicFixed
namespace SF.Ubjson.Parse
open SF SF.Ubjson
open StateType StateStep

/-! ### stepString -/

def strFin (p : P) (b : Bytes) (done : Bool) (err : Option Err) : R :=
  if done && err.isNone then
    let (p, d) := popLenState p
    { p := p, rest := b, done := d }
  else { p := p, rest := b, done := done, err := err }

def strWithLen (p : P) (b : Bytes) : R :=
  let L := p.length.current
  if L == 0 then
    let (p, err) := visit p (.str [])
    strFin p b true err
  else if L < 0 then panicR p b
  else
    match collectP p b L.toNat with
    | (p, rest, none) => strFin p rest false none
    | (p, rest, some tmp) => let (p, err) := visit p (.str tmp); strFin p rest true err

theorem stepString_eq (p : P) (b : Bytes) :
    stepString p b =
      match p.state.current.step with
      | .stStart =>
        let r := stepLen p b (p.state.current.withStep stWithLen)
        if !(r.err.isNone && r.p.state.current.step == stWithLen) then strFin r.p r.rest false r.err
        else strWithLen r.p r.rest
      | .stWithLen => strWithLen p b
      | _ => strFin p b false none := rfl

theorem strFin_safe (p : P) (b : Bytes) (done : Bool) (err : Option Err) (hi : Inv p)
    (he : err ≠ some .panic) : Safe p.err (strFin p b done err) := by
  unfold strFin
  split
  · exact ⟨by simp, rfl, hi.popLenState⟩
  · exact ⟨he, rfl, hi⟩

theorem strWithLen_safe (p : P) (b : Bytes) (hi : Inv p) (hc : crit p.state.current = true) :
    Safe p.err (strWithLen p b) := by
  have hL := hi.cur hc
  unfold strWithLen
  simp only []
  split
  · simp only [visit_eq]
    exact strFin_safe (addEv p _) b true _ (hi.addEv _) (verr_np p)
  · split
    · omega
    · have h1 := hi.collectP b p.length.current.toNat
      rcases h : collectP p b p.length.current.toNat with ⟨q, rest, tmp⟩
      have hq : q = (collectP p b p.length.current.toNat).1 := by rw [h]
      have hqe : q.err = p.err := by rw [hq]; rfl
      rw [← hq] at h1
      rw [← hqe]
      cases tmp with
      | none => exact strFin_safe q rest false none h1 (by simp)
      | some t =>
        simp only [visit_eq]
        exact strFin_safe (addEv q _) rest true _ (h1.addEv _) (verr_np q)

theorem stepString_safe (p : P) (b : Bytes) (hi : Inv p) (hb : b ≠ [])
    (ht : p.state.current.type = stString ∨ p.state.current.type = stHighPrec) :
    Safe p.err (stepString p b) := by
  rw [stepString_eq]
  split
  · rename_i hs
    have hl := stepLen_safe p b (p.state.current.withStep stWithLen) hi hb
    have hcur := stepLen_cur p b (p.state.current.withStep stWithLen)
    simp only []
    split
    · have := strFin_safe _ (stepLen p b (p.state.current.withStep stWithLen)).rest false _ hl.inv hl.np
      rw [hl.ef] at this; exact this
    · rename_i hcond
      simp only [Bool.not_eq_true, Bool.not_eq_false', Bool.and_eq_true, beq_iff_eq] at hcond
      have hcrit : crit (stepLen p b (p.state.current.withStep stWithLen)).p.state.current = true := by
        rcases hcur with h | h
        · rw [h]; rcases ht with ht | ht <;> simp [crit, St.withStep, ht]
        · rw [h] at hcond; rw [hs] at hcond; exact absurd hcond.2 (by decide)
      have := strWithLen_safe _ (stepLen p b (p.state.current.withStep stWithLen)).rest hl.inv hcrit
      rw [hl.ef] at this; exact this
  · rename_i hs
    refine strWithLen_safe p b hi ?_
    rcases ht with ht | ht <;> simp [crit, ht, hs]
  · exact strFin_safe p b false none hi (by simp)

/-! ### arrays -/

theorem stepArrayInit_safe (p : P) (b : Bytes) (hi : Inv p) (hb : b ≠ [])
    (ht : p.state.current.type = stArray) : Safe p.err (stepArrayInit p b) := by
  unfold stepArrayInit
  cases b with
  | nil => exact absurd rfl hb
  | cons b0 bs =>
    simp only []
    have hcr : ∀ t : StateType, t = stArrayCount ∨ t = stArrayTyped ∨ t = stArrayDyn →
        crit { p.state.current with type := t } = true → crit p.state.current = true := by
      intro t h; rcases h with rfl | rfl | rfl <;> simp [crit, ht]
    split
    · exact ⟨by simp, rfl, hi.setCurrent' _ (hcr _ (by simp))⟩
    split
    · exact ⟨by simp, rfl, hi.setCurrent' _ (hcr _ (by simp))⟩
    · simp only [visit_eq]
      exact ⟨verr_np _, rfl, (hi.setCurrent' _ (hcr stArrayDyn (by simp))).addEv _⟩

theorem crit_arrayDyn {s : St} (h : s.type = stArrayDyn) : crit s = false := by
  cases s with | mk t st => simp only at h; subst h; cases st <;> decide

theorem stepArrayDyn_safe (p : P) (b : Bytes) (hi : Inv p) (hb : b ≠ [])
    (ht : p.state.current.type = stArrayDyn) : Safe p.err (stepArrayDyn p b) := by
  unfold stepArrayDyn
  cases b with
  | nil => exact absurd rfl hb
  | cons b0 bs =>
    simp only []
    split
    · simp only [visit_eq]
      rcases verr_cases p with h | h <;> rw [h] <;> simp only []
      · exact ⟨by simp, rfl, (hi.addEv _).popState⟩
      · exact ⟨by simp, rfl, hi.addEv _⟩
    · refine Safe.setDone ?_ false
      split
      · exact stepValue_safe (setStep p stCont) (b0 :: bs) (hi.setStep _ (by decide))
          (crit_arrayDyn (by simpa [setStep, setCurrent] using ht)) (by simp)
      · exact stepValue_safe p (b0 :: bs) hi (crit_arrayDyn ht) (by simp)

end SF.Ubjson.Parse
