/-
  The UBJSON encoder on event trees: the writes `chunks t` of a contract-conforming tree are the
  wire form of the well-formed item `toItem t`, whose value is the tree's value up to the
  format's documented representation change (`approx`: unsigned numbers above MaxInt64 travel as
  high-precision decimal strings).
-/
import SF.Proofs.UbjEncWire
import SF.Proofs.CborEnc
namespace SF.Ubjson.Enc
open SF SF.Ubjson SF.Ubjson.Wire

/-! ## the representation relation `orig ⊑ got` of the oracle (SF/Ops/Oracle.lean `approxUbj`) -/

def isBig : Val → Bool
  | .int n => decide (n > 9223372036854775807)
  | _ => false

/-- every element is a non-negative integer, received as its decimal string -/
def allDecimal : List Val → List Val → Bool
  | [], [] => true
  | .int n :: as, .str s :: bs => decide (n ≥ 0) && s == decimal n.toNat && allDecimal as bs
  | _, _ => false

def allDecimalMems : List (Bytes × Val) → List (Bytes × Val) → Bool
  | [], [] => true
  | (k, .int n) :: as, (l, .str s) :: bs =>
    k == l && decide (n ≥ 0) && s == decimal n.toNat && allDecimalMems as bs
  | _, _ => false

mutual
/-- UBJSON: integers above MaxInt64 travel as their decimal string; an extended unsigned
array / map one of whose elements exceeds MaxInt64 is typed `H` as a whole -/
def approx : Val → Val → Bool
  | .int n, .int m => n == m
  | .int n, .str s => decide (n > 9223372036854775807) && s == decimal n.toNat
  | .null, .null => true
  | .bool a, .bool b => a == b
  | .f32 a, .f32 b => a == b
  | .f64 a, .f64 b => a == b
  | .str a, .str b => a == b
  | .arr xs, .arr ys => approxList xs ys || (xs.any isBig && allDecimal xs ys)
  | .obj xs, .obj ys => approxMems xs ys || (xs.any (fun m => isBig m.2) && allDecimalMems xs ys)
  | _, _ => false
def approxList : List Val → List Val → Bool
  | [], [] => true
  | a :: as, b :: bs => approx a b && approxList as bs
  | _, _ => false
def approxMems : List (Bytes × Val) → List (Bytes × Val) → Bool
  | [], [] => true
  | (k, a) :: as, (l, b) :: bs => k == l && approx a b && approxMems as bs
  | _, _ => false
end

/-! ## the item the encoder writes for a tree -/

def item16 (v : Int) : UItem := if -128 ≤ v ∧ v ≤ 127 then .int .i v else .int .I v
def item32 (v : Int) : UItem := if -32768 ≤ v ∧ v ≤ 32767 then item16 v else .int .l v
def item64 (v : Int) : UItem := if -2147483648 ≤ v ∧ v ≤ 2147483647 then item32 v else .int .L v

/-- one number event -/
def numItem : NumKind → Int → UItem
  | .i8, v => .int .i v
  | .i16, v => item16 v
  | .i32, v => item32 v
  | .i64, v => item64 v
  | .int, v => .int (minM v) v
  | .u8, v => .int .U v
  | .byte, v => .char (UInt8.ofNat (v % 256).toNat)
  | .u16, v => utItem (utOf v.toNat) v.toNat
  | .u32, v => utItem (utOf v.toNat) v.toNat
  | .u64, v => utItem (utOf v.toNat) v.toNat
  | .uint, v => utItem (utOf v.toNat) v.toNat

mutual
def toItem : ETree → UItem
  | .null => .null
  | .bool b => if b then .tru else .fals
  | .str s => .str (minM s.length) s
  | .num k v => numItem k v
  | .f32 b => .f32 b
  | .f64 b => .f64 b
  | .arr len _ xs => if len ≤ 0 then .arr (toItems xs) else .arrN (minM xs.length) (toItems xs)
  | .obj len _ ms => if len ≤ 0 then .obj (toMems ms) else .objN (minM ms.length) (toMems ms)
def toItems : List ETree → List UItem
  | [] => []
  | x :: xs => toItem x :: toItems xs
def toMems : List (Bytes × ETree) → List (IM × Bytes × UItem)
  | [] => []
  | (k, v) :: ms => (minM k.length, k, toItem v) :: toMems ms
end

theorem toItems_length (xs : List ETree) : (toItems xs).length = xs.length := by
  induction xs with
  | nil => rfl
  | cons x xs ih => simp [toItems, ih]
theorem toMems_length (ms : List (Bytes × ETree)) : (toMems ms).length = ms.length := by
  induction ms with
  | nil => rfl
  | cons m ms ih => obtain ⟨k, v⟩ := m; simp [toMems, ih]

/-! ### bytes -/

theorem flat_item16 (v : Int) : flat (onInt16 v) = (item16 v).wire := by
  unfold onInt16 item16
  split
  · simp [flat_int8, mk, UItem.wire, UItem.marker, UItem.payload, IM.byte]
  · simp [flat_int16, mk, UItem.wire, UItem.marker, UItem.payload, IM.byte]
theorem flat_item32 (v : Int) : flat (onInt32 v) = (item32 v).wire := by
  unfold onInt32 item32
  split
  · exact flat_item16 v
  · simp [flat_int32, mk, UItem.wire, UItem.marker, UItem.payload, IM.byte]
theorem flat_item64 (v : Int) : flat (onInt64 v) = (item64 v).wire := by
  unfold onInt64 item64
  split
  · exact flat_item32 v
  · simp [flat_int64, mk, UItem.wire, UItem.marker, UItem.payload, IM.byte]

theorem flat_onUint64 (u : Nat) : flat (onUint64 u) = (utItem (utOf u) u).wire := by
  simp [onUint64, uintType_eq, flat_uint64, mk, UItem.wire, utItem_marker]

theorem flat_num (k : NumKind) (v : Int) : flat (scalarActs (.num k v)) = (numItem k v).wire := by
  cases k
  · simp [scalarActs, onInt8, numItem, flat_int8, mk, UItem.wire, UItem.marker, UItem.payload, IM.byte]
  · exact flat_item16 v
  · exact flat_item32 v
  · exact flat_item64 v
  · simp [scalarActs, numItem, flat_onInt, mk, UItem.wire, UItem.marker, UItem.payload]
  · simp [scalarActs, onUint8, numItem, flat_uint8, mk, UItem.wire, UItem.marker, UItem.payload, IM.byte]
  · exact flat_onUint64 _
  · exact flat_onUint64 _
  · exact flat_onUint64 _
  · exact flat_onUint64 _
  · simp [scalarActs, onByte, numItem, UItem.wire, UItem.marker, UItem.payload, charMarker]

theorem flat_key (k : Bytes) : flat (scalarActs (.key k)) = lenWire (minM k.length) k.length ++ k := by
  simp [scalarActs, onKey, flat_string, mk]

theorem startChunks_flat (m : UInt8) (len : Int) (n : Nat) (h : len ≤ 0 ∨ len = n) :
    (startChunks m len).flatten = m :: (if len ≤ 0 then [] else 0x23 :: lenWire (minM n) n) := by
  unfold startChunks
  split
  · simp
  · rename_i hl
    have : len = n := by omega
    subst this
    have := flat_writeLen n
    simp only [flat] at this
    simp [this, countMarker]

theorem endChunks_flat (m : UInt8) (len : Int) :
    (endChunks m len).flatten = if len ≤ 0 then [m] else [] := by
  unfold endChunks; split <;> simp

theorem lenOk_cases (len : Int) (n : Nat) (h : ETree.lenOkFor len n = true) : len ≤ 0 ∨ len = n := by
  simp only [ETree.lenOkFor, Bool.or_eq_true, beq_iff_eq] at h
  omega

mutual
/-- the writes of a contract-conforming tree, concatenated, are the wire form of `toItem t` -/
theorem chunks_wire (t : ETree) (hw : t.wf = true) : (chunks t).flatten = (toItem t).wire := by
  match t with
  | .null => rfl
  | .bool true => rfl
  | .bool false => rfl
  | .str s =>
    have := flat_string s true
    simp only [flat] at this
    simp [chunks, scalarActs, onString, this, mk, toItem, UItem.wire, UItem.marker, UItem.payload]
  | .num k v => exact flat_num k v
  | .f32 b =>
    have := flat_float32 b true
    simp only [flat] at this
    simp [chunks, scalarActs, this, mk, toItem, UItem.wire, UItem.marker, UItem.payload]
  | .f64 b =>
    have := flat_float64 b true
    simp only [flat] at this
    simp [chunks, scalarActs, this, mk, toItem, UItem.wire, UItem.marker, UItem.payload]
  | .arr len bt xs =>
    simp only [ETree.wf, Bool.and_eq_true] at hw
    simp only [chunks, List.flatten_append, startChunks_flat _ len xs.length (lenOk_cases _ _ hw.1),
      endChunks_flat, chunksList_wire xs bt hw.2, toItem]
    split <;> simp [UItem.wire, UItem.marker, UItem.payload, arrStartMarker, arrEndMarker, toItems_length]
  | .obj len bt ms =>
    simp only [ETree.wf, Bool.and_eq_true] at hw
    simp only [chunks, List.flatten_append, startChunks_flat _ len ms.length (lenOk_cases _ _ hw.1),
      endChunks_flat, chunksMems_wire ms bt hw.2, toItem]
    split <;> simp [UItem.wire, UItem.marker, UItem.payload, objStartMarker, objEndMarker, toMems_length]

theorem chunksList_wire (xs : List ETree) (bt : Nat) (hw : ETree.wfList bt xs = true) :
    (chunksList xs).flatten = wireList (toItems xs) := by
  match xs with
  | [] => rfl
  | x :: xs' =>
    simp only [ETree.wfList, Bool.and_eq_true] at hw
    have h1 := chunks_wire x hw.1.2
    simp only [UItem.wire] at h1
    simp [chunksList, toItems, wireList, h1, chunksList_wire xs' bt hw.2]

theorem chunksMems_wire (ms : List (Bytes × ETree)) (bt : Nat) (hw : ETree.wfMems bt ms = true) :
    (chunksMems ms).flatten = wireMems (toMems ms) := by
  match ms with
  | [] => rfl
  | (k, v) :: ms' =>
    simp only [ETree.wfMems, Bool.and_eq_true] at hw
    have h1 := chunks_wire v hw.1.2
    simp only [UItem.wire] at h1
    have h2 := flat_key k
    simp only [flat] at h2
    simp [chunksMems, toMems, wireMems, h1, h2, chunksMems_wire ms' bt hw.2]
end

end SF.Ubjson.Enc
