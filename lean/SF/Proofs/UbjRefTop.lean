/-
  UBJSON refinement: one value through feedUntil, a stream through feed / parse.
-/
import SF.Proofs.UbjRefCost
namespace SF.Ubjson.Parse
open SF SF.Ubjson SF.Ubjson.Syn
open StateType StateStep

/-! ## whole values and streams through feedUntil / feed / parse -/

/-- an idle parser: initial state, with the events delivered so far (and whatever the
scratch field `valueType` holds) -/
def idle (E : List Ev) (vt : Nat) : P := { evs := E, valueType := vt }

theorem idle_eq (E : List Ev) (vt : Nat) : idle E vt = mk [] ⟨stNext, stStart⟩ {} [] 0 vt E := rfl
theorem default_eq_idle : ({} : P) = idle [] BT.any := rfl

theorem step_next_noop (VS LS lc vt E) (bs : Bytes) :
    execStep (mk [] ⟨stNext, stStart⟩ VS LS lc vt E) (noopMarker :: bs) =
      ⟨mk [] ⟨stNext, stStart⟩ VS LS lc vt E, bs, false, none⟩ := by
  simp +decide [execStep, mk, stepValue, markerToStartState]

theorem top_noops (t : Nat) (f : Nat) (VS LS lc vt E) (b : Bytes) :
    feedUntil (f + t) (mk [] ⟨stNext, stStart⟩ VS LS lc vt E) (noops t ++ b) =
      feedUntil f (mk [] ⟨stNext, stStart⟩ VS LS lc vt E) b := by
  induction t generalizing f with
  | zero => simp [noops]
  | succ t ih =>
    rw [noops_succ, show f + (t + 1) = (f + t) + 1 by omega, List.cons_append,
      feedUntil_succ _ _ _ (by simp), step_next_noop, after_cont, ih]

theorem step_next_value (VS LS lc vt E) (b : Bytes)
    (he : (stepValue (mk [] ⟨stNext, stStart⟩ VS LS lc vt E) b).err = none) :
    execStep (mk [] ⟨stNext, stStart⟩ VS LS lc vt E) b = stepValue (mk [] ⟨stNext, stStart⟩ VS LS lc vt E) b := by
  rw [execStep_eq]
  have : dispatch (mk [] ⟨stNext, stStart⟩ VS LS lc vt E) b = stepValue (mk [] ⟨stNext, stStart⟩ VS LS lc vt E) b := rfl
  rw [this]; simp only [he]

/-- ONE VALUE through feedUntil (what `Decoder.Next` and `feed` use): the leading no-ops and
all of `x.wire` are consumed, exactly `x.events` are delivered, the parser is idle again and
reports `done`; `rest` is untouched -/
theorem feedUntil_value (n : Nat) (x : Item) (hx : x.ok = true) (E : List Ev) (vt : Nat) (rest : Bytes)
    (F : Nat) (hF : n + 1 + vcost x ≤ F) :
    ∃ vt', feedUntil F (idle E vt) (noops n ++ (x.wire ++ rest)) =
      ⟨idle (x.events.reverse ++ E) vt', rest, true, none⟩ := by
  obtain ⟨f, rfl⟩ : ∃ f, F = ((f + vcost x) + 1) + n := ⟨F - (n + 1 + vcost x), by omega⟩
  obtain ⟨vt', h⟩ := value_top x (pl_item x hx) f {} [] 0 vt E rest vsok_init
  refine ⟨vt', ?_⟩
  simp only [idle_eq, Item.wire, List.cons_append]
  have he : (stepValue (mk [] ⟨stNext, stStart⟩ {} [] 0 vt E) (x.marker :: (x.payload ++ rest))).err = none := by
    rw [stepValue_item _ _ _ _ _ _ _ _ _ (by simp)]; split <;> rfl
  rw [top_noops, feedUntil_succ _ _ _ (by simp), step_next_value _ _ _ _ _ _ he, h]

theorem feedG_succ (ff : Bytes → Nat) (fuel : Nat) (p : P) (b : Bytes) (hb : b.isEmpty = false) :
    feedG ff (fuel + 1) p b =
      match (feedUntil (ff b) p b).err with
      | some e => ((feedUntil (ff b) p b).p, some e)
      | none => feedG ff fuel (feedUntil (ff b) p b).p (feedUntil (ff b) p b).rest := by
  simp only [feedG, hb]; rfl

theorem feedG_nil (ff : Bytes → Nat) (fuel : Nat) (p : P) : feedG ff (fuel + 1) p [] = (p, none) := by
  simp [feedG]

/-- the trailing no-ops of a stream -/
theorem feedG_noops (ff : Bytes → Nat) (hff : ∀ b, b.length + 1 ≤ ff b) (t : Nat) (fuel : Nat) (E : List Ev)
    (vt : Nat) : feedG ff (fuel + 2) (idle E vt) (noops t) = (idle E vt, none) := by
  cases t with
  | zero => exact feedG_nil ff (fuel + 1) _
  | succ t =>
    rw [feedG_succ _ _ _ _ rfl]
    obtain ⟨f, hf⟩ : ∃ f, ff (noops (t + 1)) = (f + 1) + (t + 1) :=
      ⟨ff (noops (t + 1)) - (t + 2), by have := hff (noops (t + 1)); simp only [noops_length] at this; omega⟩
    have : feedUntil (ff (noops (t + 1))) (idle E vt) (noops (t + 1)) = ⟨idle E vt, [], false, none⟩ := by
      rw [hf, idle_eq]
      have := top_noops (t + 1) (f + 1) {} [] 0 vt E []
      simp only [List.append_nil] at this
      rw [this]
      simp [feedUntil, pending, mk]
    rw [this]
    exact feedG_nil ff fuel _

theorem wireElems_length_ge (xs : List (Nat × Item)) : xs.length ≤ (wireElems xs).length := by
  induction xs with
  | nil => simp
  | cons nx xs ih =>
    obtain ⟨n, x⟩ := nx
    simp only [wireElems, List.length_append, List.length_cons]; omega

/-- A STREAM through `feed` -/
theorem feedG_stream (ff : Bytes → Nat) (hff : ∀ b, 8 * b.length + 2000000 ≤ ff b)
    (xs : List (Nat × Item)) (t : Nat) (hok : okElems xs = true)
    (hfree : ∀ nx ∈ xs, free nx.2 ≤ 1000000) (E : List Ev) (vt : Nat) (fuel : Nat) (hfuel : xs.length + 2 ≤ fuel) :
    ∃ vt', feedG ff fuel (idle E vt) (wireStream xs t) = (idle ((evElems xs).reverse ++ E) vt', none) := by
  induction xs generalizing E vt fuel with
  | nil =>
    obtain ⟨f, rfl⟩ : ∃ f, fuel = f + 2 := ⟨fuel - 2, by simp at hfuel; omega⟩
    refine ⟨vt, ?_⟩
    simp only [wireStream, wireElems, List.nil_append, evElems, List.reverse_nil]
    exact feedG_noops ff (fun b => by have := hff b; omega) t f E vt
  | cons nx xs ih =>
    obtain ⟨n, x⟩ := nx
    have hok' : x.ok = true ∧ okElems xs = true := by simpa [okElems] using hok
    obtain ⟨f, rfl⟩ : ∃ f, fuel = f + 1 := ⟨fuel - 1, by simp at hfuel; omega⟩
    have hw : wireStream ((n, x) :: xs) t = noops n ++ (x.wire ++ wireStream xs t) := by
      simp [wireStream, wireElems, Item.wire]
    have hne : (wireStream ((n, x) :: xs) t).isEmpty = false := by
      rw [hw]; cases n <;> simp [noops, List.replicate, Item.wire]
    have hcost : n + 1 + vcost x ≤ ff (wireStream ((n, x) :: xs) t) := by
      have h1 := hff (wireStream ((n, x) :: xs) t)
      have h2 := vcost_le x
      have h3 := hfree (n, x) (by simp)
      simp only at h3
      rw [hw] at h1 ⊢
      simp only [List.length_append, noops_length] at h1
      omega
    obtain ⟨vt1, h1⟩ := feedUntil_value n x hok'.1 E vt (wireStream xs t) _ hcost
    obtain ⟨vt2, h2⟩ := ih hok'.2 (fun nx h => hfree nx (by simp [h])) (x.events.reverse ++ E) vt1 f
      (by simp at hfuel; omega)
    refine ⟨vt2, ?_⟩
    rw [feedG_succ _ _ _ _ hne]
    rw [hw] at h1 ⊢
    rw [h1]
    simp only []
    rw [h2]
    simp [evElems, List.reverse_append]

theorem finalize_idle (E : List Ev) (vt : Nat) : finalize (idle E vt) = (idle E vt, none) := by
  simp +decide [finalize, finalizeLoop, idle]

/-- `Parse` on a stream -/
theorem parse_stream_idle (xs : List (Nat × Item)) (t : Nat) (hok : okElems xs = true)
    (hfree : ∀ nx ∈ xs, free nx.2 ≤ 1000000) :
    ∃ vt', parse {} (wireStream xs t) = (idle (evElems xs).reverse vt', none) := by
  have hlen : xs.length + 2 ≤ 2 * (wireStream xs t).length + 2 := by
    have := wireElems_length_ge xs
    simp only [wireStream, List.length_append]; omega
  obtain ⟨vt', h⟩ := feedG_stream fuelFor (fun b => Nat.le_refl _) xs t hok hfree [] BT.any _ hlen
  refine ⟨vt', ?_⟩
  simp only [parse, feedAll, feed_eq_feedG, default_eq_idle, h, List.append_nil, finalize_idle]
  rfl

end SF.Ubjson.Parse
