/-
  The fold mirror reads its options in two places only: `userReg` (`FoldOpts.folders`) and
  the initial visitor state built by `impl` (`failAt`, `order`).  Compilation and the run
  functions therefore agree for any two option records with the same `folders`.
-/
import SF.Gotype.Fold
namespace SF.FoldProofs.Fault
open SF SF.Gotype SF.Gotype.Fold

theorem userReg_congr {o o' : FoldOpts} (h : o.folders = o'.folders) : userReg o = userReg o' := by
  funext t
  simp only [userReg, h]

/-- the eight compile functions at one fuel -/
structure CompEq (o o' : FoldOpts) (fuel : Nat) : Prop where
  rf : getReflectFold fuel o = getReflectFold fuel o'
  ptr : getFoldPointer fuel o = getFoldPointer fuel o'
  str : getReflectFoldStruct fuel o = getReflectFoldStruct fuel o'
  bff : buildFieldFold fuel o = buildFieldFold fuel o'
  bfi : buildFieldFoldInline fuel o = buildFieldFoldInline fuel o'
  gen : fieldFoldGenInline fuel o = fieldFoldGenInline fuel o'
  map : getReflectFoldMap fuel o = getReflectFoldMap fuel o'
  keys : getReflectFoldMapKeys fuel o = getReflectFoldMapKeys fuel o'
  sl : getReflectFoldSlice fuel o = getReflectFoldSlice fuel o'

theorem compEq {o o' : FoldOpts} (h : o.folders = o'.folders) : ∀ fuel, CompEq o o' fuel := by
  intro fuel
  induction fuel with
  | zero =>
    constructor
    · funext op t; simp only [getReflectFold]
    · funext op t; simp only [getFoldPointer]
    · funext op fs i; simp only [getReflectFoldStruct]
    · funext op f i; simp only [buildFieldFold]
    · funext op f i; simp only [buildFieldFoldInline]
    · funext op t; simp only [fieldFoldGenInline]
    · funext op t; simp only [getReflectFoldMap]
    · funext op t; simp only [getReflectFoldMapKeys]
    · funext op t; simp only [getReflectFoldSlice]
  | succ fuel ih =>
    have hu := userReg_congr h
    constructor
    · funext op t; simp only [getReflectFold, hu, ih.ptr, ih.str, ih.map, ih.sl]
    · funext op t; simp only [getFoldPointer, ih.rf]
    · funext op fs i; simp only [getReflectFoldStruct, ih.bff]
    · funext op f i; simp only [buildFieldFold, ih.bfi, ih.rf]
    · funext op f i; simp only [buildFieldFoldInline, ih.gen]
    · funext op t; simp only [fieldFoldGenInline, hu, ih.str, ih.keys]
    · funext op t; simp only [getReflectFoldMap, ih.keys]
    · funext op t; simp only [getReflectFoldMapKeys, ih.rf]
    · funext op t; simp only [getReflectFoldSlice, ih.rf]

/-- the four run functions at one fuel -/
structure RunEq (o o' : FoldOpts) (fuel : Nat) : Prop where
  fiv : foldInterfaceValue fuel o = foldInterfaceValue fuel o'
  fast : runFast fuel o = runFast fuel o'
  any : foldAnyReflect fuel o = foldAnyReflect fuel o'
  run : run fuel o = run fuel o'

theorem runEq {o o' : FoldOpts} (h : o.folders = o'.folders) : ∀ fuel, RunEq o o' fuel := by
  intro fuel
  induction fuel with
  | zero =>
    constructor
    · funext c i s; simp only [foldInterfaceValue]
    · funext c f v s; simp only [runFast]
    · funext c rv s; simp only [foldAnyReflect]
    · funext c f rv s; simp only [Fold.run]
  | succ fuel ih =>
    have hu := userReg_congr h
    have hc := compEq h compileFuel
    constructor
    · funext c i s
      cases i <;> simp only [foldInterfaceValue, hu, ih.run, ih.fast, ih.any]
    · funext c f v s
      cases f <;> simp only [runFast, ih.fiv]
    · funext c rv s; simp only [foldAnyReflect, hc.rf, ih.run]
    · funext c f rv s
      cases f <;> simp only [Fold.run, ih.run, ih.any, ih.fiv, hc.rf, hc.gen]

/-- the run of a fold does not depend on the fault index / order oracle stored in the options
(they only initialise the visitor state) -/
theorem fiv_opts (o : FoldOpts) (fa : Option Nat) (fuel : Nat) :
    foldInterfaceValue fuel { o with failAt := fa } = foldInterfaceValue fuel o :=
  (runEq (o := { o with failAt := fa }) (o' := o) rfl fuel).fiv

end SF.FoldProofs.Fault
