/-
  C11, direct path, FOLD side: the events `Fold.impl` delivers for scalars, `[]T`, `map[string]T`
  (`T` scalar), computed exactly — one (extended) event each.
-/
import SF.Gotype.Fold
import SF.Proofs.FoldVisit
namespace SF.FuId
open SF SF.Gotype SF.Gotype.Fold SF.FoldProofs

/-- the unnamed basic type of a primitive kind (inverse of `primOf?`) -/
def primTy : Prim → GoType
  | .bool => .bool | .string => .string | .num k => .int k | .f32 => .float32 | .f64 => .float64

theorem primOf_primTy (p : Prim) : primOf? (primTy p) = some p := by cases p <;> rfl

/-- `v` is a Go value of the scalar type `p` (integers inside the range of their kind) -/
def hasPrim : Prim → GoVal → Bool
  | .bool, .bool _ => true
  | .string, .str _ => true
  | .num k, .int v => k.inRange v
  | .f32, .f32 _ => true
  | .f64, .f64 _ => true
  | _, _ => false

/-- healthy visitor state at the start of `impl` -/
def st0 (o : FoldOpts) : St := { failAt := o.failAt, hint := o.order }

theorem deliver_healthy (s : St) (x : XEv) (h : s.failAt = none) :
    deliver s x = ({ s with evs := reorderByHint s x :: s.evs, n := s.n + 1, hint := s.hint.drop 1 }, .ok) := by
  simp [deliver, h]

theorem emit_user_healthy (s : St) (x : XEv) (h : s.failAt = none) :
    emit s .user x = ({ s with evs := reorderByHint s x :: s.evs, n := s.n + 1, hint := s.hint.drop 1 }, .ok) := by
  rw [emit_user, deliver_healthy s x h]

theorem userReg_primTy (o : FoldOpts) (p : Prim) : userReg o (primTy p) = none := by
  cases p <;> simp [userReg, primTy, GoType.whnf]

theorem userReg_slice (o : FoldOpts) (e : GoType) : userReg o (.slice e) = none := by
  simp [userReg, GoType.whnf]

theorem userReg_map (o : FoldOpts) (k e : GoType) : userReg o (.map k e) = none := by
  simp [userReg, GoType.whnf]

/-- the single event of a top-level scalar: `int` travels as `OnInt64`, floats keep their bits -/
def scalarXEv (p : Prim) (v : GoVal) : Option XEv := primEv false p v

theorem impl_of (o : FoldOpts) (T : GoType) (v : GoVal) (s : St) (r : Res)
    (hT : T.under ≠ .iface)
    (h : foldInterfaceValue runFuel o .user (.iface T v) (st0 o) = (s, r)) :
    impl o T v = { evs := s.evs.reverse, res := r } := by
  have h' : foldInterfaceValue runFuel o .user (.iface T v) { failAt := o.failAt, hint := o.order } = (s, r) := h
  unfold impl
  split
  · rename_i hU; exact absurd hU hT
  · simp only [h']

/-- the state after ONE event was delivered to the healthy visitor -/
def st1 (o : FoldOpts) (x : XEv) : St :=
  { (st0 o) with evs := [reorderByHint (st0 o) x], n := 1, hint := (st0 o).hint.drop 1 }

theorem emit_st0 (o : FoldOpts) (hfail : o.failAt = none) (x : XEv) :
    emit (st0 o) .user x = (st1 o x, .ok) := by
  rw [emit_user_healthy _ _ hfail]; rfl

/-- STAGE 1, fold side -/
theorem impl_scalar (o : FoldOpts) (hfail : o.failAt = none) (p : Prim) (v : GoVal) (x : XEv)
    (hx : primEv false p v = some x) :
    impl o (primTy p) v = { evs := [x], res := .ok } := by
  have hg : getFoldGoTypes (primTy p).whnf = some (.prim p) := by cases p <;> rfl
  have hxe : ∃ e, x = .ev e := by
    cases p <;> cases v <;> simp [primEv] at hx <;> exact ⟨_, hx.symm⟩
  obtain ⟨e, rfl⟩ := hxe
  have : foldInterfaceValue runFuel o .user (.iface (primTy p) v) (st0 o) = (st1 o (.ev e), .ok) := by
    show foldInterfaceValue (99998 + 1 + 1) o .user (.iface (primTy p) v) (st0 o) = _
    rw [foldInterfaceValue]
    simp only [userReg_primTy, hg]
    rw [runFast]
    simp only [hx]
    exact emit_st0 o hfail _
  rw [impl_of o _ v _ _ (by cases p <;> simp [primTy, GoType.under]) this]
  simp [st1, reorder_ev]

/-! ## `[]T` -/

theorem getFoldGoTypes_slice (p : Prim) : getFoldGoTypes (GoType.slice (primTy p)).whnf = some (.arr p) := by
  cases p <;> rfl

/-- STAGE 2, fold side, slices: ONE typed-array event (`[]uint8` as `OnBytes`) -/
theorem impl_slice (o : FoldOpts) (hfail : o.failAt = none) (p : Prim) (v : GoVal) (xs : List GoVal) (x : XEv)
    (hv : sliceElems? v = some xs) (hx : arrEv true p xs = some x) :
    impl o (.slice (primTy p)) v = { evs := [x], res := .ok } := by
  have : foldInterfaceValue runFuel o .user (.iface (.slice (primTy p)) v) (st0 o) = (st1 o x, .ok) := by
    show foldInterfaceValue (99998 + 1 + 1) o .user (.iface (.slice (primTy p)) v) (st0 o) = _
    rw [foldInterfaceValue]
    simp only [userReg_slice, getFoldGoTypes_slice]
    rw [runFast]
    simp only [hv, Option.bind_some, hx]
    exact emit_st0 o hfail _
  rw [impl_of o _ v _ _ (by simp [GoType.under]) this]
  have : reorderByHint (st0 o) x = x := by
    cases p <;> simp [arrEv] at hx <;> obtain ⟨_, _, rfl⟩ := hx <;> simp [reorderByHint]
  simp [st1, this]

/-! ## `map[string]T` -/

theorem getFoldGoTypes_map (p : Prim) :
    getFoldGoTypes (GoType.map .string (primTy p)).whnf = some (.map p) := by
  cases p <;> rfl

/-- STAGE 2, fold side, maps: ONE typed-map event, its members in the order the order oracle
dictates -/
theorem impl_map (o : FoldOpts) (hfail : o.failAt = none) (p : Prim) (v : GoVal) (ms : List (GoVal × GoVal)) (x : XEv)
    (hv : mapEntries? v = some ms) (hx : objEv p ms = some x) :
    impl o (.map .string (primTy p)) v = { evs := [reorderByHint (st0 o) x], res := .ok } := by
  have : foldInterfaceValue runFuel o .user (.iface (.map .string (primTy p)) v) (st0 o) = (st1 o x, .ok) := by
    show foldInterfaceValue (99998 + 1 + 1) o .user (.iface (.map .string (primTy p)) v) (st0 o) = _
    rw [foldInterfaceValue]
    simp only [userReg_map, getFoldGoTypes_map]
    rw [runFast]
    simp only [hv, Option.bind_some, hx]
    exact emit_st0 o hfail _
  rw [impl_of o _ v _ _ (by simp [GoType.under]) this]
  simp [st1]

end SF.FuId
