/-
  `omitempty` on interface-typed fields (cf. FoldLazy): what the value the lazy resolver chain
  keeps (`Lazy`, CusEmpty) folds to, according to the specification.
-/
import SF.Proofs.FoldLazy
import SF.Proofs.CusTypeOk
namespace SF.FoldProofs.Custom
open SF SF.Gotype SF.Gotype.Fold SF.Gotype.Rules

variable {reg : Bool}

/-- what the rules know about the target of a kept value, when they accept the field -/
structure LazyOK (reg : Bool) (r : RVal) (t : GoType) (x : GoVal) (T : GoType) (v : GoVal) : Prop where
  good : ∃ sn seen n, goodC reg sn T = true ∧ (∀ y ∈ seen, y ∈ sn) ∧ typeOkF n reg seen T = .ok ()
  depth : tdepth T ≤ max (tdepth t) dynBound
  typed : wtC reg T v = true
  inside : vdepth v ≤ vdepth x
  folds : ∃ m, foldF m reg T v = .ok r

theorem lazy_ok {t : GoType} {x : GoVal} {rv : RV} (hl : Lazy t x rv) :
    ∀ {sn : List String} {m : Nat} {r : RVal}, goodC reg sn t = true → tdepth t ≤ 1000 → wtC reg t x = true →
    foldF m reg t x = .ok r →
    (isIfaceT (stripPtr t).2 = true ∨ ∃ seen n, (∀ y ∈ seen, y ∈ sn) ∧ typeOkF n reg seen t = .ok ()) →
    ∃ T v, Target rv T v ∧ LazyOK reg r t x T v ∧
      (isIfaceT (stripPtr t).2 = true → vdepth v + 1 ≤ vdepth x ∧ tdepth T ≤ dynBound) := by
  induction hl with
  | @base t x x' hdr hni hse =>
    intro sn m r hg hdt hw hspec hty
    obtain ⟨hwx', hdx'⟩ := deref_wt sn t hg x x' hw hdr
    obtain ⟨m', hm'⟩ := foldF_deref_some sn t hg x m r x' hw hdr hspec
    rcases hty with hi | ⟨seen, n, hsub, hok⟩
    · rw [hni] at hi; cases hi
    · obtain ⟨n', seen', sn', h1, h2, h3, _⟩ := typeOkF_strip sn t hg n seen hsub hok
      have hdb := tdepth_stripPtr t
      refine ⟨_, _, Or.inr ⟨hni, rfl⟩, ⟨⟨sn', seen', n', h2, h3, h1⟩, by omega, hwx', by omega, m', hm'⟩, ?_⟩
      intro hi; rw [hni] at hi; cases hi
  | @keep t x dt dv hdr hi hem =>
    intro sn m r hg hdt hw hspec _
    obtain ⟨hwx', hdx'⟩ := deref_wt sn t hg x _ hw hdr
    obtain ⟨m', hm'⟩ := foldF_deref_some sn t hg x m r _ hw hdr hspec
    obtain ⟨sn', _, hpb⟩ := good_stripPtr t sn hg
    have hu := isIfaceT_iff.mp hi
    cases m' with
    | zero => simp [foldF] at hm'
    | succ m' =>
    rw [foldF_under m' hpb (notC1_of_under_iface hpb hu), hu, foldF_iface] at hm'
    rcases wt_iface_inv hu hwx' with h | ⟨dt', dv', h, hpd, hdd, hwd⟩
    · cases h
    · cases h
      cases htok : typeOk reg dt with
      | error e => simp [htok] at hm'
      | ok u =>
        simp only [htok] at hm'
        rw [vdepth_iface] at hdx'
        refine ⟨dt, dv, Or.inl ⟨hu, rfl⟩,
          ⟨⟨[], [], 1000, hpd, fun _ hy => hy, htok⟩, by omega, hwd, by omega, m', hm'⟩, ?_⟩
        intro _; exact ⟨by omega, hdd⟩
  | @step t x dt dv rv hdr hi hem _ ih =>
    intro sn m r hg hdt hw hspec _
    obtain ⟨hwx', hdx'⟩ := deref_wt sn t hg x _ hw hdr
    obtain ⟨m', hm'⟩ := foldF_deref_some sn t hg x m r _ hw hdr hspec
    obtain ⟨sn', _, hpb⟩ := good_stripPtr t sn hg
    have hu := isIfaceT_iff.mp hi
    cases m' with
    | zero => simp [foldF] at hm'
    | succ m' =>
    rw [foldF_under m' hpb (notC1_of_under_iface hpb hu), hu, foldF_iface] at hm'
    rcases wt_iface_inv hu hwx' with h | ⟨dt', dv', h, hpd, hdd, hwd⟩
    · cases h
    · cases h
      cases htok : typeOk reg dt with
      | error e => simp [htok] at hm'
      | ok u =>
        simp only [htok] at hm'
        rw [vdepth_iface] at hdx'
        obtain ⟨T, v, h1, h2, _⟩ := ih (sn := []) hpd (by unfold dynBound at hdd; omega) hwd hm'
          (Or.inr ⟨[], 1000, fun _ hy => hy, htok⟩)
        have hdep := h2.depth
        refine ⟨T, v, h1, ⟨h2.good, by omega, h2.typed, by have := h2.inside; omega, h2.folds⟩, ?_⟩
        intro _
        have := h2.inside
        exact ⟨by omega, by omega⟩

end SF.FoldProofs.Custom
