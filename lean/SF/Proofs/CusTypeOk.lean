/-
  The static part of the specification (`typeOkF` …) on good types with custom code, and: a good
  type the specification accepts compiles (cf. FoldTypeOk).  A type with a custom folder is
  accepted without a look inside (rule 2) and compiles to a leaf.
-/
import SF.Proofs.FoldTypeOk
import SF.Proofs.CusEmpty
namespace SF.FoldProofs.Custom
open SF SF.Gotype SF.Gotype.Fold SF.Gotype.Rules

variable {reg : Bool}

theorem typeOkF_unnamed (n : Nat) (reg : Bool) (seen : List String) {T : GoType}
    (hu : unnamedHead T = true) :
    typeOkF (n + 1) reg seen T =
      match (generalizing := false) T with
      | .bool | .string | .int _ | .float32 | .float64 | .iface => .ok ()
      | .slice e | .array _ e | .ptr e => typeOkF n reg seen e
      | .map k e => if isStringKind k then typeOkF n reg seen e else .error .nonStringKey
      | .struct fs => fs.forM (fun f => fieldOkF n reg seen f)
      | _ => .error .unsupported := by
  conv => lhs; unfold typeOkF
  simp only [customOf_unnamed reg hu, Option.isSome_none, Bool.false_eq_true, if_false, name_unnamed hu]
  cases T <;> rfl

theorem typeOkF_named (n : Nat) (seen : List String) {sn : List String} {nm : String}
    {m : Methods} {u : GoType} (h : goodC reg sn (.named nm m u) = true)
    (h1 : isC1 reg (.named nm m u) = false) (hs : ∀ x ∈ seen, x ∈ sn) :
    typeOkF (n + 1) reg seen (.named nm m u) = typeOkF n reg (nm :: seen) u := by
  conv => lhs; unfold typeOkF
  have hn : ¬ nm ∈ sn := name_fresh h
  have : seen.contains nm = false := by
    have : ¬ nm ∈ seen := fun hx => hn (hs nm hx)
    simpa using this
  simp only [customOf_notC1 h1, Option.isSome_none, Bool.false_eq_true, if_false,
    GoType.menagerieName?, this, GoType.under]

/-- rule 2: the inside of a type with a custom folder is never looked at -/
theorem typeOkF_c1 (n : Nat) (seen : List String) {T : GoType} (h1 : isC1 reg T = true) :
    typeOkF (n + 1) reg seen T = .ok () := by
  unfold typeOkF
  unfold isC1 at h1
  simp only [h1, if_true]

theorem inlineOkF_c1 (n : Nat) (seen : List String) {T : GoType} (h1 : isC1 reg T = true) :
    inlineOkF (n + 1) reg seen T = .ok () := by
  unfold inlineOkF
  unfold isC1 at h1
  simp only [h1, if_true]

/-- one step of `typeOkF` through the head of a good type -/
theorem typeOkF_head {n : Nat} {seen sn : List String} {T : GoType}
    (h : goodC reg sn T = true) (h1 : isC1 reg T = false) (hs : ∀ x ∈ seen, x ∈ sn)
    (hok : typeOkF n reg seen T = .ok ()) :
    ∃ n', typeOkF (n' + 1) reg (snU seen T) T.under = .ok () ∧ (∀ x ∈ snU seen T, x ∈ snU sn T) := by
  cases n with
  | zero => simp [typeOkF] at hok
  | succ n =>
  rcases headKind h with hu | ⟨nm, m, u, rfl⟩
  · refine ⟨n, ?_, ?_⟩
    · rw [under_unnamed hu]
      have : snU seen T = seen := by cases T <;> first | rfl | simp [unnamedHead] at hu
      rw [this]; exact hok
    · have e1 : snU seen T = seen := by cases T <;> first | rfl | simp [unnamedHead] at hu
      have e2 : snU sn T = sn := by cases T <;> first | rfl | simp [unnamedHead] at hu
      rw [e1, e2]; exact hs
  · rw [typeOkF_named n seen h h1 hs] at hok
    cases n with
    | zero => simp [typeOkF] at hok
    | succ n =>
      refine ⟨n, hok, ?_⟩
      intro x hx
      simp only [snU, List.mem_cons] at hx ⊢
      rcases hx with rfl | hx
      · exact Or.inl rfl
      · exact Or.inr (hs x hx)

theorem inlineOkF_good (n : Nat) (seen : List String) {T : GoType} (h1 : isC1 reg T = false) :
    inlineOkF (n + 1) reg seen T =
      match (generalizing := false) T.under with
      | .ptr e => inlineOkF n reg seen e
      | .struct _ | .map _ _ => typeOkF n reg seen T
      | .iface => .ok ()
      | _ => .error .inlineNeedsObject := by
  conv => lhs; unfold inlineOkF
  simp only [customOf_notC1 h1, Option.isSome_none, Bool.false_eq_true, if_false]
  cases T.under <;> rfl

/-! ## through pointers -/

theorem typeOkF_strip : ∀ (sn : List String) (T : GoType), goodC reg sn T = true →
    ∀ n seen, (∀ x ∈ seen, x ∈ sn) → typeOkF n reg seen T = .ok () →
    ∃ n' seen' sn', typeOkF n' reg seen' (stripPtr T).2 = .ok () ∧ goodC reg sn' (stripPtr T).2 = true ∧
      (∀ x ∈ seen', x ∈ sn') ∧ (∀ x ∈ sn, x ∈ sn') := by
  refine strip_induction _ ?_ ?_
  · intro sn T hg _ hs n seen hsub hok
    rw [hs]
    exact ⟨n, seen, sn, hok, hg, hsub, fun _ hx => hx⟩
  · intro sn T e hg hu _ hs ih n seen hsub hok
    rw [hs]
    obtain ⟨n', hn', hsub'⟩ := typeOkF_head hg (notC1_of_under_ptr hg hu) hsub hok
    rw [hu, typeOkF_unnamed n' reg _ rfl] at hn'
    obtain ⟨n2, seen2, sn2, h1, h2, h3, h4⟩ := ih n' _ hsub' hn'
    exact ⟨n2, seen2, sn2, h1, h2, h3, fun x hx => h4 x (snU_sub sn T x hx)⟩

theorem inlineOkF_strip : ∀ (sn : List String) (T : GoType), goodC reg sn T = true →
    ∀ n seen, inlineOkF n reg seen T = .ok () → ∃ n', inlineOkF n' reg seen (stripPtr T).2 = .ok () := by
  refine strip_induction _ ?_ ?_
  · intro sn T _ _ hs n seen hok
    rw [hs]
    exact ⟨n, hok⟩
  · intro sn T e hg hu _ hs ih n seen hok
    rw [hs]
    cases n with
    | zero => simp [inlineOkF] at hok
    | succ n =>
      rw [inlineOkF_good n seen (notC1_of_under_ptr hg hu), hu] at hok
      exact ih n seen hok

/-! ## accepted types compile -/

/-- getReflectFold succeeds on accepted good types of depth ≤ d -/
def CompA (o : FoldOpts) (reg : Bool) (d : Nat) : Prop :=
  ∀ sn T, tdepth T ≤ d → goodC reg sn T = true → ∀ n seen, (∀ x ∈ seen, x ∈ sn) →
    typeOkF n reg seen T = .ok () →
    ∀ cf op, OpIn op sn → 4 * d + 4 ≤ cf → ∃ f, getReflectFold cf o op T = .ok f

/-- the field folders of accepted good fields of depth ≤ d compile -/
def CompF (o : FoldOpts) (reg : Bool) (d : Nat) : Prop :=
  ∀ sn fs, tdepthFs fs ≤ d → goodCFs reg sn fs = true → ∀ n seen, (∀ x ∈ seen, x ∈ sn) →
    (∀ f ∈ fs, fieldOkF n reg seen f = .ok ()) →
    ∀ cf op k, OpIn op sn → 4 * d + 6 ≤ cf →
      ∃ fvs, (fs.zipIdx k).mapM (fun (x : Field × Nat) => buildFieldFold cf o op x.1 x.2) = .ok fvs

theorem tdepth_under {sn : List String} {T : GoType} (hg : goodC reg sn T = true) :
    tdepth T.under ≤ tdepth T := by
  cases T <;> simp [GoType.under, tdepth] <;> simp [goodC] at hg

theorem noPrimitive_of_under {sn : List String} {T : GoType} (hg : goodC reg sn T = true)
    (h : unnamedHead T = true → getReflectFoldPrimitive T.under = none) : noPrimitive T := by
  rcases headKind hg with hu | ⟨nm, m, u, rfl⟩
  · have := h hu
    rw [under_unnamed hu] at this
    exact this
  · rfl

/-- the three kinds of heads -/
theorem head_cases {sn : List String} {T : GoType} (hg : goodC reg sn T = true) :
    (∃ n m u, T = .named n m u ∧ isC1 reg T = true) ∨
    (∃ n m u, T = .ptr (.named n m u) ∧ isC1 reg (.named n m u) = true ∧ goodC reg sn (.named n m u) = true) ∨
    plainT reg T = true := by
  by_cases h1 : isC1 reg T = true
  · obtain ⟨n, m, u, rfl, _⟩ := c1_shape hg h1
    exact Or.inl ⟨n, m, u, rfl, h1⟩
  · have h1' : isC1 reg T = false := by simpa using h1
    by_cases h2 : isC2 reg T = true
    · cases T <;> simp only [isC2, Bool.false_eq_true] at h2
      rename_i e
      have he : goodC reg sn e = true := by simpa [goodC] using hg
      obtain ⟨n, m, u, rfl, _⟩ := c1_shape he h2
      exact Or.inr (Or.inl ⟨n, m, u, rfl, h2, he⟩)
    · have h2' : isC2 reg T = false := by simpa using h2
      exact Or.inr (Or.inr (by simp [plainT, h1', h2']))

theorem plain_notC1 {T : GoType} (h : plainT reg T = true) : isC1 reg T = false := by
  simp only [plainT, Bool.and_eq_true, Bool.not_eq_true'] at h; exact h.1

theorem compA_step (o : FoldOpts) (hreg : o.folders = reg) (d : Nat) (hd : d ≤ 1000)
    (ihA : ∀ d' < d, CompA o reg d') (ihF : ∀ d' < d, CompF o reg d') : CompA o reg d := by
  intro sn T hT hg n seen hsub hok cf op hop hcf
  obtain ⟨c, rfl⟩ := exists_succ (k := 0) (by omega : 0 + 1 ≤ cf)
  rcases head_cases hg with ⟨nm, m, u, rfl, h1⟩ | ⟨nm, m, u, rfl, h1, hge⟩ | hpl
  · exact ⟨_, grf_c1 c o op hreg hg h1 hop⟩
  · exact ⟨_, grf_c2 c o op hreg h1⟩
  have h1 := plain_notC1 hpl
  obtain ⟨n', hok', hsub'⟩ := typeOkF_head hg h1 hsub hok
  have hgu := good_under hg
  have hop' := OpIn_enter hop T
  have hdu := tdepth_under hg
  rw [typeOkF_unnamed n' reg _ hgu.2] at hok'
  generalize hU : T.under = U at hok' hgu hdu
  cases U with
  | bool => exact ⟨_, grf_primkind c o op hreg hg hpl hop (p := .bool) (by rw [hU]; rfl)⟩
  | string => exact ⟨_, grf_primkind c o op hreg hg hpl hop (p := .string) (by rw [hU]; rfl)⟩
  | int k => exact ⟨_, grf_primkind c o op hreg hg hpl hop (p := .num k) (by rw [hU]; rfl)⟩
  | float32 => exact ⟨_, grf_primkind c o op hreg hg hpl hop (p := .f32) (by rw [hU]; rfl)⟩
  | float64 => exact ⟨_, grf_primkind c o op hreg hg hpl hop (p := .f64) (by rw [hU]; rfl)⟩
  | iface => exact ⟨_, grf_iface c o op hreg hg hpl hop hU⟩
  | slice e =>
    have he : goodC reg (snU sn T) e = true := by simpa [goodC] using hgu.1
    have hde : tdepth e + 1 ≤ d := by simp only [tdepth] at hdu; omega
    by_cases hfast : unnamedHead T = true ∧ ∃ p, primOf? e = some p
    · obtain ⟨hu, p, hpr⟩ := hfast
      rw [under_unnamed hu] at hU
      subst hU
      exact ⟨_, grf_slice_prim c o op hreg hpr⟩
    · have hnp : noPrimitive T := by
        refine noPrimitive_of_under hg ?_
        intro hu
        rw [hU]
        cases hpr : primOf? e with
        | some p => exact absurd ⟨hu, p, hpr⟩ hfast
        | none => simp [getReflectFoldPrimitive, hpr]
      obtain ⟨c', rfl⟩ := exists_succ (k := 0) (by omega : 0 + 1 ≤ c)
      obtain ⟨el, hel⟩ := ihA (d - 1) (by omega) _ e (by omega) he n' _ hsub' hok' c' _ hop' (by omega)
      exact ⟨_, by rw [grf_slice c' o op hreg hg hpl hop hU hnp, hel]⟩
  | array k e =>
    have he : goodC reg (snU sn T) e = true := by simpa [goodC] using hgu.1
    have hde : tdepth e + 1 ≤ d := by simp only [tdepth] at hdu; omega
    obtain ⟨c', rfl⟩ := exists_succ (k := 0) (by omega : 0 + 1 ≤ c)
    obtain ⟨el, hel⟩ := ihA (d - 1) (by omega) _ e (by omega) he n' _ hsub' hok' c' _ hop' (by omega)
    exact ⟨_, by rw [grf_array c' o op hreg hg hpl hop hU, hel]⟩
  | map k e =>
    have hke : goodC reg (snU sn T) k = true ∧ goodC reg (snU sn T) e = true := by simpa [goodC] using hgu.1
    have hde : tdepth e + 1 ≤ d := by simp only [tdepth] at hdu; omega
    simp only [] at hok'
    by_cases hk : isStringKind k = true
    · simp only [hk, if_true] at hok'
      have hks := isStringKind_iff.mp hk
      by_cases hfast : unnamedHead T = true ∧ k = .string ∧ ∃ p, primOf? e = some p
      · obtain ⟨hu, rfl, p, hpr⟩ := hfast
        rw [under_unnamed hu] at hU
        subst hU
        exact ⟨_, grf_map_prim c o op hreg hpr⟩
      · have hnp : noPrimitive T := by
          refine noPrimitive_of_under hg ?_
          intro hu
          rw [hU]
          by_cases hk2 : k = .string
          · subst hk2
            cases hpr : primOf? e with
            | some p => exact absurd ⟨hu, rfl, p, hpr⟩ hfast
            | none => simp [getReflectFoldPrimitive, hpr]
          · exact getReflectFoldPrimitive_map_nonstring hk2
        obtain ⟨c', rfl⟩ := exists_succ (k := 1) (by omega : 1 + 1 ≤ c)
        obtain ⟨c'', rfl⟩ := exists_succ (k := 0) (by omega : 0 + 1 ≤ c')
        rw [grf_map c'' o op hreg hg hpl hop hU hnp, grfmk_good c'' o _ hU]
        simp only [hks]
        by_cases hi : e = .iface
        · subst hi; exact ⟨_, rfl⟩
        · cases hpr : primOf? e with
          | some p =>
            refine ⟨.mapFold (.mapInline (some p)), ?_⟩
            cases e <;> first | (exact absurd rfl hi) | (simp only [hpr])
          | none =>
            obtain ⟨el, hel⟩ := ihA (d - 1) (by omega) _ e (by omega) hke.2 n' _ hsub' hok' c'' _ hop' (by omega)
            refine ⟨.mapFold (.mapKeys el), ?_⟩
            cases e <;> first | (exact absurd rfl hi) | (simp only [hpr, hel])
    · simp [hk] at hok'
  | ptr e =>
    obtain ⟨c', rfl⟩ := exists_succ (k := 0) (by omega : 0 + 1 ≤ c)
    have hb := baseType_good hg (by omega : tdepth T ≤ 1000)
    have hdb := tdepth_stripPtr T
    have hs := stripPtr_of_under_ptr hU (headKind hg)
    have hge : goodC reg (snU sn T) e = true := by simpa [goodC] using hgu.1
    obtain ⟨n2, seen2, sn2, h1, h2, h3, h4⟩ := typeOkF_strip _ e hge n' _ hsub' hok'
    have hs1 : 1 ≤ (stripPtr T).1 := by rw [hs]; simp
    obtain ⟨el, hel⟩ := ihA (d - 1) (by omega) sn2 (stripPtr e).2 (by rw [hs] at hdb; simp only [] at hdb; omega)
      h2 n2 seen2 h3 h1 c' (op.enter T) (OpIn_mono hop' h4) (by omega)
    refine ⟨makePointerFold (stripPtr T).1 el, ?_⟩
    rw [grf_ptr c' o op hreg hg hpl hop hU, hb]
    have : (stripPtr T).2 = (stripPtr e).2 := by rw [hs]
    rw [this, hel]
  | struct fs =>
    have hfs : goodCFs reg (snU sn T) fs = true := by simpa [goodC] using hgu.1
    have hde : tdepthFs fs + 1 ≤ d := by simp only [tdepth] at hdu; omega
    obtain ⟨c', rfl⟩ := exists_succ (k := 0) (by omega : 0 + 1 ≤ c)
    obtain ⟨fvs, hfvs⟩ := ihF (d - 1) (by omega) _ fs (by omega) hfs n' _ hsub' (forM_ok hok') c' _ 0 hop' (by omega)
    refine ⟨.structFold (fvs.filterMap id) (structFoldLen fs (fvs.filterMap id).length), ?_⟩
    rw [grf_struct (c' + 1) o op hreg hg hpl hop hU, grfs_eq, hfvs]
    rfl
  | named a b c => simp [unnamedHead] at hgu
  | ref a => simp [unnamedHead] at hgu
  | chan e => simp at hok'
  | other k => simp at hok'

theorem goodF_typ {sn : List String} {f : Field} (h : goodCF reg sn f = true) : goodC reg sn f.typ = true := by
  cases f; simp only [goodCF, Bool.and_eq_true] at h; exact h.1.1

theorem goodF_notIface {sn : List String} {f : Field} (h : goodCF reg sn f = true) : inlineIfaceF f = false := by
  cases f; simp only [goodCF, Bool.and_eq_true, Bool.not_eq_true'] at h; exact h.1.2

theorem goodF_notNil {sn : List String} {f : Field} (h : goodCF reg sn f = true) : inlineNilF reg f = false := by
  cases f; simp only [goodCF, Bool.and_eq_true, Bool.not_eq_true'] at h; exact h.2

theorem compF_step (o : FoldOpts) (hreg : o.folders = reg) (d : Nat) (hd : d ≤ 1000) (hA : CompA o reg d)
    (ihA : ∀ d' < d, CompA o reg d') (ihF : ∀ d' < d, CompF o reg d') : CompF o reg d := by
  intro sn fs
  induction fs with
  | nil => intro _ _ _ _ _ _ cf op k _ _; exact ⟨[], rfl⟩
  | cons f fs ih =>
    intro hT hp n seen hsub hok cf op k hop hcf
    simp only [tdepthFs] at hT
    simp only [goodCFs, Bool.and_eq_true] at hp
    obtain ⟨fvs, hfvs⟩ := ih (by omega) hp.2 n seen hsub (fun g hg => hok g (by simp [hg])) cf op (k + 1) hop hcf
    have hf := hok f (by simp)
    have hpt := goodF_typ hp.1
    have hdt : tdepth f.typ ≤ d := by rw [← tdepthF_typ]; omega
    suffices h : ∃ fo, buildFieldFold cf o op f k = .ok fo by
      obtain ⟨fo, hfo⟩ := h
      exact ⟨fo :: fvs, by rw [zipIdx_cons, mapM_cons]; simp only [hfo, hfvs]⟩
    cases n with
    | zero => simp [fieldOkF] at hf
    | succ n =>
    rw [fieldOkF_eq] at hf
    obtain ⟨c, rfl⟩ := exists_succ (k := 0) (by omega : 0 + 1 ≤ cf)
    rw [buildFieldFold_eq]
    cases hk : fieldKind f with
    | drop => exact ⟨_, rfl⟩
    | conflict => simp [hk] at hf
    | plain name =>
      simp only [hk] at hf ⊢
      obtain ⟨vv, hvv⟩ := hA sn f.typ hdt hpt n seen hsub hf c op hop (by omega)
      exact ⟨_, by rw [hvv]⟩
    | omitEmpty name =>
      simp only [hk] at hf ⊢
      obtain ⟨n', seen', sn', h1, h2, h3, h4⟩ := typeOkF_strip sn f.typ hpt n seen hsub hf
      have hdb := tdepth_stripPtr f.typ
      obtain ⟨vv, hvv⟩ := hA sn' (stripPtr f.typ).2 (by omega) h2 n' seen' h3 h1 c op (OpIn_mono hop h4) (by omega)
      rw [baseType_good hpt (by omega), hvv]
      simp only []
      split <;> exact ⟨_, rfl⟩
    | inline =>
      simp only [hk] at hf ⊢
      have hdb := tdepth_stripPtr f.typ
      obtain ⟨sn', hsn', hpb⟩ := good_stripPtr f.typ sn hpt
      have hop1 := OpIn_mono hop hsn'
      obtain ⟨c2, rfl⟩ := exists_succ (k := 0) (by omega : 0 + 1 ≤ c)
      have hbt := baseType_good hpt (by omega : tdepth f.typ ≤ 1000)
      rw [bffi_good c2 o op f k (sn := sn') (by rw [hbt]; exact hpb) hop1, hbt]
      suffices h : ∃ base, fieldFoldGenInline c2 o (enterInl op (stripPtr f.typ).2) (stripPtr f.typ).2 = .ok base by
        obtain ⟨base, hbase⟩ := h
        exact ⟨_, by rw [hbase]; rfl⟩
      obtain ⟨c3, rfl⟩ := exists_succ (k := 0) (by omega : 0 + 1 ≤ c2)
      by_cases hb1 : isC1 reg (stripPtr f.typ).2 = true
      · obtain ⟨bn, bm, bu, hbe, _⟩ := c1_shape hpb hb1
        rw [hbe] at hb1 hpb ⊢
        exact ⟨_, ffgi_c1 c3 o _ hreg hpb hb1⟩
      have hb1' : isC1 reg (stripPtr f.typ).2 = false := by simpa using hb1
      obtain ⟨n', hn'⟩ := inlineOkF_strip sn f.typ hpt n seen hf
      cases n' with
      | zero => simp [inlineOkF] at hn'
      | succ n' =>
      rw [inlineOkF_good n' seen hb1'] at hn'
      have hnp' := stripPtr_not_ptr' hpt
      rw [ffgi_good c3 o _ hreg hpb hb1' hnp']
      have hop2 := OpIn_enterInl hop1 (stripPtr f.typ).2
      have hgu := good_under hpb
      have hdu := tdepth_under hpb
      have hsub1 : ∀ x ∈ seen, x ∈ sn' := fun x hx => hsn' x (hsub x hx)
      have hnp := stripPtr_not_ptr f.typ sn hpt
      generalize (stripPtr f.typ).2 = bt at hn' hpb hdb hop2 hgu hdu hnp hb1' ⊢
      generalize hU : bt.under = U at hn' hgu hdu ⊢
      cases U with
      | struct fs' =>
        simp only [] at hn' ⊢
        obtain ⟨n2, hn2, hsub2⟩ := typeOkF_head hpb hb1' hsub1 hn'
        rw [hU, typeOkF_unnamed n2 reg _ hgu.2] at hn2
        have hfs' : goodCFs reg (snU sn' bt) fs' = true := by simpa [goodC] using hgu.1
        have hd' : tdepthFs fs' + 1 ≤ d := by simp only [tdepth] at hdu; omega
        obtain ⟨c4, rfl⟩ := exists_succ (k := 0) (by omega : 0 + 1 ≤ c3)
        obtain ⟨fvs', hfvs'⟩ := ihF (d - 1) (by omega) _ fs' (by omega) hfs' n2 _ hsub2 (forM_ok hn2) c4 _ 0 hop2 (by omega)
        exact ⟨.fieldsFold (fvs'.filterMap id), by rw [grfs_eq, hfvs']; rfl⟩
      | map k' e =>
        simp only [] at hn' ⊢
        obtain ⟨n2, hn2, hsub2⟩ := typeOkF_head hpb hb1' hsub1 hn'
        rw [hU, typeOkF_unnamed n2 reg _ hgu.2] at hn2
        have hke : goodC reg (snU sn' bt) k' = true ∧ goodC reg (snU sn' bt) e = true := by simpa [goodC] using hgu.1
        have hde : tdepth e + 1 ≤ d := by simp only [tdepth] at hdu; omega
        simp only [] at hn2
        by_cases hks : isStringKind k' = true
        · simp only [hks, if_true] at hn2
          have hku := isStringKind_iff.mp hks
          obtain ⟨c4, rfl⟩ := exists_succ (k := 0) (by omega : 0 + 1 ≤ c3)
          rw [grfmk_good c4 o _ hU]
          simp only [hku]
          by_cases hi : e = .iface
          · subst hi; exact ⟨_, rfl⟩
          · cases hpr : primOf? e with
            | some p =>
              refine ⟨.mapInline (some p), ?_⟩
              cases e <;> first | (exact absurd rfl hi) | (simp only [hpr])
            | none =>
              obtain ⟨el, hel⟩ := ihA (d - 1) (by omega) _ e (by omega) hke.2 n2 _ hsub2 hn2 c4 _
                (OpIn_mono hop2 (fun _ hx => hx)) (by omega)
              refine ⟨.mapKeys el, ?_⟩
              cases e <;> first | (exact absurd rfl hi) | (simp only [hpr, hel])
        · simp [hks] at hn2
      | iface => exact ⟨_, rfl⟩
      | ptr e => exact absurd hU (hnp e)
      | _ => simp at hn'

theorem compile_ok_all (o : FoldOpts) (hreg : o.folders = reg) : ∀ d, d ≤ 1000 → CompA o reg d ∧ CompF o reg d := by
  intro d
  induction d using Nat.strongRecOn with
  | _ d ih =>
    intro hd
    have hA := compA_step o hreg d hd (fun d' h => (ih d' h (by omega)).1) (fun d' h => (ih d' h (by omega)).2)
    exact ⟨hA, compF_step o hreg d hd hA (fun d' h => (ih d' h (by omega)).1) (fun d' h => (ih d' h (by omega)).2)⟩

/-- a good type the specification accepts compiles, given fuel for its depth -/
theorem compile_ok (o : FoldOpts) (hreg : o.folders = reg) {T : GoType} (hp : goodC reg [] T = true)
    (hd : tdepth T ≤ dynBound) {n : Nat} (hok : typeOkF n reg [] T = .ok ()) :
    ∃ f, getReflectFold compileFuel o {} T = .ok f := by
  unfold dynBound at hd
  exact (compile_ok_all o hreg (tdepth T) (by omega)).1 [] T (Nat.le_refl _) hp n []
    (fun _ hx => by cases hx) hok compileFuel {} (OpIn_empty _) (by unfold compileFuel; omega)

/-- the same, for a type met below some names (`sn`) -/
theorem compile_ok' (o : FoldOpts) (hreg : o.folders = reg) {sn seen : List String} {T : GoType}
    (hp : goodC reg sn T = true) (hd : tdepth T ≤ dynBound) (hsub : ∀ x ∈ seen, x ∈ sn) {n : Nat}
    (hok : typeOkF n reg seen T = .ok ()) : ∃ f, getReflectFold compileFuel o {} T = .ok f := by
  unfold dynBound at hd
  exact (compile_ok_all o hreg (tdepth T) (by omega)).1 sn T (Nat.le_refl _) hp n seen hsub hok compileFuel {}
    (OpIn_empty _) (by unfold compileFuel; omega)

end SF.FoldProofs.Custom
