/-
  The Unfolder mirror (SF/Gotype/Unfold.lean) on targets with STRUCTS — PROPERTY THEOREMS (namespace
  SF.UnfProofs.Struct): C14 (no panic, no fuel exhaustion, no model gap, for ANY event sequence; a completed
  document leaves the Unfolder idle) for the family `TTS` of target types:

      bool, string, all integer widths, float32/64, interface{}            (as in the family `TT`)
      []T, map[string]T, *T                                                  (as in the family `TT`)
      struct types — fields of every type of the family, tag names, `inline` / `squash` fields (flattened with
        their offsets, to any depth), `omit` / `-` / unexported fields, unknown keys (the ignore states),
        nested structs, pointers to / slices of / maps of structs
      named types over all of these (`type MyInts []MyInt`, `type MyIn In`), looked through by `Kind()`
      SELF-REFERENTIAL types (`type List struct { V int; Next *List }`, `type Tree struct { Kids []Tree; … }`,
        mutually recursive pairs, `type RL []RL`, `type RM map[string]RM`): the lazy placeholder
        (`lazyReflUnfolder`) resolved through the registry

  i.e. the whole struct menagerie of SF/Gotype/Menagerie.lean that `SetTarget` accepts.

  EXCLUDED (stated by the decidable predicate `SF.Unf.Str.TTS tbl ns t`, `ns` = the named types of the table
  the target refers to):
    * arrays, maps with non-string keys, chan / func / complex / uintptr — anywhere in the type, also in
      unexported or omitted fields (in exported fields `SetTarget` refuses them anyway);
    * a type table in which a name does not mean what an occurrence of the named type spells out (`nameOK`;
      Go's type identity excludes it: the registry of compiled unfolders is keyed by name);
    * element types whose zero value the mirror's `zero` (fuel 256) does not build completely — types nested
      BY VALUE more than 256 levels deep, or containing themselves by value (impossible in Go) — and
      pointer types that lead to themselves through pointers and names only (`type P *P`: accepted by
      `SetTarget`, every non-nil scalar then recurses forever — in the mirror: fuel exhaustion) (`elemOK`);
    * user unfolders, the Expander: not in the mirror.

  Helper files (new, SF/Proofs/UnfStr*.lean, namespace SF.Unf.Str): `UnfStrShape` (`HasTy`: the layout of a
  value of a type, inductive over the value; `TyAt`: types along field / index paths; the store lemma),
  `UnfStrFrames` (`RUOk`: a compiled unfolder is consistent with a type; the frames, now with struct and
  ignore states; `Inv`), `UnfStrInv`, `UnfStrTpl`, `UnfStrSub`, `UnfStrRefl`, `UnfStrInit`, `UnfStrStruct`
  (the struct and ignore states), `UnfStrScalar`, `UnfStrStart`, `UnfStrEnd`, `UnfStrStep` (`run_struct`),
  `UnfStrFamily` (`TTS` and its decidable parts), `UnfStrCompile` (`lookupReflUnfolder` / `buildReflUnfolder`
  / `fieldUnfolders` yield consistent unfolders and a consistent registry), `UnfStrSet` (`SetTarget`),
  `UnfStrCheck` (a decidable consistency check for compiled unfolders, used for the non-vacuity examples).
  The theorems for the struct-free family `TT` (SF/Proofs/UnfTy*.lean, UnfConsTop.lean) are untouched.
-/
import SF.Proofs.UnfConsTop
import SF.Proofs.UnfStrSet
import SF.Proofs.UnfStrCheck
import SF.Gotype.Menagerie
namespace SF.UnfProofs.Struct
open SF SF.Unf SF.Ops.Unf
open SF.UnfProofs.Cons (deliver deliverExpanded Idle XEv.badStart)

/-- THE FAMILY of target types (decidable): see the header; `ns` lists the named types of the table `tbl`
the target refers to, directly or indirectly -/
abbrev TTS (tbl : TypeTable) (ns : List String) (t : GoType) : Bool := SF.Unf.Str.TTS tbl ns t

/-- the value the target variable holds is laid out like a value of its type: slices are slices carrying
the type's element type — and so are their elements, visible or hidden in the capacity —, maps are maps,
struct values have one value of the field's type per field (names looked through; nothing is asked of
scalars, pointers, interfaces, map entries).  True for every Go value of the type; decidable
(`shaped_of_check`), and true for the zero value of every type whose `zero` the mirror builds completely. -/
def Shaped (tbl : TypeTable) (t : GoType) (v : GoVal) : Prop := SF.Unf.Str.HasTy tbl t v

theorem shaped_of_check (tbl : TypeTable) (t : GoType) (v : GoVal) (h : SF.Unf.Str.hasTyB tbl t v = true) :
    Shaped tbl t v := SF.Unf.Str.hasTyB_sound tbl v t h

/-- the registry of compiled unfolders (it survives `Reset`) is consistent with the type table: every
entry is a real unfolder (no placeholder) consistent with the type of its name.  True for a new Unfolder
(`regOK_new`) and after every accepted `SetTarget` with the same table (`setTarget_regOK`,
`struct_complete_is_idle`). -/
def RegOK (tbl : TypeTable) (c : Ctx) : Prop := SF.Unf.Str.RegOK tbl c.reg SF.Unf.Str.chainMax

theorem regOK_new (tbl : TypeTable) : RegOK tbl newUnfolder := SF.Unf.Str.regOK_nil tbl _
theorem regOK_enableKeyCache (tbl : TypeTable) (c : Ctx) (n : Int) (h : RegOK tbl c) : RegOK tbl (enableKeyCache c n) := h
theorem regOK_reset (tbl : TypeTable) (c : Ctx) (h : RegOK tbl c) : RegOK tbl (reset c) := h

/-- `SetTarget` keeps the registry consistent -/
theorem setTarget_regOK (tbl : TypeTable) (ns : List String) (t : GoType) (v0 : GoVal) (c c0 : Ctx)
    (hT : TTS tbl ns t = true) (hidle : Idle c) (hreg : RegOK tbl c) (hv0 : Shaped tbl t v0)
    (hset : setTarget tbl t v0 c = .ok c0) : RegOK tbl c0 := by
  obtain ⟨F, hinv, _, _⟩ := SF.Unf.Str.setTarget_inv t v0 c c0 hT hset hidle.arrays hidle.mapAny hidle.mapPrimitive hreg hv0
  exact hinv.regOK

/-- C14 (no-panic clause) FOR TARGETS WITH STRUCTS, EVERY EVENT SEQUENCE.  `SetTarget(&v)` for a `v` of any
type `t` of the family `TTS` (holding any value of that type) on an idle Unfolder with a consistent
registry, followed by ANY sequence of events (keys by value; by reference: `any_ext_events_into_struct`) —
mismatching, unbalanced, truncated, keys outside objects, unknown keys with values of any shape, duplicate
keys, wrong announced lengths, out-of-range numbers, containers where scalars belong, events after the
document is complete … — with the fuel the op handlers use (`typeFuel` = 256) or more: if `SetTarget`
accepts the type, the outcome is `.ok`, or an ERROR, or — only if the sequence contains a container start
announcing an element-type code 17 … 255 (reaching an `interface{}` position) — the documented panic of
`makeArrayPtr` / `makeMapPtr`.  Never fuel exhaustion, never a model gap (no stale pointer, no value of the
wrong layout behind a pointer, no field path that does not resolve, no unregistered or placeholder registry
entry), and no other panic: no pop of an empty stack, no nil dereference (in particular not of the struct
pointer in `unfolderStruct.OnKey`), no write to a nil map, no out-of-range scratch slot. -/
theorem any_events_into_struct (fuel : Nat) (hf : typeFuel ≤ fuel) (tbl : TypeTable) (ns : List String) (t : GoType)
    (v0 : GoVal) (c c0 : Ctx) (es : List UEv) (hes : ∀ e ∈ es, ¬ e.isKeyRef) (hT : TTS tbl ns t = true)
    (hidle : Idle c) (hreg : RegOK tbl c) (hv0 : Shaped tbl t v0) (hset : setTarget tbl t v0 c = .ok c0) :
    (∃ c', run fuel es c0 = .ok () c') ∨
    (∃ e c', run fuel es c0 = .err e c') ∨
    (∃ c' e, run fuel es c0 = .panic c' ∧ e ∈ es ∧ e.badStart) := by
  obtain ⟨F, hinv, hR, _⟩ := SF.Unf.Str.setTarget_inv t v0 c c0 hT hset hidle.arrays hidle.mapAny hidle.mapPrimitive hreg hv0
  rcases SF.Unf.Str.run_struct (base := c.s6) hidle.unfolder fuel
      (by unfold typeFuel at hf; unfold SF.Unf.Str.chainMax; omega) es hes [F] c0 hinv hR with
    ⟨c', _, h, _, _⟩ | h | h
  · exact Or.inl ⟨c', h⟩
  · exact Or.inr (Or.inl h)
  · exact Or.inr (Or.inr h)

/-- … for BASIC events (`structform.Visitor`), as the op `unf` delivers them -/
theorem any_basic_events_into_struct (fuel : Nat) (hf : typeFuel ≤ fuel) (tbl : TypeTable) (ns : List String)
    (t : GoType) (v0 : GoVal) (c c0 : Ctx) (evs : List Ev) (hT : TTS tbl ns t = true) (hidle : Idle c)
    (hreg : RegOK tbl c) (hv0 : Shaped tbl t v0) (hset : setTarget tbl t v0 c = .ok c0) :
    (∃ c', run fuel (evs.map evToUEv) c0 = .ok () c') ∨
    (∃ e c', run fuel (evs.map evToUEv) c0 = .err e c') ∨
    (∃ c' e, run fuel (evs.map evToUEv) c0 = .panic c' ∧ e ∈ evs ∧ XEv.badStart (.ev e)) := by
  have hes : ∀ e ∈ evs.map evToUEv, ¬ e.isKeyRef := by
    intro e he
    obtain ⟨e0, _, rfl⟩ := List.mem_map.mp he
    cases e0 <;> exact fun h => h
  rcases any_events_into_struct fuel hf tbl ns t v0 c c0 _ hes hT hidle hreg hv0 hset with h | h | ⟨c', e, h, hm, hb⟩
  · exact Or.inl h
  · exact Or.inr (Or.inl h)
  · obtain ⟨e0, hm0, rfl⟩ := List.mem_map.mp hm
    refine Or.inr (Or.inr ⟨c', e0, h, hm0, ?_⟩)
    cases e0 <;> first | exact hb | exact hb.elim

/-- … with valid element-type codes: ok or error, nothing else -/
theorem no_panic_any_events_into_struct (fuel : Nat) (hf : typeFuel ≤ fuel) (tbl : TypeTable) (ns : List String)
    (t : GoType) (v0 : GoVal) (c c0 : Ctx) (es : List UEv) (hes : ∀ e ∈ es, ¬ e.isKeyRef) (hT : TTS tbl ns t = true)
    (hidle : Idle c) (hreg : RegOK tbl c) (hv0 : Shaped tbl t v0) (hset : setTarget tbl t v0 c = .ok c0)
    (hcodes : ∀ e ∈ es, ¬ e.badStart) :
    (∃ c', run fuel es c0 = .ok () c') ∨ (∃ e c', run fuel es c0 = .err e c') := by
  rcases any_events_into_struct fuel hf tbl ns t v0 c c0 es hes hT hidle hreg hv0 hset with h | h | ⟨c', e, _, hm, hb⟩
  · exact Or.inl h
  · exact Or.inr h
  · exact absurd hb (hcodes e hm)

/-- … and whenever the sequence is accepted and has brought the unfolder stack back to `unfolderNoTarget`
(the document is complete), ALL six stacks are exactly those of the idle Unfolder, every scratch slot has
been released and the registry is consistent: the Unfolder is idle again, ready for the next `SetTarget`
with the same type table -/
theorem struct_complete_is_idle (fuel : Nat) (hf : typeFuel ≤ fuel) (tbl : TypeTable) (ns : List String) (t : GoType)
    (v0 : GoVal) (c c0 c' : Ctx) (es : List UEv) (hes : ∀ e ∈ es, ¬ e.isKeyRef) (hT : TTS tbl ns t = true)
    (hidle : Idle c) (hreg : RegOK tbl c) (hv0 : Shaped tbl t v0) (hset : setTarget tbl t v0 c = .ok c0)
    (hrun : run fuel es c0 = .ok () c') (hdone : c'.unfolder.stack = []) :
    Idle c' ∧ RegOK tbl c' ∧ c'.ptr = c.ptr ∧ c'.value = c.value ∧ c'.key = c.key ∧ c'.idx = c.idx ∧
      c'.baseType = c.baseType ∧ c'.env = tbl := by
  obtain ⟨F, hinv, hR, _⟩ := SF.Unf.Str.setTarget_inv t v0 c c0 hT hset hidle.arrays hidle.mapAny hidle.mapPrimitive hreg hv0
  rcases SF.Unf.Str.run_struct (base := c.s6) hidle.unfolder fuel
      (by unfold typeFuel at hf; unfold SF.Unf.Str.chainMax; omega) es hes [F] c0 hinv hR with
    ⟨c'', fs', h, hinv', hR'⟩ | ⟨e, c'', h⟩ | ⟨c'', e, h, _⟩
  · rw [hrun] at h
    injection h with _ h
    subst h
    cases fs' with
    | nil =>
      obtain ⟨hu, hp, hv, hk, hi, hb⟩ := s6_eq _ _ hinv'.stacks
      refine ⟨⟨hu.trans hidle.unfolder, hinv'.nA, hinv'.nMA, hinv'.nMP⟩, ?_, hp, hv, hk, hi, hb, hinv'.env⟩
      have : c'.reg = c0.reg := hinv'.reg
      unfold RegOK
      rw [this]
      exact hinv'.regOK
    | cons G fs2 =>
      -- a frame with an unfolder state is left: the unfolder stack is not empty
      have hcur := hinv'.uEq
      have hU : G.hasU := hR'.1
      exfalso
      cases G <;> first | exact hU.elim |
        (simp only [SF.Unf.Str.stacksOf, SF.Unf.Str.Frame.push] at hcur; rw [hcur] at hdone; simp [Stk.push] at hdone)
  · rw [hrun] at h; cases h
  · rw [hrun] at h; cases h

/-- C14 FOR TARGETS WITH STRUCTS, EVERY EXTENDED EVENT SEQUENCE (typed arrays / maps, strings and keys by
reference — `unfolderStruct.OnKeyRef` goes through `bytes2Str`, the map unfolders through the key cache),
with a key cache that has its invariant (C20) -/
theorem any_ext_events_into_struct (fuel : Nat) (hf : typeFuel ≤ fuel) (tbl : TypeTable) (ns : List String)
    (t : GoType) (v0 : GoVal) (c c0 : Ctx) (xs : List XEv) (hT : TTS tbl ns t = true) (hidle : Idle c)
    (hreg : RegOK tbl c) (hkc : Symbols.Inv c.keyCache) (hv0 : Shaped tbl t v0)
    (hset : setTarget tbl t v0 c = .ok c0) :
    (∃ c', run fuel (deliver xs) c0 = .ok () c') ∨
    (∃ e c', run fuel (deliver xs) c0 = .err e c') ∨
    (∃ c' x, run fuel (deliver xs) c0 = .panic c' ∧ x ∈ xs ∧ XEv.badStart x) := by
  obtain ⟨kc', _, hx⟩ := SF.UnfProofs.Cons.ext_events_mean_expansion_any_target fuel tbl t v0 xs c c0 hkc hset
  have hes : ∀ e ∈ deliverExpanded xs, ¬ e.isKeyRef := by
    intro e he
    rw [← SF.UnfProofs.Cons.deliver_deref] at he
    obtain ⟨e0, _, rfl⟩ := List.mem_map.mp he
    exact SF.UnfProofs.Cons.deref_not_keyRef e0
  rcases any_events_into_struct fuel hf tbl ns t v0 c c0 (deliverExpanded xs) hes hT hidle hreg hv0 hset with
    ⟨c', h⟩ | ⟨e, c', h⟩ | ⟨c', e, h, hm, hb⟩
  · rw [h] at hx; exact Or.inl ⟨_, hx⟩
  · rw [h] at hx; exact Or.inr (Or.inl ⟨e, _, hx⟩)
  · rw [h] at hx
    rw [← SF.UnfProofs.Cons.deliver_deref] at hm
    obtain ⟨e0, hm0, rfl⟩ := List.mem_map.mp hm
    obtain ⟨x, hxm, hbx⟩ := SF.UnfProofs.Cons.badStart_of_deliver xs e0 hm0 (SF.UnfProofs.Cons.deref_not_bad e0 hb)
    exact Or.inr (Or.inr ⟨_, x, hx, hxm, hbx⟩)

/-! ## the same from a compiled unfolder

`SetTarget` = compile the type (`lookupReflUnfolder`, with the tag parser) + `initState`.  The two theorems
below start after the compilation, from ANY compiled unfolder `ru` and registry `R` that pass the decidable
consistency check (`ruOKb`, `regOKb`: sound for what `UnfStrCompile` proves about every unfolder
`SetTarget` compiles for a type of the family).  They are what the evaluated examples instantiate: the
kernel does not evaluate the `String` functions of the tag parser (`splitOn`, `trim`), so for struct types
with exported fields `setTarget … = .ok c0` cannot be shown by `decide +kernel`. -/

theorem any_events_into_compiled (fuel : Nat) (hf : typeFuel ≤ fuel) (tbl : TypeTable) (t : GoType) (v0 : GoVal)
    (c c0 : Ctx) (R : Reg) (ru : RU) (es : List UEv) (hes : ∀ e ∈ es, ¬ e.isKeyRef) (hidle : Idle c)
    (hreg : SF.Unf.Str.regOKb tbl R = true) (hok : SF.Unf.Str.ruOKb tbl R ru t = true) (hv0 : Shaped tbl t v0)
    (hinit : initStateRU ru (some ⟨.target, []⟩) ({ c with target := v0, env := tbl, reg := R } : Ctx) = .ok () c0) :
    (∃ c', run fuel es c0 = .ok () c') ∨
    (∃ e c', run fuel es c0 = .err e c') ∨
    (∃ c' e, run fuel es c0 = .panic c' ∧ e ∈ es ∧ e.badStart) := by
  obtain ⟨F, c', hinit', hinv, hR⟩ := SF.Unf.Str.init_target (tbl := tbl) c v0 R t ru hidle.arrays hidle.mapAny
    hidle.mapPrimitive hv0 (SF.Unf.Str.regOKb_sound hreg) (SF.Unf.Str.ruOKb_sound tbl R ru t hok)
  rw [hinit] at hinit'
  injection hinit' with _ hc
  subst hc
  rcases SF.Unf.Str.run_struct (base := c.s6) hidle.unfolder fuel
      (by unfold typeFuel at hf; unfold SF.Unf.Str.chainMax; omega) es hes [F] c0 hinv hR with
    ⟨c', _, h, _, _⟩ | h | h
  · exact Or.inl ⟨c', h⟩
  · exact Or.inr (Or.inl h)
  · exact Or.inr (Or.inr h)

theorem compiled_complete_is_idle (fuel : Nat) (hf : typeFuel ≤ fuel) (tbl : TypeTable) (t : GoType) (v0 : GoVal)
    (c c0 c' : Ctx) (R : Reg) (ru : RU) (es : List UEv) (hes : ∀ e ∈ es, ¬ e.isKeyRef) (hidle : Idle c)
    (hreg : SF.Unf.Str.regOKb tbl R = true) (hok : SF.Unf.Str.ruOKb tbl R ru t = true) (hv0 : Shaped tbl t v0)
    (hinit : initStateRU ru (some ⟨.target, []⟩) ({ c with target := v0, env := tbl, reg := R } : Ctx) = .ok () c0)
    (hrun : run fuel es c0 = .ok () c') (hdone : c'.unfolder.stack = []) :
    Idle c' ∧ RegOK tbl c' ∧ c'.ptr = c.ptr ∧ c'.value = c.value ∧ c'.key = c.key ∧ c'.idx = c.idx ∧
      c'.baseType = c.baseType := by
  obtain ⟨F, c1, hinit', hinv, hR⟩ := SF.Unf.Str.init_target (tbl := tbl) c v0 R t ru hidle.arrays hidle.mapAny
    hidle.mapPrimitive hv0 (SF.Unf.Str.regOKb_sound hreg) (SF.Unf.Str.ruOKb_sound tbl R ru t hok)
  rw [hinit] at hinit'
  injection hinit' with _ hc
  subst hc
  rcases SF.Unf.Str.run_struct (base := c.s6) hidle.unfolder fuel
      (by unfold typeFuel at hf; unfold SF.Unf.Str.chainMax; omega) es hes [F] c0 hinv hR with
    ⟨c'', fs', h, hinv', hR'⟩ | ⟨e, c'', h⟩ | ⟨c'', e, h, _⟩
  · rw [hrun] at h
    injection h with _ h
    subst h
    cases fs' with
    | nil =>
      obtain ⟨hu, hp, hv, hk, hi, hb⟩ := s6_eq _ _ hinv'.stacks
      refine ⟨⟨hu.trans hidle.unfolder, hinv'.nA, hinv'.nMA, hinv'.nMP⟩, ?_, hp, hv, hk, hi, hb⟩
      have : c'.reg = R := hinv'.reg
      unfold RegOK
      rw [this]
      exact hinv'.regOK
    | cons G fs2 =>
      have hcur := hinv'.uEq
      have hU : G.hasU := hR'.1
      exfalso
      cases G <;> first | exact hU.elim |
        (simp only [SF.Unf.Str.stacksOf, SF.Unf.Str.Frame.push] at hcur; rw [hcur] at hdone; simp [Stk.push] at hdone)
  · rw [hrun] at h; cases h
  · rw [hrun] at h; cases h

/-! ### non-vacuity -/

/-- the named types of the menagerie (SF/Gotype/Menagerie.lean) that `SetTarget` accepts -/
def menagerie : List String :=
  ["In", "In2", "S1", "S2", "S3", "S4", "Empty", "Geo", "Mid", "List", "Tree", "A", "B", "RL", "RM", "MyInt", "MyStr",
   "MyBool", "MyF", "MyU8", "Strs", "MyInts", "M", "MAny", "Anys", "PInt", "MyAny", "MyIn", "KM", "KMS", "Named"]

/-- THE FAMILY contains the struct menagerie: flat structs, fields of every type of `TT`, nested and inlined
structs (two levels), pointers / slices / maps of structs, named types, the self-referential `List`, `Tree`,
`A` / `B`, `RL`, `RM`; and it excludes what `SetTarget` refuses (arrays, `map[int]T`) -/
example : TTS structTable menagerie tS1 = true ∧ TTS structTable menagerie tS2 = true ∧
    TTS structTable menagerie tS3 = true ∧ TTS structTable menagerie tS4 = true ∧
    TTS structTable menagerie tNamed = true ∧ TTS structTable menagerie tList = true ∧
    TTS structTable menagerie tTree = true ∧ TTS structTable menagerie tA = true ∧
    TTS structTable menagerie (.ref "RL") = true ∧ TTS structTable menagerie (.ref "RM") = true ∧
    TTS structTable menagerie (.slice (.ptr (.ref "S2"))) = true ∧ TTS structTable menagerie tEmpty = true ∧
    TTS structTable menagerie tArr = false ∧ TTS structTable menagerie tIMap = false := by
  refine ⟨?_, ?_, ?_, ?_, ?_, ?_, ?_, ?_, ?_, ?_, ?_, ?_, ?_, ?_⟩ <;> decide +kernel

/-- the other hypotheses: a new Unfolder (with or without key cache) is idle and has a consistent registry;
the zero values have the layout of their types -/
example : Idle newUnfolder ∧ RegOK structTable newUnfolder ∧ RegOK structTable (enableKeyCache newUnfolder 2) ∧
    Shaped structTable tS1 (zero structTable tS1) ∧ Shaped structTable tS2 (zero structTable tS2) ∧
    Shaped structTable tS4 (zero structTable tS4) ∧ Shaped structTable tTree (zero structTable tTree) :=
  ⟨SF.UnfProofs.Cons.idle_new, regOK_new _, regOK_enableKeyCache _ _ _ (regOK_new _),
   shaped_of_check _ _ _ (by decide +kernel), shaped_of_check _ _ _ (by decide +kernel),
   shaped_of_check _ _ _ (by decide +kernel), shaped_of_check _ _ _ (by decide +kernel)⟩

/-- `type UHid struct { hidden int }`: a struct type whose compilation the kernel can evaluate (no exported
field, so the tag parser is not run) -/
def tHid : GoType := .struct "Hid" [("hidden", "", tInt)]
def tblHid : TypeTable := fun n => if n = "Hid" then some tHid else none
/-- `map[string]*UHid` -/
def demoS : GoType := .map (.ptr (.ref "Hid"))

/-- ALL hypotheses of `any_events_into_struct` / `struct_complete_is_idle` for it, `SetTarget` included -/
example : TTS tblHid ["Hid"] demoS = true ∧ Idle newUnfolder ∧ RegOK tblHid newUnfolder ∧
    Shaped tblHid demoS (zero tblHid demoS) ∧
    (match setTarget tblHid demoS (zero tblHid demoS) newUnfolder with
     | .ok _ => true | .error _ => false) = true :=
  ⟨by decide +kernel, SF.UnfProofs.Cons.idle_new, regOK_new _, shaped_of_check _ _ _ (by decide +kernel),
   by decide +kernel⟩

/-- `{"a": {"zz": [1, {"k": null}], "y": 2}, "b": null}` is accepted — through `unfolderReflMap`,
`unfolderReflPtr`, the lazy registry entry of `UHid`, `unfolderStructStart`, `unfolderStruct`, the three
ignore states — and leaves all six stacks idle; a scalar where the struct belongs, and an array end inside
the struct, are refused with errors -/
example :
    (match setTarget tblHid demoS (zero tblHid demoS) newUnfolder with
     | .ok c₀ =>
       (match run typeFuel [.objStart 2 0, .key [0x61], .objStart 2 0, .key [0x7a, 0x7a], .arrStart 2 0,
                            .scalar (.num .i8 1), .objStart 1 0, .key [0x6b], .scalar .nil, .objEnd, .arrEnd,
                            .key [0x79], .scalar (.num .i8 2), .objEnd, .key [0x62], .scalar .nil, .objEnd] c₀ with
        | .ok _ c₁ =>
          c₁.depths == [0, 0, 0, 0, 0, 0] &&
          (match c₁.target with
           | .map _ [([0x61], .ptr _ (.struct [.int .int 0])), ([0x62], .ptrNil _)] => true
           | _ => false)
        | _ => false) &&
       (match run typeFuel [.objStart 2 0, .key [0x61], .scalar (.num .i8 5)] c₀ with
        | .err .expectedObject _ => true
        | _ => false) &&
       (match run typeFuel [.objStart 2 0, .key [0x61], .objStart 0 0, .arrEnd] c₀ with
        | .err .expectedObjectKey _ => true
        | _ => false)
     | .error _ => false) = true := by decide +kernel

/-- what `SetTarget` compiles `type US3 struct { A int; UIn `,inline`; Z UIn2 `,squash`; B string ` b2 , omitempty ` }`
into (`#eval lookupReflUnfolder structTable typeFuel [] [] tS3`; the kernel cannot run the tag parser): the
field table with tag names and the offsets of the inlined structs -/
def ruS3 : RU := .struct [
  ([0x61], [0], .lifted (.prim (.num .int))), ([0x78], [1, 0], .lifted (.prim (.num .int))),
  ([0x77, 0x68, 0x79], [1, 1], .lifted (.prim .string)), ([0x70], [2, 0], .lifted (.prim (.num .u8))),
  ([0x71], [2, 1], .lifted (.arr .ifc)), ([0x72], [2, 2], .lifted (.map .ifc)),
  ([0x62, 0x32], [3], .lifted (.prim .string))]

/-- … and `type UTree struct { Name string; Kids []UTree; M map[string]*UTree; Up **UTree "up" }`: the lazy
placeholders `.ref "Tree"` stand for the registry entry -/
def ruTree : RU := .struct [
  ([0x6e, 0x61, 0x6d, 0x65], [0], .lifted (.prim .string)),
  ([0x6b, 0x69, 0x64, 0x73], [1], .slice (.ref "Tree") (.ref "Tree")),
  ([0x6d], [2], .map (.ptr (.ref "Tree")) (.ptr (.ref "Tree") (.ref "Tree"))),
  ([0x75, 0x70], [3], .ptr (.ptr (.ref "Tree")) (.ptr (.ref "Tree") (.ref "Tree")))]

/-- the hypotheses of `any_events_into_compiled` / `compiled_complete_is_idle` for them -/
example : SF.Unf.Str.regOKb structTable [("S3", ruS3)] = true ∧ SF.Unf.Str.ruOKb structTable [("S3", ruS3)] ruS3 tS3 = true ∧
    SF.Unf.Str.regOKb structTable [("Tree", ruTree)] = true ∧
    SF.Unf.Str.ruOKb structTable [("Tree", ruTree)] ruTree tTree = true := by
  refine ⟨?_, ?_, ?_, ?_⟩ <;> decide +kernel

/-- `{"a": 1, "x": 2, "why": "s", "p": 3, "q": [1, "s"], "r": {"k": true}, "b2": "t", "unknown": {"deep": [1, 2]}}`
into a `US3`: every field through its offset (the inlined ones two steps deep), the unknown member
swallowed; a key for an inlined struct itself (`"uin"`) is unknown; an object where the `int` belongs is
refused -/
example :
    (match initStateRU ruS3 (some ⟨.target, []⟩)
        { newUnfolder with target := zero structTable tS3, env := structTable, reg := [("S3", ruS3)] } with
     | .ok _ c₀ =>
       (match run typeFuel [.objStart 8 0, .key [0x61], .scalar (.num .i8 1), .key [0x78], .scalar (.num .i8 2),
                            .key [0x77, 0x68, 0x79], .scalar (.str [0x73]), .key [0x70], .scalar (.num .i8 3),
                            .key [0x71], .arrStart 2 0, .scalar (.num .i8 1), .scalar (.str [0x73]), .arrEnd,
                            .key [0x72], .objStart 1 0, .key [0x6b], .scalar (.bool true), .objEnd,
                            .key [0x62, 0x32], .scalar (.str [0x74]),
                            .key [0x75, 0x69, 0x6e], .objStart 1 0, .key [0x64], .arrStart 2 0, .scalar (.num .i8 1),
                            .scalar (.num .i8 2), .arrEnd, .objEnd, .objEnd] c₀ with
        | .ok _ c₁ =>
          c₁.depths == [0, 0, 0, 0, 0, 0] && c₁.valueBuffer.arrays.size == 0 && c₁.valueBuffer.mapAny.size == 0 &&
          (match c₁.target with
           | .struct [.int .int 1, .struct [.int .int 2, .str [0x73]],
                      .struct [.int .u8 3, .slice _ [.ifc (.int .i8 1), .ifc (.str [0x73])] [],
                               .map _ [([0x6b], .ifc (.bool true))]], .str [0x74]] => true
           | _ => false)
        | _ => false) &&
       (match run typeFuel [.objStart 1 0, .key [0x61], .objStart 0 0] c₀ with
        | .err .unsupported _ => true
        | _ => false)
     | _ => false) = true := by decide +kernel

/-- `{"name": "r", "kids": [{"name": "k", "kids": []}, {}], "m": {"x": {"name": "m"}}, "up": {"name": "u"}}` into
a `UTree`: the lazy placeholder is resolved at every level -/
example :
    (match initStateRU ruTree (some ⟨.target, []⟩)
        { newUnfolder with target := zero structTable tTree, env := structTable, reg := [("Tree", ruTree)] } with
     | .ok _ c₀ =>
       (match run typeFuel [.objStart 4 0, .key [0x6e, 0x61, 0x6d, 0x65], .scalar (.str [0x72]),
                            .key [0x6b, 0x69, 0x64, 0x73], .arrStart 2 0,
                              .objStart 2 0, .key [0x6e, 0x61, 0x6d, 0x65], .scalar (.str [0x6b]),
                                .key [0x6b, 0x69, 0x64, 0x73], .arrStart 0 0, .arrEnd, .objEnd,
                              .objStart 0 0, .objEnd, .arrEnd,
                            .key [0x6d], .objStart 1 0, .key [0x78], .objStart 1 0, .key [0x6e, 0x61, 0x6d, 0x65],
                              .scalar (.str [0x6d]), .objEnd, .objEnd,
                            .key [0x75, 0x70], .objStart 1 0, .key [0x6e, 0x61, 0x6d, 0x65], .scalar (.str [0x75]), .objEnd,
                            .objEnd] c₀ with
        | .ok _ c₁ =>
          c₁.depths == [0, 0, 0, 0, 0, 0] &&
          (match c₁.target with
           | .struct [.str [0x72],
                      .slice _ [.struct [.str [0x6b], .sliceNil _, .mapNil _, .ptrNil _],
                                .struct [.str [], .sliceNil _, .mapNil _, .ptrNil _]] [],
                      .map _ [([0x78], .ptr _ (.struct [.str [0x6d], .sliceNil _, .mapNil _, .ptrNil _]))],
                      .ptr _ (.ptr _ (.struct [.str [0x75], .sliceNil _, .mapNil _, .ptrNil _]))] => true
           | _ => false)
        | _ => false)
     | _ => false) = true := by decide +kernel

/-! ### the hypotheses are needed -/

/-- `elemOK` (pointer chains): `type P *P` is accepted by `SetTarget`; a non-nil scalar is then forwarded from
pointer to pointer without end — in Go unbounded recursion, in the mirror fuel exhaustion — and the family
excludes the type -/
def tblP : TypeTable := fun n => if n = "P" then some (.named "P" (.ptr (.ref "P"))) else none

example : TTS tblP ["P"] (.ref "P") = false ∧
    (match setTarget tblP (.ref "P") (.ptrNil (.ref "P")) newUnfolder with
     | .ok c₀ =>
       (match run typeFuel [.scalar (.num .i8 5)] c₀, run typeFuel [.scalar .nil] c₀ with
        | .outOfFuel, .ok _ c₁ => c₁.depths == [0, 0, 0, 0, 0, 0]
        | _, _ => false)
     | .error _ => false) = true := by
  refine ⟨?_, ?_⟩ <;> decide +kernel

/-- the fuel hypothesis: with fuel 2 the start of the object for a `**UHid` is not forwarded through both
pointers — the mirror's `outOfFuel` (fuel bounds a recursion the Go code does by method dispatch; `typeFuel`
exceeds every pointer chain `SetTarget` accepts) -/
example :
    (match setTarget tblHid (.ptr (.ptr (.ref "Hid"))) (.ptrNil (.ptr (.ref "Hid"))) newUnfolder with
     | .ok c₀ =>
       (match run 2 [.objStart 0 0] c₀, run typeFuel [.objStart 0 0, .key [0x61], .scalar .nil, .objEnd] c₀ with
        | .outOfFuel, .ok _ c₁ =>
          c₁.depths == [0, 0, 0, 0, 0, 0] &&
          (match c₁.target with | .ptr _ (.ptr _ (.struct [.int .int 0])) => true | _ => false)
        | _, _ => false)
     | .error _ => false) = true := by decide +kernel

/-- `RegOK`: a registry entry that does not fit the type of its name (here: a field at an offset the struct
does not have; with Go's type identity and a registry filled by `SetTarget` only, impossible) is used as
it is: the field pointer does not resolve — a model gap -/
example :
    (match setTarget tblHid (.ref "Hid") (zero tblHid (.ref "Hid"))
        { newUnfolder with reg := [("Hid", .struct [([0x78], [3], .lifted (.prim (.num .int)))])] } with
     | .ok c₀ =>
       (match run typeFuel [.objStart 1 0, .key [0x78], .scalar (.num .i8 1)] c₀ with
        | .gap _ => true
        | _ => false)
     | .error _ => false) = true := by decide +kernel

/-- `Shaped`: a struct variable "holding" `true` is outside what the mirror covers (the model's value
universe is untyped; every Go value of the type has the layout) -/
example :
    (match initStateRU ruS3 (some ⟨.target, []⟩)
        { newUnfolder with target := .bool true, env := structTable, reg := [("S3", ruS3)] } with
     | .ok _ c₀ =>
       (match run typeFuel [.objStart 1 0, .key [0x61], .scalar (.num .i8 1)] c₀ with
        | .gap _ => true
        | _ => false)
     | _ => false) = true := by decide +kernel

/-- `elemOK` (zero values) and `nameOK`: the family excludes a struct type that contains itself by value
behind a pointer (`type X struct { A X; V int }`, impossible in Go: the mirror's `zero` runs out of fuel
and `*X` … `{"a": {"a": … 130 levels … {"v": 1}` ends in a model gap — evaluated with `#eval`, the tag parser
again), and a table in which the name `In` means a one-field struct while the target spells out a two-field
`struct In` next to a reference to it (the registry entry compiled for the one is used for the other:
`{"a": {"q": "s"}}` ends in a model gap — `#eval`) -/
example :
    TTS (fun n => if n = "X" then some (.struct "X" [("A", "", .ref "X"), ("V", "", tInt)]) else none) ["X"]
      (.ptr (.ref "X")) = false ∧
    TTS (fun n => if n = "In" then some (.struct "In" [("X", "", tInt)]) else none) ["In"]
      (.struct "" [("B", "", .struct "In" [("X", "", tInt), ("Q", "", .string)]), ("A", "", .ref "In")]) = false := by
  refine ⟨?_, ?_⟩ <;> decide +kernel

end SF.UnfProofs.Struct
