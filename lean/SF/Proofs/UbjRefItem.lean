/-
  UBJSON refinement: items — start states, marker facts, stepValue on an item's marker, loop
  costs, the valueState discipline, the refinement statement `PLs` and its use for a value
  inside a container / at top level.
-/
import SF.Proofs.UbjRefArr
import SF.Proofs.UbjRefObj
namespace SF.Ubjson.Parse
open SF SF.Ubjson SF.Ubjson.Syn
open StateType StateStep

/-! ## items: start state, marker facts, stepValue -/

def IKstep : IK → StateStep
  | .i8 => stInt8 | .u8 => stUInt8 | .i16 => stInt16 | .i32 => stInt32 | .i64 => stInt64

/-- the state `stepValue` / `stepType` enters on the item's marker -/
def istart : Item → St
  | .null => ⟨stFixed, stNil⟩ | .tru => ⟨stFixed, stTrue⟩ | .fals => ⟨stFixed, stFalse⟩
  | .int k _ => ⟨stFixed, IKstep k⟩
  | .f32 _ => ⟨stFixed, stFloat32⟩ | .f64 _ => ⟨stFixed, stFloat64⟩
  | .char _ => ⟨stFixed, stChar⟩
  | .str _ _ => ⟨stString, stStart⟩ | .hp _ _ => ⟨stHighPrec, stStart⟩
  | .arr _ _ | .arrN _ _ | .arrT _ _ _ => ⟨stArray, stStart⟩
  | .obj _ | .objN _ _ | .objT _ _ _ => ⟨stObject, stStart⟩

/-- Z T F: delivered by stepValue itself -/
def isLit : Item → Bool
  | .null | .tru | .fals => true
  | _ => false

theorem start_of_marker (x : Item) : markerToStartState x.marker = some (istart x) := by
  cases x with
  | int k v => cases k <;> rfl
  | _ => rfl

theorem marker_ne (x : Item) :
    (x.marker == noopMarker) = false ∧ (x.marker == arrEndMarker) = false ∧
    (x.marker == objEndMarker) = false ∧ (x.marker == countMarker) = false ∧
    (x.marker == typeMarker) = false := by
  cases x with
  | int k v => cases k <;> simp +decide [Item.marker, IK.marker]
  | _ => simp +decide [Item.marker]

theorem istart_ne_fail (x : Item) : (istart x).type ≠ stFail := by
  cases x <;> simp [istart]

theorem lit_events (x : Item) (h : isLit x = true) : ∃ e, x.events = [e] ∧ x.payload = [] := by
  cases x <;> simp [isLit] at h <;> simp [Item.events, Item.payload]

theorem stepValue_item (S : List St) (c : St) (VS : StateStack) (LS : List Int) (lc : Int) (vt : Nat)
    (E : List Ev) (x : Item) (bs : Bytes) (hc : c.type ≠ stFail) :
    stepValue (mk S c VS LS lc vt E) (x.marker :: bs) =
      if isLit x then ⟨mk S c VS LS lc vt (x.events.reverse ++ E), bs, true, none⟩
      else ⟨mk (c :: S) (istart x) VS LS lc vt E, bs, false, none⟩ := by
  have hc' : (c.type != stFail) = true := by simpa using hc
  cases x with
  | int k v =>
    cases k <;>
      simp +decide [stepValue, Item.marker, IK.marker, markerToStartState, isLit, istart, IKstep, mk,
        advanceMarker, pushState, StateStack.push, hc']
  | _ =>
    simp +decide [stepValue, Item.marker, markerToStartState, isLit, istart, Item.events, mk, visit,
      advanceMarker, pushState, StateStack.push, hc']


/-! ## cost: iterations of the feedUntil loop -/

mutual
/-- iterations from the pushed start state to the completion of the value -/
def pcost : Item → Nat
  | .arr xs t => 1 + costElems xs + t + 1
  | .arrN _ xs => 2 + costElems xs + 1
  | .arrT _ _ xs => 4 + costTyped xs + 1
  | .obj ms => 1 + costMems ms + 1
  | .objN _ ms => 2 + costMems ms + 1
  | .objT _ _ ms => 4 + costMemsT ms + 1
  | _ => 1
def costElems : List (Nat × Item) → Nat
  | [] => 0
  | (n, x) :: xs => n + 1 + (if isLit x then 0 else pcost x) + costElems xs
def costTyped : List Item → Nat
  | [] => 0
  | x :: xs => 1 + pcost x + costTyped xs
def costMems : List (LW × Bytes × Item) → Nat
  | [] => 0
  | (_, _, v) :: ms => 3 + (if isLit v then 0 else pcost v) + costMems ms
def costMemsT : List (LW × Bytes × Item) → Nat
  | [] => 0
  | (_, _, v) :: ms => 3 + pcost v + costMemsT ms
end

/-- iterations after the `stepValue` step that read the marker -/
def vcost (x : Item) : Nat := if isLit x then 0 else pcost x

/-! ## the valueState stack -/

/-- the `valueState` stack is either in use (then `push` saves its current state) or in its
initial state (then `push` overwrites the `stFail` placeholder and `pop` restores it) -/
def VSok (VS : StateStack) : Prop := VS.current.type ≠ stFail ∨ VS = {}

theorem vsok_init : VSok {} := Or.inr rfl

theorem push_pop {VS : StateStack} (h : VSok VS) (st : St) : (VS.push st).pop = VS := by
  rcases h with h | h
  · cases VS with
    | mk stack current =>
      have : (current.type != stFail) = true := by simpa using h
      simp [StateStack.push, StateStack.pop, this]
  · subst h; rfl

theorem push_current (VS : StateStack) (st : St) : (VS.push st).current = st := by
  simp only [StateStack.push]; split <;> rfl

theorem vsok_push (VS : StateStack) (st : St) (h : st.type ≠ stFail) : VSok (VS.push st) :=
  Or.inl (by rw [push_current]; exact h)

/-! ## the refinement statement for one item -/

/-- PAYLOAD LEMMA for `x`: from the item's start state pushed on any configuration, on the
item's payload followed by anything, `pcost x` iterations deliver exactly `x.events` and
return to the configuration below (everything restored except the scratch field
`valueType`); `done` iff that was the bottom of the stack -/
def PLs (x : Item) : Prop :=
  ∀ (f : Nat) (S : List St) (c : St) (VS : StateStack) (LS : List Int) (lc : Int) (vt : Nat)
    (E : List Ev) (rest : Bytes), VSok VS →
    ∃ vt', feedUntil (f + pcost x) (mk (c :: S) (istart x) VS LS lc vt E) (x.payload ++ rest) =
      after f (ret S c VS LS lc vt' (x.events.reverse ++ E) rest)

theorem after_ret_cons (f : Nat) (S : List St) (c0 c : St) (VS LS lc vt E) (rest : Bytes) :
    after f (ret (c0 :: S) c VS LS lc vt E rest) = feedUntil f (mk (c0 :: S) c VS LS lc vt E) rest := by
  simp [after, ret]

theorem payload_ne_nil (x : Item) (h : isLit x = false) : x.payload ≠ [] := by
  have hb : ∀ w n, beBytes (w + 1) n ≠ [] := by
    intro w n hc; have := congrArg List.length hc; simp at this
  cases x with
  | int k v =>
    intro hc; have := congrArg List.length hc
    cases k <;> simp [Item.payload, IK.bytes, twos_length] at this
  | f32 b => exact hb 3 _
  | f64 b => exact hb 7 _
  | _ => first | (simp [isLit] at h; done) | simp [Item.payload, lenWire]

/-- a value inside a container (`c :: S` below is the container's own stack, non-empty):
the `stepValue` step with `done` forced to false, then `vcost x` iterations -/
theorem value_in (x : Item) (hx : PLs x) (f : Nat) (S : List St) (c0 c : St) (VS : StateStack)
    (LS : List Int) (lc : Int) (vt : Nat) (E : List Ev) (rest : Bytes) (hv : VSok VS) (hc : c.type ≠ stFail) :
    ∃ vt', after (f + vcost x)
        { stepValue (mk (c0 :: S) c VS LS lc vt E) (x.marker :: (x.payload ++ rest)) with done := false } =
      feedUntil f (mk (c0 :: S) c VS LS lc vt' (x.events.reverse ++ E)) rest := by
  rw [stepValue_item _ _ _ _ _ _ _ _ _ hc]
  by_cases hl : isLit x = true
  · obtain ⟨e, he, hp⟩ := lit_events x hl
    refine ⟨vt, ?_⟩
    simp only [hl, if_true, vcost, Nat.add_zero, hp, List.nil_append]
    exact after_cont _ _ _
  · have hl' : isLit x = false := by simpa using hl
    obtain ⟨vt', h⟩ := hx f (c0 :: S) c VS LS lc vt E rest hv
    refine ⟨vt', ?_⟩
    simp only [hl', Bool.false_eq_true, if_false, vcost]
    rw [after_cont, h, after_ret_cons]

/-- a top-level value: `stepValue` in the idle state, then `vcost x` iterations -/
theorem value_top (x : Item) (hx : PLs x) (f : Nat) (VS : StateStack) (LS : List Int) (lc : Int) (vt : Nat)
    (E : List Ev) (rest : Bytes) (hv : VSok VS) :
    ∃ vt', after (f + vcost x) (stepValue (mk [] ⟨stNext, stStart⟩ VS LS lc vt E) (x.marker :: (x.payload ++ rest))) =
      ⟨mk [] ⟨stNext, stStart⟩ VS LS lc vt' (x.events.reverse ++ E), rest, true, none⟩ := by
  rw [stepValue_item _ _ _ _ _ _ _ _ _ (by simp)]
  by_cases hl : isLit x = true
  · obtain ⟨e, he, hp⟩ := lit_events x hl
    refine ⟨vt, ?_⟩
    simp only [hl, if_true, vcost, Nat.add_zero, hp, List.nil_append]
    exact after_done _ _ rfl
  · have hl' : isLit x = false := by simpa using hl
    obtain ⟨vt', h⟩ := hx f [] ⟨stNext, stStart⟩ VS LS lc vt E rest hv
    refine ⟨vt', ?_⟩
    simp only [hl', Bool.false_eq_true, if_false, vcost]
    rw [after_cont, h]
    exact after_done _ _ rfl

end SF.Ubjson.Parse
