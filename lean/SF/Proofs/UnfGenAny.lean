/-
  C14 for `interface{}`, `map[string]interface{}`, `[]interface{}` targets and ARBITRARY event sequences (mismatching, unbalanced,
  truncated, wrong lengths, out-of-range numbers, wrong element types …): the contexts
  reachable from `SetTarget(&v)` for a `v` of one of these types are described by `St`; every event from
  such a context is accepted (and leads to such a context again) or answered by an error —
  never a model gap, never fuel exhaustion, and a panic only for a container start that
  announces an invalid element type code in a generic position.
-/
import SF.Proofs.UnfGenTarget
namespace SF.Unf
open SF

/-- the contexts reachable from `SetTarget(&v)` on the idle Unfolder `c0` -/
inductive St (tbl : TypeTable) (c0 : Ctx) : Ctx → Prop
  /-- waiting for the value -/
  | start (v0 : GoVal) (kc : Symbols.Cache) (hkc : Symbols.Inv kc) : St tbl c0 (setKC (ifcCtx tbl v0 c0) kc)
  /-- the value has been assigned: `unfolderNoTarget` again -/
  | done (v : GoVal) (kc : Symbols.Cache) (hkc : Symbols.Inv kc) :
      St tbl c0 { c0 with target := v, env := tbl, keyCache := kc }
  /-- inside a sub-array (generic or typed) of a generic position -/
  | arr {c : Ctx} (h : St tbl c0 c) (hs : isSink c.unfolder.current) (k : PK) (bt : Nat) (l : Int)
      (vs : List GoVal) (hk : btKind bt = some k) : St tbl c0 (arrCtx c k bt l vs)
  /-- inside a sub-object, waiting for a key -/
  | map {c : Ctx} (h : St tbl c0 c) (hs : isSink c.unfolder.current) (k : PK) (bt : Nat)
      (acc : List (Bytes × GoVal)) (hk : btKind bt = some k) : St tbl c0 (mapCtx c k bt acc)
  /-- inside a sub-object, waiting for the value of `key` -/
  | mapVal {c : Ctx} (h : St tbl c0 c) (hs : isSink c.unfolder.current) (k : PK) (bt : Nat)
      (acc : List (Bytes × GoVal)) (key : Bytes) (hk : btKind bt = some k) : St tbl c0 (mapValCtx c k bt acc key)
  /-- `map[string]interface{}` target: waiting for the object to start -/
  | tmapStart (m : GoVal) (et : GoType) (ms : List (Bytes × GoVal)) (hm : mapParts m = some (et, ms))
      (kc : Symbols.Cache) (hkc : Symbols.Inv kc) : St tbl c0 (mapTargetCtx tbl m (setKC c0 kc))
  /-- … waiting for a key -/
  | tmap (m : GoVal) (et : GoType) (ms : List (Bytes × GoVal)) (hm : mapParts m = some (et, ms))
      (kc : Symbols.Cache) (hkc : Symbols.Inv kc) : St tbl c0 (tmapCtx tbl m (setKC c0 kc))
  /-- … waiting for the value of `key` -/
  | tmapVal (m : GoVal) (et : GoType) (ms : List (Bytes × GoVal)) (hm : mapParts m = some (et, ms)) (key : Bytes)
      (kc : Symbols.Cache) (hkc : Symbols.Inv kc) : St tbl c0 (tmapValCtx tbl m key (setKC c0 kc))
  /-- `[]interface{}` target: waiting for the array to start -/
  | tarrStart (v : GoVal) (hv : isSliceVal v) (kc : Symbols.Cache) (hkc : Symbols.Inv kc) :
      St tbl c0 (sliceTargetCtx tbl v (setKC c0 kc))
  /-- … inside the array -/
  | tarr (s0 : GoVal) (hs0 : isSliceVal s0) (vs : List GoVal) (kc : Symbols.Cache) (hkc : Symbols.Inv kc) :
      St tbl c0 (tarrCtx tbl s0 vs (setKC c0 kc))

variable {tbl : TypeTable} {c0 : Ctx}

theorem St.inv {c : Ctx} (h : St tbl c0 c) : Symbols.Inv c.keyCache := by
  induction h with
  | start v0 kc hkc => exact hkc
  | done v kc hkc => exact hkc
  | arr h hs k bt l vs hk ih => exact ih
  | map h hs k bt acc hk ih => exact ih
  | mapVal h hs k bt acc key hk ih => exact ih
  | tmapStart m et ms hm kc hkc => exact hkc
  | tmap m et ms hm kc hkc => exact hkc
  | tmapVal m et ms hm key kc hkc => exact hkc
  | tarrStart v hv kc hkc => exact hkc
  | tarr s0 hs0 vs kc hkc => exact hkc

theorem St.withKC {c : Ctx} (h : St tbl c0 c) (kc : Symbols.Cache) (hkc : Symbols.Inv kc) :
    St tbl c0 (setKC c kc) := by
  induction h with
  | start v0 kc' hkc' => exact St.start v0 kc hkc
  | done v kc' hkc' => exact St.done v kc hkc
  | arr h hs k bt l vs hk ih => exact St.arr ih hs k bt l vs hk
  | map h hs k bt acc hk ih => exact St.map ih hs k bt acc hk
  | mapVal h hs k bt acc key hk ih => exact St.mapVal ih hs k bt acc key hk
  | tmapStart m et ms hm kc' hkc' => exact St.tmapStart m et ms hm kc hkc
  | tmap m et ms hm kc' hkc' => exact St.tmap m et ms hm kc hkc
  | tmapVal m et ms hm key kc' hkc' => exact St.tmapVal m et ms hm key kc hkc
  | tarrStart v hv kc' hkc' => exact St.tarrStart v hv kc hkc
  | tarr s0 hs0 vs kc' hkc' => exact St.tarr s0 hs0 vs kc hkc

theorem St.stack_ne {c : Ctx} (h : St tbl c0 c) (hs : isSink c.unfolder.current)
    (h0 : c0.unfolder = Stk.init .noTarget) : c.unfolder.stack ≠ [] := by
  cases h with
  | start v0 kc hkc => simp [setKC, ifcCtx, Stk.push]
  | done v kc hkc =>
    have : c0.unfolder.current = .noTarget := by rw [h0]; rfl
    rcases hs with hs | hs | hs <;> simp [this] at hs
  | arr h hs' k bt l vs hk => simp [arrCtx]
  | map h hs' k bt acc hk => simp [mapCtx]
  | mapVal h hs' k bt acc key hk => simp [mapValCtx]
  | tmapStart m et ms hm kc hkc => simp [mapTargetCtx]
  | tmap m et ms hm kc hkc => simp [tmapCtx]
  | tmapVal m et ms hm key kc hkc => simp [tmapValCtx]
  | tarrStart v hv kc hkc => simp [sliceTargetCtx]
  | tarr s0 hs0 vs kc hkc => simp [tarrCtx]

/-- an event is answered: accepted into a reachable context, or refused with an error -/
def Fine (tbl : TypeTable) (c0 : Ctx) (r : R Unit) : Prop :=
  (∃ c', r = .ok () c' ∧ St tbl c0 c') ∨ (∃ e c', r = .err e c')

/-! ### delivery to a reachable generic position -/

theorem sink_arr {k : PK} (h : isSink (.arr k)) : k = .ifc := by
  rcases h with h | h | h
  · cases h
  · cases h; rfl
  · cases h

theorem sink_mapVal {k : PK} (h : isSink (.mapVal k)) : k = .ifc := by
  rcases h with h | h | h
  · cases h
  · cases h
  · cases h; rfl

theorem deliver_plain {c : Ctx} (h : St tbl c0 c) (hs : isSink c.unfolder.current)
    (h0 : c0.unfolder = Stk.init .noTarget) (v : GoVal) :
    ∃ c', pukDeliver c.unfolder.current v c = .ok () c' ∧ St tbl c0 c' ∧
      (c'.unfolder.stack.length = c.unfolder.stack.length ∨ c'.unfolder.stack = []) := by
  cases h with
  | start v0 kc hkc =>
    refine ⟨_, primAssign_ifcCtx tbl v0 v c0 kc, St.done v kc hkc, Or.inr ?_⟩
    rw [h0]; rfl
  | done v' kc hkc =>
    have : c0.unfolder.current = .noTarget := by rw [h0]; rfl
    rcases hs with hs | hs | hs <;> simp [this] at hs
  | arr h' hs' k bt l vs hk =>
    have hk' : k = .ifc := sink_arr hs
    subst hk'
    exact ⟨_, arrAppend_arrCtx v _ .ifc bt l vs, St.arr h' hs' .ifc bt l (vs ++ [v]) hk, Or.inl rfl⟩
  | map h' hs' k bt acc hk =>
    rcases hs with hs | hs | hs <;> simp [mapCtx] at hs
  | mapVal h' hs' k bt acc key hk =>
    have hk' : k = .ifc := sink_mapVal hs
    subst hk'
    exact ⟨_, mapPut_mapValCtx _ .ifc bt acc key v, St.map h' hs' .ifc bt _ hk, Or.inl rfl⟩
  | tmapStart m et ms hm kc hkc => rcases hs with hs | hs | hs <;> simp [mapTargetCtx] at hs
  | tmap m et ms hm kc hkc => rcases hs with hs | hs | hs <;> simp [tmapCtx] at hs
  | tmapVal m et ms hm key kc hkc =>
    exact ⟨_, mapPut_tmapValCtx tbl m et ms key v _ hm, St.tmap _ et _ rfl kc hkc, Or.inl rfl⟩
  | tarrStart v' hv kc hkc => rcases hs with hs | hs | hs <;> simp [sliceTargetCtx] at hs
  | tarr s0 hs0 vs kc hkc =>
    exact ⟨_, arrAppend_tarrCtx tbl s0 vs v _ hs0, St.tarr s0 hs0 (vs ++ [v]) kc hkc, Or.inl rfl⟩

theorem report_stop (report : M Unit) (fuel : Nat) (lBefore : Nat) (c : Ctx)
    (h : c.unfolder.stack.length + 1 = lBefore ∨ c.unfolder.stack = []) :
    reportChildDone report (fuel + 1) lBefore c = .ok () c := by
  rw [reportChildDone]
  simp only [bind_def, getCtx]
  rcases h with h | h
  · have : lBefore ≤ c.unfolder.stack.length + 1 := by omega
    simp [this, pure_def]
  · simp [h, pure_def]

theorem deliver_report {c : Ctx} (h : St tbl c0 c) (hs : isSink c.unfolder.current)
    (h0 : c0.unfolder = Stk.init .noTarget) (v : GoVal) (report : M Unit) :
    ∃ c', (pukDeliver c.unfolder.current v >>= fun _ =>
        reportChildDone report (c.unfolder.stack.length + 2) (c.unfolder.stack.length + 1)) c = .ok () c' ∧
      St tbl c0 c' := by
  obtain ⟨c', hd, hst, hlen⟩ := deliver_plain h hs h0 v
  refine ⟨c', ?_, hst⟩
  rw [bind_def, hd]
  simp only
  apply report_stop
  rcases hlen with hlen | hlen
  · exact Or.inl (by omega)
  · exact Or.inr hlen

/-! ### the refusals -/

/-- the states that refuse an event with their embedded error unfolder -/
theorem scalar_err (f : Nat) (s : Sc) (c : Ctx)
    (h : c.unfolder.current = .noTarget ∨ ∃ k, c.unfolder.current = .mapKey k) :
    onScalar (f + 1) s c = .err c.unfolder.current.baseErr c := by
  rcases h with h | ⟨k, h⟩ <;> simp [onScalar, bind_def, currentU_eq, h, throwErr]

theorem scalar_none (f : Nat) (s : Sc) (c : Ctx) (k : PK)
    (hu : c.unfolder.current = .prim k ∨ c.unfolder.current = .arr k ∨ c.unfolder.current = .mapVal k)
    (hc : k.conv s = none) :
    onScalar (f + 1) s c = .err .unsupported c := by
  rcases hu with h | h | h <;> simp [onScalar, bind_def, currentU_eq, h, hc, throwErr]

theorem arrStart_err (f : Nat) (l : Int) (bt : Nat) (c : Ctx)
    (h : c.unfolder.current = .noTarget ∨ (∃ k, c.unfolder.current = .mapKey k) ∨
      (∃ k, k ≠ .ifc ∧ c.unfolder.current = .arr k) ∨ (∃ k, k ≠ .ifc ∧ c.unfolder.current = .mapVal k)) :
    onArrayStart (f + 1) l bt c = .err c.unfolder.current.baseErr c := by
  rcases h with h | ⟨k, h⟩ | ⟨k, hk, h⟩ | ⟨k, hk, h⟩
  · simp [onArrayStart, bind_def, currentU_eq, h, throwErr]
  · simp [onArrayStart, bind_def, currentU_eq, h, throwErr]
  · cases k <;> first | exact absurd rfl hk | simp [onArrayStart, bind_def, currentU_eq, h, throwErr]
  · cases k <;> first | exact absurd rfl hk | simp [onArrayStart, bind_def, currentU_eq, h, throwErr]

theorem objStart_err (f : Nat) (l : Int) (bt : Nat) (c : Ctx)
    (h : c.unfolder.current = .noTarget ∨ (∃ k, c.unfolder.current = .mapKey k) ∨
      (∃ k, k ≠ .ifc ∧ c.unfolder.current = .arr k) ∨ (∃ k, k ≠ .ifc ∧ c.unfolder.current = .mapVal k)) :
    onObjectStart (f + 1) l bt c = .err c.unfolder.current.baseErr c := by
  rcases h with h | ⟨k, h⟩ | ⟨k, hk, h⟩ | ⟨k, hk, h⟩
  · simp [onObjectStart, bind_def, currentU_eq, h, throwErr]
  · simp [onObjectStart, bind_def, currentU_eq, h, throwErr]
  · cases k <;> first | exact absurd rfl hk | simp [onObjectStart, bind_def, currentU_eq, h, throwErr]
  · cases k <;> first | exact absurd rfl hk | simp [onObjectStart, bind_def, currentU_eq, h, throwErr]

theorem arrEnd_err (c : Ctx)
    (h : c.unfolder.current = .noTarget ∨ (∃ k, c.unfolder.current = .prim k) ∨
      (∃ k, c.unfolder.current = .mapKey k) ∨ (∃ k, c.unfolder.current = .mapVal k)) :
    ctxOnArrayFinished c = .err c.unfolder.current.baseErr c := by
  rcases h with h | ⟨k, h⟩ | ⟨k, h⟩ | ⟨k, h⟩ <;>
    simp [ctxOnArrayFinished, onArrayFinished, bind_def, getCtx, currentU_eq, h, throwErr]

theorem objEnd_err (c : Ctx)
    (h : c.unfolder.current = .noTarget ∨ (∃ k, c.unfolder.current = .prim k) ∨
      (∃ k, c.unfolder.current = .arr k) ∨ (∃ k, c.unfolder.current = .mapVal k)) :
    ctxOnObjectFinished c = .err c.unfolder.current.baseErr c := by
  rcases h with h | ⟨k, h⟩ | ⟨k, h⟩ | ⟨k, h⟩ <;>
    simp [ctxOnObjectFinished, onObjectFinished, bind_def, getCtx, currentU_eq, h, throwErr]

theorem key_err (key : Bytes) (c : Ctx)
    (h : c.unfolder.current = .noTarget ∨ (∃ k, c.unfolder.current = .prim k) ∨
      (∃ k, c.unfolder.current = .arr k) ∨ (∃ k, c.unfolder.current = .mapVal k)) :
    onKey key c = .err c.unfolder.current.baseErr c ∧ onKeyRef key c = .err c.unfolder.current.baseErr c := by
  rcases h with h | ⟨k, h⟩ | ⟨k, h⟩ | ⟨k, h⟩ <;>
    simp [onKey, onKeyRef, bind_def, currentU_eq, h, throwErr]

/-- the two start states of the typed templates (`unfoldMapStartX`, `unfoldArrStartX`) refuse
everything but their own start event -/
theorem startState_err (f : Nat) (c : Ctx)
    (h : (∃ k, c.unfolder.current = .mapStart k) ∨ (∃ k, c.unfolder.current = .arrStart k)) :
    (∀ s, onScalar (f + 1) s c = .err c.unfolder.current.baseErr c) ∧
    ctxOnArrayFinished c = .err c.unfolder.current.baseErr c ∧
    ctxOnObjectFinished c = .err c.unfolder.current.baseErr c ∧
    (∀ key, onKey key c = .err c.unfolder.current.baseErr c ∧
      onKeyRef key c = .err c.unfolder.current.baseErr c) := by
  rcases h with ⟨k, h⟩ | ⟨k, h⟩ <;>
    simp [onScalar, ctxOnArrayFinished, onArrayFinished, ctxOnObjectFinished, onObjectFinished, onKey, onKeyRef,
      bind_def, getCtx, currentU_eq, h, throwErr]

theorem arrStart_at_mapStart (f : Nat) (l : Int) (bt : Nat) (c : Ctx) (k : PK)
    (h : c.unfolder.current = .mapStart k) :
    onArrayStart (f + 1) l bt c = .err c.unfolder.current.baseErr c := by
  simp [onArrayStart, bind_def, currentU_eq, h, throwErr]

theorem objStart_at_arrStart (f : Nat) (l : Int) (bt : Nat) (c : Ctx) (k : PK)
    (h : c.unfolder.current = .arrStart k) :
    onObjectStart (f + 1) l bt c = .err c.unfolder.current.baseErr c := by
  simp [onObjectStart, bind_def, currentU_eq, h, throwErr]

/-! ### one arbitrary event from a reachable context -/

/-- a container start announcing an element type code that is no BaseType -/
def UEv.badStart : UEv → Prop
  | .arrStart _ bt => 17 ≤ bt % 256
  | .objStart _ bt => 17 ≤ bt % 256
  | _ => False

/-- the outcome of one event: accepted, refused with an error, or the documented panic -/
def Outcome (tbl : TypeTable) (c0 : Ctx) (e : UEv) (c : Ctx) (r : R Unit) : Prop :=
  Fine tbl c0 r ∨ (r = .panic c ∧ isSink c.unfolder.current ∧ e.badStart)

theorem conv_ifc_some (s : Sc) : ∃ v, PK.ifc.conv s = some v := by
  cases s <;> exact ⟨_, rfl⟩

theorem Fine.err {r : R Unit} {e : Err} {c' : Ctx} (h : r = .err e c') : Fine tbl c0 r := Or.inr ⟨e, c', h⟩
theorem Fine.ok {r : R Unit} {c' : Ctx} (h : r = .ok () c') (hs : St tbl c0 c') : Fine tbl c0 r :=
  Or.inl ⟨c', h, hs⟩

/-- container starts in a generic position -/
theorem start_sink (f : Nat) {c : Ctx} (h : St tbl c0 c) (hs : isSink c.unfolder.current) (l : Int) (bt : Nat) :
    Outcome tbl c0 (.arrStart l bt) c (stepEv (f + 1) (.arrStart l bt) c) ∧
    Outcome tbl c0 (.objStart l bt) c (stepEv (f + 1) (.objStart l bt) c) := by
  by_cases hb : bt % 256 ≤ 16
  · have hk := btKind_of_le _ hb
    exact ⟨Or.inl (Fine.ok (arrStart_sink f l _ _ c hs hk) (St.arr h hs _ _ l [] hk)),
      Or.inl (Fine.ok (objStart_sink f l _ _ c hs hk) (St.map h hs _ _ [] hk))⟩
  · have hb' : 17 ≤ bt % 256 := by omega
    have hk := (btKind_none_iff _).mpr hb'
    exact ⟨Or.inr ⟨arrStart_invalid f l _ c hs hk, hs, hb'⟩, Or.inr ⟨objStart_invalid f l _ c hs hk, hs, hb'⟩⟩

/-- a scalar for a template instance of kind `k` sitting in a reachable context -/
theorem scalar_arr (f : Nat) {c : Ctx} (h : St tbl c0 c) (hs : isSink c.unfolder.current) (k : PK) (bt : Nat)
    (l : Int) (vs : List GoVal) (hk : btKind bt = some k) (s : Sc) :
    Fine tbl c0 (onScalar (f + 1) s (arrCtx c k bt l vs)) := by
  cases hc : k.conv s with
  | none => exact Fine.err (scalar_none f s _ k (Or.inr (Or.inl rfl)) hc)
  | some v =>
    refine Fine.ok ?_ (St.arr h hs k bt l (vs ++ [v]) hk)
    rw [scalar_deliver f s _ k v (Or.inr (Or.inl rfl)) hc]
    exact arrAppend_arrCtx v c k bt l vs

theorem scalar_mapVal (f : Nat) {c : Ctx} (h : St tbl c0 c) (hs : isSink c.unfolder.current) (k : PK) (bt : Nat)
    (acc : List (Bytes × GoVal)) (key : Bytes) (hk : btKind bt = some k) (s : Sc) :
    Fine tbl c0 (onScalar (f + 1) s (mapValCtx c k bt acc key)) := by
  cases hc : k.conv s with
  | none => exact Fine.err (scalar_none f s _ k (Or.inr (Or.inr rfl)) hc)
  | some v =>
    refine Fine.ok ?_ (St.map h hs k bt (mapSet acc key v) hk)
    rw [scalar_deliver f s _ k v (Or.inr (Or.inr rfl)) hc]
    exact mapPut_mapValCtx c k bt acc key v

theorem scalar_start (f : Nat) (v0 : GoVal) (kc : Symbols.Cache) (hkc : Symbols.Inv kc) (s : Sc) :
    Fine tbl c0 (onScalar (f + 1) s (setKC (ifcCtx tbl v0 c0) kc)) := by
  obtain ⟨v, hc⟩ := conv_ifc_some s
  refine Fine.ok ?_ (St.done v kc hkc)
  rw [scalar_deliver f s _ .ifc v (Or.inl rfl) hc]
  exact primAssign_ifcCtx tbl v0 v c0 kc

/-- ONE ARBITRARY EVENT from a reachable context -/
theorem step_any (f : Nat) (e : UEv) {c : Ctx} (h : St tbl c0 c) (h0 : c0.unfolder = Stk.init .noTarget) :
    Outcome tbl c0 e c (stepEv (f + 1) e c) := by
  have hnt : c0.unfolder.current = .noTarget := by rw [h0]; rfl
  cases h with
  | start v0 kc hkc =>
    have hcur : (setKC (ifcCtx tbl v0 c0) kc).unfolder.current = .prim .ifc := rfl
    have hsink : isSink (setKC (ifcCtx tbl v0 c0) kc).unfolder.current := Or.inl rfl
    cases e with
    | scalar s => exact Or.inl (scalar_start f v0 kc hkc s)
    | strRef s => exact Or.inl (scalar_start f v0 kc hkc (.str s))
    | key k => exact Or.inl (Fine.err (key_err k _ (Or.inr (Or.inl ⟨_, hcur⟩))).1)
    | keyRef k => exact Or.inl (Fine.err (key_err k _ (Or.inr (Or.inl ⟨_, hcur⟩))).2)
    | arrStart l bt => exact (start_sink f (St.start v0 kc hkc) hsink l bt).1
    | objStart l bt => exact (start_sink f (St.start v0 kc hkc) hsink l bt).2
    | arrEnd => exact Or.inl (Fine.err (arrEnd_err _ (Or.inr (Or.inl ⟨_, hcur⟩))))
    | objEnd => exact Or.inl (Fine.err (objEnd_err _ (Or.inr (Or.inl ⟨_, hcur⟩))))
  | done v kc hkc =>
    have hcur : ({ c0 with target := v, env := tbl, keyCache := kc } : Ctx).unfolder.current = .noTarget := hnt
    cases e with
    | scalar s => exact Or.inl (Fine.err (scalar_err f s _ (Or.inl hcur)))
    | strRef s => exact Or.inl (Fine.err (scalar_err f (.str s) _ (Or.inl hcur)))
    | key k => exact Or.inl (Fine.err (key_err k _ (Or.inl hcur)).1)
    | keyRef k => exact Or.inl (Fine.err (key_err k _ (Or.inl hcur)).2)
    | arrStart l bt => exact Or.inl (Fine.err (arrStart_err f l _ _ (Or.inl hcur)))
    | objStart l bt => exact Or.inl (Fine.err (objStart_err f l _ _ (Or.inl hcur)))
    | arrEnd => exact Or.inl (Fine.err (arrEnd_err _ (Or.inl hcur)))
    | objEnd => exact Or.inl (Fine.err (objEnd_err _ (Or.inl hcur)))
  | @arr cp hp hs k bt l vs hk =>
    have hcur : (arrCtx cp k bt l vs).unfolder.current = .arr k := rfl
    cases e with
    | scalar s => exact Or.inl (scalar_arr f hp hs k bt l vs hk s)
    | strRef s => exact Or.inl (scalar_arr f hp hs k bt l vs hk (.str s))
    | key key => exact Or.inl (Fine.err (key_err key _ (Or.inr (Or.inr (Or.inl ⟨_, hcur⟩)))).1)
    | keyRef key => exact Or.inl (Fine.err (key_err key _ (Or.inr (Or.inr (Or.inl ⟨_, hcur⟩)))).2)
    | arrStart l' bt' =>
      by_cases hki : k = .ifc
      · subst hki; exact (start_sink f (St.arr hp hs .ifc bt l vs hk) (Or.inr (Or.inl rfl)) l' bt').1
      · exact Or.inl (Fine.err (arrStart_err f l' _ _ (Or.inr (Or.inr (Or.inl ⟨k, hki, hcur⟩)))))
    | objStart l' bt' =>
      by_cases hki : k = .ifc
      · subst hki; exact (start_sink f (St.arr hp hs .ifc bt l vs hk) (Or.inr (Or.inl rfl)) l' bt').2
      · exact Or.inl (Fine.err (objStart_err f l' _ _ (Or.inr (Or.inr (Or.inl ⟨k, hki, hcur⟩)))))
    | arrEnd =>
      obtain ⟨c', hd, hst⟩ := deliver_report hp hs h0
        (.ifc (sliceSt k.goType (zero cp.env k.goType) l vs)) onChildArrayDone
      refine Or.inl (Fine.ok ?_ hst)
      rw [arrEnd_arrCtx f cp k k bt l vs hs hk (hp.stack_ne hs h0)]
      exact hd
    | objEnd => exact Or.inl (Fine.err (objEnd_err _ (Or.inr (Or.inr (Or.inl ⟨_, hcur⟩)))))
  | @map cp hp hs k bt acc hk =>
    have hcur : (mapCtx cp k bt acc).unfolder.current = .mapKey k := rfl
    cases e with
    | scalar s => exact Or.inl (Fine.err (scalar_err f s _ (Or.inr ⟨_, hcur⟩)))
    | strRef s => exact Or.inl (Fine.err (scalar_err f (.str s) _ (Or.inr ⟨_, hcur⟩)))
    | key key => exact Or.inl (Fine.ok (onKey_mapCtx cp k bt acc key) (St.mapVal hp hs k bt acc key hk))
    | keyRef key =>
      obtain ⟨kc0, hg, hok0⟩ := kc_get cp.keyCache key hp.inv
      exact Or.inl (Fine.ok (onKeyRef_mapCtx cp k bt acc key kc0 hg)
        (St.mapVal (hp.withKC kc0 hok0.1) hs k bt acc key hk))
    | arrStart l' bt' => exact Or.inl (Fine.err (arrStart_err f l' _ _ (Or.inr (Or.inl ⟨_, hcur⟩))))
    | objStart l' bt' => exact Or.inl (Fine.err (objStart_err f l' _ _ (Or.inr (Or.inl ⟨_, hcur⟩))))
    | arrEnd => exact Or.inl (Fine.err (arrEnd_err _ (Or.inr (Or.inr (Or.inl ⟨_, hcur⟩)))))
    | objEnd =>
      obtain ⟨c', hd, hst⟩ := deliver_report hp hs h0 (.ifc (mapSt k.goType acc)) onChildObjectDone
      refine Or.inl (Fine.ok ?_ hst)
      rw [objEnd_mapCtx f cp k bt acc hs hk (hp.stack_ne hs h0)]
      exact hd
  | @mapVal cp hp hs k bt acc key hk =>
    have hcur : (mapValCtx cp k bt acc key).unfolder.current = .mapVal k := rfl
    cases e with
    | scalar s => exact Or.inl (scalar_mapVal f hp hs k bt acc key hk s)
    | strRef s => exact Or.inl (scalar_mapVal f hp hs k bt acc key hk (.str s))
    | key key' => exact Or.inl (Fine.err (key_err key' _ (Or.inr (Or.inr (Or.inr ⟨_, hcur⟩)))).1)
    | keyRef key' => exact Or.inl (Fine.err (key_err key' _ (Or.inr (Or.inr (Or.inr ⟨_, hcur⟩)))).2)
    | arrStart l' bt' =>
      by_cases hki : k = .ifc
      · subst hki; exact (start_sink f (St.mapVal hp hs .ifc bt acc key hk) (Or.inr (Or.inr rfl)) l' bt').1
      · exact Or.inl (Fine.err (arrStart_err f l' _ _ (Or.inr (Or.inr (Or.inr ⟨k, hki, hcur⟩)))))
    | objStart l' bt' =>
      by_cases hki : k = .ifc
      · subst hki; exact (start_sink f (St.mapVal hp hs .ifc bt acc key hk) (Or.inr (Or.inr rfl)) l' bt').2
      · exact Or.inl (Fine.err (objStart_err f l' _ _ (Or.inr (Or.inr (Or.inr ⟨k, hki, hcur⟩)))))
    | arrEnd => exact Or.inl (Fine.err (arrEnd_err _ (Or.inr (Or.inr (Or.inr ⟨_, hcur⟩)))))
    | objEnd => exact Or.inl (Fine.err (objEnd_err _ (Or.inr (Or.inr (Or.inr ⟨_, hcur⟩)))))

  | tmapStart m et ms hm kc hkc =>
    have hcur : (mapTargetCtx tbl m (setKC c0 kc)).unfolder.current = .mapStart .ifc := rfl
    have he := startState_err f (mapTargetCtx tbl m (setKC c0 kc)) (Or.inl ⟨_, hcur⟩)
    cases e with
    | scalar s => exact Or.inl (Fine.err (he.1 s))
    | strRef s => exact Or.inl (Fine.err (he.1 (.str s)))
    | key key => exact Or.inl (Fine.err (he.2.2.2 key).1)
    | keyRef key => exact Or.inl (Fine.err (he.2.2.2 key).2)
    | arrStart l' bt' => exact Or.inl (Fine.err (arrStart_at_mapStart f l' _ _ _ hcur))
    | objStart l' bt' =>
      exact Or.inl (Fine.ok (objStart_mapTarget f l' bt' tbl m (setKC c0 kc)) (St.tmap m et ms hm kc hkc))
    | arrEnd => exact Or.inl (Fine.err he.2.1)
    | objEnd => exact Or.inl (Fine.err he.2.2.1)
  | tmap m et ms hm kc hkc =>
    have hcur : (tmapCtx tbl m (setKC c0 kc)).unfolder.current = .mapKey .ifc := rfl
    have hidle : (setKC c0 kc).unfolder.stack = [] := by
      show c0.unfolder.stack = []
      rw [h0]; rfl
    cases e with
    | scalar s => exact Or.inl (Fine.err (scalar_err f s _ (Or.inr ⟨_, hcur⟩)))
    | strRef s => exact Or.inl (Fine.err (scalar_err f (.str s) _ (Or.inr ⟨_, hcur⟩)))
    | key key =>
      obtain ⟨kc', hok, hstep⟩ := key_tmapCtx f false key tbl m (setKC c0 kc) hkc
      exact Or.inl (Fine.ok hstep (St.tmapVal m et ms hm key kc' hok.1))
    | keyRef key =>
      obtain ⟨kc', hok, hstep⟩ := key_tmapCtx f true key tbl m (setKC c0 kc) hkc
      exact Or.inl (Fine.ok hstep (St.tmapVal m et ms hm key kc' hok.1))
    | arrStart l' bt' => exact Or.inl (Fine.err (arrStart_err f l' _ _ (Or.inr (Or.inl ⟨_, hcur⟩))))
    | objStart l' bt' => exact Or.inl (Fine.err (objStart_err f l' _ _ (Or.inr (Or.inl ⟨_, hcur⟩))))
    | arrEnd => exact Or.inl (Fine.err (arrEnd_err _ (Or.inr (Or.inr (Or.inl ⟨_, hcur⟩)))))
    | objEnd => exact Or.inl (Fine.ok (objEnd_tmapCtx f tbl m (setKC c0 kc) hidle) (St.done m kc hkc))
  | tmapVal m et ms hm key kc hkc =>
    have hcur : (tmapValCtx tbl m key (setKC c0 kc)).unfolder.current = .mapVal .ifc := rfl
    have hst : St tbl c0 (tmapValCtx tbl m key (setKC c0 kc)) := St.tmapVal m et ms hm key kc hkc
    have hsc : ∀ s, Fine tbl c0 (onScalar (f + 1) s (tmapValCtx tbl m key (setKC c0 kc))) := by
      intro s
      obtain ⟨v, hc⟩ := conv_ifc_some s
      refine Fine.ok ?_ (St.tmap (.map et (mapSet ms key v)) et _ rfl kc hkc)
      rw [scalar_deliver f s _ .ifc v (Or.inr (Or.inr rfl)) hc]
      exact mapPut_tmapValCtx tbl m et ms key v _ hm
    cases e with
    | scalar s => exact Or.inl (hsc s)
    | strRef s => exact Or.inl (hsc (.str s))
    | key key' => exact Or.inl (Fine.err (key_err key' _ (Or.inr (Or.inr (Or.inr ⟨_, hcur⟩)))).1)
    | keyRef key' => exact Or.inl (Fine.err (key_err key' _ (Or.inr (Or.inr (Or.inr ⟨_, hcur⟩)))).2)
    | arrStart l' bt' => exact (start_sink f hst (Or.inr (Or.inr rfl)) l' bt').1
    | objStart l' bt' => exact (start_sink f hst (Or.inr (Or.inr rfl)) l' bt').2
    | arrEnd => exact Or.inl (Fine.err (arrEnd_err _ (Or.inr (Or.inr (Or.inr ⟨_, hcur⟩)))))
    | objEnd => exact Or.inl (Fine.err (objEnd_err _ (Or.inr (Or.inr (Or.inr ⟨_, hcur⟩)))))
  | tarrStart v hv kc hkc =>
    have hcur : (sliceTargetCtx tbl v (setKC c0 kc)).unfolder.current = .arrStart .ifc := rfl
    have he := startState_err f (sliceTargetCtx tbl v (setKC c0 kc)) (Or.inr ⟨_, hcur⟩)
    cases e with
    | scalar s => exact Or.inl (Fine.err (he.1 s))
    | strRef s => exact Or.inl (Fine.err (he.1 (.str s)))
    | key key => exact Or.inl (Fine.err (he.2.2.2 key).1)
    | keyRef key => exact Or.inl (Fine.err (he.2.2.2 key).2)
    | arrStart l' bt' =>
      exact Or.inl (Fine.ok (arrStart_sliceTarget f l' bt' tbl v (setKC c0 kc) hv)
        (St.tarr _ (startSlice_isSlice _ _ _ hv) [] kc hkc))
    | objStart l' bt' => exact Or.inl (Fine.err (objStart_at_arrStart f l' _ _ _ hcur))
    | arrEnd => exact Or.inl (Fine.err he.2.1)
    | objEnd => exact Or.inl (Fine.err he.2.2.1)
  | tarr s0 hs0 vs kc hkc =>
    have hcur : (tarrCtx tbl s0 vs (setKC c0 kc)).unfolder.current = .arr .ifc := rfl
    have hst : St tbl c0 (tarrCtx tbl s0 vs (setKC c0 kc)) := St.tarr s0 hs0 vs kc hkc
    have hidle : (setKC c0 kc).unfolder.stack = [] := by
      show c0.unfolder.stack = []
      rw [h0]; rfl
    have hsc : ∀ s, Fine tbl c0 (onScalar (f + 1) s (tarrCtx tbl s0 vs (setKC c0 kc))) := by
      intro s
      obtain ⟨v, hc⟩ := conv_ifc_some s
      refine Fine.ok ?_ (St.tarr s0 hs0 (vs ++ [v]) kc hkc)
      rw [scalar_deliver f s _ .ifc v (Or.inr (Or.inl rfl)) hc]
      exact arrAppend_tarrCtx tbl s0 vs v _ hs0
    cases e with
    | scalar s => exact Or.inl (hsc s)
    | strRef s => exact Or.inl (hsc (.str s))
    | key key => exact Or.inl (Fine.err (key_err key _ (Or.inr (Or.inr (Or.inl ⟨_, hcur⟩)))).1)
    | keyRef key => exact Or.inl (Fine.err (key_err key _ (Or.inr (Or.inr (Or.inl ⟨_, hcur⟩)))).2)
    | arrStart l' bt' => exact (start_sink f hst (Or.inr (Or.inl rfl)) l' bt').1
    | objStart l' bt' => exact (start_sink f hst (Or.inr (Or.inl rfl)) l' bt').2
    | arrEnd => exact Or.inl (Fine.ok (arrEnd_tarrCtx f tbl s0 vs (setKC c0 kc) hidle) (St.done _ kc hkc))
    | objEnd => exact Or.inl (Fine.err (objEnd_err _ (Or.inr (Or.inr (Or.inl ⟨_, hcur⟩)))))

/-! ### any sequence of events -/

theorem run_cons_err (fuel : Nat) (e : UEv) (es : List UEv) (c c' : Ctx) (er : Err)
    (h : stepEv fuel e c = .err er c') : run fuel (e :: es) c = .err er c' := by
  rw [run, h]

theorem run_cons_panic' (fuel : Nat) (e : UEv) (es : List UEv) (c c' : Ctx)
    (h : stepEv fuel e c = .panic c') : run fuel (e :: es) c = .panic c' := by
  rw [run, h]

/-- ANY sequence of events from a reachable context: accepted completely (ending in a reachable
context), or refused with an error at some event, or — only if it contains a container start
with an invalid element type code, met in a generic position — the documented panic.  Never a
model gap, never fuel exhaustion, never any other panic (no pop of an empty stack, no nil
dereference, no stale pointer). -/
theorem run_any (f : Nat) (es : List UEv) {c : Ctx} (h : St tbl c0 c) (h0 : c0.unfolder = Stk.init .noTarget) :
    (∃ c', run (f + 1) es c = .ok () c' ∧ St tbl c0 c') ∨
    (∃ e c', run (f + 1) es c = .err e c') ∨
    (∃ c' e, run (f + 1) es c = .panic c' ∧ e ∈ es ∧ e.badStart ∧ isSink c'.unfolder.current) := by
  induction es generalizing c with
  | nil => exact Or.inl ⟨c, rfl, h⟩
  | cons e es ih =>
    rcases step_any f e h h0 with (⟨c1, h1, hst⟩ | ⟨er, c1, h1⟩) | ⟨hp, hs, hb⟩
    · rw [run_cons_ok _ _ _ _ _ h1]
      rcases ih hst with h2 | h2 | ⟨c', e', h2, hm, hb, hs⟩
      · exact Or.inl h2
      · exact Or.inr (Or.inl h2)
      · exact Or.inr (Or.inr ⟨c', e', h2, List.mem_cons_of_mem _ hm, hb, hs⟩)
    · exact Or.inr (Or.inl ⟨er, c1, run_cons_err _ _ _ _ _ _ h1⟩)
    · exact Or.inr (Or.inr ⟨c, e, run_cons_panic' _ _ _ _ _ hp, List.mem_cons_self, hb, hs⟩)

end SF.Unf
