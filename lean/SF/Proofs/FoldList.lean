/-
  Small list utilities for the C12 proofs (core Lean has no `List.Forall₂`).
-/
namespace SF.FoldProofs

/-- pointwise relation between two lists of the same length -/
inductive All2 {α β : Type} (R : α → β → Prop) : List α → List β → Prop
  | nil : All2 R [] []
  | cons {a b l₁ l₂} : R a b → All2 R l₁ l₂ → All2 R (a :: l₁) (b :: l₂)

theorem All2.length_eq {α β : Type} {R : α → β → Prop} {l₁ : List α} {l₂ : List β}
    (h : All2 R l₁ l₂) : l₁.length = l₂.length := by
  induction h with
  | nil => rfl
  | cons _ _ ih => simp [ih]

theorem All2.imp {α β : Type} {R S : α → β → Prop} {l₁ : List α} {l₂ : List β}
    (h : All2 R l₁ l₂) (hi : ∀ a b, a ∈ l₁ → b ∈ l₂ → R a b → S a b) : All2 S l₁ l₂ := by
  induction h with
  | nil => exact .nil
  | cons h1 _ ih =>
    refine .cons (hi _ _ (by simp) (by simp) h1) (ih ?_)
    intro a b ha hb
    exact hi a b (by simp [ha]) (by simp [hb])

theorem All2.append {α β : Type} {R : α → β → Prop} {a₁ a₂ : List α} {b₁ b₂ : List β}
    (h1 : All2 R a₁ b₁) (h2 : All2 R a₂ b₂) : All2 R (a₁ ++ a₂) (b₁ ++ b₂) := by
  induction h1 with
  | nil => exact h2
  | cons h _ ih => exact .cons h ih

/-- `mapM` in `Except`, unfolded -/
theorem mapM_nil {ε α β : Type} (f : α → Except ε β) : ([] : List α).mapM f = .ok [] := rfl

theorem mapM_cons {ε α β : Type} (f : α → Except ε β) (a : α) (l : List α) :
    (a :: l).mapM f =
      match f a with
      | .error e => .error e
      | .ok b => match l.mapM f with
        | .error e => .error e
        | .ok bs => .ok (b :: bs) := by
  rw [List.mapM_cons]
  cases f a with
  | error e => rfl
  | ok b =>
    simp only [bind, Except.bind]
    cases l.mapM f <;> rfl

theorem mapM_ok {ε α β : Type} {f : α → Except ε β} {l : List α} {bs : List β}
    (h : l.mapM f = .ok bs) : All2 (fun a b => f a = .ok b) l bs := by
  induction l generalizing bs with
  | nil =>
    rw [mapM_nil] at h
    cases h; exact .nil
  | cons a l ih =>
    rw [mapM_cons] at h
    cases ha : f a with
    | error e => simp [ha] at h
    | ok b =>
      cases hl : l.mapM f with
      | error e => simp [ha, hl] at h
      | ok bs' =>
        simp only [ha, hl] at h
        cases h
        exact .cons ha (ih hl)

theorem mapM_of_All2 {ε α β : Type} {f : α → Except ε β} {l : List α} {bs : List β}
    (h : All2 (fun a b => f a = .ok b) l bs) : l.mapM f = .ok bs := by
  induction h with
  | nil => rfl
  | cons h1 _ ih => rw [mapM_cons, h1, ih]

theorem All2.split_right {α β : Type} {R : α → β → Prop} {l₁ : List α} {l₂ : List β} {b : β}
    (h : All2 R l₁ l₂) (hb : b ∈ l₂) :
    ∃ pre a post pre' post', l₁ = pre ++ a :: post ∧ l₂ = pre' ++ b :: post' ∧
      All2 R pre pre' ∧ R a b ∧ All2 R post post' := by
  induction h with
  | nil => cases hb
  | @cons a0 b0 t1 t2 h1 ht ih =>
    rcases List.mem_cons.mp hb with rfl | hb'
    · exact ⟨[], a0, t1, [], t2, rfl, rfl, .nil, h1, ht⟩
    · obtain ⟨pre, a, post, pre', post', e1, e2, hp, hr, hq⟩ := ih hb'
      exact ⟨a0 :: pre, a, post, b0 :: pre', post', by simp [e1], by simp [e2], .cons h1 hp, hr, hq⟩

/-- a pointwise relation follows a permutation of its left list -/
theorem All2.perm {α β : Type} {R : α → β → Prop} {l₁ l₂ : List α} (hp : l₁.Perm l₂) :
    ∀ {m₁ : List β}, All2 R l₁ m₁ → ∃ m₂, m₁.Perm m₂ ∧ All2 R l₂ m₂ := by
  induction hp with
  | nil => intro m₁ h; cases h; exact ⟨[], .refl _, .nil⟩
  | cons x _ ih =>
    intro m₁ h
    cases h with
    | cons h1 ht =>
      obtain ⟨m₂, hp2, h2⟩ := ih ht
      exact ⟨_ :: m₂, hp2.cons _, .cons h1 h2⟩
  | swap x y l =>
    intro m₁ h
    cases h with
    | cons h1 ht =>
      cases ht with
      | cons h2 ht2 => exact ⟨_, List.Perm.swap _ _ _, .cons h2 (.cons h1 ht2)⟩
  | trans _ _ ih1 ih2 =>
    intro m₁ h
    obtain ⟨m₂, hp2, h2⟩ := ih1 h
    obtain ⟨m₃, hp3, h3⟩ := ih2 h2
    exact ⟨m₃, hp2.trans hp3, h3⟩

/-- two relations out of the same list combine -/
theorem All2.zip {α β γ : Type} {R : α → β → Prop} {S : α → γ → Prop} {T : γ → β → Prop}
    {l : List α} {a : List β} {b : List γ} (h1 : All2 R l a) (h2 : All2 S l b)
    (h : ∀ x y z, R x y → S x z → T z y) : All2 T b a := by
  induction h1 generalizing b with
  | nil => cases h2; exact .nil
  | cons r _ ih =>
    cases h2 with
    | cons s hs => exact .cons (h _ _ _ r s) (ih hs)

theorem All2.of_map_left {α β γ : Type} {R : γ → β → Prop} {f : α → γ} {l : List α} {m : List β}
    (h : All2 (fun a b => R (f a) b) l m) : All2 R (l.map f) m := by
  induction h with
  | nil => exact .nil
  | cons h1 _ ih => exact .cons h1 ih

theorem All2.map_right {α β γ : Type} {R : α → γ → Prop} (f : β → γ) {l : List α} {m : List β}
    (h : All2 (fun a b => R a (f b)) l m) : All2 R l (m.map f) := by
  induction h with
  | nil => exact .nil
  | cons h1 _ ih => exact .cons h1 ih

theorem All2.exists_right {α β : Type} {R : α → β → Prop} {l : List α}
    (h : ∀ a ∈ l, ∃ b, R a b) : ∃ m, All2 R l m := by
  induction l with
  | nil => exact ⟨[], .nil⟩
  | cons a l ih =>
    obtain ⟨b, hb⟩ := h a (by simp)
    obtain ⟨m, hm⟩ := ih (fun x hx => h x (by simp [hx]))
    exact ⟨b :: m, .cons hb hm⟩

theorem All2.mem_left {α β : Type} {R : α → β → Prop} {l : List α} {m : List β}
    (h : All2 R l m) {a : α} (ha : a ∈ l) : ∃ b ∈ m, R a b := by
  induction h with
  | nil => cases ha
  | cons h1 _ ih =>
    rcases List.mem_cons.mp ha with rfl | ha'
    · exact ⟨_, by simp, h1⟩
    · obtain ⟨b, hb, hr⟩ := ih ha'
      exact ⟨b, by simp [hb], hr⟩

theorem All2.mem_right {α β : Type} {R : α → β → Prop} {l : List α} {m : List β}
    (h : All2 R l m) {b : β} (hb : b ∈ m) : ∃ a ∈ l, R a b := by
  induction h with
  | nil => cases hb
  | cons h1 _ ih =>
    rcases List.mem_cons.mp hb with rfl | hb'
    · exact ⟨_, by simp, h1⟩
    · obtain ⟨a, ha, hr⟩ := ih hb'
      exact ⟨a, by simp [ha], hr⟩

end SF.FoldProofs
